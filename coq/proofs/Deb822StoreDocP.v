(* Lemmas about Deb822Store.v (C04H), part 4: the operations on the document handle:
   paragraphs().nth(i), remove_paragraph, add_paragraph / insert_paragraph, with what they do to
   handles of the root's children. *)
From V.model Require Import Base Deb822Lex Deb822Parse Deb822Edit Deb822Store.
From V.proofs Require Import BaseP Deb822EditP Deb822StoreP Deb822StoreOpsP Deb822StoreParaP.

(* ------------------------------------------------------------------ positions of paragraphs *)
Definition pidx (l : list tree) : nat := length (filter is_paragraph l).
Lemma pidx_app a b : pidx (a ++ b) = pidx a + pidx b.
Proof. unfold pidx. now rewrite filter_app, app_length. Qed.
Lemma pidx_cons_para P l : is_paragraph P = true -> pidx (P :: l) = S (pidx l).
Proof. intros H. unfold pidx. cbn [filter]. now rewrite H. Qed.
Lemma pidx_cons_other x l : is_paragraph x = false -> pidx (x :: l) = pidx l.
Proof. intros H. unfold pidx. cbn [filter]. now rewrite H. Qed.

Lemma para_slot_split rs : forall n off s, para_slot n rs off = Some s ->
  exists pre P post, rs = pre ++ P :: post /\ s = off + length pre /\ is_paragraph P = true /\ pidx pre = n.
Proof.
  induction rs as [|x r IH]; intros n off s H; [discriminate|]. cbn [para_slot] in H.
  destruct (is_paragraph x) eqn:Ex.
  - destruct n as [|n].
    + injection H as <-. exists [], x, r. cbn. repeat split; auto; lia.
    + destruct (IH _ _ _ H) as (pre & P & post & -> & -> & HP & <-). exists (x :: pre), P, post.
      rewrite (pidx_cons_para _ _ Ex). cbn [length app]. repeat split; auto; lia.
  - destruct (IH _ _ _ H) as (pre & P & post & -> & -> & HP & <-). exists (x :: pre), P, post.
    rewrite (pidx_cons_other _ _ Ex). cbn [length app]. repeat split; auto; lia.
Qed.
Lemma para_slot_at pre P post : is_paragraph P = true -> forall off,
  para_slot (pidx pre) (pre ++ P :: post) off = Some (off + length pre).
Proof.
  intros HP. induction pre as [|x r IH]; intros off; cbn [app para_slot length].
  - rewrite HP. cbn. f_equal. lia.
  - destruct (is_paragraph x) eqn:Ex.
    + rewrite (pidx_cons_para _ _ Ex). rewrite IH. f_equal. lia.
    + rewrite (pidx_cons_other _ _ Ex). rewrite IH. f_equal. lia.
Qed.
Lemma para_slot_none rs : forall n off, pidx rs <= n -> para_slot n rs off = None.
Proof.
  induction rs as [|x r IH]; intros n off H; [reflexivity|]. cbn [para_slot]. destruct (is_paragraph x) eqn:Ex.
  - rewrite (pidx_cons_para _ _ Ex) in H. destruct n; [lia|]. apply IH. lia.
  - rewrite (pidx_cons_other _ _ Ex) in H. now apply IH.
Qed.
Lemma para_slot_some rs n off : n < pidx rs -> exists s, para_slot n rs off = Some s.
Proof.
  revert n off; induction rs as [|x r IH]; intros n off H; [cbn in H; lia|]. cbn [para_slot]. destruct (is_paragraph x) eqn:Ex.
  - rewrite (pidx_cons_para _ _ Ex) in H. destruct n; [eauto|]. apply IH. lia.
  - rewrite (pidx_cons_other _ _ Ex) in H. now apply IH.
Qed.
Lemma map_nth_para_at f pre P post : is_paragraph P = true ->
  map_nth_para (pidx pre) f (pre ++ P :: post) = pre ++ Node PARAGRAPH (f (children P)) :: post.
Proof.
  intros HP. induction pre as [|x r IH]; cbn [app map_nth_para].
  - now rewrite HP.
  - destruct (is_paragraph x) eqn:Ex.
    + rewrite (pidx_cons_para _ _ Ex). now rewrite IH.
    + rewrite (pidx_cons_other _ _ Ex). now rewrite IH.
Qed.
Lemma map_nth_para_none f rs : forall n, pidx rs <= n -> map_nth_para n f rs = rs.
Proof.
  induction rs as [|x r IH]; intros n H; [reflexivity|]. cbn [map_nth_para]. destruct (is_paragraph x) eqn:Ex.
  - rewrite (pidx_cons_para _ _ Ex) in H. destruct n; [lia|]. f_equal. apply IH. lia.
  - rewrite (pidx_cons_other _ _ Ex) in H. f_equal. now apply IH.
Qed.
Lemma is_paragraph_node P : is_paragraph P = true -> P = Node PARAGRAPH (children P).
Proof.
  destruct P as [k s|k cs]; [discriminate|]. unfold is_paragraph, is_kind. cbn [is_node andb ekind children].
  intros H. destruct k; try discriminate. reflexivity.
Qed.

Lemma NoDup2 (a b : nat) : a <> b -> NoDup [a; b].
Proof. intros H. constructor; [intros [E|[]]; congruence|]. constructor; [intros []|constructor]. Qed.
Lemma NoDup1 (a : nat) : NoDup [a].
Proof. constructor; [intros []|constructor]. Qed.
Lemma hnd1_eq tid a b : a = b -> mk_hnd tid [a] = mk_hnd tid [b].
Proof. now intros ->. Qed.

(* ------------------------------------------------------------------ paragraphs().nth(i) *)
Lemma nth_paragraph_spec ts rs tid ri k cs i :
  nth_error rs 0 = Some (Some (mk_hnd tid [])) -> nth_error ts tid = Some (mk_slot ri (Node k cs)) ->
  runs (nth_paragraph 0 i) (mk_state ts rs)
       (match para_slot i cs 0 with Some s => Some (mk_hnd tid ([] ++ [s])) | None => None end) (mk_state ts rs).
Proof.
  intros Hr HT. unfold nth_paragraph. rbind; [apply runs_get_reg; exact Hr|].
  rbind; [eapply runs_children_of; [exact HT|reflexivity]|]. cbn [s_tree children]. rdone.
Qed.

(* ------------------------------------------------------------------ remove_paragraph *)
Definition blank_follows (post : list tree) : bool :=
  match post with x :: _ => kind_eqb (ekind x) EMPTY_LINE | [] => false end.
Definition after_removed (post : list tree) : list tree := if blank_follows post then tl post else post.

Lemma remove_paragraph_at pre P post : is_paragraph P = true ->
  remove_paragraph (Node ROOT (pre ++ P :: post)) (pidx pre) = Node ROOT (pre ++ after_removed post).
Proof.
  intros HP. unfold remove_paragraph. cbn [children]. rewrite (para_slot_at pre P post HP 0). cbn [Nat.add].
  rewrite delete_at_app_len. unfold delete_trailing_space, after_removed, blank_follows.
  destruct post as [|x post'].
  - rewrite (proj2 (nth_error_None (pre ++ []) (length pre))) by (rewrite app_length; cbn; lia). reflexivity.
  - rewrite nth_error_app_len. destruct (kind_eqb (ekind x) EMPTY_LINE); [|reflexivity]. cbn [tl]. now rewrite delete_at_app_len.
Qed.

Lemma remove_paragraph_spec ts rs tid ri pre P post :
  nth_error rs 0 = Some (Some (mk_hnd tid [])) ->
  nth_error ts tid = Some (mk_slot ri (Node ROOT (pre ++ P :: post))) -> is_paragraph P = true ->
  exists ts' F,
    runs (remove_paragraph_m 0 (pidx pre)) (mk_state ts rs) tt (mk_state ts' (map (option_map F) rs)) /\
    length ts <= length ts' /\
    nth_error ts' tid = Some (mk_slot ri (Node ROOT (pre ++ after_removed post))) /\
    nth_error ts' (length ts) = Some (mk_slot (length pre) P) /\
    (forall j, j <> tid -> j < length ts -> nth_error ts' j = nth_error ts j) /\
    (forall g, h_tid g < length ts -> h_tid g <> tid -> F g = g) /\
    F (mk_hnd tid []) = mk_hnd tid [] /\
    (forall c, c < length pre -> F (mk_hnd tid [c]) = mk_hnd tid [c]) /\
    F (mk_hnd tid [length pre]) = mk_hnd (length ts) [] /\
    (forall c, length pre + (if blank_follows post then 1 else 0) < c ->
               F (mk_hnd tid [c]) = mk_hnd tid [c - 1 - (if blank_follows post then 1 else 0)]).
Proof.
  intros Hr HT HP. pose proof (nth_error_Some_lt _ _ _ HT) as Hlt.
  set (T := Node ROOT (pre ++ P :: post)) in *.
  assert (HG : get_path T [] = Some (Node ROOT (pre ++ P :: post))) by reflexivity.
  destruct (splice_delete_spec ts rs 0 tid ri T [] ROOT pre P post Hr HT HG) as (ts1 & R1 & L1 & T1 & N1 & O1).
  set (F1 := rebase_detach tid [] (length pre) (length ts)) in *.
  cbn [upd_path] in T1.
  assert (Hr1 : nth_error (map (option_map F1) rs) 0 = Some (Some (mk_hnd tid []))).
  { rewrite (nth_error_map_reg F1 _ _ _ Hr). unfold F1. now rewrite rebase_detach_outside by apply outside_self. }
  assert (Hhead : forall st' x, runs (delete_trailing_space_m 0 (length pre)) (mk_state ts1 (map (option_map F1) rs)) x st' ->
            runs (remove_paragraph_m 0 (pidx pre)) (mk_state ts rs) x st').
  { intros st' x R. unfold remove_paragraph_m. rbind; [eapply nth_paragraph_spec; [exact Hr|exact HT]|].
    rewrite (para_slot_at pre P post HP 0). cbn [Nat.add app]. change [length pre] with ([] ++ [length pre]). rewrite parent_h_app.
    rbind; [exact R1|]. exact R. }
  unfold after_removed, blank_follows. destruct post as [|x post'].
  - exists ts1, F1. split; [|split; [lia|split; [exact T1|split; [exact N1|split; [exact O1|]]]]].
    + apply Hhead. unfold delete_trailing_space_m. rbind; [apply runs_get_reg; exact Hr1|].
      rbind; [eapply runs_children_of; [exact T1|reflexivity]|]. cbn [s_tree children].
      rewrite (proj2 (nth_error_None (pre ++ []) (length pre))) by (rewrite app_length; cbn; lia). rdone.
    + split; [intros g Hg Ht; unfold F1; now rewrite rebase_detach_outside by (apply outside_other; exact Ht)|].
      split; [unfold F1; now rewrite rebase_detach_outside by apply outside_self|].
      split; [intros c Hc; unfold F1; now rewrite (rebase_detach_before tid [] (length pre) _ c []) by lia|].
      split; [unfold F1; apply (rebase_detach_at tid [] (length pre) _ [])|].
      intros c Hc. unfold F1. rewrite (rebase_detach_after tid [] (length pre) _ c []) by lia. cbn [app]. apply hnd1_eq; lia.
  - destruct (kind_eqb (ekind x) EMPTY_LINE) eqn:Ex.
    + set (T1' := Node ROOT (pre ++ x :: post')) in *.
      assert (HG1 : get_path T1' [] = Some (Node ROOT (pre ++ x :: post'))) by reflexivity.
      destruct (splice_delete_spec ts1 (map (option_map F1) rs) 0 tid ri T1' [] ROOT pre x post' Hr1 T1 HG1) as (ts2 & R2 & L2 & T2 & N2 & O2).
      set (F2 := rebase_detach tid [] (length pre) (length ts1)) in *. cbn [upd_path] in T2.
      exists ts2, (fun g => F2 (F1 g)). rewrite <- map_option_map_comp.
      split; [|split; [lia|split; [exact T2|split; [|split]]]].
      * apply Hhead. unfold delete_trailing_space_m. rbind; [apply runs_get_reg; exact Hr1|].
        rbind; [eapply runs_children_of; [exact T1|reflexivity]|]. unfold T1'. cbn [s_tree children].
        rewrite nth_error_app_len, Ex. exact R2.
      * rewrite O2 by lia. exact N1.
      * intros j H1 H2. rewrite O2 by lia. now apply O1.
      * split; [intros g Hg Ht; unfold F1, F2; rewrite (rebase_detach_outside tid [] (length pre) (length ts) g) by (apply outside_other; exact Ht);
                now rewrite rebase_detach_outside by (apply outside_other; exact Ht)|].
        split; [unfold F1, F2; rewrite (rebase_detach_outside tid [] (length pre) (length ts)) by apply outside_self;
                now rewrite rebase_detach_outside by apply outside_self|].
        split; [intros c Hc; unfold F1, F2; now rewrite !(rebase_detach_before tid [] (length pre) _ c []) by lia|].
        split.
        { unfold F1. rewrite (rebase_detach_at tid [] (length pre) _ []). unfold F2. apply rebase_detach_outside, outside_other. cbn. lia. }
        intros c Hc. unfold F1. rewrite (rebase_detach_after tid [] (length pre) _ c []) by lia.
        unfold F2. rewrite (rebase_detach_after tid [] (length pre) _ (c - 1) []) by lia. cbn [app]. apply hnd1_eq; lia.
    + exists ts1, F1. split; [|split; [lia|split; [exact T1|split; [exact N1|split; [exact O1|]]]]].
      * apply Hhead. unfold delete_trailing_space_m. rbind; [apply runs_get_reg; exact Hr1|].
        rbind; [eapply runs_children_of; [exact T1|reflexivity]|]. cbn [s_tree children].
        rewrite nth_error_app_len, Ex. rdone.
      * split; [intros g Hg Ht; unfold F1; now rewrite rebase_detach_outside by (apply outside_other; exact Ht)|].
        split; [unfold F1; now rewrite rebase_detach_outside by apply outside_self|].
        split; [intros c Hc; unfold F1; now rewrite (rebase_detach_before tid [] (length pre) _ c []) by lia|].
        split; [unfold F1; apply (rebase_detach_at tid [] (length pre) _ [])|].
        intros c Hc. unfold F1. rewrite (rebase_detach_after tid [] (length pre) _ c []) by lia. cbn [app]. apply hnd1_eq; lia.
Qed.

Lemma remove_paragraph_none_spec ts rs tid ri cs i :
  nth_error rs 0 = Some (Some (mk_hnd tid [])) -> nth_error ts tid = Some (mk_slot ri (Node ROOT cs)) -> pidx cs <= i ->
  runs (remove_paragraph_m 0 i) (mk_state ts rs) tt (mk_state ts rs) /\ remove_paragraph (Node ROOT cs) i = Node ROOT cs.
Proof.
  intros Hr HT Hi. split.
  - unfold remove_paragraph_m. rbind; [eapply nth_paragraph_spec; [exact Hr|exact HT]|].
    rewrite (para_slot_none cs i 0 Hi). rdone.
  - unfold remove_paragraph. cbn [children]. now rewrite (para_slot_none cs i 0 Hi).
Qed.

(* ------------------------------------------------------------------ add_paragraph / insert_paragraph *)
Definition new_blocks (index : option nat) (has : bool) : list tree :=
  match index with
  | Some _ => Node PARAGRAPH [] :: (if has then [blank_line_node] else [])
  | None => (if has then [blank_line_node] else []) ++ [Node PARAGRAPH []]
  end.
Definition new_para_offset (index : option nat) (has : bool) : nat :=
  match index with Some _ => 0 | None => if has then 1 else 0 end.

Lemma insert_empty_paragraph_eq cs index :
  insert_empty_paragraph cs index =
  let cs1 := match index with None => ensure_nl_list cs | Some _ => cs end in
  insert_at (match index with Some i => i | None => count_nodes cs1 end) (new_blocks index (0 <? count_nodes cs1)) cs1.
Proof.
  unfold insert_empty_paragraph, new_blocks. destruct index as [i|]; cbv zeta.
  - destruct (count_nodes cs); reflexivity.
  - destruct (count_nodes (ensure_nl_list cs)); reflexivity.
Qed.

Lemma firstn_regs (F : hnd -> hnd) (rs tmps : list (option hnd)) :
  firstn (length rs) (map (option_map F) (rs ++ tmps)) = map (option_map F) rs.
Proof. apply scoped_regs. Qed.

(* the block that splices the new paragraph (and a blank line) in *)
Lemma insert_block_spec ts rs tid ri cs tp dst index :
  nth_error rs 0 = Some (Some (mk_hnd tid [])) -> nth_error rs dst = Some (Some (mk_hnd tp [])) ->
  nth_error ts tid = Some (mk_slot ri (Node ROOT cs)) -> nth_error ts tp = Some (mk_slot 0 (Node PARAGRAPH [])) -> tid <> tp ->
  let has := 0 <? count_nodes cs in
  let idx := match index with Some i => i | None => count_nodes cs end in
  idx <= length cs ->
  exists ts' F,
    runs (insert_block 0 index dst cs) (mk_state ts rs) tt (mk_state ts' (map (option_map F) rs)) /\
    length ts <= length ts' /\
    nth_error ts' tid = Some (mk_slot ri (Node ROOT (insert_at idx (new_blocks index has) cs))) /\
    (forall j, j <> tid -> j <> tp -> j < length ts -> nth_error ts' j = nth_error ts j) /\
    F (mk_hnd tp []) = mk_hnd tid [idx + new_para_offset index has] /\
    (forall g, h_tid g < length ts -> h_tid g <> tp -> outside tid [] g -> F g = g) /\
    (forall c, F (mk_hnd tid [c]) = mk_hnd tid [if idx <=? c then c + length (new_blocks index has) else c]).
Proof.
  intros Hr Hd HT HP Hne has idx Hidx. pose proof (nth_error_Some_lt _ _ _ HT) as Hlt. pose proof (nth_error_Some_lt _ _ _ HP) as Hlp.
  set (T := Node ROOT cs) in *.
  assert (HG : get_path T [] = Some (Node ROOT cs)) by reflexivity.
  set (rs1 := rs ++ [Some (mk_hnd tp [])]).
  assert (Hr1 : nth_error rs1 0 = Some (Some (mk_hnd tid []))) by (unfold rs1; now apply nth_error_app_l).
  assert (Hp1 : nth_error rs1 (length rs) = Some (Some (mk_hnd tp []))) by (unfold rs1; apply nth_error_app_at).
  destruct has eqn:Ehas.
  - (* a blank line goes with it *)
    set (ts1 := ts ++ [mk_slot 0 blank_line_node]). set (rs2 := rs1 ++ [Some (mk_hnd (length ts) [])]).
    assert (Hr2 : nth_error rs2 0 = Some (Some (mk_hnd tid []))) by (unfold rs2; now apply nth_error_app_l).
    assert (Hp2 : nth_error rs2 (length rs) = Some (Some (mk_hnd tp []))) by (unfold rs2; now apply nth_error_app_l).
    assert (Hb2 : nth_error rs2 (S (length rs)) = Some (Some (mk_hnd (length ts) []))).
    { unfold rs2. replace (S (length rs)) with (length rs1) by (unfold rs1; rewrite app_length; cbn; lia). apply nth_error_app_at. }
    assert (HT1 : nth_error ts1 tid = Some (mk_slot ri T)) by (unfold ts1; now apply nth_error_app_l).
    assert (HP1 : nth_error ts1 tp = Some (mk_slot 0 (Node PARAGRAPH []))) by (unfold ts1; now apply nth_error_app_l).
    assert (HB1 : nth_error ts1 (length ts) = Some (mk_slot 0 blank_line_node)) by (unfold ts1; apply nth_error_app_at).
    assert (Hhead : forall crs st', runs (m_splice 0 idx idx crs) (mk_state ts1 rs2) tt st' ->
              crs = match index with Some _ => length rs :: [S (length rs)] | None => [S (length rs)] ++ [length rs] end ->
              runs (scoped (rp <- (ph <- get_reg dst ;; push_tmp ph) ;;
                            blank <- (if 0 <? count_nodes cs then b <- alloc blank_line_node ;; rb <- push_tmp b ;; ret [rb] else ret []) ;;
                            match index with
                            | Some i => m_splice 0 i i (rp :: blank)
                            | None => m_splice 0 (count_nodes cs) (count_nodes cs) (blank ++ [rp])
                            end)) (mk_state ts rs) tt
                   (mk_state (trees st') (firstn (length rs) (regs st')))).
    { intros crs [ts' rs'] R ->. cbn [trees regs]. apply runs_scoped.
      rbind; [rbind; [apply runs_get_reg; exact Hd|]; apply runs_push_tmp|]. fold rs1.
      fold has. rewrite Ehas. rbind.
      { rbind; [apply runs_alloc|]. fold ts1. rbind; [apply runs_push_tmp|]. rdone. }
      fold rs2. replace (length rs1) with (S (length rs)) by (unfold rs1; rewrite app_length; cbn; lia).
      unfold idx in R. destruct index; exact R. }
    destruct index as [i|].
    + destruct (splice_insert_roots_spec [length rs; S (length rs)] [tp; length ts] [Node PARAGRAPH []; blank_line_node] idx ts1 rs2 0 tid ri T [] ROOT cs
                  Hr2 HT1 HG Hidx eq_refl eq_refl) as (ts3 & F & R & L3 & T3 & O3 & S3 & A3 & B3).
      { apply NoDup2. lia. }
      { intros [E|[E|[]]]; lia. }
      { intros j cr tc C H1 H2 H3. destruct j as [|[|j]]; cbn in H1, H2, H3; [| |destruct j; discriminate].
        - injection H1 as <-. injection H2 as <-. injection H3 as <-. split; [exact Hp2|now exists 0].
        - injection H1 as <-. injection H2 as <-. injection H3 as <-. split; [exact Hb2|now exists 0]. }
      exists ts3, F. split; [|split; [unfold ts1 in L3; rewrite app_length in L3; cbn in L3; lia|split; [exact T3|split; [|split; [|split]]]]].
      * unfold insert_block. eapply runs_eq; [eapply Hhead; [exact R|reflexivity]|reflexivity|]. cbn [trees regs]. f_equal.
        unfold rs2, rs1. rewrite <- app_assoc. apply firstn_regs.
      * intros j H1 H2 H3. rewrite O3; [unfold ts1; now rewrite nth_error_app1 by lia|exact H1|intros [E|[E|[]]]; lia].
      * rewrite (S3 0 tp eq_refl). cbn [app new_para_offset]. now rewrite !Nat.add_0_r.
      * intros g Hg Ht Ho. apply A3; [intros [E|[E|[]]]; lia|exact Ho].
      * intros c. exact (B3 c []).
    + destruct (splice_insert_roots_spec [S (length rs); length rs] [length ts; tp] [blank_line_node; Node PARAGRAPH []] idx ts1 rs2 0 tid ri T [] ROOT cs
                  Hr2 HT1 HG Hidx eq_refl eq_refl) as (ts3 & F & R & L3 & T3 & O3 & S3 & A3 & B3).
      { apply NoDup2. lia. }
      { intros [E|[E|[]]]; lia. }
      { intros j cr tc C H1 H2 H3. destruct j as [|[|j]]; cbn in H1, H2, H3; [| |destruct j; discriminate].
        - injection H1 as <-. injection H2 as <-. injection H3 as <-. split; [exact Hb2|now exists 0].
        - injection H1 as <-. injection H2 as <-. injection H3 as <-. split; [exact Hp2|now exists 0]. }
      exists ts3, F. split; [|split; [unfold ts1 in L3; rewrite app_length in L3; cbn in L3; lia|split; [exact T3|split; [|split; [|split]]]]].
      * unfold insert_block. eapply runs_eq; [eapply Hhead; [exact R|reflexivity]|reflexivity|]. cbn [trees regs]. f_equal.
        unfold rs2, rs1. rewrite <- app_assoc. apply firstn_regs.
      * intros j H1 H2 H3. rewrite O3; [unfold ts1; now rewrite nth_error_app1 by lia|exact H1|intros [E|[E|[]]]; lia].
      * rewrite (S3 1 tp eq_refl). reflexivity.
      * intros g Hg Ht Ho. apply A3; [intros [E|[E|[]]]; lia|exact Ho].
      * intros c. exact (B3 c []).
  - (* the document has no node yet: the paragraph alone *)
    destruct (splice_insert_roots_spec [length rs] [tp] [Node PARAGRAPH []] idx ts rs1 0 tid ri T [] ROOT cs
                Hr1 HT HG Hidx eq_refl eq_refl) as (ts3 & F & R & L3 & T3 & O3 & S3 & A3 & B3).
    { apply NoDup1. }
    { intros [E|[]]; lia. }
    { intros j cr tc C H1 H2 H3. destruct j as [|j]; cbn in H1, H2, H3; [|destruct j; discriminate].
      injection H1 as <-. injection H2 as <-. injection H3 as <-. split; [exact Hp1|now exists 0]. }
    exists ts3, F. split; [|split; [lia|split; [|split; [|split; [|split]]]]].
    + unfold insert_block. eapply runs_eq; [apply runs_scoped|reflexivity|].
      * rbind; [rbind; [apply runs_get_reg; exact Hd|]; apply runs_push_tmp|]. fold rs1.
        fold has. rewrite Ehas. rbind; [rdone|]. cbn [app]. unfold idx in R. destruct index; exact R.
      * f_equal. unfold rs1. apply firstn_regs.
    + rewrite T3. unfold new_blocks. destruct index; reflexivity.
    + intros j H1 H2 H3. apply O3; [exact H1|intros [E|[]]; lia].
    + rewrite (S3 0 tp eq_refl). cbn [app]. unfold new_para_offset. destruct index; reflexivity.
    + intros g Hg Ht Ho. apply A3; [intros [E|[]]; lia|exact Ho].
    + intros c. pose proof (B3 c []) as Hc. cbn [app] in Hc. rewrite Hc. unfold new_blocks. destruct index; reflexivity.
Qed.

Lemma nth_error_set_reg_l_eq r o l : nth_error (set_reg_l r o l) r = Some o.
Proof. revert l; induction r as [|r IH]; intros [|x l]; cbn; auto. Qed.
Lemma nth_error_set_reg_l_neq r q o l : q <> r -> q < length l -> nth_error (set_reg_l r o l) q = nth_error l q.
Proof.
  revert q l; induction r as [|r IH]; intros [|q] [|x l] H1 H2; cbn in *; try lia; auto. apply IH; lia.
Qed.
Lemma count_nodes_le (l : list tree) : count_nodes l <= length l.
Proof. unfold count_nodes. induction l as [|x r IH]; [cbn; lia|]. cbn [filter length]. destruct (is_node x); cbn [length]; lia. Qed.

Theorem insert_empty_paragraph_spec ts rs tid ri cs index dst :
  nth_error rs 0 = Some (Some (mk_hnd tid [])) -> dst <> 0 ->
  nth_error ts tid = Some (mk_slot ri (Node ROOT cs)) ->
  match index with Some i => i <= length cs | None => True end ->
  let cs1 := match index with None => ensure_nl_list cs | Some _ => cs end in
  let has := 0 <? count_nodes cs1 in
  let idx := match index with Some i => i | None => count_nodes cs1 end in
  exists ts' F,
    runs (insert_empty_paragraph_m 0 index dst) (mk_state ts rs) tt
         (mk_state ts' (map (option_map F) (set_reg_l dst (Some (mk_hnd (length ts) [])) rs))) /\
    length ts <= length ts' /\
    nth_error ts' tid = Some (mk_slot ri (Node ROOT (insert_empty_paragraph cs index))) /\
    (forall j, j <> tid -> j < length ts -> nth_error ts' j = nth_error ts j) /\
    F (mk_hnd (length ts) []) = mk_hnd tid [idx + new_para_offset index has] /\
    (forall g, h_tid g < length ts -> h_tid g <> tid -> F g = g) /\
    F (mk_hnd tid []) = mk_hnd tid [] /\
    (forall c, c < length cs -> F (mk_hnd tid [c]) = mk_hnd tid [if idx <=? c then c + length (new_blocks index has) else c]).
Proof.
  intros Hr Hd HT Hi cs1 has idx. pose proof (nth_error_Some_lt _ _ _ HT) as Hlt. pose proof (nth_error_Some_lt _ _ _ Hr) as Hlr.
  set (tp := length ts). set (ts1 := ts ++ [mk_slot 0 (Node PARAGRAPH [])]).
  set (rs1 := set_reg_l dst (Some (mk_hnd tp [])) rs).
  assert (Hr1 : nth_error rs1 0 = Some (Some (mk_hnd tid []))) by (unfold rs1; rewrite nth_error_set_reg_l_neq by (auto; lia); exact Hr).
  assert (Hd1 : nth_error rs1 dst = Some (Some (mk_hnd tp []))) by (unfold rs1; apply nth_error_set_reg_l_eq).
  assert (HT1 : nth_error ts1 tid = Some (mk_slot ri (Node ROOT cs))) by (unfold ts1; now apply nth_error_app_l).
  assert (HP1 : nth_error ts1 tp = Some (mk_slot 0 (Node PARAGRAPH []))) by (unfold ts1, tp; apply nth_error_app_at).
  assert (L1 : length ts1 = S (length ts)) by (unfold ts1; rewrite app_length; cbn; lia).
  (* the state after the optional ensure_trailing_newline *)
  assert (Hens : exists ts2 F1,
            runs (match index with None => ensure_trailing_newline 0 | Some _ => ret tt end) (mk_state ts1 rs1) tt
                 (mk_state ts2 (map (option_map F1) rs1)) /\
            length ts1 <= length ts2 /\ nth_error ts2 tid = Some (mk_slot ri (Node ROOT cs1)) /\
            (forall j, j <> tid -> j < length ts1 -> nth_error ts2 j = nth_error ts1 j) /\
            (forall g, h_tid g < length ts1 -> near tid [] (length cs) g -> F1 g = g)).
  { unfold cs1. destruct index as [i|].
    - exists ts1, (fun g => g). rewrite map_option_map_id. split; [rdone|]. repeat split; auto.
    - destruct (ensure_trailing_newline_spec ts1 rs1 0 tid ri (Node ROOT cs) [] ROOT cs Hr1 HT1 eq_refl) as (ts2 & F1 & R & L & T2 & O & A).
      exists ts2, F1. cbn [upd_path] in T2. auto. }
  destruct Hens as (ts2 & F1 & R1 & L2 & T2 & O2 & A2).
  assert (F1r : F1 (mk_hnd tid []) = mk_hnd tid []) by (apply A2; [cbn; lia|left; apply outside_self]).
  assert (F1p : F1 (mk_hnd tp []) = mk_hnd tp []) by (apply A2; [cbn; unfold tp; lia|left; apply outside_other; cbn; unfold tp; lia]).
  set (rs2 := map (option_map F1) rs1) in *.
  assert (Hr2 : nth_error rs2 0 = Some (Some (mk_hnd tid []))) by (unfold rs2; rewrite (nth_error_map_reg F1 _ _ _ Hr1); now rewrite F1r).
  assert (Hd2 : nth_error rs2 dst = Some (Some (mk_hnd tp []))) by (unfold rs2; rewrite (nth_error_map_reg F1 _ _ _ Hd1); now rewrite F1p).
  assert (HP2 : nth_error ts2 tp = Some (mk_slot 0 (Node PARAGRAPH []))) by (rewrite O2 by (unfold tp; lia); exact HP1).
  assert (Hidx : idx <= length cs1).
  { unfold idx, cs1. destruct index as [i|]; [exact Hi|apply count_nodes_le]. }
  destruct (insert_block_spec ts2 rs2 tid ri cs1 tp dst index Hr2 Hd2 T2 HP2 ltac:(unfold tp; lia) Hidx)
    as (ts3 & F2 & R2 & L3 & T3 & O3 & S3 & A3 & B3).
  exists ts3, (fun g => F2 (F1 g)). unfold rs2 in R2. rewrite map_option_map_comp in R2.
  split; [|split; [lia|split; [|split; [|split; [|split; [|split]]]]]].
  - unfold insert_empty_paragraph_m. unfold paragraph_new_m. rbind; [apply runs_alloc|]. fold ts1.
    rbind; [apply runs_set_reg|]. fold tp rs1. change (paragraph_of_pairs []) with (Node PARAGRAPH []) in *.
    rbind; [exact R1|]. rbind; [apply runs_get_reg; exact Hr2|].
    rbind; [eapply runs_children_of; [exact T2|reflexivity]|]. cbn [s_tree children]. exact R2.
  - rewrite T3. now rewrite insert_empty_paragraph_eq.
  - intros j H1 H2. rewrite O3 by (unfold tp; lia). rewrite O2 by lia. unfold ts1. now rewrite nth_error_app1 by lia.
  - fold tp. rewrite F1p. exact S3.
  - intros g Hg Ht. rewrite A2 by (try lia; left; apply outside_other; exact Ht).
    apply A3; [lia|unfold tp; lia|apply outside_other; exact Ht].
  - rewrite F1r. apply A3; [cbn; lia|cbn; unfold tp; lia|apply outside_self].
  - intros c Hc. rewrite A2; [apply B3|cbn; lia|right; split; [reflexivity|exists c; auto]].
Qed.
