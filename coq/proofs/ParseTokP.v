(* Every document the reader returns without an error is a token document (WrapTokP.token_doc):
   its entries consist of non-empty tokens KEY, COLON, WHITESPACE, VALUE, NEWLINE, INDENT, COMMENT;
   its paragraphs of such entries and of COMMENT / NEWLINE tokens; its root of such paragraphs and
   of EMPTY_LINE nodes of tokens.  So the token-level theorems of C07 speak about every error-free
   document. *)
From V.model Require Import Base Deb822Lex Deb822Parse Deb822Edit Deb822Wrap WrapSpec.
From V.proofs Require Import BaseP Deb822LexP Deb822ParseP Deb822WrapP WrapTokP.

Definition ne_toks (ts : list token) : Prop := Forall (fun t => snd t <> []) ts.
(* a non-empty token whose kind satisfies p *)
Definition tokp (p : kind -> bool) (c : tree) : bool :=
  match c with Tok k s => p k && negb (is_nil s) | Node _ _ => false end.
Notation etok := (tokp tkind).

Lemma ne_tail t ts : ne_toks (t :: ts) -> snd t <> [] /\ ne_toks ts.
Proof. intros H. inversion H; subst. split; assumption. Qed.

Lemma tokp_mono (p q : kind -> bool) l : (forall k, p k = true -> q k = true) -> forallb (tokp p) l = true -> forallb (tokp q) l = true.
Proof.
  intros Hpq. induction l as [|c r IH]; [reflexivity|]. cbn [forallb]. intros H. apply andb_true_iff in H. destruct H as [H1 H2].
  rewrite (IH H2), andb_true_r. destruct c as [k s|]; [|discriminate]. cbn [tokp] in *. apply andb_true_iff in H1. destruct H1 as [A B].
  rewrite (Hpq k A), B. reflexivity.
Qed.

Lemma bump_while_tok p ts : forall e r, ne_toks ts -> bump_while p ts = (e, r) -> forallb (tokp p) e = true /\ ne_toks r.
Proof.
  induction ts as [|[k s] ts IH]; intros e r Hne H; cbn [bump_while] in H.
  - injection H as <- <-. split; [reflexivity|constructor].
  - destruct (p k) eqn:Ep.
    + destruct (bump_while p ts) as [e' r'] eqn:E. injection H as <- <-. destruct (ne_tail _ _ Hne) as [Hs Ht]. cbn [snd] in Hs.
      destruct (IH e' r' Ht eq_refl) as [A B]. split; [|exact B]. cbn [forallb tokp]. rewrite Ep, A. destruct s; [congruence|reflexivity].
    + injection H as <- <-. split; [reflexivity|exact Hne].
Qed.

Lemma ws_or_comment_tkind k : is_ws_or_comment k = true -> tkind k = true.
Proof. destruct k; try discriminate; reflexivity. Qed.
Lemma ws_or_value_tkind k : is_ws_or_value k = true -> tkind k = true.
Proof. destruct k; try discriminate; reflexivity. Qed.

Lemma pe_expect_tok k ts e r : tkind k = true -> ne_toks ts -> pe_expect k ts = (e, r, 0) -> forallb etok e = true /\ ne_toks r.
Proof.
  intros Hk Hne H. unfold pe_expect in H. destruct ts as [|[k' s] ts]; [discriminate|].
  destruct (kind_eqb k' k) eqn:Ek; [|discriminate].
  destruct (skip_ws ts) as [e' r'] eqn:E. injection H as <- <-. destruct (ne_tail _ _ Hne) as [Hs Ht]. cbn [snd] in Hs.
  destruct (bump_while_tok _ ts e' r' Ht E) as [A B]. split; [|exact B].
  cbn [forallb]. rewrite (tokp_mono _ tkind e' ws_or_comment_tkind A), andb_true_r. cbn [tokp].
  assert (k' = k) by (destruct k', k; try discriminate; reflexivity). subst k'. rewrite Hk. destruct s; [congruence|reflexivity].
Qed.

Lemma pe_lines_tok fuel : forall ts e r, ne_toks ts -> pe_lines fuel ts = Ok (e, r, 0) -> forallb etok e = true /\ ne_toks r.
Proof.
  induction fuel as [|f IH]; intros ts e r Hne H; [discriminate|]. cbn [pe_lines] in H.
  destruct (bump_while is_ws_or_value ts) as [e1 r1] eqn:E1. destruct (bump_while_tok _ ts e1 r1 Hne E1) as [A1 B1].
  pose proof (tokp_mono _ tkind e1 ws_or_value_tkind A1) as A1'.
  destruct r1 as [|[k s] r2]; [injection H as <- <-; split; [exact A1'|constructor]|].
  destruct (ne_tail _ _ B1) as [Hs B2]. cbn [snd] in Hs.
  assert (Hk : forall n2 e2, (let '(e2', n2') := match k with NEWLINE => ([Tok k s], 0) | _ => ([Node ERROR [Tok k s]], 1) end in (e2', n2')) = (e2, n2) -> n2 = 0 -> k = NEWLINE /\ e2 = [Tok NEWLINE s])
    by (intros n2 e2 Hm Hn; destruct k; injection Hm as <- <-; try discriminate; split; reflexivity).
  destruct (match k with NEWLINE => ([Tok k s], 0) | _ => ([Node ERROR [Tok k s]], 1) end) as [e2 n2] eqn:E2.
  destruct r2 as [|[k3 s3] r3].
  - injection H as <- <- Hn. assert (n2 = 0) by lia. destruct (Hk n2 e2 eq_refl H) as [-> ->]. split; [|constructor].
    rewrite forallb_app, A1'. cbn [forallb tokp tkind ckind]. destruct s; [congruence|reflexivity].
  - destruct k3.
    all: try (injection H as <- <- Hn; assert (Hn2 : n2 = 0) by lia; destruct (Hk n2 e2 eq_refl Hn2) as [-> ->]; split; [|exact B2];
              rewrite forallb_app, A1'; cbn [forallb tokp tkind ckind]; destruct s; [congruence|reflexivity]).
    destruct (skip_ws r3) as [e3 r4] eqn:E3. destruct (ne_tail _ _ B2) as [Hs3 B3]. cbn [snd] in Hs3.
    destruct (bump_while_tok _ r3 e3 r4 B3 E3) as [A3 B4].
    destruct (pe_lines f r4) as [[[e5 r5] n5]| | |] eqn:E5; try discriminate. injection H as <- <- Hn.
    assert (Hn2 : n2 = 0) by lia. assert (Hn5 : n5 = 0) by lia. subst n5. destruct (Hk n2 e2 eq_refl Hn2) as [-> ->].
    destruct (IH r4 e5 r5 B4 E5) as [A5 B5]. split; [|exact B5].
    rewrite !forallb_app, A1'. cbn [forallb]. rewrite forallb_app, (tokp_mono _ tkind e3 ws_or_comment_tkind A3), A5.
    cbn [tokp tkind ckind]. destruct s; [congruence|]. destruct s3; [congruence|reflexivity].
Qed.

Definition loosek (k : kind) : bool := match k with COMMENT | NEWLINE => true | _ => false end.
(* a child of a paragraph: a loose token, or an entry of non-empty tokens *)
Definition pchild' (c : tree) : bool :=
  tokp loosek c || match c with Node ENTRY cs => forallb etok cs | _ => false end.

Lemma pe_comments_tok m : forall ts e r b, length ts <= m -> ne_toks ts -> pe_comments ts = (e, r, 0, b) ->
  forallb (tokp loosek) e = true /\ ne_toks r.
Proof.
  induction m as [|m IH]; intros ts e r b Hl Hne H.
  - destruct ts; [|cbn in Hl; lia]. cbn in H. injection H as <- <- _. split; [reflexivity|constructor].
  - destruct ts as [|[k s] ts]; [cbn in H; injection H as <- <- _; split; [reflexivity|constructor]|].
    destruct (ne_tail _ _ Hne) as [Hs Ht]. cbn [snd] in Hs.
    destruct k; try (cbn [pe_comments] in H; injection H as <- <- _; split; [reflexivity|exact Hne]).
    cbn [pe_comments] in H. destruct ts as [|[k' s'] ts'].
    + injection H as <- <- _. split; [|constructor]. cbn [forallb tokp loosek]. destruct s; [congruence|reflexivity].
    + destruct (ne_tail _ _ Ht) as [Hs' Ht']. cbn [snd] in Hs'.
      destruct (pe_comments ts') as [[[e' rest] n] early] eqn:E.
      destruct k'; try (injection H as _ _ Hn _; discriminate).
      injection H as <- <- -> <-. cbn [length] in Hl.
      destruct (IH ts' e' rest early ltac:(lia) Ht' E) as [A B]. split; [|exact B].
      cbn [forallb tokp loosek]. rewrite A. destruct s; [congruence|]. destruct s'; [congruence|reflexivity].
Qed.

Lemma parse_entry_tok ts e r : ne_toks ts -> parse_entry ts = Ok (e, r, 0) -> forallb pchild' e = true /\ ne_toks r.
Proof.
  intros Hne H. unfold parse_entry in H. destruct (pe_comments ts) as [[[e0 r0] n0] early] eqn:E0.
  assert (Hloose : forall l, forallb (tokp loosek) l = true -> forallb pchild' l = true).
  { intros l Hl. rewrite forallb_forall in *. intros x Hx. unfold pchild'. rewrite (Hl x Hx). reflexivity. }
  destruct early.
  - injection H as <- <- ->. destruct (pe_comments_tok (length ts) ts e0 r0 true (le_n _) Hne E0) as [A B]. split; [apply Hloose, A|exact B].
  - destruct (cur r0) as [k|] eqn:Ec.
    2:{ injection H as <- <- ->. destruct (pe_comments_tok (length ts) ts e0 r0 false (le_n _) Hne E0) as [A B]. split; [apply Hloose, A|exact B]. }
    assert (Hmain : (let '(e1, r1, n1) := pe_expect KEY r0 in let '(e2, r2, n2) := pe_expect COLON r1 in
                     match pe_lines (S (length r2)) r2 with
                     | Ok (e3, r3, n3) => Ok (e0 ++ [Node ENTRY (e1 ++ e2 ++ e3)], r3, n0 + n1 + n2 + n3)
                     | Err x => Err x | Panic x => Panic x | OutOfFuel => OutOfFuel end) = Ok (e, r, 0) ->
                    forallb pchild' e = true /\ ne_toks r).
    { clear H. intros H. destruct (pe_expect KEY r0) as [[e1 r1] n1] eqn:E1. destruct (pe_expect COLON r1) as [[e2 r2] n2] eqn:E2.
      destruct (pe_lines (S (length r2)) r2) as [[[e3 r3] n3]| | |] eqn:E3; try discriminate. injection H as <- <- Hn.
      assert (n0 = 0 /\ n1 = 0 /\ n2 = 0 /\ n3 = 0) as (-> & -> & -> & ->) by lia.
      destruct (pe_comments_tok (length ts) ts e0 r0 false (le_n _) Hne E0) as [A0 B0].
      destruct (pe_expect_tok KEY r0 e1 r1 eq_refl B0 E1) as [A1 B1].
      destruct (pe_expect_tok COLON r1 e2 r2 eq_refl B1 E2) as [A2 B2].
      destruct (pe_lines_tok _ r2 e3 r3 B2 E3) as [A3 B3]. split; [|exact B3].
      rewrite forallb_app, (Hloose e0 A0). cbn [forallb pchild' tokp orb]. rewrite !forallb_app, A1, A2, A3. reflexivity. }
    destruct k; try (apply Hmain; exact H).
    injection H as <- <- ->. destruct (pe_comments_tok (length ts) ts e0 r0 false (le_n _) Hne E0) as [A B]. split; [apply Hloose, A|exact B].
Qed.

Lemma pp_entries_tok fuel : forall ts e r, ne_toks ts -> pp_entries fuel ts = Ok (e, r, 0) -> forallb pchild' e = true /\ ne_toks r.
Proof.
  induction fuel as [|f IH]; intros ts e r Hne H; cbn [pp_entries] in H.
  - destruct (cur ts) as [k|]; [destruct k; try discriminate|]; injection H as <- <-; split; try reflexivity; exact Hne.
  - assert (Hstep : (match parse_entry ts with
                     | Ok (e1, r1, n1) => match pp_entries f r1 with Ok (e2, r2, n2) => Ok (e1 ++ e2, r2, n1 + n2) | Err x => Err x | Panic x => Panic x | OutOfFuel => OutOfFuel end
                     | Err x => Err x | Panic x => Panic x | OutOfFuel => OutOfFuel end) = Ok (e, r, 0) -> forallb pchild' e = true /\ ne_toks r).
    { clear H. intros H. destruct (parse_entry ts) as [[[e1 r1] n1]| | |] eqn:E1; try discriminate.
      destruct (pp_entries f r1) as [[[e2 r2] n2]| | |] eqn:E2; try discriminate. injection H as <- <- Hn.
      assert (n1 = 0 /\ n2 = 0) as [-> ->] by lia. destruct (parse_entry_tok ts e1 r1 Hne E1) as [A1 B1].
      destruct (IH r1 e2 r2 B1 E2) as [A2 B2]. split; [rewrite forallb_app, A1, A2; reflexivity|exact B2]. }
    destruct (cur ts) as [k|]; [|injection H as <- <-; split; [reflexivity|exact Hne]].
    destruct k; try (apply Hstep; exact H). injection H as <- <-. split; [reflexivity|exact Hne].
Qed.

(* a child of the root *)
Definition rchild' (c : tree) : bool :=
  match c with
  | Node PARAGRAPH ps => forallb pchild' ps
  | Node EMPTY_LINE ts => forallb is_token ts
  | _ => false
  end.

Lemma empty_line_tok ts : forall e r, ne_toks ts -> empty_line ts = (e, r) -> forallb is_token e = true /\ ne_toks r.
Proof.
  induction ts as [|[k s] ts IH]; intros e r Hne H; cbn [empty_line] in H.
  - injection H as <- <-. split; [reflexivity|constructor].
  - destruct (ne_tail _ _ Hne) as [_ Ht].
    destruct k; try (destruct (empty_line ts) as [e' r'] eqn:E; injection H as <- <-; destruct (IH e' r' Ht eq_refl) as [A B]; split; [cbn [forallb is_token]; exact A|exact B]).
    injection H as <- <-. split; [reflexivity|exact Ht].
Qed.

Lemma skip_wsnl_tok fuel : forall ts e r, ne_toks ts -> skip_wsnl fuel ts = Ok (e, r) -> forallb rchild' e = true /\ ne_toks r.
Proof.
  induction fuel as [|f IH]; intros ts e r Hne H; cbn [skip_wsnl] in H.
  - destruct (starts_blank ts); [discriminate|]. injection H as <- <-. split; [reflexivity|exact Hne].
  - destruct (starts_blank ts); [|injection H as <- <-; split; [reflexivity|exact Hne]].
    destruct (empty_line ts) as [e1 r1] eqn:E1. destruct (skip_wsnl f r1) as [[e2 r2]| | |] eqn:E2; try discriminate. injection H as <- <-.
    destruct (empty_line_tok ts e1 r1 Hne E1) as [A1 B1]. destruct (IH r1 e2 r2 B1 E2) as [A2 B2].
    split; [cbn [forallb rchild']; rewrite A1, A2; reflexivity|exact B2].
Qed.

Lemma parse_root_tok fuel : forall ts e, ne_toks ts -> parse_root fuel ts = Ok (e, 0) -> forallb rchild' e = true.
Proof.
  induction fuel as [|f IH]; intros ts e Hne H; cbn [parse_root] in H.
  - destruct ts; [injection H as <-; reflexivity|discriminate].
  - destruct ts as [|t0 ts0]; [injection H as <-; reflexivity|]. set (ts := t0 :: ts0) in *.
    destruct (skip_wsnl (length ts) ts) as [[e1 r1]| | |] eqn:E1; try discriminate.
    destruct (skip_wsnl_tok _ ts e1 r1 Hne E1) as [A1 B1].
    destruct r1 as [|t1 r1']; [injection H as <-; exact A1|]. set (r1 := t1 :: r1') in *.
    unfold parse_paragraph in H. destruct (pp_entries (length r1) r1) as [[[e2 r2] n2]| | |] eqn:E2; try discriminate.
    destruct (parse_root f r2) as [[e3 n3]| | |] eqn:E3; try discriminate. injection H as <- Hn.
    assert (n2 = 0 /\ n3 = 0) as [-> ->] by lia. destruct (pp_entries_tok _ r1 e2 r2 B1 E2) as [A2 B2].
    rewrite forallb_app, A1. cbn [forallb rchild' andb]. rewrite A2, (IH r2 e3 B2 E3). reflexivity.
Qed.

(* ---------------------------------------------------------------- from the reader's shapes to WrapTokP's *)

Lemma ind_after_pos cs : forallb etok cs = true -> forall ind, ind_pos ind -> ind_pos (ind_after ind cs).
Proof.
  induction cs as [|c r IH]; intros H ind Hi; [exact Hi|]. cbn [forallb] in H. apply andb_true_iff in H. destruct H as [Hc Hr].
  destruct c as [k s|]; [|discriminate]. cbn [tokp] in Hc. apply andb_true_iff in Hc. destruct Hc as [_ Hs].
  destruct k; cbn [ind_after]; try (apply IH; assumption). apply IH; [exact Hr|].
  destruct ind; [|exact Hi]. cbn [ind_pos]. apply utf8_size_pos. destruct s; [discriminate|discriminate].
Qed.

Lemma etok_is_tok cs : forallb etok cs = true -> forallb is_tok_elem cs = true.
Proof.
  induction cs as [|c r IH]; [reflexivity|]. cbn [forallb]. intros H. apply andb_true_iff in H. destruct H as [Hc Hr]. rewrite (IH Hr), andb_true_r.
  destruct c as [k s|]; [|discriminate]. cbn [tokp is_tok_elem] in *. apply andb_true_iff in Hc. apply Hc.
Qed.

Lemma pchild_of ind c : ind_pos ind -> pchild' c = true -> pchild_ok ind c = true.
Proof.
  intros Hi H. unfold pchild' in H. unfold pchild_ok. destruct (tokp loosek c) eqn:El.
  - destruct c as [k s|]; [|discriminate]. cbn [tokp] in El. apply andb_true_iff in El. destruct El as [El _]. destruct k; try discriminate; reflexivity.
  - cbn [orb] in H. destruct c as [|k cs]; [discriminate|]. destruct k; try discriminate.
    replace (loose (Node ENTRY cs)) with false by reflexivity. cbn [orb]. unfold entry_ok, token_entry. cbn [children]. rewrite (etok_is_tok cs H). cbn [andb].
    pose proof (ind_after_pos cs H ind Hi) as Hp. unfold entry_n. destruct (ind_after ind cs); [reflexivity|]. cbn [ind_pos] in Hp. rewrite Hp. reflexivity.
Qed.

Lemma rchild_of ind c : ind_pos ind -> rchild' c = true -> rchild_ok ind c = true.
Proof.
  intros Hi H. destruct c as [|k cs]; [discriminate|]. destruct k; try discriminate; cbn [rchild' rchild_ok] in *; [|exact H].
  rewrite forallb_forall in *. intros x Hx. apply (pchild_of ind x Hi (H x Hx)).
Qed.

(* every document read without an error is a token document *)
Theorem error_free_is_token_doc s t ind : from_str s = Ok t -> ind_pos ind -> token_doc ind t = true.
Proof.
  intros H Hi. unfold from_str, parse in H. destruct (lex s) as [ts| | |] eqn:El; try discriminate.
  destruct (lex_partition true s ts El) as [_ Hne].
  unfold parse_tokens in H. destruct (parse_root (length ts) ts) as [[e n]| | |] eqn:Ep; try discriminate.
  destruct n; [|discriminate]. injection H as <-. cbn [token_doc].
  pose proof (parse_root_tok _ ts e Hne Ep) as Hr. rewrite forallb_forall in *. intros x Hx. apply (rchild_of ind x Hi (Hr x Hx)).
Qed.

(* ---------------------------------------------------------------- the content of a reformatted token paragraph / document *)
From V.proofs Require Import Deb822EditP.

Lemma pitems_loose l : forallb loose l = true -> pitems l = [].
Proof.
  induction l as [|c r IH]; [reflexivity|]. cbn [forallb]. intros H. apply andb_true_iff in H. destruct H as [H1 H2].
  rewrite pitems_cons_other; [apply IH, H2|]. destruct c as [k s|]; [reflexivity|discriminate].
Qed.

Lemma pitems_p_ungroup ind G tr : (forall g, In g G -> forallb loose (fst g) = true /\ entry_ok ind (snd g) = true) -> forallb loose tr = true ->
  pitems (p_ungroup G tr) = flat_map (fun g => epair (snd g)) G.
Proof.
  intros HG Htr. unfold p_ungroup. rewrite pitems_app, (pitems_loose tr Htr), app_nil_r.
  induction G as [|g r IH]; [reflexivity|]. cbn [map concat flat_map]. rewrite !pitems_app, IH by (intros y Hy; apply HG; right; exact Hy).
  destruct (HG g (or_introl eq_refl)) as [H1 H2]. rewrite (pitems_loose _ H1). cbn [app]. f_equal.
  destruct (entry_ok_shape ind (snd g) H2) as (cs & E & _ & _). rewrite E. rewrite pitems_cons_entry by reflexivity. apply app_nil_r.
Qed.

Lemma epair_e_out ind iel mll e : entry_ok ind e = true -> epair (e_out ind iel mll e) = epair e.
Proof.
  intros H. unfold epair. rewrite (e_out_key ind iel mll e H). destruct (entry_ok_shape ind e H) as (cs & -> & Ht & _).
  unfold e_out, entry_value. cbn [children]. pose proof (entry_out_texts ind iel mll cs VALUE Ht eq_refl) as E. unfold ktx in E.
  unfold entry_out in *. cbn [children] in E. rewrite E. reflexivity.
Qed.

Lemma p_groups_ungroup_id cs : forall cur, p_ungroup (fst (p_groups cs cur)) (snd (p_groups cs cur)) = cur ++ cs.
Proof.
  induction cs as [|c r IH]; intros cur; [cbn [p_groups fst snd p_ungroup map concat app]; rewrite app_nil_r; reflexivity|].
  cbn [p_groups]. destruct (loose c).
  - rewrite IH, <- app_assoc. reflexivity.
  - specialize (IH []). destruct (p_groups r []) as [gs tr]. cbn [fst snd] in *. unfold p_ungroup in *. cbn [map concat fst snd].
    rewrite <- !app_assoc. cbn [app] in *. rewrite IH. reflexivity.
Qed.

(* the fields of the reformatted paragraph: the fields it had (names and values), in the stable
   order of the sort (the order they had when no sort is requested) *)
Theorem p_out_items ind iel mll esort cs : forallb (pchild_ok ind) cs = true ->
  items (Node PARAGRAPH cs) = flat_map (fun g => epair (snd g)) (fst (p_groups cs [])) /\
  items (Node PARAGRAPH (p_out ind iel mll esort cs)) =
    flat_map (fun g => epair (snd g)) (sort_opt (option_map on_snd esort) (fst (p_groups cs []))).
Proof.
  intros H. destruct (p_groups_props ind cs [] H eq_refl) as [Hg Htr]. pose proof (p_groups_ungroup_id cs []) as Eid. unfold p_out.
  destruct (p_groups cs []) as [gs tr]. cbn [fst snd app] in *. split.
  - change (items (Node PARAGRAPH cs)) with (pitems cs). rewrite <- Eid.
    apply (pitems_p_ungroup ind gs tr); [intros g Hin; destruct (Hg g Hin) as (A & B & _); split; assumption|exact Htr].
  - change (items (Node PARAGRAPH ?x)) with (pitems x). set (L := sort_opt (option_map on_snd esort) gs).
    assert (HL : forall g, In g L -> forallb loose (fst g) = true /\ entry_ok ind (snd g) = true)
      by (intros g Hin; destruct (Hg g (sort_opt_In _ _ _ Hin)) as (A & B & _); split; assumption).
    rewrite (pitems_p_ungroup ind _ tr); [|intros g' Hg'; apply in_map_iff in Hg'; destruct Hg' as (g & <- & Hin); destruct (HL g Hin) as [A B];
                                           cbn [fst snd]; split; [exact A|apply (e_out_idem ind iel mll (snd g) B)]|exact Htr].
    rewrite flat_map_concat_map, map_map, <- flat_map_concat_map. cbn [snd].
    rewrite !flat_map_concat_map. f_equal. apply map_ext_in. intros g Hin. apply (epair_e_out ind iel mll (snd g) (proj2 (HL g Hin))).
Qed.

Lemma items_ensure_nl_para xs : items (ensure_nl (Node PARAGRAPH xs)) = items (Node PARAGRAPH xs).
Proof. rewrite ensure_nl_node. apply pitems_ensure_nl_list. Qed.

Definition is_pnode (c : tree) : bool := is_node c && is_kind PARAGRAPH c.
Lemma doc_items_unfold rs : doc_items (Node ROOT rs) = map items (filter is_pnode rs).
Proof. reflexivity. Qed.

Lemma doc_items_ensure_nl rs : (forall c, In c rs -> is_node c = true) -> doc_items (Node ROOT (ensure_nl_list rs)) = doc_items (Node ROOT rs).
Proof.
  intros Hn. rewrite Deb822EditP.ensure_nl_list_spec. rewrite <- (rev_involutive rs) at 2. destruct (rev rs) as [|x r] eqn:Er; [reflexivity|].
  cbn [rev]. rewrite !doc_items_unfold, !filter_app, !map_app. f_equal.
  assert (Hx : is_node x = true) by (apply Hn; apply in_rev; rewrite Er; left; reflexivity).
  destruct x as [|k cs]; [discriminate|]. cbn [filter]. destruct k; try reflexivity.
  change (is_pnode (ensure_nl (Node PARAGRAPH cs))) with true. change (is_pnode (Node PARAGRAPH cs)) with true. cbn [map]. rewrite items_ensure_nl_para. reflexivity.
Qed.

Lemma cline_not_pnode c : cline c = true -> is_pnode c = false /\ is_node c = true.
Proof. destruct c as [|k ts]; [discriminate|]. destruct k; try discriminate. intros _. split; reflexivity. Qed.

Lemma filter_pnode_clines l : forallb cline l = true -> filter is_pnode l = [].
Proof.
  induction l as [|c r IH]; [reflexivity|]. cbn [forallb filter]. intros H. apply andb_true_iff in H. destruct H as [H1 H2].
  rewrite (proj1 (cline_not_pnode c H1)). apply IH, H2.
Qed.

Lemma doc_items_emit ind G tr : forall first, (forall g, In g G -> dgroup_ok ind g) -> forallb cline tr = true ->
  doc_items (Node ROOT (d_emit first G ++ tr)) = map (fun g => items (snd g)) G.
Proof.
  intros first HG Htr. rewrite doc_items_unfold, filter_app, (filter_pnode_clines tr Htr), app_nil_r. revert first.
  induction G as [|g r IH]; intros first; [reflexivity|]. destruct (HG g (or_introl eq_refl)) as [P1 P2].
  cbn [d_emit]. rewrite !filter_app, (filter_pnode_clines _ P1).
  replace (filter is_pnode (if first then [] else [blank_line])) with (@nil tree) by (destruct first; reflexivity).
  cbn [app filter]. destruct (snd g) as [|k ps] eqn:Eg; [discriminate|]. destruct k; try discriminate.
  change (is_pnode (Node PARAGRAPH ps)) with true. cbn [map]. rewrite Eg. f_equal. apply (IH (fun y Hy => HG y (or_intror Hy)) false).
Qed.

(* the paragraphs of the reformatted document: those it had, in the stable order of the sort, each
   with the fields p_out_items says *)
Theorem d_out_items ind iel mll psort esort rs : forallb (rchild_ok ind) rs = true -> esort_ok ind iel mll esort ->
  doc_items (Node ROOT rs) = map (fun g => items (snd g)) (fst (d_groups rs [])) /\
  doc_items (d_out ind iel mll psort esort rs) =
    map (fun g => items (Node PARAGRAPH (p_out ind iel mll esort (children (snd g)))))
        (sort_opt (option_map on_snd psort) (fst (d_groups rs []))).
Proof.
  intros H Hes. destruct (d_groups_props ind rs [] H eq_refl) as [Hg Htr]. unfold d_out.
  assert (Hid : forall rs0 cur, forallb (rchild_ok ind) rs0 = true -> forallb cline cur = true ->
            doc_items (Node ROOT rs0) = map (fun g => items (snd g)) (fst (d_groups rs0 cur))).
  { clear. induction rs0 as [|c r IH]; intros cur Hr Hc; [reflexivity|]. cbn [forallb] in Hr. apply andb_true_iff in Hr. destruct Hr as [H1 H2].
    rewrite doc_items_unfold. cbn [d_groups filter]. destruct c as [|k cs]; [discriminate|].
    destruct k; try discriminate; cbn [is_para_node].
    - change (is_pnode (Node PARAGRAPH cs)) with true. cbv iota. specialize (IH [] H2 eq_refl). rewrite doc_items_unfold in IH.
      destruct (d_groups r []) as [gs tr]. cbn [fst snd map] in *. rewrite IH. reflexivity.
    - change (is_pnode (Node EMPTY_LINE cs)) with false. cbv iota. rewrite <- doc_items_unfold.
      apply IH; [exact H2|]. destruct (comment_line (Node EMPTY_LINE cs)) eqn:Ec; [|exact Hc].
      rewrite forallb_app, Hc. cbn [forallb cline]. cbn [rchild_ok] in H1. rewrite H1, Ec. reflexivity. }
  split; [apply Hid; [exact H|reflexivity]|].
  destruct (d_groups rs []) as [gs tr]. cbn [fst snd] in *.
  set (L := sort_opt (option_map on_snd psort) gs).
  assert (HL : forall g, In g L -> forallb cline (fst g) = true /\ para_ok ind (snd g) = true)
    by (intros g Hin; apply Hg; apply (sort_opt_In _ _ _ Hin)).
  set (G := map (fun g => (fst g, pp_out ind iel mll esort (snd g))) L).
  assert (HG : forall g, In g G -> dgroup_ok ind g).
  { intros g' Hg'. apply in_map_iff in Hg'. destruct Hg' as (g & <- & Hin). destruct (HL g Hin) as (H1 & H2). cbn [fst snd]. split; [exact H1|].
    destruct (snd g) as [|k ps]; [discriminate|]. destruct k; try discriminate. cbn [para_ok] in H2.
    destruct (pp_out_idem ind iel mll esort ps H2 Hes) as (A & _ & _). unfold pp_out in *. rewrite ensure_nl_node in *. exact A. }
  rewrite ensure_nl_node, doc_items_ensure_nl.
  - rewrite (doc_items_emit ind G tr true HG Htr). unfold G. rewrite map_map. apply map_ext. intros g. cbn [snd]. unfold pp_out. apply items_ensure_nl_para.
  - intros c Hc. apply in_app_or in Hc. destruct Hc as [Hc|Hc].
    + pose proof (rchild_ok_emit ind G true HG) as Hr. rewrite forallb_forall in Hr. specialize (Hr c Hc). destruct c; [discriminate|reflexivity].
    + rewrite forallb_forall in Htr. apply (cline_not_pnode c (Htr c Hc)).
Qed.

(* ---------------------------------------------------------------- every error-free document *)
Theorem error_free_ws s t ind iel mll psort esort : from_str s = Ok t -> ind_pos ind ->
  esort_ok ind iel mll esort -> psort_ok ind iel mll psort esort ->
  let R := d_out ind iel mll psort esort (children t) in
  doc_ws fixed psort (Some (para_ws fixed ind iel mll esort None)) t = Ok R /\
  doc_items t = map (fun g => items (snd g)) (fst (d_groups (children t) [])) /\
  doc_items R = map (fun g => items (Node PARAGRAPH (p_out ind iel mll esort (children (snd g)))))
                    (sort_opt (option_map on_snd psort) (fst (d_groups (children t) []))) /\
  doc_ws fixed psort (Some (para_ws fixed ind iel mll esort None)) R = Ok R.
Proof.
  intros Hs Hi Hes Hps R. pose proof (error_free_is_token_doc s t ind Hs Hi) as Ht.
  destruct (token_doc_ws ind iel mll psort esort t Ht Hes Hps) as (A & _ & C). fold R in A, C.
  destruct t as [|k rs]; [discriminate|]. destruct k; try discriminate. cbn [token_doc children] in *.
  destruct (d_out_items ind iel mll psort esort rs Ht Hes) as [D1 D2]. repeat split; assumption.
Qed.

(* the content of the reformatted document without any reference to the reformatting of an entry:
   grouping (p_groups / d_groups), the caller's comparators, the fields as reported (epair) *)
Theorem error_free_content s t ind iel mll psort esort : from_str s = Ok t -> ind_pos ind ->
  esort_ok ind iel mll esort ->
  doc_items t = map (fun g => flat_map (fun e => epair (snd e)) (fst (p_groups (children (snd g)) [])))
                    (fst (d_groups (children t) [])) /\
  doc_items (d_out ind iel mll psort esort (children t)) =
    map (fun g => flat_map (fun e => epair (snd e)) (sort_opt (option_map on_snd esort) (fst (p_groups (children (snd g)) []))))
        (sort_opt (option_map on_snd psort) (fst (d_groups (children t) []))).
Proof.
  intros Hs Hi Hes. pose proof (error_free_is_token_doc s t ind Hs Hi) as Ht.
  destruct t as [|k rs]; [discriminate|]. destruct k; try discriminate. cbn [token_doc children] in *.
  destruct (d_out_items ind iel mll psort esort rs Ht Hes) as [D1 D2].
  destruct (d_groups_props ind rs [] Ht eq_refl) as [Hg _].
  assert (Hp : forall g, In g (fst (d_groups rs [])) -> exists ps, snd g = Node PARAGRAPH ps /\ forallb (pchild_ok ind) ps = true).
  { intros g Hin. destruct (Hg g Hin) as [_ P]. destruct (snd g) as [|k ps]; [discriminate|]. destruct k; try discriminate. exists ps. split; [reflexivity|exact P]. }
  split.
  - rewrite D1. apply map_ext_in. intros g Hin. destruct (Hp g Hin) as (ps & E & P). rewrite E. cbn [children].
    exact (proj1 (p_out_items ind iel mll esort ps P)).
  - rewrite D2. apply map_ext_in. intros g Hin. destruct (Hp g (sort_opt_In _ _ _ Hin)) as (ps & E & P). rewrite E. cbn [children].
    exact (proj2 (p_out_items ind iel mll esort ps P)).
Qed.
