(* Every document the reader returns without an error is a token document (WrapTokP.token_doc):
   its entries consist of non-empty tokens KEY, COLON, WHITESPACE, VALUE, NEWLINE, INDENT, COMMENT;
   its paragraphs of such entries and of COMMENT / NEWLINE tokens; its root of such paragraphs and
   of EMPTY_LINE nodes of tokens.  So the token-level theorems of C07 speak about every error-free
   document. *)
From V.model Require Import Base Deb822Lex Deb822Parse Deb822Edit Deb822Wrap WrapSpec.
From V.proofs Require Import BaseP Deb822LexP Deb822ParseP Deb822WrapP WrapTokP.
Set Default Timeout 60.

Definition ne_toks (ts : list token) : Prop := Forall (fun t => snd t <> []) ts.
(* a non-empty token whose kind satisfies p *)
Definition tokp (p : kind -> bool) (c : tree) : bool :=
  match c with Tok k s => p k && negb (is_nil s) | Node _ _ => false end.
Notation etok := (tokp tkind).

Lemma ne_tail t ts : ne_toks (t :: ts) -> snd t <> [] /\ ne_toks ts.
Proof. intros H. inversion H; subst. split; assumption. Qed.

Lemma tokp_mono (p q : kind -> bool) l : (forall k, p k = true -> q k = true) -> forallb (tokp p) l = true -> forallb (tokp q) l = true.
Proof.
  intros Hpq. induction l as [|c r IH]; [reflexivity|]. cbn [forallb]. intros H. apply andb_true_iff in H. destruct H as [H1 H2].
  rewrite (IH H2), andb_true_r. destruct c as [k s|]; [|discriminate]. cbn [tokp] in *. apply andb_true_iff in H1. destruct H1 as [A B].
  rewrite (Hpq k A), B. reflexivity.
Qed.

Lemma bump_while_tok p ts : forall e r, ne_toks ts -> bump_while p ts = (e, r) -> forallb (tokp p) e = true /\ ne_toks r.
Proof.
  induction ts as [|[k s] ts IH]; intros e r Hne H; cbn [bump_while] in H.
  - injection H as <- <-. split; [reflexivity|constructor].
  - destruct (p k) eqn:Ep.
    + destruct (bump_while p ts) as [e' r'] eqn:E. injection H as <- <-. destruct (ne_tail _ _ Hne) as [Hs Ht]. cbn [snd] in Hs.
      destruct (IH e' r' Ht eq_refl) as [A B]. split; [|exact B]. cbn [forallb tokp]. rewrite Ep, A. destruct s; [congruence|reflexivity].
    + injection H as <- <-. split; [reflexivity|exact Hne].
Qed.

Lemma ws_or_comment_tkind k : is_ws_or_comment k = true -> tkind k = true.
Proof. destruct k; try discriminate; reflexivity. Qed.
Lemma ws_or_value_tkind k : is_ws_or_value k = true -> tkind k = true.
Proof. destruct k; try discriminate; reflexivity. Qed.

Lemma pe_expect_tok k ts e r : tkind k = true -> ne_toks ts -> pe_expect k ts = (e, r, 0) -> forallb etok e = true /\ ne_toks r.
Proof.
  intros Hk Hne H. unfold pe_expect in H. destruct ts as [|[k' s] ts]; [discriminate|].
  destruct (kind_eqb k' k) eqn:Ek; [|discriminate].
  destruct (skip_ws ts) as [e' r'] eqn:E. injection H as <- <-. destruct (ne_tail _ _ Hne) as [Hs Ht]. cbn [snd] in Hs.
  destruct (bump_while_tok _ ts e' r' Ht E) as [A B]. split; [|exact B].
  cbn [forallb]. rewrite (tokp_mono _ tkind e' ws_or_comment_tkind A), andb_true_r. cbn [tokp].
  assert (k' = k) by (destruct k', k; try discriminate; reflexivity). subst k'. rewrite Hk. destruct s; [congruence|reflexivity].
Qed.

Lemma pe_lines_tok fuel : forall ts e r, ne_toks ts -> pe_lines fuel ts = Ok (e, r, 0) -> forallb etok e = true /\ ne_toks r.
Proof.
  induction fuel as [|f IH]; intros ts e r Hne H; [discriminate|]. cbn [pe_lines] in H.
  destruct (bump_while is_ws_or_value ts) as [e1 r1] eqn:E1. destruct (bump_while_tok _ ts e1 r1 Hne E1) as [A1 B1].
  pose proof (tokp_mono _ tkind e1 ws_or_value_tkind A1) as A1'.
  destruct r1 as [|[k s] r2]; [injection H as <- <-; split; [exact A1'|constructor]|].
  destruct (ne_tail _ _ B1) as [Hs B2]. cbn [snd] in Hs.
  assert (Hk : forall n2 e2, (let '(e2', n2') := match k with NEWLINE => ([Tok k s], 0) | _ => ([Node ERROR [Tok k s]], 1) end in (e2', n2')) = (e2, n2) -> n2 = 0 -> k = NEWLINE /\ e2 = [Tok NEWLINE s])
    by (intros n2 e2 Hm Hn; destruct k; injection Hm as <- <-; try discriminate; split; reflexivity).
  destruct (match k with NEWLINE => ([Tok k s], 0) | _ => ([Node ERROR [Tok k s]], 1) end) as [e2 n2] eqn:E2.
  destruct r2 as [|[k3 s3] r3].
  - injection H as <- <- Hn. assert (n2 = 0) by lia. destruct (Hk n2 e2 eq_refl H) as [-> ->]. split; [|constructor].
    rewrite forallb_app, A1'. cbn [forallb tokp tkind ckind]. destruct s; [congruence|reflexivity].
  - destruct k3.
    all: try (injection H as <- <- Hn; assert (Hn2 : n2 = 0) by lia; destruct (Hk n2 e2 eq_refl Hn2) as [-> ->]; split; [|exact B2];
              rewrite forallb_app, A1'; cbn [forallb tokp tkind ckind]; destruct s; [congruence|reflexivity]).
    destruct (skip_ws r3) as [e3 r4] eqn:E3. destruct (ne_tail _ _ B2) as [Hs3 B3]. cbn [snd] in Hs3.
    destruct (bump_while_tok _ r3 e3 r4 B3 E3) as [A3 B4].
    destruct (pe_lines f r4) as [[[e5 r5] n5]| | |] eqn:E5; try discriminate. injection H as <- <- Hn.
    assert (Hn2 : n2 = 0) by lia. assert (Hn5 : n5 = 0) by lia. subst n5. destruct (Hk n2 e2 eq_refl Hn2) as [-> ->].
    destruct (IH r4 e5 r5 B4 E5) as [A5 B5]. split; [|exact B5].
    rewrite !forallb_app, A1'. cbn [forallb]. rewrite forallb_app, (tokp_mono _ tkind e3 ws_or_comment_tkind A3), A5.
    cbn [tokp tkind ckind]. destruct s; [congruence|]. destruct s3; [congruence|reflexivity].
Qed.

Definition loosek (k : kind) : bool := match k with COMMENT | NEWLINE => true | _ => false end.
(* a child of a paragraph: a loose token, or an entry of non-empty tokens *)
Definition pchild' (c : tree) : bool :=
  tokp loosek c || match c with Node ENTRY cs => forallb etok cs | _ => false end.

Lemma pe_comments_tok m : forall ts e r b, length ts <= m -> ne_toks ts -> pe_comments ts = (e, r, 0, b) ->
  forallb (tokp loosek) e = true /\ ne_toks r.
Proof.
  induction m as [|m IH]; intros ts e r b Hl Hne H.
  - destruct ts; [|cbn in Hl; lia]. cbn in H. injection H as <- <- _. split; [reflexivity|constructor].
  - destruct ts as [|[k s] ts]; [cbn in H; injection H as <- <- _; split; [reflexivity|constructor]|].
    destruct (ne_tail _ _ Hne) as [Hs Ht]. cbn [snd] in Hs.
    destruct k; try (cbn [pe_comments] in H; injection H as <- <- _; split; [reflexivity|exact Hne]).
    cbn [pe_comments] in H. destruct ts as [|[k' s'] ts'].
    + injection H as <- <- _. split; [|constructor]. cbn [forallb tokp loosek]. destruct s; [congruence|reflexivity].
    + destruct (ne_tail _ _ Ht) as [Hs' Ht']. cbn [snd] in Hs'.
      destruct (pe_comments ts') as [[[e' rest] n] early] eqn:E.
      destruct k'; try (injection H as _ _ Hn _; discriminate).
      injection H as <- <- -> <-. cbn [length] in Hl.
      destruct (IH ts' e' rest early ltac:(lia) Ht' E) as [A B]. split; [|exact B].
      cbn [forallb tokp loosek]. rewrite A. destruct s; [congruence|]. destruct s'; [congruence|reflexivity].
Qed.

Lemma parse_entry_tok ts e r : ne_toks ts -> parse_entry ts = Ok (e, r, 0) -> forallb pchild' e = true /\ ne_toks r.
Proof.
  intros Hne H. unfold parse_entry in H. destruct (pe_comments ts) as [[[e0 r0] n0] early] eqn:E0.
  assert (Hloose : forall l, forallb (tokp loosek) l = true -> forallb pchild' l = true).
  { intros l Hl. rewrite forallb_forall in *. intros x Hx. unfold pchild'. rewrite (Hl x Hx). reflexivity. }
  destruct early.
  - injection H as <- <- ->. destruct (pe_comments_tok (length ts) ts e0 r0 true (le_n _) Hne E0) as [A B]. split; [apply Hloose, A|exact B].
  - destruct (cur r0) as [k|] eqn:Ec.
    2:{ injection H as <- <- ->. destruct (pe_comments_tok (length ts) ts e0 r0 false (le_n _) Hne E0) as [A B]. split; [apply Hloose, A|exact B]. }
    assert (Hmain : (let '(e1, r1, n1) := pe_expect KEY r0 in let '(e2, r2, n2) := pe_expect COLON r1 in
                     match pe_lines (S (length r2)) r2 with
                     | Ok (e3, r3, n3) => Ok (e0 ++ [Node ENTRY (e1 ++ e2 ++ e3)], r3, n0 + n1 + n2 + n3)
                     | Err x => Err x | Panic x => Panic x | OutOfFuel => OutOfFuel end) = Ok (e, r, 0) ->
                    forallb pchild' e = true /\ ne_toks r).
    { clear H. intros H. destruct (pe_expect KEY r0) as [[e1 r1] n1] eqn:E1. destruct (pe_expect COLON r1) as [[e2 r2] n2] eqn:E2.
      destruct (pe_lines (S (length r2)) r2) as [[[e3 r3] n3]| | |] eqn:E3; try discriminate. injection H as <- <- Hn.
      assert (n0 = 0 /\ n1 = 0 /\ n2 = 0 /\ n3 = 0) as (-> & -> & -> & ->) by lia.
      destruct (pe_comments_tok (length ts) ts e0 r0 false (le_n _) Hne E0) as [A0 B0].
      destruct (pe_expect_tok KEY r0 e1 r1 eq_refl B0 E1) as [A1 B1].
      destruct (pe_expect_tok COLON r1 e2 r2 eq_refl B1 E2) as [A2 B2].
      destruct (pe_lines_tok _ r2 e3 r3 B2 E3) as [A3 B3]. split; [|exact B3].
      rewrite forallb_app, (Hloose e0 A0). cbn [forallb pchild' tokp orb]. rewrite !forallb_app, A1, A2, A3. reflexivity. }
    destruct k; try (apply Hmain; exact H).
    injection H as <- <- ->. destruct (pe_comments_tok (length ts) ts e0 r0 false (le_n _) Hne E0) as [A B]. split; [apply Hloose, A|exact B].
Qed.

Lemma pp_entries_tok fuel : forall ts e r, ne_toks ts -> pp_entries fuel ts = Ok (e, r, 0) -> forallb pchild' e = true /\ ne_toks r.
Proof.
  induction fuel as [|f IH]; intros ts e r Hne H; cbn [pp_entries] in H.
  - destruct (cur ts) as [k|]; [destruct k; try discriminate|]; injection H as <- <-; split; try reflexivity; exact Hne.
  - assert (Hstep : (match parse_entry ts with
                     | Ok (e1, r1, n1) => match pp_entries f r1 with Ok (e2, r2, n2) => Ok (e1 ++ e2, r2, n1 + n2) | Err x => Err x | Panic x => Panic x | OutOfFuel => OutOfFuel end
                     | Err x => Err x | Panic x => Panic x | OutOfFuel => OutOfFuel end) = Ok (e, r, 0) -> forallb pchild' e = true /\ ne_toks r).
    { clear H. intros H. destruct (parse_entry ts) as [[[e1 r1] n1]| | |] eqn:E1; try discriminate.
      destruct (pp_entries f r1) as [[[e2 r2] n2]| | |] eqn:E2; try discriminate. injection H as <- <- Hn.
      assert (n1 = 0 /\ n2 = 0) as [-> ->] by lia. destruct (parse_entry_tok ts e1 r1 Hne E1) as [A1 B1].
      destruct (IH r1 e2 r2 B1 E2) as [A2 B2]. split; [rewrite forallb_app, A1, A2; reflexivity|exact B2]. }
    destruct (cur ts) as [k|]; [|injection H as <- <-; split; [reflexivity|exact Hne]].
    destruct k; try (apply Hstep; exact H). injection H as <- <-. split; [reflexivity|exact Hne].
Qed.

(* a child of the root *)
Definition rchild' (c : tree) : bool :=
  match c with
  | Node PARAGRAPH ps => forallb pchild' ps
  | Node EMPTY_LINE ts => forallb is_token ts
  | _ => false
  end.

Lemma empty_line_tok ts : forall e r, ne_toks ts -> empty_line ts = (e, r) -> forallb is_token e = true /\ ne_toks r.
Proof.
  induction ts as [|[k s] ts IH]; intros e r Hne H; cbn [empty_line] in H.
  - injection H as <- <-. split; [reflexivity|constructor].
  - destruct (ne_tail _ _ Hne) as [_ Ht].
    destruct k; try (destruct (empty_line ts) as [e' r'] eqn:E; injection H as <- <-; destruct (IH e' r' Ht eq_refl) as [A B]; split; [cbn [forallb is_token]; exact A|exact B]).
    injection H as <- <-. split; [reflexivity|exact Ht].
Qed.

Lemma skip_wsnl_tok fuel : forall ts e r, ne_toks ts -> skip_wsnl fuel ts = Ok (e, r) -> forallb rchild' e = true /\ ne_toks r.
Proof.
  induction fuel as [|f IH]; intros ts e r Hne H; cbn [skip_wsnl] in H.
  - destruct (starts_blank ts); [discriminate|]. injection H as <- <-. split; [reflexivity|exact Hne].
  - destruct (starts_blank ts); [|injection H as <- <-; split; [reflexivity|exact Hne]].
    destruct (empty_line ts) as [e1 r1] eqn:E1. destruct (skip_wsnl f r1) as [[e2 r2]| | |] eqn:E2; try discriminate. injection H as <- <-.
    destruct (empty_line_tok ts e1 r1 Hne E1) as [A1 B1]. destruct (IH r1 e2 r2 B1 E2) as [A2 B2].
    split; [cbn [forallb rchild']; rewrite A1, A2; reflexivity|exact B2].
Qed.

Lemma parse_root_tok fuel : forall ts e, ne_toks ts -> parse_root fuel ts = Ok (e, 0) -> forallb rchild' e = true.
Proof.
  induction fuel as [|f IH]; intros ts e Hne H; cbn [parse_root] in H.
  - destruct ts; [injection H as <-; reflexivity|discriminate].
  - destruct ts as [|t0 ts0]; [injection H as <-; reflexivity|]. set (ts := t0 :: ts0) in *.
    destruct (skip_wsnl (length ts) ts) as [[e1 r1]| | |] eqn:E1; try discriminate.
    destruct (skip_wsnl_tok _ ts e1 r1 Hne E1) as [A1 B1].
    destruct r1 as [|t1 r1']; [injection H as <-; exact A1|]. set (r1 := t1 :: r1') in *.
    unfold parse_paragraph in H. destruct (pp_entries (length r1) r1) as [[[e2 r2] n2]| | |] eqn:E2; try discriminate.
    destruct (parse_root f r2) as [[e3 n3]| | |] eqn:E3; try discriminate. injection H as <- Hn.
    assert (n2 = 0 /\ n3 = 0) as [-> ->] by lia. destruct (pp_entries_tok _ r1 e2 r2 B1 E2) as [A2 B2].
    rewrite forallb_app, A1. cbn [forallb rchild' andb]. rewrite A2, (IH r2 e3 B2 E3). reflexivity.
Qed.

(* ---------------------------------------------------------------- from the reader's shapes to WrapTokP's *)
Definition ind_pos (ind : indentation) : Prop := match ind with Spaces n => (n =? 0)%N = false | FieldNameLength => True end.

Lemma ind_after_pos cs : forallb etok cs = true -> forall ind, ind_pos ind -> ind_pos (ind_after ind cs).
Proof.
  induction cs as [|c r IH]; intros H ind Hi; [exact Hi|]. cbn [forallb] in H. apply andb_true_iff in H. destruct H as [Hc Hr].
  destruct c as [k s|]; [|discriminate]. cbn [tokp] in Hc. apply andb_true_iff in Hc. destruct Hc as [_ Hs].
  destruct k; cbn [ind_after]; try (apply IH; assumption). apply IH; [exact Hr|].
  destruct ind; [|exact Hi]. cbn [ind_pos]. apply utf8_size_pos. destruct s; [discriminate|discriminate].
Qed.

Lemma etok_is_tok cs : forallb etok cs = true -> forallb is_tok_elem cs = true.
Proof.
  induction cs as [|c r IH]; [reflexivity|]. cbn [forallb]. intros H. apply andb_true_iff in H. destruct H as [Hc Hr]. rewrite (IH Hr), andb_true_r.
  destruct c as [k s|]; [|discriminate]. cbn [tokp is_tok_elem] in *. apply andb_true_iff in Hc. apply Hc.
Qed.

Lemma pchild_of ind c : ind_pos ind -> pchild' c = true -> pchild_ok ind c = true.
Proof.
  intros Hi H. unfold pchild' in H. unfold pchild_ok. destruct (tokp loosek c) eqn:El.
  - destruct c as [k s|]; [|discriminate]. cbn [tokp] in El. apply andb_true_iff in El. destruct El as [El _]. destruct k; try discriminate; reflexivity.
  - cbn [orb] in H. destruct c as [|k cs]; [discriminate|]. destruct k; try discriminate.
    replace (loose (Node ENTRY cs)) with false by reflexivity. cbn [orb]. unfold entry_ok, token_entry. cbn [children]. rewrite (etok_is_tok cs H). cbn [andb].
    pose proof (ind_after_pos cs H ind Hi) as Hp. unfold entry_n. destruct (ind_after ind cs); [reflexivity|]. cbn [ind_pos] in Hp. rewrite Hp. reflexivity.
Qed.

Lemma rchild_of ind c : ind_pos ind -> rchild' c = true -> rchild_ok ind c = true.
Proof.
  intros Hi H. destruct c as [|k cs]; [discriminate|]. destruct k; try discriminate; cbn [rchild' rchild_ok] in *; [|exact H].
  rewrite forallb_forall in *. intros x Hx. apply (pchild_of ind x Hi (H x Hx)).
Qed.

(* every document read without an error is a token document *)
Theorem error_free_is_token_doc s t ind : from_str s = Ok t -> ind_pos ind -> token_doc ind t = true.
Proof.
  intros H Hi. unfold from_str, parse in H. destruct (lex s) as [ts| | |] eqn:El; try discriminate.
  destruct (lex_partition true s ts El) as [_ Hne].
  unfold parse_tokens in H. destruct (parse_root (length ts) ts) as [[e n]| | |] eqn:Ep; try discriminate.
  destruct n; [|discriminate]. injection H as <-. cbn [token_doc].
  pose proof (parse_root_tok _ ts e Hne Ep) as Hr. rewrite forallb_forall in *. intros x Hx. apply (rchild_of ind x Hi (Hr x Hx)).
Qed.
