(* The accessors on the tree of a liberal layout (with the documented panics), the embedding of the
   well-formed fields of C10 into the liberal layouts, and the image theorem of the reader. *)
From V.model Require Import Base RelLex RelParse RelAcc RelGrammar RelGrammarAll.
From V.proofs Require Import BaseP RelLexP RelParseP RelGrammarLexP RelGrammarParseP RelGrammarAccP RelLexInvP
  RelGrammarAllParseP RelGrammarAllInvP.

(* ---- searching among the children of a liberal relation tree ---- *)
Lemma fn_elems k w : first_node_of_kind k (elems w) = None.
Proof. apply first_node_elems. Qed.

Lemma fn_pgroups k ps : k <> PROFILES -> first_node_of_kind k (flat_map pgroup_elems ps) = None.
Proof.
  intros Hk. induction ps as [|g r IH]; [reflexivity|]. cbn [flat_map]. unfold pgroup_elems at 1.
  rewrite !first_node_app, fn_elems, IH. cbn. destruct k; try reflexivity. congruence.
Qed.

Lemma fn_aver k v : first_node_of_kind k (aver_elems v) = if rkind_eqb VERSION k then Some (aver_node v) else None.
Proof. unfold aver_elems. rewrite first_node_app, fn_elems. cbn [first_node_of_kind aver_node]. destruct (rkind_eqb VERSION k); reflexivity. Qed.
Lemma fn_agroup k g : first_node_of_kind k (agroup_elems g) = if rkind_eqb ARCHITECTURES k then Some (agroup_node g) else None.
Proof. unfold agroup_elems. rewrite first_node_app, fn_elems. cbn [first_node_of_kind agroup_node]. destruct (rkind_eqb ARCHITECTURES k); reflexivity. Qed.
Lemma fn_aqual k q : first_node_of_kind k (aqual_elems q) = if rkind_eqb ARCHQUAL k then Some (aqual_node q) else None.
Proof. unfold aqual_elems. rewrite first_node_app, fn_elems. cbn [first_node_of_kind aqual_node]. destruct (rkind_eqb ARCHQUAL k); reflexivity. Qed.

Lemma fn_arel k r last : k <> PROFILES ->
  first_node_of_kind k (children (arel_tree r last)) =
  match (if rkind_eqb ARCHQUAL k then option_map aqual_node (a_qual r) else None) with
  | Some x => Some x
  | None =>
    match (if rkind_eqb VERSION k then option_map aver_node (a_ver r) else None) with
    | Some x => Some x
    | None => if rkind_eqb ARCHITECTURES k then option_map agroup_node (a_archs r) else None
    end
  end.
Proof.
  intros Hk. unfold arel_tree. cbn [children first_node_of_kind]. rewrite !first_node_app.
  rewrite (fn_pgroups k (a_profs r) Hk).
  assert (E : first_node_of_kind k (if a_owns_trail r last then elems (a_trail r) else []) = None)
    by (destruct (a_owns_trail r last); [apply fn_elems|reflexivity]).
  rewrite E.
  destruct (a_qual r) as [q|]; destruct (a_ver r) as [v|]; destruct (a_archs r) as [g|];
    cbn [opt_elems option_map first_node_of_kind]; rewrite ?fn_aqual, ?fn_aver, ?fn_agroup;
    destruct (rkind_eqb ARCHQUAL k); destruct (rkind_eqb VERSION k); destruct (rkind_eqb ARCHITECTURES k); reflexivity.
Qed.

Lemma first_tok_w k w : wsk w = true -> is_ws_kind k = false -> first_tok_of_kind k (elems w) = None.
Proof.
  intros Hw Hk. induction w as [|[k' s] t IH]; [reflexivity|]. cbn [wsk forallb fst] in Hw. apply andb_true_iff in Hw. destruct Hw as [Hk' Ht].
  cbn [elems map tk fst snd first_tok_of_kind]. replace (rkind_eqb k' k) with false; [apply IH, Ht|].
  destruct k'; try discriminate; destruct k; try discriminate; reflexivity.
Qed.

Lemma version_text_w w : wsk w = true -> version_text_of (elems w) = [].
Proof.
  intros Hw. induction w as [|[k' s] t IH]; [reflexivity|]. cbn [wsk forallb fst] in Hw. apply andb_true_iff in Hw. destruct Hw as [Hk' Ht].
  change (version_text_of (elems ((k', s) :: t))) with
    ((if rkind_eqb k' IDENT || rkind_eqb k' COLON then s else []) ++ version_text_of (elems t)).
  rewrite (IH Ht), app_nil_r. destruct k'; try discriminate; reflexivity.
Qed.

Lemma version_text_pieces l : version_text_of (elems (map vpiece_tok l)) = rttext_of (map vpiece_tok l).
Proof.
  induction l as [|p r IH]; [reflexivity|]. cbn [map].
  destruct (vpiece_tok p) as [k s] eqn:E.
  change (version_text_of (elems ((k, s) :: map vpiece_tok r))) with
    ((if rkind_eqb k IDENT || rkind_eqb k COLON then s else []) ++ version_text_of (elems (map vpiece_tok r))).
  rewrite IH. unfold rttext_of. cbn [map concat snd]. f_equal. destruct p; cbn in E; injection E as <- <-; reflexivity.
Qed.

Lemma text_ops op : text (Node CONSTRAINT (elems (map op_tok op))) = op.
Proof.
  rewrite text_node, texts_elems. unfold rttext. induction op as [|c r IH]; [reflexivity|]. cbn [map concat]. rewrite IH.
  unfold op_tok. destruct (c =? 60)%N; [reflexivity|]. destruct (c =? 62)%N; reflexivity.
Qed.

(* ---- the accessors of one relation ---- *)
Lemma a_acc_ver r last : arel_ok r = true ->
  relation_version (arel_tree r last) = match a_ver r with Some v => aver_content v | None => Ok None end.
Proof.
  intros Hok. unfold arel_ok in Hok. andb_split Hok.
  unfold relation_version. rewrite fn_arel by discriminate. cbn [rkind_eqb rkind_code N.eqb Pos.eqb].
  destruct (a_ver r) as [v|]; cbn [option_map opt_ok] in *; [|reflexivity].
  destruct (aver_ok_inv v W2) as (V0 & V1 & V2 & V3 & _ & _).
  cbn [aver_node children first_node_of_kind]. rewrite first_node_app, fn_elems.
  cbn [app first_node_of_kind rkind_eqb rkind_code N.eqb Pos.eqb].
  assert (E : version_text_of
      (Tok L_PARENS [40%N] :: elems (av_ws1 v) ++ Node CONSTRAINT (elems (map op_tok (av_op v)))
        :: elems (av_ws2 v) ++ elems (map vpiece_tok (av_ver v)) ++ elems (av_ws3 v) ++ [Tok R_PARENS [41%N]])
      = rttext_of (map vpiece_tok (av_ver v))).
  { change (version_text_of (Tok L_PARENS [40%N] :: ?x)) with (version_text_of x).
    rewrite version_text_app, (version_text_w _ V1). cbn [app].
    change (version_text_of (Node CONSTRAINT ?l :: ?x)) with (version_text_of x).
    rewrite !version_text_app, (version_text_w _ V2), (version_text_w _ V3), version_text_pieces. cbn [app]. rewrite app_nil_r. reflexivity. }
  rewrite E. unfold aver_content. rewrite text_ops. reflexivity.
Qed.

Lemma a_acc_qual r last : arel_ok r = true -> relation_archqual (arel_tree r last) = option_map aq_name (a_qual r).
Proof.
  intros Hok. unfold arel_ok in Hok. andb_split Hok.
  unfold relation_archqual. rewrite fn_arel by discriminate. cbn [rkind_eqb rkind_code N.eqb Pos.eqb].
  destruct (a_qual r) as [q|]; cbn [option_map opt_ok] in *; [|reflexivity].
  unfold aqual_ok in Hok. apply andb_true_iff in Hok. destruct Hok as [_ Hq1].
  cbn [aqual_node children first_tok_of_kind rkind_eqb rkind_code N.eqb Pos.eqb].
  rewrite first_tok_app, (first_tok_w IDENT _ Hq1 eq_refl). reflexivity.
Qed.

Lemma a_acc_archs r last :
  relation_architectures (arel_tree r last) = option_map (fun g => arch_fold (children (agroup_node g)) false) (a_archs r).
Proof.
  unfold relation_architectures. rewrite fn_arel by discriminate. cbn [rkind_eqb rkind_code N.eqb Pos.eqb].
  destruct (a_archs r) as [g|]; reflexivity.
Qed.

Lemma nodes_pgroups ps : nodes_of PROFILES (flat_map pgroup_elems ps) = map pgroup_node ps.
Proof.
  induction ps as [|g r IH]; [reflexivity|]. cbn [flat_map map]. unfold pgroup_elems at 1.
  rewrite !nodes_of_app, IH, nodes_of_elems. reflexivity.
Qed.

Lemma a_acc_profs r last :
  relation_profiles (arel_tree r last) = map (fun g => profile_fold (children (pgroup_node g)) [] []) (a_profs r).
Proof.
  unfold relation_profiles, rnodes_of_kind. fold (nodes_of PROFILES (children (arel_tree r last))).
  unfold arel_tree. cbn [children]. change (nodes_of PROFILES (Tok IDENT (a_name r) :: ?x)) with (nodes_of PROFILES x).
  rewrite !nodes_of_app, nodes_pgroups.
  assert (E1 : nodes_of PROFILES (opt_elems aqual_elems (a_qual r)) = [])
    by (destruct (a_qual r) as [q|]; [unfold opt_elems, aqual_elems; rewrite nodes_of_app, nodes_of_elems|]; reflexivity).
  assert (E2 : nodes_of PROFILES (opt_elems aver_elems (a_ver r)) = [])
    by (destruct (a_ver r) as [v|]; [unfold opt_elems, aver_elems; rewrite nodes_of_app, nodes_of_elems|]; reflexivity).
  assert (E3 : nodes_of PROFILES (opt_elems agroup_elems (a_archs r)) = [])
    by (destruct (a_archs r) as [g|]; [unfold opt_elems, agroup_elems; rewrite nodes_of_app, nodes_of_elems|]; reflexivity).
  assert (E4 : nodes_of PROFILES (if a_owns_trail r last then elems (a_trail r) else []) = [])
    by (destruct (a_owns_trail r last); [apply nodes_of_elems|reflexivity]).
  rewrite E1, E2, E3, E4, app_nil_r. cbn [app]. rewrite map_map. reflexivity.
Qed.

Lemma relation_acc_arel r last : arel_ok r = true -> relation_acc (arel_tree r last) = arel_content r.
Proof.
  intros H. unfold relation_acc, arel_content. rewrite (a_acc_ver r last H), (a_acc_qual r last H), a_acc_archs, a_acc_profs.
  change (relation_name (arel_tree r last)) with (@Ok str (a_name r)). cbv beta iota.
  destruct (match a_ver r with Some v => aver_content v | None => Ok None end); reflexivity.
Qed.

(* ---- entries and the field ---- *)
Lemma a_entry_rels alts : forall r last, arel_ok r = true -> forallb aalt_ok alts = true ->
  res_all relation_acc (nodes_of RELATION (arels_elems r alts last)) = res_all arel_content (r :: map snd alts).
Proof.
  induction alts as [|[w r'] alts IH]; intros r last Hr Ha; cbn [arels_elems].
  - change (nodes_of RELATION (arel_tree r last :: ?x)) with (arel_tree r last :: nodes_of RELATION x).
    assert (E : nodes_of RELATION (if last then elems (arel_left r last) else []) = [])
      by (destruct last; [apply nodes_of_elems|reflexivity]).
    rewrite E. cbn [res_all map]. rewrite (relation_acc_arel r last Hr). reflexivity.
  - cbn [forallb] in Ha. apply andb_true_iff in Ha. destruct Ha as [Hwr Ha]. unfold aalt_ok in Hwr. cbn [fst snd] in Hwr.
    apply andb_true_iff in Hwr. destruct Hwr as [_ Hr'].
    change (nodes_of RELATION (arel_tree r false :: ?x)) with (arel_tree r false :: nodes_of RELATION x).
    rewrite nodes_of_app, nodes_of_elems. cbn [app].
    change (nodes_of RELATION (Tok PIPE [124%N] :: ?x)) with (nodes_of RELATION x).
    rewrite nodes_of_app, nodes_of_elems. cbn [app res_all map snd].
    rewrite (relation_acc_arel r false Hr), (IH r' last Hr' Ha). reflexivity.
Qed.

Lemma text_asubst body : text (asubst_node body) = rttext_of (asubst_toks body).
Proof. unfold asubst_node. rewrite text_node, texts_elems. reflexivity. Qed.

Lemma a_field_entries a more : forall i, aitem_ok a i = true -> forallb (amore_ok a) more = true ->
  res_all entry_acc (nodes_of ENTRY (aitems_elems i more)) =
  res_all (res_all arel_content) (flat_map aitem_rels (i :: map snd more)).
Proof.
  induction more as [|[w i'] more IH]; intros i Hi Hm; cbn [aitems_elems is_nil].
  - rewrite app_nil_r. destruct i as [r alts|body trail|]; cbn [aitem_elems aitem_rels flat_map map app aitem_ok] in *.
    + change (nodes_of ENTRY (Node ENTRY ?c :: ?x)) with (Node ENTRY c :: nodes_of ENTRY x).
      rewrite nodes_of_elems. cbn [res_all]. apply andb_true_iff in Hi. destruct Hi as [Hr Ha].
      change (entry_acc (Node ENTRY (arels_elems r alts true))) with (res_all relation_acc (nodes_of RELATION (arels_elems r alts true))).
      rewrite (a_entry_rels alts r true Hr Ha). reflexivity.
    + change (nodes_of ENTRY (asubst_node body :: ?x)) with (nodes_of ENTRY x). rewrite nodes_of_elems. reflexivity.
    + reflexivity.
  - cbn [forallb] in Hm. apply andb_true_iff in Hm. destruct Hm as [Hwi Hm]. unfold amore_ok in Hwi. cbn [fst snd] in Hwi.
    apply andb_true_iff in Hwi. destruct Hwi as [_ Hi']. specialize (IH i' Hi' Hm).
    rewrite nodes_of_app. change (nodes_of ENTRY (Tok COMMA [44%N] :: ?x)) with (nodes_of ENTRY x).
    rewrite nodes_of_app, nodes_of_elems. cbn [app map snd flat_map] in IH |- *.
    destruct i as [r alts|body trail|]; cbn [aitem_elems aitem_rels app map aitem_ok] in *.
    + change (nodes_of ENTRY (Node ENTRY ?c :: ?x)) with (Node ENTRY c :: nodes_of ENTRY x).
      rewrite nodes_of_elems. cbn [app res_all]. apply andb_true_iff in Hi. destruct Hi as [Hr Ha].
      change (entry_acc (Node ENTRY (arels_elems r alts false))) with (res_all relation_acc (nodes_of RELATION (arels_elems r alts false))).
      rewrite (a_entry_rels alts r false Hr Ha), IH. reflexivity.
    + change (nodes_of ENTRY (asubst_node body :: ?x)) with (nodes_of ENTRY x). rewrite nodes_of_elems. exact IH.
    + exact IH.
Qed.

Lemma a_field_substvars more : forall i,
  map text (nodes_of SUBSTVAR (aitems_elems i more)) = flat_map aitem_substvars (i :: map snd more).
Proof.
  induction more as [|[w i'] more IH]; intros i; cbn [aitems_elems is_nil].
  - rewrite app_nil_r. destruct i as [r alts|body trail|]; cbn [aitem_elems aitem_substvars flat_map map app].
    + change (nodes_of SUBSTVAR (Node ENTRY ?c :: ?x)) with (nodes_of SUBSTVAR x). rewrite nodes_of_elems. reflexivity.
    + change (nodes_of SUBSTVAR (asubst_node body :: ?x)) with (asubst_node body :: nodes_of SUBSTVAR x).
      rewrite nodes_of_elems. cbn [map]. rewrite text_asubst. reflexivity.
    + reflexivity.
  - specialize (IH i'). rewrite nodes_of_app. change (nodes_of SUBSTVAR (Tok COMMA [44%N] :: ?x)) with (nodes_of SUBSTVAR x).
    rewrite nodes_of_app, nodes_of_elems. cbn [app map snd flat_map] in IH |- *. rewrite map_app, IH.
    destruct i as [r alts|body trail|]; cbn [aitem_elems aitem_substvars app map].
    + change (nodes_of SUBSTVAR (Node ENTRY ?c :: ?x)) with (nodes_of SUBSTVAR x). rewrite nodes_of_elems. reflexivity.
    + change (nodes_of SUBSTVAR (asubst_node body :: ?x)) with (asubst_node body :: nodes_of SUBSTVAR x).
      rewrite nodes_of_elems. cbn [map app]. rewrite text_asubst. reflexivity.
    + reflexivity.
Qed.

Theorem racc_atree_of a g : ashape a g = true -> racc (atree_of g) = acontent g.
Proof.
  intros H. unfold ashape in H. andb_split H.
  unfold racc, acontent, relations_entries, relations_substvars, r_entries, rnodes_of_kind, atree_of, af_items. cbn [children].
  fold (nodes_of ENTRY (elems (af_lead g) ++ aitems_elems (af_first g) (af_rest g))).
  fold (nodes_of SUBSTVAR (elems (af_lead g) ++ aitems_elems (af_first g) (af_rest g))).
  rewrite !nodes_of_app, !nodes_of_elems. cbn [app].
  rewrite (a_field_entries a (af_rest g) (af_first g) W0 W), a_field_substvars. reflexivity.
Qed.

(* ================= soundness and completeness, assembled ================= *)
Theorem liberal_sound a g : awf a g = true ->
  parse_relaxed (arender g) a = Ok (atree_of g, 0) /\ text (atree_of g) = arender g /\ racc (atree_of g) = acontent g.
Proof.
  intros H. pose proof (parse_arender a g H) as P. split; [exact P|]. split.
  - destruct (rparse_total (arender g) a) as (t & n & E & Ht). rewrite P in E. injection E as <- _. exact Ht.
  - unfold awf in H. apply andb_true_iff in H. apply (racc_atree_of a), H.
Qed.

Theorem reader_image s a t : parse_relaxed s a = Ok (t, 0) ->
  exists g, awf a g = true /\ arender g = s /\ atree_of g = t /\ racc t = acontent g.
Proof.
  intros H. destruct (complete_text s a t H) as (g & Hw & Hr & Ht). exists g. repeat split; try assumption.
  rewrite <- Ht. unfold awf in Hw. apply andb_true_iff in Hw. apply (racc_atree_of a), Hw.
Qed.

(* the layout is unique: two liberal layouts with the same text are equal token for token, hence
   have the same tree *)
Theorem liberal_unique a g1 g2 : awf a g1 = true -> awf a g2 = true -> arender g1 = arender g2 ->
  atoks g1 = atoks g2 /\ atree_of g1 = atree_of g2.
Proof.
  intros H1 H2 E. pose proof (parse_arender a g1 H1) as P1. pose proof (parse_arender a g2 H2) as P2.
  unfold awf in H1, H2. apply andb_true_iff in H1, H2. destruct H1 as [_ L1]. destruct H2 as [_ L2].
  apply lexable_rlex in L1, L2. unfold arender in E. rewrite E in L1. rewrite L1 in L2. injection L2 as L2.
  split; [exact L2|]. unfold arender in P1, P2. rewrite E in P1. rewrite P1 in P2. apply Ok_inj in P2. exact (f_equal fst P2).
Qed.

(* ================= the well-formed fields of C10 are liberal layouts ================= *)
Lemma wsk_ws_toks w : wsk (ws_toks w) = true.
Proof. unfold wsk. apply forallb_forall. intros t Ht. pose proof (ws_toks_kinds w) as H. rewrite Forall_forall in H. apply H, Ht. Qed.

Lemma lib_arch_toks terms : flat_map watom_toks (flat_map lib_arch_atoms terms) = flat_map term_toks terms.
Proof.
  induction terms as [|t r IH]; [reflexivity|]. cbn [flat_map]. rewrite flat_map_app, IH. f_equal.
  unfold lib_arch_atoms, term_toks. destruct (t_neg t); cbn [flat_map watom_toks fst snd atom_tok neg_toks app];
    rewrite ?app_nil_r, <- ?app_assoc; reflexivity.
Qed.
Lemma lib_prof_toks terms : flat_map wpterm_toks (map lib_pterm terms) = flat_map term_toks terms.
Proof.
  induction terms as [|t r IH]; [reflexivity|]. cbn [map flat_map]. rewrite IH. f_equal.
  unfold lib_pterm, wpterm_toks, term_toks. cbn [fst snd]. destruct (t_neg t); reflexivity.
Qed.
Lemma lib_ver_toks v : map vpiece_tok (lib_ver_pieces v) = vtext_toks v.
Proof.
  unfold lib_ver_pieces, vtext_toks. rewrite map_app. cbn [map vpiece_tok]. f_equal; [destruct (v_epoch v); reflexivity|]. f_equal.
  induction (v_more v) as [|p r IH]; [reflexivity|]. cbn [flat_map map app vpiece_tok]. rewrite IH. reflexivity.
Qed.
Lemma lib_op_toks o : map op_tok (vop_text o) = vop_toks o.
Proof. destruct o; reflexivity. Qed.

Lemma lib_agroup_toks g : agroup_toks (lib_agroup g) = arch_toks g.
Proof. unfold agroup_toks, agroup_body_toks, lib_agroup, arch_toks, arch_body_toks, group_body_toks. cbn [ag_ws0 ag_atoms ag_ws1]. rewrite lib_arch_toks. reflexivity. Qed.
Lemma lib_pgroup_toks g : pgroup_toks (lib_pgroup g) = prof_toks g.
Proof. unfold pgroup_toks, pgroup_body_toks, lib_pgroup, prof_toks, prof_body_toks, group_body_toks. cbn [pg_ws0 pg_terms pg_ws1]. rewrite lib_prof_toks. reflexivity. Qed.
Lemma lib_aver_toks v : aver_toks (lib_aver v) = vclause_toks v.
Proof.
  unfold aver_toks, aver_body_toks, lib_aver, vclause_toks, vbody_toks. cbn [av_ws0 av_ws1 av_op av_ws2 av_ver av_ws3].
  rewrite lib_ver_toks, lib_op_toks. reflexivity.
Qed.
Lemma lib_aqual_toks q : aqual_toks (lib_aqual q) = qual_toks q.
Proof. reflexivity. Qed.

Lemma lib_arel_toks r : arel_toks (lib_arel r) = rel_toks r.
Proof.
  unfold arel_toks, arel_core_toks, lib_arel, rel_toks, rel_core_toks. cbn [a_name a_qual a_ver a_archs a_profs a_trail].
  f_equal. f_equal. f_equal; [destruct (r_qual r); reflexivity|]. f_equal; [destruct (r_ver r); cbn [option_map opt_toks]; [apply lib_aver_toks|reflexivity]|].
  f_equal; [destruct (r_archs r); cbn [option_map opt_toks]; [apply lib_agroup_toks|reflexivity]|].
  induction (r_profs r) as [|g ps IH]; [reflexivity|]. cbn [map flat_map]. rewrite lib_pgroup_toks, IH. reflexivity.
Qed.

Lemma lib_arels_toks alts : forall r,
  arels_toks (lib_arel r) (map (fun wr => (ws_toks (fst wr), lib_arel (snd wr))) alts) = rels_toks r alts.
Proof.
  induction alts as [|[w r'] alts IH]; intros r; cbn [map arels_toks rels_toks fst snd]; rewrite lib_arel_toks; [reflexivity|].
  rewrite IH. reflexivity.
Qed.

Lemma lib_item_toks i : aitem_toks (lib_item i) = item_toks i.
Proof.
  destruct i as [r alts|seg segs trail|]; cbn [lib_item aitem_toks item_toks]; [apply lib_arels_toks| |reflexivity].
  assert (E : forall l, map vpiece_tok (flat_map (fun s => [VColon; VId s]) l) = flat_map (fun s => [(COLON, [58%N]); (IDENT, s)]) l).
  { induction l as [|s r IH]; [reflexivity|]. cbn [flat_map map app vpiece_tok]. rewrite IH. reflexivity. }
  f_equal. unfold asubst_toks, subst_toks, subst_inner_toks. cbn [map vpiece_tok]. rewrite E. reflexivity.
Qed.

Lemma lib_items_toks more : forall i,
  aitems_toks (lib_item i) (map (fun wi => (ws_toks (fst wi), lib_item (snd wi))) more) = items_toks i more.
Proof.
  induction more as [|[w i'] more IH]; intros i; cbn [map aitems_toks items_toks fst snd]; rewrite lib_item_toks; [reflexivity|].
  rewrite IH. reflexivity.
Qed.

Lemma lib_atoks f : atoks (lib_of f) = rtoks f.
Proof. unfold atoks, lib_of, rtoks. cbn [af_lead af_first af_rest]. rewrite lib_items_toks. reflexivity. Qed.

Lemma lib_arel_ok r : wf_rel r = true -> arel_ok (lib_arel r) = true.
Proof.
  intros H. unfold wf_rel in H. andb_split H. unfold arel_ok, lib_arel. cbn [a_qual a_ver a_archs a_profs a_trail].
  rewrite wsk_ws_toks, andb_true_r.
  assert (E1 : opt_ok aqual_ok (option_map lib_aqual (r_qual r)) = true).
  { destruct (r_qual r); [|reflexivity]. cbn [option_map opt_ok]. unfold aqual_ok, lib_aqual. cbn [aq_ws0 aq_ws1]. rewrite !wsk_ws_toks. reflexivity. }
  assert (E2 : opt_ok aver_ok (option_map lib_aver (r_ver r)) = true).
  { destruct (r_ver r) as [v|]; [|reflexivity]. cbn [option_map opt_ok]. unfold aver_ok, lib_aver. cbn [av_ws0 av_ws1 av_op av_ws2 av_ver av_ws3].
    rewrite !wsk_ws_toks. unfold lib_ver_pieces. destruct (v_epoch v); destruct (v_op v); reflexivity. }
  assert (E3 : opt_ok agroup_ok (option_map lib_agroup (r_archs r)) = true).
  { destruct (r_archs r) as [g|]; [|reflexivity]. cbn [option_map opt_ok]. unfold agroup_ok, lib_agroup. cbn [ag_ws0 ag_atoms ag_ws1].
    rewrite !wsk_ws_toks, andb_true_r. cbn [andb]. induction (g_terms g) as [|t ts IH]; [reflexivity|]. cbn [flat_map]. rewrite forallb_app, IH, andb_true_r.
    unfold lib_arch_atoms. destruct (t_neg t); cbn [forallb fst]; rewrite wsk_ws_toks; reflexivity. }
  assert (E4 : forallb pgroup_ok (map lib_pgroup (r_profs r)) = true).
  { clear. induction (r_profs r) as [|g ps IH]; [reflexivity|]. cbn [map forallb]. rewrite IH, andb_true_r.
    unfold pgroup_ok, lib_pgroup. cbn [pg_ws0 pg_terms pg_ws1]. rewrite !wsk_ws_toks, andb_true_r. cbn [andb].
    induction (g_terms g) as [|t ts IHt]; [reflexivity|]. cbn [map forallb]. rewrite IHt, andb_true_r.
    unfold lib_pterm. cbn [fst snd]. rewrite wsk_ws_toks. destruct (t_neg t); reflexivity. }
  rewrite E1, E2, E3, E4. reflexivity.
Qed.

Lemma lib_item_ok a i : wf_item a i = true -> aitem_ok a (lib_item i) = true.
Proof.
  destruct i as [r alts|seg segs trail|]; cbn [wf_item lib_item aitem_ok]; intros H; [| |reflexivity].
  - apply andb_true_iff in H. destruct H as [Hr Ha]. rewrite (lib_arel_ok r Hr). cbn [andb].
    induction alts as [|[w r'] alts IH]; [reflexivity|]. cbn [forallb map] in *. apply andb_true_iff in Ha. destruct Ha as [Hwr Ha].
    unfold wf_alt in Hwr. cbn [fst snd] in Hwr. apply andb_true_iff in Hwr. destruct Hwr as [_ Hr'].
    unfold aalt_ok at 1. cbn [fst snd]. rewrite wsk_ws_toks, (lib_arel_ok r' Hr'), (IH Ha). reflexivity.
  - andb_split H. rewrite H, wsk_ws_toks. reflexivity.
Qed.

Lemma lib_shape a f : wf_rfield a f = true -> ashape a (lib_of f) = true.
Proof.
  intros H. unfold wf_rfield in H. andb_split H. unfold ashape, lib_of. cbn [af_lead af_first af_rest].
  rewrite wsk_ws_toks, (lib_item_ok a _ W0). cbn [andb].
  induction (f_rest f) as [|[w i] r IH]; [reflexivity|]. cbn [forallb map] in *. apply andb_true_iff in W. destruct W as [Hwi Hr].
  unfold wf_more in Hwi. cbn [fst snd] in Hwi. apply andb_true_iff in Hwi. destruct Hwi as [_ Hi].
  unfold amore_ok at 1. cbn [fst snd]. rewrite wsk_ws_toks, (lib_item_ok a i Hi), (IH Hr). reflexivity.
Qed.

Theorem lib_of_agrees a f : wf_rfield a f = true ->
  awf a (lib_of f) = true /\ arender (lib_of f) = rrender f /\ atoks (lib_of f) = rtoks f /\
  atree_of (lib_of f) = rtree_of f /\ acontent (lib_of f) = Ok (rcontent_acc f).
Proof.
  intros H. pose proof (lib_shape a f H) as Hs. pose proof (lib_atoks f) as Et.
  destruct (rlex_lexable _ _ (rlex_rrender a f H)) as [Hl Hx].
  assert (Etree : atree_of (lib_of f) = rtree_of f).
  { pose proof (parse_atoks a (lib_of f) Hs) as P. rewrite Et, (parse_rtoks a f H) in P. apply Ok_inj in P. symmetry. exact (f_equal fst P). }
  split; [unfold awf; rewrite Hs, Et, Hl; reflexivity|]. split; [unfold arender; rewrite Et; exact Hx|].
  split; [exact Et|]. split; [exact Etree|].
  rewrite <- (racc_atree_of a _ Hs), Etree. apply (racc_rtree_of a), H.
Qed.
