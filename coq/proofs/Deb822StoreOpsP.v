(* Lemmas about Deb822Store.v (C04H), part 2: splice_children in the forms the code uses, and
   ensure_trailing_newline: the store-level helper computes Deb822Edit.ensure_nl on the node its
   handle points at. *)
From V.model Require Import Base Deb822Lex Deb822Parse Deb822Edit Deb822Store.
From V.proofs Require Import BaseP Deb822EditP Deb822StoreP.

(* ------------------------------------------------------------------ splice_children(i..i+1, []) *)
Lemma splice_delete_spec ts rs pr tid ri T p kd pre x post :
  nth_error rs pr = Some (Some (mk_hnd tid p)) ->
  nth_error ts tid = Some (mk_slot ri T) -> get_path T p = Some (Node kd (pre ++ x :: post)) ->
  exists ts',
    runs (m_splice pr (length pre) (S (length pre)) []) (mk_state ts rs) tt
         (mk_state ts' (map (option_map (rebase_detach tid p (length pre) (length ts))) rs)) /\
    length ts' = S (length ts) /\
    nth_error ts' tid = Some (mk_slot ri (upd_path T p (fun _ => Node kd (pre ++ post)))) /\
    nth_error ts' (length ts) = Some (mk_slot (length pre) x) /\
    (forall j, j <> tid -> j < length ts -> nth_error ts' j = nth_error ts j).
Proof.
  intros Hp HT HG.
  assert (HGx : get_path T (p ++ [length pre]) = Some x) by (eapply get_path_child; [exact HG|apply nth_error_app_len]).
  destruct (detach_h_spec ts rs tid ri T p _ x HT HGx) as (ts1 & R1 & L1 & T1 & N1 & O1).
  exists ts1. split; [|split; [|split; [|split]]]; auto.
  - unfold m_splice. rbind; [apply runs_get_reg; exact Hp|].
    rbind; [eapply runs_children_of; [exact HT|exact HG]|]. cbn [children].
    assert (length pre <? S (length pre) = true) as -> by (apply Nat.ltb_lt; lia).
    assert (length pre <? length (pre ++ x :: post) = true) as -> by (apply Nat.ltb_lt; rewrite app_length; cbn; lia).
    cbn [andb]. unfold child_h. cbn [h_tid h_path].
    rbind; [rbind; [exact R1|]; rdone|]. cbn [m_attach_all]. rdone.
  - rewrite T1. f_equal. f_equal. eapply upd_path_ext; [exact HG|]. cbn [children set_children ekind].
    now rewrite delete_at_app_len.
Qed.

(* ------------------------------------------------------------------ attaching roots of other trees *)
Lemma insert_at_cons_step {A} (idx : nat) (c : A) (cs' cs : list A) : idx <= length cs ->
  insert_at (S idx) cs' (insert_at idx [c] cs) = insert_at idx (c :: cs') cs.
Proof.
  revert cs; induction idx as [|idx IH]; intros cs H.
  - cbn [insert_at app]. reflexivity.
  - destruct cs as [|y r]; [cbn in H; lia|]. cbn [insert_at]. f_equal. apply IH. cbn in H. lia.
Qed.
Lemma insert_at_length {A} idx (new cs : list A) : idx <= length cs -> length (insert_at idx new cs) = length new + length cs.
Proof.
  revert cs; induction idx as [|idx IH]; intros cs H; cbn [insert_at].
  - now rewrite app_length.
  - destruct cs as [|y r]; [cbn in H; lia|]. cbn [length]. rewrite IH by (cbn in H; lia). lia.
Qed.

(* registers crs hold the roots of the distinct trees tcs, whose trees are Cs *)
Lemma attach_all_roots : forall (crs tcs : list nat) (Cs : list tree) idx ts rs pr tid ri T p kd cs,
  nth_error rs pr = Some (Some (mk_hnd tid p)) ->
  nth_error ts tid = Some (mk_slot ri T) -> get_path T p = Some (Node kd cs) -> idx <= length cs ->
  length tcs = length crs -> length Cs = length crs -> NoDup tcs -> ~ In tid tcs ->
  (forall j cr tc C, nth_error crs j = Some cr -> nth_error tcs j = Some tc -> nth_error Cs j = Some C ->
     nth_error rs cr = Some (Some (mk_hnd tc [])) /\ exists rc, nth_error ts tc = Some (mk_slot rc C)) ->
  exists ts' F,
    runs (m_attach_all pr idx crs) (mk_state ts rs) tt (mk_state ts' (map (option_map F) rs)) /\
    length ts' = length ts /\
    nth_error ts' tid = Some (mk_slot ri (upd_path T p (fun _ => Node kd (insert_at idx Cs cs)))) /\
    (forall j, j <> tid -> ~ In j tcs -> nth_error ts' j = nth_error ts j) /\
    (forall j tc, nth_error tcs j = Some tc -> F (mk_hnd tc []) = mk_hnd tid (p ++ [idx + j])) /\
    (forall g, ~ In (h_tid g) tcs -> outside tid p g -> F g = g) /\
    (forall c rest, F (mk_hnd tid (p ++ c :: rest)) = mk_hnd tid (p ++ (if idx <=? c then c + length crs else c) :: rest)).
Proof.
  induction crs as [|cr crs' IH]; intros tcs Cs idx ts rs pr tid ri T p kd cs Hpr HT HG Hidx Ltc LCs Hnd Hnin Hregs.
  - destruct tcs; [|discriminate]. destruct Cs; [|discriminate].
    exists ts, (fun g => g). rewrite map_option_map_id. split; [cbn [m_attach_all]; rdone|]. split; [reflexivity|].
    split.
    { rewrite HT. f_equal. f_equal. symmetry. replace (insert_at idx [] cs) with cs; [now apply upd_path_same|].
      clear -Hidx. revert cs Hidx; induction idx as [|i IHi]; intros cs H; [reflexivity|]. destruct cs; [cbn in H; lia|].
      cbn [insert_at]. f_equal. apply IHi. cbn in H. lia. }
    split; [auto|]. split; [intros j tc H; destruct j; discriminate|]. split; [auto|].
    intros c rest. cbn [length]. rewrite Nat.add_0_r. now destruct (idx <=? c).
  - destruct tcs as [|tc tcs']; [discriminate|]. destruct Cs as [|C Cs']; [discriminate|].
    cbn [length] in Ltc, LCs. inversion Hnd as [|? ? Hni Hnd']; subst.
    destruct (Hregs 0 cr tc C eq_refl eq_refl eq_refl) as (Hcr & rc & HC).
    assert (Hne : tid <> tc) by (intros ->; apply Hnin; now left).
    destruct (attach_root_spec ts rs pr cr tid ri T p kd cs idx tc rc C Hpr Hcr HT HG HC Hne Hidx) as (ts1 & R1 & L1 & T1 & O1).
    set (F1 := rebase_attach tid p idx tc) in *.
    set (T' := upd_path T p (fun _ => Node kd (insert_at idx [C] cs))) in *.
    assert (HG' : get_path T' p = Some (Node kd (insert_at idx [C] cs))) by (unfold T'; now apply get_path_upd_path with (n := Node kd cs)).
    assert (Hpr1 : nth_error (map (option_map F1) rs) pr = Some (Some (mk_hnd tid p))).
    { rewrite (nth_error_map_reg F1 _ _ _ Hpr). unfold F1. rewrite rebase_attach_outside; [reflexivity|cbn; congruence|apply outside_self]. }
    assert (Hregs1 : forall j cr0 tc0 C0, nth_error crs' j = Some cr0 -> nth_error tcs' j = Some tc0 -> nth_error Cs' j = Some C0 ->
              nth_error (map (option_map F1) rs) cr0 = Some (Some (mk_hnd tc0 [])) /\ exists rc0, nth_error ts1 tc0 = Some (mk_slot rc0 C0)).
    { intros j cr0 tc0 C0 H1 H2 H3. destruct (Hregs (S j) cr0 tc0 C0 H1 H2 H3) as (Hr & rc0 & HC0).
      assert (tc0 <> tc) by (intros ->; apply Hni; eapply nth_error_In; exact H2).
      assert (tc0 <> tid) by (intros ->; apply Hnin; right; eapply nth_error_In; exact H2).
      split.
      - rewrite (nth_error_map_reg F1 _ _ _ Hr). unfold F1. rewrite rebase_attach_outside; [reflexivity|cbn; congruence|apply outside_other; cbn; congruence].
      - exists rc0. rewrite O1 by congruence. exact HC0. }
    assert (Hidx' : S idx <= length (insert_at idx [C] cs)) by (rewrite insert_at_length by exact Hidx; cbn; lia).
    destruct (IH tcs' Cs' (S idx) ts1 (map (option_map F1) rs) pr tid ri T' p kd (insert_at idx [C] cs)
                Hpr1 T1 HG' Hidx' ltac:(lia) ltac:(lia) Hnd' ltac:(intros Hin; apply Hnin; now right) Hregs1)
      as (ts2 & F2 & R2 & L2 & T2 & O2 & S2 & A2 & B2).
    exists ts2, (fun g => F2 (F1 g)). rewrite <- map_option_map_comp.
    split; [cbn [m_attach_all]; rbind; [exact R1|exact R2]|]. split; [lia|].
    split.
    { rewrite T2. unfold T'. rewrite (upd_path_upd_path _ _ _ _ _ HG). f_equal. f_equal.
      eapply upd_path_ext; [exact HG|]. now rewrite insert_at_cons_step. }
    split.
    { intros j H1 H2. rewrite O2; [apply O1; [exact H1|intros ->; apply H2; now left]|exact H1|intros Hin; apply H2; now right]. }
    split.
    { intros j tc0 Hj. destruct j as [|j]; cbn [nth_error] in Hj.
      - injection Hj as <-. unfold F1. rewrite rebase_attach_child. rewrite B2.
        assert (S idx <=? idx = false) as -> by (apply Nat.leb_gt; lia). now rewrite Nat.add_0_r.
      - assert (tc0 <> tc) by (intros ->; apply Hni; eapply nth_error_In; exact Hj).
        assert (tc0 <> tid) by (intros ->; apply Hnin; right; eapply nth_error_In; exact Hj).
        unfold F1. rewrite rebase_attach_outside; [|cbn; congruence|apply outside_other; cbn; congruence].
        rewrite (S2 j tc0 Hj). do 3 f_equal. lia. }
    split.
    { intros g Hg Ho. unfold F1. rewrite rebase_attach_outside; [|intros E; apply Hg; now left|exact Ho].
      apply A2; [intros Hin; apply Hg; now right|exact Ho]. }
    intros c rest. unfold F1. destruct (idx <=? c) eqn:E.
    + apply Nat.leb_le in E. rewrite rebase_attach_after by (auto; lia). rewrite B2.
      assert (S idx <=? S c = true) as -> by (apply Nat.leb_le; lia). do 3 f_equal. cbn [length]. lia.
    + apply Nat.leb_gt in E. rewrite rebase_attach_before by (auto; lia). rewrite B2.
      assert (S idx <=? c = false) as -> by (apply Nat.leb_gt; lia). reflexivity.
Qed.

(* splice_children(idx..idx, new roots) *)
Lemma splice_insert_roots_spec crs tcs Cs idx ts rs pr tid ri T p kd cs :
  nth_error rs pr = Some (Some (mk_hnd tid p)) ->
  nth_error ts tid = Some (mk_slot ri T) -> get_path T p = Some (Node kd cs) -> idx <= length cs ->
  length tcs = length crs -> length Cs = length crs -> NoDup tcs -> ~ In tid tcs ->
  (forall j cr tc C, nth_error crs j = Some cr -> nth_error tcs j = Some tc -> nth_error Cs j = Some C ->
     nth_error rs cr = Some (Some (mk_hnd tc [])) /\ exists rc, nth_error ts tc = Some (mk_slot rc C)) ->
  exists ts' F,
    runs (m_splice pr idx idx crs) (mk_state ts rs) tt (mk_state ts' (map (option_map F) rs)) /\
    length ts' = length ts /\
    nth_error ts' tid = Some (mk_slot ri (upd_path T p (fun _ => Node kd (insert_at idx Cs cs)))) /\
    (forall j, j <> tid -> ~ In j tcs -> nth_error ts' j = nth_error ts j) /\
    (forall j tc, nth_error tcs j = Some tc -> F (mk_hnd tc []) = mk_hnd tid (p ++ [idx + j])) /\
    (forall g, ~ In (h_tid g) tcs -> outside tid p g -> F g = g) /\
    (forall c rest, F (mk_hnd tid (p ++ c :: rest)) = mk_hnd tid (p ++ (if idx <=? c then c + length crs else c) :: rest)).
Proof.
  intros Hpr HT HG Hidx Ltc LCs Hnd Hnin Hregs.
  destruct (attach_all_roots crs tcs Cs idx ts rs pr tid ri T p kd cs Hpr HT HG Hidx Ltc LCs Hnd Hnin Hregs)
    as (ts' & F & R & rest).
  exists ts', F. split; [|exact rest].
  unfold m_splice. rbind; [apply runs_get_reg; exact Hpr|].
  rbind; [eapply runs_children_of; [exact HT|exact HG]|].
  rewrite Nat.ltb_irrefl. cbn [andb]. rbind; [rdone|]. exact R.
Qed.

(* splice_children(i..i+1, [one new root]) *)
Lemma splice_replace_root_spec ts rs pr cr tid ri T p kd pre x post tc rc C :
  nth_error rs pr = Some (Some (mk_hnd tid p)) -> nth_error rs cr = Some (Some (mk_hnd tc [])) ->
  nth_error ts tid = Some (mk_slot ri T) -> get_path T p = Some (Node kd (pre ++ x :: post)) ->
  nth_error ts tc = Some (mk_slot rc C) -> tid <> tc ->
  exists ts' F,
    runs (m_splice pr (length pre) (S (length pre)) [cr]) (mk_state ts rs) tt (mk_state ts' (map (option_map F) rs)) /\
    length ts' = S (length ts) /\
    nth_error ts' tid = Some (mk_slot ri (upd_path T p (fun _ => Node kd (pre ++ C :: post)))) /\
    nth_error ts' (length ts) = Some (mk_slot (length pre) x) /\
    (forall j, j <> tid -> j <> tc -> j < length ts -> nth_error ts' j = nth_error ts j) /\
    (forall g, h_tid g < length ts -> h_tid g <> tc -> outside tid p g -> F g = g).
Proof.
  intros Hp Hc HT HG HC Hne.
  pose proof (nth_error_Some_lt _ _ _ HC) as Hlc. pose proof (nth_error_Some_lt _ _ _ HT) as Hlt.
  assert (HGx : get_path T (p ++ [length pre]) = Some x) by (eapply get_path_child; [exact HG|apply nth_error_app_len]).
  destruct (detach_h_spec ts rs tid ri T p _ x HT HGx) as (ts1 & R1 & L1 & T1 & N1 & O1).
  set (F1 := rebase_detach tid p (length pre) (length ts)) in *.
  assert (ET : upd_path T p (fun q => set_children (delete_at (length pre) (children q)) q)
               = upd_path T p (fun _ => Node kd (pre ++ post))).
  { eapply upd_path_ext; [exact HG|]. cbn [children set_children ekind]. now rewrite delete_at_app_len. }
  rewrite ET in T1.
  assert (Hp1 : nth_error (map (option_map F1) rs) pr = Some (Some (mk_hnd tid p))).
  { rewrite (nth_error_map_reg F1 _ _ _ Hp). unfold F1. now rewrite rebase_detach_outside by apply outside_self. }
  assert (Hc1 : nth_error (map (option_map F1) rs) cr = Some (Some (mk_hnd tc []))).
  { rewrite (nth_error_map_reg F1 _ _ _ Hc). unfold F1. now rewrite rebase_detach_outside by (apply outside_other; cbn; congruence). }
  assert (HC1 : nth_error ts1 tc = Some (mk_slot rc C)) by (rewrite O1 by (auto; lia); exact HC).
  assert (HG1 : get_path (upd_path T p (fun _ => Node kd (pre ++ post))) p = Some (Node kd (pre ++ post)))
    by (now apply get_path_upd_path with (n := Node kd (pre ++ x :: post))).
  destruct (attach_root_spec ts1 (map (option_map F1) rs) pr cr tid ri _ p kd (pre ++ post) (length pre) tc rc C
              Hp1 Hc1 T1 HG1 HC1 Hne ltac:(rewrite app_length; lia)) as (ts2 & R2 & L2 & T2 & O2).
  exists ts2, (fun g => rebase_attach tid p (length pre) tc (F1 g)).
  rewrite <- map_option_map_comp. split; [|split; [|split; [|split; [|split]]]].
  - unfold m_splice. rbind; [apply runs_get_reg; exact Hp|].
    rbind; [eapply runs_children_of; [exact HT|exact HG]|]. cbn [children].
    assert (length pre <? S (length pre) = true) as -> by (apply Nat.ltb_lt; lia).
    assert (length pre <? length (pre ++ x :: post) = true) as -> by (apply Nat.ltb_lt; rewrite app_length; cbn; lia).
    cbn [andb]. unfold child_h. cbn [h_tid h_path].
    rbind; [rbind; [exact R1|]; rdone|].
    cbn [m_attach_all]. rbind; [exact R2|]. rdone.
  - lia.
  - rewrite T2. f_equal. f_equal. rewrite (upd_path_upd_path _ _ _ _ _ HG).
    eapply upd_path_ext; [exact HG|]. now rewrite insert_at_app_len.
  - rewrite O2 by lia. exact N1.
  - intros j H1 H2 H3. rewrite O2 by auto. now apply O1.
  - intros g Hg Ht Ho. unfold F1. rewrite rebase_detach_outside by exact Ho. now apply rebase_attach_outside.
Qed.

(* ------------------------------------------------------------------ last_token and ensure_nl *)
Lemma kind_eqb_newline k : kind_eqb k NEWLINE = true <-> k = NEWLINE.
Proof. destruct k; cbn; split; intros H; try discriminate; reflexivity. Qed.

Lemma last_go_snoc r x :
  (fix go (l : list tree) : option (list nat) :=
     match l with
     | [] => None
     | [x] => last_token_path x
     | _ :: r => go r
     end) (r ++ [x]) = last_token_path x.
Proof.
  induction r as [|y r IH]; [reflexivity|]. cbn [app]. destruct (r ++ [x]) eqn:E; [destruct r; discriminate|].
  exact IH.
Qed.
Lemma last_token_path_snoc k r x :
  last_token_path (Node k (r ++ [x])) =
  match last_token_path x with Some p => Some (length r :: p) | None => None end.
Proof.
  cbn [last_token_path]. rewrite last_go_snoc. rewrite app_length. cbn [length].
  replace (length r + 1 - 1) with (length r) by lia. reflexivity.
Qed.
Lemma ensure_nl_snoc k r x :
  ensure_nl (Node k (r ++ [x])) = Node k (r ++ match x with
                                                | Tok NEWLINE _ => [x]
                                                | Tok _ _ => [x; Tok NEWLINE [10%N]]
                                                | Node _ _ => [ensure_nl x]
                                                end).
Proof.
  pose proof (ensure_nl_list_spec (r ++ [x])) as H. unfold ensure_nl_list in H. cbn [ensure_nl children] in H.
  cbn [ensure_nl]. f_equal. rewrite H. rewrite rev_app_distr. cbn [rev app]. now rewrite rev_involutive.
Qed.

(* what ensure_nl does, in terms of the path of the last token *)
Lemma ensure_nl_last t : is_node t = true ->
  match last_token_path t with
  | None => ensure_nl t = t
  | Some q => exists q' i tk, q = q' ++ [i] /\ get_path t q = Some tk /\ is_node tk = false /\
       (if kind_eqb (ekind tk) NEWLINE then ensure_nl t = t
        else exists kd cs, get_path t q' = Some (Node kd cs) /\ S i = length cs /\
                           ensure_nl t = upd_path t q' (fun _ => Node kd (cs ++ [Tok NEWLINE [10%N]])))
  end.
Proof.
  induction t as [k s|k cs IH] using elem_ind2; [discriminate|]. intros _.
  destruct cs as [|c0 cs0] using rev_ind; [reflexivity|]. clear IHcs0.
  apply Forall_app in IH as [_ IHx]. inversion IHx as [|? ? Hx _]; subst.
  rewrite last_token_path_snoc, ensure_nl_snoc.
  destruct c0 as [k' s|k' cs'].
  - cbn [last_token_path]. exists [], (length cs0), (Tok k' s). split; [reflexivity|].
    split; [cbn [get_path children]; now rewrite nth_error_app_len|]. split; [reflexivity|].
    cbn [ekind]. destruct (kind_eqb k' NEWLINE) eqn:E.
    + apply kind_eqb_newline in E. now subst k'.
    + exists k, (cs0 ++ [Tok k' s]). split; [reflexivity|]. split; [rewrite app_length; cbn; lia|].
      cbn [upd_path]. rewrite <- app_assoc. cbn [app]. f_equal. f_equal.
      destruct k'; try reflexivity. discriminate.
  - specialize (Hx eq_refl). destruct (last_token_path (Node k' cs')) as [q|] eqn:Eq.
    + destruct Hx as (q' & i & tk & -> & HG & Htk & Hrest).
      exists (length cs0 :: q'), i, tk. split; [reflexivity|].
      split; [cbn [get_path children app]; rewrite nth_error_app_len; exact HG|]. split; [exact Htk|].
      destruct (kind_eqb (ekind tk) NEWLINE).
      * now rewrite Hrest.
      * destruct Hrest as (kd & cs & HG' & Hi & E). exists kd, cs.
        split; [cbn [get_path children]; rewrite nth_error_app_len; exact HG'|]. split; [exact Hi|].
        rewrite E. cbn [upd_path]. now rewrite upd_nth_app_r.
    + now rewrite Hx.
Qed.

(* ------------------------------------------------------------------ ensure_trailing_newline on the store *)
(* the handles it does not move: everything outside the node, the node itself, its direct children *)
Definition near (tid : nat) (p : list nat) (n : nat) (g : hnd) : Prop :=
  outside tid p g \/ (h_tid g = tid /\ exists c, h_path g = p ++ [c] /\ c < n).

Lemma ensure_trailing_newline_spec ts rs r tid ri T p k cs :
  nth_error rs r = Some (Some (mk_hnd tid p)) ->
  nth_error ts tid = Some (mk_slot ri T) -> get_path T p = Some (Node k cs) ->
  exists ts' F,
    runs (ensure_trailing_newline r) (mk_state ts rs) tt (mk_state ts' (map (option_map F) rs)) /\
    length ts <= length ts' /\
    nth_error ts' tid = Some (mk_slot ri (upd_path T p (fun _ => Node k (ensure_nl_list cs)))) /\
    (forall j, j <> tid -> j < length ts -> nth_error ts' j = nth_error ts j) /\
    (forall g, h_tid g < length ts -> near tid p (length cs) g -> F g = g).
Proof.
  intros Hr HT HG. set (n := Node k cs) in *.
  assert (Enl : ensure_nl n = Node k (ensure_nl_list cs)) by reflexivity.
  pose proof (nth_error_Some_lt _ _ _ HT) as Hlt.
  pose proof (ensure_nl_last n eq_refl) as HL.
  assert (Hsame : ensure_nl n = n ->
            exists ts' F, ts' = ts /\ F = (fun g : hnd => g) /\
              nth_error ts' tid = Some (mk_slot ri (upd_path T p (fun _ => Node k (ensure_nl_list cs))))).
  { intros E. exists ts, (fun g => g). repeat split. rewrite <- Enl, E. now rewrite (upd_path_same _ _ _ HG). }
  destruct (last_token_path n) as [q|] eqn:Eq.
  - destruct HL as (q' & i & tk & -> & HGt & Htk & Hrest).
    assert (HGt' : get_path T (p ++ q' ++ [i]) = Some tk) by (rewrite get_path_app, HG; exact HGt).
    destruct (kind_eqb (ekind tk) NEWLINE) eqn:Ek.
    + destruct (Hsame Hrest) as (ts' & F & -> & -> & HT'). exists ts, (fun g => g). rewrite map_option_map_id.
      split; [|split; [lia|split; [exact HT'|split; auto]]].
      unfold ensure_trailing_newline. rbind; [apply runs_get_reg; exact Hr|].
      rbind; [eapply runs_node_of; [exact HT|exact HG]|]. unfold n at 1. fold n. rewrite Eq. cbn [h_tid h_path].
      rbind; [eapply runs_node_of; [exact HT|exact HGt']|]. rewrite Ek. rdone.
    + destruct Hrest as (kd & pcs & HGp & Hi & E).
      assert (HGp' : get_path T (p ++ q') = Some (Node kd pcs)) by (rewrite get_path_app, HG; exact HGp).
      (* the new tree, the two temporaries *)
      set (ts1 := ts ++ [mk_slot 0 newline_line]).
      set (rs1 := (rs ++ [Some (mk_hnd (length ts) ([] ++ [0]))]) ++ [Some (mk_hnd tid (p ++ q'))]).
      assert (Hrp : nth_error rs1 (S (length rs)) = Some (Some (mk_hnd tid (p ++ q')))).
      { unfold rs1. rewrite nth_error_app2 by (rewrite app_length; cbn; lia). rewrite app_length. cbn [length].
        replace (S (length rs) - (length rs + 1)) with 0 by lia. reflexivity. }
      assert (Hrn : nth_error rs1 (length rs) = Some (Some (mk_hnd (length ts) ([] ++ [0])))).
      { unfold rs1. rewrite nth_error_app1 by (rewrite app_length; cbn; lia). apply nth_error_app_at. }
      assert (HT1 : nth_error ts1 tid = Some (mk_slot ri T)) by (unfold ts1; now apply nth_error_app_l).
      assert (HN1 : nth_error ts1 (length ts) = Some (mk_slot 0 newline_line)) by apply nth_error_app_at.
      destruct (attach_sub_spec ts1 rs1 (S (length rs)) (length rs) tid ri T (p ++ q') kd pcs (S i) (length ts) 0 newline_line [] 0
                  (Tok NEWLINE [10%N]) Hrp Hrn HT1 HGp' HN1 eq_refl ltac:(lia) ltac:(lia))
        as (ts2 & F & R2 & L2 & T2 & O2 & A2).
      exists ts2, F. split; [|split; [|split; [|split]]].
      * unfold ensure_trailing_newline. rbind; [apply runs_get_reg; exact Hr|].
        rbind; [eapply runs_node_of; [exact HT|exact HG]|]. unfold n at 1. fold n. rewrite Eq. cbn [h_tid h_path].
        rbind; [eapply runs_node_of; [exact HT|exact HGt']|]. rewrite Ek.
        rewrite app_assoc, parent_h_app.
        eapply runs_eq; [apply runs_scoped|reflexivity|].
        -- rbind; [apply runs_alloc|]. fold ts1. unfold child_h. cbn [h_tid h_path].
           rbind; [apply runs_push_tmp|]. rbind; [apply runs_push_tmp|]. fold rs1.
           rewrite app_length. cbn [length]. rewrite Nat.add_1_r.
           unfold m_splice. rbind; [apply runs_get_reg; exact Hrp|].
           rbind; [eapply runs_children_of; [exact HT1|exact HGp']|].
           rewrite Nat.ltb_irrefl. cbn [andb]. rbind; [rdone|]. cbn [m_attach_all]. rbind; [exact R2|]. rdone.
        -- f_equal. unfold rs1. rewrite !map_app, <- app_assoc. rewrite <- (map_length (option_map F) rs). apply firstn_app_len.
      * unfold ts1 in L2. rewrite app_length in L2. cbn in L2. lia.
      * rewrite T2. f_equal. f_equal. rewrite <- Enl, E.
        rewrite (upd_path_app _ _ _ _ _ HG). eapply upd_path_ext; [exact HG|].
        eapply upd_path_ext; [exact HGp|]. rewrite Hi, insert_at_end. reflexivity.
      * intros j H1 H2. rewrite O2; [unfold ts1; rewrite nth_error_app1 by lia; reflexivity|exact H1|lia|unfold ts1; rewrite app_length; cbn; lia].
      * intros g Hg Hn. rewrite A2 by (unfold ts1; rewrite ?app_length; cbn; lia).
        unfold ts1. rewrite app_length. cbn [length]. rewrite Nat.add_1_r.
        destruct Hn as [Ho|(Et & c & Ep & Hc)].
        -- apply rebase_attach_outside; [lia|now apply outside_deeper].
        -- destruct g as [gt gp]. cbn [h_tid h_path] in *. subst gt gp.
           destruct q' as [|c0 q''].
           ++ rewrite app_nil_r. rewrite app_nil_r in HGp'. rewrite HG in HGp'. injection HGp' as <- <-.
              apply rebase_attach_before; lia.
           ++ apply rebase_attach_outside; [cbn; lia|]. right. intros j rest. cbn [h_path].
              intros Hs. apply strip_prefix_app_inv in Hs. rewrite strip_prefix_app in Hs.
              cbn [app] in Hs. injection Hs as _ Hs. destruct q''; discriminate.
  - destruct (Hsame HL) as (ts' & F & -> & -> & HT'). exists ts, (fun g => g). rewrite map_option_map_id.
    split; [|split; [lia|split; [exact HT'|split; auto]]].
    unfold ensure_trailing_newline. rbind; [apply runs_get_reg; exact Hr|].
    rbind; [eapply runs_node_of; [exact HT|exact HG]|]. unfold n at 1. fold n. rewrite Eq. rdone.
Qed.
