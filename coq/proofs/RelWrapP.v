(* Wrap-and-sort of relationship fields (C13), tree level: what Relations::wrap_and_sort returns
   for ANY tree whose accessors do not panic and whose versions are i32-safe -- the canonical tree
   of the sorted accessor content -- its text, its own accessors, and idempotence on trees.
   The well-formed fields of RelGrammar.v are in RelWrapGrammarP.v. *)
From Coq Require Import Permutation Sorted.
From V.model Require Import Base RelLex RelParse RelAcc RelGrammar RelWrap RelWrapSpec.
From V.model Require DebVersion Sat.
From V.proofs Require Import BaseP DebVersionP SatP RelGrammarAccP RelWrapSortP.

(* ------------------------------------------------------------------ text *)
Lemma texts_spaced (ls : list (list rtree)) : texts (spaced ls) = join [32%N] (map texts ls).
Proof.
  induction ls as [|x r IH]; [reflexivity|]. destruct r as [|y r]; [reflexivity|].
  change (spaced (x :: y :: r)) with (x ++ sp :: spaced (y :: r)).
  change (join [32%N] (map texts (x :: y :: r))) with (texts x ++ [32%N] ++ join [32%N] (map texts (y :: r))).
  rewrite texts_app, texts_cons, IH. reflexivity.
Qed.

Lemma texts_sep_by (sep l : list rtree) : texts (sep_by sep l) = join (texts sep) (map text l).
Proof.
  induction l as [|x r IH]; [reflexivity|]. destruct r as [|y r]; [cbn [sep_by map join]; rewrite texts_cons, texts_nil, app_nil_r; reflexivity|].
  change (sep_by sep (x :: y :: r)) with (x :: sep ++ sep_by sep (y :: r)).
  change (join (texts sep) (map text (x :: y :: r))) with (text x ++ texts sep ++ join (texts sep) (map text (y :: r))).
  rewrite texts_cons, texts_app, IH. reflexivity.
Qed.

Lemma text_profile_toks p : texts (profile_toks p) = profile_text p.
Proof. destruct p; cbn [profile_toks profile_text texts flat_map text app]; rewrite app_nil_r; reflexivity. Qed.

Lemma texts_one (x : rtree) : texts [x] = text x.
Proof. unfold texts. cbn [flat_map]. apply app_nil_r. Qed.
Lemma text_group_node k ko kc (o c : N) (body : list rtree) :
  text (Node k (Tok ko [o] :: body ++ [Tok kc [c]])) = o :: texts body ++ [c].
Proof. rewrite text_node, texts_cons, texts_app, text_tok, texts_one, text_tok. reflexivity. Qed.
Lemma texts_profs_tree ps :
  texts (profs_tree ps) = flat_map (fun g => [32; 60]%N ++ join [32%N] (map profile_text g) ++ [62%N]) ps.
Proof.
  induction ps as [|g r IH]; [reflexivity|]. cbn [profs_tree flat_map]. fold (profs_tree r).
  rewrite texts_app, IH. f_equal.
  rewrite texts_cons. unfold sp at 1. rewrite text_tok, texts_one, text_group_node, texts_spaced.
  rewrite map_map. rewrite (map_ext _ _ text_profile_toks). reflexivity.
Qed.
Theorem text_wrel_tree V w : text (wrel_tree V w) = canon_rel (wrel_c w).
Proof.
  unfold wrel_tree, canon_rel, wrel_c. cbn [c_name c_qual c_ver c_archs c_profs].
  rewrite text_node, texts_cons, !texts_app, text_tok, texts_profs_tree. f_equal. f_equal; [|f_equal].
  - unfold qual_tree. destruct (w_qual w) as [a|]; [|reflexivity]. destruct (v_qual_node V).
    + rewrite texts_one, text_node, texts_cons, texts_one, !text_tok. reflexivity.
    + rewrite texts_cons, texts_one, !text_tok. reflexivity.
  - unfold version_tree. destruct (w_ver w) as [[o v]|]; [|reflexivity]. cbn [option_map fst snd].
    rewrite texts_cons, texts_one. unfold sp. rewrite text_tok.
    change (Node VERSION (Tok L_PARENS [40%N] :: ?b)) with (Node VERSION (Tok L_PARENS [40%N] :: [Node CONSTRAINT [Tok (constraint_kind o) (vop_text o)]; Tok WHITESPACE [32%N]; Tok IDENT (Sat.show_version v)] ++ [Tok R_PARENS [41%N]])).
    rewrite text_group_node. cbn [texts flat_map text app]. rewrite !app_nil_r, <- !app_assoc. reflexivity.
  - unfold archs_tree. destruct (w_archs w) as [l|]; [|reflexivity].
    rewrite texts_cons, texts_one. unfold sp. rewrite text_tok, text_group_node, texts_spaced, map_map.
    rewrite (map_ext (fun x => texts [Tok IDENT x]) (fun x => x)) by (intros; rewrite texts_one; apply text_tok).
    rewrite map_id. reflexivity.
Qed.

Theorem text_entry_tree V ws : text (entry_tree V ws) = canon_entry (map wrel_c ws).
Proof.
  unfold entry_tree, entry_from, canon_entry. rewrite text_node, texts_sep_by, !map_map.
  rewrite (map_ext _ _ (text_wrel_tree V)). reflexivity.
Qed.

Theorem text_field_tree V es svs :
  text (field_tree V es svs) = canon_text (map (map wrel_c) es) (map text svs).
Proof.
  unfold field_tree, relations_from, canon_text. rewrite text_node, texts_sep_by, map_app, !map_map.
  rewrite (map_ext _ _ (text_entry_tree V)). reflexivity.
Qed.

(* ------------------------------------------------------------------ the accessors on the built tree *)
Lemma fn_qual_tree k V q : rkind_eqb ARCHQUAL k = false -> first_node_of_kind k (qual_tree V q) = None.
Proof.
  intros H. unfold qual_tree. destruct q as [a|]; [|reflexivity]. destruct (v_qual_node V); [|reflexivity].
  cbn [first_node_of_kind]. rewrite H. reflexivity.
Qed.
Lemma fn_version_tree k v : rkind_eqb VERSION k = false -> first_node_of_kind k (version_tree v) = None.
Proof.
  intros H. unfold version_tree. destruct v as [[o x]|]; [|reflexivity]. cbn [first_node_of_kind sp]. rewrite H. reflexivity.
Qed.
Lemma fn_archs_tree k a : rkind_eqb ARCHITECTURES k = false -> first_node_of_kind k (archs_tree a) = None.
Proof.
  intros H. unfold archs_tree. destruct a as [l|]; [|reflexivity]. cbn [first_node_of_kind sp]. rewrite H. reflexivity.
Qed.
Lemma fn_profs_tree k ps : rkind_eqb PROFILES k = false -> first_node_of_kind k (profs_tree ps) = None.
Proof.
  intros H. induction ps as [|g r IH]; [reflexivity|]. cbn [profs_tree flat_map app first_node_of_kind sp]. rewrite H. exact IH.
Qed.

Lemma name_wrel_tree V w : relation_name (wrel_tree V w) = Ok (w_name w).
Proof. reflexivity. Qed.

Lemma qual_wrel_tree w : relation_archqual (wrel_tree fixed w) = w_qual w.
Proof.
  unfold relation_archqual, wrel_tree. cbn [children first_node_of_kind]. rewrite first_node_app.
  destruct (w_qual w) as [a|]; [reflexivity|]. cbn [qual_tree first_node_of_kind].
  rewrite first_node_app, fn_version_tree by reflexivity. rewrite first_node_app, fn_archs_tree by reflexivity.
  rewrite fn_profs_tree by reflexivity. reflexivity.
Qed.

(* a Version that FromStr can produce *)
Definition ver_readable (v : option (vop * DebVersion.version)) : Prop :=
  match v with Some (_, x) => exists text, DebVersion.parse_version text = Some x | None => True end.

Lemma show_version_nonempty text x : DebVersion.parse_version text = Some x -> Sat.show_version x <> [].
Proof.
  intros H E. pose proof (parse_show_version text x H) as P. rewrite E, parse_version_empty in P. discriminate.
Qed.

Lemma vop_text_roundtrip o k : vop_of_text (text (Node CONSTRAINT [Tok k (vop_text o)])) = Some o.
Proof. destruct o; reflexivity. Qed.

Lemma version_wrel_tree V w : ver_readable (w_ver w) -> relation_version_p (wrel_tree V w) = Ok (w_ver w).
Proof.
  intros Hr. unfold relation_version_p, wrel_tree. cbn [children first_node_of_kind].
  rewrite first_node_app, fn_qual_tree by reflexivity. rewrite first_node_app.
  destruct (w_ver w) as [[o x]|].
  - cbn [version_tree first_node_of_kind sp rkind_eqb rkind_code N.eqb Pos.eqb children].
    unfold sp. cbn [version_text_of flat_map rkind_eqb rkind_code N.eqb Pos.eqb orb app]. rewrite app_nil_r.
    destruct Hr as [t Ht]. pose proof (show_version_nonempty t x Ht) as Hne.
    destruct (Sat.show_version x) as [|c0 s0] eqn:Es; [congruence|]. rewrite <- Es.
    rewrite vop_text_roundtrip, (parse_show_version t x Ht). reflexivity.
  - cbn [version_tree first_node_of_kind]. rewrite first_node_app, fn_archs_tree by reflexivity.
    rewrite fn_profs_tree by reflexivity. reflexivity.
Qed.

Lemma arch_fold_spaced l :
  arch_fold (spaced (map (fun s => [Tok IDENT s]) l) ++ [Tok R_BRACKET [93%N]]) false = l.
Proof.
  induction l as [|s l IH]; [reflexivity|]. destruct l as [|s' l]; [reflexivity|].
  change (map (fun s => [Tok IDENT s]) (s :: s' :: l)) with ([Tok IDENT s] :: map (fun s => [Tok IDENT s]) (s' :: l)).
  change (spaced ([Tok IDENT s] :: map (fun s => [Tok IDENT s]) (s' :: l)))
    with (Tok IDENT s :: sp :: spaced (map (fun s => [Tok IDENT s]) (s' :: l))).
  cbn [app arch_fold sp rkind_eqb rkind_code N.eqb Pos.eqb]. f_equal. exact IH.
Qed.

Lemma archs_wrel_tree V w : relation_architectures (wrel_tree V w) = w_archs w.
Proof.
  unfold relation_architectures, wrel_tree. cbn [children first_node_of_kind].
  rewrite first_node_app, fn_qual_tree by reflexivity. rewrite first_node_app, fn_version_tree by reflexivity.
  rewrite first_node_app. destruct (w_archs w) as [l|].
  - cbn [archs_tree first_node_of_kind sp rkind_eqb rkind_code N.eqb Pos.eqb children arch_fold].
    rewrite arch_fold_spaced. reflexivity.
  - cbn [archs_tree first_node_of_kind]. rewrite fn_profs_tree by reflexivity. reflexivity.
Qed.

(* a BuildProfile that FromStr can produce: Enabled never starts with "!" *)
Definition bp_ok (p : bprofile) : Prop :=
  match p with
  | Enabled (c :: _) => (c =? 33)%N = false
  | _ => True
  end.
Lemma bp_ok_of_text s : bp_ok (bprofile_of_text s).
Proof.
  destruct s as [|c r]; [exact I|]. cbn [bprofile_of_text]. destruct (c =? 33)%N eqn:E; [exact I|exact E].
Qed.

Definition pend (p : bprofile) : list str := match p with Disabled n => [[33%N]; n] | Enabled n => [n] end.
Lemma pend_text p : bp_ok p -> bprofile_of_text (concat (pend p)) = p.
Proof.
  destruct p as [n|n]; cbn [pend concat app]; rewrite app_nil_r.
  - destruct n as [|c r]; [reflexivity|]. cbn [bp_ok bprofile_of_text]. intros ->. reflexivity.
  - intros _. reflexivity.
Qed.
Lemma pend_nonempty p : pend p <> [].
Proof. destruct p; discriminate. Qed.

Lemma profile_fold_toks p rest ret : profile_fold (profile_toks p ++ rest) [] ret = profile_fold rest (pend p) ret.
Proof. destruct p; reflexivity. Qed.

Lemma profile_fold_spaced g : forall ret, Forall bp_ok g ->
  profile_fold (spaced (map profile_toks g) ++ [Tok R_ANGLE [62%N]]) [] ret = ret ++ g.
Proof.
  induction g as [|p g IH]; intros ret Hok; [cbn; rewrite app_nil_r; reflexivity|].
  inversion Hok as [|? ? Hp Hg]; subst.
  destruct g as [|p' g].
  - cbn [map spaced]. rewrite profile_fold_toks. cbn [profile_fold ekind is_ws_kind is_angle].
    pose proof (pend_nonempty p) as Hne. destruct (pend p) as [|c0 r0] eqn:Ep; [congruence|]. rewrite <- Ep, (pend_text p Hp). reflexivity.
  - change (map profile_toks (p :: p' :: g)) with (profile_toks p :: map profile_toks (p' :: g)).
    change (spaced (profile_toks p :: map profile_toks (p' :: g))) with (profile_toks p ++ sp :: spaced (map profile_toks (p' :: g))).
    rewrite <- app_assoc, profile_fold_toks. cbn [app profile_fold sp ekind is_ws_kind].
    pose proof (pend_nonempty p) as Hne. destruct (pend p) as [|c0 r0] eqn:Ep; [congruence|]. rewrite <- Ep, (pend_text p Hp).
    rewrite (IH _ Hg), <- app_assoc. reflexivity.
Qed.

Lemma nodes_of_qual_tree V q : nodes_of PROFILES (qual_tree V q) = [].
Proof. unfold qual_tree. destruct q; [|reflexivity]. destruct (v_qual_node V); reflexivity. Qed.
Lemma nodes_of_version_tree v : nodes_of PROFILES (version_tree v) = [].
Proof. destruct v as [[o x]|]; reflexivity. Qed.
Lemma nodes_of_archs_tree a : nodes_of PROFILES (archs_tree a) = [].
Proof. destruct a; reflexivity. Qed.
Lemma nodes_of_profs_tree ps :
  nodes_of PROFILES (profs_tree ps) =
  map (fun g => Node PROFILES (Tok L_ANGLE [60%N] :: spaced (map profile_toks g) ++ [Tok R_ANGLE [62%N]])) ps.
Proof. induction ps as [|g r IH]; [reflexivity|]. cbn [profs_tree flat_map app map]. rewrite <- IH. reflexivity. Qed.

Lemma profs_wrel_tree V w : Forall (Forall bp_ok) (w_profs w) -> relation_profiles (wrel_tree V w) = w_profs w.
Proof.
  intros Hok. unfold relation_profiles, rnodes_of_kind, wrel_tree. cbn [children].
  fold (nodes_of PROFILES (Tok IDENT (w_name w) :: qual_tree V (w_qual w) ++ version_tree (w_ver w) ++ archs_tree (w_archs w) ++ profs_tree (w_profs w))).
  change (nodes_of PROFILES (Tok IDENT (w_name w) :: ?x)) with (nodes_of PROFILES x).
  rewrite !nodes_of_app, nodes_of_qual_tree, nodes_of_version_tree, nodes_of_archs_tree, nodes_of_profs_tree. cbn [app].
  rewrite map_map. induction Hok as [|g r Hg Hr IH]; [reflexivity|]. cbn [map children]. f_equal; [|exact IH].
  cbn [profile_fold ekind is_ws_kind is_angle]. apply (profile_fold_spaced g [] Hg).
Qed.

Definition wrel_ok (w : wrel) : Prop := ver_readable (w_ver w) /\ Forall (Forall bp_ok) (w_profs w).

Theorem wacc_wrel_tree w : wrel_ok w -> relation_wacc (wrel_tree fixed w) = Ok w.
Proof.
  intros [Hv Hp]. unfold relation_wacc. rewrite name_wrel_tree, (version_wrel_tree fixed w Hv), qual_wrel_tree, archs_wrel_tree, (profs_wrel_tree fixed w Hp).
  destruct w; reflexivity.
Qed.

(* everything the accessors return is of that kind *)
Lemma profile_fold_ok cs : forall cur ret, Forall bp_ok ret -> Forall bp_ok (profile_fold cs cur ret).
Proof.
  induction cs as [|c r IH]; intros cur ret H; cbn [profile_fold].
  - destruct cur; [exact H|]. apply Forall_app. split; [exact H|]. constructor; [apply bp_ok_of_text|constructor].
  - destruct (is_ws_kind (ekind c)).
    + destruct cur; apply IH; [exact H|]. apply Forall_app. split; [exact H|]. constructor; [apply bp_ok_of_text|constructor].
    + destruct (is_angle (ekind c)); apply IH; exact H.
Qed.

Theorem relation_wacc_ok r w : relation_wacc r = Ok w -> wrel_ok w.
Proof.
  unfold relation_wacc. destruct (relation_name r) as [n| | |]; try discriminate.
  destruct (relation_version_p r) as [v| | |] eqn:Ev; try discriminate. intros H. injection H as <-.
  split; cbn [w_ver w_profs].
  - unfold relation_version_p in Ev. destruct (first_node_of_kind VERSION (children r)) as [vc|]; [|injection Ev as <-; exact I].
    destruct (first_node_of_kind CONSTRAINT (children vc)) as [cn|]; [|injection Ev as <-; exact I].
    destruct (version_text_of (children vc)) as [|c0 s0] eqn:Et; [injection Ev as <-; exact I|].
    destruct (vop_of_text (text cn)); [|discriminate].
    destruct (DebVersion.parse_version (c0 :: s0)) as [pv|] eqn:Ep; [|discriminate]. injection Ev as <-.
    exists (c0 :: s0). exact Ep.
  - unfold relation_profiles. apply Forall_forall. intros g Hg. apply in_map_iff in Hg. destruct Hg as (p & <- & _).
    apply profile_fold_ok. constructor.
Qed.

(* ------------------------------------------------------------------ impl Ord for Relation on built trees *)
Theorem relation_cmp_tree V a b : wrel_ok a -> wrel_ok b -> wrel_safe a = true -> wrel_safe b = true ->
  relation_cmp (wrel_tree V a) (wrel_tree V b) = Ok (wrel_cmp a b).
Proof.
  intros [Hva _] [Hvb _] Hsa Hsb. unfold relation_cmp, wrel_cmp. rewrite !name_wrel_tree.
  destruct (str_cmp (w_name a) (w_name b)); try reflexivity.
  rewrite (version_wrel_tree V a Hva), (version_wrel_tree V b Hvb).
  unfold wrel_safe in Hsa, Hsb.
  destruct (w_ver a) as [[oa xa]|], (w_ver b) as [[ob xb]|]; try reflexivity.
  destruct (vop_cmp oa ob); try reflexivity. apply ver_cmp_safe; assumption.
Qed.

(* ------------------------------------------------------------------ trees built with separators *)
Definition is_tok (e : rtree) : bool := match e with Tok _ _ => true | Node _ _ => false end.

Lemma nodes_of_toks k l : forallb is_tok l = true -> nodes_of k l = [].
Proof.
  induction l as [|x r IH]; intros H; [reflexivity|]. cbn [forallb] in H. apply andb_true_iff in H. destruct H as [Hx Hr].
  destruct x; [|discriminate]. cbn [nodes_of filter is_node andb]. apply IH, Hr.
Qed.

Lemma nodes_of_sep_by k sep l : forallb is_tok sep = true -> nodes_of k (sep_by sep l) = nodes_of k l.
Proof.
  intros Hs. induction l as [|x r IH]; [reflexivity|]. destruct r as [|y r]; [reflexivity|].
  change (sep_by sep (x :: y :: r)) with ([x] ++ sep ++ sep_by sep (y :: r)).
  rewrite !nodes_of_app, (nodes_of_toks k sep Hs), IH. change (x :: y :: r) with ([x] ++ y :: r).
  rewrite nodes_of_app. reflexivity.
Qed.

Lemma nodes_of_all k l : Forall (fun e => is_node e && rkind_eqb (ekind e) k = true) l -> nodes_of k l = l.
Proof.
  induction 1 as [|x r Hx Hr IH]; [reflexivity|]. cbn [nodes_of filter]. rewrite Hx. f_equal. exact IH.
Qed.
Lemma nodes_of_none k l : Forall (fun e => is_node e && rkind_eqb (ekind e) k = false) l -> nodes_of k l = [].
Proof.
  induction 1 as [|x r Hx Hr IH]; [reflexivity|]. cbn [nodes_of filter]. rewrite Hx. exact IH.
Qed.

Lemma entry_relations_tree V ws : entry_relations (entry_tree V ws) = map (wrel_tree V) ws.
Proof.
  unfold entry_relations, r_relations, rnodes_of_kind, entry_tree, entry_from. cbn [children].
  fold (nodes_of RELATION (sep_by [sp; Tok PIPE [124%N]; sp] (map (wrel_tree V) ws))).
  rewrite nodes_of_sep_by by reflexivity. apply nodes_of_all. apply Forall_forall. intros e He.
  apply in_map_iff in He. destruct He as (w & <- & _). reflexivity.
Qed.

Definition is_substvar_node (e : rtree) : Prop := exists cs, e = Node SUBSTVAR cs.

Lemma relations_entries_tree V es svs : Forall is_substvar_node svs ->
  relations_entries (field_tree V es svs) = map (entry_tree V) es.
Proof.
  intros Hs. unfold relations_entries, r_entries, rnodes_of_kind, field_tree, relations_from. cbn [children].
  fold (nodes_of ENTRY (sep_by [Tok COMMA [44%N]; sp] (map (entry_tree V) es ++ svs))).
  rewrite nodes_of_sep_by by reflexivity. rewrite nodes_of_app.
  rewrite (nodes_of_none ENTRY svs).
  - rewrite app_nil_r. apply nodes_of_all. apply Forall_forall. intros e He.
    apply in_map_iff in He. destruct He as (w & <- & _). reflexivity.
  - eapply Forall_impl; [|exact Hs]. intros e [cs ->]. reflexivity.
Qed.

Lemma substvar_nodes_tree V es svs : Forall is_substvar_node svs ->
  substvar_nodes (field_tree V es svs) = svs.
Proof.
  intros Hs. unfold substvar_nodes, rnodes_of_kind, field_tree, relations_from. cbn [children].
  fold (nodes_of SUBSTVAR (sep_by [Tok COMMA [44%N]; sp] (map (entry_tree V) es ++ svs))).
  rewrite nodes_of_sep_by by reflexivity. rewrite nodes_of_app.
  rewrite (nodes_of_none SUBSTVAR (map (entry_tree V) es)).
  - apply nodes_of_all. eapply Forall_impl; [|exact Hs]. intros e [cs ->]. reflexivity.
  - apply Forall_forall. intros e He. apply in_map_iff in He. destruct He as (w & <- & _). reflexivity.
Qed.

Lemma substvar_nodes_are t : Forall is_substvar_node (substvar_nodes t).
Proof.
  unfold substvar_nodes, rnodes_of_kind. apply Forall_forall. intros e He. apply filter_In in He. destruct He as [_ He].
  destruct e as [k s|k cs]; [discriminate|]. cbn [is_node ekind andb] in He. destruct k; try discriminate. exists cs. reflexivity.
Qed.

(* ------------------------------------------------------------------ res_map *)
Lemma res_map_ok {A B} (f : A -> res B) l ys : res_map f l = Ok ys -> Forall2 (fun x y => f x = Ok y) l ys.
Proof.
  revert ys. induction l as [|x r IH]; intros ys H; cbn [res_map] in H.
  - injection H as <-. constructor.
  - destruct (f x) as [y| | |] eqn:E; try discriminate. destruct (res_map f r) as [ys'| | |]; try discriminate.
    injection H as <-. constructor; [exact E|apply IH; reflexivity].
Qed.
Lemma res_map_of {A B} (f : A -> res B) l ys : Forall2 (fun x y => f x = Ok y) l ys -> res_map f l = Ok ys.
Proof. induction 1 as [|x y l ys Hxy _ IH]; [reflexivity|]. cbn [res_map]. rewrite Hxy, IH. reflexivity. Qed.
Lemma res_map_map {A B C} (f : B -> res C) (g : A -> B) l : res_map f (map g l) = res_map (fun x => f (g x)) l.
Proof. induction l as [|x r IH]; [reflexivity|]. cbn [map res_map]. rewrite IH. reflexivity. Qed.
Lemma res_map_id {A B} (f : A -> res B) (g : B -> A) l : (forall x, In x l -> f (g x) = Ok x) -> res_map f (map g l) = Ok l.
Proof.
  induction l as [|x r IH]; intros H; [reflexivity|]. cbn [map res_map]. rewrite (H x (or_introl eq_refl)), IH; [reflexivity|].
  intros y Hy. apply H. right. exact Hy.
Qed.

(* ------------------------------------------------------------------ Entry::wrap_and_sort *)
Definition entry_ok (ws : list wrel) : Prop := Forall wrel_ok ws.

Lemma entry_wacc_ok e ws : entry_wacc e = Ok ws -> entry_ok ws.
Proof.
  intros H. apply res_map_ok in H. unfold entry_ok. induction H as [|x y l ys Hxy _ IH]; constructor; [|exact IH].
  eapply relation_wacc_ok. exact Hxy.
Qed.

Theorem entry_ws_spec V e ws : entry_wacc e = Ok ws -> forallb wrel_safe ws = true ->
  entry_ws V e = Ok (entry_tree V (psort wrel_cmp ws)).
Proof.
  intros Ha Hs. pose proof (entry_wacc_ok e ws Ha) as Hok. unfold entry_ws.
  assert (E : res_map (relation_ws V) (entry_relations e) = Ok (map (wrel_tree V) ws)).
  { apply res_map_of. apply res_map_ok in Ha. clear -Ha. induction Ha as [|x y l ys Hxy _ IH]; constructor; [|exact IH].
    unfold relation_ws. rewrite Hxy. reflexivity. }
  rewrite E. rewrite (sort_res_image (wrel_tree V) relation_cmp wrel_cmp ws); [reflexivity|].
  intros x y Hx Hy. unfold entry_ok in Hok. rewrite Forall_forall in Hok. rewrite forallb_forall in Hs.
  apply relation_cmp_tree; auto.
Qed.

(* ------------------------------------------------------------------ impl Ord for Entry (fixed) on built trees *)
Lemma entry_cmp_lex_trees V : forall a b, entry_ok a -> entry_ok b ->
  forallb wrel_safe a = true -> forallb wrel_safe b = true ->
  entry_cmp_lex (map (wrel_tree V) a) (map (wrel_tree V) b) = Ok (lex_cmp wrel_cmp a b).
Proof.
  induction a as [|x a IH]; destruct b as [|y b]; intros Ha Hb Sa Sb; try reflexivity.
  cbn [map entry_cmp_lex lex_cmp]. inversion Ha; subst. inversion Hb; subst.
  cbn [forallb] in Sa, Sb. apply andb_true_iff in Sa. apply andb_true_iff in Sb. destruct Sa, Sb.
  rewrite relation_cmp_tree by assumption. destruct (wrel_cmp x y); try reflexivity. apply IH; assumption.
Qed.

Theorem entry_cmp_tree a b : entry_ok a -> entry_ok b ->
  forallb wrel_safe a = true -> forallb wrel_safe b = true ->
  entry_cmp fixed (entry_tree fixed a) (entry_tree fixed b) = Ok (wentry_cmp a b).
Proof.
  intros. unfold entry_cmp. cbn [v_entry_ord fixed]. rewrite !entry_relations_tree. apply entry_cmp_lex_trees; assumption.
Qed.

(* ------------------------------------------------------------------ Relations::wrap_and_sort *)
Definition content_ok (es : list (list wrel)) : Prop := Forall entry_ok es.

Lemma wacc_ok t es : wacc t = Ok es -> content_ok es.
Proof.
  intros H. apply res_map_ok in H. unfold content_ok. induction H as [|x y l ys Hxy _ IH]; constructor; [|exact IH].
  eapply entry_wacc_ok. exact Hxy.
Qed.

Lemma perm_entry_ok a b : Permutation a b -> entry_ok a -> entry_ok b.
Proof. intros P H. unfold entry_ok in *. rewrite Forall_forall in *. intros x Hx. apply H. eapply Permutation_in; [apply Permutation_sym, P|exact Hx]. Qed.
Lemma perm_safe a b : Permutation a b -> forallb wrel_safe a = true -> forallb wrel_safe b = true.
Proof. intros P H. rewrite forallb_forall in *. intros x Hx. apply H. eapply Permutation_in; [apply Permutation_sym, P|exact Hx]. Qed.

Lemma sorted_alts_ok es : content_ok es -> content_ok (map (psort wrel_cmp) es).
Proof.
  intros H. unfold content_ok in *. rewrite Forall_forall in *. intros e He. apply in_map_iff in He. destruct He as (e0 & <- & He0).
  eapply perm_entry_ok; [apply psort_perm|apply H, He0].
Qed.
Lemma sorted_alts_safe es : content_safe es = true -> content_safe (map (psort wrel_cmp) es) = true.
Proof.
  unfold content_safe. rewrite !forallb_forall. intros H e He. apply in_map_iff in He. destruct He as (e0 & <- & He0).
  eapply perm_safe; [apply psort_perm|apply H, He0].
Qed.

Lemma sorted_content_ok es : content_ok es -> content_ok (sorted_content es).
Proof.
  intros H. unfold sorted_content, content_ok. apply sorted_alts_ok in H. unfold content_ok in H. rewrite Forall_forall in *.
  intros e He. apply H. eapply Permutation_in; [apply Permutation_sym, psort_perm|exact He].
Qed.
Lemma sorted_content_safe es : content_safe es = true -> content_safe (sorted_content es) = true.
Proof.
  intros H. apply sorted_alts_safe in H. unfold sorted_content, content_safe in *. rewrite forallb_forall in *.
  intros e He. apply H. eapply Permutation_in; [apply Permutation_sym, psort_perm|exact He].
Qed.

(* THE tree-level theorem: for any tree whose accessors do not panic and whose versions are
   i32-safe, wrap_and_sort returns the canonical tree of the sorted accessor content, followed by
   the substitution variables ordered by their text *)
Theorem relations_ws_spec t es : wacc t = Ok es -> content_safe es = true ->
  relations_ws fixed t = Ok (field_tree fixed (sorted_content es) (psort by_text (substvar_nodes t))).
Proof.
  intros Ha Hs. pose proof (wacc_ok t es Ha) as Hok. unfold relations_ws.
  assert (E : res_map (entry_ws fixed) (relations_entries t) = Ok (map (entry_tree fixed) (map (psort wrel_cmp) es))).
  { apply res_map_of. apply res_map_ok in Ha. unfold content_safe in Hs. clear Hok.
    revert Hs. induction Ha as [|x y l ys Hxy _ IH]; intros Hs; [constructor|].
    cbn [forallb] in Hs. apply andb_true_iff in Hs. destruct Hs as [Hy Hs]. cbn [map]. constructor; [|apply IH, Hs].
    apply entry_ws_spec; assumption. }
  rewrite E.
  rewrite (sort_res_image (entry_tree fixed) (entry_cmp fixed) wentry_cmp (map (psort wrel_cmp) es)).
  - reflexivity.
  - pose proof (sorted_alts_ok es Hok) as Hok2. pose proof (sorted_alts_safe es Hs) as Hs2.
    unfold content_ok in Hok2. rewrite Forall_forall in Hok2. unfold content_safe in Hs2. rewrite forallb_forall in Hs2.
    intros x y Hx Hy. apply entry_cmp_tree; auto.
Qed.

(* ... and its text is the canonical text of that content *)
Theorem relations_ws_text t es : wacc t = Ok es -> content_safe es = true ->
  exists t', relations_ws fixed t = Ok t' /\
             text t' = canon_text (map (map wrel_c) (sorted_content es)) (map text (psort by_text (substvar_nodes t))).
Proof.
  intros Ha Hs. eexists. split; [apply relations_ws_spec; eassumption|]. apply text_field_tree.
Qed.

(* ------------------------------------------------------------------ the accessors of the result *)
Lemma entry_wacc_tree ws : entry_ok ws -> entry_wacc (entry_tree fixed ws) = Ok ws.
Proof.
  intros H. unfold entry_wacc. rewrite entry_relations_tree. apply res_map_id.
  intros x Hx. apply wacc_wrel_tree. unfold entry_ok in H. rewrite Forall_forall in H. apply H, Hx.
Qed.

Theorem wacc_field_tree es svs : content_ok es -> Forall is_substvar_node svs ->
  wacc (field_tree fixed es svs) = Ok es.
Proof.
  intros H Hs. unfold wacc. rewrite (relations_entries_tree fixed es svs Hs). apply res_map_id.
  intros x Hx. apply entry_wacc_tree. unfold content_ok in H. rewrite Forall_forall in H. apply H, Hx.
Qed.

(* ------------------------------------------------------------------ sorted, and sorting again changes nothing *)
Lemma by_text_anti x y : by_text y x = CompOpp (by_text x y).
Proof. unfold by_text. destruct str_cmp_ok as (Ha & _). apply Ha. Qed.

Lemma perm_sorted_alts es e : In e (sorted_content es) -> Sorted (cmp_le wrel_cmp) e.
Proof.
  intros H. unfold sorted_content in H. apply (Permutation_in _ (Permutation_sym (psort_perm wentry_cmp _))) in H.
  apply in_map_iff in H. destruct H as (e0 & <- & _). apply psort_sorted. apply wrel_cmp_ok.
Qed.

Theorem sorted_content_sorted es :
  Sorted (cmp_le wentry_cmp) (sorted_content es) /\ Forall (Sorted (cmp_le wrel_cmp)) (sorted_content es).
Proof.
  split.
  - apply psort_sorted. apply wentry_cmp_ok.
  - apply Forall_forall. intros e He. eapply perm_sorted_alts. exact He.
Qed.

Theorem sorted_content_idem es : sorted_content (sorted_content es) = sorted_content es.
Proof.
  unfold sorted_content at 1.
  assert (E : map (psort wrel_cmp) (sorted_content es) = sorted_content es).
  { rewrite <- (map_id (sorted_content es)) at 2. apply map_ext_in. intros e He.
    apply psort_id; [apply wrel_cmp_ok|]. eapply perm_sorted_alts. exact He. }
  rewrite E. apply psort_id; [apply wentry_cmp_ok|]. apply sorted_content_sorted.
Qed.

(* idempotence on TREES, for any input tree *)
Theorem relations_ws_idem t es t' : wacc t = Ok es -> content_safe es = true ->
  relations_ws fixed t = Ok t' ->
  wacc t' = Ok (sorted_content es) /\ relations_ws fixed t' = Ok t'.
Proof.
  intros Ha Hs Hw. rewrite (relations_ws_spec t es Ha Hs) in Hw. injection Hw as <-.
  pose proof (wacc_ok t es Ha) as Hok.
  assert (Hsv : Forall is_substvar_node (psort by_text (substvar_nodes t))).
  { pose proof (substvar_nodes_are t) as H. rewrite Forall_forall in *. intros e He. apply H.
    eapply Permutation_in; [apply Permutation_sym, psort_perm|exact He]. }
  assert (Ha' : wacc (field_tree fixed (sorted_content es) (psort by_text (substvar_nodes t))) = Ok (sorted_content es))
    by (apply wacc_field_tree; [apply sorted_content_ok, Hok|exact Hsv]).
  split; [exact Ha'|].
  rewrite (relations_ws_spec _ _ Ha' (sorted_content_safe es Hs)).
  rewrite sorted_content_idem, (substvar_nodes_tree fixed _ _ Hsv).
  rewrite (psort_id by_text by_text_anti); [reflexivity|]. apply psort_sorted. exact by_text_anti.
Qed.

(* ------------------------------------------------------------------ impl Ord on ANY two nodes of the safe domain *)
Theorem relation_cmp_any a b wa wb : relation_wacc a = Ok wa -> relation_wacc b = Ok wb ->
  wrel_safe wa = true -> wrel_safe wb = true -> relation_cmp a b = Ok (wrel_cmp wa wb).
Proof.
  unfold relation_wacc. intros Ha Hb Sa Sb.
  destruct (relation_name a) as [na| | |] eqn:Ena; try discriminate.
  destruct (relation_version_p a) as [va| | |] eqn:Eva; try discriminate. injection Ha as <-.
  destruct (relation_name b) as [nb| | |] eqn:Enb; try discriminate.
  destruct (relation_version_p b) as [vb| | |] eqn:Evb; try discriminate. injection Hb as <-.
  unfold relation_cmp, wrel_cmp, wrel_safe in *. cbn [w_name w_ver] in *. rewrite Ena, Enb.
  destruct (str_cmp na nb); try reflexivity. rewrite Eva, Evb.
  destruct va as [[oa xa]|], vb as [[ob xb]|]; try reflexivity.
  destruct (vop_cmp oa ob); try reflexivity. apply ver_cmp_safe; assumption.
Qed.

Theorem entry_cmp_any ea eb wa wb : entry_wacc ea = Ok wa -> entry_wacc eb = Ok wb ->
  forallb wrel_safe wa = true -> forallb wrel_safe wb = true ->
  entry_cmp fixed ea eb = Ok (wentry_cmp wa wb).
Proof.
  unfold entry_wacc, entry_cmp, wentry_cmp. cbn [v_entry_ord fixed]. intros Ha Hb.
  apply res_map_ok in Ha. apply res_map_ok in Hb. revert eb wb Hb.
  generalize dependent (entry_relations ea). intros la Ha. intros eb wb Hb. generalize dependent (entry_relations eb). intros lb Hb.
  revert lb wb Hb. induction Ha as [|x wx la wa' Hx _ IH]; intros lb wb Hb Sa Sb.
  - destruct Hb; reflexivity.
  - destruct Hb as [|y wy lb wb' Hy Hb]; [reflexivity|].
    cbn [forallb] in Sa, Sb. apply andb_true_iff in Sa. apply andb_true_iff in Sb. destruct Sa as [Sx Sa], Sb as [Sy Sb].
    cbn [entry_cmp_lex lex_cmp]. rewrite (relation_cmp_any x y wx wy Hx Hy Sx Sy).
    destruct (wrel_cmp wx wy); try reflexivity. apply IH; assumption.
Qed.

Theorem ws_any_tree : forall (t : rtree) (es : list (list wrel)),
  wacc t = Ok es -> content_safe es = true ->
  exists t', relations_ws fixed t = Ok t' /\
    t' = field_tree fixed (sorted_content es) (psort by_text (substvar_nodes t)) /\
    text t' = canon_text (map (map wrel_c) (sorted_content es)) (map text (psort by_text (substvar_nodes t))) /\
    wacc t' = Ok (sorted_content es) /\
    relations_ws fixed t' = Ok t'.
Proof.
  intros t es Ha Hs. eexists. split; [apply (relations_ws_spec t es Ha Hs)|]. split; [reflexivity|].
  split; [apply text_field_tree|]. apply (relations_ws_idem t es _ Ha Hs (relations_ws_spec t es Ha Hs)).
Qed.

Theorem order_total_preorder :
  cmp_ok wrel_cmp /\ cmp_ok wentry_cmp /\
  (forall x y z, cmp_le wentry_cmp x y -> cmp_le wentry_cmp y z -> cmp_le wentry_cmp x z) /\
  (forall x y, cmp_le wentry_cmp x y \/ cmp_le wentry_cmp y x) /\
  (forall a b wa wb, relation_wacc a = Ok wa -> relation_wacc b = Ok wb ->
     wrel_safe wa = true -> wrel_safe wb = true -> relation_cmp a b = Ok (wrel_cmp wa wb)) /\
  (forall ea eb wa wb, entry_wacc ea = Ok wa -> entry_wacc eb = Ok wb ->
     forallb wrel_safe wa = true -> forallb wrel_safe wb = true ->
     entry_cmp fixed ea eb = Ok (wentry_cmp wa wb)).
Proof.
  split; [exact wrel_cmp_ok|]. split; [exact wentry_cmp_ok|]. split; [apply (cle_trans wentry_cmp wentry_cmp_ok)|].
  split; [apply (cle_total wentry_cmp wentry_cmp_ok)|]. split; [exact relation_cmp_any|exact entry_cmp_any].
Qed.
