(* C12 x C13: dependency satisfaction is invariant under wrap-and-sort.

   Relations::wrap_and_sort (RelWrap.relations_ws, variant [fixed]) rebuilds every relation from
   its accessor values (the CONSTRAINT node becomes ONE token whose text is the whole operator),
   sorts the alternatives of every entry and then the entries.  The evaluator
   (Sat.ll_relations_satisfied_by) looks at name() / version() of every alternative and nests
   all / any.  Here:
     - the content RelWrap's accessors report (RelWrapSpec.wacc, Version values) has as typed view
       of the C12 cone (Sat.tree_field) its image under [sat_rel]: the two cones transcribe
       name() and version() separately (RelAcc.first_*_of_kind vs find), shown equal;
     - the decision table (Sat.satisfied_spec = forallb / existsb) is invariant under permutation
       of the entries and of the alternatives of an entry;
     - C13's ws_any_tree: the returned tree's accessor content is the sorted content.
   The domain is C13's safe domain (no digit run above i32::MAX in a required version) and a lookup
   that returns such versions only: outside it debversion's comparison panics and which
   alternative is reached first depends on the order. *)
From Coq Require Import Permutation.
From V.model Require Import Base RelLex RelParse RelAcc RelWrap RelWrapSpec.
From V.model Require DebVersion Sat RelGrammar.
From V.proofs Require Import BaseP DebVersionP SatP SatTextP RelWrapSortP RelWrapP RelWrapGrammarP.

(* ------------------------------------------------------------------ the typed view of C13's content *)
Definition sat_ver (v : option (vop * DebVersion.version)) : option (Sat.vop * DebVersion.version) :=
  match v with Some (o, x) => Some (sat_op o, x) | None => None end.
Definition sat_rel (w : wrel) : Sat.rel DebVersion.version := Sat.mk_rel (w_name w) (sat_ver (w_ver w)).
Definition sat_content (es : list (list wrel)) : list (list (Sat.rel DebVersion.version)) :=
  map (map sat_rel) es.

(* Relation::version(), the transcription of the C13 cone and that of the C12 cone *)
Lemma version_p_same r :
  Sat.ll_version DebVersion.version DebVersion.parse_version r = rmap sat_ver (relation_version_p r).
Proof.
  unfold Sat.ll_version, relation_version_p. rewrite first_node_find.
  destruct (find (Sat.is_node_of VERSION) (children r)) as [vn|]; [|reflexivity].
  rewrite first_node_find, version_text_string.
  destruct (find (Sat.is_node_of CONSTRAINT) (children vn)) as [cn|]; [|reflexivity].
  destruct (version_text_of (children vn)) as [|c0 w0]; [reflexivity|].
  rewrite vop_of_text_parse. destruct (Sat.parse_vop (text cn)) as [o|]; cbn [option_map]; [|reflexivity].
  destruct (DebVersion.parse_version (c0 :: w0)) as [v|]; [|reflexivity].
  unfold rmap. cbn [bind sat_ver]. rewrite sat_acc_op. reflexivity.
Qed.

Lemma wacc_tree_rel r w :
  relation_wacc r = Ok w -> Sat.tree_rel DebVersion.version DebVersion.parse_version r = Ok (sat_rel w).
Proof.
  unfold relation_wacc, Sat.tree_rel. rewrite name_same, version_p_same.
  destruct (Sat.ll_name r) as [n| | |]; try discriminate. cbn [bind].
  destruct (relation_version_p r) as [v| | |]; try discriminate.
  intros H. injection H as <-. reflexivity.
Qed.

Lemma res_map_mapM {A B C} (f : A -> res B) (g : A -> res C) (h : B -> C) :
  (forall x b, f x = Ok b -> g x = Ok (h b)) ->
  forall l bs, res_map f l = Ok bs -> DebVersion.mapM g l = Ok (map h bs).
Proof.
  intros Hfg. induction l as [|x l IH]; intros bs H; cbn [res_map] in H.
  - injection H as <-. reflexivity.
  - destruct (f x) as [b| | |] eqn:Ex; try discriminate.
    destruct (res_map f l) as [bs'| | |]; try discriminate.
    injection H as <-. cbn [DebVersion.mapM map]. rewrite (Hfg x b Ex). cbn [bind].
    rewrite (IH bs' eq_refl). reflexivity.
Qed.

(* what C13's accessors report is, read through [sat_rel], what C12's evaluator looks at *)
Theorem wacc_tree_field t es :
  wacc t = Ok es -> deb_tree_field t = Ok (sat_content es).
Proof.
  unfold wacc, deb_tree_field, Sat.tree_field, relations_entries, sat_content.
  apply res_map_mapM. intros e ws He. unfold entry_wacc, entry_relations in He. unfold Sat.tree_entry.
  revert He. apply res_map_mapM. exact wacc_tree_rel.
Qed.

Lemma content_safe_dom es : content_safe es = true -> field_dom DebVersion.version deb_ok (sat_content es).
Proof.
  unfold content_safe, field_dom, sat_content. intros H. rewrite forallb_forall in H.
  apply Forall_forall. intros e He. apply in_map_iff in He. destruct He as (ws & <- & Hws).
  specialize (H ws Hws). rewrite forallb_forall in H.
  apply Forall_forall. intros r Hr. apply in_map_iff in Hr. destruct Hr as (w & <- & Hw).
  specialize (H w Hw). unfold wrel_safe in H. unfold rel_dom, sat_rel, deb_ok. cbn [Sat.r_ver].
  destruct (w_ver w) as [[o v]|]; cbn [sat_ver]; [exact H|exact I].
Qed.

(* ------------------------------------------------------------------ all / any under permutation *)
Lemma existsb_perm {A} (p : A -> bool) a b : Permutation a b -> existsb p a = existsb p b.
Proof.
  intros H. induction H as [|x a b _ IH|x y a|a b c _ IH1 _ IH2]; cbn [existsb].
  - reflexivity.
  - rewrite IH. reflexivity.
  - destruct (p x), (p y); reflexivity.
  - rewrite IH1. exact IH2.
Qed.
Lemma forallb_perm {A} (p : A -> bool) a b : Permutation a b -> forallb p a = forallb p b.
Proof.
  intros H. induction H as [|x a b _ IH|x y a|a b c _ IH1 _ IH2]; cbn [forallb].
  - reflexivity.
  - rewrite IH. reflexivity.
  - destruct (p x), (p y); reflexivity.
  - rewrite IH1. exact IH2.
Qed.

(* the decision table over C12's own content type: the order of the entries and the order of the
   alternatives inside an entry do not matter *)
Theorem spec_perm2 {V} (cmp : V -> V -> comparison) installed (f f' : list (list (Sat.rel V))) :
  perm2 f f' -> Sat.satisfied_spec cmp installed f = Sat.satisfied_spec cmp installed f'.
Proof.
  intros (m & H1 & H2). unfold Sat.satisfied_spec.
  rewrite <- (forallb_perm (existsb (Sat.rel_ok cmp installed)) m f' H2). clear H2.
  induction H1 as [|e e' f0 m0 He _ IH]; [reflexivity|]. cbn [forallb].
  rewrite (existsb_perm _ e e' He), IH. reflexivity.
Qed.

Lemma sorted_content_perm2 es : perm2 es (sorted_content es).
Proof.
  exists (map (psort wrel_cmp) es). split.
  - induction es as [|e es IH]; [constructor|]. cbn [map]. constructor; [apply psort_perm|exact IH].
  - unfold sorted_content. apply psort_perm.
Qed.

Lemma sat_content_perm2 a b : perm2 a b -> perm2 (sat_content a) (sat_content b).
Proof.
  intros (m & H1 & H2). exists (sat_content m). split.
  - unfold sat_content. clear H2. induction H1 as [|e e' f0 m0 He _ IH]; [constructor|].
    cbn [map]. constructor; [apply Permutation_map; exact He|exact IH].
  - unfold sat_content. apply Permutation_map. exact H2.
Qed.

(* ------------------------------------------------------------------ the invariance *)
(* ANY tree (e.g. what the tolerant reader returns) whose accessors do not panic, versions
   i32-safe: the object wrap_and_sort returns is evaluated like the object it was called on, and
   both answers are the decision table of the accessor content *)
Theorem sat_wrap_tree : forall (t : rtree) (es : list (list wrel)) (g : str -> option DebVersion.version),
  wacc t = Ok es -> content_safe es = true -> closure_dom DebVersion.version deb_ok g ->
  exists t', relations_ws fixed t = Ok t' /\
    Sat.deb_ll_sat t' g = Sat.deb_ll_sat t g /\
    Sat.deb_ll_sat t g = Ok (Sat.deb_spec g (sat_content es)) /\
    Sat.deb_lossy_sat (sat_content (sorted_content es)) g = Ok (Sat.deb_spec g (sat_content es)).
Proof.
  intros t es g Ha Hs Hg.
  destruct (ws_any_tree t es Ha Hs) as (t' & E1 & _ & _ & E4 & _).
  exists t'. split; [exact E1|].
  destruct (deb_sat_spec t _ g (wacc_tree_field t es Ha) (content_safe_dom es Hs) Hg) as [S1 _].
  destruct (deb_sat_spec t' _ g (wacc_tree_field t' _ E4)
              (content_safe_dom _ (sorted_content_safe es Hs)) Hg) as [S2 S3].
  assert (Ep : Sat.deb_spec g (sat_content (sorted_content es)) = Sat.deb_spec g (sat_content es)).
  { symmetry. apply spec_perm2, sat_content_perm2, sorted_content_perm2. }
  rewrite Ep in S2, S3. rewrite S1, S2. split; [reflexivity|]. split; [reflexivity|exact S3].
Qed.

(* the well-formed fields of C13's quantifier *)
Theorem sat_wrap_field : forall (allow : bool) (f : RelGrammar.rfield) (g : str -> option DebVersion.version),
  RelGrammar.wf_rfield allow f = true -> field_safe f = true -> closure_dom DebVersion.version deb_ok g ->
  exists t', relations_ws fixed (RelGrammar.rtree_of f) = Ok t' /\
    Sat.deb_ll_sat t' g = Sat.deb_ll_sat (RelGrammar.rtree_of f) g /\
    Sat.deb_ll_sat (RelGrammar.rtree_of f) g = Ok (Sat.deb_spec g (sat_content (field_wcontent f))).
Proof.
  intros allow f g Hwf Hs Hg.
  destruct (sat_wrap_tree (RelGrammar.rtree_of f) (field_wcontent f) g (wacc_rtree_of allow f Hwf) Hs Hg)
    as (t' & E1 & E2 & E3 & _).
  exists t'. repeat split; assumption.
Qed.

(* ... and through the text: what wrap_and_sort prints, read again (the path of
   Control::wrap_and_sort, which stores the printed value), is evaluated like the field itself *)
Theorem sat_wrap_reread : forall (allow : bool) (f : RelGrammar.rfield) (g : str -> option DebVersion.version),
  RelGrammar.wf_rfield allow f = true -> field_safe f = true -> closure_dom DebVersion.version deb_ok g ->
  exists t' tp, relations_ws fixed (RelGrammar.rtree_of f) = Ok t' /\
    parse_relaxed (text t') allow = Ok (tp, 0) /\
    Sat.deb_ll_sat tp g = Sat.deb_ll_sat (RelGrammar.rtree_of f) g.
Proof.
  intros allow f g Hwf Hs Hg.
  destruct (ws_meaning allow f Hwf Hs) as (t' & E1 & Hwc & _ & Ep & _).
  exists t', (RelGrammar.rtree_of (canon_field f)). split; [exact E1|]. split; [exact Ep|].
  destruct (deb_sat_spec _ _ g (wacc_tree_field _ _ (wacc_rtree_of allow (canon_field f) Hwc))
              (content_safe_dom _ (field_safe_canon allow f Hwf Hs)) Hg) as [S1 _].
  destruct (deb_sat_spec _ _ g (wacc_tree_field _ _ (wacc_rtree_of allow f Hwf)) (content_safe_dom _ Hs) Hg) as [S2 _].
  rewrite S1, S2. f_equal. rewrite (field_wcontent_canon allow f Hwf).
  symmetry. apply spec_perm2, sat_content_perm2, sorted_content_perm2.
Qed.
