(* C11 from ANY text the reader accepts without error (C10's image of the reader), operands built by
   Relation::new / RelationBuilder: one operation, histories, the re-read — and C11_full.
     machine (RelEdit.run_ops, variant fixed)      --bop_step_tree (RelEditBuildP)-->  tree function bt_op
     bt_op on the tree of a liberal live layout    --a_op_btree (RelLiveAllP)------->  abstract operation a_op (RelLiveAll)
     a_op on a well-formed live layout: defined, well-formed, list model astep on contents (RelLiveAllWfP, RelLiveAllStepP)
     live_of g: the layout of the liberal layout g, same tree; norm l: the liberal layout with the text of l;
     the content of a live layout is what RelEdit.structure reads from its tree (RelLiveAllNormP) *)
From V.model Require Import Base RelLex RelParse RelAcc RelGrammar RelGrammarAll.
From V.model Require Import RelEdit RelEditSpec RelEditTree RelLiveAll.
From V.proofs Require Import BaseP RelEditP RelEditStP RelEditHistP RelEditTreeP RelEditReplaceP RelEditBuildP RelGrammarAllAccP.
From V.proofs Require Import RelLiveAllP RelLiveAllStepP RelLiveAllWfP RelLiveAllNormP RelSepsP RelLiveAllSepsP RelEditVersionP.

(* an alternative of a live layout begins with its name *)
Lemma relation_child_lrel e x : In x (lentry_children e) -> is_relation x = true -> exists r, x = lrel_tree r.
Proof.
  unfold lentry_children. intros [<-|Hin] Hx; [eauto|]. apply in_app_or in Hin as [Hin|Hin].
  - apply in_flat_map in Hin as ([[w1 w2] r] & _ & Hin). unfold alt_part in Hin. cbn [fst snd] in Hin.
    apply in_app_or in Hin as [Hin|[<-|Hin]].
    + apply in_map_iff in Hin as (w & <- & _). now rewrite is_relation_wtree in Hx.
    + discriminate.
    + apply in_app_or in Hin as [Hin|[<-|[]]]; [|eauto].
      apply in_map_iff in Hin as (w & <- & _). now rewrite is_relation_wtree in Hx.
  - apply in_map_iff in Hin as (w & <- & _). now rewrite is_relation_wtree in Hx.
Qed.
Lemma ereplace_ready_ltree o l : ereplace_ready o (ltree l).
Proof.
  destruct o; cbn [ereplace_ready]; auto. intros ci cj O Hp HG.
  destruct (rel_pos_inv _ _ _ _ _ Hp) as (E & P1 & P2 & P3 & _).
  rewrite entry_pos_ltree in P1. destruct (nth_index_re_split _ _ _ P1) as (pre & e & post & -> & <- & _).
  rewrite child_at_ltree in P2. injection P2 as <-. cbn [relem_tree lentry_tree children] in P3.
  destruct (nth_index_split _ _ _ _ P3) as (rp & x & rq & Ecs & <- & Px).
  assert (HO : O = x).
  { cbn [get_path] in HG. fold (child_at (ltree (pre ++ RE e :: post)) (length pre)) in HG. rewrite child_at_ltree in HG.
    cbn [relem_tree lentry_tree children] in HG. rewrite Ecs, nth_error_app_len in HG. congruence. }
  subst O. destruct (relation_child_lrel e x) as (r0 & ->); [rewrite Ecs; apply in_elt|exact Px|]. reflexivity.
Qed.

(* ------------------------------------------------------------------ (1) one operation *)
Theorem live_step_tree b o l : lwf b l = true -> operands_ok o = true -> x_in_range (fst (lcontent l)) o = true ->
  exists l', a_op o l = Some l' /\
             bt_op o (ltree l) = Ok (ltree l') /\
             lwf b l' = true /\
             lcontent l' = (xstep (fst (lcontent l)) o, snd (lcontent l)) /\
             lentries l' = estep (lentries l) o.
Proof.
  intros H Ho Hr. destruct (a_op_lwf b o l H Ho Hr) as (l' & Ha & Hw). exists l'.
  split; [exact Ha|]. split; [now apply a_op_btree|]. split; [exact Hw|].
  split; [now apply content_step|]. now apply entries_step.
Qed.
Theorem live_step b o l st : lwf b l = true -> operands_ok o = true ->
  x_in_range (fst (lcontent l)) o = true -> holds st (ltree l) ->
  exists l' st', a_op o l = Some l' /\
                 run_ops fixed (compile o) st = Ok st' /\ holds st' (ltree l') /\
                 lwf b l' = true /\
                 lcontent l' = (xstep (fst (lcontent l)) o, snd (lcontent l)) /\
                 lentries l' = estep (lentries l) o.
Proof.
  intros H Ho Hr Hst. destruct (live_step_tree b o l H Ho Hr) as (l' & Ha & Ht & Hw & Hc & He).
  destruct (bop_step_tree o (ltree l) (ltree l') st eq_refl (ereplace_ready_ltree o l) Hst Ht) as (st' & R & Hst').
  exists l', st'. auto 10.
Qed.

(* (3) the re-read of a well-formed live layout, through C10's image theorem: its text is read
   without error, and RelEdit.structure of the tree read is the content of the layout *)
Theorem live_reread b l : lwf b l = true ->
  exists t'', parse_relaxed (text (ltree l)) b = Ok (t'', 0) /\ text t'' = text (ltree l) /\
              structure t'' = Ok (fst (lcontent l)) /\ substvar_texts t'' = snd (lcontent l).
Proof.
  intros H. pose proof (awf_norm b l H) as Hw. destruct (liberal_sound b (norm l) Hw) as (P & T & _).
  rewrite (arender_norm b l H) in P, T. exists (atree_of (norm l)). split; [exact P|]. split; [exact T|].
  rewrite <- (ltree_live_of b (norm l) (ashape_norm b l H)).
  pose proof (lwf_live_of b (norm l) Hw (opsok_norm b l H)) as Hl.
  rewrite (structure_ltree b _ Hl), substvars_ltree, lcontent_live_of, (acont_norm b l H). auto.
Qed.
Theorem structure_live b l : lwf b l = true ->
  structure (ltree l) = Ok (fst (lcontent l)) /\ substvar_texts (ltree l) = snd (lcontent l).
Proof. intros H. split; [now apply (structure_ltree b)|apply substvars_ltree]. Qed.

(* ------------------------------------------------------------------ (2) histories *)
Theorem live_history b ops : forall l st, lwf b l = true -> forallb operands_ok ops = true ->
  hist_in_range (fst (lcontent l)) ops = true -> holds st (ltree l) ->
  exists l' st', a_ops ops l = Some l' /\
                 run_ops fixed (compile_all ops) st = Ok st' /\ holds st' (ltree l') /\
                 lwf b l' = true /\
                 lcontent l' = (fold_left astep ops (fst (lcontent l)), snd (lcontent l)).
Proof.
  induction ops as [|o rest IH]; intros l st H Ho Hr Hst.
  - exists l, st. cbn. repeat split; auto; now destruct (lcontent l).
  - cbn [forallb hist_in_range] in *. andb_hyps.
    destruct (live_step b o l st) as (l1 & st1 & Ha & R1 & Hst1 & Hw1 & Hc1 & _); auto.
    destruct (IH l1 st1) as (l' & st' & Ha' & R' & Hst' & Hw' & Hc'); auto.
    { rewrite Hc1. cbn [fst]. assumption. }
    exists l', st'. cbn [a_ops compile_all flat_map fold_left]. rewrite Ha.
    split; [exact Ha'|]. split; [eapply run_ops_app; [exact R1|exact R']|]. split; [exact Hst'|]. split; [exact Hw'|].
    rewrite Hc', Hc1. reflexivity.
Qed.

(* one operation, with the separators *)
Theorem live_step_seps b o l st : lwf b l = true -> operands_ok o = true ->
  x_in_range (fst (lcontent l)) o = true -> holds st (ltree l) ->
  exists l' st', a_op o l = Some l' /\
                 run_ops fixed (compile o) st = Ok st' /\ holds st' (ltree l') /\
                 lwf b l' = true /\
                 lcontent l' = (xstep (fst (lcontent l)) o, snd (lcontent l)) /\
                 lentries l' = estep (lentries l) o /\
                 field_shape (ltree l') = true /\
                 tree_slots (ltree l') = sstep (fst (lcontent l)) (tree_slots (ltree l)) o.
Proof.
  intros H Ho Hr Hst. destruct (live_step b o l st H Ho Hr Hst) as (l' & st' & Ha & R & Hst' & Hw & Hc & He).
  exists l', st'. repeat (split; [assumption|]). split; [now apply (shape_ltree b)|now apply (a_op_slots b)].
Qed.
(* the same, and what the history did to the separators: RelEditSpec.slots_after *)
Lemma slots_after_cons o rest f s : slots_after (o :: rest) f s = slots_after rest (astep f o) (sstep f s o).
Proof. reflexivity. Qed.
Theorem live_history_seps b ops : forall l st, lwf b l = true -> forallb operands_ok ops = true ->
  hist_in_range (fst (lcontent l)) ops = true -> holds st (ltree l) ->
  exists l' st', a_ops ops l = Some l' /\
                 run_ops fixed (compile_all ops) st = Ok st' /\ holds st' (ltree l') /\
                 lwf b l' = true /\
                 lcontent l' = (fold_left astep ops (fst (lcontent l)), snd (lcontent l)) /\
                 field_shape (ltree l') = true /\
                 tree_slots (ltree l') = slots_after ops (fst (lcontent l)) (tree_slots (ltree l)).
Proof.
  induction ops as [|o rest IH]; intros l st H Ho Hr Hst.
  - exists l, st. cbn [a_ops compile_all flat_map run_ops fold_left]. split; [reflexivity|]. split; [reflexivity|]. split; [exact Hst|]. split; [exact H|].
    split; [now destruct (lcontent l)|]. split; [now apply (shape_ltree b)|reflexivity].
  - cbn [forallb hist_in_range] in *. andb_hyps.
    destruct (live_step b o l st) as (l1 & st1 & Ha & R1 & Hst1 & Hw1 & Hc1 & _); auto.
    pose proof (a_op_slots b o l l1 H Ha) as Hs1.
    destruct (IH l1 st1) as (l' & st' & Ha' & R' & Hst' & Hw' & Hc' & Hsh' & Hs'); auto.
    { rewrite Hc1. cbn [fst]. assumption. }
    exists l', st'. cbn [a_ops compile_all flat_map fold_left]. rewrite Ha.
    split; [exact Ha'|]. split; [eapply run_ops_app; [exact R1|exact R']|]. split; [exact Hst'|]. split; [exact Hw'|].
    split; [rewrite Hc', Hc1; reflexivity|]. split; [exact Hsh'|].
    rewrite Hs', Hs1, Hc1, slots_after_cons. reflexivity.
Qed.

(* ------------------------------------------------------------------ the start: any text read without error *)
(* the entries of the layout of a liberal layout, item by item *)
Lemma lentries_rws ts : lentries (rws ts) = [].
Proof. unfold rws. induction (wsl_of ts) as [|a l IHl]; [reflexivity|]. exact IHl. Qed.
Lemma rels_lentry_of r alts last : exists fl fls, length fls = length alts /\
  rels (lentry_of r alts last) = lrel_of r fl :: map (fun x => lrel_of (snd (fst x)) (snd x)) (combine alts fls).
Proof.
  unfold lentry_of, rels.
  assert (H : forall alts r, exists fls, length fls = length alts /\
            map snd (fst (lalts_of r alts last)) = map (fun x => lrel_of (snd (fst x)) (snd x)) (combine alts fls)).
  { clear. induction alts as [|[w r'] alts' IH]; intros r; [exists []; split; reflexivity|]. cbn [lalts_of].
    destruct (IH r') as (fls & L & E). destruct (lalts_of r' alts' last) as [rest trail]. cbn [fst snd map] in *.
    exists ((match alts' with [] => last | _ => false end) :: fls). split; [cbn; now rewrite L|]. cbn [combine map fst snd]. now rewrite E. }
  destruct (H alts r) as (fls & L & E). destruct (lalts_of r alts last) as [la trail]. cbn [e_first e_alts fst] in *.
  exists (match alts with [] => last | _ => false end), fls. split; [exact L|]. now rewrite E.
Qed.
Lemma forall_rels_of (P : lrel -> bool) (Q : arel -> bool) r alts last :
  (forall r0 fl, P (lrel_of r0 fl) = Q r0) ->
  forallb P (rels (lentry_of r alts last)) = Q r && forallb (fun wr => Q (snd wr)) alts.
Proof.
  intros H. destruct (rels_lentry_of r alts last) as (fl & fls & L & ->). cbn [forallb]. rewrite H. f_equal.
  clear -H L. revert fls L. induction alts as [|[w r'] alts' IH]; intros [|f fls] L; try discriminate; [reflexivity|].
  cbn [combine map forallb fst snd]. rewrite H. f_equal. apply IH. cbn in L. lia.
Qed.
Lemma forall_entries_live (P : lentry -> bool) (Q : aitem -> bool) g :
  (forall r alts last, P (lentry_of r alts last) = Q (AEntry r alts)) -> (forall body tr, Q (ASubst body tr) = true) -> Q AEmpty = true ->
  forallb P (lentries (live_of g)) = forallb Q (af_items g).
Proof.
  intros HE HS H0. unfold live_of, af_items. rewrite lentries_app, lentries_rws. cbn [app].
  assert (Hi : forall i last, forallb P (lentries (litem_of i last)) = Q i).
  { intros [r alts|body trail|] last; cbn [litem_of].
    - change (lentries (RE (lentry_of r alts last) :: rws (arels_left r alts last))) with (lentry_of r alts last :: lentries (rws (arels_left r alts last))).
      rewrite lentries_rws. cbn [forallb]. now rewrite HE, andb_true_r.
    - change (lentries (RS body :: rws trail)) with (lentries (rws trail)). rewrite lentries_rws. now rewrite HS.
    - now rewrite H0. }
  generalize (af_first g). induction (af_rest g) as [|[w i'] more IH]; intros i; cbn [litems_of map snd forallb].
  - rewrite app_nil_r, Hi. now rewrite andb_true_r.
  - rewrite lentries_app, forallb_app, Hi. f_equal.
    change (lentries (RC :: rws w ++ litems_of i' more)) with (lentries (rws w ++ litems_of i' more)).
    rewrite lentries_app, lentries_rws. cbn [app]. apply IH.
Qed.
Lemma lops_live_of g : lops (live_of g) = afield_opsok g.
Proof.
  unfold lops, afield_opsok. apply forall_entries_live; try reflexivity.
  intros r alts last. cbn [aitem_opsok]. apply forall_rels_of. intros r0 fl. unfold rel_ops, lrel_of, arel_opsok. cbn [l_ver].
  destruct (a_ver r0); reflexivity.
Qed.
Definition arel_accok (r : arel) : bool :=
  match a_qual r with Some q => wsk (aq_ws1 q) | None => true end &&
  match a_ver r with
  | Some v => wsk (av_ws1 v) && wsk (av_ws2 v) && wsk (av_ws3 v) && nonempty (rttext_of (map vpiece_tok (av_ver v)))
  | None => true
  end.
Definition aitem_accok (i : aitem) : bool :=
  match i with AEntry r alts => arel_accok r && forallb (fun wr => arel_accok (snd wr)) alts | _ => true end.
Lemma lacc_live_of g : lacc_ok (live_of g) = forallb aitem_accok (af_items g).
Proof.
  unfold lacc_ok. apply forall_entries_live; try reflexivity.
  intros r alts last. cbn [aitem_accok]. apply forall_rels_of. intros r0 fl. unfold rel_acc_ok, lrel_of, arel_accok. cbn [l_qual l_ver].
  destruct (a_qual r0), (a_ver r0); reflexivity.
Qed.
Lemma arel_accok_of r : arel_ok r = true -> arel_lexok r = true -> arel_accok r = true.
Proof.
  unfold arel_ok, arel_lexok, arel_accok. intros H Hl. andb_hyps. andb_goal.
  - destruct (a_qual r) as [q|]; [|reflexivity]. cbn [opt_ok] in *.
    match goal with X : aqual_ok q = true |- _ => unfold aqual_ok in X end. now andb_hyps.
  - destruct (a_ver r) as [v|]; [|reflexivity]. cbn [opt_ok] in *.
    match goal with X : aver_ok v = true |- _ => unfold aver_ok in X end. andb_hyps. andb_goal; auto.
    now apply ver_text_nonempty.
Qed.
Lemma awf_accok b g : awf b g = true -> forallb aitem_accok (af_items g) = true.
Proof.
  unfold awf. intros H. apply andb_prop in H as [Hsh Hlx]. pose proof (afield_lex g Hlx) as Hl.
  unfold ashape in Hsh. unfold afield_lexok in Hl.
  apply andb_prop in Hsh as [Hsh Hs3]. apply andb_prop in Hsh as [_ Hs2].
  apply andb_prop in Hl as [Hl Hl3]. apply andb_prop in Hl as [_ Hl2].
  assert (Hi : forall i, aitem_ok b i = true -> aitem_lexok i = true -> aitem_accok i = true).
  { intros [r alts|body tr|] Hs Hx; try reflexivity. cbn [aitem_ok aitem_lexok aitem_accok] in *.
    apply andb_prop in Hs as [Hs1 Hsa]. apply andb_prop in Hx as [Hx1 Hxa].
    andb_goal; [now apply arel_accok_of|]. rewrite forallb_forall in Hsa, Hxa. rewrite forallb_forall. intros [w r'] Hin. cbn [snd].
    specialize (Hsa _ Hin). specialize (Hxa _ Hin). unfold aalt_ok in Hsa. unfold aalt_lexok in Hxa. cbn [fst snd] in *.
    apply andb_prop in Hsa as [_ Hsa]. apply andb_prop in Hxa as [_ Hxa]. now apply arel_accok_of. }
  unfold af_items. cbn [forallb]. andb_goal; [now apply Hi|].
  rewrite forallb_forall in Hs3, Hl3. rewrite forallb_forall. intros i Hin. apply in_map_iff in Hin as ([w i'] & <- & Hin'). cbn [snd].
  specialize (Hs3 _ Hin'). specialize (Hl3 _ Hin'). unfold amore_ok in Hs3. cbn [fst snd] in *.
  apply andb_prop in Hs3 as [_ Hs3]. apply andb_prop in Hl3 as [_ Hl3]. now apply Hi.
Qed.

(* a text read without error whose accessors do not panic is the tree of a well-formed live layout *)
Theorem start_layout b s t0 f0 : parse_relaxed s b = Ok (t0, 0) -> structure t0 = Ok f0 ->
  exists l0, ltree l0 = t0 /\ lwf b l0 = true /\ fst (lcontent l0) = f0.
Proof.
  intros Hp Hs. destruct (reader_image s b t0 Hp) as (g & Hw & _ & Ht & _). exists (live_of g).
  assert (Hsh : ashape b g = true) by (unfold awf in Hw; now andb_hyps).
  pose proof (ltree_live_of b g Hsh) as Hl. rewrite Ht in Hl. split; [exact Hl|].
  assert (Ha : lacc_ok (live_of g) = true) by (rewrite lacc_live_of; now apply (awf_accok b)).
  pose proof (structure_ltree_gen _ Ha) as Hg. rewrite Hl, Hs in Hg.
  destruct (lops (live_of g)) eqn:Eo; [|discriminate]. rewrite lops_live_of in Eo.
  pose proof (lwf_live_of b g Hw Eo) as Hlw. split; [exact Hlw|]. congruence.
Qed.

(* ------------------------------------------------------------------ C11, in full *)
Theorem C11_full_raw_fixed : C11_full_raw fixed.
Proof.
  intros s t0 f0 ops Hp Hs Hr Ho.
  destruct (start_layout true s t0 f0 Hp Hs) as (l0 & <- & Hw & <-).
  destruct (live_history_seps true ops l0 (start_state (ltree l0)) Hw Ho Hr (holds_start _)) as (l' & st' & Ha & R & Hst' & Hw' & Hc' & Hsh' & Hsl').
  exists st'. split; [exact R|]. destruct (holds_root_tree _ _ Hst') as [RT _]. exists (ltree l'). split; [exact RT|].
  destruct (structure_live true l' Hw') as [S1 S2]. destruct (structure_live true l0 Hw) as [_ S0].
  rewrite Hc' in S1, S2. cbn [fst snd] in S1, S2. split; [exact S1|]. split; [now rewrite S2, S0|].
  split; [exact Hsh'|]. split; [exact Hsl'|].
  destruct (live_reread true l' Hw') as (t'' & P & _ & S'' & _). exists t''. split; [exact P|]. rewrite S'', Hc'. reflexivity.
Qed.
(* with the version texts through debversion: the accessors as the callers see them *)
Theorem C11_full_fixed : C11_full fixed.
Proof.
  intros s t0 f0 ops Hp Hs Hr Ho.
  destruct (structure_d_inv t0 f0 Hs) as (fr & Hsr & Hd). apply field_display_ok in Hd.
  destruct (display_history ops fr f0 Hd Ho) as [Hd' Hr'].
  rewrite Hr in Hr'. symmetry in Hr'.
  destruct (C11_full_raw_fixed s t0 fr ops Hp Hsr Hr' Ho) as (st' & R & t' & RT & S1 & S2 & Hsh & Hsl & t'' & P & S3).
  exists st'. split; [exact R|]. exists t'. split; [exact RT|].
  apply field_display_ok in Hd'.
  split; [now rewrite (structure_d_of t' _ S1)|]. split; [exact S2|]. split; [exact Hsh|].
  split.
  - rewrite Hsl. unfold slots_after. clear -Hd Ho.
    assert (G : forall ops1 f f' s0, fshows f f' -> forallb wf_operands ops1 = true ->
              snd (fold_left fs_step ops1 (f, s0)) = snd (fold_left fs_step ops1 (f', s0))).
    { induction ops1 as [|o rest IH]; intros f f' s0 Hf Hoo; [reflexivity|]. cbn [forallb] in Hoo. apply andb_prop in Hoo as [Ho1 Ho2].
      cbn [fold_left]. unfold fs_step at 2 4. cbn [fst snd]. destruct (display_step f f' o Hf Ho1) as [Hf' _].
      replace (sstep f' s0 o) with (sstep f s0 o); [now apply IH|].
      destruct o; cbn [sstep]; try reflexivity.
      pose proof (Forall2_nth_error _ _ _ Hf i) as Hn. destruct (nth_error f i) as [e|], (nth_error f' i) as [e'|]; try contradiction; [|reflexivity].
      pose proof (Forall2_len _ _ _ Hn) as Hl. destruct e as [|x [|y e]], e' as [|x' [|y' e']]; cbn [length] in Hl; try lia; reflexivity. }
    now apply G.
  - exists t''. split; [exact P|]. now rewrite (structure_d_of t'' _ S3).
Qed.
