(* C04H: the store machine of Deb822Store.v refines the handle-level reading of the pure model
   (Deb822Handles.v): one instruction, then histories. *)
From V.model Require Import Base Deb822Lex Deb822Parse Grammar Lossy Deb822Edit LiveDoc Deb822Store Deb822Handles.
From V.proofs Require Import BaseP Deb822EditP LiveDocP LiveParaP.
From V.proofs Require Import Deb822StoreP Deb822StoreOpsP Deb822StoreParaP Deb822StoreDocP.

(* ------------------------------------------------------------------ two splits of one list *)
Lemma split_compare {A} (a : list A) : forall c x y b d, a ++ x :: b = c ++ y :: d ->
  (exists m, c = a ++ x :: m /\ b = m ++ y :: d) \/
  (a = c /\ x = y /\ b = d) \/
  (exists m, a = c ++ y :: m /\ d = m ++ x :: b).
Proof.
  induction a as [|a0 a IH]; intros c x y b d H.
  - destruct c as [|c0 c]; cbn [app] in H.
    + injection H as -> ->. right. left. auto.
    + injection H as -> ->. left. exists c. auto.
  - destruct c as [|c0 c]; cbn [app] in H.
    + injection H as <- <-. right. right. exists a. auto.
    + injection H as <- H. destruct (IH _ _ _ _ _ H) as [(m & -> & ->)|[(-> & -> & ->)|(m & -> & ->)]].
      * left. exists m. auto.
      * right. left. auto.
      * right. right. exists m. auto.
Qed.

(* ------------------------------------------------------------------ a paragraph at a slot *)
Definition live_at (rs : list tree) (n c : nat) : Prop :=
  exists pre P post, rs = pre ++ P :: post /\ is_paragraph P = true /\ pidx pre = n /\ length pre = c.

Lemma live_at_slot rs n c : live_at rs n c -> para_slot n rs 0 = Some c.
Proof. intros (pre & P & post & -> & HP & <- & <-). now rewrite (para_slot_at pre P post HP 0). Qed.
Lemma slot_live_at rs n c : para_slot n rs 0 = Some c -> live_at rs n c.
Proof. intros H. destruct (para_slot_split _ _ _ _ H) as (pre & P & post & -> & -> & HP & <-). now exists pre, P, post. Qed.
Lemma live_at_lt rs n c : live_at rs n c -> n < pidx rs /\ c < length rs.
Proof.
  intros (pre & P & post & -> & HP & <- & <-). rewrite pidx_app, (pidx_cons_para _ _ HP), app_length. cbn [length]. lia.
Qed.

Lemma live_at_order rs n c n' c' : live_at rs n c -> live_at rs n' c' ->
  (c < c' /\ n < n') \/ (c = c' /\ n = n') \/ (c' < c /\ n' < n).
Proof.
  intros (pre & P & post & -> & HP & <- & <-) (pre' & P' & post' & E & HP' & <- & <-).
  destruct (split_compare _ _ _ _ _ _ E) as [(m & -> & ->)|[(-> & -> & ->)|(m & -> & ->)]].
  - left. rewrite pidx_app, (pidx_cons_para _ _ HP), app_length. cbn [length]. lia.
  - right. left. auto.
  - right. right. rewrite pidx_app, (pidx_cons_para _ _ HP'), app_length. cbn [length]. lia.
Qed.

Lemma live_at_replace pre P post P' n c : is_paragraph P = true -> is_paragraph P' = true ->
  live_at (pre ++ P :: post) n c -> live_at (pre ++ P' :: post) n c.
Proof.
  intros HP HP' (pre1 & P1 & post1 & E & HP1 & <- & <-).
  destruct (split_compare _ _ _ _ _ _ E) as [(m & -> & ->)|[(-> & -> & ->)|(m & -> & ->)]].
  - exists (pre ++ P' :: m), P1, post1. rewrite <- !app_assoc. cbn [app]. repeat split; auto.
    + now rewrite !pidx_app, (pidx_cons_para _ _ HP), (pidx_cons_para _ _ HP').
    + rewrite !app_length. reflexivity.
  - exists pre1, P', post1. auto.
  - exists pre1, P1, (m ++ P' :: post). rewrite <- !app_assoc. cbn [app]. auto.
Qed.

Lemma paragraph_not_blank x : is_paragraph x = true -> kind_eqb (ekind x) EMPTY_LINE = false.
Proof.
  unfold is_paragraph, is_kind. destruct x as [k s|k cs]; [discriminate|]. cbn [is_node andb ekind].
  destruct k; cbn; intros H; try discriminate; reflexivity.
Qed.
Lemma blank_not_paragraph x : kind_eqb (ekind x) EMPTY_LINE = true -> is_paragraph x = false.
Proof. intros H. destruct (is_paragraph x) eqn:E; [|reflexivity]. apply paragraph_not_blank in E. congruence. Qed.

(* removing the paragraph at slot [length pre] (and the blank line after it) *)
Lemma live_at_remove pre P post n c : is_paragraph P = true ->
  live_at (pre ++ P :: post) n c -> n <> pidx pre ->
  let b := if blank_follows post then 1 else 0 in
  (c < length pre \/ length pre + b < c) /\
  live_at (pre ++ after_removed post) (if pidx pre <? n then n - 1 else n) (if c <? length pre then c else c - 1 - b).
Proof.
  intros HP (pre1 & P1 & post1 & E & HP1 & <- & <-) Hn b.
  destruct (split_compare _ _ _ _ _ _ E) as [(m & -> & ->)|[(-> & -> & ->)|(m & -> & ->)]].
  - (* behind the removed one *)
    rewrite pidx_app, (pidx_cons_para _ _ HP), app_length. cbn [length].
    assert (pidx pre <? pidx pre + S (pidx m) = true) as -> by (apply Nat.ltb_lt; lia).
    assert (length pre + S (length m) <? length pre = false) as -> by (apply Nat.ltb_ge; lia).
    unfold b, after_removed, blank_follows. destruct m as [|x m'].
    + cbn [app]. rewrite (paragraph_not_blank _ HP1). split; [right; cbn; lia|].
      exists pre, P1, post1. repeat split; auto; cbn [pidx filter length]; lia.
    + cbn [app]. destruct (kind_eqb (ekind x) EMPTY_LINE) eqn:Ex.
      * cbn [tl]. split; [right; cbn [length]; lia|]. exists (pre ++ m'), P1, post1. rewrite <- app_assoc. repeat split; auto.
        -- rewrite pidx_app, (pidx_cons_other _ _ (blank_not_paragraph _ Ex)). lia.
        -- rewrite app_length. cbn [length]. lia.
      * split; [right; cbn [length]; lia|]. exists (pre ++ x :: m'), P1, post1. rewrite <- app_assoc. repeat split; auto.
        -- rewrite pidx_app. lia.
        -- rewrite app_length. cbn [length]. lia.
  - congruence.
  - (* in front of it *)
    rewrite pidx_app, (pidx_cons_para _ _ HP1), app_length. cbn [length].
    assert (pidx pre1 + S (pidx m) <? pidx pre1 = false) as -> by (apply Nat.ltb_ge; lia).
    assert (length pre1 <? length pre1 + S (length m) = true) as -> by (apply Nat.ltb_lt; lia).
    split; [left; lia|]. exists pre1, P1, (m ++ after_removed post). rewrite <- app_assoc. auto.
Qed.

(* inserting blocks with exactly one paragraph among them *)
Lemma insert_at_firstn_skipn {A} (new : list A) : forall idx l, idx <= length l ->
  insert_at idx new l = firstn idx l ++ new ++ skipn idx l.
Proof.
  induction idx as [|idx IH]; intros l H; [reflexivity|]. destruct l as [|x r]; [cbn in H; lia|].
  cbn [insert_at firstn skipn app]. f_equal. apply IH. cbn in H. lia.
Qed.
Lemma pidx_firstn_skipn k l : pidx (firstn k l) + pidx (skipn k l) = pidx l.
Proof. rewrite <- pidx_app. now rewrite firstn_skipn. Qed.

Lemma live_at_insert rs idx A Pn B n c : idx <= length rs -> is_paragraph Pn = true -> pidx A = 0 -> pidx B = 0 ->
  let rs' := insert_at idx (A ++ Pn :: B) rs in
  let p := pidx (firstn idx rs) in
  live_at rs' p (idx + length A) /\
  (live_at rs n c ->
   live_at rs' (if p <=? n then S n else n) (if idx <=? c then c + length (A ++ Pn :: B) else c)).
Proof.
  intros Hidx HP HA HB rs' p. unfold rs'. rewrite (insert_at_firstn_skipn _ _ _ Hidx). split.
  - exists (firstn idx rs ++ A), Pn, (B ++ skipn idx rs). rewrite <- !app_assoc. cbn [app]. repeat split; auto.
    + rewrite pidx_app. unfold p. lia.
    + rewrite app_length, firstn_length. lia.
  - intros (pre1 & P1 & post1 & -> & HP1 & <- & <-).
    destruct (idx <=? length pre1) eqn:Ec.
    + apply Nat.leb_le in Ec. unfold p.
      rewrite firstn_app. replace (idx - length pre1) with 0 by lia. cbn [firstn]. rewrite app_nil_r.
      assert (pidx (firstn idx pre1) <=? pidx pre1 = true) as ->.
      { apply Nat.leb_le. pose proof (pidx_firstn_skipn idx pre1). lia. }
      rewrite skipn_app. replace (idx - length pre1) with 0 by lia. cbn [skipn].
      exists (firstn idx pre1 ++ (A ++ Pn :: B) ++ skipn idx pre1), P1, post1. rewrite <- !app_assoc. cbn [app]. repeat split; auto.
      * rewrite !pidx_app, (pidx_cons_para _ _ HP), pidx_app. pose proof (pidx_firstn_skipn idx pre1). lia.
      * rewrite !app_length. cbn [length]. rewrite app_length, firstn_length, skipn_length. lia.
    + apply Nat.leb_gt in Ec. unfold p.
      rewrite firstn_app. rewrite (firstn_all2 pre1) by lia.
      replace (idx - length pre1) with (S (idx - S (length pre1))) by lia. cbn [firstn].
      rewrite pidx_app, (pidx_cons_para _ _ HP1).
      assert (pidx pre1 + S (pidx (firstn (idx - S (length pre1)) post1)) <=? pidx pre1 = false) as -> by (apply Nat.leb_gt; lia).
      exists pre1, P1, (firstn (idx - S (length pre1)) post1 ++ (A ++ Pn :: B) ++ skipn idx (pre1 ++ P1 :: post1)).
      rewrite <- !app_assoc. cbn [app]. auto.
Qed.

(* ------------------------------------------------------------------ the refinement relation *)
Definition reg_rel (tid : nat) (dt : list nat) (rs : list tree) (m : option hnd) (h : option href) : Prop :=
  match m, h with
  | None, None => True
  | Some g, Some (Live n) => exists c, g = mk_hnd tid [c] /\ live_at rs n c
  | Some g, Some (Dead j) => exists t, nth_error dt j = Some t /\ g = mk_hnd t []
  | _, _ => False
  end.

(* the machine state [st] represents the abstract state [a]: register 0 holds the root of the
   tree of the document; the detached paragraphs are the trees dt (all different from each other
   and from the document's); every paragraph register holds the handle its abstract value says *)
Definition R (st : state) (a : astate) : Prop :=
  exists tid ri dt rs mregs,
    regs st = Some (mk_hnd tid []) :: mregs /\
    a_doc a = Node ROOT rs /\ forallb is_node rs = true /\
    nth_error (trees st) tid = Some (mk_slot ri (Node ROOT rs)) /\
    length dt = length (a_dead a) /\ NoDup (tid :: dt) /\
    (forall j t, nth_error dt j = Some t ->
       exists rj D, nth_error (trees st) t = Some (mk_slot rj D) /\ nth_error (a_dead a) j = Some D /\ is_node D = true) /\
    Forall2 (reg_rel tid dt rs) mregs (a_regs a).

(* ------------------------------------------------------------------ lists of registers *)
Lemma Forall2_set {A B} (P : option A -> option B -> Prop) : P None None -> forall dst m h l1 l2,
  Forall2 P l1 l2 -> P m h ->
  Forall2 P ((fix set (r : nat) (o : option A) (l : list (option A)) : list (option A) :=
                match r, l with
                | O, [] => [o] | O, _ :: t => o :: t
                | S r', [] => None :: set r' o [] | S r', x :: t => x :: set r' o t
                end) dst m l1) (set_opt dst h l2).
Proof.
  intros HN. induction dst as [|dst IH]; intros m h l1 l2 HF Hm.
  - inversion HF; subst; cbn; constructor; auto.
  - inversion HF; subst; cbn [set_opt]; constructor; auto; apply IH; auto; constructor.
Qed.
Lemma set_reg_l_is_set dst m l :
  set_reg_l dst m l = (fix set (r : nat) (o : option hnd) (l : list (option hnd)) : list (option hnd) :=
                match r, l with
                | O, [] => [o] | O, _ :: t => o :: t
                | S r', [] => None :: set r' o [] | S r', x :: t => x :: set r' o t
                end) dst m l.
Proof. reflexivity. Qed.
Lemma Forall2_set_reg tid dt rs dst m h l1 l2 :
  Forall2 (reg_rel tid dt rs) l1 l2 -> reg_rel tid dt rs m h ->
  Forall2 (reg_rel tid dt rs) (set_reg_l dst m l1) (set_opt dst h l2).
Proof. intros HF Hm. rewrite set_reg_l_is_set. apply (Forall2_set (reg_rel tid dt rs) I); assumption. Qed.
Lemma Forall2_map2 {A B C D} (P : A -> B -> Prop) (Q : C -> D -> Prop) f g l1 l2 :
  Forall2 P l1 l2 -> (forall x y, P x y -> Q (f x) (g y)) -> Forall2 Q (map f l1) (map g l2).
Proof. intros HF H. induction HF; cbn [map]; constructor; auto. Qed.
Lemma Forall2_impl {A B} (P Q : A -> B -> Prop) l1 l2 :
  Forall2 P l1 l2 -> (forall x y, P x y -> Q x y) -> Forall2 Q l1 l2.
Proof. intros HF H. induction HF; constructor; auto. Qed.
Lemma Forall2_nth {A B} (P : A -> B -> Prop) l1 l2 k : Forall2 P l1 l2 ->
  match nth_error l2 k with
  | Some y => exists x, nth_error l1 k = Some x /\ P x y
  | None => nth_error l1 k = None
  end.
Proof.
  intros HF. revert k. induction HF; intros k; [destruct k; reflexivity|]. destruct k as [|k]; cbn [nth_error]; [eauto|apply IHHF].
Qed.
Lemma map_set_reg_l F dst m l :
  map (option_map F) (set_reg_l dst m l) = set_reg_l dst (option_map F m) (map (option_map F) l).
Proof.
  revert l; induction dst as [|dst IH]; intros [|x l]; cbn [set_reg_l map option_map]; try reflexivity.
  - f_equal. exact (IH []).
  - f_equal. apply IH.
Qed.
Lemma map_fixed (F : hnd -> hnd) (l : list (option hnd)) :
  (forall g, In (Some g) l -> F g = g) -> map (option_map F) l = l.
Proof.
  induction l as [|[g|] r IH]; intros H; cbn [map option_map]; [reflexivity| |].
  - rewrite (H g) by now left. f_equal. apply IH. intros g' Hin. apply H. now right.
  - f_equal. apply IH. intros g' Hin. apply H. now right.
Qed.
Lemma Forall2_In_l {A B} (P : A -> B -> Prop) l1 l2 x : Forall2 P l1 l2 -> In x l1 -> exists y, In y l2 /\ P x y.
Proof. intros HF. induction HF; intros []; [subst; eexists; split; [now left|eassumption]|]. destruct (IHHF H0) as (y' & ? & ?). exists y'. split; [now right|assumption]. Qed.

Lemma Forall2_In_r {A B} (P : A -> B -> Prop) l1 l2 y : Forall2 P l1 l2 -> In y l2 -> exists x, In x l1 /\ P x y.
Proof. intros HF. induction HF; intros []; [subst; eexists; split; [now left|eassumption]|]. destruct (IHHF H0) as (x' & ? & ?). exists x'. split; [now right|assumption]. Qed.
Lemma npara_pidx rs : npara (Node ROOT rs) = pidx rs.
Proof. reflexivity. Qed.
Lemma paragraphs_nth pre P post : is_paragraph P = true -> nth_error (paragraphs (Node ROOT (pre ++ P :: post))) (pidx pre) = Some P.
Proof.
  intros HP. unfold paragraphs, node_children_of_kind. cbn [children]. rewrite filter_app. cbn [filter].
  change (is_node P && is_kind PARAGRAPH P) with (is_paragraph P). rewrite HP. unfold pidx.
  change (fun e : tree => is_node e && is_kind PARAGRAPH e) with is_paragraph. apply nth_error_app_len.
Qed.

(* what the registers of a state in relation R hold *)
Lemma reg_shape tid dt rs mregs aregs g : NoDup (tid :: dt) ->
  Forall2 (reg_rel tid dt rs) mregs aregs -> In (Some g) mregs ->
  (exists c, g = mk_hnd tid [c]) \/ (exists t, In t dt /\ t <> tid /\ g = mk_hnd t []).
Proof.
  intros Hnd HF Hin. destruct (Forall2_In_l _ _ _ _ HF Hin) as ([[n|j]|] & _ & Hr); cbn [reg_rel] in Hr.
  - destruct Hr as (c & -> & _). left. eauto.
  - destruct Hr as (t & Ht & ->). right. exists t. apply nth_error_In in Ht. repeat split; auto.
    inversion Hnd; subst. intros ->. contradiction.
  - contradiction.
Qed.

(* ------------------------------------------------------------------ an edit through a paragraph register *)
Definition para_spec {A} (m : nat -> M A) (f : list tree -> list tree) : Prop :=
  forall ts rs r tid ri T p kd cs,
    nth_error rs r = Some (Some (mk_hnd tid p)) -> nth_error ts tid = Some (mk_slot ri T) ->
    get_path T p = Some (Node kd cs) ->
    exists x ts' F, runs (m r) (mk_state ts rs) x (mk_state ts' (map (option_map F) rs)) /\
                    nth_error ts' tid = Some (mk_slot ri (upd_path T p (fun _ => Node kd (f cs)))) /\
                    para_frame ts ts' F tid p.

Lemma reg_rel_dt_mono tid dt rs x m h : reg_rel tid dt rs m h -> reg_rel tid (dt ++ [x]) rs m h.
Proof.
  destruct m as [g|], h as [[n|j]|]; cbn [reg_rel]; auto. intros (t & Ht & ->). exists t. split; [|reflexivity].
  now apply nth_error_app_l.
Qed.

Lemma para_op_refines {A} (m : nat -> M A) f (mkop : nat -> fop) st a k g :
  para_spec m f -> (forall t n, tstep t (mkop n) = on_para t n f) ->
  R st a -> nth_error (regs st) (preg k) = Some (Some g) ->
  exists x st', m (preg k) st = Ok (x, st') /\ R st' (on_reg a k mkop f).
Proof.
  intros Hspec Hstep (tid & ri & dt & rs & mregs & Hregs & Hdoc & Hnodes & HT & Ldt & Hnd & Hdead & HF) Hk.
  destruct st as [ts regs0]. cbn [regs trees] in *. subst regs0. cbn [preg nth_error] in Hk.
  pose proof (nth_error_Some_lt _ _ _ HT) as Hlt.
  pose proof (Forall2_nth _ _ _ k HF) as Hnth. unfold on_reg.
  destruct (nth_error (a_regs a) k) as [[[n|j]|]|] eqn:Ea.
  - (* a live handle: the n-th paragraph of the document *)
    destruct Hnth as (x0 & Hx0 & Hr). rewrite Hk in Hx0. injection Hx0 as <-. cbn [reg_rel] in Hr.
    destruct Hr as (c & -> & pre & P & post & -> & HP & <- & <-).
    rewrite (is_paragraph_node P HP) in *. set (cs := children P) in *.
    assert (HP' : is_paragraph (Node PARAGRAPH cs) = true) by reflexivity.
    assert (HG : get_path (Node ROOT (pre ++ Node PARAGRAPH cs :: post)) [length pre] = Some (Node PARAGRAPH cs))
      by (cbn [get_path children]; now rewrite nth_error_app_len).
    destruct (Hspec ts (Some (mk_hnd tid []) :: mregs) (preg k) tid ri _ [length pre] PARAGRAPH cs Hk HT HG)
      as (x & ts' & F & Rn & T' & L' & O' & A').
    assert (Hfix : map (option_map F) (Some (mk_hnd tid []) :: mregs) = Some (mk_hnd tid []) :: mregs).
    { apply map_fixed. intros g [E|Hin].
      - injection E as <-. apply A'; [exact Hlt|]. right. intros j0 rest. cbn. discriminate.
      - destruct (reg_shape _ _ _ _ _ _ Hnd HF Hin) as [(c & ->)|(t & Ht & Hne & ->)].
        + apply A'; [exact Hlt|]. destruct (Nat.eq_dec c (length pre)) as [->|Hc]; [apply outside_self|apply outside_sibling; congruence].
        + apply A'; [|apply outside_other; exact Hne]. cbn [h_tid]. apply In_nth_error in Ht as (j & Hj).
          destruct (Hdead j t Hj) as (rj & D & HD & _). now apply nth_error_Some_lt in HD. }
    rewrite Hfix in Rn. exists x, (mk_state ts' (Some (mk_hnd tid []) :: mregs)). split; [exact Rn|].
    cbn [upd_path] in T'. rewrite upd_nth_app_r in T'. cbn [upd_path] in T'.
    exists tid, ri, dt, (pre ++ Node PARAGRAPH (f cs) :: post), mregs. cbn [regs trees a_doc a_dead a_regs].
    split; [reflexivity|]. split.
    { cbn [tstep2]. rewrite Hstep, Hdoc. unfold on_para. cbn [children]. now rewrite (map_nth_para_at f pre (Node PARAGRAPH cs) post HP'). }
    split.
    { rewrite forallb_app in *. cbn [forallb] in *. apply andb_prop in Hnodes as [H1 H2]. apply andb_prop in H2 as [_ H2]. now rewrite H1, H2. }
    split; [exact T'|]. split; [exact Ldt|]. split; [exact Hnd|]. split.
    { intros j t Hj. destruct (Hdead j t Hj) as (rj & D & HD & Hd & Hn). exists rj, D. split; [|auto].
      rewrite O'; [exact HD| |now apply nth_error_Some_lt in HD].
      inversion Hnd; subst. intros ->. apply nth_error_In in Hj. contradiction. }
    eapply Forall2_impl; [exact HF|]. intros m0 h0. destruct m0 as [g0|], h0 as [[n0|j0]|]; cbn [reg_rel]; auto.
    intros (c & -> & Hl). exists c. split; [reflexivity|]. eapply live_at_replace; [exact HP'|reflexivity|exact Hl].
  - (* a handle of a detached paragraph *)
    destruct Hnth as (x0 & Hx0 & Hr). rewrite Hk in Hx0. injection Hx0 as <-. cbn [reg_rel] in Hr.
    destruct Hr as (t & Ht & ->). destruct (Hdead j t Ht) as (rj & D & HD & Hd & Hn).
    destruct D as [kD sD|kD csD]; [discriminate|].
    assert (Hne : t <> tid) by (inversion Hnd; subst; intros ->; apply nth_error_In in Ht; contradiction).
    destruct (Hspec ts (Some (mk_hnd tid []) :: mregs) (preg k) t rj _ [] kD csD Hk HD eq_refl)
      as (x & ts' & F & Rn & T' & L' & O' & A').
    assert (Hfix : map (option_map F) (Some (mk_hnd tid []) :: mregs) = Some (mk_hnd tid []) :: mregs).
    { apply map_fixed. intros g [E|Hin].
      - injection E as <-. apply A'; [exact Hlt|]. apply outside_other. cbn. congruence.
      - destruct (reg_shape _ _ _ _ _ _ Hnd HF Hin) as [(c & ->)|(t' & Ht' & Hne' & ->)].
        + apply A'; [exact Hlt|]. apply outside_other. cbn. congruence.
        + apply A'; [|apply outside_root]. cbn [h_tid]. apply In_nth_error in Ht' as (j' & Hj').
          destruct (Hdead j' t' Hj') as (rj' & D' & HD' & _). now apply nth_error_Some_lt in HD'. }
    rewrite Hfix in Rn. exists x, (mk_state ts' (Some (mk_hnd tid []) :: mregs)). split; [exact Rn|].
    cbn [upd_path] in T'.
    exists tid, ri, dt, rs, mregs. cbn [regs trees a_doc a_dead a_regs].
    split; [reflexivity|]. split; [exact Hdoc|]. split; [exact Hnodes|].
    split; [rewrite O' by (auto; lia); exact HT|]. split; [now rewrite upd_nth_length|]. split; [exact Hnd|]. split; [|exact HF].
    intros j' t' Hj'. destruct (Nat.eq_dec j' j) as [->|Hjj].
    + rewrite Ht in Hj'. injection Hj' as <-. exists rj, (pmap f (Node kD csD)). split; [exact T'|]. split; [|reflexivity].
      now apply nth_error_upd_nth_eq.
    + destruct (Hdead j' t' Hj') as (rj' & D' & HD' & Hd' & Hn'). exists rj', D'. split; [|split; [|exact Hn']].
      * rewrite O'; [exact HD'| |now apply nth_error_Some_lt in HD'].
        intros ->. apply Hjj. inversion Hnd as [|? ? _ Hnd']; subst. eapply (proj1 (NoDup_nth_error dt) Hnd'); [now apply nth_error_Some_lt in Hj'|congruence].
      * rewrite nth_error_upd_nth_neq by congruence. exact Hd'.
  - destruct Hnth as (x0 & Hx0 & Hr). rewrite Hk in Hx0. injection Hx0 as <-. contradiction.
  - rewrite Hk in Hnth. discriminate.
Qed.

Lemma NoDup_snoc {A} (l : list A) x : NoDup l -> ~ In x l -> NoDup (l ++ [x]).
Proof.
  induction l as [|y r IH]; intros Hnd Hx; cbn [app]; [apply NoDup_cons; [intros []|constructor]|].
  inversion Hnd; subst. constructor.
  - intros Hin. apply in_app_or in Hin as [Hin|[E|[]]]; [contradiction|subst; apply Hx; now left].
  - apply IH; [assumption|]. intros Hin. apply Hx. now right.
Qed.
Lemma dead_fresh st a dt (Hdead : forall j t, nth_error dt j = Some t ->
       exists rj D, nth_error (trees st) t = Some (mk_slot rj D) /\ nth_error (a_dead a) j = Some D /\ is_node D = true) :
  ~ In (length (trees st)) dt.
Proof.
  intros Hin. apply In_nth_error in Hin as (j & Hj). destruct (Hdead j _ Hj) as (rj & D & HD & _).
  apply nth_error_Some_lt in HD. lia.
Qed.

(* ------------------------------------------------------------------ obtaining handles *)
Lemma hpara_refines st a dst i : R st a ->
  exists x st', run_hop (HPara dst i) st = Ok (x, st') /\ R st' (hstep (HPara dst i) a).
Proof.
  intros (tid & ri & dt & rs & mregs & Hregs & Hdoc & Hnodes & HT & Ldt & Hnd & Hdead & HF).
  destruct st as [ts regs0]. cbn [regs trees] in *. subst regs0.
  pose proof (nth_paragraph_spec ts (Some (mk_hnd tid []) :: mregs) tid ri ROOT rs i eq_refl HT) as Rn.
  eexists. eexists. split.
  - cbn [run_hop]. unfold mbind at 1. rewrite Rn. unfold mbind. cbn [set_reg regs trees]. reflexivity.
  - exists tid, ri, dt, rs, (set_reg_l dst (match para_slot i rs 0 with Some s => Some (mk_hnd tid ([] ++ [s])) | None => None end) mregs).
    cbn [regs trees hstep a_doc a_dead a_regs preg set_reg_l]. repeat split; auto.
    apply Forall2_set_reg; [exact HF|]. rewrite Hdoc, npara_pidx.
    destruct (i <? pidx rs) eqn:Ei.
    + apply Nat.ltb_lt in Ei. destruct (para_slot_some rs i 0 Ei) as (s & Es). rewrite Es. cbn [reg_rel app].
      exists s. split; [reflexivity|now apply slot_live_at].
    + apply Nat.ltb_ge in Ei. rewrite (para_slot_none rs i 0 Ei). exact I.
Qed.

Lemma hnewpara_refines st a dst l : R st a ->
  exists x st', run_hop (HNewPara dst l) st = Ok (x, st') /\ R st' (hstep (HNewPara dst l) a).
Proof.
  intros (tid & ri & dt & rs & mregs & Hregs & Hdoc & Hnodes & HT & Ldt & Hnd & Hdead & HF).
  destruct st as [ts regs0]. cbn [regs trees] in *. subst regs0.
  pose proof (nth_error_Some_lt _ _ _ HT) as Hlt.
  eexists. eexists. split; [cbn [run_hop]; reflexivity|].
  exists tid, ri, (dt ++ [length ts]), rs, (set_reg_l dst (Some (mk_hnd (length ts) [])) mregs).
  cbn [regs trees hstep a_doc a_dead a_regs preg set_reg_l]. split; [reflexivity|]. split; [exact Hdoc|]. split; [exact Hnodes|].
  split; [now apply nth_error_app_l|]. split; [rewrite !app_length; cbn; lia|]. split.
  { inversion Hnd as [|? ? Hni Hnd']; subst. constructor.
    - intros Hin. apply in_app_or in Hin as [Hin|[E|[]]]; [contradiction|lia].
    - apply NoDup_snoc; [exact Hnd'|]. exact (dead_fresh (mk_state ts (Some (mk_hnd tid []) :: mregs)) a dt Hdead). }
  split.
  { intros j t Hj. destruct (Nat.lt_ge_cases j (length dt)) as [Hl|Hl].
    - rewrite nth_error_app1 in Hj by exact Hl. destruct (Hdead j t Hj) as (rj & D & HD & Hd & Hn).
      exists rj, D. split; [now apply nth_error_app_l|]. split; [now apply nth_error_app_l|exact Hn].
    - rewrite nth_error_app2 in Hj by exact Hl. destruct (j - length dt) as [|q] eqn:Eq; [|destruct q; discriminate].
      injection Hj as <-. assert (j = length dt) by lia. subst j. exists 0, (paragraph_of_pairs l).
      split; [apply nth_error_app_at|]. split; [rewrite Ldt; apply nth_error_app_at|reflexivity]. }
  apply Forall2_set_reg.
  - eapply Forall2_impl; [exact HF|]. intros m0 h0. apply reg_rel_dt_mono.
  - cbn [reg_rel]. exists (length ts). split; [rewrite <- Ldt; apply nth_error_app_at|reflexivity].
Qed.

(* ------------------------------------------------------------------ remove_paragraph *)
Lemma forallb_after_removed (p : tree -> bool) post : forallb p post = true -> forallb p (after_removed post) = true.
Proof. unfold after_removed. destruct (blank_follows post); [|auto]. destruct post; cbn; [auto|]. intros H. now apply andb_prop in H as [_ H]. Qed.

Lemma hremovep_refines st a i : R st a ->
  exists x st', run_hop (HRemoveP i) st = Ok (x, st') /\ R st' (hstep (HRemoveP i) a).
Proof.
  intros (tid & ri & dt & rs & mregs & Hregs & Hdoc & Hnodes & HT & Ldt & Hnd & Hdead & HF).
  destruct st as [ts regs0]. cbn [regs trees] in *. subst regs0.
  pose proof (nth_error_Some_lt _ _ _ HT) as Hlt.
  cbn [hstep]. rewrite Hdoc.
  destruct (Nat.lt_ge_cases i (pidx rs)) as [Hi|Hi].
  - destruct (para_slot_some rs i 0 Hi) as (s & Es). destruct (para_slot_split _ _ _ _ Es) as (pre & P & post & -> & _ & HP & <-).
    rewrite (paragraphs_nth pre P post HP).
    destruct (remove_paragraph_spec ts (Some (mk_hnd tid []) :: mregs) tid ri pre P post eq_refl HT HP)
      as (ts' & F & Rn & L' & T' & N' & O' & Fo & Fr & Fb & Fa & Fc).
    eexists. eexists. split.
    { cbn [run_hop]. unfold mbind. rewrite Rn. reflexivity. }
    cbn [map option_map]. rewrite Fr.
    exists tid, ri, (dt ++ [length ts]), (pre ++ after_removed post), (map (option_map F) mregs).
    cbn [regs trees a_doc a_dead a_regs]. split; [reflexivity|]. split.
    { cbn [tstep2]. apply remove_paragraph_at. exact HP. }
    split.
    { rewrite forallb_app in *. apply andb_prop in Hnodes as [H1 H2]. cbn [forallb] in H2. apply andb_prop in H2 as [_ H2].
      rewrite H1. cbn [andb]. now apply forallb_after_removed. }
    split; [exact T'|]. split; [rewrite !app_length; cbn; lia|]. split.
    { inversion Hnd as [|? ? Hni Hnd']; subst. constructor.
      - intros Hin. apply in_app_or in Hin as [Hin|[E|[]]]; [contradiction|lia].
      - apply NoDup_snoc; [exact Hnd'|]. exact (dead_fresh (mk_state ts (Some (mk_hnd tid []) :: mregs)) a dt Hdead). }
    split.
    { intros j t Hj. destruct (Nat.lt_ge_cases j (length dt)) as [Hl|Hl].
      - rewrite nth_error_app1 in Hj by exact Hl. destruct (Hdead j t Hj) as (rj & D & HD & Hd & Hn).
        exists rj, D. split; [|split; [now apply nth_error_app_l|exact Hn]].
        rewrite O'; [exact HD| |now apply nth_error_Some_lt in HD].
        inversion Hnd; subst. intros ->. apply nth_error_In in Hj. contradiction.
      - rewrite nth_error_app2 in Hj by exact Hl. destruct (j - length dt) as [|q] eqn:Eq; [|destruct q; discriminate].
        injection Hj as <-. assert (j = length dt) by lia. subst j. exists (length pre), P.
        split; [exact N'|]. split; [rewrite Ldt; apply nth_error_app_at|]. destruct P; [discriminate|reflexivity]. }
    eapply Forall2_map2; [exact HF|]. intros m0 h0 Hr. destruct m0 as [g0|], h0 as [[n0|j0]|]; cbn [reg_rel option_map shift_remove] in *; auto.
    + destruct Hr as (c & -> & Hl).
      assert (Hrem : live_at (pre ++ P :: post) (pidx pre) (length pre)) by (exists pre, P, post; auto).
      destruct (Nat.eqb_spec n0 (pidx pre)) as [->|Hne].
      * destruct (live_at_order _ _ _ _ _ Hl Hrem) as [(H1 & H2)|[(-> & _)|(H1 & H2)]]; try lia.
        rewrite Fa. cbn [reg_rel]. exists (length ts). split; [rewrite <- Ldt; apply nth_error_app_at|reflexivity].
      * destruct (live_at_remove pre P post n0 c HP Hl Hne) as [Hc Hl']. cbv zeta in Hc, Hl'. cbn [reg_rel].
        eexists. split; [|exact Hl']. destruct (c <? length pre) eqn:Ec.
        -- apply Nat.ltb_lt in Ec. now apply Fb.
        -- apply Nat.ltb_ge in Ec. apply Fc. lia.
    + destruct Hr as (t & Ht & ->). exists t. split; [now apply nth_error_app_l|].
      destruct (Hdead j0 t Ht) as (rj & D & HD & _). apply Fo; [now apply nth_error_Some_lt in HD|].
      cbn. inversion Hnd; subst. intros ->. apply nth_error_In in Ht. contradiction.
  - assert (En : nth_error (paragraphs (Node ROOT rs)) i = None) by (apply nth_error_None; exact Hi).
    rewrite En. destruct (remove_paragraph_none_spec ts (Some (mk_hnd tid []) :: mregs) tid ri rs i eq_refl HT Hi) as [Rn _].
    eexists. eexists. split.
    { cbn [run_hop]. unfold mbind. rewrite Rn. reflexivity. }
    exists tid, ri, dt, rs, mregs. repeat split; auto.
Qed.

(* ------------------------------------------------------------------ add_paragraph / insert_paragraph *)
Lemma count_nodes_all l : forallb is_node l = true -> count_nodes l = length l.
Proof.
  unfold count_nodes. induction l as [|x r IH]; [reflexivity|]. cbn [forallb filter]. intros H. apply andb_prop in H as [H1 H2].
  rewrite H1. cbn [length]. now rewrite IH.
Qed.
(* ensure_trailing_newline on a root whose children are nodes changes the last child only, and
   not its kind *)
Lemma ensure_nl_list_nodes rs : forallb is_node rs = true ->
  forallb is_node (ensure_nl_list rs) = true /\ length (ensure_nl_list rs) = length rs /\
  pidx (ensure_nl_list rs) = pidx rs /\
  (forall n c, live_at rs n c -> live_at (ensure_nl_list rs) n c).
Proof.
  intros H. destruct rs as [|x0 r0] using rev_ind; [repeat split; auto|]. clear IHr0.
  assert (E : ensure_nl_list (r0 ++ [x0]) = children (ensure_nl (Node ROOT (r0 ++ [x0])))) by reflexivity.
  rewrite ensure_nl_snoc in E. cbn [children] in E. rewrite E.
  rewrite forallb_app in H. apply andb_prop in H as [H1 H2]. cbn [forallb] in H2. apply andb_prop in H2 as [H2 _].
  destruct x0 as [k s|k cs]; [discriminate|]. set (x' := ensure_nl (Node k cs)).
  assert (Ex : x' = Node k (children x')) by reflexivity.
  assert (Hp : is_paragraph x' = is_paragraph (Node k cs)) by (rewrite Ex; reflexivity).
  split; [rewrite forallb_app, H1, Ex; reflexivity|]. split; [rewrite !app_length; reflexivity|].
  split; [rewrite !pidx_app; f_equal; unfold pidx; cbn [filter]; rewrite Hp; destruct (is_paragraph (Node k cs)); reflexivity|].
  intros n c (pre & P & post & E1 & HP & <- & <-).
  destruct post as [|y post'] using rev_ind.
  - apply app_inj_tail in E1 as [E1 E2]. subst r0 P. exists pre, x', []. repeat split; auto.
  - clear IHpost'. rewrite app_comm_cons, app_assoc in E1. apply app_inj_tail in E1 as [E1 E2]. subst r0 y.
    exists pre, P, (post' ++ [x']). rewrite <- app_assoc. cbn [app]. auto.
Qed.
Lemma forallb_insert_at (p : tree -> bool) idx new l : idx <= length l -> forallb p new = true -> forallb p l = true ->
  forallb p (insert_at idx new l) = true.
Proof.
  intros Hi Hn Hl. rewrite (insert_at_firstn_skipn _ _ _ Hi). rewrite !forallb_app, Hn.
  rewrite <- (firstn_skipn idx l), forallb_app in Hl. apply andb_prop in Hl as [-> ->]. reflexivity.
Qed.
Lemma shift_insert_fixed p (l : list (option href)) :
  (forall n, In (Some (Live n)) l -> n < p) -> map (option_map (shift_insert p)) l = l.
Proof.
  induction l as [|[[n|j]|] r IH]; intros H; cbn [map option_map shift_insert]; [reflexivity| | |].
  - assert (n < p) by (apply H; now left). assert (p <=? n = false) as -> by (apply Nat.leb_gt; lia).
    f_equal. apply IH. intros n' Hin. apply H. now right.
  - f_equal. apply IH. intros n' Hin. apply H. now right.
  - f_equal. apply IH. intros n' Hin. apply H. now right.
Qed.

Lemma insert_refines st a index dst tid ri dt rs mregs :
  regs st = Some (mk_hnd tid []) :: mregs ->
  a_doc a = Node ROOT rs -> forallb is_node rs = true ->
  nth_error (trees st) tid = Some (mk_slot ri (Node ROOT rs)) ->
  length dt = length (a_dead a) -> NoDup (tid :: dt) ->
  (forall j t, nth_error dt j = Some t ->
     exists rj D, nth_error (trees st) t = Some (mk_slot rj D) /\ nth_error (a_dead a) j = Some D /\ is_node D = true) ->
  Forall2 (reg_rel tid dt rs) mregs (a_regs a) ->
  match index with Some i => i <= length rs | None => True end ->
  let p := match index with Some i => pidx (firstn i rs) | None => pidx rs end in
  exists st', insert_empty_paragraph_m 0 index (preg dst) st = Ok (tt, st') /\
              R st' (mk_astate (Node ROOT (insert_empty_paragraph rs index)) (a_dead a)
                               (set_opt dst (Some (Live p)) (map (option_map (shift_insert p)) (a_regs a)))).
Proof.
  intros Hregs Hdoc Hnodes HT Ldt Hnd Hdead HF Hi p.
  destruct st as [ts regs0]. cbn [regs trees] in *. subst regs0.
  pose proof (nth_error_Some_lt _ _ _ HT) as Hlt.
  destruct (insert_empty_paragraph_spec ts (Some (mk_hnd tid []) :: mregs) tid ri rs index (preg dst) eq_refl ltac:(discriminate) HT Hi)
    as (ts' & F & Rn & L' & T' & O' & Fp & Fo & Fr & Fc).
  set (cs1 := match index with None => ensure_nl_list rs | Some _ => rs end) in *.
  set (has := 0 <? count_nodes cs1) in *.
  set (idx := match index with Some i => i | None => count_nodes cs1 end) in *.
  destruct (ensure_nl_list_nodes rs Hnodes) as (N1 & N2 & N3 & N4).
  assert (Hn1 : forallb is_node cs1 = true) by (unfold cs1; destruct index; assumption).
  assert (Hl1 : length cs1 = length rs) by (unfold cs1; destruct index; auto).
  assert (Hlive1 : forall n c, live_at rs n c -> live_at cs1 n c) by (unfold cs1; destruct index; auto).
  assert (Hidx : idx <= length cs1) by (unfold idx; destruct index; [lia|apply count_nodes_le]).
  assert (Hp : p = pidx (firstn idx cs1)).
  { unfold p, idx, cs1. destruct index; [reflexivity|]. rewrite (count_nodes_all _ N1), firstn_all. now rewrite N3. }
  (* the blocks that are inserted *)
  set (A := match index with Some _ => [] | None => if has then [blank_line_node] else [] end).
  set (B := match index with Some _ => if has then [blank_line_node] else [] | None => [] end).
  assert (Enew : new_blocks index has = A ++ Node PARAGRAPH [] :: B).
  { unfold new_blocks, A, B. destruct index; [reflexivity|]. destruct has; reflexivity. }
  assert (Eoff : new_para_offset index has = length A) by (unfold new_para_offset, A; destruct index; [reflexivity|destruct has; reflexivity]).
  assert (HA : pidx A = 0) by (unfold A; destruct index; [reflexivity|destruct has; reflexivity]).
  assert (HB : pidx B = 0) by (unfold B; destruct index; [destruct has; reflexivity|reflexivity]).
  destruct (live_at_insert cs1 idx A (Node PARAGRAPH []) B 0 0 Hidx eq_refl HA HB) as [Hnewp _].
  rewrite <- Enew, <- Hp in Hnewp.
  assert (Ers : insert_empty_paragraph rs index = insert_at idx (new_blocks index has) cs1) by apply insert_empty_paragraph_eq.
  eexists. split; [exact Rn|].
  rewrite map_set_reg_l. cbn [preg set_reg_l map option_map]. rewrite Fr, Fp, Eoff.
  exists tid, ri, dt, (insert_empty_paragraph rs index), (set_reg_l dst (Some (mk_hnd tid [idx + length A])) (map (option_map F) mregs)).
  cbn [regs trees a_doc a_dead a_regs]. split; [reflexivity|]. split; [reflexivity|]. split.
  { rewrite Ers. apply forallb_insert_at; [exact Hidx| |exact Hn1]. rewrite Enew, forallb_app. unfold A, B.
    destruct index, has; reflexivity. }
  split; [exact T'|]. split; [exact Ldt|]. split; [exact Hnd|]. split.
  { intros j t Hj. destruct (Hdead j t Hj) as (rj & D & HD & Hd & Hn). exists rj, D. split; [|auto].
    rewrite O'; [exact HD| |now apply nth_error_Some_lt in HD].
    inversion Hnd; subst. intros ->. apply nth_error_In in Hj. contradiction. }
  apply Forall2_set_reg.
  - eapply Forall2_map2; [exact HF|]. intros m0 h0 Hr. destruct m0 as [g0|], h0 as [[n0|j0]|]; cbn [reg_rel option_map shift_insert] in *; auto.
    + destruct Hr as (c & -> & Hl). destruct (live_at_lt _ _ _ Hl) as [_ Hc].
      rewrite (Fc c Hc). eexists. split; [reflexivity|].
      destruct (live_at_insert cs1 idx A (Node PARAGRAPH []) B n0 c Hidx eq_refl HA HB) as [_ Hb].
      rewrite <- Enew, <- Hp, <- Ers in Hb. apply Hb, Hlive1, Hl.
    + destruct Hr as (t & Ht & ->). exists t. split; [exact Ht|].
      destruct (Hdead j0 t Ht) as (rj & D & HD & _). apply Fo; [now apply nth_error_Some_lt in HD|].
      cbn. inversion Hnd; subst. intros ->. apply nth_error_In in Ht. contradiction.
  - cbn [reg_rel]. eexists. split; [reflexivity|]. rewrite Ers. exact Hnewp.
Qed.

Lemma hadd_refines st a dst : R st a ->
  exists x st', run_hop (HAdd dst) st = Ok (x, st') /\ R st' (hstep (HAdd dst) a).
Proof.
  intros (tid & ri & dt & rs & mregs & Hregs & Hdoc & Hnodes & HT & Ldt & Hnd & Hdead & HF).
  destruct (insert_refines st a None dst tid ri dt rs mregs Hregs Hdoc Hnodes HT Ldt Hnd Hdead HF I) as (st' & Rn & HR).
  eexists. exists st'. split.
  { cbn [run_hop]. unfold add_paragraph_m, mbind. rewrite Rn. reflexivity. }
  cbn [hstep tstep2]. rewrite Hdoc, npara_pidx. unfold add_paragraph. cbn [children].
  rewrite shift_insert_fixed in HR; [exact HR|].
  intros n Hin. destruct (Forall2_In_r _ _ _ _ HF Hin) as ([g|] & _ & Hr); cbn [reg_rel] in Hr; [|contradiction].
  destruct Hr as (c & _ & Hl). now apply live_at_lt in Hl.
Qed.

Lemma hinsertp_refines st a dst i : R st a ->
  exists x st', run_hop (HInsertP dst i) st = Ok (x, st') /\ R st' (hstep (HInsertP dst i) a).
Proof.
  intros (tid & ri & dt & rs & mregs & Hregs & Hdoc & Hnodes & HT & Ldt & Hnd & Hdead & HF).
  assert (Hci : match convert_index rs i with Some j => j <= length rs | None => True end /\
                match convert_index rs i with Some j => pidx (firstn j rs) | None => pidx rs end = Nat.min i (pidx rs)).
  { unfold convert_index. destruct i as [|i']; [split; [lia|reflexivity]|].
    destruct (Nat.lt_ge_cases (S i') (pidx rs)) as [Hl|Hl].
    - destruct (para_slot_some rs (S i') 0 Hl) as (s & Es). rewrite Es.
      destruct (para_slot_split _ _ _ _ Es) as (pre & P & post & -> & -> & HP & E). cbn [Nat.add].
      split; [rewrite app_length; cbn; lia|]. rewrite firstn_app_len, E. lia.
    - rewrite (para_slot_none rs (S i') 0 Hl). split; [exact I|lia]. }
  destruct Hci as [Hc1 Hc2].
  destruct (insert_refines st a (convert_index rs i) dst tid ri dt rs mregs Hregs Hdoc Hnodes HT Ldt Hnd Hdead HF Hc1) as (st' & Rn & HR).
  destruct st as [ts regs0]. cbn [regs trees] in *. subst regs0.
  eexists. exists st'. split.
  { cbn [run_hop]. unfold insert_paragraph_m. unfold mbind at 1. unfold mbind at 1.
    rewrite (runs_get_reg ts (Some (mk_hnd tid []) :: mregs) 0 (mk_hnd tid []) eq_refl).
    unfold mbind at 1. rewrite (runs_children_of ts (Some (mk_hnd tid []) :: mregs) tid [] _ _ HT eq_refl).
    cbn [s_tree children]. rewrite Rn. reflexivity. }
  cbn [hstep tstep2]. rewrite Hdoc, npara_pidx. unfold insert_paragraph. cbn [children]. rewrite Hc2 in HR. exact HR.
Qed.

(* ------------------------------------------------------------------ one instruction *)
Lemma with_para_none st k (m : M N) : nth_error (regs st) (preg k) = None \/ nth_error (regs st) (preg k) = Some None ->
  with_para k m st = Ok (1%N, st).
Proof. intros H. unfold with_para, mbind, reg_opt. destruct H as [-> | ->]; reflexivity. Qed.
Lemma with_para_some st k (m : M N) g : nth_error (regs st) (preg k) = Some (Some g) -> with_para k m st = m st.
Proof. intros H. unfold with_para, mbind, reg_opt. now rewrite H. Qed.

Lemma on_reg_none a k o f : (nth_error (a_regs a) k = None \/ nth_error (a_regs a) k = Some None) -> on_reg a k o f = a.
Proof. intros [H|H]; unfold on_reg; now rewrite H. Qed.

Lemma para_case {A} (m : nat -> M A) (cont : A -> N) f mkop st a k :
  para_spec m f -> (forall t n, tstep t (mkop n) = on_para t n f) -> R st a ->
  exists x st', with_para k (y <- m (preg k) ;; ret (cont y)) st = Ok (x, st') /\ R st' (on_reg a k mkop f).
Proof.
  intros Hs Ht HR. destruct (nth_error (regs st) (preg k)) as [[g|]|] eqn:Ek.
  - destruct (para_op_refines m f mkop st a k g Hs Ht HR Ek) as (x & st' & Rn & HR').
    exists (cont x), st'. split; [|exact HR']. rewrite (with_para_some _ _ _ g Ek). unfold mbind. rewrite Rn. reflexivity.
  - exists 1%N, st. split; [apply with_para_none; now right|].
    destruct HR as (tid & ri & dt & rs & mregs & Hregs & Hrest). destruct Hrest as (Hdoc & Hnodes & HT & Ldt & Hnd & Hdead & HF).
    rewrite Hregs in Ek. cbn [preg nth_error] in Ek. pose proof (Forall2_nth _ _ _ k HF) as Hn.
    rewrite on_reg_none; [exists tid, ri, dt, rs, mregs; auto 10|].
    destruct (nth_error (a_regs a) k) as [[h|]|]; [|now right|now left].
    destruct Hn as (x0 & Hx & Hr). rewrite Ek in Hx. injection Hx as <-. destruct h; contradiction.
  - exists 1%N, st. split; [apply with_para_none; now left|].
    destruct HR as (tid & ri & dt & rs & mregs & Hregs & Hrest). destruct Hrest as (Hdoc & Hnodes & HT & Ldt & Hnd & Hdead & HF).
    rewrite Hregs in Ek. cbn [preg nth_error] in Ek. pose proof (Forall2_nth _ _ _ k HF) as Hn.
    rewrite on_reg_none; [exists tid, ri, dt, rs, mregs; auto 10|].
    destruct (nth_error (a_regs a) k) as [h|]; [|now left].
    destruct Hn as (x0 & Hx & Hr). rewrite Ek in Hx. discriminate.
Qed.

Lemma para_spec_set key v : para_spec (fun r => paragraph_set r key v) (fun cs => para_set cs key v).
Proof. intros ts rs r tid ri T p kd cs H1 H2 H3. destruct (paragraph_set_spec ts rs r tid ri T p kd cs key v H1 H2 H3) as (ts' & F & ?). exists tt, ts', F. assumption. Qed.
Lemma para_spec_insert key v : para_spec (fun r => paragraph_insert r key v) (fun cs => para_insert cs key v).
Proof. intros ts rs r tid ri T p kd cs H1 H2 H3. destruct (paragraph_insert_spec ts rs r tid ri T p kd cs key v H1 H2 H3) as (ts' & F & ?). exists tt, ts', F. assumption. Qed.
Lemma para_spec_remove key : para_spec (fun r => paragraph_remove r key) (fun cs => para_remove cs key).
Proof. intros ts rs r tid ri T p kd cs H1 H2 H3. destruct (paragraph_remove_spec ts rs r tid ri T p kd cs key H1 H2 H3) as (ts' & F & ?). exists tt, ts', F. assumption. Qed.
Lemma para_spec_rename old new : para_spec (fun r => paragraph_rename r old new) (fun cs => fst (para_rename cs old new)).
Proof. intros ts rs r tid ri T p kd cs H1 H2 H3. destruct (paragraph_rename_spec ts rs r tid ri T p kd cs old new H1 H2 H3) as (ts' & F & ?). eexists _, ts', F. eassumption. Qed.

(* (1)+(2)+(3): no panic, the document is the pure model's, every handle denotes what [hstep] says *)
Theorem hop_refines o st a : R st a ->
  exists x st', run_hop o st = Ok (x, st') /\ R st' (hstep o a).
Proof.
  intros HR. destruct o; cbn [run_hop hstep].
  - now apply hpara_refines.
  - now apply hnewpara_refines.
  - apply (para_case (fun r => paragraph_set r key v) (fun _ => 0%N)); [apply para_spec_set|reflexivity|exact HR].
  - apply (para_case (fun r => paragraph_insert r key v) (fun _ => 0%N)); [apply para_spec_insert|reflexivity|exact HR].
  - apply (para_case (fun r => paragraph_remove r key) (fun _ => 0%N)); [apply para_spec_remove|reflexivity|exact HR].
  - apply (para_case (fun r => paragraph_rename r old new) (fun b : bool => if b then 2%N else 3%N)); [apply para_spec_rename|reflexivity|exact HR].
  - now apply hadd_refines.
  - now apply hinsertp_refines.
  - now apply hremovep_refines.
Qed.

(* ------------------------------------------------------------------ histories *)
Theorem hops_refine ops : forall st a, R st a ->
  exists st', run_hops ops st = Ok st' /\ R st' (hsteps ops a).
Proof.
  induction ops as [|o rest IH]; intros st a HR; [exists st; split; [reflexivity|exact HR]|].
  destruct (hop_refines o st a HR) as (x & st1 & R1 & HR1). destruct (IH st1 (hstep o a) HR1) as (st' & R' & HR').
  exists st'. split; [cbn [run_hops]; rewrite R1; exact R'|exact HR'].
Qed.

(* the document undergoes exactly the pure model's operations *)
Lemma a_doc_hstep o a : a_doc (hstep o a) = fold_left tstep2 (htrace1 o a) (a_doc a).
Proof.
  destruct o; cbn [hstep htrace1 a_doc fold_left]; try reflexivity;
    try (unfold on_reg; destruct (nth_error (a_regs a) k) as [[[n|j]|]|]; reflexivity).
  destruct (nth_error (paragraphs (a_doc a)) i); reflexivity.
Qed.
Lemma a_doc_hsteps ops : forall a, a_doc (hsteps ops a) = fold_left tstep2 (htrace ops a) (a_doc a).
Proof.
  induction ops as [|o rest IH]; intros a; [reflexivity|]. cbn [hsteps fold_left htrace]. fold (hsteps rest (hstep o a)).
  rewrite IH, a_doc_hstep, fold_left_app. reflexivity.
Qed.

(* the start *)
Lemma R_start t nregs : doc_ok t -> R (start_state t nregs) (astart t nregs).
Proof.
  intros (rs & -> & Hn). exists 0, 0, [], rs, (repeat None nregs). cbn [start_state regs trees astart a_doc a_dead a_regs].
  repeat split; auto.
  - constructor; [intros []|constructor].
  - intros j t H. destruct j; discriminate.
  - induction nregs; cbn [repeat]; constructor; [exact I|assumption].
Qed.

(* what is observed: the document handle prints the abstract document, a paragraph register
   shows the paragraph its abstract value denotes *)
Definition denotes (a : astate) (k : nat) : option tree :=
  match nth_error (a_regs a) k with
  | Some (Some (Live n)) => nth_error (paragraphs (a_doc a)) n
  | Some (Some (Dead j)) => nth_error (a_dead a) j
  | _ => None
  end.
Theorem R_observe st a : R st a -> root_tree st = Ok (a_doc a) /\ forall k, reg_tree k st = denotes a k.
Proof.
  intros (tid & ri & dt & rs & mregs & Hregs & Hdoc & Hnodes & HT & Ldt & Hnd & Hdead & HF).
  destruct st as [ts regs0]. cbn [regs trees] in *. subst regs0. split.
  - unfold root_tree, node_of_reg.
    assert (Rn : runs (h <- get_reg 0 ;; node_of h) (mk_state ts (Some (mk_hnd tid []) :: mregs)) (Node ROOT rs) (mk_state ts (Some (mk_hnd tid []) :: mregs))).
    { rbind; [apply runs_get_reg; reflexivity|]. eapply runs_node_of; [exact HT|reflexivity]. }
    rewrite Rn. now rewrite Hdoc.
  - intros k. unfold reg_tree, denotes. cbn [regs preg nth_error]. pose proof (Forall2_nth _ _ _ k HF) as Hn.
    destruct (nth_error (a_regs a) k) as [[[n|j]|]|].
    + destruct Hn as (x & -> & Hr). destruct x as [g|]; [|contradiction]. cbn [reg_rel] in Hr.
      destruct Hr as (c & -> & pre & P & post & -> & HP & <- & <-).
      rewrite (runs_node_of ts _ tid [length pre] _ P HT) by (cbn [s_tree get_path children]; now rewrite nth_error_app_len).
      rewrite Hdoc. now rewrite (paragraphs_nth pre P post HP).
    + destruct Hn as (x & -> & Hr). destruct x as [g|]; [|contradiction]. cbn [reg_rel] in Hr.
      destruct Hr as (t & Ht & ->). destruct (Hdead j t Ht) as (rj & D & HD & Hd & _).
      rewrite (runs_node_of ts _ t [] _ D HD eq_refl). now rewrite Hd.
    + destruct Hn as (x & -> & Hr). destruct x; [contradiction|reflexivity].
    + now rewrite Hn.
Qed.

(* ------------------------------------------------------------------ the documents it applies to *)
Lemma skip_wsnl_nodes fuel : forall ts e r, skip_wsnl fuel ts = Ok (e, r) -> forallb is_node e = true.
Proof.
  induction fuel as [|f IH]; intros ts e r H; cbn [skip_wsnl] in H; destruct (starts_blank ts); try discriminate;
    try (injection H as <- <-; reflexivity).
  destruct (empty_line ts) as [e1 r1]. destruct (skip_wsnl f r1) as [[e2 r2]| | |] eqn:E; try discriminate.
  injection H as <- <-. cbn [forallb is_node andb]. eapply IH. exact E.
Qed.
Lemma parse_root_nodes fuel : forall ts e n, parse_root fuel ts = Ok (e, n) -> forallb is_node e = true.
Proof.
  induction fuel as [|f IH]; intros ts e n H; destruct ts as [|t0 ts0]; cbn [parse_root] in H; try discriminate;
    try (injection H as <- <-; reflexivity).
  destruct (skip_wsnl (length (t0 :: ts0)) (t0 :: ts0)) as [[e1 r1]| | |] eqn:E1; try discriminate.
  pose proof (skip_wsnl_nodes _ _ _ _ E1) as N1.
  destruct r1 as [|t1 r1']; [injection H as <- <-; exact N1|].
  unfold parse_paragraph in H. destruct (pp_entries (length (t1 :: r1')) (t1 :: r1')) as [[[e2 r2] n2]| | |]; try discriminate.
  destruct (parse_root f r2) as [[e3 n3]| | |] eqn:E3; try discriminate. injection H as <- <-.
  rewrite forallb_app, N1. cbn [app forallb is_node andb]. eapply IH. exact E3.
Qed.
Theorem parsed_doc_ok s t n : from_str_relaxed s = Ok (t, n) -> doc_ok t.
Proof.
  unfold from_str_relaxed, parse. destruct (lex s) as [ts| | |]; try discriminate. unfold parse_tokens.
  destruct (parse_root (length ts) ts) as [[e m]| | |] eqn:E; try discriminate. intros [= <- <-].
  exists e. split; [reflexivity|]. eapply parse_root_nodes. exact E.
Qed.
Lemma live_doc_ok d : doc_ok (ltree_of d).
Proof.
  exists (map lblock_tree d). split; [reflexivity|]. induction d as [|b r IH]; [reflexivity|]. cbn [map forallb]. rewrite IH.
  destruct b; reflexivity.
Qed.
Lemma built_doc_ok l : doc_ok (deb822_of_paragraphs (map paragraph_of_pairs l)).
Proof.
  exists (join_paras 0 (map paragraph_of_pairs l)). split; [reflexivity|]. generalize 0 as i.
  induction l as [|p r IH]; intros i; [reflexivity|]. cbn [map join_paras]. rewrite forallb_app. cbn [forallb].
  rewrite IH. destruct i; destruct (map paragraph_of_pairs r); reflexivity.
Qed.

(* ------------------------------------------------------------------ the whole: histories through handles *)
Theorem handles_history prog t nregs : doc_ok t ->
  let a0 := astart t nregs in
  exists st', run_hops prog (start_state t nregs) = Ok st' /\
              root_tree st' = Ok (fold_left tstep2 (htrace prog a0) t) /\
              (forall k, reg_tree k st' = denotes (hsteps prog a0) k) /\
              a_doc (hsteps prog a0) = fold_left tstep2 (htrace prog a0) t.
Proof.
  intros Hok a0. destruct (hops_refine prog _ _ (R_start t nregs Hok)) as (st' & Rn & HR).
  destruct (R_observe _ _ HR) as [Hroot Hregs]. pose proof (a_doc_hsteps prog a0) as Hd. fold a0 in Hroot, Hregs.
  change (a_doc a0) with t in Hd.
  exists st'. split; [exact Rn|]. split; [now rewrite Hroot, Hd|]. split; [exact Hregs|exact Hd].
Qed.

(* (4) C05's history theorem for histories through handles obtained at any time *)
Theorem handles_C05 prog d nregs : lwf d = true ->
  let a0 := astart (ltree_of d) nregs in
  let tr := htrace prog a0 in
  ops_ok2 d tr ->
  exists st' t', run_hops prog (start_state (ltree_of d) nregs) = Ok st' /\
    root_tree st' = Ok t' /\
    t' = ltree_of (fold_left astep2 tr d) /\ lwf (fold_left astep2 tr d) = true /\
    doc_items t' = fold_left sstep2 tr (doc_items (ltree_of d)) /\
    (forall k, reg_tree k st' = denotes (hsteps prog a0) k) /\
    exists t'', from_str (text t') = Ok t'' /\ doc_items t'' = nonempty_paras (doc_items t').
Proof.
  intros Hw a0 tr Hok. destruct (handles_history prog (ltree_of d) nregs (live_doc_ok d)) as (st' & Rn & Hroot & Hregs & _).
  destruct (C05_history_all tr d Hw Hok) as (E1 & E2 & E3 & E4).
  exists st', (fold_left tstep2 tr (ltree_of d)). split; [exact Rn|]. split; [exact Hroot|]. auto.
Qed.

(* programs that only edit fields *)
Definition field_only (o : hop) : bool :=
  match o with HAdd _ | HInsertP _ _ | HRemoveP _ => false | _ => true end.
Fixpoint fops_of (l : list dop) : list fop :=
  match l with [] => [] | DF o :: r => o :: fops_of r | _ :: r => fops_of r end.
Lemma htrace_field_only prog : forall a, forallb field_only prog = true -> htrace prog a = map DF (fops_of (htrace prog a)).
Proof.
  induction prog as [|o rest IH]; intros a H; [reflexivity|]. cbn [forallb] in H. apply andb_prop in H as [H1 H2].
  cbn [htrace]. rewrite (IH _ H2) at 1.
  assert (E1 : htrace1 o a = map DF (fops_of (htrace1 o a))).
  { destruct o; try discriminate; cbn [htrace1]; try reflexivity; destruct (nth_error (a_regs a) k) as [[[n|j]|]|]; reflexivity. }
  rewrite E1 at 1. rewrite <- map_app. f_equal.
  clear. generalize (htrace1 o a) as l1. intros l1. induction l1 as [|[f| | |] r IHl]; cbn [fops_of app]; rewrite ?IHl; reflexivity.
Qed.
Lemma fold_tstep2_DF l t : fold_left tstep2 (map DF l) t = fold_left tstep l t.
Proof. revert t; induction l as [|o r IH]; intros t; [reflexivity|]. cbn [map fold_left tstep2]. apply IH. Qed.

Theorem handles_C04 prog d nregs : lwf d = true -> forallb field_only prog = true ->
  let a0 := astart (ltree_of d) nregs in
  let tr := fops_of (htrace prog a0) in
  ops_ok d tr ->
  exists st' t', run_hops prog (start_state (ltree_of d) nregs) = Ok st' /\
    root_tree st' = Ok t' /\
    t' = ltree_of (fold_left astep tr d) /\ lwf (fold_left astep tr d) = true /\
    doc_items t' = fold_left sstep tr (doc_items (ltree_of d)) /\
    (forall k, reg_tree k st' = denotes (hsteps prog a0) k) /\
    exists t'', from_str (text t') = Ok t'' /\ doc_items t'' = nonempty_paras (doc_items t').
Proof.
  intros Hw Hf a0 tr Hok. destruct (handles_history prog (ltree_of d) nregs (live_doc_ok d)) as (st' & Rn & Hroot & Hregs & _).
  fold a0 in Hroot. rewrite (htrace_field_only prog a0 Hf), fold_tstep2_DF in Hroot. fold tr in Hroot.
  destruct (C04_history_all tr d Hw Hok) as (E1 & E2 & E3 & E4).
  exists st', (fold_left tstep tr (ltree_of d)). split; [exact Rn|]. split; [exact Hroot|]. auto.
Qed.
