(* The lossy reader: totality, and its result on rendered well-formed documents. *)
From V.model Require Import Base Deb822Lex Deb822Parse Grammar Lossy.
From V.proofs Require Import BaseP Deb822LexP GrammarLexP GrammarParseP GrammarAccP.

(* ---------- what remains is a suffix of what was given ---------- *)
Definition suffix (r ts : list token) : Prop := exists p, ts = p ++ r.

Lemma suffix_refl ts : suffix ts ts.
Proof. exists []. reflexivity. Qed.
Lemma suffix_cons x r ts : suffix r ts -> suffix r (x :: ts).
Proof. intros [p ->]. exists (x :: p). reflexivity. Qed.
Lemma suffix_trans a b c : suffix a b -> suffix b c -> suffix a c.
Proof. intros [p ->] [q ->]. exists (q ++ p). rewrite app_assoc. reflexivity. Qed.
Lemma suffix_len r ts : suffix r ts -> length r <= length ts.
Proof. intros [p ->]. rewrite app_length. lia. Qed.
Lemma suffix_Forall P r ts : suffix r ts -> Forall P ts -> Forall P r.
Proof. intros [p ->] H. apply Forall_app in H. apply H. Qed.

Lemma first_line_suffix ts : forall v v' r, first_line ts v = Ok (v', r) -> suffix r ts.
Proof.
  induction ts as [|[k t] ts IH]; intros v v' r H; cbn [first_line] in H.
  - inversion H; subst. apply suffix_refl.
  - destruct k; try discriminate.
    + apply suffix_cons. eapply IH. exact H.
    + inversion H; subst. apply suffix_cons, suffix_refl.
Qed.

Lemma cont_line_suffix ts : forall v v' r, cont_line ts v = Ok (v', r) -> suffix r ts.
Proof.
  induction ts as [|[k t] ts IH]; intros v v' r H; cbn [cont_line] in H.
  - inversion H; subst. apply suffix_refl.
  - destruct k; try discriminate; try (apply suffix_cons; eapply IH; exact H);
      inversion H; subst; [apply suffix_refl|apply suffix_cons, suffix_refl].
Qed.

Lemma cont_line_res ts : forall v, (exists x, cont_line ts v = Ok x) \/ (exists e, cont_line ts v = Err e).
Proof.
  induction ts as [|[k t] ts IH]; intros v; cbn [cont_line]; [left; eexists; reflexivity|].
  destruct k; try (right; eexists; reflexivity); try apply IH; left; eexists; reflexivity.
Qed.

Lemma conts_suffix fuel : forall ts v v' r, conts fuel ts v = Ok (v', r) -> suffix r ts.
Proof.
  induction fuel as [|f IH]; intros ts v v' r H.
  - destruct ts as [|[k t] ts]; cbn [conts] in H; [inversion H; subst; apply suffix_refl|].
    destruct k; try discriminate; inversion H; subst; apply suffix_refl.
  - destruct ts as [|[k t] ts]; cbn [conts] in H; [inversion H; subst; apply suffix_refl|].
    destruct k; try (inversion H; subst; apply suffix_refl).
    destruct (cont_line ts v) as [[v1 r1]| | |] eqn:E; try discriminate.
    apply cont_line_suffix in E. apply IH in H. apply suffix_cons. eapply suffix_trans; eassumption.
Qed.

Lemma conts_res fuel : forall ts v, length ts <= fuel ->
  (exists x, conts fuel ts v = Ok x) \/ (exists e, conts fuel ts v = Err e).
Proof.
  induction fuel as [|f IH]; intros ts v Hl.
  - destruct ts; [|cbn in Hl; lia]. left; eexists; reflexivity.
  - destruct ts as [|[k t] ts]; cbn [conts]; [left; eexists; reflexivity|].
    destruct k; try (left; eexists; reflexivity).
    destruct (cont_line_res ts v) as [[[v1 r1] E]|[e E]]; rewrite E; [|right; eexists; reflexivity].
    apply IH. apply cont_line_suffix, suffix_len in E. cbn in Hl. lia.
Qed.

Lemma skip_ws_tokens_suffix ts : suffix (skip_ws_tokens ts) ts.
Proof. induction ts as [|[k t] ts IH]; cbn; [apply suffix_refl|]. destruct k; try apply suffix_refl. apply suffix_cons, IH. Qed.

Lemma drop_line_suffix ts : suffix (drop_line ts) ts.
Proof.
  induction ts as [|[k t] ts IH]; cbn [drop_line]; [apply suffix_refl|].
  destruct k; try (apply suffix_cons, IH). apply suffix_cons, suffix_refl.
Qed.

Lemma read_field_suffix name ts fld r : read_field name ts = Ok (fld, r) -> suffix r ts /\ length r < length ts.
Proof.
  unfold read_field. intros H. destruct ts as [|[k t] ts]; [discriminate|].
  destruct k; try discriminate.
  destruct (first_line (skip_ws_tokens ts) []) as [[v r1]| | |] eqn:E1; try discriminate.
  destruct (conts (length r1) r1 (v ++ [10%N])) as [[v' r2]| | |] eqn:E2; try discriminate.
  inversion H; subst. apply first_line_suffix in E1. apply conts_suffix in E2.
  assert (S1 : suffix r ts) by (eapply suffix_trans; [exact E2|]; eapply suffix_trans; [exact E1|apply skip_ws_tokens_suffix]).
  split; [apply suffix_cons; exact S1|]. apply suffix_len in S1. cbn. lia.
Qed.

Lemma first_line_res ts : forall v, (exists x, first_line ts v = Ok x) \/ (exists e, first_line ts v = Err e).
Proof.
  induction ts as [|[k t] ts IH]; intros v; cbn [first_line]; [left; eexists; reflexivity|].
  destruct k; try (right; eexists; reflexivity); [apply IH|left; eexists; reflexivity].
Qed.

Lemma read_field_res name ts : (exists x, read_field name ts = Ok x) \/ (exists e, read_field name ts = Err e).
Proof.
  unfold read_field. destruct ts as [|[k t] ts]; [right; eexists; reflexivity|].
  destruct k; try (right; eexists; reflexivity).
  destruct (first_line_res (skip_ws_tokens ts) []) as [[[v r1] E]|[e E]]; rewrite E; [|right; eexists; reflexivity].
  destruct (conts_res (length r1) r1 (v ++ [10%N])) as [[[v' r2] E2]|[e E2]]; [lia| |]; rewrite E2;
    [left; eexists; reflexivity|right; eexists; reflexivity].
Qed.

(* ---------- totality ---------- *)
Definition token_kind (k : kind) : bool :=
  match k with EMPTY_LINE | PARAGRAPH | ROOT | ENTRY => false | _ => true end.

Lemma read_go_total fuel : forall ts cur ps, length ts <= fuel ->
  Forall (fun t => token_kind (fst t) = true) ts ->
  (exists d, read_go fuel ts cur ps = Ok d) \/ (exists e, read_go fuel ts cur ps = Err e).
Proof.
  induction fuel as [|f IH]; intros ts cur ps Hl Hk.
  - destruct ts; [|cbn in Hl; lia]. left; eexists; reflexivity.
  - destruct ts as [|[k t] ts]; cbn [read_go]; [left; eexists; reflexivity|].
    inversion Hk as [|x l Hk1 Hk2]; subst. cbn [fst] in Hk1.
    destruct k; try discriminate; try (right; eexists; reflexivity).
    + (* KEY *)
      destruct (read_field_res t ts) as [[[fld r'] E]|[e E]]; rewrite E; [|right; eexists; reflexivity].
      destruct (read_field_suffix _ _ _ _ E) as [Hs Hr].
      apply IH; [cbn in Hl; lia|]. eapply suffix_Forall; eassumption.
    + apply IH; [cbn in Hl; lia|exact Hk2].
    + apply IH; [cbn in Hl; lia|exact Hk2].
    + apply IH; [cbn in Hl; pose proof (suffix_len _ _ (drop_line_suffix ts)); lia|].
      eapply suffix_Forall; [apply drop_line_suffix|exact Hk2].
Qed.

(* the lexer only produces token kinds *)
Lemma lex_step_kind st c r k t st' r' : lex_step st c r = Ok ((k, t), st', r') -> token_kind k = true.
Proof.
  unfold lex_step. intros H.
  repeat match type of H with
  | (if ?b then _ else _) = _ => destruct b
  | (let '(_, _) := span ?p ?s in _) = _ => destruct (span p s)
  end; inversion H; reflexivity.
Qed.

Lemma lex_go_kinds fuel : forall st s ts, lex_go fuel st s = Ok ts -> Forall (fun t => token_kind (fst t) = true) ts.
Proof.
  induction fuel as [|f IH]; intros st s ts H.
  - destruct s; cbn in H; inversion H. constructor.
  - destruct s as [|c r]; cbn [lex_go] in H; [inversion H; constructor|].
    destruct (lex_step st c r) as [[[[k t] st'] r']| | |] eqn:E; try discriminate.
    destruct (lex_go f st' r') as [ts'| | |] eqn:E2; try discriminate.
    inversion H; subst. constructor; [cbn; eapply lex_step_kind; exact E|eapply IH; exact E2].
Qed.

Theorem lossy_total s : (exists d, lossy_from_str s = Ok d) \/ (exists e, lossy_from_str s = Err e).
Proof.
  unfold lossy_from_str. destruct (lex_total true s) as [ts E]. unfold lex. rewrite E.
  apply read_go_total; [lia|]. eapply lex_go_kinds. exact E.
Qed.

Theorem lossy_paragraph_total s :
  (exists p, lossy_paragraph_from_str s = Ok p) \/ (exists e, lossy_paragraph_from_str s = Err e).
Proof.
  unfold lossy_paragraph_from_str. destruct (lossy_total s) as [[d E]|[e E]]; rewrite E.
  - destruct d as [|p [|q r]]; [right|left|right]; eexists; reflexivity.
  - right; eexists; reflexivity.
Qed.

(* ================= the lossy reader on rendered well-formed documents ================= *)
Lemma read_go_fuel f1 : forall f2 ts cur ps, length ts <= f1 -> length ts <= f2 ->
  read_go f1 ts cur ps = read_go f2 ts cur ps.
Proof.
  induction f1 as [|f1 IH]; intros f2 ts cur ps H1 H2.
  - destruct ts; [|cbn in H1; lia]. destruct f2; reflexivity.
  - destruct ts as [|[k t] ts]; [destruct f2; reflexivity|].
    destruct f2 as [|f2]; [cbn in H2; lia|]. cbn [read_go]. cbn [length] in H1, H2.
    destruct k; try reflexivity.
    + destruct (read_field t ts) as [[fld r']| | |] eqn:E; try reflexivity.
      apply read_field_suffix in E. destruct E as [_ E]. apply IH; lia.
    + apply IH; lia.
    + apply IH; lia.
    + pose proof (suffix_len _ _ (drop_line_suffix ts)). apply IH; lia.
Qed.

Definition readf (ts : list token) (cur : lpara) (ps : ldoc) : res ldoc := read_go (length ts) ts cur ps.

Lemma readf_nil cur ps : readf [] cur ps = Ok (push_para cur ps).
Proof. reflexivity. Qed.
Lemma readf_newline t r cur ps : readf ((NEWLINE, t) :: r) cur ps = readf r [] (push_para cur ps).
Proof. reflexivity. Qed.
Lemma readf_comment t r cur ps : readf ((COMMENT, t) :: r) cur ps = readf (drop_line r) cur ps.
Proof.
  unfold readf. cbn [length read_go]. apply read_go_fuel; [|lia].
  apply suffix_len, drop_line_suffix.
Qed.
Lemma readf_key t r cur ps fld r' : read_field t r = Ok (fld, r') ->
  readf ((KEY, t) :: r) cur ps = readf r' (cur ++ [fld]) ps.
Proof.
  intros E. unfold readf. cbn [length read_go]. rewrite E.
  apply read_field_suffix in E. destruct E as [_ E]. apply read_go_fuel; lia.
Qed.

Lemma skip_ws_opt ws X : match X with (WHITESPACE, _) :: _ => False | _ => True end ->
  skip_ws_tokens (opt_tok WHITESPACE ws ++ X) = X.
Proof.
  intros H. destruct ws as [|c w]; cbn [opt_tok app skip_ws_tokens].
  - destruct X as [|[k t] r]; [reflexivity|]. destruct k; try reflexivity. contradiction.
  - destruct X as [|[k t] r]; [reflexivity|]. destruct k; try reflexivity. contradiction.
Qed.

(* the continuation lines, entered after the NEWLINE that precedes the first of them *)
Lemma conts_field cs : forall fuel i t v b rest,
  length cs < fuel -> (b = false -> rest = []) -> cur rest <> Some INDENT ->
  conts fuel ((INDENT, i) :: (VALUE, t) :: line_tail cs b rest) v =
  Ok (v ++ t ++ flat_map (fun c => LF :: snd c) cs ++ nl_text b, rest).
Proof.
  induction cs as [|[i2 t2] cs IH]; intros fuel i t v b rest Hf Hb Hi;
    (destruct fuel as [|f]; [cbn in Hf; lia|]); cbn [conts cont_line].
  - unfold line_tail. cbn [flat_map app]. destruct b; cbn [nl_tok nl_text app cont_line].
    + rewrite <- app_assoc. destruct rest as [|[k s] r]; [destruct f; reflexivity|].
      destruct k; try (destruct f; reflexivity). cbn in Hi. congruence.
    + rewrite (Hb eq_refl). cbn [cont_line]. rewrite app_nil_r. destruct f; reflexivity.
  - unfold line_tail. cbn [flat_map app cont_toks fst snd cont_line].
    change ((INDENT, i2) :: (VALUE, t2) :: flat_map cont_toks cs ++ nl_tok b ++ rest)
      with ((INDENT, i2) :: (VALUE, t2) :: line_tail cs b rest).
    rewrite (IH f i2 t2 ((v ++ t) ++ [10%N]) b rest); [|cbn in Hf; lia|exact Hb|exact Hi].
    cbn [flat_map snd app]. rewrite <- !app_assoc. reflexivity.
Qed.

Lemma strip_nl_snoc v : strip_nl (v ++ [10%N]) = v.
Proof. unfold strip_nl. rewrite rev_app_distr. cbn. rewrite rev_involutive. reflexivity. Qed.

Lemma strip_nl_keep v : match rev v with c :: _ => (c =? 10)%N = false | [] => True end -> strip_nl v = v.
Proof. unfold strip_nl. destruct (rev v) as [|c r]; [reflexivity|]. intros ->. reflexivity. Qed.

Lemma no_eol_last t c r : no_eol t = true -> rev t = c :: r -> (c =? 10)%N = false.
Proof.
  intros Hn Hr. assert (In c t) by (apply in_rev; rewrite Hr; left; reflexivity).
  unfold no_eol in Hn. rewrite forallb_forall in Hn. specialize (Hn c H).
  apply negb_true_iff in Hn. unfold is_newline in Hn. apply orb_false_iff in Hn. apply Hn.
Qed.

Lemma join_conts cs : cs <> [] ->
  flat_map (fun c : str * str => LF :: snd c) cs = LF :: join [LF] (map snd cs).
Proof.
  induction cs as [|[i t] cs IH]; [congruence|]. intros _. cbn [flat_map map snd].
  destruct cs as [|c2 cs2]; [cbn; rewrite app_nil_r; reflexivity|].
  rewrite IH by discriminate. cbn [join map]. cbn [app]. destruct (map snd cs2); reflexivity.
Qed.

Lemma read_field_field f more rest :
  wf_field f more = true -> (more = false -> rest = []) -> cur rest <> Some INDENT ->
  match rest with (WHITESPACE, _) :: _ | (VALUE, _) :: _ => False | _ => True end ->
  read_field (f_name f) ((COLON, [58%N]) :: opt_tok WHITESPACE (f_ws f) ++ opt_tok VALUE (f_first f) ++ line_tail (f_cont f) (f_nl f) rest)
  = Ok (lossy_pair f, rest).
Proof.
  intros Hwf Hm Hi Hrest. unfold wf_field in Hwf.
  repeat (apply andb_true_iff in Hwf; let H := fresh "W" in destruct Hwf as [Hwf H]).
  assert (Hb : f_nl f = false -> rest = []).
  { intros E. rewrite E in W. cbn in W. apply negb_true_iff in W. exact (Hm W). }
  unfold read_field, lossy_pair, lossy_value.
  pose proof (line_tail_head (f_cont f) (f_nl f) rest Hb) as Hh.
  rewrite skip_ws_opt.
  2:{ destruct (f_first f); cbn [opt_tok app]; [|exact I].
      destruct (line_tail (f_cont f) (f_nl f) rest) as [|[k s] r]; [exact I|]. subst k. exact I. }
  (* first line *)
  assert (E1 : first_line (opt_tok VALUE (f_first f) ++ line_tail (f_cont f) (f_nl f) rest) [] =
               match line_tail (f_cont f) (f_nl f) rest with
               | [] => Ok (f_first f, [])
               | _ :: r => Ok (f_first f, r)
               end).
  { destruct (f_first f) as [|x t]; cbn [opt_tok app first_line];
      destruct (line_tail (f_cont f) (f_nl f) rest) as [|[k s] r]; try reflexivity; subst k; reflexivity. }
  rewrite E1. clear E1.
  unfold first_ok in W1. apply andb_true_iff in W1. destruct W1 as [F1 _].
  destruct (f_cont f) as [|[i t] cs] eqn:Ec.
  - (* no continuation lines *)
    unfold line_tail. cbn [flat_map app]. destruct (f_nl f) eqn:En; cbn [nl_tok app].
    + assert (Ec2 : conts (length rest) rest (f_first f ++ [10%N]) = Ok (f_first f ++ [10%N], rest)).
      { destruct rest as [|[k s] r]; [reflexivity|]. destruct k; try reflexivity. cbn in Hi. congruence. }
      rewrite Ec2, strip_nl_snoc, app_nil_r. reflexivity.
    + rewrite (Hb eq_refl). cbn [conts length]. rewrite strip_nl_snoc, app_nil_r. reflexivity.
  - unfold line_tail. cbn [flat_map app cont_toks fst snd].
    change ((INDENT, i) :: (VALUE, t) :: flat_map cont_toks cs ++ nl_tok (f_nl f) ++ rest)
      with ((INDENT, i) :: (VALUE, t) :: line_tail cs (f_nl f) rest).
    rewrite conts_field; [|cbn [length]; pose proof (conts_len cs); unfold line_tail; rewrite app_length; lia|exact Hb|exact Hi].
    f_equal. f_equal. f_equal.
    rewrite <- (join_conts ((i, t) :: cs)) by discriminate. cbn [flat_map snd app].
    destruct (f_nl f) eqn:En; cbn [nl_text].
    + replace (((f_first f ++ [10%N]) ++ t ++ flat_map (fun c => LF :: snd c) cs ++ [LF]))
        with ((f_first f ++ LF :: t ++ flat_map (fun c => LF :: snd c) cs) ++ [10%N]).
      2:{ unfold LF. rewrite <- !app_assoc. cbn [app]. rewrite <- !app_assoc. reflexivity. }
      rewrite strip_nl_snoc. reflexivity.
    + rewrite app_nil_r. rewrite strip_nl_keep.
      * unfold LF. rewrite <- app_assoc. reflexivity.
      * (* the last character of the last continuation line is not LF *)
        cbn [forallb] in W0. apply andb_true_iff in W0. destruct W0 as [Wc Wcs].
        assert (Hlast : forall (pre : str) (l : list (str * str)) (x : str),
                  forallb cont_ok l = true -> no_eol x = true -> x <> [] ->
                  match rev (pre ++ x ++ flat_map (fun c => LF :: snd c) l) with c :: _ => (c =? 10)%N = false | [] => True end).
        { intros pre l. revert pre. induction l as [|[i3 t3] l IHl]; intros pre x Hl Hx Hne.
          - cbn [flat_map]. rewrite app_nil_r, rev_app_distr. destruct (rev x) as [|c r] eqn:Er.
            + exfalso. apply Hne. rewrite <- (rev_involutive x), Er. reflexivity.
            + cbn [app]. eapply no_eol_last; eassumption.
          - cbn [flat_map snd]. cbn [forallb] in Hl. apply andb_true_iff in Hl. destruct Hl as [Hc3 Hl].
            unfold cont_ok in Hc3. apply andb_true_iff in Hc3. destruct Hc3 as [Hc3 Ht3].
            apply andb_true_iff in Hc3. destruct Hc3 as [_ Hn3].
            replace (pre ++ x ++ (LF :: t3) ++ flat_map (fun c => LF :: snd c) l)
              with ((pre ++ x ++ [LF]) ++ t3 ++ flat_map (fun c => LF :: snd c) l)
              by (rewrite <- !app_assoc; reflexivity).
            apply IHl; [exact Hl|exact Hn3|]. destruct t3; [discriminate|congruence]. }
        unfold cont_ok in Wc. apply andb_true_iff in Wc. destruct Wc as [Wc Wt].
        apply andb_true_iff in Wc. destruct Wc as [_ Wn].
        apply Hlast; [exact Wcs|exact Wn|]. destruct t; [discriminate|congruence].
Qed.

Lemma starts_line_no_ws ts : starts_line ts ->
  match ts with (WHITESPACE, _) :: _ | (VALUE, _) :: _ => False | _ => True end.
Proof. destruct ts as [|[k s] r]; cbn; [trivial|]. intros [->|[->| ->]]; exact I. Qed.

Lemma drop_line_nl b X : (b = false -> X = []) -> drop_line (nl_tok b ++ X) = X.
Proof. intros H. destruct b; cbn; [reflexivity|]. rewrite (H eq_refl). reflexivity. Qed.

Lemma readf_items its : forall more rest cur ps,
  wf_items its more = true -> (more = false -> rest = []) -> starts_line rest ->
  readf (flat_map item_toks its ++ rest) cur ps = readf rest (cur ++ flat_map lossy_item_pairs its) ps.
Proof.
  induction its as [|it r IH]; intros more rest cur ps Hwf Hm Hs.
  - cbn [flat_map app]. rewrite app_nil_r. reflexivity.
  - cbn [wf_items] in Hwf. apply andb_true_iff in Hwf. destruct Hwf as [Hit Hr].
    cbn [flat_map]. rewrite <- app_assoc.
    assert (Hm' : (match r with [] => more | _ => true end) = false -> flat_map item_toks r ++ rest = []).
    { destruct r; [intros E; rewrite (Hm E); reflexivity|discriminate]. }
    assert (Hsl : starts_line (flat_map item_toks r ++ rest)) by (apply items_starts_line; exact Hs).
    destruct it as [f|c nl]; cbn [item_toks lossy_item_pairs].
    + unfold field_toks. cbn [app]. rewrite <- !app_assoc.
      change (opt_tok WHITESPACE (f_ws f) ++ opt_tok VALUE (f_first f) ++ flat_map cont_toks (f_cont f) ++ nl_tok (f_nl f) ++ flat_map item_toks r ++ rest)
        with (opt_tok WHITESPACE (f_ws f) ++ opt_tok VALUE (f_first f) ++ line_tail (f_cont f) (f_nl f) (flat_map item_toks r ++ rest)).
      rewrite (readf_key _ _ _ _ _ _ (read_field_field f _ _ Hit Hm' (starts_line_not_indent _ Hsl) (starts_line_no_ws _ Hsl))).
      rewrite (IH more rest _ ps Hr Hm Hs). rewrite <- app_assoc. reflexivity.
    + unfold comment_toks. cbn [app]. rewrite readf_comment.
      unfold wf_comment in Hit. apply andb_true_iff in Hit. destruct Hit as [_ Hn].
      rewrite drop_line_nl.
      * cbn [app]. apply (IH more rest cur ps Hr Hm Hs).
      * intros E. subst nl. cbn in Hn. apply negb_true_iff in Hn. exact (Hm' Hn).
Qed.

(* the paragraphs the lossy reader accumulates over the blocks of a document *)
Fixpoint lossy_fold (d : doc) (cur : lpara) (ps : ldoc) : ldoc :=
  match d with
  | [] => push_para cur ps
  | BBlank :: r => lossy_fold r [] (push_para cur ps)
  | BComment _ _ :: r => lossy_fold r cur ps
  | BPara f its :: r => lossy_fold r (cur ++ lossy_pair f :: flat_map lossy_item_pairs its) ps
  end.

Lemma doc_starts_line d : starts_line (doc_toks d).
Proof.
  destruct d as [|b r]; [exact I|]. unfold doc_toks. cbn [flat_map].
  destruct b as [|c nl|f its]; cbn; tauto.
Qed.

Lemma readf_doc d : forall cur ps, wf_doc d = true -> readf (doc_toks d) cur ps = Ok (lossy_fold d cur ps).
Proof.
  induction d as [|b r IH]; intros cur ps Hwf; [reflexivity|].
  cbn [wf_doc] in Hwf. apply andb_true_iff in Hwf. destruct Hwf as [Hb Hr].
  unfold doc_toks in *. cbn [flat_map].
  assert (Hm : (match r with [] => false | _ => true end) = false -> flat_map block_toks r = []).
  { destruct r; [reflexivity|discriminate]. }
  pose proof (doc_starts_line r) as Hsl. unfold doc_toks in Hsl.
  destruct b as [|c nl|f its]; cbn [block_toks lossy_fold].
  - cbn [app]. rewrite readf_newline. apply IH. exact Hr.
  - unfold comment_toks. cbn [app]. rewrite readf_comment.
    unfold wf_comment in Hb. apply andb_true_iff in Hb. destruct Hb as [_ Hn].
    rewrite drop_line_nl.
    + apply IH. exact Hr.
    + intros E. subst nl. cbn in Hn. apply negb_true_iff in Hn. exact (Hm Hn).
  - apply andb_true_iff in Hb. destruct Hb as [Hb _]. apply andb_true_iff in Hb. destruct Hb as [Hf Hits].
    rewrite <- app_assoc.
    pose proof (readf_items (IField f :: its) (match r with [] => false | _ => true end) (flat_map block_toks r) cur ps) as HI.
    cbn [flat_map item_toks lossy_item_pairs wf_items] in HI. rewrite <- app_assoc in HI.
    rewrite HI.
    + cbn [app]. apply IH. exact Hr.
    + rewrite Hf, Hits. reflexivity.
    + exact Hm.
    + exact Hsl.
Qed.

Lemma lossy_fold_wf d : forall ps, wf_doc d = true -> lossy_fold d [] ps = ps ++ lossy_content d.
Proof.
  induction d as [|b r IH]; intros ps Hwf; [cbn; rewrite app_nil_r; reflexivity|].
  pose proof (wf_doc_tail _ _ Hwf) as Hr.
  destruct b as [|c nl|f its]; cbn [lossy_fold lossy_content flat_map lossy_block_content app push_para].
  - apply IH. exact Hr.
  - apply IH. exact Hr.
  - cbn [wf_doc] in Hwf. apply andb_true_iff in Hwf. destruct Hwf as [Hb _].
    apply andb_true_iff in Hb. destruct Hb as [_ Hnext].
    destruct r as [|b2 r2].
    + cbn [lossy_fold push_para flat_map app]. reflexivity.
    + destruct b2; try discriminate.
      change (lossy_fold (BBlank :: r2) (lossy_pair f :: flat_map lossy_item_pairs its) ps)
        with (lossy_fold (BBlank :: r2) [] (ps ++ [lossy_pair f :: flat_map lossy_item_pairs its])).
      rewrite (IH (ps ++ [lossy_pair f :: flat_map lossy_item_pairs its])); [|exact Hr].
      rewrite <- app_assoc. reflexivity.
Qed.

Theorem lossy_render d : wf_doc d = true -> lossy_from_str (render d) = Ok (lossy_content d).
Proof.
  intros Hwf. unfold lossy_from_str. rewrite (lex_render d Hwf).
  change (read_tokens (doc_toks d)) with (readf (doc_toks d) [] []).
  rewrite (readf_doc d [] [] Hwf), (lossy_fold_wf d [] Hwf). reflexivity.
Qed.

(* ---------- agreement with the lossless content ---------- *)
Lemma split_lf_lf v : split_lf (LF :: v) = [] :: split_lf v.
Proof. reflexivity. Qed.

Lemma lossy_value_nb f : nb_lines (lossy_value f) = nb_lines (field_value f).
Proof.
  unfold lossy_value, field_value. destruct (f_first f) as [|x t] eqn:Ef.
  - cbn [app]. destruct (f_cont f) as [|c cs]; [reflexivity|].
    unfold nb_lines. rewrite split_lf_lf. cbn [filter blank_line forallb negb]. reflexivity.
  - destruct (f_cont f) as [|c cs]; [cbn [map app join]; rewrite app_nil_r; reflexivity|].
    cbn [app map]. f_equal.
Qed.

Lemma nb_content d : nb_doc (lossy_content d) = nb_doc (content d).
Proof.
  unfold nb_doc, lossy_content, content. induction d as [|b r IH]; [reflexivity|].
  cbn [flat_map]. rewrite !map_app, IH. f_equal.
  destruct b as [|c nl|f its]; try reflexivity.
  cbn [lossy_block_content block_content map]. f_equal. f_equal.
  - unfold lossy_pair, field_pair. cbn [fst snd]. rewrite lossy_value_nb. reflexivity.
  - induction its as [|it l IHl]; [reflexivity|]. cbn [flat_map]. rewrite !map_app, IHl. f_equal.
    destruct it as [g|c nl]; [|reflexivity]. cbn [lossy_item_pairs item_pairs map]. f_equal.
    unfold lossy_pair, field_pair. cbn [fst snd]. rewrite lossy_value_nb. reflexivity.
Qed.

Theorem C06_joint d : wf_doc d = true ->
  exists L t, lossy_from_str (render d) = Ok L /\ from_str (render d) = Ok t /\
              nb_doc L = nb_doc (doc_items t) /\ L = lossy_content d /\ doc_items t = content d.
Proof.
  intros Hwf. exists (lossy_content d), (tree_of d).
  destruct (GrammarAccP.C03_accept_all d Hwf) as (E & _ & Ei).
  split; [apply lossy_render; exact Hwf|]. split; [exact E|]. split; [rewrite Ei; apply nb_content|].
  split; [reflexivity|exact Ei].
Qed.
