(* Lemmas about Deb822Store.v (C04H), part 1: lists, paths, the store primitives (detach, attach,
   splice_children) and how they re-base handles. *)
From V.model Require Import Base Deb822Lex Deb822Parse Deb822Edit Deb822Store.
From V.proofs Require Import BaseP.

(* ------------------------------------------------------------------ lists *)
Lemma upd_nth_length {A} i (f : A -> A) l : length (upd_nth i f l) = length l.
Proof. revert i; induction l as [|x r IH]; intros [|i]; cbn; auto. Qed.
Lemma nth_error_upd_nth_eq {A} i (f : A -> A) l x :
  nth_error l i = Some x -> nth_error (upd_nth i f l) i = Some (f x).
Proof.
  revert i; induction l as [|y r IH]; intros [|i] H; cbn in *; try discriminate.
  - now inversion H.
  - now apply IH.
Qed.
Lemma nth_error_upd_nth_neq {A} i j (f : A -> A) l :
  i <> j -> nth_error (upd_nth i f l) j = nth_error l j.
Proof. revert i j; induction l as [|y r IH]; intros [|i] [|j] H; cbn; auto; try lia. Qed.
Lemma upd_nth_app_r {A} (f : A -> A) a x b : upd_nth (length a) f (a ++ x :: b) = a ++ f x :: b.
Proof. induction a as [|y r IH]; cbn; [reflexivity|]. now rewrite IH. Qed.
Lemma nth_error_split_eq {A} (l : list A) i x :
  nth_error l i = Some x -> l = firstn i l ++ x :: skipn (S i) l /\ length (firstn i l) = i.
Proof.
  revert i; induction l as [|y r IH]; intros [|i] H; cbn in *; try discriminate.
  - inversion H; subst. split; reflexivity.
  - destruct (IH _ H) as [E L]. split; [now rewrite <- E | now rewrite L].
Qed.
Lemma nth_error_split {A} (l : list A) i x :
  nth_error l i = Some x -> exists a b, l = a ++ x :: b /\ length a = i.
Proof. intros H. destruct (nth_error_split_eq _ _ _ H) as [E L]. now exists (firstn i l), (skipn (S i) l). Qed.
Lemma nth_error_app_len {A} (a : list A) x b : nth_error (a ++ x :: b) (length a) = Some x.
Proof. induction a as [|y r IH]; cbn; auto. Qed.
Lemma firstn_app_len {A} (a b : list A) : firstn (length a) (a ++ b) = a.
Proof. induction a as [|x r IH]; cbn; [now destruct b|]. now rewrite IH. Qed.
Lemma skipn_app_len {A} (a b : list A) : skipn (length a) (a ++ b) = b.
Proof. induction a as [|x r IH]; cbn; auto. Qed.
Lemma split_last_app {A} (p : list A) (i : A) : split_last (p ++ [i]) = Some (p, i).
Proof. induction p as [|x r IH]; cbn; [reflexivity|]. now rewrite IH. Qed.
Lemma strip_prefix_app p q : strip_prefix p (p ++ q) = Some q.
Proof. induction p as [|x r IH]; cbn; [reflexivity|]. now rewrite Nat.eqb_refl. Qed.
Lemma upd_nth_upd_nth {A} i (f g : A -> A) l :
  upd_nth i g (upd_nth i f l) = upd_nth i (fun x => g (f x)) l.
Proof. revert i; induction l as [|y r IH]; intros [|i]; cbn; auto. now rewrite IH. Qed.
Lemma upd_nth_ext_at {A} i (f g : A -> A) l x :
  nth_error l i = Some x -> f x = g x -> upd_nth i f l = upd_nth i g l.
Proof.
  revert i; induction l as [|y r IH]; intros [|i] H E; cbn in *; try discriminate.
  - inversion H; subst. now rewrite E.
  - now rewrite (IH _ H E).
Qed.
Lemma upd_nth_id {A} i (l : list A) : upd_nth i (fun x => x) l = l.
Proof. revert i; induction l as [|y r IH]; intros [|i]; cbn; auto. now rewrite IH. Qed.

(* Deb822Edit.insert_at / delete_at at a known position *)
Lemma insert_at_app_len {A} (a new b : list A) : insert_at (length a) new (a ++ b) = a ++ new ++ b.
Proof. induction a as [|x r IH]; cbn [length app insert_at]; [now destruct b|]. now rewrite IH. Qed.
Lemma insert_at_end {A} (l new : list A) : insert_at (length l) new l = l ++ new.
Proof. rewrite <- (app_nil_r l) at 2. rewrite insert_at_app_len. now rewrite app_nil_r. Qed.
Lemma delete_at_app_len {A} (a : list A) x b : delete_at (length a) (a ++ x :: b) = a ++ b.
Proof. induction a as [|y r IH]; cbn [length app delete_at]; [reflexivity|]. now rewrite IH. Qed.
Lemma delete_at_beyond {A} (l : list A) i : length l <= i -> delete_at i l = l.
Proof. revert i; induction l as [|x r IH]; intros [|i] H; cbn in *; auto; try lia. f_equal. apply IH. lia. Qed.

Lemma nth_error_set_nth_eq {A} i (x : A) l : i < length l -> nth_error (set_nth i x l) i = Some x.
Proof.
  unfold set_nth. revert i; induction l as [|y r IH]; intros [|i] H; cbn in *; try lia; auto.
  apply IH. lia.
Qed.
Lemma nth_error_set_nth_neq {A} i j (x : A) l : i <> j -> nth_error (set_nth i x l) j = nth_error l j.
Proof. unfold set_nth. apply nth_error_upd_nth_neq. Qed.
Lemma set_nth_length {A} i (x : A) l : length (set_nth i x l) = length l.
Proof. unfold set_nth. apply upd_nth_length. Qed.
Lemma nth_error_Some_lt {A} (l : list A) i x : nth_error l i = Some x -> i < length l.
Proof. intros H. apply nth_error_Some. congruence. Qed.
Lemma nth_error_app_l {A} (l r : list A) i x : nth_error l i = Some x -> nth_error (l ++ r) i = Some x.
Proof. intros H. rewrite nth_error_app1; [exact H|]. now apply nth_error_Some_lt in H. Qed.
Lemma nth_error_app_at {A} (l : list A) x : nth_error (l ++ [x]) (length l) = Some x.
Proof. rewrite nth_error_app2 by lia. now rewrite Nat.sub_diag. Qed.

(* ------------------------------------------------------------------ paths *)
Lemma get_path_app t p q :
  get_path t (p ++ q) = match get_path t p with Some n => get_path n q | None => None end.
Proof.
  revert t; induction p as [|i r IH]; intros t; cbn; [reflexivity|].
  destruct (nth_error (children t) i); [apply IH | reflexivity].
Qed.
Lemma get_path_upd_path t p f n :
  get_path t p = Some n -> get_path (upd_path t p f) p = Some (f n).
Proof.
  revert t; induction p as [|i r IH]; intros t H; cbn in *.
  - now inversion H.
  - destruct t as [k s|k cs]; cbn in H.
    + destruct i; discriminate.
    + cbn. destruct (nth_error cs i) as [c|] eqn:E; [|discriminate].
      rewrite (nth_error_upd_nth_eq _ _ _ _ E). now apply IH.
Qed.
Lemma upd_path_upd_path t p f g n :
  get_path t p = Some n -> upd_path (upd_path t p f) p g = upd_path t p (fun x => g (f x)).
Proof.
  revert t; induction p as [|i r IH]; intros t H; cbn in *; [reflexivity|].
  destruct t as [k s|k cs]; cbn in *; [reflexivity|].
  destruct (nth_error cs i) as [c|] eqn:E; [|discriminate].
  f_equal. rewrite upd_nth_upd_nth. eapply upd_nth_ext_at; [exact E|]. now apply IH.
Qed.
Lemma upd_path_ext t p f g n :
  get_path t p = Some n -> f n = g n -> upd_path t p f = upd_path t p g.
Proof.
  revert t; induction p as [|i r IH]; intros t H E; cbn in *.
  - now inversion H; subst.
  - destruct t as [k s|k cs]; cbn in *; [reflexivity|].
    destruct (nth_error cs i) as [c|] eqn:Ec; [|discriminate].
    f_equal. eapply upd_nth_ext_at; [exact Ec|]. now apply IH.
Qed.
Lemma upd_path_id t p n : get_path t p = Some n -> upd_path t p (fun x => x) = t.
Proof.
  revert t; induction p as [|i r IH]; intros t H; cbn in *; [reflexivity|].
  destruct t as [k s|k cs]; cbn in *; [reflexivity|].
  destruct (nth_error cs i) as [c|] eqn:Ec; [|discriminate].
  f_equal. rewrite <- (upd_nth_id i cs) at 2. eapply upd_nth_ext_at; [exact Ec|]. now apply IH.
Qed.
Lemma upd_path_same t p n : get_path t p = Some n -> upd_path t p (fun _ => n) = t.
Proof. intros H. rewrite <- (upd_path_id t p n H) at 2. eapply upd_path_ext; [exact H|reflexivity]. Qed.
Lemma upd_path_app t p q f n :
  get_path t p = Some n -> upd_path t (p ++ q) f = upd_path t p (fun x => upd_path x q f).
Proof.
  revert t; induction p as [|i r IH]; intros t H; cbn in *; [reflexivity|].
  destruct t as [k s|k cs]; cbn in *; [destruct i; discriminate|].
  destruct (nth_error cs i) as [c|] eqn:E; [|discriminate].
  f_equal. eapply upd_nth_ext_at; [exact E|]. now apply IH.
Qed.
Lemma get_path_child T p kd cs i c :
  get_path T p = Some (Node kd cs) -> nth_error cs i = Some c -> get_path T (p ++ [i]) = Some c.
Proof. intros H E. rewrite get_path_app, H. cbn [get_path children]. now rewrite E. Qed.
Lemma get_path_snoc_inv T pp i N : get_path T (pp ++ [i]) = Some N ->
  exists kd pre post, get_path T pp = Some (Node kd (pre ++ N :: post)) /\ length pre = i.
Proof.
  rewrite get_path_app. destruct (get_path T pp) as [[k s|kd cs]|] eqn:E; try discriminate.
  - cbn. destruct i; discriminate.
  - cbn [get_path children]. destruct (nth_error cs i) as [c|] eqn:Ec; [|discriminate].
    intros [= <-]. destruct (nth_error_split_eq _ _ _ Ec) as [Ecs L].
    exists kd, (firstn i cs), (skipn (S i) cs). now rewrite <- Ecs.
Qed.

(* ------------------------------------------------------------------ running monadic code *)
Definition runs {A} (m : M A) (st : state) (a : A) (st' : state) : Prop := m st = Ok (a, st').
Lemma runs_bind {A B} (m : M A) (f : A -> M B) st a st1 b st2 :
  runs m st a st1 -> runs (f a) st1 b st2 -> runs (mbind m f) st b st2.
Proof. unfold runs, mbind. intros -> H. exact H. Qed.
Lemma runs_ret {A} (a : A) st : runs (ret a) st a st.
Proof. reflexivity. Qed.
Lemma runs_eq {A} (m : M A) st a st' a' st'' : runs m st a st' -> a = a' -> st' = st'' -> runs m st a' st''.
Proof. intros H -> ->. exact H. Qed.
Ltac rbind := eapply runs_bind.
Ltac rdone := apply runs_ret.

Lemma runs_reg_opt ts rs r :
  runs (reg_opt r) (mk_state ts rs) (match nth_error rs r with Some o => o | None => None end) (mk_state ts rs).
Proof. reflexivity. Qed.
Lemma runs_get_reg ts rs r h : nth_error rs r = Some (Some h) ->
  runs (get_reg r) (mk_state ts rs) h (mk_state ts rs).
Proof. intros H. unfold runs, get_reg, mbind, reg_opt. cbn [regs]. rewrite H. reflexivity. Qed.
Lemma runs_set_reg ts rs r o :
  runs (set_reg r o) (mk_state ts rs) tt (mk_state ts (set_reg_l r o rs)).
Proof. reflexivity. Qed.
Lemma runs_push_tmp ts rs h :
  runs (push_tmp h) (mk_state ts rs) (length rs) (mk_state ts (rs ++ [Some h])).
Proof. reflexivity. Qed.
Lemma runs_scoped {A} (m : M A) ts rs a ts' rs' :
  runs m (mk_state ts rs) a (mk_state ts' rs') ->
  runs (scoped m) (mk_state ts rs) a (mk_state ts' (firstn (length rs) rs')).
Proof. unfold runs, scoped. intros ->. reflexivity. Qed.
Lemma runs_get_slot ts rs tid sl : nth_error ts tid = Some sl ->
  runs (get_slot tid) (mk_state ts rs) sl (mk_state ts rs).
Proof. intros H. unfold runs, get_slot. cbn [trees]. now rewrite H. Qed.
Lemma runs_node_of ts rs tid p sl n : nth_error ts tid = Some sl -> get_path (s_tree sl) p = Some n ->
  runs (node_of (mk_hnd tid p)) (mk_state ts rs) n (mk_state ts rs).
Proof.
  intros H G. unfold node_of. cbn [h_path h_tid]. rbind; [eapply runs_get_slot; exact H|]. cbn beta. rewrite G. rdone.
Qed.
Lemma runs_children_of ts rs tid p sl n : nth_error ts tid = Some sl -> get_path (s_tree sl) p = Some n ->
  runs (children_of (mk_hnd tid p)) (mk_state ts rs) (children n) (mk_state ts rs).
Proof. intros H G. unfold children_of. rbind; [eapply runs_node_of; eauto|]. rdone. Qed.
Lemma runs_alloc ts rs t :
  runs (alloc t) (mk_state ts rs) (mk_hnd (length ts) []) (mk_state (ts ++ [mk_slot 0 t]) rs).
Proof. reflexivity. Qed.
Lemma runs_push_tmps hs : forall ts rs,
  runs (push_tmps hs) (mk_state ts rs) (seq (length rs) (length hs)) (mk_state ts (rs ++ map Some hs)).
Proof.
  induction hs as [|h r IH]; intros ts rs; cbn [push_tmps length seq map].
  - rewrite app_nil_r. rdone.
  - rbind; [apply runs_push_tmp|]. rbind; [apply IH|]. rewrite app_length. cbn [length]. rewrite Nat.add_1_r.
    eapply runs_eq; [rdone|reflexivity|]. now rewrite <- app_assoc.
Qed.

(* ------------------------------------------------------------------ handles *)
Lemma parent_h_app tid p i : parent_h (mk_hnd tid (p ++ [i])) = Some (mk_hnd tid p, i).
Proof. unfold parent_h. cbn [h_path h_tid]. now rewrite split_last_app. Qed.

(* a handle that is not strictly below (tid, pp): in another tree, or not under pp, or pp itself *)
Definition outside (tid : nat) (pp : list nat) (g : hnd) : Prop :=
  h_tid g <> tid \/ forall j rest, strip_prefix pp (h_path g) <> Some (j :: rest).

Lemma strip_prefix_app_inv pp q : forall path x, strip_prefix (pp ++ q) path = Some x -> strip_prefix pp path = Some (q ++ x).
Proof.
  induction pp as [|a pp IH]; intros path x H; cbn [app strip_prefix] in *.
  - revert path H. induction q as [|b q IHq]; intros path H; cbn [strip_prefix app] in *; [congruence|].
    destruct path as [|c path]; [discriminate|]. destruct (b =? c) eqn:E; [|discriminate]. apply Nat.eqb_eq in E. subst c.
    f_equal. f_equal. specialize (IHq _ H). congruence.
  - destruct path as [|c path]; [discriminate|]. destruct (a =? c); [|discriminate]. now apply IH.
Qed.
Lemma outside_deeper tid pp q g : outside tid pp g -> outside tid (pp ++ q) g.
Proof.
  intros [H|H]; [now left|]. right. intros j rest E. apply strip_prefix_app_inv in E.
  destruct q as [|b q]; cbn [app] in E; eapply H; exact E.
Qed.
Lemma outside_other tid pp g : h_tid g <> tid -> outside tid pp g.
Proof. now left. Qed.
Lemma outside_self tid pp : outside tid pp (mk_hnd tid pp).
Proof. right. intros j rest. cbn [h_path]. rewrite <- (app_nil_r pp) at 2. rewrite strip_prefix_app. discriminate. Qed.
Lemma outside_root tid pp t' : outside tid pp (mk_hnd t' []).
Proof. right. intros j rest. cbn [h_path]. destruct pp; cbn; discriminate. Qed.
Lemma strip_prefix_neq a b p q : a <> b -> strip_prefix (a :: p) (b :: q) = None.
Proof. intros H. cbn. apply Nat.eqb_neq in H. now rewrite H. Qed.
Lemma outside_sibling tid a b p q : a <> b -> outside tid (a :: p) (mk_hnd tid (b :: q)).
Proof. intros H. right. intros j rest. cbn [h_path]. rewrite strip_prefix_neq by exact H. discriminate. Qed.

Lemma rebase_detach_outside tid p i new g : outside tid p g -> rebase_detach tid p i new g = g.
Proof.
  intros [H|H]; unfold rebase_detach.
  - apply Nat.eqb_neq in H. now rewrite H.
  - destruct (h_tid g =? tid); [|reflexivity]. destruct (strip_prefix p (h_path g)) as [[|j rest]|] eqn:E; try reflexivity.
    exfalso. exact (H _ _ eq_refl).
Qed.
Lemma rebase_attach_outside ptid pp idx ctid g : h_tid g <> ctid -> outside ptid pp g ->
  rebase_attach ptid pp idx ctid g = g.
Proof.
  intros Hc H. unfold rebase_attach. apply Nat.eqb_neq in Hc. rewrite Hc. destruct H as [H|H].
  - apply Nat.eqb_neq in H. now rewrite H.
  - destruct (h_tid g =? ptid); [|reflexivity]. destruct (strip_prefix pp (h_path g)) as [[|j rest]|] eqn:E; try reflexivity.
    exfalso. exact (H _ _ eq_refl).
Qed.
Lemma rebase_detach_before tid p i new j rest : j < i ->
  rebase_detach tid p i new (mk_hnd tid (p ++ j :: rest)) = mk_hnd tid (p ++ j :: rest).
Proof.
  intros H. unfold rebase_detach. cbn [h_tid h_path]. rewrite Nat.eqb_refl, strip_prefix_app.
  assert (j =? i = false) as -> by (apply Nat.eqb_neq; lia).
  assert (i <? j = false) as -> by (apply Nat.ltb_ge; lia). reflexivity.
Qed.
Lemma rebase_detach_after tid p i new j rest : i < j ->
  rebase_detach tid p i new (mk_hnd tid (p ++ j :: rest)) = mk_hnd tid (p ++ (j - 1) :: rest).
Proof.
  intros H. unfold rebase_detach. cbn [h_tid h_path]. rewrite Nat.eqb_refl, strip_prefix_app.
  assert (j =? i = false) as -> by (apply Nat.eqb_neq; lia).
  assert (i <? j = true) as -> by (apply Nat.ltb_lt; lia). reflexivity.
Qed.
Lemma rebase_detach_at tid p i new rest :
  rebase_detach tid p i new (mk_hnd tid (p ++ i :: rest)) = mk_hnd new rest.
Proof.
  unfold rebase_detach. cbn [h_tid h_path]. rewrite Nat.eqb_refl, strip_prefix_app.
  now rewrite Nat.eqb_refl.
Qed.
Lemma rebase_attach_after ptid pp idx ctid j rest : ptid <> ctid -> idx <= j ->
  rebase_attach ptid pp idx ctid (mk_hnd ptid (pp ++ j :: rest)) = mk_hnd ptid (pp ++ S j :: rest).
Proof.
  intros Hne H. unfold rebase_attach. cbn [h_tid h_path]. apply Nat.eqb_neq in Hne. rewrite Hne.
  rewrite Nat.eqb_refl, strip_prefix_app.
  assert (idx <=? j = true) as -> by (apply Nat.leb_le; lia). reflexivity.
Qed.
Lemma rebase_attach_before ptid pp idx ctid j rest : ptid <> ctid -> j < idx ->
  rebase_attach ptid pp idx ctid (mk_hnd ptid (pp ++ j :: rest)) = mk_hnd ptid (pp ++ j :: rest).
Proof.
  intros Hne H. unfold rebase_attach. cbn [h_tid h_path]. apply Nat.eqb_neq in Hne. rewrite Hne.
  rewrite Nat.eqb_refl, strip_prefix_app.
  assert (idx <=? j = false) as -> by (apply Nat.leb_gt; lia). reflexivity.
Qed.
Lemma rebase_attach_child ptid pp idx ctid rest :
  rebase_attach ptid pp idx ctid (mk_hnd ctid rest) = mk_hnd ptid (pp ++ idx :: rest).
Proof. unfold rebase_attach. cbn [h_tid h_path]. now rewrite Nat.eqb_refl. Qed.

Lemma map_option_map_id {A} (l : list (option A)) : map (option_map (fun g => g)) l = l.
Proof. induction l as [|[x|] r IH]; cbn; now rewrite ?IH. Qed.
Lemma map_option_map_comp {A} (f g : A -> A) (l : list (option A)) :
  map (option_map g) (map (option_map f) l) = map (option_map (fun x => g (f x))) l.
Proof. induction l as [|[x|] r IH]; cbn; now rewrite ?IH. Qed.
Lemma nth_error_map_reg (F : hnd -> hnd) rs r h :
  nth_error rs r = Some (Some h) -> nth_error (map (option_map F) rs) r = Some (Some (F h)).
Proof. intros H. rewrite nth_error_map, H. reflexivity. Qed.

(* ------------------------------------------------------------------ detach, attach *)
Lemma detach_h_spec ts rs tid ri T p i n :
  nth_error ts tid = Some (mk_slot ri T) -> get_path T (p ++ [i]) = Some n ->
  exists ts',
    runs (detach_h (mk_hnd tid (p ++ [i]))) (mk_state ts rs) (mk_hnd (length ts) [])
         (mk_state ts' (map (option_map (rebase_detach tid p i (length ts))) rs)) /\
    length ts' = S (length ts) /\
    nth_error ts' tid = Some (mk_slot ri (upd_path T p (fun q => set_children (delete_at i (children q)) q))) /\
    nth_error ts' (length ts) = Some (mk_slot i n) /\
    (forall k, k <> tid -> k < length ts -> nth_error ts' k = nth_error ts k).
Proof.
  intros HT HG. pose proof (nth_error_Some_lt _ _ _ HT) as Hlt.
  eexists. split; [|split; [|split; [|split]]].
  - unfold detach_h. cbn [h_tid]. rbind; [eapply runs_get_slot; exact HT|].
    rewrite parent_h_app. rbind; [eapply runs_node_of; [exact HT|exact HG]|].
    cbn [s_tree s_ridx h_tid h_path]. unfold runs. cbn [trees regs]. reflexivity.
  - rewrite app_length, set_nth_length. cbn. lia.
  - apply nth_error_app_l. now apply nth_error_set_nth_eq.
  - rewrite <- (set_nth_length tid (mk_slot ri (upd_path T p (fun q => set_children (delete_at i (children q)) q))) ts) at 1.
    apply nth_error_app_at.
  - intros k Hk Hl. rewrite nth_error_app1 by (rewrite set_nth_length; exact Hl).
    apply nth_error_set_nth_neq. congruence.
Qed.
Lemma detach_h_root ts rs tid sl :
  nth_error ts tid = Some sl ->
  runs (detach_h (mk_hnd tid [])) (mk_state ts rs) (mk_hnd tid []) (mk_state ts rs).
Proof.
  intros HT. unfold detach_h. cbn [h_tid]. rbind; [eapply runs_get_slot; exact HT|].
  unfold parent_h. cbn [h_path split_last]. rdone.
Qed.
Lemma attach_h_spec ts rs tidp rip Tp pp k cs idx tidc ric C :
  nth_error ts tidp = Some (mk_slot rip Tp) -> get_path Tp pp = Some (Node k cs) ->
  nth_error ts tidc = Some (mk_slot ric C) -> tidp <> tidc -> idx <= length cs ->
  exists ts',
    runs (attach_h (mk_hnd tidp pp) idx (mk_hnd tidc [])) (mk_state ts rs) tt
         (mk_state ts' (map (option_map (rebase_attach tidp pp idx tidc)) rs)) /\
    length ts' = length ts /\
    nth_error ts' tidp = Some (mk_slot rip (upd_path Tp pp (fun _ => Node k (insert_at idx [C] cs)))) /\
    (forall j, j <> tidp -> j <> tidc -> nth_error ts' j = nth_error ts j).
Proof.
  intros HP HG HC Hne Hidx.
  pose proof (nth_error_Some_lt _ _ _ HP) as Hlp. pose proof (nth_error_Some_lt _ _ _ HC) as Hlc.
  eexists. split; [|split; [|split]].
  - unfold attach_h. cbn [h_tid h_path]. rbind; [eapply runs_get_slot; exact HP|].
    rbind; [eapply runs_get_slot; exact HC|].
    assert (tidp =? tidc = false) as -> by now apply Nat.eqb_neq.
    rbind; [eapply runs_node_of; [exact HP|exact HG]|]. cbn [is_node negb children].
    assert (length cs <? idx = false) as -> by (apply Nat.ltb_ge; lia).
    unfold runs. cbn [trees regs s_tree s_ridx]. reflexivity.
  - now rewrite !set_nth_length.
  - rewrite nth_error_set_nth_neq by congruence. rewrite nth_error_set_nth_eq by exact Hlp. f_equal. f_equal.
    eapply upd_path_ext; [exact HG|]. reflexivity.
  - intros j H1 H2. rewrite !nth_error_set_nth_neq by congruence. reflexivity.
Qed.

(* the general effect of one mutation at (tid, pp): a function on handles that fixes everything
   outside (tid, pp) among the handles that existed before *)
Definition fixes_outside (F : hnd -> hnd) (n : nat) (tid : nat) (pp : list nat) : Prop :=
  forall g, h_tid g < n -> outside tid pp g -> F g = g.

(* SyntaxNode::attach_child with a child that is the root of its own tree *)
Lemma attach_root_spec ts rs pr cr tid ri T p kd cs idx tc rc C :
  nth_error rs pr = Some (Some (mk_hnd tid p)) -> nth_error rs cr = Some (Some (mk_hnd tc [])) ->
  nth_error ts tid = Some (mk_slot ri T) -> get_path T p = Some (Node kd cs) ->
  nth_error ts tc = Some (mk_slot rc C) -> tid <> tc -> idx <= length cs ->
  exists ts',
    runs (m_attach_child pr idx cr) (mk_state ts rs) tt
         (mk_state ts' (map (option_map (rebase_attach tid p idx tc)) rs)) /\
    length ts' = length ts /\
    nth_error ts' tid = Some (mk_slot ri (upd_path T p (fun _ => Node kd (insert_at idx [C] cs)))) /\
    (forall j, j <> tid -> j <> tc -> nth_error ts' j = nth_error ts j).
Proof.
  intros Hp Hc HT HG HC Hne Hidx.
  destruct (attach_h_spec ts rs tid ri T p kd cs idx tc rc C HT HG HC Hne Hidx) as (ts' & R & L & T' & O).
  exists ts'. repeat split; auto.
  unfold m_attach_child. rbind; [apply runs_get_reg; exact Hc|].
  rbind; [eapply detach_h_root; exact HC|].
  rbind; [apply runs_get_reg; exact Hp|]. rbind; [apply runs_get_reg; exact Hc|]. exact R.
Qed.

(* ... and with a child that sits inside another tree (it is detached from there first) *)
Lemma attach_sub_spec ts rs pr cr tid ri T p kd cs idx tc rc Tc pc ic C :
  nth_error rs pr = Some (Some (mk_hnd tid p)) -> nth_error rs cr = Some (Some (mk_hnd tc (pc ++ [ic]))) ->
  nth_error ts tid = Some (mk_slot ri T) -> get_path T p = Some (Node kd cs) ->
  nth_error ts tc = Some (mk_slot rc Tc) -> get_path Tc (pc ++ [ic]) = Some C -> tid <> tc -> idx <= length cs ->
  exists ts' F,
    runs (m_attach_child pr idx cr) (mk_state ts rs) tt (mk_state ts' (map (option_map F) rs)) /\
    length ts' = S (length ts) /\
    nth_error ts' tid = Some (mk_slot ri (upd_path T p (fun _ => Node kd (insert_at idx [C] cs)))) /\
    (forall j, j <> tid -> j <> tc -> j < length ts -> nth_error ts' j = nth_error ts j) /\
    (forall g, h_tid g < length ts -> h_tid g <> tc -> F g = rebase_attach tid p idx (length ts) g).
Proof.
  intros Hp Hc HT HG HC HGc Hne Hidx.
  pose proof (nth_error_Some_lt _ _ _ HT) as Hlt. pose proof (nth_error_Some_lt _ _ _ HC) as Hlc.
  destruct (detach_h_spec ts rs tc rc Tc pc ic C HC HGc) as (ts1 & R1 & L1 & T1 & N1 & O1).
  set (F1 := rebase_detach tc pc ic (length ts)) in *.
  assert (HT1 : nth_error ts1 tid = Some (mk_slot ri T)) by (rewrite O1 by (auto; lia); exact HT).
  destruct (attach_h_spec ts1 (map (option_map F1) rs) tid ri T p kd cs idx (length ts) ic C HT1 HG N1 ltac:(lia) Hidx)
    as (ts2 & R2 & L2 & T2 & O2).
  set (F2 := rebase_attach tid p idx (length ts)) in *.
  exists ts2, (fun g => F2 (F1 g)). rewrite <- map_option_map_comp. split; [|split; [|split; [|split]]].
  - unfold m_attach_child. rbind; [apply runs_get_reg; exact Hc|].
    rbind; [exact R1|].
    rbind; [apply runs_get_reg; apply (nth_error_map_reg F1 _ _ _ Hp)|].
    unfold F1 at 1. rewrite rebase_detach_outside by (apply outside_other; cbn; congruence).
    rbind; [apply runs_get_reg; apply (nth_error_map_reg F1 _ _ _ Hc)|].
    unfold F1 at 1. replace (pc ++ [ic]) with (pc ++ ic :: []) by reflexivity. rewrite rebase_detach_at. exact R2.
  - lia.
  - exact T2.
  - intros j H1 H2 H3. rewrite O2 by lia. apply O1; [congruence|lia].
  - intros g Hg Ht. unfold F1. now rewrite rebase_detach_outside by (apply outside_other; exact Ht).
Qed.
