(* Lemmas about keyword-table enumerations (C18): everything follows from the decidable
   side condition [enum_ok], which is closed by vm_compute for the generated tables. *)
From V.model Require Import Base CodecStr EnumTab.
From V.proofs Require Import BaseP CodecStrP.

Local Open Scope N_scope.

Lemma assoc_s_some (k : str) (l : list (str * N)) (v : N) :
  assoc_s k l = Some v -> In (k, v) l.
Proof.
  induction l as [|[k' v'] r IH]; intros H; cbn [assoc_s] in H; [discriminate|].
  destruct (str_eqb k k') eqn:E.
  - apply str_eqb_eq in E. subst k'. inversion H; subst. left. reflexivity.
  - right. apply IH. exact H.
Qed.

Lemma enum_values_in (t : enum_tab) (v : N) : v < enum_size t <-> In v (enum_values t).
Proof.
  unfold enum_size, enum_values. rewrite in_map_iff. split.
  - intros H. exists (N.to_nat v). split; [apply N2Nat.id|]. apply in_seq. lia.
  - intros [n [<- Hn]]. apply in_seq in Hn. lia.
Qed.

Record enum_facts (t : enum_tab) : Prop := {
  ef_pre : et_pre t <> PreUnrecognised;
  ef_default : et_default t = DefErr;
  ef_rt : forall v, v < enum_size t ->
          exists k, enum_print t v = Ok k /\ enum_parse t k = Ok v;
  ef_lit : forall lit v, assoc_s lit (et_fromstr t) = Some v ->
           v < enum_size t /\ enum_print t v = Ok lit
}.

Lemma enum_ok_facts (t : enum_tab) : enum_ok t = true -> enum_facts t.
Proof.
  unfold enum_ok. intros H.
  repeat (apply andb_prop in H; let H' := fresh "H" in destruct H as [H H']).
  constructor.
  - intros E. rewrite E in H4. discriminate.
  - destruct (et_default t); [reflexivity|discriminate|discriminate].
  - intros v Hv. apply enum_values_in in Hv.
    rewrite forallb_forall in H2. specialize (H2 v Hv).
    destruct (enum_print t v) as [k| | |]; try discriminate. exists k. split; [reflexivity|].
    destruct (enum_parse t k) as [v'| | |]; try discriminate. apply N.eqb_eq in H2. subst v'. reflexivity.
  - intros lit v Hl. pose proof (assoc_s_some _ _ _ Hl) as Hin.
    rewrite forallb_forall in H1. specialize (H1 (lit, v) Hin). cbn [fst] in H1. rewrite Hl in H1.
    apply andb_prop in H1. destruct H1 as [Hlt Hp]. apply N.ltb_lt in Hlt. split; [exact Hlt|].
    unfold res_str_is in Hp. destruct (enum_print t v) as [k| | |]; try discriminate.
    apply str_eqb_eq in Hp. subst k. reflexivity.
Qed.

(* the reader's normalisation never fails for a recognised table *)
Lemma enum_pre_total (t : enum_tab) (s : str) :
  enum_ok t = true -> exists s', enum_pre t s = Ok s'.
Proof.
  intros H. destruct (enum_ok_facts t H) as [Hp _ _ _]. unfold enum_pre.
  destruct (et_pre t); [eexists; reflexivity|eexists; reflexivity|contradiction].
Qed.

(* T::from_str(&v.to_string()) == Ok(v), every value *)
Theorem enum_roundtrip (t : enum_tab) : enum_ok t = true ->
  forall v, v < enum_size t -> exists k, enum_print t v = Ok k /\ enum_parse t k = Ok v.
Proof. intros H. apply (ef_rt t (enum_ok_facts t H)). Qed.

(* every accepted text is, after the reader's own normalisation, the printed form of the value read *)
Theorem enum_canonical (t : enum_tab) : enum_ok t = true ->
  forall s v, enum_parse t s = Ok v ->
  exists s', enum_pre t s = Ok s' /\ enum_print t v = Ok s' /\ v < enum_size t.
Proof.
  intros H s v Hp. destruct (enum_ok_facts t H) as [Hpre Hdef _ Hlit].
  destruct (enum_pre_total t s H) as [s' Hs']. exists s'. split; [exact Hs'|].
  unfold enum_parse in Hp. rewrite Hs' in Hp. cbn [bind] in Hp.
  destruct (assoc_s s' (et_fromstr t)) as [v'|] eqn:A.
  - inversion Hp; subst v'. destruct (Hlit s' v A) as [Hlt Hpr]. split; [exact Hpr|exact Hlt].
  - rewrite Hdef in Hp. discriminate.
Qed.

(* the reader answers Ok or the ordinary error, never anything else *)
Theorem enum_parse_total (t : enum_tab) : enum_ok t = true ->
  forall s, (exists v, enum_parse t s = Ok v) \/ enum_parse t s = Err 1.
Proof.
  intros H s. destruct (enum_ok_facts t H) as [Hpre Hdef _ _].
  destruct (enum_pre_total t s H) as [s' Hs']. unfold enum_parse. rewrite Hs'. cbn [bind].
  destruct (assoc_s s' (et_fromstr t)) as [v|]; [left; eexists; reflexivity|].
  right. rewrite Hdef. reflexivity.
Qed.

(* keywords outside the defined set are rejected with an error, not mapped to a default *)
Theorem enum_reject (t : enum_tab) : enum_ok t = true ->
  forall s s', enum_pre t s = Ok s' ->
  (forall v, v < enum_size t -> enum_print t v <> Ok s') -> enum_parse t s = Err 1.
Proof.
  intros H s s' Hs' Hno. destruct (enum_parse_total t H s) as [[v Hv]|He]; [|exact He].
  destruct (enum_canonical t H s v Hv) as [s'' [Hp [Hpr Hlt]]].
  rewrite Hs' in Hp. inversion Hp; subst s''. exfalso. exact (Hno v Hlt Hpr).
Qed.

(* with no normalisation the accepted texts are exactly the printed forms *)
Corollary enum_parse_iff (t : enum_tab) : enum_ok t = true -> et_pre t = PreNone ->
  forall s v, enum_parse t s = Ok v <-> (v < enum_size t /\ enum_print t v = Ok s).
Proof.
  intros H Hn s v. split.
  - intros Hp. destruct (enum_canonical t H s v Hp) as [s' [Hs' [Hpr Hlt]]].
    unfold enum_pre in Hs'. rewrite Hn in Hs'. inversion Hs'; subst s'. split; assumption.
  - intros [Hlt Hpr]. destruct (enum_roundtrip t H v Hlt) as [k [Hk Hp]].
    rewrite Hpr in Hk. inversion Hk; subst k. exact Hp.
Qed.

(* distinct values have distinct texts *)
Corollary enum_print_inj (t : enum_tab) : enum_ok t = true ->
  forall v w k, v < enum_size t -> w < enum_size t ->
  enum_print t v = Ok k -> enum_print t w = Ok k -> v = w.
Proof.
  intros H v w k Hv Hw Pv Pw.
  destruct (enum_roundtrip t H v Hv) as [k1 [E1 R1]]. destruct (enum_roundtrip t H w Hw) as [k2 [E2 R2]].
  rewrite Pv in E1. rewrite Pw in E2. inversion E1; inversion E2; subst. rewrite R1 in R2. inversion R2. reflexivity.
Qed.

(* ---- parse_origin's own keyword arms *)
Record origin_facts (cat : enum_tab) (o : origin_tab) : Prop := {
  of_sep : ot_sep_parse o = ot_sep_print o;
  of_sep_ne : ot_sep_parse o <> [];
  of_kw : forall v, v < enum_size cat -> exists k, enum_print cat v = Ok k /\
            assoc_s k (ot_arms o) = Some v /\
            find_sub (ot_sep_parse o) (k ++ ot_sep_parse o) = Some (k, ot_sep_parse o);
  of_arm : forall lit v, assoc_s lit (ot_arms o) = Some v -> v < enum_size cat /\ enum_print cat v = Ok lit
}.

Lemma origin_ok_facts (cat : enum_tab) (o : origin_tab) : origin_ok cat o = true -> origin_facts cat o.
Proof.
  unfold origin_ok. intros H.
  repeat (apply andb_prop in H; let H' := fresh "H" in destruct H as [H H']).
  constructor.
  - apply str_eqb_eq. exact H3.
  - destruct (ot_sep_parse o); [discriminate H2|discriminate].
  - intros v Hv. apply enum_values_in in Hv. rewrite forallb_forall in H1. specialize (H1 v Hv).
    destruct (enum_print cat v) as [k| | |]; try discriminate. exists k. split; [reflexivity|].
    apply andb_prop in H1. destruct H1 as [Ha Hf].
    destruct (assoc_s k (ot_arms o)) as [v'|]; [|discriminate]. apply N.eqb_eq in Ha. subst v'.
    split; [reflexivity|].
    destruct (find_sub (ot_sep_parse o) (k ++ ot_sep_parse o)) as [[a b]|] eqn:F; [|discriminate].
    apply str_eqb_eq in Hf. subst a.
    destruct (find_sub_some _ _ _ _ F) as [E _]. apply app_inv_head in E. subst b. reflexivity.
  - intros lit v Hl. pose proof (assoc_s_some _ _ _ Hl) as Hin.
    rewrite forallb_forall in H0. specialize (H0 (lit, v) Hin). cbn [fst] in H0. rewrite Hl in H0.
    apply andb_prop in H0. destruct H0 as [Hlt Hp]. apply N.ltb_lt in Hlt. split; [exact Hlt|].
    unfold res_str_is in Hp. destruct (enum_print cat v) as [k| | |]; try discriminate.
    apply str_eqb_eq in Hp. subst k. reflexivity.
Qed.
