(* Lemmas about RelEdit.v (C11): the four places where the API unwraps a position — Relations::replace,
   Relations::remove_entry, Entry::replace, Entry::remove_relation — PANIC when the position does
   not exist, in the model as in the code (`get_entry(idx).unwrap()`, `get_relation(idx).unwrap()`):
   a documented behaviour of the code, outside the list model (RelEditSpec.aop_in_range), not a gap of
   the model.  On any tree, then on the live layouts. *)
From V.model Require Import Base RelLex RelParse RelAcc RelGrammar RelGrammarAll.
From V.model Require Import RelEdit RelEditSpec RelEditTree RelLiveAll.
From V.proofs Require Import BaseP RelEditP RelEditStP RelEditHistP RelEditTreeP RelEditReplaceP RelEditBuildP.
From V.model Require Import RelHandlesAll.
From V.proofs Require Import RelLiveAllP RelLiveAllStepP RelLiveAllWfP RelHandlesAllP.

(* ------------------------------------------------------------------ a calculus for panics *)
Definition panics {A} (m : M A) (st : state) (n : N) : Prop := m st = Panic n.
Lemma panics_bind_r {A B} (m : M A) (f : A -> M B) st a st1 n :
  runs m st a st1 -> panics (f a) st1 n -> panics (mbind m f) st n.
Proof. unfold runs, panics, mbind. intros -> H. exact H. Qed.
Lemma panics_bind_l {A B} (m : M A) (f : A -> M B) st n : panics m st n -> panics (mbind m f) st n.
Proof. unfold panics, mbind. intros ->. reflexivity. Qed.
Lemma panics_scoped {A} (m : M A) st n : panics m st n -> panics (scoped m) st n.
Proof. unfold panics, scoped. intros ->. reflexivity. Qed.
Lemma panics_with_reg r (m : M (N * option str)) ts rs h n :
  nth_error rs r = Some (Some h) -> panics m (mk_state ts rs) n -> panics (with_reg r m) (mk_state ts rs) n.
Proof. intros H P. unfold with_reg. eapply panics_bind_r; [apply runs_has_reg|]. now rewrite H. Qed.
Lemma run_ops_panic v o rest st n : panics (run_op v o) st n -> run_ops v (o :: rest) st = Panic n.
Proof. unfold panics. intros H. cbn [run_ops]. now rewrite H. Qed.
Lemma run_ops_cons_panic v o rest st x st1 n :
  runs (run_op v o) st x st1 -> run_ops v rest st1 = Panic n -> run_ops v (o :: rest) st = Panic n.
Proof. unfold runs. intros H1 H2. cbn [run_ops]. now rewrite H1. Qed.

(* ------------------------------------------------------------------ on any tree *)
Theorem remove_entry_out_of_range T i st : holds st T -> entry_pos T i = None ->
  run_ops fixed (compile (ARemoveEntry i)) st = Panic 41%N.
Proof.
  intros (ts & tid & ri & a & b & c & d & -> & HT) Hp. cbn [compile]. apply run_ops_panic. cbn [run_op].
  apply panics_bind_l. unfold relations_remove_entry. apply panics_scoped.
  eapply panics_bind_r.
  { unfold nth_child_handle, st5. rbind; [apply runs_get_reg; reflexivity|].
    rbind; [eapply runs_children_of; [exact HT|reflexivity]|]. rdone. }
  cbn [s_tree]. unfold entry_pos in Hp. rewrite Hp. reflexivity.
Qed.
Theorem replace_out_of_range T i e st : holds st T -> entry_pos T i = None ->
  run_ops fixed (compile (AReplace i e)) st = Panic 40%N.
Proof.
  intros (ts & tid & ri & a & b & c & d & -> & HT) Hp. cbn [compile].
  destruct (new_entry_runs_b e ts tid ri T a b c d HT) as (ts' & te & a' & b' & d' & txt & R1 & HT' & HE & Hne).
  eapply run_ops_cons_panic; [exact R1|]. apply run_ops_panic. cbn [run_op]. change (ereg 1) with 3. unfold st5.
  eapply panics_with_reg; [reflexivity|]. apply panics_bind_l. unfold relations_replace.
  eapply panics_bind_r; [apply runs_get_reg; reflexivity|].
  eapply panics_bind_r; [eapply runs_children_of; [exact HT'|reflexivity]|].
  cbn [s_tree]. unfold entry_pos in Hp. rewrite Hp. reflexivity.
Qed.
Theorem ereplace_out_of_range T i j r ci E st : holds st T -> entry_pos T i = Some ci -> child_at T ci = Some E ->
  nth_index is_relation j (children E) = None ->
  run_ops fixed (compile (AEReplace i j r)) st = Panic 46%N.
Proof.
  intros (ts & tid & ri & a & b & c & d & -> & HT) Hp HE Hj. cbn [compile].
  destruct (new_rel_runs_b r ts tid ri T a b c d HT) as (ts' & a' & b' & c' & txt & R1 & HT' & HR & Hne).
  eapply run_ops_cons_panic; [exact R1|].
  eapply run_ops_cons_panic; [eapply get_entry_runs_gen; [exact HT'|exact Hp]|].
  apply run_ops_panic. cbn [run_op]. change (rreg 1) with 4. change (ereg 0) with 1. unfold st5.
  eapply panics_with_reg; [reflexivity|].
  eapply panics_bind_r; [apply runs_has_reg|]. cbn [nth_error].
  apply panics_bind_l. unfold entry_replace. cbn [fx_replace_ws fixed]. unfold entry_replace_fixed.
  apply panics_bind_l. apply panics_scoped.
  eapply panics_bind_r; [apply runs_get_reg; reflexivity|].
  eapply panics_bind_r; [eapply runs_children_of; [exact HT'|]|].
  { cbn [s_tree get_path]. unfold child_at in HE. rewrite HE. reflexivity. }
  rewrite Hj. reflexivity.
Qed.
Theorem remove_relation_out_of_range T i j ci E st : holds st T -> entry_pos T i = Some ci -> child_at T ci = Some E ->
  nth_index is_relation j (children E) = None ->
  run_ops fixed (compile (ARemoveRelation i j)) st = Panic 48%N.
Proof.
  intros (ts & tid & ri & a & b & c & d & -> & HT) Hp HE Hj. cbn [compile].
  eapply run_ops_cons_panic; [eapply get_entry_runs_gen; [exact HT|exact Hp]|].
  apply run_ops_panic. cbn [run_op]. change (ereg 0) with 1. unfold st5, through.
  eapply panics_with_reg; [reflexivity|].
  apply panics_bind_l. apply panics_bind_l. unfold entry_remove_relation. apply panics_scoped.
  eapply panics_bind_r.
  { unfold nth_child_handle. rbind; [apply runs_get_reg; reflexivity|].
    rbind; [eapply runs_children_of; [exact HT|]|].
    { cbn [s_tree get_path]. unfold child_at in HE. rewrite HE. reflexivity. }
    rdone. }
  rewrite Hj. reflexivity.
Qed.

(* ------------------------------------------------------------------ on the live layouts: against the list model *)
(* f = the content of the layout: an index that aop_in_range refuses makes the four operations panic *)
Theorem out_of_range_panics l st f sv : lcontent l = (f, sv) -> holds st (ltree l) ->
  (forall i, length f <= i -> run_ops fixed (compile (ARemoveEntry i)) st = Panic 41%N) /\
  (forall i e, length f <= i -> run_ops fixed (compile (AReplace i e)) st = Panic 40%N) /\
  (forall i j r, i < length f -> n_alts f i <= j -> run_ops fixed (compile (AEReplace i j r)) st = Panic 46%N) /\
  (forall i j, i < length f -> n_alts f i <= j -> run_ops fixed (compile (ARemoveRelation i j)) st = Panic 48%N).
Proof.
  intros Hc Hst.
  assert (Hlen : length f = length (lentries l)) by (rewrite (content_entries _ _ _ Hc); apply map_length).
  assert (Hnone : forall i, length f <= i -> entry_pos (ltree l) i = None).
  { intros i Hi. rewrite entry_pos_ltree. apply nth_index_re_ge. lia. }
  assert (Hsome : forall i j, i < length f -> n_alts f i <= j ->
            exists ci E, entry_pos (ltree l) i = Some ci /\ child_at (ltree l) ci = Some E /\ nth_index is_relation j (children E) = None).
  { intros i j Hi Hj. destruct (nth_entry_lt l i ltac:(lia)) as (ci & e & He).
    destruct (nth_entry_content _ _ _ _ _ _ Hc He) as (_ & Hna). rewrite Hna in Hj.
    destruct (nth_entry_inv _ _ _ _ He) as (pre & post & -> & <- & Hi').
    exists (length pre), (lentry_tree e). split; [rewrite entry_pos_ltree; exact Hi'|]. split; [apply child_at_ltree|].
    cbn [lentry_tree children]. now apply rel_slot_ge. }
  split; [intros i Hi; eapply remove_entry_out_of_range; eauto|].
  split; [intros i e Hi; eapply replace_out_of_range; eauto|].
  split.
  - intros i j r Hi Hj. destruct (Hsome i j Hi Hj) as (ci & E & H1 & H2 & H3). eapply ereplace_out_of_range; eauto.
  - intros i j Hi Hj. destruct (Hsome i j Hi Hj) as (ci & E & H1 & H2 & H3). eapply remove_relation_out_of_range; eauto.
Qed.
