(* Lemmas about RelEdit.v (C11), part 5: the text of a constructor-built field parses back,
   strictly, to the list model.  The bridge to C10's cone: a constructor-built field is the
   rendering of a well-formed abstract field (RelGrammar.rfield) with the canonical layout, so
   C10's reader theorem gives the tree the parser builds for it; the accessors of RelEdit.v are
   then evaluated on that tree. *)
From V.model Require Import Base RelLex RelParse RelAcc RelGrammar.
From V.proofs Require Import BaseP RelGrammarLexP RelGrammarParseP RelGrammarAccP.
From V.model Require Import RelEdit RelEditSpec RelEditTree.
From V.proofs Require Import RelEditP.

Definition vop_of (v : vcn) : RelAcc.vop :=
  match v with
  | RelEdit.VGe => RelAcc.VGe | RelEdit.VLe => RelAcc.VLe | RelEdit.VEq => RelAcc.VEq
  | RelEdit.VGt => RelAcc.VGt | RelEdit.VLt => RelAcc.VLt
  end.

(* the abstract field (with its layout) that a constructor-built list-model field renders *)
Definition rel_of (before_pipe : bool) (r : relrec) : RelGrammar.rel :=
  RelGrammar.mk_rel (rr_name r)
    (match rr_qual r with Some q => Some (mk_qual [] [] q) | None => None end)
    (match rr_ver r with
     | Some (vc, ver) => Some (mk_vclause [32%N] [] (vop_of vc) [32%N] None ver [] [])
     | None => None
     end)
    None [] (if before_pipe then [32%N] else []).
Fixpoint alts_of (rs : list relrec) : list (str * RelGrammar.rel) :=
  match rs with
  | [] => []
  | r :: rest => ([32%N], rel_of (has_more rest) r) :: alts_of rest
  end.
Definition item_of (e : list relrec) : item :=
  match e with
  | [] => IEmpty
  | r :: rs => IEntry (rel_of (has_more rs) r) (alts_of rs)
  end.
Definition rf_of (f : lfield) : rfield :=
  match f with
  | [] => mk_rfield [] IEmpty []
  | e :: es => mk_rfield [] (item_of e) (map (fun e' => ([32%N], item_of e')) es)
  end.

Lemma ident_text_ok s : ident_text s = true -> ident_ok s = true.
Proof. unfold ident_text, ident_ok, nonempty. destruct s; [discriminate|]. intros H. exact H. Qed.

Ltac napp := repeat (first [rewrite <- app_assoc | rewrite app_nil_r | progress cbn [app]]).

(* ---- the rendering is the canonical text ---- *)
Lemma vop_text_of vc : RelAcc.vop_text (vop_of vc) = vc_text vc.
Proof. destruct vc; reflexivity. Qed.

Lemma rel_text_of bp r : plain r = true ->
  rel_text (rel_of bp r) = render_rel r ++ (if bp then [32%N] else []).
Proof.
  intros Hp. unfold plain in Hp. destruct r as [n q v [ar|] [|g pr]]; cbn [rr_archs rr_profs] in Hp; try discriminate.
  unfold rel_text, rel_of, render_rel. cbn [rr_name rr_qual rr_ver r_name r_qual r_ver r_archs r_profs r_trail].
  destruct q as [q|]; destruct v as [[vc ver]|];
    cbn [opt_text qual_text q_ws0 q_ws1 q_name vclause_text vbody_text v_ws0 v_ws1 v_ws2 v_ws3 v_op v_epoch v_ver v_more vtext flat_map app];
    rewrite ?vop_text_of; napp; reflexivity.
Qed.

Lemma rels_text_of r rs : plain r = true -> forallb plain rs = true ->
  rels_text (rel_of (has_more rs) r) (alts_of rs) = join_with [32; 124; 32]%N (map render_rel (r :: rs)).
Proof.
  revert r; induction rs as [|r' rs IH]; intros r Hr Hrs.
  - cbn [alts_of rels_text has_more map join_with]. rewrite (rel_text_of false r Hr). now rewrite !app_nil_r.
  - cbn [forallb] in Hrs. apply andb_prop in Hrs. destruct Hrs as [Hr' Hrs].
    cbn [alts_of rels_text has_more]. rewrite (rel_text_of true r Hr). rewrite (IH r' Hr' Hrs).
    change (map render_rel (r :: r' :: rs)) with (render_rel r :: map render_rel (r' :: rs)).
    change (join_with [32; 124; 32]%N (render_rel r :: map render_rel (r' :: rs)))
      with (render_rel r ++ [32; 124; 32]%N ++ join_with [32; 124; 32]%N (map render_rel (r' :: rs))).
    rewrite <- !app_assoc. reflexivity.
Qed.

Lemma entry_ok_plain e : entry_ok e = true -> forallb plain e = true.
Proof.
  unfold entry_ok. intros H. apply andb_prop in H. destruct H as [_ H].
  induction e as [|r e IH]; [reflexivity|]. cbn [forallb] in *. apply andb_prop in H. destruct H as [H1 H2].
  rewrite IH by exact H2. unfold relrec_ok in H1. repeat (apply andb_prop in H1; destruct H1 as [H1 ?]). now rewrite H1.
Qed.

Lemma item_text_of e : entry_ok e = true -> item_text (item_of e) = render_entry e.
Proof.
  intros H. pose proof (entry_ok_plain e H) as Hp. destruct e as [|r rs]; [discriminate|].
  cbn [forallb] in Hp. apply andb_prop in Hp. destruct Hp as [Hr Hrs].
  cbn [item_of item_text]. unfold render_entry. now apply rels_text_of.
Qed.

Lemma rrender_rf_of f : lfield_ok f = true -> rrender (rf_of f) = render_field f.
Proof.
  unfold lfield_ok. destruct f as [|e es]; [reflexivity|]. cbn [forallb]. intros H.
  apply andb_prop in H. destruct H as [He Hes].
  unfold rrender, rf_of, render_field. cbn [f_lead f_first f_rest app].
  revert e He; induction es as [|e' es IH]; intros e He.
  - cbn [map items_text join_with]. rewrite (item_text_of e He). now rewrite app_nil_r.
  - cbn [forallb] in Hes. apply andb_prop in Hes. destruct Hes as [He' Hes].
    cbn [map items_text]. rewrite (item_text_of e He). rewrite (IH Hes e' He').
    change (map render_entry (e :: e' :: es)) with (render_entry e :: map render_entry (e' :: es)).
    change (join_with [44; 32]%N (render_entry e :: map render_entry (e' :: es)))
      with (render_entry e ++ [44; 32]%N ++ join_with [44; 32]%N (map render_entry (e' :: es))).
    reflexivity.
Qed.

(* ---- it is well-formed ---- *)
Lemma wf_rel_of bp r : relrec_ok r = true -> wf_rel (rel_of bp r) = true.
Proof.
  unfold relrec_ok. intros H. repeat (apply andb_prop in H; destruct H as [H ?]).
  unfold wf_rel, rel_of. cbn [r_name r_qual r_ver r_archs r_profs r_trail opt_ok forallb].
  rewrite (ident_text_ok _ H2). cbn [andb].
  destruct (rr_qual r) as [q|]; destruct (rr_ver r) as [[vc ver]|];
    unfold opt_ok, qual_ok, vclause_ok, ws_ok;
    cbn [q_ws0 q_ws1 q_name v_ws0 v_ws1 v_ws2 v_ws3 v_epoch v_ver v_more forallb is_fws andb opt_ok is_nil];
    rewrite ?(ident_text_ok _ H1), ?(ident_text_ok _ H0); destruct bp; reflexivity.
Qed.
Lemma wf_alts_of rs : forallb relrec_ok rs = true -> forallb wf_alt (alts_of rs) = true.
Proof.
  induction rs as [|r rs IH]; [reflexivity|]. cbn [forallb alts_of]. intros H.
  apply andb_prop in H. destruct H as [H1 H2]. rewrite (IH H2), andb_true_r.
  unfold wf_alt. cbn [fst snd]. now rewrite wf_rel_of.
Qed.
Lemma wf_item_of a e : entry_ok e = true -> wf_item a (item_of e) = true.
Proof.
  unfold entry_ok. intros H. apply andb_prop in H. destruct H as [_ H]. destruct e as [|r rs]; [reflexivity|].
  cbn [forallb] in H. apply andb_prop in H. destruct H as [H1 H2].
  cbn [item_of wf_item]. now rewrite wf_rel_of, wf_alts_of.
Qed.
Lemma wf_rf_of a f : lfield_ok f = true -> wf_rfield a (rf_of f) = true.
Proof.
  unfold lfield_ok. destruct f as [|e es]; [reflexivity|]. cbn [forallb]. intros H.
  apply andb_prop in H. destruct H as [He Hes].
  unfold wf_rfield, rf_of. cbn [f_lead f_first f_rest ws_ok forallb andb]. rewrite (wf_item_of a e He). cbn [andb].
  induction es as [|e' es IH]; [reflexivity|]. cbn [forallb map] in *.
  apply andb_prop in Hes. destruct Hes as [He' Hes]. rewrite (IH Hes), andb_true_r.
  unfold wf_more. cbn [fst snd ws_ok forallb is_fws andb]. now apply wf_item_of.
Qed.

(* ---- the accessors on the tree the parser builds for it ---- *)
Lemma filter_elems_tokens (p : rtree -> bool) ts : (forall k t, p (Tok k t) = false) -> filter p (elems ts) = [].
Proof.
  intros H. unfold elems. induction ts as [|[k t] r IH]; [reflexivity|]. cbn [map filter].
  unfold tk at 1. cbn [fst snd]. now rewrite H.
Qed.
Lemma is_relation_tok k t : is_relation (Tok k t) = false. Proof. reflexivity. Qed.
Lemma is_entry_tok k t : is_entry (Tok k t) = false. Proof. reflexivity. Qed.

Lemma relrec_ok_inv r : relrec_ok r = true ->
  exists n q v, r = mk_relrec n q v None [] /\ ver_ok v = true.
Proof.
  unfold relrec_ok. intros H. repeat (apply andb_prop in H; destruct H as [H ?]).
  unfold plain in H. destruct r as [n q v [ar|] [|g pr]]; cbn [rr_archs rr_profs rr_ver] in H; try discriminate.
  now exists n, q, v.
Qed.

Lemma relrec_of_rel_tree bp last r : relrec_ok r = true -> relrec_of (rel_tree (rel_of bp r) last) = Ok r.
Proof.
  intros H. destruct (relrec_ok_inv r H) as (n & q & v & -> & Hv).
  destruct v as [[vc [|c ver]]|]; [discriminate| |];
    destruct q as [q|]; destruct bp; destruct last; try destruct vc; cbn; rewrite ?app_nil_r; reflexivity.
Qed.

Lemma relations_rels_elems rs : forall r last, forallb relrec_ok (r :: rs) = true ->
  mapM relrec_of (filter is_relation (rels_elems (rel_of (has_more rs) r) (alts_of rs) last)) = Ok (r :: rs).
Proof.
  induction rs as [|r' rs IH]; intros r last H; cbn [forallb] in H; apply andb_prop in H; destruct H as [Hr Hrs].
  - cbn [alts_of rels_elems has_more]. cbn [filter].
    change (is_relation (rel_tree (rel_of false r) last)) with true. cbn iota.
    assert (filter is_relation (if last then ws_elems (rel_left (rel_of false r) last) else []) = []) as ->
      by (destruct last; [apply filter_elems_tokens, is_relation_tok|reflexivity]).
    cbn [mapM]. now rewrite relrec_of_rel_tree.
  - cbn [alts_of rels_elems has_more]. cbn [filter].
    change (is_relation (rel_tree (rel_of true r) false)) with true. cbn iota.
    rewrite filter_app. unfold ws_elems at 1. rewrite filter_elems_tokens by apply is_relation_tok.
    cbn [app filter]. change (is_relation (Tok PIPE [124%N])) with false. cbn iota.
    rewrite filter_app. unfold ws_elems at 1. rewrite filter_elems_tokens by apply is_relation_tok.
    cbn [app mapM]. rewrite relrec_of_rel_tree by exact Hr. now rewrite (IH r' last Hrs).
Qed.

Lemma entry_ok_inv e : entry_ok e = true -> exists r rs, e = r :: rs /\ forallb relrec_ok (r :: rs) = true.
Proof.
  unfold entry_ok. destruct e as [|r rs]; [discriminate|]. cbn [has_more andb]. intros H. now exists r, rs.
Qed.

Lemma entries_items_elems es : forall e, forallb entry_ok (e :: es) = true ->
  mapM (fun en => mapM relrec_of (relations en))
       (filter is_entry (items_elems (item_of e) (map (fun e' => ([32%N], item_of e')) es))) = Ok (e :: es).
Proof.
  induction es as [|e' es IH]; intros e H; cbn [forallb] in H; apply andb_prop in H; destruct H as [He Hes];
    destruct (entry_ok_inv e He) as (r & rs & -> & Hrs).
  - cbn [map items_elems item_of item_elems is_nil app]. rewrite app_nil_r. cbn [filter].
    change (is_entry (Node ENTRY (rels_elems (rel_of (has_more rs) r) (alts_of rs) true))) with true. cbn iota.
    unfold ws_elems. rewrite filter_elems_tokens by apply is_entry_tok. cbn [mapM].
    unfold relations. cbn [children]. now rewrite relations_rels_elems.
  - cbn [map items_elems item_of item_elems is_nil]. cbn [app filter].
    change (is_entry (Node ENTRY (rels_elems (rel_of (has_more rs) r) (alts_of rs) false))) with true. cbn iota.
    rewrite filter_app. unfold ws_elems at 1. rewrite filter_elems_tokens by apply is_entry_tok.
    cbn [app filter]. change (is_entry (Tok COMMA [44%N])) with false. cbn iota.
    rewrite filter_app. unfold ws_elems at 1. rewrite filter_elems_tokens by apply is_entry_tok.
    cbn [app mapM]. unfold relations at 1. cbn [children]. rewrite relations_rels_elems by exact Hrs.
    change (item_of e') with (item_of e'). now rewrite (IH e' Hes).
Qed.

Lemma structure_rtree_of f : lfield_ok f = true -> structure (rtree_of (rf_of f)) = Ok f.
Proof.
  intros H. destruct f as [|e es]; [reflexivity|].
  unfold structure, entries, rtree_of, rf_of. cbn [children f_lead f_first f_rest]. 
  change (ws_elems []) with (@nil rtree). cbn [app].
  now apply entries_items_elems.
Qed.

(* ---- the text of a constructor-built field reads back, strictly, as the list model ---- *)
Theorem reparse_constructed f : lfield_ok f = true ->
  exists t, parse_relaxed (render_field f) true = Ok (t, 0) /\
            relations_from_str (render_field f) = Ok t /\
            text t = render_field f /\
            structure t = Ok f.
Proof.
  intros H. exists (rtree_of (rf_of f)).
  destruct (C10_lossless_all true (rf_of f) (wf_rf_of true f H)) as (_ & _ & P & T & _).
  rewrite (rrender_rf_of f H) in P, T.
  pose proof (from_str_rrender (rf_of f) (wf_rf_of false f H)) as S. rewrite (rrender_rf_of f H) in S.
  repeat split; auto. now apply structure_rtree_of.
Qed.
