(* C08: canonical lossy values print to the rendering of a well-formed layout, hence read back. *)
From V.model Require Import Base Deb822Lex Deb822Parse Grammar Lossy LossySpec.
From V.proofs Require Import BaseP GrammarLexP GrammarParseP GrammarAccP LossyP.

(* ---- split_lf / join / lines ---- *)
Lemma join_cons2 sep x l : l <> [] -> join sep (x :: l) = x ++ sep ++ join sep l.
Proof. destruct l; [congruence|reflexivity]. Qed.

Lemma split_lf_go_nonempty s : forall acc, split_lf_go s acc <> [].
Proof. induction s as [|c r IH]; intros acc; cbn; [discriminate|]. destruct (c =? 10)%N; [discriminate|apply IH]. Qed.

Lemma split_lf_go_spec s : forall acc, join [LF] (split_lf_go s acc) = acc ++ s.
Proof.
  induction s as [|c r IH]; intros acc; cbn [split_lf_go]; [cbn; rewrite app_nil_r; reflexivity|].
  destruct (c =? 10)%N eqn:E.
  - apply N.eqb_eq in E. subst c. rewrite join_cons2 by apply split_lf_go_nonempty. rewrite IH. reflexivity.
  - rewrite IH, <- app_assoc. reflexivity.
Qed.
Lemma join_split_lf v : join [LF] (split_lf v) = v.
Proof. apply (split_lf_go_spec v []). Qed.

Definition no_lf (l : str) : bool := forallb (fun c => negb (c =? 10)%N) l.
Lemma no_eol_no_lf l : no_eol l = true -> no_lf l = true.
Proof.
  unfold no_eol, no_lf. induction l as [|c r IH]; [reflexivity|]. cbn [forallb]. intros H.
  apply andb_true_iff in H. destruct H as [Hc Hr]. rewrite (IH Hr), andb_true_r.
  unfold is_newline in Hc. apply negb_true_iff, orb_false_iff in Hc. destruct Hc as [Hc _]. rewrite Hc. reflexivity.
Qed.

Lemma split_lf_go_app l : forall s acc, no_lf l = true -> split_lf_go (l ++ s) acc = split_lf_go s (acc ++ l).
Proof.
  induction l as [|c r IH]; intros s acc H; [rewrite app_nil_r; reflexivity|].
  cbn [no_lf forallb] in H. apply andb_true_iff in H. destruct H as [Hc Hr]. apply negb_true_iff in Hc.
  cbn [app split_lf_go]. rewrite Hc, (IH s (acc ++ [c]) Hr), <- app_assoc. reflexivity.
Qed.
Lemma lines_go_app l : forall s acc, no_lf l = true -> lines_go (l ++ s) acc = lines_go s (acc ++ l).
Proof.
  induction l as [|c r IH]; intros s acc H; [rewrite app_nil_r; reflexivity|].
  cbn [no_lf forallb] in H. apply andb_true_iff in H. destruct H as [Hc Hr]. apply negb_true_iff in Hc.
  cbn [app lines_go]. rewrite Hc, (IH s (acc ++ [c]) Hr), <- app_assoc. reflexivity.
Qed.

Lemma strip_cr_no_eol l : no_eol l = true -> strip_cr l = l.
Proof.
  intros Ha. unfold strip_cr. destruct (rev l) as [|x r] eqn:Er; [reflexivity|].
  assert (In x l) by (apply in_rev; rewrite Er; left; reflexivity).
  unfold no_eol in Ha. rewrite forallb_forall in Ha. specialize (Ha x H).
  apply negb_true_iff in Ha. unfold is_newline in Ha. apply orb_false_iff in Ha. destruct Ha as [_ Ha]. rewrite Ha. reflexivity.
Qed.

(* for lines without LF/CR: split_lf inverts join, and lines() does too unless the last line is empty *)
Lemma split_lf_join ls : ls <> [] -> forallb no_eol ls = true -> split_lf (join [LF] ls) = ls.
Proof.
  unfold split_lf. induction ls as [|l r IH]; [congruence|]. intros _ H.
  cbn [forallb] in H. apply andb_true_iff in H. destruct H as [Hl Hr].
  destruct r as [|l2 r2].
  - cbn [join]. rewrite <- (app_nil_r l) at 1. rewrite split_lf_go_app by (apply no_eol_no_lf; exact Hl). reflexivity.
  - rewrite join_cons2 by discriminate. rewrite split_lf_go_app by (apply no_eol_no_lf; exact Hl).
    cbn [app split_lf_go]. change (LF =? 10)%N with true. cbv iota. rewrite IH; [reflexivity|discriminate|exact Hr].
Qed.

Lemma lines_join ls : forallb no_eol ls = true -> last ls [1%N] <> [] -> lines (join [LF] ls) = ls.
Proof.
  unfold lines. induction ls as [|l r IH]; [reflexivity|]. intros H Hlast.
  cbn [forallb] in H. apply andb_true_iff in H. destruct H as [Hl Hr].
  destruct r as [|l2 r2].
  - cbn [join last] in *. rewrite <- (app_nil_r l) at 1. rewrite lines_go_app by (apply no_eol_no_lf; exact Hl).
    cbn [app lines_go]. destruct l; [congruence|reflexivity].
  - rewrite join_cons2 by discriminate. rewrite lines_go_app by (apply no_eol_no_lf; exact Hl).
    cbn [app lines_go]. change (LF =? 10)%N with true. cbv iota. rewrite (strip_cr_no_eol l Hl).
    rewrite IH; [reflexivity|exact Hr|exact Hlast].
Qed.

(* ---- printing a canonical field is rendering its layout ---- *)
Lemma canon_cont_nonempty_last rest d : rest <> [] -> forallb canon_cont rest = true -> last rest d <> [].
Proof.
  induction rest as [|l r IH]; [congruence|]. intros _ H. cbn [forallb] in H.
  apply andb_true_iff in H. destruct H as [Hl Hr]. destruct r as [|l2 r2].
  - cbn. unfold canon_cont in Hl. destruct l; [rewrite andb_false_r in Hl; discriminate|congruence].
  - apply (IH ltac:(discriminate) Hr).
Qed.

Lemma canon_cont_no_eol rest : forallb canon_cont rest = true -> forallb no_eol rest = true.
Proof.
  induction rest as [|l r IH]; [reflexivity|]. cbn [forallb]. intros H. apply andb_true_iff in H.
  destruct H as [Hl Hr]. rewrite (IH Hr), andb_true_r. unfold canon_cont in Hl. apply andb_true_iff in Hl. apply Hl.
Qed.

Lemma shift_newlines l1 rest :
  flat_map (fun l => 32%N :: l ++ [10%N]) (l1 :: rest) =
  32%N :: l1 ++ flat_map (fun l => LF :: 32%N :: l) rest ++ [LF].
Proof.
  revert l1. induction rest as [|l2 r IH]; intros l1; [cbn; rewrite app_nil_r; reflexivity|].
  cbn [flat_map] in *. rewrite (IH l2). cbn [app]. rewrite <- !app_assoc. reflexivity.
Qed.

Lemma print_field_layout f : canon_value (snd f) = true -> print_field f = field_text (layout_field f).
Proof.
  destruct f as [n v]. cbn [snd]. unfold canon_value, layout_field, print_field. cbn [fst snd].
  pose proof (join_split_lf v) as Hj.
  destruct (split_lf v) as [|l1 rest] eqn:Es; [discriminate|]. intros H.
  apply andb_true_iff in H. destruct H as [H1 Hr].
  assert (Hn1 : no_eol l1 = true) by (unfold canon_first in H1; apply andb_true_iff in H1; apply H1).
  pose proof (canon_cont_no_eol rest Hr) as Hnr.
  unfold field_text. cbn [f_name f_ws f_first f_cont f_nl nl_text].
  destruct rest as [|l2 r].
  - cbn [join] in Hj. subst v. cbn [map flat_map app].
    assert (El : length (lines l1) <= 1).
    { destruct l1 as [|c w]; [cbn; lia|]. change (c :: w) with (join [LF] [c :: w]).
      rewrite lines_join; [cbn; lia|cbn [forallb]; rewrite Hn1; reflexivity|cbn; congruence]. }
    destruct (Nat.ltb 1 (length (lines l1))) eqn:E; [apply Nat.ltb_lt in E; lia|].
    rewrite <- ?app_assoc. reflexivity.
  - assert (Elines : lines v = l1 :: l2 :: r).
    { rewrite <- Hj. apply lines_join; [cbn [forallb]; rewrite Hn1; exact Hnr|].
      change (last (l1 :: l2 :: r) [1%N]) with (last (l2 :: r) [1%N]). apply canon_cont_nonempty_last; [discriminate|exact Hr]. }
    rewrite Elines. cbn [length Nat.ltb Nat.leb]. rewrite shift_newlines.
    cbn [app]. f_equal. f_equal. f_equal. f_equal.
    rewrite (flat_map_concat_map cont_text), map_map, <- flat_map_concat_map. reflexivity.
Qed.

Lemma print_para_layout p : forallb canon_field p = true -> print_para p = flat_map block_text (layout_para p).
Proof.
  intros H. destruct p as [|f r]; [reflexivity|]. unfold layout_para. cbn [flat_map block_text]. rewrite app_nil_r.
  unfold print_para. cbn [flat_map forallb] in *. apply andb_true_iff in H. destruct H as [Hf Hr].
  unfold canon_field in Hf. apply andb_true_iff in Hf. destruct Hf as [_ Hv].
  rewrite (print_field_layout f Hv). f_equal.
  induction r as [|g r IH]; [reflexivity|]. cbn [flat_map map forallb item_text] in *.
  apply andb_true_iff in Hr. destruct Hr as [Hg Hr]. unfold canon_field in Hg. apply andb_true_iff in Hg.
  destruct Hg as [_ Hgv]. rewrite (print_field_layout g Hgv), (IH Hr). reflexivity.
Qed.

Lemma print_doc_layout d : canon_doc d = true -> print_doc d = render (layout_doc d).
Proof.
  unfold print_doc, render.
  assert (G : forall d i, canon_doc d = true ->
              print_doc_from i d = (match i, d with S _, _ :: _ => [LF] | _, _ => [] end) ++ flat_map block_text (layout_doc d)).
  { clear d. induction d as [|p r IH]; intros i H; [destruct i; reflexivity|].
    cbn [canon_doc forallb] in H. apply andb_true_iff in H. destruct H as [Hp Hr].
    assert (Hpf : forallb canon_field p = true) by (unfold canon_para in Hp; destruct p; [discriminate|exact Hp]).
    cbn [print_doc_from]. rewrite (print_para_layout p Hpf), (IH (S i) Hr).
    destruct r as [|p2 r2].
    - cbn [layout_doc app flat_map]. rewrite app_nil_r. destruct i; reflexivity.
    - change (layout_doc (p :: p2 :: r2)) with (layout_para p ++ BBlank :: layout_doc (p2 :: r2)).
      rewrite flat_map_app. cbn [flat_map block_text]. destruct i; cbn [app]; rewrite <- ?app_assoc; reflexivity. }
  intros H. rewrite (G d 0 H). destruct d; reflexivity.
Qed.

(* ---- the layout is well-formed and reads back to the value ---- *)
Lemma forallb_map' {A B} (f : A -> B) (p : B -> bool) l : forallb p (map f l) = forallb (fun x => p (f x)) l.
Proof. induction l as [|x r IH]; [reflexivity|]. cbn. rewrite IH. reflexivity. Qed.

Lemma wf_layout_field f more : canon_field f = true -> wf_field (layout_field f) more = true.
Proof.
  destruct f as [n v]. unfold canon_field, canon_value, layout_field, wf_field. cbn [fst snd].
  intros H. apply andb_true_iff in H. destruct H as [Hn Hv].
  destruct (split_lf v) as [|l1 rest]; [discriminate|].
  apply andb_true_iff in Hv. destruct Hv as [H1 Hr].
  cbn [f_name f_ws f_first f_cont f_nl]. rewrite Hn. cbn [ws_ok forallb is_indent N.eqb orb andb].
  unfold canon_first in H1. unfold first_ok. rewrite H1. cbn [andb orb].
  rewrite andb_true_r. rewrite forallb_map'.
  change (is_indent 32 && true && true) with true. cbn [andb].
  induction rest as [|l r IH]; [reflexivity|]. cbn [forallb] in *. apply andb_true_iff in Hr. destruct Hr as [Hl Hr].
  rewrite (IH Hr), andb_true_r. unfold cont_ok, canon_cont in *.
  change (ws_ok [32%N]) with true. cbn [andb].
  apply andb_true_iff in Hl. destruct Hl as [Ha Hb]. rewrite Ha. cbn [andb]. exact Hb.
Qed.

Lemma wf_layout_items r more : forallb canon_field r = true ->
  wf_items (map (fun g => IField (layout_field g)) r) more = true.
Proof.
  induction r as [|g r IH]; [reflexivity|]. cbn [forallb map wf_items]. intros H.
  apply andb_true_iff in H. destruct H as [Hg Hr]. rewrite (wf_layout_field g _ Hg), (IH Hr). reflexivity.
Qed.

Lemma wf_layout_doc d : canon_doc d = true -> wf_doc (layout_doc d) = true.
Proof.
  induction d as [|p r IH]; [reflexivity|]. cbn [canon_doc forallb]. intros H.
  apply andb_true_iff in H. destruct H as [Hp Hr]. specialize (IH Hr).
  unfold canon_para in Hp. destruct p as [|f fs]; [discriminate|]. cbn [forallb] in Hp.
  apply andb_true_iff in Hp. destruct Hp as [Hf Hfs].
  destruct r as [|p2 r2].
  - cbn [layout_doc layout_para wf_doc]. rewrite (wf_layout_field f _ Hf), (wf_layout_items fs false Hfs). reflexivity.
  - change (layout_doc ((f :: fs) :: p2 :: r2)) with (BPara (layout_field f) (map (fun g => IField (layout_field g)) fs) :: BBlank :: layout_doc (p2 :: r2)).
    cbn [wf_doc]. rewrite (wf_layout_field f _ Hf), (wf_layout_items fs true Hfs). cbn [andb]. exact IH.
Qed.

Lemma lossy_value_layout f : canon_value (snd f) = true -> lossy_value (layout_field f) = snd f.
Proof.
  destruct f as [n v]. cbn [snd]. unfold canon_value, layout_field, lossy_value. cbn [snd fst].
  pose proof (join_split_lf v) as Hj. destruct (split_lf v) as [|l1 rest]; [discriminate|]. intros _.
  cbn [f_first f_cont]. destruct rest as [|l2 r]; [cbn in Hj; rewrite app_nil_r; exact Hj|].
  rewrite <- Hj. rewrite (join_cons2 [LF] l1 (l2 :: r)) by discriminate. cbn [map].
  rewrite map_map. cbn [snd]. rewrite map_id. reflexivity.
Qed.

Lemma lossy_content_layout d : canon_doc d = true -> lossy_content (layout_doc d) = d.
Proof.
  induction d as [|p r IH]; [reflexivity|]. cbn [canon_doc forallb]. intros H.
  apply andb_true_iff in H. destruct H as [Hp Hr]. specialize (IH Hr).
  unfold canon_para in Hp. destruct p as [|f fs]; [discriminate|]. cbn [forallb] in Hp.
  apply andb_true_iff in Hp. destruct Hp as [Hf Hfs].
  assert (Epara : lossy_pair (layout_field f) :: flat_map lossy_item_pairs (map (fun g => IField (layout_field g)) fs) = f :: fs).
  { unfold canon_field in Hf. apply andb_true_iff in Hf. destruct Hf as [_ Hv].
    unfold lossy_pair. rewrite (lossy_value_layout f Hv).
    assert (En : f_name (layout_field f) = fst f) by (unfold layout_field; destruct (split_lf (snd f)); reflexivity).
    rewrite En. destruct f as [n v]. cbn [fst snd]. f_equal.
    induction fs as [|g gs IHg]; [reflexivity|]. cbn [map flat_map lossy_item_pairs forallb app] in *.
    apply andb_true_iff in Hfs. destruct Hfs as [Hg Hgs]. rewrite (IHg Hgs).
    unfold canon_field in Hg. apply andb_true_iff in Hg. destruct Hg as [_ Hgv].
    unfold lossy_pair. rewrite (lossy_value_layout g Hgv).
    assert (Eg : f_name (layout_field g) = fst g) by (unfold layout_field; destruct (split_lf (snd g)); reflexivity).
    rewrite Eg. destruct g; reflexivity. }
  destruct r as [|p2 r2].
  - cbn [layout_doc layout_para lossy_content flat_map lossy_block_content app]. rewrite Epara. reflexivity.
  - change (layout_doc ((f :: fs) :: p2 :: r2)) with (BPara (layout_field f) (map (fun g => IField (layout_field g)) fs) :: BBlank :: layout_doc (p2 :: r2)).
    unfold lossy_content in *. cbn [flat_map lossy_block_content app]. rewrite Epara, IH. reflexivity.
Qed.

(* ---- C08 ---- *)
Theorem C08_roundtrip d : canon_doc d = true ->
  lossy_from_str (print_doc d) = Ok d /\
  print_doc d = render (layout_doc d) /\ wf_doc (layout_doc d) = true /\
  exists t, from_str (print_doc d) = Ok t /\ doc_items t = content (layout_doc d) /\
            nb_doc (doc_items t) = nb_doc d.
Proof.
  intros H. pose proof (print_doc_layout d H) as Ep. pose proof (wf_layout_doc d H) as Hwf.
  split; [rewrite Ep, (lossy_render _ Hwf), (lossy_content_layout d H); reflexivity|].
  split; [exact Ep|]. split; [exact Hwf|].
  destruct (C03_accept_all _ Hwf) as (E & _ & Ei). exists (tree_of (layout_doc d)).
  rewrite Ep. split; [exact E|]. split; [exact Ei|].
  rewrite Ei, <- nb_content, (lossy_content_layout d H). reflexivity.
Qed.

(* paragraphs are separated by exactly one blank line: the layout alternates BPara / BBlank *)
Fixpoint one_blank_between (d : doc) : bool :=
  match d with
  | [] => true
  | BPara _ _ :: r =>
      match r with
      | [] => true
      | BBlank :: r' => match r' with BPara _ _ :: _ => one_blank_between r' | _ => false end
      | _ => false
      end
  | _ => false
  end.
Lemma layout_one_blank d : canon_doc d = true -> one_blank_between (layout_doc d) = true.
Proof.
  induction d as [|p r IH]; [reflexivity|]. cbn [canon_doc forallb]. intros H.
  apply andb_true_iff in H. destruct H as [Hp Hr]. specialize (IH Hr).
  unfold canon_para in Hp. destruct p as [|f fs]; [discriminate|].
  destruct r as [|p2 r2]; [reflexivity|].
  cbn [canon_doc forallb] in Hr. apply andb_true_iff in Hr. destruct Hr as [Hp2 _].
  unfold canon_para in Hp2. destruct p2 as [|f2 fs2]; [discriminate|].
  change (layout_doc ((f :: fs) :: (f2 :: fs2) :: r2)) with
    (BPara (layout_field f) (map (fun g => IField (layout_field g)) fs) :: BBlank :: layout_doc ((f2 :: fs2) :: r2)).
  destruct r2 as [|p3 r3]; [reflexivity|].
  change (layout_doc ((f2 :: fs2) :: p3 :: r3)) with
    (BPara (layout_field f2) (map (fun g => IField (layout_field g)) fs2) :: BBlank :: layout_doc (p3 :: r3)) in *.
  exact IH.
Qed.

(* ---- the list laws of the lossy paragraph edits ---- *)
Lemma str_eqb_refl s : str_eqb s s = true.
Proof. induction s as [|c r IH]; [reflexivity|]. cbn. rewrite N.eqb_refl, IH. reflexivity. Qed.
Lemma str_eqb_eq a : forall b, str_eqb a b = true -> a = b.
Proof.
  induction a as [|x a IH]; intros [|y b] H; cbn in H; try discriminate; [reflexivity|].
  apply andb_true_iff in H. destruct H as [H1 H2]. apply N.eqb_eq in H1. subst. f_equal. apply IH. exact H2.
Qed.

Lemma l_get_first p k : l_get p k = match filter (fun f => str_eqb (fst f) k) p with [] => None | f :: _ => Some (snd f) end.
Proof. induction p as [|[n v] r IH]; [reflexivity|]. cbn [l_get filter fst]. destruct (str_eqb n k); [reflexivity|exact IH]. Qed.

Lemma l_set_existing_spec p k v :
  match l_set_existing p k v with
  | Some p' => exists a x b, p = a ++ (k, x) :: b /\ p' = a ++ (k, v) :: b /\ l_get a k = None
  | None => l_get p k = None
  end.
Proof.
  induction p as [|[n x] r IH]; [reflexivity|]. cbn [l_set_existing l_get].
  destruct (str_eqb n k) eqn:E.
  - apply str_eqb_eq in E. subst n. exists [], x, r. repeat split.
  - destruct (l_set_existing r k v) as [r'|].
    + destruct IH as (a & y & b & E1 & E2 & E3). exists ((n, x) :: a), y, b. subst. repeat split.
      cbn [l_get]. rewrite E. exact E3.
    + exact IH.
Qed.

Theorem l_set_spec p k v :
  (exists a x b, p = a ++ (k, x) :: b /\ l_get a k = None /\ l_set p k v = a ++ (k, v) :: b) \/
  (l_get p k = None /\ l_set p k v = p ++ [(k, v)]).
Proof.
  unfold l_set. pose proof (l_set_existing_spec p k v) as H. destruct (l_set_existing p k v) as [p'|].
  - left. destruct H as (a & x & b & E1 & E2 & E3). exists a, x, b. repeat split; assumption.
  - right. split; [exact H|reflexivity].
Qed.

Lemma l_get_app a b k : l_get (a ++ b) k = match l_get a k with Some v => Some v | None => l_get b k end.
Proof. induction a as [|[n v] r IH]; [reflexivity|]. cbn [app l_get]. destruct (str_eqb n k); [reflexivity|exact IH]. Qed.

Theorem l_get_set_same p k v : l_get (l_set p k v) k = Some v.
Proof.
  destruct (l_set_spec p k v) as [(a & x & b & E1 & E2 & E3)|[E1 E2]].
  - rewrite E3, l_get_app, E2. cbn [l_get]. rewrite str_eqb_refl. reflexivity.
  - rewrite E2, l_get_app, E1. cbn [l_get]. rewrite str_eqb_refl. reflexivity.
Qed.

Theorem l_get_set_other p k v k' : str_eqb k k' = false -> l_get (l_set p k v) k' = l_get p k'.
Proof.
  intros Hne. destruct (l_set_spec p k v) as [(a & x & b & E1 & E2 & E3)|[E1 E2]].
  - rewrite E3, E1, !l_get_app. cbn [l_get]. rewrite Hne. reflexivity.
  - rewrite E2, l_get_app. cbn [l_get]. rewrite Hne. destruct (l_get p k'); reflexivity.
Qed.

Theorem l_remove_spec p k :
  l_get (l_remove p k) k = None /\
  l_remove p k = filter (fun f => negb (str_eqb (fst f) k)) p /\
  (forall k', str_eqb k' k = false -> l_get (l_remove p k) k' = l_get p k').
Proof.
  split; [|split; [reflexivity|]].
  - unfold l_remove. induction p as [|[n v] r IH]; [reflexivity|]. cbn [filter fst].
    destruct (str_eqb n k) eqn:E; cbn [negb]; [exact IH|]. cbn [l_get]. rewrite E. exact IH.
  - intros k' Hne. unfold l_remove. induction p as [|[n v] r IH]; [reflexivity|]. cbn [filter fst l_get].
    destruct (str_eqb n k) eqn:E; cbn [negb].
    + apply str_eqb_eq in E. subst n. destruct (str_eqb k k') eqn:E2.
      * apply str_eqb_eq in E2. subst k'. rewrite str_eqb_refl in Hne. discriminate.
      * exact IH.
    + cbn [l_get]. destruct (str_eqb n k'); [reflexivity|exact IH].
Qed.

Theorem l_insert_spec p k v : l_insert p k v = p ++ [(k, v)] /\
  l_get (l_insert p k v) k = match l_get p k with Some x => Some x | None => Some v end.
Proof.
  split; [reflexivity|]. unfold l_insert. rewrite l_get_app. cbn [l_get]. rewrite str_eqb_refl. reflexivity.
Qed.

(* the same for a single paragraph through <lossy::Paragraph as FromStr>::from_str *)
Theorem C08_paragraph_roundtrip p : canon_para p = true -> lossy_paragraph_from_str (print_para p) = Ok p.
Proof.
  intros H. assert (Hd : canon_doc [p] = true) by (cbn [canon_doc forallb]; rewrite H; reflexivity).
  destruct (C08_roundtrip [p] Hd) as [E _].
  unfold print_doc in E. cbn [print_doc_from app] in E. rewrite app_nil_r in E.
  unfold lossy_paragraph_from_str. rewrite E. reflexivity.
Qed.
