(* Lemmas about RelEdit.v (C11): the store-level lemmas of RelEditParsedP.v (an operand that sits
   INSIDE another tree is detached from there and attached) once more, with what the handle
   theorems need in addition: what happens to every other tree and to the handles next to the
   place of the edit; and Entry::replace for an arbitrary register file with such an operand. *)
From V.model Require Import Base RelLex RelParse RelAcc RelGrammar RelEdit RelEditSpec RelEditTree.
From V.proofs Require Import BaseP RelEditP RelEditStP RelEditHistP RelEditTreeP RelEditReplaceP RelEditParsedP.

Lemma attach_child_sub_x ts rs pr cr tid ri T p kd cs idx tc rc Tc pc ic C :
  nth_error rs pr = Some (Some (mk_hnd tid p)) -> nth_error rs cr = Some (Some (mk_hnd tc (pc ++ [ic]))) ->
  nth_error ts tid = Some (mk_slot true ri T) -> get_path T p = Some (Node kd cs) ->
  nth_error ts tc = Some (mk_slot true rc Tc) -> get_path Tc (pc ++ [ic]) = Some C -> tid <> tc -> idx <= length cs ->
  exists ts' F,
    runs (m_attach_child pr idx cr) (mk_state ts rs) tt (mk_state ts' (map (option_map F) rs)) /\
    length ts' = S (length ts) /\
    nth_error ts' tid = Some (mk_slot true ri (upd_path T p (fun _ => Node kd (insert_at idx [C] cs)))) /\
    (forall j, j <> tid -> j <> tc -> j < length ts -> nth_error ts' j = nth_error ts j) /\
    F (mk_hnd tc (pc ++ [ic])) = mk_hnd tid (p ++ [idx]) /\
    (forall g, h_tid g < length ts -> h_tid g <> tc -> above tid p g -> F g = g) /\
    (forall g, h_tid g <> tc -> F g = rebase_attach tid p idx (length ts) g).
Proof.
  intros Hp Hc HT HG HC HGc Hne Hidx.
  pose proof (nth_error_Some_lt _ _ _ HT) as Hlt. pose proof (nth_error_Some_lt _ _ _ HC) as Hlc.
  destruct (detach_h_spec ts rs tc rc Tc pc ic C HC HGc) as (ts1 & R1 & L1 & T1 & N1 & O1).
  set (F1 := rebase_detach tc pc ic (length ts)) in *.
  assert (HT1 : nth_error ts1 tid = Some (mk_slot true ri T)) by (rewrite O1 by (auto; lia); exact HT).
  destruct (attach_h_spec ts1 (map (option_map F1) rs) tid ri T p kd cs idx (length ts) ic C HT1 HG N1 ltac:(lia) Hidx)
    as (ts2 & R2 & L2 & T2 & O2).
  set (F2 := rebase_attach tid p idx (length ts)) in *.
  exists ts2, (fun g => F2 (F1 g)). rewrite <- map_option_map_comp. split; [|split; [|split; [|split; [|split; [|split]]]]].
  - unfold m_attach_child. rbind; [apply runs_get_reg; exact Hc|].
    rbind; [exact R1|].
    rbind; [apply runs_get_reg; apply (nth_error_map_reg F1 _ _ _ Hp)|].
    unfold F1 at 1. rewrite rebase_detach_other by (cbn; congruence).
    rbind; [apply runs_get_reg; apply (nth_error_map_reg F1 _ _ _ Hc)|].
    unfold F1 at 1. replace (pc ++ [ic]) with (pc ++ ic :: []) by reflexivity. rewrite rebase_detach_at. exact R2.
  - lia.
  - rewrite T2. f_equal. f_equal. eapply upd_path_ext; [exact HG|]. reflexivity.
  - intros j H1 H2 H3. rewrite O2 by lia. apply O1; [congruence|lia].
  - unfold F1. replace (pc ++ [ic]) with (pc ++ ic :: []) by reflexivity. rewrite rebase_detach_at. apply rebase_attach_child.
  - intros g Hg Ht Ha. unfold F1. rewrite rebase_detach_other by exact Ht. unfold F2. apply rebase_attach_above; [lia|exact Ha].
  - intros g Ht. unfold F1. now rewrite rebase_detach_other by exact Ht.
Qed.

Lemma splice_replace_sub_x ts rs pr cr tid ri T p kd pre x post tc rc Tc pc ic C :
  nth_error rs pr = Some (Some (mk_hnd tid p)) -> nth_error rs cr = Some (Some (mk_hnd tc (pc ++ [ic]))) ->
  nth_error ts tid = Some (mk_slot true ri T) -> get_path T p = Some (Node kd (pre ++ x :: post)) ->
  nth_error ts tc = Some (mk_slot true rc Tc) -> get_path Tc (pc ++ [ic]) = Some C -> tid <> tc ->
  exists ts' F,
    runs (m_splice pr (length pre) (S (length pre)) [cr]) (mk_state ts rs) tt (mk_state ts' (map (option_map F) rs)) /\
    length ts <= length ts' /\
    nth_error ts' tid = Some (mk_slot true ri (upd_path T p (fun _ => Node kd (pre ++ C :: post)))) /\
    F (mk_hnd tc (pc ++ [ic])) = mk_hnd tid (p ++ [length pre]) /\
    (forall g, h_tid g < length ts -> h_tid g <> tc -> above tid p g -> F g = g) /\
    (forall j, j <> tid -> j <> tc -> j < length ts -> nth_error ts' j = nth_error ts j) /\
    (forall c rest, c <> length pre -> F (mk_hnd tid (p ++ c :: rest)) = mk_hnd tid (p ++ c :: rest)).
Proof.
  intros Hp Hc HT HG HC HGc Hne.
  pose proof (nth_error_Some_lt _ _ _ HC) as Hlc. pose proof (nth_error_Some_lt _ _ _ HT) as Hlt.
  assert (HGx : get_path T (p ++ [length pre]) = Some x) by (eapply get_path_child; [exact HG|apply nth_error_app_len]).
  destruct (detach_h_spec ts rs tid ri T p _ x HT HGx) as (ts1 & R1 & L1 & T1 & N1 & O1).
  set (F1 := rebase_detach tid p (length pre) (length ts)) in *.
  assert (ET : upd_path T p (fun q => set_children (remove_nth (length pre) (children q)) q)
               = upd_path T p (fun _ => Node kd (pre ++ post))).
  { eapply upd_path_ext; [exact HG|]. cbn [children set_children ekind]. now rewrite remove_nth_app_len. }
  rewrite ET in T1.
  assert (Hp1 : nth_error (map (option_map F1) rs) pr = Some (Some (mk_hnd tid p))).
  { rewrite (nth_error_map_reg F1 _ _ _ Hp). unfold F1. now rewrite rebase_detach_self. }
  assert (Hc1 : nth_error (map (option_map F1) rs) cr = Some (Some (mk_hnd tc (pc ++ [ic])))).
  { rewrite (nth_error_map_reg F1 _ _ _ Hc). unfold F1. now rewrite rebase_detach_other by (cbn; congruence). }
  assert (HC1 : nth_error ts1 tc = Some (mk_slot true rc Tc)) by (rewrite O1 by (auto; lia); exact HC).
  assert (HG1 : get_path (upd_path T p (fun _ => Node kd (pre ++ post))) p = Some (Node kd (pre ++ post)))
    by (now apply get_path_upd_path with (n := Node kd (pre ++ x :: post))).
  destruct (attach_child_sub_x ts1 (map (option_map F1) rs) pr cr tid ri _ p kd (pre ++ post) (length pre) tc rc Tc pc ic C
              Hp1 Hc1 T1 HG1 HC1 HGc Hne ltac:(rewrite app_length; lia)) as (ts2 & F2 & R2 & L2 & T2 & O2 & S2 & A2 & B2).
  exists ts2, (fun g => F2 (F1 g)). rewrite <- map_option_map_comp. split; [|split; [|split; [|split; [|split; [|split]]]]].
  - unfold m_splice. rbind; [apply runs_get_reg; exact Hp|]. cbn [h_tid].
    rbind; [eapply runs_get_slot; exact HT|]. cbn [s_mut negb].
    rbind; [eapply runs_children_of; [exact HT|exact HG]|]. cbn [children].
    assert (length pre <? S (length pre) = true) as -> by (apply Nat.ltb_lt; lia).
    assert (length pre <? length (pre ++ x :: post) = true) as -> by (apply Nat.ltb_lt; rewrite app_length; cbn; lia).
    cbn [andb]. unfold child_h. cbn [h_tid h_path].
    rbind; [rbind; [exact R1|]; rdone|].
    cbn [m_attach_all]. rbind; [exact R2|]. rdone.
  - lia.
  - rewrite T2. f_equal. f_equal. rewrite (upd_path_const2 _ _ _ _ _ HG).
    eapply upd_path_ext; [exact HG|]. now rewrite insert_at_app_len.
  - unfold F1. rewrite rebase_detach_other by (cbn; congruence). exact S2.
  - intros g Hg Ht Ha. unfold F1. rewrite rebase_detach_above by exact Ha. apply A2; [lia|exact Ht|exact Ha].
  - intros j H1 H2 H3. rewrite O2 by lia. apply O1; [exact H1|exact H3].
  - intros c rest Hcn. rewrite B2 by (unfold F1; destruct (Nat.lt_ge_cases c (length pre)); [rewrite rebase_detach_before by assumption|rewrite rebase_detach_after by lia]; cbn [h_tid]; exact Hne).
    unfold F1. destruct (Nat.lt_ge_cases c (length pre)) as [Hl|Hl].
    + rewrite rebase_detach_before by exact Hl. apply rebase_attach_before; [lia|exact Hl].
    + rewrite rebase_detach_after by lia. rewrite rebase_attach_after by lia.
      replace (S (c - 1)) with c by lia. reflexivity.
Qed.

Lemma attach_all_move_sub_x : forall (tl : list rtree) crs ts rs pr tid ri T q kO core tr rr' Tr pp kN cs,
  nth_error rs pr = Some (Some (mk_hnd tr pp)) ->
  nth_error ts tid = Some (mk_slot true ri T) -> get_path T q = Some (Node kO (core ++ tl)) ->
  nth_error ts tr = Some (mk_slot true rr' Tr) -> get_path Tr pp = Some (Node kN cs) -> tid <> tr ->
  length crs = length tl ->
  (forall m cr, nth_error crs m = Some cr -> nth_error rs cr = Some (Some (mk_hnd tid (q ++ [length core + m])))) ->
  exists ts' F,
    runs (m_attach_all pr (length cs) crs) (mk_state ts rs) tt (mk_state ts' (map (option_map F) rs)) /\
    length ts <= length ts' /\
    nth_error ts' tid = Some (mk_slot true ri (upd_path T q (fun _ => Node kO core))) /\
    nth_error ts' tr = Some (mk_slot true rr' (upd_path Tr pp (fun _ => Node kN (cs ++ tl)))) /\
    F (mk_hnd tr pp) = mk_hnd tr pp /\
    (forall g, h_tid g < length ts -> h_tid g <> tr -> above tid q g -> F g = g) /\
    (forall j, j <> tid -> j <> tr -> j < length ts -> nth_error ts' j = nth_error ts j).
Proof.
  induction tl as [|x tl' IH]; intros crs ts rs pr tid ri T q kO core tr rr' Tr pp kN cs Hpr HT HG HR HGr Hne Hlen Hcrs.
  - destruct crs; [|discriminate]. exists ts, (fun g => g). rewrite map_option_map_id. split; [|split; [|split; [|split; [|split; [|split]]]]]; auto.
    + cbn [m_attach_all]. rdone.
    + rewrite app_nil_r in HG. now rewrite (upd_path_same _ _ _ HG).
    + rewrite app_nil_r. now rewrite (upd_path_same _ _ _ HGr).
  - destruct crs as [|cr crs']; [discriminate|]. cbn [length] in Hlen.
    pose proof (nth_error_Some_lt _ _ _ HT) as Hlt. pose proof (nth_error_Some_lt _ _ _ HR) as Hlr.
    pose proof (Hcrs 0 cr eq_refl) as Hcr. rewrite Nat.add_0_r in Hcr.
    assert (HGx : get_path T (q ++ [length core]) = Some x) by (eapply get_path_child; [exact HG|apply nth_error_app_len]).
    destruct (detach_h_spec ts rs tid ri T q (length core) x HT HGx) as (ts1 & R1 & L1 & T1 & N1 & O1).
    set (F1 := rebase_detach tid q (length core) (length ts)) in *.
    assert (ET : upd_path T q (fun n => set_children (remove_nth (length core) (children n)) n)
                 = upd_path T q (fun _ => Node kO (core ++ tl'))).
    { eapply upd_path_ext; [exact HG|]. cbn [children set_children ekind]. now rewrite remove_nth_app_len. }
    rewrite ET in T1.
    assert (HR1 : nth_error ts1 tr = Some (mk_slot true rr' Tr)) by (rewrite O1 by (auto; lia); exact HR).
    assert (Hne2 : tr <> length ts) by lia.
    destruct (attach_h_spec ts1 (map (option_map F1) rs) tr rr' Tr pp kN cs (length cs) (length ts) (length core) x
                HR1 HGr N1 Hne2 (le_n _)) as (ts2 & R2 & L2 & T2 & O2).
    set (F2 := rebase_attach tr pp (length cs) (length ts)) in *.
    assert (ET2 : upd_path Tr pp (fun n => set_children (insert_at (length cs) [x] (children n)) n)
                  = upd_path Tr pp (fun _ => Node kN (cs ++ [x]))).
    { eapply upd_path_ext; [exact HGr|]. cbn [children set_children ekind]. now rewrite insert_at_end by lia. }
    rewrite ET2 in T2.
    set (T' := upd_path T q (fun _ => Node kO (core ++ tl'))) in *.
    set (Tr' := upd_path Tr pp (fun _ => Node kN (cs ++ [x]))) in *.
    assert (HT2 : nth_error ts2 tid = Some (mk_slot true ri T')) by (rewrite O2 by lia; exact T1).
    assert (HG2 : get_path T' q = Some (Node kO (core ++ tl'))) by (unfold T'; now apply get_path_upd_path with (n := Node kO (core ++ x :: tl'))).
    assert (HGr2 : get_path Tr' pp = Some (Node kN (cs ++ [x]))) by (unfold Tr'; now apply get_path_upd_path with (n := Node kN cs)).
    assert (Fab : forall g, h_tid g < length ts -> h_tid g <> tr -> above tid q g -> F2 (F1 g) = g).
    { intros g Hg Ht Ha. unfold F1. rewrite rebase_detach_above by exact Ha. unfold F2.
      apply rebase_attach_above; [lia|]. now apply above_other. }
    assert (Fr : F2 (F1 (mk_hnd tr pp)) = mk_hnd tr pp).
    { unfold F1. rewrite rebase_detach_other by (cbn; congruence). unfold F2. apply rebase_attach_self. lia. }
    assert (Hpr2 : nth_error (map (option_map F2) (map (option_map F1) rs)) pr = Some (Some (mk_hnd tr pp))).
    { rewrite (nth_error_map_reg F2 _ _ (F1 (mk_hnd tr pp))) by (now apply nth_error_map_reg). f_equal. f_equal. exact Fr. }
    assert (Hcrs2 : forall m cr', nth_error crs' m = Some cr' ->
              nth_error (map (option_map F2) (map (option_map F1) rs)) cr' = Some (Some (mk_hnd tid (q ++ [length core + m])))).
    { intros m cr' Hm. pose proof (Hcrs (S m) cr' Hm) as Hc.
      rewrite (nth_error_map_reg F2 _ _ (F1 (mk_hnd tid (q ++ [length core + S m])))) by (now apply nth_error_map_reg).
      f_equal. f_equal. unfold F1. rewrite rebase_detach_after by lia. unfold F2.
      rewrite rebase_attach_above; [f_equal; f_equal; f_equal; lia|cbn; lia|apply above_other; cbn; congruence]. }
    destruct (IH crs' ts2 (map (option_map F2) (map (option_map F1) rs)) pr tid ri T' q kO core tr rr' Tr' pp kN (cs ++ [x])
                Hpr2 HT2 HG2 T2 HGr2 Hne ltac:(lia) Hcrs2) as (ts3 & F3 & R3 & L3 & T3 & N3 & Fr3 & A3 & O3).
    exists ts3, (fun g => F3 (F2 (F1 g))).
    replace (map (option_map (fun g => F3 (F2 (F1 g)))) rs)
      with (map (option_map F3) (map (option_map F2) (map (option_map F1) rs))) by (now rewrite !map_option_map_comp).
    split; [|split; [|split; [|split; [|split; [|split]]]]].
    + cbn [m_attach_all]. rbind.
      { unfold m_attach_child. rbind; [apply runs_get_reg; exact Hcr|].
        rbind; [exact R1|].
        rbind; [apply runs_get_reg; apply (nth_error_map_reg F1 _ _ _ Hpr)|].
        unfold F1 at 1. rewrite rebase_detach_other by (cbn; congruence).
        rbind; [apply runs_get_reg; apply (nth_error_map_reg F1 _ _ _ Hcr)|].
        unfold F1 at 1. replace (q ++ [length core]) with (q ++ length core :: []) by reflexivity. rewrite rebase_detach_at.
        exact R2. }
      rewrite app_length in R3. cbn [length] in R3. rewrite Nat.add_1_r in R3. exact R3.
    + lia.
    + rewrite T3. unfold T'. now rewrite (upd_path_const2 _ _ _ _ _ HG).
    + rewrite N3. unfold Tr'. rewrite (upd_path_const2 _ _ _ _ _ HGr). now rewrite <- app_assoc.
    + now rewrite Fr, Fr3.
    + intros g Hg Ht Ha. rewrite (Fab g Hg Ht Ha). apply A3; [lia|exact Ht|exact Ha].
    + intros j H1 H2 H3. rewrite O3 by lia. rewrite O2 by lia. apply O1; [exact H1|exact H3].
Qed.

Lemma firstn_exact {A} (a b : list A) n : length a = n -> firstn n (a ++ b) = a.
Proof. intros <-. apply firstn_app_len. Qed.

(* Entry::replace for an arbitrary register file: entry handle in rk, the new relation — a node
   inside another tree, possibly with white space at its end — in rm *)
Lemma ereplace_machine_sub ts rs rk rm tid ri T ci pre ocs post ncs j tr rr Tp pp pj :
  nth_error rs rk = Some (Some (mk_hnd tid [ci])) -> nth_error rs rm = Some (Some (mk_hnd tr (pp ++ [pj]))) ->
  nth_error ts tid = Some (mk_slot true ri T) ->
  get_path T [ci] = Some (Node ENTRY (pre ++ Node RELATION ocs :: post)) ->
  nth_error ts tr = Some (mk_slot true rr Tp) -> get_path Tp (pp ++ [pj]) = Some (Node RELATION ncs) -> tid <> tr ->
  nth_index is_relation j (pre ++ Node RELATION ocs :: post) = Some (length pre) ->
  ws_prefix_len ocs = 0 -> ws_prefix_len ncs = 0 ->
  exists ts' F,
    runs (entry_replace fixed rk j rm) (mk_state ts rs) tt (mk_state ts' (set_reg_l rm None (map (option_map F) rs))) /\
    nth_error ts' tid = Some (mk_slot true ri
      (upd_path T [ci] (fun _ => Node ENTRY (pre ++ dressed (Node RELATION ocs) (Node RELATION ncs) :: post)))) /\
    (forall j0, j0 <> tid -> j0 <> tr -> j0 < length ts -> nth_error ts' j0 = nth_error ts j0) /\
    (forall g, h_tid g < length ts -> h_tid g <> tr -> above tid [ci] g -> F g = g) /\
    (forall c rest, c <> length pre -> F (mk_hnd tid ([ci] ++ c :: rest)) = mk_hnd tid ([ci] ++ c :: rest)).
Proof.
  intros Hk Hm HT HGe HR HGn Hne Hidx Hh Wh.
  set (O := Node RELATION ocs) in *. set (E := Node ENTRY (pre ++ O :: post)) in *.
  set (oi := length pre) in *. set (n := length rs). set (pn := pp ++ [pj]) in *.
  set (kt := ws_prefix_len (rev ocs)). set (core := firstn (length ocs - kt) ocs). set (tl := ws_tail ocs).
  assert (Eocs : ocs = core ++ tl) by apply ws_tail_split.
  assert (Hkt : kt <= length ocs) by (unfold kt; rewrite <- (rev_length ocs); apply ws_prefix_len_le).
  assert (Lcore : length core = length ocs - kt) by (unfold core; rewrite firstn_length; lia).
  assert (Ltl : length tl = kt) by (unfold tl, ws_tail; fold kt; rewrite skipn_length; lia).
  set (kn := ws_prefix_len (rev ncs)). set (ncore := firstn (length ncs - kn) ncs). set (ntl := ws_tail ncs).
  assert (Encs : ncs = ncore ++ ntl) by apply ws_tail_split.
  assert (Hkn : kn <= length ncs) by (unfold kn; rewrite <- (rev_length ncs); apply ws_prefix_len_le).
  assert (Lntl : length ntl = kn) by (unfold ntl, ws_tail; fold kn; rewrite skipn_length; lia).
  assert (HGo : get_path T ([ci] ++ [oi]) = Some O).
  { eapply get_path_child; [exact HGe|]. unfold oi. apply nth_error_app_len. }
  pose proof (nth_error_Some_lt _ _ _ HT) as Hlt. pose proof (nth_error_Some_lt _ _ _ HR) as Hlr.
  pose proof (nth_error_Some_lt _ _ _ Hk) as Hlk. pose proof (nth_error_Some_lt _ _ _ Hm) as Hlm.
  set (rs6 := rs ++ [Some (mk_hnd tid ([ci] ++ [oi]))]).
  assert (L6 : length rs6 = S n) by (unfold rs6, n; rewrite app_length; cbn; lia).
  assert (Hm6 : nth_error rs6 rm = Some (Some (mk_hnd tr pn))) by (unfold rs6; now apply nth_error_app_l).
  (* the new alternative loses its trailing white space *)
  assert (HGn' : get_path Tp pn = Some (Node RELATION (ncore ++ ntl))) by (rewrite HGn; now rewrite <- Encs).
  destruct (detach_last_repeat ntl ts rs6 rm tr rr Tp pn RELATION ncore Hm6 HR HGn')
    as (ts1 & F1 & R1 & L1 & T1 & O1 & A1).
  set (Tp1 := upd_path Tp pn (fun _ => Node RELATION ncore)) in *.
  assert (HGn1 : get_path Tp1 pn = Some (Node RELATION ncore)) by (unfold Tp1; now apply get_path_upd_path with (n := Node RELATION (ncore ++ ntl))).
  assert (HT1 : nth_error ts1 tid = Some (mk_slot true ri T)) by (rewrite O1 by (auto; lia); exact HT).
  assert (F1t : forall p, F1 (mk_hnd tid p) = mk_hnd tid p) by (intros p; apply A1, above_other; cbn; congruence).
  assert (F1r : F1 (mk_hnd tr pn) = mk_hnd tr pn) by apply A1, above_self.
  set (rs6' := map (option_map F1) rs6) in *.
  assert (L6' : length rs6' = S n) by (unfold rs6'; now rewrite map_length).
  assert (Hk6' : nth_error rs6' rk = Some (Some (mk_hnd tid [ci]))).
  { unfold rs6'. rewrite (nth_error_map_reg F1 _ _ (mk_hnd tid [ci])); [now rewrite F1t|]. unfold rs6. now apply nth_error_app_l. }
  assert (Hm6' : nth_error rs6' rm = Some (Some (mk_hnd tr pn))).
  { unfold rs6'. rewrite (nth_error_map_reg F1 _ _ _ Hm6). now rewrite F1r. }
  assert (Hn6' : nth_error rs6' n = Some (Some (mk_hnd tid ([ci] ++ [oi])))).
  { unfold rs6'. rewrite (nth_error_map_reg F1 _ _ (mk_hnd tid ([ci] ++ [oi]))); [now rewrite F1t|]. unfold rs6, n. apply nth_error_app_at. }
  (* the handles of the old one's trailing white space *)
  set (hs := ws_tail_handles (mk_hnd tid ([ci] ++ [oi])) ocs).
  set (rsA := rs6' ++ map Some hs).
  assert (Lhs : length hs = kt) by (unfold hs, ws_tail_handles; now rewrite map_length, seq_length).
  assert (Hcrs : forall m cr, nth_error (rev (seq (S n) kt)) m = Some cr ->
            nth_error rsA cr = Some (Some (mk_hnd tid (([ci] ++ [oi]) ++ [length core + m])))).
  { intros m cr Hmm. apply nth_error_rev_seq in Hmm as [Hmm ->]. unfold rsA.
    rewrite nth_error_app2 by lia. rewrite L6'.
    replace (S n + (kt - 1 - m) - S n) with (kt - 1 - m) by lia. rewrite nth_error_map.
    unfold hs, ws_tail_handles. fold kt. rewrite nth_error_map_seq by lia. cbn [option_map]. unfold child_h. cbn [h_tid h_path].
    do 3 f_equal. cbn [app]. do 2 f_equal. f_equal. rewrite Lcore. lia. }
  assert (HGoc : get_path T ([ci] ++ [oi]) = Some (Node RELATION (core ++ tl))) by (rewrite HGo; unfold O; now rewrite <- Eocs).
  assert (Hlt1 : tid < length ts1) by lia.
  assert (HmA : nth_error rsA rm = Some (Some (mk_hnd tr pn))) by (unfold rsA; now apply nth_error_app_l).
  destruct (attach_all_move_sub_x tl (rev (seq (S n) kt)) ts1 rsA rm tid ri T ([ci] ++ [oi]) RELATION core tr rr Tp1 pn RELATION ncore
              HmA HT1 HGoc T1 HGn1 Hne ltac:(now rewrite rev_length, seq_length) Hcrs)
    as (ts2 & F2 & R2 & L2 & T2 & N2 & Fr2 & A2 & O2).
  set (O1' := Node RELATION core) in *.
  assert (ET1 : upd_path T ([ci] ++ [oi]) (fun _ => O1') = upd_path T [ci] (fun _ => Node ENTRY (pre ++ O1' :: post))).
  { rewrite (upd_path_app _ _ _ _ _ HGe). eapply upd_path_ext; [exact HGe|]. unfold E. cbn [upd_path]. unfold oi. now rewrite upd_nth_app_r. }
  rewrite ET1 in T2. set (T1' := upd_path T [ci] (fun _ => Node ENTRY (pre ++ O1' :: post))) in *.
  assert (HGe1 : get_path T1' [ci] = Some (Node ENTRY (pre ++ O1' :: post)))
    by (exact (get_path_upd_path _ _ (fun _ => Node ENTRY (pre ++ O1' :: post)) _ HGe)).
  set (C := Node RELATION (ncore ++ tl)) in *.
  set (Tp2 := upd_path Tp1 pn (fun _ => C)) in *.
  assert (HGc : get_path Tp2 (pp ++ [pj]) = Some C) by (unfold Tp2; fold pn; now apply get_path_upd_path with (n := Node RELATION ncore)).
  assert (F2r1 : F2 (mk_hnd tid [ci]) = mk_hnd tid [ci]) by (apply A2; [exact Hlt1|cbn; congruence|apply above_prefix]).
  assert (F2r5 : F2 (mk_hnd tid ([ci] ++ [oi])) = mk_hnd tid ([ci] ++ [oi])) by (apply A2; [exact Hlt1|cbn; congruence|apply above_self]).
  set (rsB := map (option_map F2) rsA) in *.
  assert (HB1 : nth_error rsB rk = Some (Some (mk_hnd tid [ci]))).
  { unfold rsB. rewrite (nth_error_map_reg F2 _ _ (mk_hnd tid [ci])); [now rewrite F2r1|]. unfold rsA. now apply nth_error_app_l. }
  assert (HB4 : nth_error rsB rm = Some (Some (mk_hnd tr (pp ++ [pj])))).
  { unfold rsB. rewrite (nth_error_map_reg F2 _ _ _ HmA). fold pn. now rewrite Fr2. }
  assert (HB5 : nth_error rsB n = Some (Some (mk_hnd tid ([ci] ++ [oi])))).
  { unfold rsB. rewrite (nth_error_map_reg F2 _ _ (mk_hnd tid ([ci] ++ [oi]))); [now rewrite F2r5|]. unfold rsA. now apply nth_error_app_l. }
  destruct (splice_replace_sub_x ts2 rsB rk rm tid ri T1' [ci] ENTRY pre O1' post tr rr Tp2 pp pj C HB1 HB4 T2 HGe1 N2 HGc Hne)
    as (ts3 & F3 & R3 & L3 & T3 & S3 & A3 & O3 & B3).
  assert (ET3 : upd_path T1' [ci] (fun _ => Node ENTRY (pre ++ C :: post)) = upd_path T [ci] (fun _ => Node ENTRY (pre ++ C :: post))).
  { unfold T1'. now rewrite (upd_path_const2 _ _ _ _ _ HGe). }
  rewrite ET3 in T3.
  assert (EC : C = dressed O (Node RELATION ncs)).
  { unfold dressed, O, C. cbn [children set_children ekind]. unfold ws_head, strip_ws. rewrite Hh, Wh. cbn [firstn skipn app].
    fold kn. fold ncore. fold tl. reflexivity. }
  assert (Hlt2 : tid < length ts2) by lia.
  exists ts3, (fun g => F3 (F2 (F1 g))). split; [|split; [|split; [|split]]].
  - unfold entry_replace. cbn [fx_replace_ws fixed]. unfold entry_replace_fixed.
    rbind; [|apply runs_set_reg].
    eapply runs_eq; [apply runs_scoped|reflexivity|].
    + rbind; [apply runs_get_reg; exact Hk|].
      rbind; [eapply runs_children_of; [exact HT|exact HGe]|].
      cbn [children E]. rewrite Hidx. unfold child_h. cbn [h_tid h_path]. fold oi.
      rbind; [apply runs_push_tmp|]. fold rs6. fold n.
      rbind; [rbind; [apply runs_get_reg; exact Hm6|]; eapply runs_children_of; [exact HR|exact HGn]|].
      cbn [s_tree children]. rewrite Wh. cbn [m_repeat skipn]. rbind; [rdone|]. fold kn. rewrite <- Lntl.
      rbind; [exact R1|]. fold rs6'.
      rbind; [apply runs_get_reg; exact Hn6'|].
      rbind; [eapply runs_children_of; [exact HT1|exact HGo]|]. cbn [children O].
      unfold ws_head_handles. rewrite Hh. cbn [seq map push_tmps]. rbind; [rdone|].
      fold hs. rbind; [apply runs_push_tmps|]. fold rsA. rewrite L6', Lhs.
      rbind; [eapply splice_nil_runs; [exact HmA|exact T1|reflexivity|exact HGn1]|].
      rbind; [rbind; [apply runs_get_reg; exact HmA|]; eapply runs_children_of; [exact T1|exact HGn1]|].
      cbn [s_tree children].
      rbind.
      { unfold m_splice. rbind; [apply runs_get_reg; exact HmA|]. cbn [h_tid].
        rbind; [eapply runs_get_slot; exact T1|]. cbn [s_mut negb].
        rbind; [eapply runs_children_of; [exact T1|exact HGn1]|]. cbn [s_tree children].
        rewrite Nat.ltb_irrefl. cbn [andb]. rbind; [rdone|]. exact R2. }
      fold rsB.
      rbind; [rbind; [apply runs_get_reg; exact HB5|]; unfold index_of; rewrite parent_h_app; rdone|].
      exact R3.
    + cbn [regs]. unfold rsB, rsA, rs6', rs6. rewrite !map_app, <- !app_assoc.
      rewrite firstn_exact by (now rewrite !map_length). now rewrite !map_option_map_comp.
  - rewrite T3, EC. reflexivity.
  - intros j0 Hj1 Hj2 Hj3. rewrite O3 by lia. rewrite O2 by lia. now apply O1.
  - intros g Hg Ht Ha. rewrite A1 by (now apply above_other).
    rewrite A2 by (auto; try lia; now apply above_deeper). apply A3; [lia|exact Ht|exact Ha].
  - intros c rest Hc. rewrite F1t. rewrite A2; [now apply B3|exact Hlt1|cbn; congruence|]. apply (above_sibling tid [ci] oi c [] rest). congruence.
Qed.
