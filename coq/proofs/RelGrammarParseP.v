(* The relations parser on the token lists of well-formed relationship fields:
   parse_tokens allow (rtoks f) = Ok (rtree_of f, 0).
   Symbolic evaluation of the state machine of RelParse.v: every routine is run on an explicit
   state  mk_pst (tokens of a construct ++ rest) out n fl  and shown to end in
   mk_pst rest (out ++ the construct's elements) n fl. *)
From V.model Require Import Base RelLex RelParse RelAcc RelGrammar.
From V.proofs Require Import BaseP RelLexP RelParseP RelGrammarLexP.

Transparent bump skip_ws error expect in_node out_of_fuel version_text version_run cur_is_vtok.

(* ---- basic moves on explicit states ---- *)
Definition hd_kind (ts : list rtoken) : option rkind := match ts with [] => None | (k, _) :: _ => Some k end.
(* the token list does not start with whitespace *)
Definition nowsk (ts : list rtoken) : Prop :=
  match hd_kind ts with Some k => is_ws_kind k = false | None => True end.

Lemma bump_cons k s r out n fl : bump (mk_pst ((k, s) :: r) out n fl) = mk_pst r (out ++ [Tok k s]) n fl.
Proof. reflexivity. Qed.

Lemma in_node_eq k body ts out n fl :
  in_node k body (mk_pst ts out n fl) =
  mk_pst (toks (body (mk_pst ts [] n fl))) (out ++ [Node k (RelParse.out (body (mk_pst ts [] n fl)))])
         (nerr (body (mk_pst ts [] n fl))) (flag (body (mk_pst ts [] n fl))).
Proof. reflexivity. Qed.

Lemma in_node_to k body ts out n fl ts' out' n' fl' :
  body (mk_pst ts [] n fl) = mk_pst ts' out' n' fl' ->
  in_node k body (mk_pst ts out n fl) = mk_pst ts' (out ++ [Node k out']) n' fl'.
Proof. intros H. rewrite in_node_eq, H. reflexivity. Qed.

Lemma ws_toks_kinds w : Forall (fun t => is_ws_kind (fst t) = true) (ws_toks w).
Proof.
  induction w as [|c r IH]; cbn [ws_toks]; [constructor|].
  destruct (c =? 10)%N; [constructor; [reflexivity|exact IH]|].
  destruct (ws_toks r) as [|[k x] t]; [repeat constructor|].
  inversion IH as [|? ? Hk Ht]; subst. cbn [fst] in Hk.
  destruct k; try discriminate; constructor; try reflexivity; try assumption; constructor; assumption.
Qed.

Lemma skip_ws_l_all l : forall rest, Forall (fun t => is_ws_kind (fst t) = true) l -> nowsk rest ->
  skip_ws_l (l ++ rest) = (elems l, rest).
Proof.
  induction l as [|[k s] t IH]; intros rest Hl Hr.
  - cbn [app elems map]. destruct rest as [|[k s] r]; [reflexivity|]. unfold nowsk in Hr. cbn in Hr.
    cbn [skip_ws_l]. rewrite Hr. reflexivity.
  - inversion Hl as [|? ? Hk Ht]; subst. cbn [fst] in Hk. cbn [app skip_ws_l]. rewrite Hk, (IH rest Ht Hr). reflexivity.
Qed.

Lemma skip_ws_ws w rest out n fl : nowsk rest ->
  skip_ws (mk_pst (ws_toks w ++ rest) out n fl) = mk_pst rest (out ++ ws_elems w) n fl.
Proof. intros H. unfold skip_ws. cbn [toks]. rewrite (skip_ws_l_all _ rest (ws_toks_kinds w) H). reflexivity. Qed.

Lemma skip_ws_end w out n fl : skip_ws (mk_pst (ws_toks w) out n fl) = mk_pst [] (out ++ ws_elems w) n fl.
Proof. pose proof (skip_ws_ws w [] out n fl I) as E. rewrite app_nil_r in E. exact E. Qed.

Lemma skip_ws_none rest out n fl : nowsk rest -> skip_ws (mk_pst rest out n fl) = mk_pst rest out n fl.
Proof. intros H. pose proof (skip_ws_ws [] rest out n fl H) as E. cbn [ws_toks ws_elems elems map app] in E. rewrite app_nil_r in E. exact E. Qed.

Lemma peek_all l : forall rest, Forall (fun t => is_ws_kind (fst t) = true) l ->
  peek_past_ws_l (l ++ rest) = peek_past_ws_l rest.
Proof.
  induction l as [|[k s] t IH]; intros rest Hl; [reflexivity|].
  inversion Hl as [|? ? Hk Ht]; subst. cbn [fst] in Hk. cbn [app peek_past_ws_l]. rewrite Hk. apply IH, Ht.
Qed.

Lemma peek_ws w rest : peek_past_ws_l (ws_toks w ++ rest) = peek_past_ws_l rest.
Proof. apply peek_all, ws_toks_kinds. Qed.

Lemma peek_nowsk rest : nowsk rest -> peek_past_ws_l rest = hd_kind rest.
Proof.
  destruct rest as [|[k s] r]; [reflexivity|]. unfold nowsk. cbn. intros H. rewrite H. reflexivity.
Qed.

(* the head of  whitespace ++ x  when it matters only that it is not some non-whitespace kind *)
Lemma hd_ws_app w x : hd_kind (ws_toks w ++ x) = match hd_kind (ws_toks w) with Some k => Some k | None => hd_kind x end.
Proof. destruct (ws_toks w) as [|[k s] t]; reflexivity. Qed.

Lemma hd_ws_kind w k : hd_kind (ws_toks w) = Some k -> is_ws_kind k = true.
Proof.
  pose proof (ws_toks_kinds w) as H. destruct (ws_toks w) as [|[k' s] t]; [discriminate|].
  inversion H; subst. cbn. intros E. injection E as <-. assumption.
Qed.

Lemma cur_is_eq ts out n fl k :
  cur_is (mk_pst ts out n fl) k = match hd_kind ts with Some k' => rkind_eqb k' k | None => false end.
Proof. unfold cur_is, current. cbn [toks]. destruct ts as [|[k' s] r]; reflexivity. Qed.

Lemma current_eq ts out n fl : current (mk_pst ts out n fl) = hd_kind ts.
Proof. unfold current. cbn [toks]. destruct ts as [|[k' s] r]; reflexivity. Qed.

(* a non-whitespace kind is not at the head of  whitespace ++ x  unless it is at the head of x *)
Lemma cur_is_ws_false w x out n fl k :
  is_ws_kind k = false -> cur_is (mk_pst x out n fl) k = false ->
  cur_is (mk_pst (ws_toks w ++ x) out n fl) k = false.
Proof.
  intros Hk Hx. rewrite cur_is_eq in *. rewrite hd_ws_app.
  destruct (hd_kind (ws_toks w)) as [k'|] eqn:E; [|exact Hx].
  apply hd_ws_kind in E. destruct k'; try discriminate; destruct k; try discriminate; reflexivity.
Qed.

Lemma nowsk_cons k s r : is_ws_kind k = false -> nowsk ((k, s) :: r).
Proof. intros H. exact H. Qed.

Lemma elems_app a b : elems (a ++ b) = elems a ++ elems b.
Proof. apply map_app. Qed.

Lemma expect_hit_ident s r out n fl : expect IDENT (mk_pst ((IDENT, s) :: r) out n fl) = mk_pst r (out ++ [Tok IDENT s]) n fl.
Proof. reflexivity. Qed.

(* ---- ( op version ) ---- *)
Lemma bump_constraint_stop w s r :
  bump_constraint (ws_toks w ++ (IDENT, s) :: r) = ([], ws_toks w ++ (IDENT, s) :: r).
Proof.
  pose proof (ws_toks_kinds w) as H. destruct (ws_toks w) as [|[k x] t]; [reflexivity|].
  inversion H; subst. cbn [fst] in *. cbn [app bump_constraint]. destruct k; try discriminate; reflexivity.
Qed.

Lemma constraint_vop o w s r out n fl :
  constraint_node (mk_pst (vop_toks o ++ ws_toks w ++ (IDENT, s) :: r) out n fl) =
  mk_pst (ws_toks w ++ (IDENT, s) :: r) (out ++ [Node CONSTRAINT (elems (vop_toks o))]) n fl.
Proof.
  unfold constraint_node. apply in_node_to. cbn [toks RelParse.out nerr flag].
  destruct o; cbn [vop_toks app bump_constraint]; rewrite bump_constraint_stop; reflexivity.
Qed.

Definition colon_toks (ps : list str) : list rtoken := flat_map (fun p => [(COLON, [58%N]); (IDENT, p)]) ps.
Definition vhead (v : vclause) : str := match v_epoch v with Some e => e | None => v_ver v end.
Definition vtail (v : vclause) : list str := match v_epoch v with Some _ => v_ver v :: v_more v | None => v_more v end.

Lemma vtext_toks_shape v : vtext_toks v = (IDENT, vhead v) :: colon_toks (vtail v).
Proof. unfold vtext_toks, vhead, vtail, colon_toks. destruct (v_epoch v); reflexivity. Qed.

Lemma cur_is_vtok_eq ts out n fl :
  cur_is_vtok (mk_pst ts out n fl) =
  match hd_kind ts with Some IDENT | Some COLON => true | _ => false end.
Proof. unfold cur_is_vtok. rewrite !cur_is_eq. destruct (hd_kind ts) as [k|]; [destruct k|]; reflexivity. Qed.

Lemma cur_is_vtok_stop w x r out n fl : cur_is_vtok (mk_pst (ws_toks w ++ (R_PARENS, x) :: r) out n fl) = false.
Proof. unfold cur_is_vtok. rewrite !cur_is_ws_false; reflexivity. Qed.

(* the run of IDENT and COLON tokens of a version is consumed as a whole *)
Lemma version_run_all l : forall fuel w x r out n fl,
  Forall (fun t => fst t = IDENT \/ fst t = COLON) l -> length l <= fuel ->
  version_run fuel (mk_pst (l ++ ws_toks w ++ (R_PARENS, x) :: r) out n fl) =
  mk_pst (ws_toks w ++ (R_PARENS, x) :: r) (out ++ elems l) n fl.
Proof.
  induction l as [|[k s] t IH]; intros fuel w x r out n fl Hl Hf.
  - cbn [app elems map]. rewrite app_nil_r. destruct fuel; cbn [version_run]; rewrite cur_is_vtok_stop; reflexivity.
  - inversion Hl as [|? ? Hk Ht]; subst. cbn [fst] in Hk.
    destruct fuel as [|f]; [cbn in Hf; lia|]. cbn [app version_run]. rewrite cur_is_vtok_eq. cbn [hd_kind].
    destruct Hk as [-> | ->]; rewrite bump_cons, IH by (assumption || (cbn in Hf; lia));
      change (elems ((?k, s) :: t)) with (Tok k s :: elems t); rewrite <- app_assoc; reflexivity.
Qed.

Lemma vtext_toks_kinds v : Forall (fun t => fst t = IDENT \/ fst t = COLON) (vtext_toks v).
Proof.
  rewrite vtext_toks_shape. constructor; [left; reflexivity|]. unfold colon_toks.
  induction (vtail v) as [|p ps IH]; cbn [flat_map app]; [constructor|].
  constructor; [right; reflexivity|]. constructor; [left; reflexivity|exact IH].
Qed.

Lemma version_text_vtext v w x r out n fl :
  version_text (mk_pst (vtext_toks v ++ ws_toks w ++ (R_PARENS, x) :: r) out n fl) =
  mk_pst (ws_toks w ++ (R_PARENS, x) :: r) (out ++ elems (vtext_toks v)) n fl.
Proof.
  unfold version_text. rewrite cur_is_vtok_eq.
  assert (E : hd_kind (vtext_toks v ++ ws_toks w ++ (R_PARENS, x) :: r) = Some IDENT) by (rewrite vtext_toks_shape; reflexivity).
  rewrite E. apply version_run_all; [apply vtext_toks_kinds|].
  unfold loop_fuel. cbn [toks]. rewrite app_length. lia.
Qed.

Lemma nowsk_vop o x : nowsk (vop_toks o ++ x).
Proof. destruct o; reflexivity. Qed.

Lemma nowsk_vtext v x : nowsk (vtext_toks v ++ x).
Proof. rewrite vtext_toks_shape. reflexivity. Qed.

Lemma hd_vtext v x : exists s r, vtext_toks v ++ x = (IDENT, s) :: r.
Proof. rewrite vtext_toks_shape. cbn [app]. eauto. Qed.

Lemma rel_version_hit w0 v rest out n fl :
  rel_version (mk_pst (ws_toks w0 ++ vbody_toks v ++ rest) out n fl) =
  mk_pst rest (out ++ ws_elems w0 ++ [vnode v]) n fl.
Proof.
  unfold rel_version, peek_is, peek_past_ws. cbn [toks]. rewrite peek_ws.
  unfold vbody_toks at 1. cbn [app peek_past_ws_l is_ws_kind rkind_eqb rkind_code N.eqb Pos.eqb]. cbv zeta.
  rewrite skip_ws_ws by reflexivity.
  rewrite app_assoc. apply in_node_to.
  unfold vbody_toks. cbn [app]. rewrite bump_cons. rewrite <- !app_assoc.
  rewrite skip_ws_ws by apply nowsk_vop.
  destruct (hd_vtext v (ws_toks (v_ws3 v) ++ [(R_PARENS, [41%N])] ++ rest)) as (s & r & E).
  rewrite E. rewrite constraint_vop. rewrite skip_ws_ws by reflexivity. rewrite <- E.
  cbn [app]. rewrite version_text_vtext. rewrite skip_ws_ws by reflexivity.
  unfold expect. rewrite cur_is_eq. cbn [hd_kind rkind_eqb rkind_code N.eqb Pos.eqb]. rewrite bump_cons.
  unfold vnode. cbn [app]. rewrite <- !app_assoc. reflexivity.
Qed.

Lemma rel_version_miss ts out n fl : peek_past_ws_l ts <> Some L_PARENS ->
  rel_version (mk_pst ts out n fl) = mk_pst ts out n fl.
Proof.
  intros H. unfold rel_version, peek_is, peek_past_ws. cbn [toks].
  destruct (peek_past_ws_l ts) as [k|]; [|reflexivity]. destruct k; try reflexivity. congruence.
Qed.

(* ---- [ arch ... ] ---- *)

Lemma nowsk_neg b s x : nowsk (neg_toks b ++ (IDENT, s) :: x).
Proof. destruct b; reflexivity. Qed.

Lemma arch_loop_terms terms : forall fuel w1 x rest out n fl,
  length (flat_map term_toks terms) < fuel ->
  arch_loop fuel (mk_pst (flat_map term_toks terms ++ ws_toks w1 ++ (R_BRACKET, x) :: rest) out n fl) =
  mk_pst rest (out ++ elems (flat_map term_toks terms) ++ ws_elems w1 ++ [Tok R_BRACKET x]) n fl.
Proof.
  induction terms as [|t r IH]; intros fuel w1 x rest out n fl Hf.
  - destruct fuel as [|f]; [cbn in Hf; lia|]. cbn [flat_map app arch_loop elems map]. cbv zeta.
    rewrite skip_ws_ws by reflexivity. rewrite current_eq. cbn [hd_kind]. rewrite bump_cons.
    rewrite <- app_assoc. reflexivity.
  - destruct t as [tw b name]. cbn [flat_map] in Hf |- *. rewrite app_length in Hf.
    unfold term_toks at 1 in Hf. unfold term_toks at 1. cbn [t_ws t_neg t_name] in Hf |- *.
    rewrite <- !app_assoc. destruct fuel as [|f]; [lia|]. cbn [arch_loop]. cbv zeta.
    rewrite skip_ws_ws by apply nowsk_neg.
    destruct b; cbn [neg_toks app] in Hf |- *; rewrite current_eq; cbn [hd_kind]; rewrite bump_cons.
    + destruct f as [|f']; [rewrite !app_length in Hf; cbn in Hf; lia|]. cbn [arch_loop]. cbv zeta.
      rewrite skip_ws_none by reflexivity. rewrite current_eq. cbn [hd_kind]. rewrite bump_cons.
      rewrite IH by (rewrite !app_length in Hf; cbn in Hf; lia).
      unfold term_toks. cbn [neg_toks t_ws t_neg t_name]. rewrite !elems_app. cbn [elems map fst snd tk app]. unfold ws_elems.
      rewrite <- !app_assoc. reflexivity.
    + rewrite IH by (rewrite !app_length in Hf; cbn in Hf; lia).
      unfold term_toks. cbn [neg_toks t_ws t_neg t_name]. rewrite !elems_app. cbn [elems map fst snd tk app]. unfold ws_elems.
      rewrite <- !app_assoc. reflexivity.
Qed.

Lemma rel_archs_hit w0 g rest out n fl :
  rel_archs (mk_pst (ws_toks w0 ++ arch_body_toks g ++ rest) out n fl) =
  mk_pst rest (out ++ ws_elems w0 ++ [arch_node g]) n fl.
Proof.
  unfold rel_archs, peek_is, peek_past_ws. cbn [toks]. rewrite peek_ws.
  unfold arch_body_toks, group_body_toks at 1. cbn [app peek_past_ws_l is_ws_kind rkind_eqb rkind_code N.eqb Pos.eqb]. cbv zeta.
  rewrite skip_ws_ws by reflexivity.
  rewrite app_assoc. apply in_node_to.
  unfold group_body_toks. cbn [app]. rewrite bump_cons. rewrite <- !app_assoc. cbn [app].
  rewrite arch_loop_terms.
  - unfold arch_node, group_node, group_body_toks. cbn [elems map fst snd tk app].
    rewrite !elems_app. cbn [elems map fst snd tk app]. reflexivity.
  - unfold loop_fuel. cbn [toks]. rewrite app_length. lia.
Qed.

Lemma rel_archs_miss ts out n fl : peek_past_ws_l ts <> Some L_BRACKET ->
  rel_archs (mk_pst ts out n fl) = mk_pst ts out n fl.
Proof.
  intros H. unfold rel_archs, peek_is, peek_past_ws. cbn [toks].
  destruct (peek_past_ws_l ts) as [k|]; [|reflexivity]. destruct k; try reflexivity. congruence.
Qed.

(* ---- < profile ... > ---- *)
Lemma profile_loop_terms terms : forall fuel w1 x rest out n fl,
  length (flat_map term_toks terms) < fuel ->
  profile_loop fuel (mk_pst (flat_map term_toks terms ++ ws_toks w1 ++ (R_ANGLE, x) :: rest) out n fl) =
  mk_pst rest (out ++ elems (flat_map term_toks terms) ++ ws_elems w1 ++ [Tok R_ANGLE x]) n fl.
Proof.
  induction terms as [|t r IH]; intros fuel w1 x rest out n fl Hf.
  - destruct fuel as [|f]; [cbn in Hf; lia|]. cbn [flat_map app profile_loop elems map]. cbv zeta.
    rewrite skip_ws_ws by reflexivity. rewrite current_eq. cbn [hd_kind]. rewrite bump_cons.
    rewrite <- app_assoc. reflexivity.
  - destruct t as [tw b name]. cbn [flat_map] in Hf |- *. rewrite app_length in Hf.
    unfold term_toks at 1 in Hf. unfold term_toks at 1. cbn [t_ws t_neg t_name] in Hf |- *.
    rewrite <- !app_assoc. destruct fuel as [|f]; [lia|]. cbn [profile_loop]. cbv zeta.
    rewrite skip_ws_ws by apply nowsk_neg.
    destruct b; cbn [neg_toks app] in Hf |- *; rewrite current_eq; cbn [hd_kind]; rewrite bump_cons.
    + rewrite skip_ws_none by reflexivity. unfold expect. rewrite cur_is_eq. cbn [hd_kind rkind_eqb rkind_code N.eqb].
      rewrite bump_cons.
      rewrite IH by (rewrite !app_length in Hf; cbn in Hf; lia).
      unfold term_toks. cbn [neg_toks t_ws t_neg t_name]. rewrite !elems_app. cbn [elems map fst snd tk app]. unfold ws_elems.
      rewrite <- !app_assoc. reflexivity.
    + rewrite IH by (rewrite !app_length in Hf; cbn in Hf; lia).
      unfold term_toks. cbn [neg_toks t_ws t_neg t_name]. rewrite !elems_app. cbn [elems map fst snd tk app]. unfold ws_elems.
      rewrite <- !app_assoc. reflexivity.
Qed.

Lemma profiles_while_groups ps : forall fuel rest out n fl,
  length ps < fuel -> peek_past_ws_l rest <> Some L_ANGLE ->
  profiles_while fuel (mk_pst (flat_map prof_toks ps ++ rest) out n fl) =
  mk_pst rest (out ++ flat_map prof_elems ps) n fl.
Proof.
  induction ps as [|g r IH]; intros fuel rest out n fl Hf Hp.
  - cbn [flat_map app]. rewrite app_nil_r.
    destruct fuel; cbn [profiles_while]; unfold peek_is, peek_past_ws; cbn [toks];
      (destruct (peek_past_ws_l rest) as [k|]; [|reflexivity]; destruct k; try reflexivity; congruence).
  - destruct fuel as [|f]; [cbn in Hf; lia|]. cbn [flat_map].
    unfold prof_toks at 1. rewrite <- !app_assoc. cbn [profiles_while].
    unfold peek_is, peek_past_ws. cbn [toks]. rewrite peek_ws.
    unfold prof_body_toks, group_body_toks at 1.
    cbn [app peek_past_ws_l is_ws_kind rkind_eqb rkind_code N.eqb Pos.eqb]. cbv zeta.
    rewrite skip_ws_ws by reflexivity.
    erewrite in_node_to.
    2:{ unfold group_body_toks. cbn [app]. rewrite bump_cons. rewrite <- !app_assoc. cbn [app].
        rewrite profile_loop_terms; [reflexivity|]. unfold loop_fuel. cbn [toks]. rewrite app_length. lia. }
    rewrite IH by (cbn in Hf; lia || exact Hp).
    unfold prof_elems at 2, prof_node, group_node, group_body_toks. cbn [elems map fst snd tk app].
    rewrite !elems_app. cbn [elems map fst snd tk app]. rewrite <- !app_assoc. reflexivity.
Qed.

(* ---- the part of a relation after its name ---- *)
(* a state in which the whitespace slot [w] in front of [T] has, or has not yet, been consumed *)
Definition slot_state (c : bool) (w : str) (T : list rtoken) (out : list rtree) (n : nat) (fl : N) : pst :=
  if c then mk_pst T (out ++ ws_elems w) n fl else mk_pst (ws_toks w ++ T) out n fl.

Lemma ws_elems_nil : ws_elems [] = [].
Proof. reflexivity. Qed.

Lemma rel_version_hit_c c w0 v rest out n fl :
  rel_version (slot_state c w0 (vbody_toks v ++ rest) out n fl) = mk_pst rest (out ++ ws_elems w0 ++ [vnode v]) n fl.
Proof.
  destruct c; cbn [slot_state]; [|apply rel_version_hit].
  change (vbody_toks v ++ rest) with (ws_toks [] ++ vbody_toks v ++ rest). rewrite rel_version_hit.
  rewrite ws_elems_nil. cbn [app]. rewrite <- app_assoc. reflexivity.
Qed.

Lemma rel_archs_hit_c c w0 g rest out n fl :
  rel_archs (slot_state c w0 (arch_body_toks g ++ rest) out n fl) = mk_pst rest (out ++ ws_elems w0 ++ [arch_node g]) n fl.
Proof.
  destruct c; cbn [slot_state]; [|apply rel_archs_hit].
  change (arch_body_toks g ++ rest) with (ws_toks [] ++ arch_body_toks g ++ rest). rewrite rel_archs_hit.
  rewrite ws_elems_nil. cbn [app]. rewrite <- app_assoc. reflexivity.
Qed.

Lemma profiles_while_hit_c c w0 g ps fuel rest out n fl :
  S (length ps) < fuel -> peek_past_ws_l rest <> Some L_ANGLE ->
  profiles_while fuel (slot_state c w0 (prof_body_toks g ++ flat_map prof_toks ps ++ rest) out n fl) =
  mk_pst rest (out ++ ws_elems w0 ++ [prof_node g] ++ flat_map prof_elems ps) n fl.
Proof.
  intros Hf Hp. destruct c; cbn [slot_state].
  - pose proof (profiles_while_groups (mk_group [] (g_terms g) (g_ws1 g) :: ps) fuel rest (out ++ ws_elems w0) n fl) as H.
    cbn [flat_map] in H. unfold prof_toks at 1, prof_elems at 1 in H. cbn [g_ws0 ws_toks app] in H.
    rewrite ws_elems_nil in H. cbn [app] in H. rewrite <- !app_assoc in H. cbn [app] in H.
    apply H; [cbn; lia|exact Hp].
  - pose proof (profiles_while_groups (mk_group w0 (g_terms g) (g_ws1 g) :: ps) fuel rest out n fl) as H.
    cbn [flat_map] in H. unfold prof_toks at 1, prof_elems at 1 in H. cbn [g_ws0] in H.
    rewrite <- !app_assoc in H. cbn [app] in H.
    apply H; [cbn; lia|exact Hp].
Qed.

Lemma peek_slot c w T out n fl : nowsk T -> peek_past_ws (slot_state c w T out n fl) = hd_kind T.
Proof.
  intros H. unfold peek_past_ws. destruct c; cbn [slot_state toks]; [|rewrite peek_ws]; apply peek_nowsk, H.
Qed.

Lemma rel_version_miss_c c w T out n fl : nowsk T -> hd_kind T <> Some L_PARENS ->
  rel_version (slot_state c w T out n fl) = slot_state c w T out n fl.
Proof.
  intros Hn Hh. pose proof (peek_slot c w T out n fl Hn) as P. unfold peek_past_ws in P.
  destruct c; cbn [slot_state toks] in *; apply rel_version_miss; rewrite P; exact Hh.
Qed.

Lemma rel_archs_miss_c c w T out n fl : nowsk T -> hd_kind T <> Some L_BRACKET ->
  rel_archs (slot_state c w T out n fl) = slot_state c w T out n fl.
Proof.
  intros Hn Hh. pose proof (peek_slot c w T out n fl Hn) as P. unfold peek_past_ws in P.
  destruct c; cbn [slot_state toks] in *; apply rel_archs_miss; rewrite P; exact Hh.
Qed.

Lemma profiles_while_miss_c c w T fuel out n fl : nowsk T -> hd_kind T <> Some L_ANGLE ->
  profiles_while fuel (slot_state c w T out n fl) = slot_state c w T out n fl.
Proof.
  intros Hn Hh. pose proof (peek_slot c w T out n fl Hn) as P.
  destruct fuel; cbn [profiles_while]; unfold peek_is; rewrite P;
    (destruct (hd_kind T) as [k|]; [|reflexivity]; destruct k; try reflexivity; congruence).
Qed.

(* what may follow a relation: nothing, "|" or "," *)
Definition sep_toks (rest : list rtoken) : Prop :=
  match hd_kind rest with None | Some PIPE | Some COMMA => True | _ => False end.

Lemma sep_nowsk rest : sep_toks rest -> nowsk rest.
Proof. unfold sep_toks, nowsk. destruct (hd_kind rest) as [k|]; [|trivial]. destruct k; try contradiction; reflexivity. Qed.

Lemma sep_hd rest k : sep_toks rest -> k <> PIPE -> k <> COMMA -> hd_kind rest <> Some k.
Proof. unfold sep_toks. destruct (hd_kind rest) as [k'|]; [|congruence]. destruct k'; try contradiction; congruence. Qed.

Lemma expect_hit s r out n fl : expect IDENT (mk_pst ((IDENT, s) :: r) out n fl) = mk_pst r (out ++ [Tok IDENT s]) n fl.
Proof. reflexivity. Qed.

(* rel_after_name when an architecture qualifier follows *)
Lemma after_name_qual q w T out n fl : nowsk T ->
  rel_after_name (mk_pst (qual_toks q ++ ws_toks w ++ T) out n fl) = slot_state true w T (out ++ qual_elems q) n fl.
Proof.
  intros Hn. unfold rel_after_name, peek_past_ws, qual_toks. cbn [toks]. rewrite <- !app_assoc. rewrite peek_ws.
  cbn [app peek_past_ws_l is_ws_kind]. cbv zeta.
  rewrite skip_ws_ws by reflexivity.
  erewrite in_node_to.
  2:{ rewrite bump_cons. rewrite <- !app_assoc. rewrite skip_ws_ws by reflexivity. cbn [app]. rewrite expect_hit. reflexivity. }
  rewrite skip_ws_ws by exact Hn. cbn [slot_state]. unfold qual_elems, qual_node. cbn [app].
  rewrite <- !app_assoc. reflexivity.
Qed.

(* ... when "(", "[", "<" or the end of the input follows the next whitespace slot *)
Lemma after_name_open w T out n fl : nowsk T ->
  match hd_kind T with None | Some L_PARENS | Some L_BRACKET | Some L_ANGLE => True | _ => False end ->
  rel_after_name (mk_pst (ws_toks w ++ T) out n fl) = slot_state true w T out n fl.
Proof.
  intros Hn Hh. unfold rel_after_name, peek_past_ws. cbn [toks]. rewrite peek_ws, (peek_nowsk T Hn).
  destruct (hd_kind T) as [k|]; [destruct k; try contradiction|]; rewrite skip_ws_ws by exact Hn; reflexivity.
Qed.

(* ... when "|" or "," follows *)
Lemma after_name_sep w T out n fl : nowsk T ->
  match hd_kind T with Some PIPE | Some COMMA => True | _ => False end ->
  rel_after_name (mk_pst (ws_toks w ++ T) out n fl) = slot_state false w T out n fl.
Proof.
  intros Hn Hh. unfold rel_after_name, peek_past_ws. cbn [toks]. rewrite peek_ws, (peek_nowsk T Hn).
  destruct (hd_kind T) as [k|]; [destruct k; try contradiction|contradiction]; reflexivity.
Qed.

(* ---- a whole relation ---- *)
Lemma len_profs ps : length ps <= length (flat_map prof_toks ps).
Proof.
  induction ps as [|g r IH]; cbn [flat_map length]; [lia|]. rewrite app_length.
  assert (1 <= length (prof_toks g))
    by (unfold prof_toks, prof_body_toks, group_body_toks; rewrite app_length; cbn [length]; lia).
  lia.
Qed.

Lemma len_prof_body g : 2 <= length (prof_body_toks g).
Proof. unfold prof_body_toks, group_body_toks. cbn [length]. rewrite !app_length. cbn [length]. lia. Qed.

Lemma peek_profs_tail ps trail rest k : sep_toks rest -> k <> PIPE -> k <> COMMA -> k <> L_ANGLE ->
  peek_past_ws_l (flat_map prof_toks ps ++ ws_toks trail ++ rest) <> Some k.
Proof.
  intros Hs H1 H2 H3. destruct ps as [|g r]; cbn [flat_map app].
  - rewrite peek_ws, (peek_nowsk rest (sep_nowsk _ Hs)). apply sep_hd; assumption.
  - unfold prof_toks at 1. rewrite <- !app_assoc. rewrite peek_ws. cbn. congruence.
Qed.

(* architectures and profiles, from a state in which nothing of them has been consumed *)
Lemma archs_profiles a ps trail rest out n fl : sep_toks rest ->
  profiles_while
    (loop_fuel (rel_archs (mk_pst (opt_toks arch_toks a ++ flat_map prof_toks ps ++ ws_toks trail ++ rest) out n fl)))
    (rel_archs (mk_pst (opt_toks arch_toks a ++ flat_map prof_toks ps ++ ws_toks trail ++ rest) out n fl)) =
  mk_pst (ws_toks trail ++ rest) (out ++ opt_elems arch_elems a ++ flat_map prof_elems ps) n fl.
Proof.
  intros Hs.
  assert (Hp : peek_past_ws_l (ws_toks trail ++ rest) <> Some L_ANGLE).
  { rewrite peek_ws, (peek_nowsk rest (sep_nowsk _ Hs)). apply sep_hd; [exact Hs|discriminate|discriminate]. }
  destruct a as [g|]; cbn [opt_toks opt_elems app].
  - unfold arch_toks. rewrite <- !app_assoc. rewrite rel_archs_hit.
    rewrite profiles_while_groups; [|unfold loop_fuel; cbn [toks]; rewrite app_length; pose proof (len_profs ps); lia|exact Hp].
    unfold arch_elems. rewrite <- !app_assoc. reflexivity.
  - rewrite rel_archs_miss by (apply peek_profs_tail; [exact Hs|discriminate..]).
    rewrite profiles_while_groups; [reflexivity|unfold loop_fuel; cbn [toks]; rewrite app_length; pose proof (len_profs ps); lia|exact Hp].
Qed.

Lemma len_slot c w T out n fl : length T <= length (toks (slot_state c w T out n fl)).
Proof. destruct c; cbn [slot_state toks]; [lia|rewrite app_length; lia]. Qed.

Definition rel_pipeline (st : pst) : pst :=
  let st := rel_archs (rel_version st) in profiles_while (loop_fuel st) st.

Lemma parse_relation_pipeline s :
  parse_relation s = in_node RELATION (fun st => rel_pipeline (rel_after_name (expect IDENT st))) s.
Proof. reflexivity. Qed.

(* the first whitespace slot after name[:qual] and what follows it *)
Definition tail_slot (v : option vclause) (a : option group) (ps : list group) (trail : str) : str :=
  match v, a, ps with
  | Some v, _, _ => v_ws0 v
  | None, Some g, _ => g_ws0 g
  | None, None, g :: _ => g_ws0 g
  | None, None, [] => trail
  end.
Definition tail_after (v : option vclause) (a : option group) (ps : list group) (trail : str) (rest : list rtoken) : list rtoken :=
  match v, a, ps with
  | Some v, _, _ => vbody_toks v ++ opt_toks arch_toks a ++ flat_map prof_toks ps ++ ws_toks trail ++ rest
  | None, Some g, _ => arch_body_toks g ++ flat_map prof_toks ps ++ ws_toks trail ++ rest
  | None, None, g :: ps' => prof_body_toks g ++ flat_map prof_toks ps' ++ ws_toks trail ++ rest
  | None, None, [] => rest
  end.
Definition no_comps (v : option vclause) (a : option group) (ps : list group) : bool :=
  match v, a, ps with None, None, [] => true | _, _, _ => false end.

Lemma tail_split v a ps trail rest :
  opt_toks vclause_toks v ++ opt_toks arch_toks a ++ flat_map prof_toks ps ++ ws_toks trail ++ rest =
  ws_toks (tail_slot v a ps trail) ++ tail_after v a ps trail rest.
Proof.
  destruct v as [v|]; [cbn [opt_toks tail_slot tail_after]; unfold vclause_toks; rewrite <- !app_assoc; reflexivity|].
  destruct a as [g|]; [cbn [opt_toks tail_slot tail_after app]; unfold arch_toks; rewrite <- !app_assoc; reflexivity|].
  destruct ps as [|g ps']; [reflexivity|].
  cbn [opt_toks tail_slot tail_after app flat_map]. unfold prof_toks at 1. rewrite <- !app_assoc. reflexivity.
Qed.

Lemma tail_after_nowsk v a ps trail rest : sep_toks rest -> nowsk (tail_after v a ps trail rest).
Proof.
  intros Hs. destruct v as [v|]; [reflexivity|]. destruct a as [g|]; [reflexivity|].
  destruct ps as [|g ps']; [apply sep_nowsk, Hs|reflexivity].
Qed.

Lemma tail_after_hd v a ps trail rest : no_comps v a ps = false ->
  match hd_kind (tail_after v a ps trail rest) with Some L_PARENS | Some L_BRACKET | Some L_ANGLE => True | _ => False end.
Proof.
  destruct v as [v|]; [intros _; exact I|]. destruct a as [g|]; [intros _; exact I|].
  destruct ps as [|g ps']; [discriminate|intros _; exact I].
Qed.

Lemma pipeline_tail c v a ps trail rest out n fl : sep_toks rest ->
  rel_pipeline (slot_state c (tail_slot v a ps trail) (tail_after v a ps trail rest) out n fl) =
  if no_comps v a ps then slot_state c trail rest out n fl
  else mk_pst (ws_toks trail ++ rest)
              (out ++ opt_elems vclause_elems v ++ opt_elems arch_elems a ++ flat_map prof_elems ps) n fl.
Proof.
  intros Hs. unfold rel_pipeline. cbv zeta.
  assert (Hp : peek_past_ws_l (ws_toks trail ++ rest) <> Some L_ANGLE).
  { rewrite peek_ws, (peek_nowsk rest (sep_nowsk _ Hs)). apply sep_hd; [exact Hs|discriminate|discriminate]. }
  destruct v as [v|]; cbn [tail_slot tail_after no_comps opt_elems].
  - rewrite rel_version_hit_c. rewrite (archs_profiles a ps trail rest _ n fl Hs).
    unfold vclause_elems. rewrite <- !app_assoc. reflexivity.
  - destruct a as [g|]; cbn [tail_slot tail_after no_comps opt_elems app].
    + rewrite rel_version_miss_c by (first [reflexivity|discriminate]).
      rewrite rel_archs_hit_c.
      rewrite profiles_while_groups; [|unfold loop_fuel; cbn [toks]; rewrite app_length; pose proof (len_profs ps); lia|exact Hp].
      unfold arch_elems. rewrite <- !app_assoc. reflexivity.
    + destruct ps as [|g ps']; cbn [tail_slot tail_after no_comps flat_map].
      * pose proof (sep_nowsk _ Hs) as Hn.
        rewrite rel_version_miss_c by (first [exact Hn|apply sep_hd; [exact Hs|discriminate..]]).
        rewrite rel_archs_miss_c by (first [exact Hn|apply sep_hd; [exact Hs|discriminate..]]).
        rewrite profiles_while_miss_c by (first [exact Hn|apply sep_hd; [exact Hs|discriminate..]]). reflexivity.
      * rewrite rel_version_miss_c by (first [reflexivity|discriminate]).
        rewrite rel_archs_miss_c by (first [reflexivity|discriminate]).
        rewrite profiles_while_hit_c; [|
          unfold loop_fuel; pose proof (len_slot c (g_ws0 g) (prof_body_toks g ++ flat_map prof_toks ps' ++ ws_toks trail ++ rest) out n fl) as L;
          rewrite !app_length in L; pose proof (len_prof_body g); pose proof (len_profs ps'); lia|exact Hp].
        unfold prof_elems at 2. rewrite <- !app_assoc. reflexivity.
Qed.

Theorem parse_relation_rel r rest out n fl : sep_toks rest ->
  parse_relation (mk_pst (rel_toks r ++ rest) out n fl) =
  mk_pst (ws_toks (rel_left r (is_nil rest)) ++ rest) (out ++ [rel_tree r (is_nil rest)]) n fl.
Proof.
  intros Hs. destruct r as [name q v a ps trail].
  unfold rel_toks, rel_core_toks, rel_left, rel_tree, owns_trail. cbn [r_name r_qual r_ver r_archs r_profs r_trail].
  rewrite parse_relation_pipeline. apply in_node_to.
  cbn [app]. rewrite expect_hit. rewrite <- !app_assoc. rewrite tail_split.
  pose proof (tail_after_nowsk v a ps trail rest Hs) as Hn.
  destruct q as [q|]; cbn [opt_toks opt_elems app].
  - rewrite after_name_qual by exact Hn. rewrite pipeline_tail by exact Hs.
    destruct v as [v|]; [|destruct a as [g|]; [|destruct ps as [|g ps']]];
      cbn [no_comps slot_state opt_elems app flat_map]; rewrite <- ?app_assoc; cbn [app]; rewrite ?app_nil_r; reflexivity.
  - destruct (no_comps v a ps) eqn:Enc.
    + destruct v as [v|]; [discriminate|]. destruct a as [g|]; [discriminate|]. destruct ps as [|g ps']; [|discriminate].
      cbn [tail_slot tail_after opt_elems flat_map app] in *.
      destruct rest as [|[k s] rest']; cbn [is_nil].
      * rewrite after_name_open by (first [exact Hn|exact I]).
        pose proof (pipeline_tail true None None [] trail [] [Tok IDENT name] n fl Hs) as P.
        cbn [tail_slot tail_after no_comps slot_state app] in P |- *. rewrite P. reflexivity.
      * unfold sep_toks in Hs. cbn [hd_kind] in Hs.
        rewrite after_name_sep by (first [exact Hn|cbn [hd_kind]; destruct k; try contradiction; exact I]).
        pose proof (pipeline_tail false None None [] trail ((k, s) :: rest') [Tok IDENT name] n fl) as P.
        cbn [tail_slot tail_after no_comps slot_state app] in P |- *. rewrite P by (unfold sep_toks; cbn [hd_kind]; exact Hs).
        rewrite ?app_nil_r. reflexivity.
    + pose proof (tail_after_hd v a ps trail rest Enc) as Hh.
      rewrite after_name_open; [|exact Hn|destruct (hd_kind (tail_after v a ps trail rest)) as [k|]; [destruct k; try contradiction; exact I|contradiction]].
      rewrite pipeline_tail by exact Hs. rewrite Enc.
      destruct v as [v|]; [|destruct a as [g|]; [|destruct ps as [|g ps']; [discriminate|]]];
        cbn [opt_elems app flat_map]; rewrite <- ?app_assoc; cbn [app]; rewrite ?app_nil_r; reflexivity.
Qed.

(* ---- an entry: relations separated by "|" ---- *)
(* what may follow an entry: nothing or "," *)
Definition root_sep (rest : list rtoken) : Prop :=
  match hd_kind rest with None | Some COMMA => True | _ => False end.

Lemma root_sep_sep rest : root_sep rest -> sep_toks rest.
Proof. unfold root_sep, sep_toks. destruct (hd_kind rest) as [k|]; [|trivial]. destruct k; trivial. Qed.

Lemma nowsk_rels r alts x : nowsk (rels_toks r alts ++ x).
Proof. destruct alts as [|[w r'] alts']; reflexivity. Qed.

Lemma entry_loop_rels alts : forall r fuel rest out n fl,
  length alts < fuel -> root_sep rest ->
  entry_loop fuel (mk_pst (rels_toks r alts ++ rest) out n fl) =
  mk_pst (ws_toks (rels_left r alts (is_nil rest)) ++ rest) (out ++ rels_elems r alts (is_nil rest)) n fl.
Proof.
  induction alts as [|[w r'] alts IH]; intros r fuel rest out n fl Hf Hs;
    (destruct fuel as [|f]; [cbn in Hf; lia|]); cbn [entry_loop rels_toks rels_left rels_elems]; cbv zeta.
  - rewrite app_nil_r. rewrite parse_relation_rel by (apply root_sep_sep, Hs).
    unfold peek_past_ws. cbn [toks]. rewrite peek_ws, (peek_nowsk rest (sep_nowsk _ (root_sep_sep _ Hs))).
    destruct rest as [|[k s] rest']; cbn [hd_kind is_nil].
    + rewrite skip_ws_ws by exact I. cbn [ws_toks app]. rewrite <- app_assoc. reflexivity.
    + unfold root_sep in Hs. cbn [hd_kind] in Hs. destruct k; try contradiction. reflexivity.
  - rewrite <- app_assoc. cbn [app]. rewrite <- !app_assoc.
    rewrite parse_relation_rel by exact I. cbn [is_nil].
    unfold peek_past_ws. cbn [toks]. rewrite peek_ws. cbn [peek_past_ws_l is_ws_kind].
    rewrite skip_ws_ws by reflexivity. rewrite bump_cons.
    rewrite skip_ws_ws by apply nowsk_rels.
    rewrite IH by (cbn in Hf; lia || exact Hs). rewrite <- !app_assoc. reflexivity.
Qed.

Lemma len_rels alts : forall r, length alts <= length (rels_toks r alts).
Proof.
  induction alts as [|[w r'] alts IH]; intros r; cbn [rels_toks length]; [lia|].
  rewrite app_length. cbn [length]. rewrite app_length. specialize (IH r'). lia.
Qed.

Lemma parse_entry_rels r alts rest out n fl : root_sep rest ->
  parse_entry (mk_pst (rels_toks r alts ++ rest) out n fl) =
  mk_pst (ws_toks (rels_left r alts (is_nil rest)) ++ rest) (out ++ [Node ENTRY (rels_elems r alts (is_nil rest))]) n fl.
Proof.
  intros Hs. unfold parse_entry. cbv zeta. rewrite skip_ws_none by apply nowsk_rels.
  apply in_node_to. cbn [toks]. rewrite entry_loop_rels; [reflexivity| |exact Hs].
  rewrite app_length. pose proof (len_rels alts r). lia.
Qed.

(* ---- a substitution variable ---- *)
Lemma substvar_loop_inner l : forall fuel x rest out n fl,
  Forall (fun t => fst t = IDENT \/ fst t = COLON) l -> length l < fuel ->
  substvar_loop fuel (mk_pst (l ++ (R_CURLY, x) :: rest) out n fl) = mk_pst ((R_CURLY, x) :: rest) (out ++ elems l) n fl.
Proof.
  induction l as [|[k s] t IH]; intros fuel x rest out n fl Hl Hf; (destruct fuel as [|f]; [cbn in Hf; lia|]).
  - cbn [app substvar_loop elems map]. rewrite current_eq. cbn [hd_kind]. rewrite app_nil_r. reflexivity.
  - inversion Hl as [|? ? Hk Ht]; subst. cbn [fst] in Hk. cbn [app substvar_loop]. rewrite current_eq. cbn [hd_kind].
    destruct Hk as [-> | ->]; rewrite bump_cons; (rewrite IH; [|exact Ht|cbn in Hf; lia]);
      cbn [elems map fst snd tk]; rewrite <- app_assoc; reflexivity.
Qed.

Lemma subst_inner_kinds seg segs : Forall (fun t => fst t = IDENT \/ fst t = COLON) (subst_inner_toks seg segs).
Proof.
  unfold subst_inner_toks. constructor; [left; reflexivity|].
  induction segs as [|s r IH]; cbn [flat_map app]; [constructor|].
  constructor; [right; reflexivity|]. constructor; [left; reflexivity|exact IH].
Qed.

Lemma parse_substvar_subst seg segs rest out n fl :
  parse_substvar (mk_pst (subst_toks seg segs ++ rest) out n fl) = mk_pst rest (out ++ [subst_node seg segs]) n fl.
Proof.
  unfold parse_substvar. apply in_node_to. cbv zeta. unfold subst_toks. cbn [app].
  rewrite bump_cons. rewrite cur_is_eq. cbn [hd_kind rkind_eqb rkind_code N.eqb Pos.eqb]. rewrite bump_cons.
  rewrite <- app_assoc. cbn [app].
  rewrite substvar_loop_inner; [|apply subst_inner_kinds|unfold loop_fuel; cbn [toks]; rewrite app_length; lia].
  rewrite cur_is_eq. cbn [hd_kind rkind_eqb rkind_code N.eqb Pos.eqb]. rewrite bump_cons.
  cbn [elems map fst snd tk app]. rewrite elems_app. cbn [elems map fst snd tk app]. rewrite <- ?app_assoc. reflexivity.
Qed.

(* ---- the field: items separated by "," ---- *)
Lemma nowsk_items i more : nowsk (items_toks i more).
Proof.
  destruct i as [r alts|seg segs trail|].
  - destruct more as [|[w i'] more']; cbn [items_toks item_toks]; apply nowsk_rels.
  - destruct more as [|[w i'] more']; reflexivity.
  - destruct more as [|[w i'] more']; reflexivity.
Qed.

Lemma hd_rels r alts x : hd_kind (rels_toks r alts ++ x) = Some IDENT.
Proof. destruct alts as [|[w r'] alts']; reflexivity. Qed.

Lemma root_loop_items a more : forall i fuel out n,
  length more < fuel -> wf_item a i = true -> forallb (wf_more a) more = true ->
  root_loop a fuel (mk_pst (items_toks i more) out n 0%N) = mk_pst [] (out ++ items_elems i more) n 0%N.
Proof.
  induction more as [|[w i'] more IH]; intros i fuel out n Hf Hi Hm;
    (destruct fuel as [|f]; [cbn in Hf; lia|]); cbn [items_toks items_elems is_nil].
  - rewrite !app_nil_r. destruct i as [r alts|seg segs trail|]; cbn [item_toks item_elems].
    + cbn [root_loop]. rewrite current_eq. rewrite <- (app_nil_r (rels_toks r alts)). rewrite hd_rels. cbv zeta.
      rewrite parse_entry_rels by exact I. cbn [is_nil rels_left].
      assert (E : rels_left r alts true = []) by (clear; revert r; induction alts as [|[w r'] alts IH]; intros r; cbn [rels_left]; [reflexivity|apply IH]).
      rewrite E. cbn [ws_toks app]. rewrite skip_ws_none by exact I. rewrite current_eq. cbn [hd_kind].
      rewrite ws_elems_nil. reflexivity.
    + cbn [wf_item] in Hi. apply andb_true_iff in Hi. destruct Hi as [Hi _]. apply andb_true_iff in Hi. destruct Hi as [Hi _].
      apply andb_true_iff in Hi. destruct Hi as [Ha _]. subst a.
      cbn [root_loop]. rewrite current_eq. unfold subst_toks at 1. cbn [app hd_kind]. cbv zeta.
      change ((DOLLAR, [36%N]) :: (L_CURLY, [123%N]) :: (subst_inner_toks seg segs ++ [(R_CURLY, [125%N])]) ++ ws_toks trail)
        with (subst_toks seg segs ++ ws_toks trail ++ []).
      rewrite parse_substvar_subst. rewrite ?app_nil_r. rewrite skip_ws_end. rewrite current_eq. cbn [hd_kind].
      rewrite <- app_assoc. reflexivity.
    + cbn [root_loop]. rewrite current_eq. cbn [hd_kind]. rewrite app_nil_r. reflexivity.
  - cbn [forallb] in Hm. apply andb_true_iff in Hm. destruct Hm as [Hwi Hm]. unfold wf_more in Hwi. cbn [fst snd] in Hwi.
    apply andb_true_iff in Hwi. destruct Hwi as [_ Hi'].
    assert (Tail : forall out', root_loop a f (skip_ws (bump (mk_pst ((COMMA, [44%N]) :: ws_toks w ++ items_toks i' more) out' n 0%N))) =
                     mk_pst [] (out' ++ Tok COMMA [44%N] :: ws_elems w ++ items_elems i' more) n 0%N).
    { intros out'. rewrite bump_cons. rewrite skip_ws_ws by apply nowsk_items.
      rewrite IH by (cbn in Hf; lia || assumption). rewrite <- !app_assoc. reflexivity. }
    destruct i as [r alts|seg segs trail|]; cbn [item_toks item_elems].
    + cbn [root_loop]. rewrite current_eq. rewrite hd_rels. cbv zeta.
      rewrite parse_entry_rels by exact I. cbn [is_nil].
      rewrite skip_ws_ws by reflexivity. rewrite current_eq. cbn [hd_kind].
      rewrite Tail. rewrite <- !app_assoc. reflexivity.
    + cbn [wf_item] in Hi. apply andb_true_iff in Hi. destruct Hi as [Hi _]. apply andb_true_iff in Hi. destruct Hi as [Hi _].
      apply andb_true_iff in Hi. destruct Hi as [Ha _]. subst a.
      cbn [root_loop]. rewrite current_eq. unfold subst_toks at 1. cbn [app hd_kind]. cbv zeta.
      rewrite <- !app_assoc. rewrite parse_substvar_subst. rewrite skip_ws_ws by reflexivity. rewrite current_eq. cbn [hd_kind].
      rewrite Tail. rewrite <- !app_assoc. reflexivity.
    + cbn [app root_loop]. rewrite current_eq. cbn [hd_kind]. cbv zeta.
      rewrite skip_ws_none by reflexivity. rewrite current_eq. cbn [hd_kind].
      rewrite Tail. reflexivity.
Qed.

Lemma len_items more : forall i, length more <= length (items_toks i more).
Proof.
  induction more as [|[w i'] more IH]; intros i; cbn [items_toks length]; [lia|].
  rewrite app_length. cbn [length]. rewrite app_length. specialize (IH i'). lia.
Qed.

Theorem parse_rtoks a f : wf_rfield a f = true -> parse_tokens a (rtoks f) = Ok (rtree_of f, 0).
Proof.
  intros H. unfold wf_rfield in H. andb_split H. unfold parse_tokens, rtoks.
  erewrite in_node_to.
  2:{ cbv zeta. rewrite skip_ws_ws by apply nowsk_items. unfold loop_fuel. cbn [toks].
      rewrite (root_loop_items a); [reflexivity| |assumption|assumption].
      pose proof (len_items (f_rest f) (f_first f)). lia. }
  cbn [flag RelParse.out nerr app N.eqb]. reflexivity.
Qed.

Theorem parse_rrender a f : wf_rfield a f = true -> RelParse.parse (rrender f) a = Ok (rtree_of f, 0).
Proof.
  intros H. unfold RelParse.parse. rewrite (rlex_rrender a f H). apply parse_rtoks, H.
Qed.
