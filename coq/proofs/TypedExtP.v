(* C20, part 6: the stability law PROVED for the workspace's own codecs (model/TypedExt.v: C18's
   models of the keyword enumerations, License, Signature, Forwarded, AppliedUpstream, DEP-3 Origin,
   ParsedVcs; this cone's transcriptions of the environment map, the repository-type set and the
   URI list), each inside the guard of its known class where it has one:
     7  Signature   not (several lines and first line starting with '#')
     11 ParsedVcs   one line, at most one " [..]" group
     12 environment no "K=V" line starting with '#' other than the first of the sorted lines
   What remains a premise ([ext0_ok]): debversion::Version (1), url::Url (2, also: its text is a
   non-empty white-space free token), lossy Relations (3), chrono::NaiveDate (15). *)
From Coq Require Import ZArith Permutation.
From V.model Require Import Base CodecStr EnumTab Codecs Vcs Deb822Lex Deb822Parse Grammar Lossy LossySpec Derive TypedDocs TypedExt.
From V.gen Require Import Enums_gen Structs_gen.
From V.proofs Require Import BaseP CodecStrP EnumTabP CodecsP VcsP LossyRtP DeriveP TypedCodecP.

Local Open Scope N_scope.

(* ------------------------------------------------------------------ Vec<String>::sort, dedup: the facts used below *)
Lemma str_leb_total a : forall b, str_leb a b = false -> str_leb b a = true.
Proof.
  induction a as [|x a IH]; intros [|y b]; cbn [str_leb]; try discriminate; [reflexivity|].
  destruct (x <? y) eqn:E1; [discriminate|]. destruct (x =? y) eqn:E2.
  - apply N.eqb_eq in E2. subst y. rewrite E1, N.eqb_refl. apply IH.
  - intros _. apply N.ltb_ge in E1. apply N.eqb_neq in E2. assert (H : y < x) by lia. apply N.ltb_lt in H. rewrite H. reflexivity.
Qed.
Fixpoint sorted_str (l : list str) : bool :=
  match l with
  | [] => true
  | x :: r => match r with [] => true | y :: _ => str_leb x y end && sorted_str r
  end.
Lemma ins_sorted_sorted x l : sorted_str l = true -> sorted_str (ins_sorted x l) = true.
Proof.
  induction l as [|y r IH]; intros H; [reflexivity|]. cbn [ins_sorted]. destruct (str_leb x y) eqn:E.
  - cbn [sorted_str] in *. rewrite E, H. reflexivity.
  - cbn [sorted_str] in H. apply andb_true_iff in H. destruct H as [H1 H2]. specialize (IH H2).
    change (sorted_str (y :: ins_sorted x r)) with (match ins_sorted x r with [] => true | z :: _ => str_leb y z end && sorted_str (ins_sorted x r)).
    rewrite IH, andb_true_r. destruct r as [|z r']; cbn [ins_sorted]; [apply str_leb_total; exact E|].
    destruct (str_leb x z); [apply str_leb_total; exact E|exact H1].
Qed.
Lemma sort_sorted l : sorted_str (sort_str l) = true.
Proof. induction l as [|x r IH]; [reflexivity|]. cbn [sort_str fold_right]. apply ins_sorted_sorted. exact IH. Qed.
Lemma sort_of_sorted l : sorted_str l = true -> sort_str l = l.
Proof.
  induction l as [|x r IH]; intros H; [reflexivity|]. cbn [sorted_str] in H. apply andb_true_iff in H. destruct H as [H1 H2].
  cbn [sort_str fold_right]. fold (sort_str r). rewrite (IH H2). destruct r as [|y r']; [reflexivity|]. cbn [ins_sorted]. rewrite H1. reflexivity.
Qed.
Lemma ins_sorted_perm x l : Permutation (ins_sorted x l) (x :: l).
Proof.
  induction l as [|y r IH]; [apply Permutation_refl|]. cbn [ins_sorted]. destruct (str_leb x y); [apply Permutation_refl|].
  eapply Permutation_trans; [apply perm_skip; exact IH|apply perm_swap].
Qed.
Lemma sort_perm l : Permutation (sort_str l) l.
Proof.
  induction l as [|x r IH]; [apply Permutation_refl|]. cbn [sort_str fold_right]. fold (sort_str r).
  eapply Permutation_trans; [apply ins_sorted_perm|apply perm_skip; exact IH].
Qed.

Lemma existsb_str_eqb_In x l : existsb (str_eqb x) l = true <-> In x l.
Proof. apply existsb_str_In. Qed.
Lemma dedup_in x l : In x (dedup_str l) <-> In x l.
Proof.
  induction l as [|y r IH]; [tauto|]. cbn [dedup_str]. destruct (existsb (str_eqb y) r) eqn:E.
  - rewrite IH. cbn [In]. split; [tauto|]. intros [<-|H]; [apply existsb_str_eqb_In; exact E|exact H].
  - cbn [In]. rewrite IH. tauto.
Qed.
Lemma dedup_nodup l : NoDup (dedup_str l).
Proof.
  induction l as [|y r IH]; [constructor|]. cbn [dedup_str]. destruct (existsb (str_eqb y) r) eqn:E; [exact IH|].
  constructor; [|exact IH]. rewrite dedup_in. intros Hin. apply existsb_str_eqb_In in Hin. congruence.
Qed.
Lemma dedup_of_nodup l : NoDup l -> dedup_str l = l.
Proof.
  induction 1 as [|y r Hn _ IH]; [reflexivity|]. cbn [dedup_str]. destruct (existsb (str_eqb y) r) eqn:E.
  - apply existsb_str_eqb_In in E. contradiction.
  - rewrite IH. reflexivity.
Qed.

Lemma rr_join_lf ll ks : forallb ws_item ks = true -> rr ll (join [LF] ks) = join [LF] ks.
Proof.
  intros Hi. destruct ll; [|reflexivity]. cbn [rr]. destruct ks as [|w1 rest]; [reflexivity|].
  apply ll_norm_join; [|apply forallb_ws_no_lf; exact Hi]. cbn [forallb] in Hi. apply andb_true_iff in Hi. destruct Hi as [H1 _]. apply (ws_item_facts _ H1).
Qed.

(* ------------------------------------------------------------------ the premise about the remaining externals *)
Section Ext0.
Variable E0 : Type.
Variable p0 : N -> E0 -> str.
Variable q0 : N -> str -> option E0.
Notation X := (xval E0).
Notation xpr := (xprint E0 p0).
Notation xpa := (xparse E0 q0).

Definition ext0_ok (ll : bool) : Prop :=
  (forall i x e, In i [1; 2; 3; 15] -> dom ll x -> q0 i x = Some e ->
     pcanon ll (p0 i e) = true /\ q0 i (rr ll (p0 i e)) = Some e) /\
  (forall x e, q0 2 x = Some e -> ws_item (p0 2 e) = true).

(* the law for one codec *)
Definition law (ll : bool) (i : N) : Prop :=
  forall x e, xguard i x = true -> dom ll x -> xpa i x = Some e ->
    pcanon ll (xpr i e) = true /\ xpa i (rr ll (xpr i e)) = Some e.

(* a reader that prints back exactly the text it read *)
Lemma law_canonical ll i : (forall x e, xpa i x = Some e -> xpr i e = x) -> law ll i.
Proof.
  intros H x e _ Hx Hp. rewrite (H x e Hp). split; [apply (dom_pcanon _ _ Hx)|]. rewrite (rr_dom _ _ Hx). exact Hp.
Qed.

(* ---- 1, 2, 3, 15: the premise *)
Lemma law_ext ll i : ext0_ok ll -> In i [1; 2; 3; 15] -> law ll i.
Proof.
  intros [H0 _] Hi x e _ Hx Hp.
  assert (Hq : exists e0, e = XExt e0 /\ q0 i x = Some e0 /\ (forall y, xpa i y = option_map XExt (q0 i y)) /\ xpr i (XExt e0) = p0 i e0).
  { destruct Hi as [<-|[<-|[<-|[<-|[]]]]]; cbn [xparse] in Hp; destruct (q0 _ x) as [e0|] eqn:Eq; try discriminate;
      injection Hp as <-; exists e0; repeat split; reflexivity. }
  destruct Hq as (e0 & -> & Eq & Hpa & Hpr). rewrite Hpr. destruct (H0 i x e0 Hi Hx Eq) as [C1 C2]. split; [exact C1|].
  rewrite Hpa, C2. reflexivity.
Qed.

(* ---- 4, 5, 8: keyword enumerations *)
Lemma enum_text_parse t x v : enum_ok t = true -> et_pre t = PreNone -> enum_parse t x = Ok v -> enum_text t v = x.
Proof.
  intros Hok Hpre Hp. destruct (enum_canonical t Hok x v Hp) as (s' & Hs & Hpr & _).
  unfold enum_pre in Hs. rewrite Hpre in Hs. injection Hs as <-. unfold enum_text. rewrite Hpr. reflexivity.
Qed.
Lemma tabs_ok : enum_ok Priority_tab = true /\ enum_ok MultiArch_tab = true /\ enum_ok YesNoForce_tab = true /\
  enum_ok RepositoryType_tab = true /\ enum_ok OriginCategory_tab = true /\ origin_ok OriginCategory_tab parse_origin_tab = true /\
  et_pre Priority_tab = PreNone /\ et_pre MultiArch_tab = PreNone /\ et_pre YesNoForce_tab = PreNone /\ et_pre RepositoryType_tab = PreNone.
Proof. vm_compute. repeat split. Qed.

Lemma law_4 ll : law ll 4.
Proof.
  apply law_canonical. intros x e H. cbn [xparse] in H. destruct (enum_parse Priority_tab x) as [v| | |] eqn:Ep; try discriminate.
  injection H as <-. cbn [xprint]. apply enum_text_parse; [apply tabs_ok|apply tabs_ok|exact Ep].
Qed.
Lemma law_5 ll : law ll 5.
Proof.
  apply law_canonical. intros x e H. cbn [xparse] in H. destruct (enum_parse MultiArch_tab x) as [v| | |] eqn:Ep; try discriminate.
  injection H as <-. cbn [xprint]. apply enum_text_parse; [apply tabs_ok|apply tabs_ok|exact Ep].
Qed.
Lemma law_8 ll : law ll 8.
Proof.
  apply law_canonical. intros x e H. cbn [xparse] in H. destruct (enum_parse YesNoForce_tab x) as [v| | |] eqn:Ep; try discriminate.
  injection H as <-. cbn [xprint]. apply enum_text_parse; [apply tabs_ok|apply tabs_ok|exact Ep].
Qed.

(* ---- 6, 9, 10: readers that are canonical in C18's sense *)
Lemma law_6 ll : law ll 6.
Proof.
  apply law_canonical. intros x e H. cbn [xparse] in H. destruct (license_from_str x) as [v| | |] eqn:Ep; try discriminate.
  injection H as <-. cbn [xprint]. apply license_canonical. exact Ep.
Qed.
Lemma law_9 ll : law ll 9.
Proof.
  apply law_canonical. intros x e H. cbn [xparse] in H. destruct (forwarded_from_str x) as [v| | |] eqn:Ep; try discriminate.
  injection H as <-. cbn [xprint]. apply forwarded_canonical. exact Ep.
Qed.
Lemma law_10 ll : law ll 10.
Proof.
  apply law_canonical. intros x e H. cbn [xparse] in H. destruct (applied_from_str x) as [v| | |] eqn:Ep; try discriminate.
  injection H as <-. cbn [xprint]. apply applied_canonical. exact Ep.
Qed.

(* ---- 16: DEP-3 Origin.  A bare category keyword ("vendor") prints with the separator ("vendor, ");
   everything else prints as it was read; what is printed reads back as the same pair *)
Lemma parsed_commit_or_valid body : commit_or_valid (match strip_prefix lit_commit body with Some r => Commit r | None => Other body end) = true.
Proof.
  destruct (strip_prefix lit_commit body) as [r|] eqn:Es; [reflexivity|]. cbn [commit_or_valid]. apply negb_true_iff.
  destruct (CodecStr.starts_with lit_commit body) eqn:Est; [|reflexivity]. apply starts_with_split in Est. rewrite Est, strip_prefix_app in Es. discriminate.
Qed.
Definition kw_line (k : str) : bool := no_eol k && match k with c :: _ => negb (is_indent c) | [] => false end.
Lemma origin_kws_lines : forallb (fun kc => kw_line (fst kc)) (ot_arms parse_origin_tab) = true.
Proof. vm_compute. reflexivity. Qed.
Lemma law_16 ll : law ll 16.
Proof.
  destruct tabs_ok as (_ & _ & _ & _ & Hcat & Hor & _).
  intros x e _ Hx Hp. cbn [xparse] in Hp. destruct (parse_origin parse_origin_tab x) as [c o] eqn:Ep. injection Hp as <-. cbn [xprint].
  assert (Hvalid : porigin_valid OriginCategory_tab parse_origin_tab c o = true).
  { unfold parse_origin in Ep. unfold porigin_valid.
    destruct (split_once_str (ot_sep_parse parse_origin_tab) x) as [[a b]|] eqn:Es.
    - destruct (assoc_s a (ot_arms parse_origin_tab)) as [c'|] eqn:Ea; cbv beta iota in Ep; rewrite dispatch_pair in Ep; apply pair_equal_spec in Ep; destruct Ep as [<- <-];
        rewrite parsed_commit_or_valid; cbn [andb].
      + apply N.ltb_lt. apply (of_arm _ _ (origin_ok_facts _ _ Hor) a c' Ea).
      + rewrite origin_dispatch_text. unfold first_piece. rewrite Es, Ea. reflexivity.
    - destruct (assoc_s x (ot_arms parse_origin_tab)) as [c'|] eqn:Ea; cbv beta iota in Ep; rewrite dispatch_pair in Ep; apply pair_equal_spec in Ep; destruct Ep as [<- <-];
        rewrite parsed_commit_or_valid; cbn [andb].
      + apply N.ltb_lt. apply (of_arm _ _ (origin_ok_facts _ _ Hor) x c' Ea).
      + rewrite origin_dispatch_text. unfold first_piece. rewrite Es, Ea. reflexivity. }
  destruct (porigin_roundtrip _ _ c o Hcat Hor Hvalid) as (text & Ht & Hrt). rewrite Ht.
  assert (Hcanon : pcanon ll text = true /\ rr ll text = text).
  { destruct (porigin_canon parse_origin_tab x) eqn:Ec.
    - rewrite (porigin_canonical _ _ x c o Hcat Hor Ec Ep) in Ht. injection Ht as <-. split; [apply (dom_pcanon _ _ Hx)|apply (rr_dom _ _ Hx)].
    - (* a bare keyword *)
      unfold porigin_canon in Ec. unfold parse_origin in Ep.
      destruct (split_once_str (ot_sep_parse parse_origin_tab) x) as [[a b]|] eqn:Es; [discriminate|].
      destruct (assoc_s x (ot_arms parse_origin_tab)) as [c'|] eqn:Ea; [|discriminate].
      cbv beta iota in Ep. rewrite dispatch_pair in Ep. apply pair_equal_spec in Ep. destruct Ep as [<- <-]. cbn [strip_prefix lit_commit] in Ht.
      unfold format_origin in Ht. rewrite (proj2 (of_arm _ _ (origin_ok_facts _ _ Hor) x c' Ea)) in Ht. cbn [bind origin_to_string] in Ht.
      injection Ht as <-. pose proof origin_kws_lines as Hk. rewrite forallb_forall in Hk. specialize (Hk _ (assoc_s_some _ _ _ Ea)). cbn [fst] in Hk.
      unfold kw_line in Hk. apply andb_true_iff in Hk. destruct Hk as [Hk1 Hk2].
      assert (Hne : no_eol (x ++ ot_sep_print parse_origin_tab ++ []) = true) by (rewrite !no_eol_app, Hk1; reflexivity).
      split; [|apply rr_single, no_eol_no_lf, Hne]. apply canon_pcanon, canon_single; [exact Hne|].
      destruct x as [|ch x']; [discriminate|]. cbn [app]. apply negb_true_iff. exact Hk2. }
  destruct Hcanon as [C1 C2]. split; [exact C1|]. rewrite C2. cbn [xparse]. rewrite Hrt. reflexivity.
Qed.

(* ---- 7: Signature *)
Lemma split_lf_cons_lf v : split_lf (LF :: v) = [] :: split_lf v.
Proof. reflexivity. Qed.
Lemma law_7 : law true 7.
Proof.
  intros x e Hg Hx Hp. cbn [pcanon]. cbn [xguard] in Hg. cbn [dom] in Hx. pose proof (ll_dom_canon _ Hx) as Hc. pose proof (ll_dom_norm _ Hx) as Hn.
  cbn [xparse] in Hp. unfold signature_from_str in Hp.
  destruct (strip_prefix [10] x) as [r|] eqn:Es.
  - (* a value of the lossless reader never starts with LF *)
    exfalso. apply strip_prefix_some in Es. cbn [app] in Es. subst x. unfold ll_norm in Hn. rewrite split_lf_cons_lf in Hn.
    pose proof (join_split_lf r) as Hj. destruct (split_lf r) as [|l1 rest] eqn:Er; [exact (split_lf_go_nonempty r [] Er)|].
    cbn [app] in Hn. rewrite Hj in Hn. apply (f_equal (@length N)) in Hn. cbn in Hn. lia.
  - destruct (contains_char 10 x) eqn:Ec; injection Hp as <-; cbn [xprint signature_to_string].
    + (* a key block: printed as LF + text, shown by the lossless reader as the text again *)
      unfold sig_no_hash_block in Hg. rewrite Ec in Hg. cbn [andb] in Hg. apply negb_true_iff in Hg.
      assert (Hsplit : exists l1 rest, split_lf x = l1 :: rest /\ l1 <> []).
      { unfold ll_norm in Hn. pose proof (join_split_lf x) as Hj. destruct (split_lf x) as [|l1 rest] eqn:Ex; [exact (False_ind _ (split_lf_go_nonempty x [] Ex))|].
        exists l1, rest. split; [reflexivity|]. intros ->. cbn [app] in Hn. destruct rest as [|l2 r2].
        - cbn in Hj. subst x. discriminate.
        - rewrite join_cons2 in Hj by discriminate. cbn [app] in Hj. rewrite <- Hj in Hn. apply (f_equal (@length N)) in Hn. cbn [length] in Hn. lia. }
      destruct Hsplit as (l1 & rest & Ex & Hne).
      split.
      * change (10 :: x) with (LF :: x). unfold canon_value in *. rewrite split_lf_cons_lf, Ex in *. cbn [canon_first no_eol forallb andb].
        apply andb_true_iff in Hc. destruct Hc as [H1 Hr]. rewrite Hr, andb_true_r. unfold canon_first in H1. unfold canon_cont.
        apply andb_true_iff in H1. destruct H1 as [H1a H1b]. rewrite H1a. destruct l1 as [|ch l1']; [congruence|]. rewrite H1b. cbn [andb].
        unfold starts_hash in Hg. pose proof (join_split_lf x) as Hj. rewrite Ex in Hj.
        assert (Hhd : exists x', x = ch :: x') by (destruct rest; [cbn in Hj; eexists; symmetry; exact Hj|rewrite join_cons2 in Hj by discriminate; cbn [app] in Hj; eexists; symmetry; exact Hj]).
        destruct Hhd as (x' & ->). rewrite Hg. reflexivity.
      * cbn [rr]. change (10 :: x) with (LF :: x). unfold ll_norm. rewrite split_lf_cons_lf, Ex. cbn [app]. rewrite <- Ex, join_split_lf.
        cbn [xparse]. unfold signature_from_str. rewrite Es, Ec. reflexivity.
    + (* a key path: one line *)
      split; [exact Hc|]. rewrite (rr_dom true x Hx). cbn [xparse]. unfold signature_from_str. rewrite Es, Ec. reflexivity.
Qed.

(* ---- 14: the URI list *)
Lemma parse_all_map {A} (f : str -> option A) ws l : parse_all f ws = Some l -> Forall2 (fun w a => f w = Some a) ws l.
Proof.
  revert l. induction ws as [|w r IH]; intros l H; cbn [parse_all] in H; [injection H as <-; constructor|].
  destruct (f w) as [a|] eqn:Ef; [|discriminate]. destruct (parse_all f r) as [l'|]; [|discriminate]. injection H as <-.
  constructor; [exact Ef|apply IH; reflexivity].
Qed.
Lemma parse_all_of {A} (f : str -> option A) ws l : Forall2 (fun w a => f w = Some a) ws l -> parse_all f ws = Some l.
Proof. induction 1 as [|w a ws l Hw _ IH]; [reflexivity|]. cbn [parse_all]. rewrite Hw, IH. reflexivity. Qed.

Lemma ws_item_dom ll w : ws_item w = true -> dom ll w.
Proof.
  intros Hw. destruct (ws_item_facts _ Hw) as (Hne & Hn & Hi).
  assert (Hc : canon_value w = true) by (apply canon_single; assumption).
  destruct ll; cbn [dom]; [|apply canon_lcanon; exact Hc]. unfold ll_dom. rewrite Hc, (ll_norm_single _ (no_eol_no_lf _ Hn)), LossyRtP.str_eqb_refl. reflexivity.
Qed.

Lemma law_14 ll : ext0_ok ll -> law ll 14.
Proof.
  intros [H0 Hws] x e _ Hx Hp. cbn [xparse] in Hp. destruct (parse_all (q0 2) (Derive.split_ws x)) as [us|] eqn:Ep; [|discriminate].
  injection Hp as <-. cbn [xprint]. apply parse_all_map in Ep. pose proof (split_ws_items x) as Hit.
  assert (Hprinted : forallb ws_item (map (p0 2) us) = true /\ Forall2 (fun w a => q0 2 w = Some a) (map (p0 2) us) us).
  { clear Hx. induction Ep as [|w a ws l Hw _ IH]; [split; [reflexivity|constructor]|]. cbn [forallb] in Hit. apply andb_true_iff in Hit. destruct Hit as [Hw1 Hr].
    destruct (IH Hr) as [I1 I2]. cbn [map forallb]. rewrite (Hws w a Hw), I1. split; [reflexivity|]. constructor; [|exact I2].
    destruct (H0 2 w a ltac:(right; left; reflexivity) (ws_item_dom ll w Hw1) Hw) as [_ C2].
    rewrite rr_single in C2 by (apply no_eol_no_lf; apply (ws_item_facts _ (Hws w a Hw))). exact C2. }
  destruct Hprinted as [P1 P2]. split; [apply canon_pcanon, canon_join_sp; exact P1|].
  rewrite rr_single by (apply no_eol_no_lf, join_sp_no_eol, P1). cbn [xparse]. rewrite (split_ws_join _ P1), (parse_all_of _ _ _ P2). reflexivity.
Qed.

(* ---- 11: ParsedVcs (one line, at most one " [..]" group) *)
Lemma trim_start_suffix s : exists pre, s = pre ++ trim_start s /\ forallb CodecStr.is_ws pre = true.
Proof.
  induction s as [|c r IH]; [exists []; split; reflexivity|]. cbn [trim_start]. destruct (CodecStr.is_ws c) eqn:Ec.
  - destruct IH as (pre & E & Hp). exists (c :: pre). cbn [app forallb]. rewrite Ec, Hp, <- E. split; reflexivity.
  - exists []. split; reflexivity.
Qed.
Lemma trim_start_no_lead s : no_lead_ws (trim_start s) = true.
Proof. induction s as [|c r IH]; [reflexivity|]. cbn [trim_start]. destruct (CodecStr.is_ws c) eqn:Ec; [exact IH|]. cbn [no_lead_ws]. rewrite Ec. reflexivity. Qed.
Lemma trim_end_prefix s : exists post, s = trim_end s ++ post /\ forallb CodecStr.is_ws post = true.
Proof.
  unfold trim_end. destruct (trim_start_suffix (rev s)) as (pre & E & Hp). exists (rev pre). split.
  - rewrite <- rev_app_distr, <- E, rev_involutive. reflexivity.
  - rewrite forallb_forall in *. intros c Hc. apply Hp. apply in_rev. exact Hc.
Qed.
Lemma trim_end_no_trail s : no_trail_ws (trim_end s) = true.
Proof. unfold no_trail_ws, trim_end. rewrite rev_involutive. apply trim_start_no_lead. Qed.
Lemma trim_end_keeps_lead s : no_lead_ws s = true -> no_lead_ws (trim_end s) = true.
Proof.
  intros H. destruct (trim_end_prefix s) as (post & E & Hp). destruct (trim_end s) as [|c t] eqn:Et; [reflexivity|].
  cbn [app] in E. rewrite E in H. exact H.
Qed.
Lemma trim_facts x : no_lead_ws (trim x) = true /\ no_trail_ws (trim x) = true /\ exists pre post, x = pre ++ trim x ++ post.
Proof.
  unfold trim. split; [apply trim_end_keeps_lead, trim_start_no_lead|]. split; [apply trim_end_no_trail|].
  destruct (trim_start_suffix x) as (pre & E1 & _). destruct (trim_end_prefix (trim_start x)) as (post & E2 & _).
  exists pre, post. rewrite <- E2. exact E1.
Qed.
Lemma re_here_run_ok s run rest : re_here s = Some (run, rest) -> sub_ok run = true.
Proof.
  destruct s as [|a [|b r]]; cbn [re_here]; try discriminate.
  destruct ((a =? 32) && (b =? 91))%bool; [|discriminate]. destruct (span re_class r) as [run' r'] eqn:Es.
  pose proof (span_all _ _ _ _ Es) as Hall. destruct run' as [|c run']; [discriminate|]. destruct r' as [|d r'']; [discriminate|].
  destruct (d =? 93); [|discriminate]. intros H. injection H as <- _. unfold sub_ok. rewrite Hall. reflexivity.
Qed.
Lemma re_find_run_ok s a run b : re_find s = Some (a, run, b) -> sub_ok run = true.
Proof.
  revert a b. induction s as [|c s IH]; intros a b H; [cbn in H; discriminate|]. cbn [re_find] in H.
  destruct (re_here (c :: s)) as [[run' rest]|] eqn:Eh.
  - injection H as _ <- _. eapply re_here_run_ok. exact Eh.
  - destruct (re_find s) as [[[a' run'] b']|] eqn:Ef; [|discriminate]. injection H as _ <- _. apply (IH a' b' eq_refl).
Qed.
Lemma no_lead_not_indent s : no_lead_ws s = true -> match s with c :: _ => is_indent c = false | [] => True end.
Proof.
  destruct s as [|c r]; [intros _; exact I|]. cbn [no_lead_ws]. intros H. apply negb_true_iff in H.
  destruct (is_indent c) eqn:Ei; [|reflexivity]. unfold is_indent in Ei. apply orb_true_iff in Ei.
  destruct Ei as [Ei|Ei]; apply N.eqb_eq in Ei; subst c; discriminate.
Qed.
Lemma no_eol_parts a b c : no_eol (a ++ b ++ c) = true -> no_eol a = true /\ no_eol b = true /\ no_eol c = true.
Proof. rewrite !no_eol_app. intros H. apply andb_true_iff in H. destruct H as [H1 H]. apply andb_true_iff in H. tauto. Qed.

Lemma no_eol_move a run b : no_eol (a ++ [32; 91] ++ run ++ 93 :: b) = true -> no_eol ((a ++ b) ++ [32; 91] ++ run ++ [93]) = true.
Proof.
  unfold no_eol. rewrite forallb_app. intros H. apply andb_true_iff in H. destruct H as [Ha H]. cbn [app forallb] in H.
  apply andb_true_iff in H. destruct H as [_ H]. apply andb_true_iff in H. destruct H as [_ H]. rewrite forallb_app in H.
  apply andb_true_iff in H. destruct H as [Hr H]. cbn [forallb] in H. apply andb_true_iff in H. destruct H as [_ Hb].
  rewrite !forallb_app, Ha, Hb, Hr. reflexivity.
Qed.

Lemma law_11 ll : law ll 11.
Proof.
  intros x e Hg Hx Hp. cbn [xguard] in Hg. unfold vcs_one_group in Hg. apply andb_true_iff in Hg. destruct Hg as [Hlf Hg]. apply negb_true_iff in Hlf.
  pose proof (dom_pcanon _ _ Hx) as Hc.
  assert (Hnx : no_eol x = true).
  { assert (Hs : split_lf x = [x]).
    { apply split_lf_nolf. unfold contains_char in Hlf. unfold no_lf. clear -Hlf. induction x as [|c r IH]; [reflexivity|]. cbn [existsb forallb] in *.
      apply orb_false_iff in Hlf. destruct Hlf as [H1 H2]. rewrite H1, (IH H2). reflexivity. }
    assert (Hcf : canon_first x = true).
    { destruct ll; cbn [pcanon] in Hc.
      - unfold canon_value in Hc. rewrite Hs in Hc. cbn [forallb] in Hc. rewrite andb_true_r in Hc. exact Hc.
      - unfold lcanon_value in Hc. rewrite Hs in Hc. cbn [forallb last_nonempty rev] in Hc. rewrite !andb_true_r in Hc. exact Hc. }
    unfold canon_first in Hcf. apply andb_true_iff in Hcf. apply Hcf. }
  destruct (trim_facts x) as (Tl & Tt & pre & post & Ex). set (s0 := trim x) in *.
  assert (Hn0 : no_eol s0 = true) by (rewrite Ex in Hnx; apply (no_eol_parts _ _ _ Hnx)).
  cbn [xparse] in Hp. unfold parsed_vcs_from_str in Hp. fold s0 in Hp.
  destruct (re_find s0) as [[[a run] b]|] eqn:Er.
  - (* one group: the printed text is  a ++ b ++ " [run]" *)
    destruct (re_find (a ++ b)) as [m|] eqn:Er2; [discriminate|].
    pose proof (re_find_some _ _ _ _ Er) as Es0. pose proof (re_find_run_ok _ _ _ _ Er) as Hrun.
    assert (Ha : a <> []).
    { intros ->. rewrite Es0 in Tl. cbn in Tl. discriminate. }
    set (s1 := a ++ b) in *.
    assert (Hprint : forall v, (match find_sub lit_dash_b s1 with
                                | Some (url, br) => Ok {| repo_url := url; branch := Some (skipn 4 br); subpath := Some run |}
                                | None => Ok {| repo_url := s1; branch := None; subpath := Some run |} end) = Ok v ->
                               parsed_vcs_to_string v = s1 ++ [32; 91] ++ run ++ [93]).
    { intros v Hv. destruct (find_sub lit_dash_b s1) as [[url br]|] eqn:Ef; apply Ok_inj in Hv; subst v; unfold parsed_vcs_to_string; cbn [repo_url branch subpath].
      - rewrite app_assoc, (find_sub_dash_b_text s1 url br Ef). reflexivity.
      - reflexivity. }
    destruct (match find_sub lit_dash_b s1 with
              | Some (url, br) => Ok {| repo_url := url; branch := Some (skipn 4 br); subpath := Some run |}
              | None => Ok {| repo_url := s1; branch := None; subpath := Some run |} end) as [v| | |] eqn:Ev; try discriminate.
    injection Hp as <-. cbn [xprint]. rewrite (Hprint v eq_refl). set (y := s1 ++ [32; 91] ++ run ++ [93]).
    assert (Hny : no_eol y = true) by (unfold y, s1; apply no_eol_move; rewrite <- Es0; exact Hn0).
    assert (Hly : no_lead_ws y = true).
    { unfold y, s1. rewrite <- app_assoc. rewrite no_lead_ws_app by exact Ha. rewrite Es0 in Tl. rewrite no_lead_ws_app in Tl by exact Ha. exact Tl. }
    assert (Hty : no_trail_ws y = true).
    { unfold y. rewrite app_assoc, app_assoc. rewrite no_trail_ws_app by discriminate. reflexivity. }
    split; [apply canon_pcanon, canon_single; [exact Hny|apply no_lead_not_indent; exact Hly]|].
    rewrite rr_single by (apply no_eol_no_lf; exact Hny). cbn [xparse]. unfold parsed_vcs_from_str.
    rewrite (trim_id y Hly Hty).
    assert (Hfy : re_find y = Some (s1, run, [])).
    { unfold y. assert (Hsp : sp_start ([32; 91] ++ run ++ [93])) by (right; eexists; reflexivity). rewrite (re_find_app s1 _ Er2 Hsp). change ([32; 91] ++ run ++ [93]) with ([32; 91] ++ run ++ 93 :: []).
      rewrite (re_find_sub run [] Hrun). cbn [shift]. rewrite app_nil_r. reflexivity. }
    rewrite Hfy, app_nil_r. fold s1. rewrite Ev. reflexivity.
  - (* no group: the printed text is the trimmed text *)
    assert (Hprint : forall v, (match find_sub lit_dash_b s0 with
                                | Some (url, br) => Ok {| repo_url := url; branch := Some (skipn 4 br); subpath := None |}
                                | None => Ok {| repo_url := s0; branch := None; subpath := None |} end) = Ok v ->
                               parsed_vcs_to_string v = s0).
    { intros v Hv. destruct (find_sub lit_dash_b s0) as [[url br]|] eqn:Ef; apply Ok_inj in Hv; subst v; unfold parsed_vcs_to_string; cbn [repo_url branch subpath]; rewrite !app_nil_r.
      - apply (find_sub_dash_b_text s0 url br Ef).
      - reflexivity. }
    destruct (match find_sub lit_dash_b s0 with
              | Some (url, br) => Ok {| repo_url := url; branch := Some (skipn 4 br); subpath := None |}
              | None => Ok {| repo_url := s0; branch := None; subpath := None |} end) as [v| | |] eqn:Ev; try discriminate.
    injection Hp as <-. cbn [xprint]. rewrite (Hprint v eq_refl).
    split; [apply canon_pcanon, canon_single; [exact Hn0|apply no_lead_not_indent; exact Tl]|].
    rewrite rr_single by (apply no_eol_no_lf; exact Hn0). cbn [xparse]. unfold parsed_vcs_from_str.
    rewrite (trim_id s0 Tl Tt), Er, Ev. reflexivity.
Qed.

(* ---- 13: the repository-type set *)
Lemma assoc_n_in k l (v : str) : assoc_n k l = Some v -> In (k, v) l.
Proof.
  induction l as [|[k' v'] r IH]; cbn [assoc_n]; [discriminate|]. destruct (k =? k') eqn:Ek.
  - intros H. injection H as <-. apply N.eqb_eq in Ek. subst. left. reflexivity.
  - intros H. right. apply IH. exact H.
Qed.
Lemma repotype_kws_ok : forallb (fun vk => ws_item (snd vk) && negb (starts_hash (snd vk))) (et_display RepositoryType_tab) = true.
Proof. vm_compute. reflexivity. Qed.
Definition repo_word (w : str) : option str :=
  match enum_parse RepositoryType_tab w with Ok v => Some (enum_text RepositoryType_tab v) | _ => None end.
Lemma repo_word_id w k : repo_word w = Some k -> k = w /\ ws_item w = true /\ starts_hash w = false.
Proof.
  unfold repo_word. destruct (enum_parse RepositoryType_tab w) as [v| | |] eqn:Ep; try discriminate. intros H. injection H as <-.
  destruct tabs_ok as (_ & _ & _ & Hok & _ & _ & _ & _ & _ & Hpre). pose proof (enum_text_parse _ _ _ Hok Hpre Ep) as Ht. split; [exact Ht|].
  destruct (enum_canonical _ Hok w v Ep) as (s' & Hs & Hpr & _). unfold enum_pre in Hs. rewrite Hpre in Hs. injection Hs as <-.
  unfold enum_print in Hpr. destruct (assoc_n v (et_display RepositoryType_tab)) as [k|] eqn:Ea; [|discriminate]. injection Hpr as ->.
  pose proof repotype_kws_ok as Hk. rewrite forallb_forall in Hk. specialize (Hk _ (assoc_n_in _ _ _ Ea)). cbn [snd] in Hk.
  apply andb_true_iff in Hk. destruct Hk as [H1 H2]. apply negb_true_iff in H2. auto.
Qed.
Lemma parse_all_repo ws ks : parse_all repo_word ws = Some ks -> ks = ws.
Proof.
  intros H. apply parse_all_map in H. induction H as [|w k ws ks Hw _ IH]; [reflexivity|]. destruct (repo_word_id _ _ Hw) as [-> _]. rewrite IH. reflexivity.
Qed.

Lemma parse_all_repo_in ws : forall ks, parse_all repo_word ws = Some ks -> forall k, In k ws -> repo_word k = Some k.
Proof.
  induction ws as [|w r IH]; intros ks H k Hk; [contradiction|]. cbn [parse_all] in H.
  destruct (repo_word w) as [a|] eqn:Ew; [|discriminate]. destruct (parse_all repo_word r) as [l|] eqn:Er; [|discriminate].
  destruct Hk as [<-|Hk]; [destruct (repo_word_id _ _ Ew) as [-> _]; exact Ew|apply (IH l eq_refl k Hk)].
Qed.

Lemma law_13 ll : law ll 13.
Proof.
  intros x e _ Hx Hp. cbn [xparse] in Hp. unfold types_parse in Hp. fold repo_word in Hp.
  destruct (parse_all repo_word (Derive.split_ws x)) as [kws|] eqn:Ep; [|discriminate]. injection Hp as <-. cbn [xprint]. unfold types_print.
  pose proof (parse_all_repo _ _ Ep) as ->. set (ws := Derive.split_ws x) in *. set (ks := sort_str (dedup_str ws)).
  assert (Hin : forall k, In k ks -> repo_word k = Some k).
  { intros k Hk. apply (Permutation_in _ (sort_perm _)) in Hk. apply (proj1 (dedup_in _ _)) in Hk. apply (parse_all_repo_in _ _ Ep k Hk). }
  assert (Hitems : forallb ws_item ks = true /\ forallb (fun w => negb (starts_hash w)) ks = true).
  { split; apply forallb_forall; intros k Hk; destruct (repo_word_id _ _ (Hin k Hk)) as (_ & H1 & H2); [exact H1|rewrite H2; reflexivity]. }
  destruct Hitems as [Hi Hh]. change (join [10] (sort_str (dedup_str ws))) with (join [LF] ks). split.
  - apply canon_pcanon, canon_join_lf; [exact Hi|]. destruct ks as [|k1 r]; [reflexivity|]. cbn [tl forallb] in *. apply andb_true_iff in Hh. apply Hh.
  - replace (rr ll (join [10] ks)) with (join [10] ks) by (symmetry; apply (rr_join_lf ll ks Hi)). cbn [xparse]. unfold types_parse. fold repo_word. rewrite (split_ws_join_lf _ Hi).
    assert (Hpa : parse_all repo_word ks = Some ks).
    { apply parse_all_of. clear -Hin. induction ks as [|k r IH]; [constructor|]. constructor; [apply Hin; left; reflexivity|apply IH; intros k' Hk'; apply Hin; right; exact Hk']. }
    rewrite Hpa. cbn [option_map]. f_equal. f_equal.
    rewrite (dedup_of_nodup ks) by (unfold ks; apply (Permutation_NoDup (Permutation_sym (sort_perm _))), dedup_nodup).
    apply sort_of_sorted. unfold ks. apply sort_sorted.
Qed.

(* ---- 12: the environment map *)
Lemma map_insert_in k v m kv : In kv (map_insert k v m) -> kv = (k, v) \/ In kv m.
Proof.
  induction m as [|[k' v'] r IH]; cbn [map_insert]; [intros [<-|[]]; left; reflexivity|].
  destruct (str_eqb k k'); cbn [In]; [intros [<-|H]; [left; reflexivity|right; right; exact H]|].
  intros [<-|H]; [right; left; reflexivity|]. destruct (IH H) as [->|H']; [left; reflexivity|right; right; exact H'].
Qed.
Lemma map_insert_keys k v m : NoDup (map fst m) -> NoDup (map fst (map_insert k v m)) /\ (forall k', In k' (map fst (map_insert k v m)) <-> k = k' \/ In k' (map fst m)).
Proof.
  induction m as [|[k' v'] r IH]; intros Hn; cbn [map_insert].
  - split; [constructor; [intros []|constructor]|]. intros k0. cbn. tauto.
  - cbn [map fst] in Hn. inversion Hn as [|? ? Hni Hnr]; subst. destruct (str_eqb k k') eqn:Ek.
    + apply LossyRtP.str_eqb_eq in Ek. subst k'. split; [cbn [map fst]; constructor; assumption|]. intros k0. cbn [map fst In]. tauto.
    + destruct (IH Hnr) as [I1 I2]. split.
      * cbn [map fst]. constructor; [|exact I1]. rewrite I2. intros [<-|H]; [rewrite LossyRtP.str_eqb_refl in Ek; discriminate|contradiction].
      * intros k0. cbn [map fst In]. rewrite I2. tauto.
Qed.
Lemma map_insert_fresh k v m : ~ In k (map fst m) -> map_insert k v m = m ++ [(k, v)].
Proof.
  induction m as [|[k' v'] r IH]; intros Hn; [reflexivity|]. cbn [map_insert]. destruct (str_eqb k k') eqn:Ek.
  - apply LossyRtP.str_eqb_eq in Ek. subst k'. exfalso. apply Hn. left. reflexivity.
  - cbn [app]. rewrite IH; [reflexivity|]. intros H. apply Hn. right. exact H.
Qed.

(* what env_fold keeps: pairs that came from lines (or were there), keys distinct and without '=' *)
Definition env_pair_ok (ls : list str) (kv : str * str) : Prop := In (env_line kv) ls /\ contains_char 61 (fst kv) = false.
Lemma env_fold_inv ls : forall all m m', (forall l, In l ls -> In l all) ->
  NoDup (map fst m) -> Forall (env_pair_ok all) m -> env_fold ls m = Some m' ->
  NoDup (map fst m') /\ Forall (env_pair_ok all) m'.
Proof.
  induction ls as [|l r IH]; intros all m m' Hsub Hn Hf H; cbn [env_fold] in H; [injection H as <-; auto|].
  destruct (split_once 61 l) as [[k v]|] eqn:Es; [|discriminate]. destruct (split_once_some _ _ _ _ Es) as [El Hk].
  apply (IH all (map_insert k v m) m'); [intros l' Hl'; apply Hsub; right; exact Hl'|apply (map_insert_keys k v m Hn)| |exact H].
  apply Forall_forall. intros kv Hkv. destruct (map_insert_in _ _ _ _ Hkv) as [->|Hin].
  - split; [unfold env_line; cbn [fst snd]; rewrite <- El; apply Hsub; left; reflexivity|exact Hk].
  - rewrite Forall_forall in Hf. apply Hf. exact Hin.
Qed.
Lemma env_fold_lines m2 : forall acc, NoDup (map fst (acc ++ m2)) -> Forall (fun kv => contains_char 61 (fst kv) = false) m2 ->
  env_fold (map env_line m2) acc = Some (acc ++ m2).
Proof.
  induction m2 as [|[k v] r IH]; intros acc Hn Hk; cbn [map env_fold]; [rewrite app_nil_r; reflexivity|].
  inversion Hk as [|? ? Hk1 Hkr]; subst. cbn [fst] in Hk1. unfold env_line at 1. cbn [fst snd]. rewrite (split_once_app 61 k v Hk1).
  assert (Hfresh : ~ In k (map fst acc)).
  { rewrite map_app in Hn. cbn [map fst] in Hn. apply NoDup_remove_2 in Hn. intros H. apply Hn. apply in_or_app. left. exact H. }
  rewrite (map_insert_fresh k v acc Hfresh). rewrite (IH (acc ++ [(k, v)])); [rewrite <- app_assoc; reflexivity| |exact Hkr].
  rewrite <- app_assoc. exact Hn.
Qed.

Lemma lines_of_canon x : canon_value x = true -> x <> [] -> lines x = split_lf x.
Proof.
  intros Hc Hne. unfold canon_value in Hc. pose proof (join_split_lf x) as Hs.
  destruct (split_lf x) as [|l1 rest] eqn:Ex; [discriminate|]. apply andb_true_iff in Hc. destruct Hc as [H1 Hr].
  unfold canon_first in H1. apply andb_true_iff in H1. destruct H1 as [Hn1 _].
  rewrite <- Hs. apply lines_join.
  - cbn [forallb]. rewrite Hn1. apply canon_cont_no_eol. exact Hr.
  - destruct rest as [|l2 r2]; [cbn [last]; cbn [join] in Hs; congruence|].
    change (last (l1 :: l2 :: r2) [1]) with (last (l2 :: r2) [1]). apply canon_cont_nonempty_last; [discriminate|exact Hr].
Qed.

(* a line of a canonical value: without LF/CR, not starting with a blank; '#' only on the first *)
Definition line_ok (l : str) : bool := no_eol l && match l with c :: _ => negb (is_indent c) | [] => true end.
Lemma canon_lines_ok x : canon_value x = true -> forallb line_ok (split_lf x) = true.
Proof.
  unfold canon_value. destruct (split_lf x) as [|l1 rest]; [discriminate|]. intros H. apply andb_true_iff in H. destruct H as [H1 Hr].
  cbn [forallb]. apply andb_true_iff. split; [exact H1|]. apply forallb_forall. intros l Hl. rewrite forallb_forall in Hr. specialize (Hr l Hl).
  unfold canon_cont in Hr. unfold line_ok. apply andb_true_iff in Hr. destruct Hr as [Hn Hh]. rewrite Hn. destruct l; [discriminate|].
  apply andb_true_iff in Hh. destruct Hh as [Hh _]. rewrite Hh. reflexivity.
Qed.

Lemma last_in {A} (l : list A) d : l <> [] -> In (last l d) l.
Proof.
  induction l as [|a r IH]; [congruence|]. intros _. destruct r as [|b r']; [left; reflexivity|]. right. apply IH. discriminate.
Qed.

Lemma law_12 : law true 12.
Proof.
  intros x e Hg Hx Hp. cbn [pcanon]. cbn [xguard] in Hg. unfold env_no_hash_line in Hg. cbn [xparse] in Hp.
  destruct (env_parse x) as [ks|] eqn:Ep; [|discriminate]. injection Hp as <-. cbn [xprint]. unfold env_print.
  pose proof (ll_dom_canon _ Hx) as Hc. unfold env_parse in Ep. destruct (env_fold (lines x) []) as [m|] eqn:Ef; [|discriminate]. injection Ep as <-.
  set (L := map env_line m) in *. set (ks := sort_str L) in *.
  destruct (env_fold_inv (lines x) (lines x) [] m (fun l H => H) (NoDup_nil _) (Forall_nil _) Ef) as [Hnd Hok].
  (* every line of the value is a line of the text read *)
  assert (Hlines : forall k, In k ks -> In k (lines x) /\ contains_char 61 k = true).
  { intros k Hk. apply (Permutation_in _ (sort_perm _)) in Hk. unfold L in Hk. apply in_map_iff in Hk. destruct Hk as (kv & <- & Hkv).
    rewrite Forall_forall in Hok. destruct (Hok kv Hkv) as [H1 _]. split; [exact H1|]. unfold env_line, contains_char. rewrite existsb_app. cbn [existsb]. rewrite N.eqb_refl, orb_true_r. reflexivity. }
  assert (Hkok : forall k, In k ks -> line_ok k = true /\ k <> []).
  { intros k Hk. destruct (Hlines k Hk) as [H1 H2]. split; [|intros ->; discriminate].
    destruct x as [|c0 x0] eqn:Ex; [cbn in H1; contradiction|]. rewrite <- Ex in *. rewrite (lines_of_canon x Hc) in H1 by (rewrite Ex; discriminate).
    pose proof (canon_lines_ok x Hc) as Hl. rewrite forallb_forall in Hl. apply Hl. exact H1. }
  assert (Hnl : forallb no_eol ks = true).
  { apply forallb_forall. intros k Hk. destruct (Hkok k Hk) as [H1 _]. unfold line_ok in H1. apply andb_true_iff in H1. apply H1. }
  destruct ks as [|k1 rest] eqn:Eks.
  - (* the empty map *) cbn [join]. split; [reflexivity|]. rewrite rr_single by reflexivity. cbn [xparse]. unfold env_parse. cbn. reflexivity.
  - rewrite <- Eks in *. assert (Hk1 : k1 <> []) by (apply (Hkok k1); rewrite Eks; left; reflexivity).
    assert (Hsplit : split_lf (join [LF] ks) = ks).
    { apply split_lf_join_nolf; [rewrite Eks; discriminate|]. apply forallb_forall. intros k Hk. apply no_eol_no_lf. rewrite forallb_forall in Hnl. apply Hnl. exact Hk. }
    assert (Hcanon : canon_value (join [10] ks) = true).
    { change [10] with [LF]. unfold canon_value. rewrite Hsplit, Eks. apply andb_true_iff. split.
      - destruct (Hkok k1 ltac:(rewrite Eks; left; reflexivity)) as [H1 _]. exact H1.
      - apply forallb_forall. intros k Hk. destruct (Hkok k ltac:(rewrite Eks; right; exact Hk)) as [H1 H2]. unfold line_ok in H1. apply andb_true_iff in H1.
        destruct H1 as [Hn Hh]. unfold canon_cont. rewrite Hn. destruct k as [|ch k']; [congruence|]. rewrite Hh. cbn [andb].
        rewrite Eks in Hg. cbn [tl] in Hg. rewrite forallb_forall in Hg. specialize (Hg _ Hk). unfold starts_hash in Hg. exact Hg. }
    split; [exact Hcanon|].
    assert (Hrr : rr true (join [10] ks) = join [10] ks).
    { cbn [rr]. change [10] with [LF]. rewrite Eks. apply ll_norm_join; [exact Hk1|]. rewrite <- Eks.
      apply forallb_forall. intros k Hk. apply no_eol_no_lf. rewrite forallb_forall in Hnl. apply Hnl. exact Hk. }
    rewrite Hrr. cbn [xparse]. unfold env_parse.
    assert (Hl : lines (join [10] ks) = ks).
    { change [10] with [LF]. apply lines_join; [exact Hnl|]. apply (Hkok (last ks [1])). apply last_in. rewrite Eks. discriminate. }
    rewrite Hl.
    pose proof (sort_perm L) as HP. unfold L at 2 in HP. destruct (Permutation_map_inv _ _ HP) as (m2 & Em2 & Hperm).
    fold L in Em2. fold ks in Em2.
    assert (Hm2 : NoDup (map fst m2) /\ Forall (fun kv => contains_char 61 (fst kv) = false) m2).
    { split; [apply (Permutation_NoDup (Permutation_map fst Hperm)); exact Hnd|]. apply Forall_forall. intros kv Hkv.
      rewrite Forall_forall in Hok. apply (Hok kv). apply (Permutation_in _ (Permutation_sym Hperm)). exact Hkv. }
    destruct Hm2 as [N2 K2]. rewrite Em2, (env_fold_lines m2 [] N2 K2). cbn [app option_map]. rewrite <- Em2. f_equal. f_equal.
    apply sort_of_sorted. unfold ks. apply sort_sorted.
Qed.

(* ---- all sixteen *)
Definition needs_ext0 (ids : list N) : bool := existsb (fun i => existsb (N.eqb i) [1; 2; 3; 14; 15]) ids.
Theorem x_stable ll ids : (needs_ext0 ids = true -> ext0_ok ll) -> (In 7 ids \/ In 12 ids -> ll = true) -> (forall i, In i ids -> 1 <= i <= 16) ->
  ext_stable_on X xpr xpa xguard ll ids.
Proof.
  intros H0' H7 Hr i x e Hi HG Hx Hp. pose proof (Hr i Hi) as Hb.
  assert (H0 : In i [1; 2; 3; 14; 15] -> ext0_ok ll).
  { intros Hin. apply H0'. unfold needs_ext0. apply existsb_exists. exists i. split; [exact Hi|]. apply existsb_exists. exists i. split; [exact Hin|apply N.eqb_refl]. }
  assert (Hcase : i = 1 \/ i = 2 \/ i = 3 \/ i = 4 \/ i = 5 \/ i = 6 \/ i = 7 \/ i = 8 \/ i = 9 \/ i = 10 \/ i = 11 \/ i = 12 \/
                  i = 13 \/ i = 14 \/ i = 15 \/ i = 16) by lia.
  destruct Hcase as [->|[->|[->|[->|[->|[->|[->|[->|[->|[->|[->|[->|[->|[->|[->| ->]]]]]]]]]]]]]]].
  - exact (law_ext ll 1 (H0 ltac:(cbn; tauto)) (or_introl eq_refl) x e HG Hx Hp).
  - exact (law_ext ll 2 (H0 ltac:(cbn; tauto)) (or_intror (or_introl eq_refl)) x e HG Hx Hp).
  - exact (law_ext ll 3 (H0 ltac:(cbn; tauto)) (or_intror (or_intror (or_introl eq_refl))) x e HG Hx Hp).
  - exact (law_4 ll x e HG Hx Hp).
  - exact (law_5 ll x e HG Hx Hp).
  - exact (law_6 ll x e HG Hx Hp).
  - rewrite (H7 (or_introl Hi)) in *. exact (law_7 x e HG Hx Hp).
  - exact (law_8 ll x e HG Hx Hp).
  - exact (law_9 ll x e HG Hx Hp).
  - exact (law_10 ll x e HG Hx Hp).
  - exact (law_11 ll x e HG Hx Hp).
  - rewrite (H7 (or_intror Hi)) in *. exact (law_12 x e HG Hx Hp).
  - exact (law_13 ll x e HG Hx Hp).
  - exact (law_14 ll (H0 ltac:(cbn; tauto)) x e HG Hx Hp).
  - exact (law_ext ll 15 (H0 ltac:(cbn; tauto)) (or_intror (or_intror (or_intror (or_introl eq_refl)))) x e HG Hx Hp).
  - exact (law_16 ll x e HG Hx Hp).
Qed.

End Ext0.

(* the generated tables: the codec numbers the structs use are among the sixteen; only the sources list
   (read through the lossless reader) uses Signature; which structs have a codec with a guard *)
Definition ids_ok (fs : list fieldspec) : bool := forallb (fun i => (1 <=? i) && (i <=? 16)) (ext_ids fs).
Lemma ids_ok_all : forallb ids_ok [fs_control_source; fs_control_binary; fs_header; fs_files; fs_license; fs_release;
  fs_apt_source; fs_apt_package; fs_removal; fs_buildinfo; fs_dep3; fs_repository] = true.
Proof. vm_compute. reflexivity. Qed.
Lemma ids_ok_range fs i : ids_ok fs = true -> In i (ext_ids fs) -> 1 <= i <= 16.
Proof.
  unfold ids_ok. intros H Hi. rewrite forallb_forall in H. specialize (H i Hi). apply andb_true_iff in H. destruct H as [H1 H2].
  apply N.leb_le in H1. apply N.leb_le in H2. lia.
Qed.
Definition no_guarded (fs : list fieldspec) : bool := forallb (fun i => negb ((i =? 7) || (i =? 11) || (i =? 12))) (ext_ids fs).
Lemma no_guarded_structs : forallb no_guarded [fs_control_binary; fs_header; fs_files; fs_license; fs_release;
  fs_apt_source; fs_apt_package; fs_removal; fs_dep3] = true.
Proof. vm_compute. reflexivity. Qed.
Lemma no_sig_structs : forallb (fun fs => negb (existsb (N.eqb 7) (ext_ids fs))) [fs_control_source; fs_control_binary; fs_header; fs_files; fs_license; fs_release;
  fs_apt_source; fs_apt_package; fs_removal; fs_buildinfo; fs_dep3] = true.
Proof. vm_compute. reflexivity. Qed.
Ltac dpos p := try reflexivity; try congruence; let q := fresh "q" in destruct p as [q|q|]; [dpos q|dpos q|try reflexivity; try congruence].
Lemma no_guarded_guard fs get : no_guarded fs = true -> ext_guard xguard fs get = true.
Proof.
  unfold no_guarded, ext_guard. intros H. apply forallb_forall. intros f Hf. destruct (f_de f) as [| | | |b|b| | | | |i|] eqn:Ed; try reflexivity.
  destruct (get (f_key f)); [|reflexivity]. rewrite forallb_forall in H. specialize (H i (ext_ids_in _ _ _ Hf Ed)).
  apply negb_true_iff in H. apply orb_false_iff in H. destruct H as [H H12]. apply orb_false_iff in H. destruct H as [H7 H11].
  apply N.eqb_neq in H7. apply N.eqb_neq in H11. apply N.eqb_neq in H12. unfold xguard.
  destruct i as [|q0]; [reflexivity|]. dpos q0.
Qed.

(* the law for one struct of the tables *)
Lemma xs_struct E0 p0 q0 ll fs : In fs [fs_control_source; fs_control_binary; fs_header; fs_files; fs_license; fs_release;
                        fs_apt_source; fs_apt_package; fs_removal; fs_buildinfo; fs_dep3; fs_repository] ->
  (needs_ext0 (ext_ids fs) = true -> ext0_ok E0 p0 q0 ll) -> (fs = fs_repository \/ fs = fs_buildinfo -> ll = true) ->
  ext_stable_on (xval E0) (xprint E0 p0) (xparse E0 q0) xguard ll (ext_ids fs).
Proof.
  intros Hfs H0 Hrep. apply x_stable; [exact H0| |].
  - intros H7. cbn [In] in Hfs.
    destruct Hfs as [<-|[<-|[<-|[<-|[<-|[<-|[<-|[<-|[<-|[<-|[<-|[<-|[]]]]]]]]]]]]]; try (apply Hrep; tauto);
      (exfalso; revert H7; vm_compute; intuition discriminate).
  - intros i Hi. apply (ids_ok_range fs); [|exact Hi]. pose proof ids_ok_all as Ha. rewrite forallb_forall in Ha. apply Ha. exact Hfs.
Qed.

