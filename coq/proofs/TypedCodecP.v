(* C20, part 1: the per-codec STABILITY law and its lifting to structs.
   A value obtained by reading a canonical text prints to canonical text which - as the kind's
   deb822 reader shows it - reads back as the same value.  [ll] = true: the lossless reader
   (shows ll_norm y for a printed y); false: the lossy reader (shows y). *)
From Coq Require Import ZArith.
From V.model Require Import Base Deb822Lex Deb822Parse Grammar Lossy LossySpec Derive TypedDocs.
From V.proofs Require Import BaseP LossyRtP DeriveP.

(* ------------------------------------------------------------------ strings *)
Lemma split_lf_nolf y : no_lf y = true -> split_lf y = [y].
Proof.
  intros H. unfold split_lf. rewrite <- (app_nil_r y) at 1. rewrite split_lf_go_app by exact H. reflexivity.
Qed.

Lemma ll_norm_single y : no_lf y = true -> ll_norm y = y.
Proof. intros H. unfold ll_norm. rewrite (split_lf_nolf _ H). destruct y; reflexivity. Qed.

Lemma ll_norm_nil : ll_norm [] = [].
Proof. reflexivity. Qed.

Lemma ll_dom_canon x : ll_dom x = true -> canon_value x = true.
Proof. unfold ll_dom. intros H. apply andb_true_iff in H. apply H. Qed.
Lemma ll_dom_norm x : ll_dom x = true -> ll_norm x = x.
Proof. unfold ll_dom. intros H. apply andb_true_iff in H. destruct H as [_ H]. apply str_eqb_eq. exact H. Qed.

(* ll_norm of lines whose first is not empty *)
Lemma ll_norm_join l1 rest : l1 <> [] -> forallb no_lf (l1 :: rest) = true -> ll_norm (join [LF] (l1 :: rest)) = join [LF] (l1 :: rest).
Proof.
  intros Hne H. unfold ll_norm. rewrite split_lf_join_nolf by (discriminate || exact H).
  destruct l1; [congruence|reflexivity].
Qed.

Definition rr (ll : bool) (y : str) : str := if ll then ll_norm y else y.
(* what each reader can hand out ([dom]) and what its printer gives back unchanged ([pcanon]): the
   lossless reader canonical values; the lossy reader also values with empty continuation lines
   that are not last (lcanon_value) *)
Definition dom (ll : bool) (x : str) : Prop := if ll then ll_dom x = true else lcanon_value x = true.
Definition pcanon (ll : bool) (y : str) : bool := if ll then canon_value y else lcanon_value y.
Definition pfield (ll : bool) (f : str * str) : bool := valid_name (fst f) && pcanon ll (snd f).
Lemma canon_lcanon y : canon_value y = true -> lcanon_value y = true.
Proof.
  unfold canon_value, lcanon_value. destruct (split_lf y) as [|l1 rest]; [discriminate|]. intros H. apply andb_true_iff in H. destruct H as [H1 Hr].
  rewrite H1. cbn [andb]. apply andb_true_iff. split.
  - apply forallb_forall. intros c Hc. rewrite forallb_forall in Hr. specialize (Hr c Hc). unfold canon_cont in Hr. unfold lcanon_cont.
    apply andb_true_iff in Hr. destruct Hr as [Hn Hh]. rewrite Hn. destruct c; [reflexivity|exact Hh].
  - unfold last_nonempty. destruct (rev rest) as [|z zs] eqn:Er; [reflexivity|]. destruct z; [|reflexivity].
    assert (Hin : In [] rest) by (apply in_rev; rewrite Er; left; reflexivity). rewrite forallb_forall in Hr. specialize (Hr _ Hin).
    unfold canon_cont in Hr. rewrite andb_false_r in Hr. discriminate.
Qed.
Lemma canon_pcanon ll y : canon_value y = true -> pcanon ll y = true.
Proof. destruct ll; cbn [pcanon]; [auto|apply canon_lcanon]. Qed.
Lemma dom_pcanon ll x : dom ll x -> pcanon ll x = true.
Proof. destruct ll; cbn; [apply ll_dom_canon|auto]. Qed.
Lemma rr_dom ll x : dom ll x -> rr ll x = x.
Proof. destruct ll; cbn; [apply ll_dom_norm|reflexivity]. Qed.
Lemma rr_single ll y : no_lf y = true -> rr ll y = y.
Proof. destruct ll; cbn; [apply ll_norm_single|reflexivity]. Qed.

(* canonical single-line values *)
Lemma canon_single y : no_eol y = true -> match y with c :: _ => is_indent c = false | [] => True end -> canon_value y = true.
Proof.
  intros H1 H2. unfold canon_value. rewrite (split_lf_nolf _ (no_eol_no_lf _ H1)). cbn [forallb]. rewrite andb_true_r.
  unfold canon_first. rewrite H1. destruct y; [reflexivity|]. rewrite H2. reflexivity.
Qed.

Lemma digits_no_eol s : forallb is_digit s = true -> no_eol s = true.
Proof.
  unfold no_eol. induction s as [|c r IH]; [reflexivity|]. cbn [forallb]. intros H. apply andb_true_iff in H. destruct H as [Hc Hr].
  rewrite (IH Hr), andb_true_r. unfold is_digit in Hc. apply andb_true_iff in Hc. destruct Hc as [H1 H2].
  apply N.leb_le in H1. apply N.leb_le in H2. unfold is_newline. apply negb_true_iff, orb_false_iff. split; apply N.eqb_neq; lia.
Qed.
Lemma digit_not_indent c : is_digit c = true -> is_indent c = false.
Proof.
  unfold is_digit, is_indent. intros H. apply andb_true_iff in H. destruct H as [H1 H2].
  apply N.leb_le in H1. apply N.leb_le in H2. apply orb_false_iff. split; apply N.eqb_neq; lia.
Qed.

Lemma canon_print_dec n : canon_value (print_dec n) = true.
Proof.
  unfold print_dec. pose proof (uint_chars_digits (N.to_uint n)) as Hd.
  apply canon_single; [apply digits_no_eol; exact Hd|].
  destruct (uint_chars (N.to_uint n)) as [|c r]; [exact I|]. cbn [forallb] in Hd. apply andb_true_iff in Hd. apply digit_not_indent, Hd.
Qed.
Lemma no_lf_print_dec n : no_lf (print_dec n) = true.
Proof. apply no_eol_no_lf, digits_no_eol, uint_chars_digits. Qed.

Lemma canon_print_int z : canon_value (print_int z) = true /\ no_lf (print_int z) = true.
Proof.
  unfold print_int. destruct (Z.to_int z) as [u|u].
  - pose proof (uint_chars_digits u) as Hd. split; [|apply no_eol_no_lf, digits_no_eol, Hd].
    apply canon_single; [apply digits_no_eol; exact Hd|].
    destruct (uint_chars u) as [|c r]; [exact I|]. cbn [forallb] in Hd. apply andb_true_iff in Hd. apply digit_not_indent, Hd.
  - pose proof (uint_chars_digits u) as Hd. pose proof (digits_no_eol _ Hd) as Hn.
    assert (H45 : no_eol (45%N :: uint_chars u) = true) by (unfold no_eol in *; cbn [forallb]; rewrite Hn; reflexivity).
    split; [|apply no_eol_no_lf, H45]. apply canon_single; [exact H45|reflexivity].
Qed.

(* ------------------------------------------------------------------ split_whitespace pieces *)
Lemma split_ws_go_items s : forall acc, ws_free acc = true -> forallb ws_item (split_ws_go s acc) = true.
Proof.
  induction s as [|c r IH]; intros acc Ha; cbn [split_ws_go].
  - destruct acc; [reflexivity|]. cbn [forallb ws_item]. rewrite Ha. reflexivity.
  - destruct (is_ws c) eqn:Ec.
    + destruct acc as [|a acc']; [apply IH; reflexivity|]. cbn [forallb ws_item]. rewrite Ha. cbn. apply IH. reflexivity.
    + apply IH. unfold ws_free in *. rewrite forallb_app, Ha. cbn. rewrite Ec. reflexivity.
Qed.
Lemma split_ws_items s : forallb ws_item (split_ws s) = true.
Proof. apply split_ws_go_items. reflexivity. Qed.

Lemma is_ws_newline c : is_newline c = true -> is_ws c = true.
Proof.
  unfold is_newline, is_ws. intros H. apply orb_true_iff in H. destruct H as [H|H]; apply N.eqb_eq in H; subst c; reflexivity.
Qed.
Lemma is_ws_indent c : is_indent c = true -> is_ws c = true.
Proof.
  unfold is_indent, is_ws. intros H. apply orb_true_iff in H. destruct H as [H|H]; apply N.eqb_eq in H; subst c; reflexivity.
Qed.
Lemma ws_free_no_eol w : ws_free w = true -> no_eol w = true.
Proof.
  unfold ws_free, no_eol. induction w as [|c r IH]; [reflexivity|]. cbn [forallb]. intros H. apply andb_true_iff in H. destruct H as [Hc Hr].
  rewrite (IH Hr), andb_true_r. apply negb_true_iff. apply negb_true_iff in Hc.
  destruct (is_newline c) eqn:E; [|reflexivity]. rewrite (is_ws_newline _ E) in Hc. discriminate.
Qed.
Lemma ws_item_facts w : ws_item w = true -> w <> [] /\ no_eol w = true /\ match w with c :: _ => is_indent c = false | [] => True end.
Proof.
  destruct w as [|c r]; [discriminate|]. cbn [ws_item]. intros H. split; [discriminate|]. split; [apply ws_free_no_eol; exact H|].
  unfold ws_free in H. cbn [forallb] in H. apply andb_true_iff in H. destruct H as [Hc _]. apply negb_true_iff in Hc.
  destruct (is_indent c) eqn:E; [|reflexivity]. rewrite (is_ws_indent _ E) in Hc. discriminate.
Qed.

Lemma no_eol_app a b : no_eol (a ++ b) = no_eol a && no_eol b.
Proof. unfold no_eol. apply forallb_app. Qed.

Lemma join_sp_no_eol ws : forallb ws_item ws = true -> no_eol (join [32%N] ws) = true.
Proof.
  induction ws as [|w r IH]; [reflexivity|]. cbn [forallb]. intros H. apply andb_true_iff in H. destruct H as [Hw Hr].
  destruct (ws_item_facts _ Hw) as (_ & Hn & _). destruct r as [|w2 r2]; [exact Hn|].
  rewrite join_cons2 by discriminate. rewrite !no_eol_app, Hn, (IH Hr). reflexivity.
Qed.
Lemma join_head_not_indent sep ws : forallb ws_item ws = true ->
  match join sep ws with c :: _ => is_indent c = false | [] => True end.
Proof.
  destruct ws as [|w r]; [intros _; exact I|]. cbn [forallb]. intros H. apply andb_true_iff in H. destruct H as [Hw _].
  destruct (ws_item_facts _ Hw) as (Hne & _ & Hi). destruct w as [|c w']; [congruence|].
  destruct r; cbn [join app]; exact Hi.
Qed.

Lemma canon_join_sp ws : forallb ws_item ws = true -> canon_value (join [32%N] ws) = true.
Proof. intros H. apply canon_single; [apply join_sp_no_eol; exact H|apply join_head_not_indent; exact H]. Qed.

Lemma forallb_ws_no_lf ws : forallb ws_item ws = true -> forallb no_lf ws = true.
Proof.
  intros H. apply forallb_forall. intros w Hw. rewrite forallb_forall in H. apply no_eol_no_lf. apply (ws_item_facts _ (H w Hw)).
Qed.

(* one item per line: canonical unless an item after the first starts with '#' *)
Lemma canon_join_lf ws : forallb ws_item ws = true -> forallb (fun w => negb (starts_hash w)) (tl ws) = true ->
  canon_value (join [LF] ws) = true.
Proof.
  intros H Hh. destruct ws as [|w1 rest]; [reflexivity|].
  unfold canon_value. rewrite split_lf_join_nolf by (discriminate || apply forallb_ws_no_lf; exact H).
  cbn [forallb] in H. apply andb_true_iff in H. destruct H as [H1 Hr]. cbn [tl] in Hh.
  destruct (ws_item_facts _ H1) as (_ & Hn1 & Hi1). apply andb_true_iff. split.
  - unfold canon_first. rewrite Hn1. destruct w1; [reflexivity|]. rewrite Hi1. reflexivity.
  - apply forallb_forall. intros w Hw. rewrite forallb_forall in Hr, Hh. specialize (Hr w Hw). specialize (Hh w Hw).
    destruct (ws_item_facts _ Hr) as (Hne & Hn & Hi). unfold canon_cont. rewrite Hn. destruct w as [|c w']; [congruence|].
    rewrite Hi. unfold starts_hash in Hh. rewrite Hh. reflexivity.
Qed.

(* ------------------------------------------------------------------ lines() on canonical values *)
Lemma lcanon_value_lines x : lcanon_value x = true -> join [LF] (lines x) = x.
Proof.
  unfold lcanon_value. intros H. pose proof (join_split_lf x) as Hj. destruct (split_lf x) as [|l1 rest] eqn:Es; [discriminate|].
  apply andb_true_iff in H. destruct H as [H Hl]. apply andb_true_iff in H. destruct H as [H1 Hr].
  unfold canon_first in H1. apply andb_true_iff in H1. destruct H1 as [Hn1 _].
  assert (Hnr : forallb no_eol rest = true).
  { apply forallb_forall. intros c Hc. rewrite forallb_forall in Hr. specialize (Hr c Hc). unfold lcanon_cont in Hr. apply andb_true_iff in Hr. apply Hr. }
  destruct rest as [|l2 r2].
  - cbn [join] in Hj. subst x. destruct l1 as [|c l]; [reflexivity|].
    change (c :: l) with (join [LF] [c :: l]) at 1. rewrite lines_join; [reflexivity| |cbn; discriminate].
    cbn [forallb]. rewrite Hn1. reflexivity.
  - rewrite <- Hj at 1. rewrite lines_join; [exact Hj| |].
    + cbn [forallb]. rewrite Hn1. exact Hnr.
    + change (last (l1 :: l2 :: r2) [1%N]) with (last (l2 :: r2) [1%N]). unfold last_nonempty in Hl.
      destruct (rev (l2 :: r2)) as [|z zs] eqn:Er; [apply (f_equal (@rev str)) in Er; rewrite rev_involutive in Er; discriminate|].
      apply (f_equal (@rev str)) in Er. rewrite rev_involutive in Er. cbn [rev] in Er. rewrite Er, last_last. destruct z; discriminate.
Qed.
Lemma dom_value_lines ll x : dom ll x -> join [LF] (lines x) = x.
Proof. intros H. apply lcanon_value_lines. destruct ll; cbn [dom] in H; [apply canon_lcanon, ll_dom_canon, H|exact H]. Qed.

(* ------------------------------------------------------------------ the law, per codec pair *)
Section Ext.
Variable E : Type.
Variable ext_print : N -> E -> str.
Variable ext_parse : N -> str -> option E.
Notation uval := (uval E).
Notation sval := (list (option (Derive.uval E))).
Notation ser := (ser E ext_print).
Notation de := (de E ext_parse).
Notation from_field := (from_field E ext_parse).
Notation from_fields := (from_fields E ext_parse).
Notation to_items := (to_items E ext_print).

(* THE law about the external codecs [ids] under the deb822 reader [ll]: a value obtained by
   parsing a text of the reader's domain (and inside the guard [G] of the codec's known class, if it
   has one) prints to canonical text which, as that reader shows it, parses to the same value.
   For url / chrono / debversion / lossy Relations it is a premise (validated by the typed-doc
   stream on the real functions); for the workspace's own codecs it is proved (TypedExtP.v). *)
Definition ext_stable_on (G : N -> str -> bool) (ll : bool) (ids : list N) : Prop :=
  forall i x e, In i ids -> G i x = true -> dom ll x -> ext_parse i x = Some e ->
    pcanon ll (ext_print i e) = true /\ ext_parse i (rr ll (ext_print i e)) = Some e.
(* without a guard *)
Definition ext_stable (ll : bool) (ids : list N) : Prop := ext_stable_on (fun _ _ => true) ll ids.
Lemma ext_stable_any_guard G ll ids : ext_stable ll ids -> ext_stable_on G ll ids.
Proof. intros H i x e Hi _. apply H; [exact Hi|reflexivity]. Qed.

(* the guard of the external codecs' known classes, on the values a struct reads through [get] *)
Definition ext_guard (G : N -> str -> bool) (fs : list fieldspec) (get : str -> option str) : bool :=
  forallb (fun f => match f_de f with
                    | DExt i => match get (f_key f) with Some x => G i x | None => true end
                    | _ => true
                    end) fs.
Lemma ext_guard_true fs get : ext_guard (fun _ _ => true) fs get = true.
Proof. unfold ext_guard. apply forallb_forall. intros f _. destruct (f_de f); try reflexivity. destruct (get (f_key f)); reflexivity. Qed.

Lemma parse_udec_range bits s n : parse_udec bits s = Some n -> (n < 2 ^ bits)%N.
Proof.
  unfold parse_udec. destruct (match s with 43%N :: (_ :: _) as r => r | _ => s end); [discriminate|].
  destruct (chars_uint _); [|discriminate]. destruct (N.of_uint u <? 2 ^ bits)%N eqn:Elt; [|discriminate].
  intros H. injection H as <-. apply N.ltb_lt. exact Elt.
Qed.
Lemma parse_int_range bits s z : parse_int bits s = Some z -> int_in_range bits z.
Proof.
  unfold parse_int. destruct (match s with 43%N :: (_ :: _) as r => (false, r) | 45%N :: (_ :: _) as r => (true, r) | _ => (false, s) end) as [neg digits].
  destruct digits; [discriminate|]. destruct (chars_uint _); [|discriminate].
  match goal with |- context [if ?c then _ else _] => destruct c eqn:Erg end; [|discriminate].
  intros H. injection H as <-. apply andb_true_iff in Erg. destruct Erg as [E1 E2].
  apply Z.leb_le in E1. apply Z.ltb_lt in E2. unfold int_in_range. lia.
Qed.

Lemma canon_bool_words : canon_value s_true = true /\ canon_value s_false = true /\ canon_value s_yes = true /\
  canon_value s_no = true /\ canon_value s_ja = true /\ canon_value s_nee = true.
Proof. vm_compute. repeat split. Qed.

Theorem stable_field G ll ids s d x u :
  ext_stable_on G ll ids -> (forall i, d = DExt i -> In i ids /\ G i x = true) -> stable_pair s d = true ->
  dom ll x -> de d x = Some u ->
  exists y, ser s u = Some y /\ pcanon ll y = true /\ de d (rr ll y) = Some u.
Proof.
  intros Hext Hid Hp Hx Hd. pose proof (dom_pcanon _ _ Hx) as Hc. pose proof (rr_dom _ _ Hx) as Hr.
  destruct canon_bool_words as (Ct & Cf & Cy & Cn & Cj & Cne).
  pose proof (canon_pcanon ll) as CP.
  destruct s, d; cbn [stable_pair] in Hp; try discriminate; cbn [Derive.de] in Hd.
  - (* SStr DStr *) injection Hd as <-. exists x. cbn [Derive.ser Derive.de]. rewrite Hr. auto.
  - (* SBool DBool *)
    destruct (str_eqb x s_true) eqn:E1; [injection Hd as <-; exists s_true; cbn [Derive.ser]; rewrite rr_single by reflexivity; auto|].
    destruct (str_eqb x s_false) eqn:E2; [injection Hd as <-; exists s_false; cbn [Derive.ser]; rewrite rr_single by reflexivity; auto|discriminate].
  - (* SYesNo DYesNo *)
    destruct (str_eqb x s_yes) eqn:E1; [injection Hd as <-; exists s_yes; cbn [Derive.ser]; rewrite rr_single by reflexivity; auto|].
    destruct (str_eqb x s_no) eqn:E2; [injection Hd as <-; exists s_no; cbn [Derive.ser]; rewrite rr_single by reflexivity; auto|discriminate].
  - (* SJaNee DJa *)
    injection Hd as <-. destruct (str_eqb x s_ja); [exists s_ja|exists s_nee]; cbn [Derive.ser]; rewrite rr_single by reflexivity; auto.
  - (* SNum DNum *)
    destruct (parse_udec bits x) as [n|] eqn:Ep; [|discriminate]. injection Hd as <-.
    exists (print_dec n). cbn [Derive.ser Derive.de]. rewrite rr_single by apply no_lf_print_dec.
    rewrite (parse_print_dec _ _ (parse_udec_range _ _ _ Ep)). split; [reflexivity|]. split; [apply CP, canon_print_dec|reflexivity].
  - (* SInt DInt *)
    destruct (parse_int bits x) as [z|] eqn:Ep; [|discriminate]. injection Hd as <-.
    exists (print_int z). cbn [Derive.ser Derive.de]. destruct (canon_print_int z) as [C1 C2]. rewrite rr_single by exact C2.
    rewrite (parse_print_int _ _ (parse_int_range _ _ _ Ep)). auto.
  - (* SJoinWs DSplitWs *)
    injection Hd as <-. exists (join [32%N] (split_ws x)). cbn [Derive.ser Derive.de]. pose proof (split_ws_items x) as Hi.
    rewrite rr_single by (apply no_eol_no_lf, join_sp_no_eol, Hi). rewrite (split_ws_join _ Hi).
    split; [reflexivity|]. split; [apply CP, canon_join_sp; exact Hi|reflexivity].
  - (* SJoinNl DSplitNl *)
    injection Hd as <-. exists x. cbn [Derive.ser Derive.de]. change [10%N] with [LF]. rewrite join_split_lf, Hr. auto.
  - (* SJoinNl DSplitNlE: the empty text is the empty list, anything else as above *)
    injection Hd as <-. exists x. cbn [Derive.ser Derive.de]. split.
    + destruct x; [reflexivity|]. change [10%N] with [LF]. rewrite join_split_lf. reflexivity.
    + rewrite Hr. auto.
  - (* SJoinNl DLines *)
    injection Hd as <-. exists x. cbn [Derive.ser Derive.de]. change [10%N] with [LF]. rewrite (dom_value_lines _ _ Hx), Hr. auto.
  - (* SExt DExt *)
    apply N.eqb_eq in Hp. subst id0. destruct (ext_parse id x) as [e|] eqn:Ep; [|discriminate]. injection Hd as <-.
    destruct (Hid id eq_refl) as [Hin HG]. destruct (Hext id x e Hin HG Hx Ep) as [C1 C2]. exists (ext_print id e). cbn [Derive.ser Derive.de]. rewrite C2. auto.
Qed.

(* the white-space separated list printed one item per line *)
Theorem hash_field ll s d x u : hash_pair s d = true -> hash_word_free x = true -> de d x = Some u ->
  exists y, ser s u = Some y /\ pcanon ll y = true /\ de d (rr ll y) = Some u.
Proof.
  intros Hp Hh Hd. destruct s, d; try discriminate. cbn [Derive.de] in Hd. injection Hd as <-.
  pose proof (split_ws_items x) as Hi. exists (join [LF] (split_ws x)). cbn [Derive.ser Derive.de].
  split; [reflexivity|]. split; [apply canon_pcanon, canon_join_lf; assumption|].
  assert (Hrr : rr ll (join [LF] (split_ws x)) = join [LF] (split_ws x)).
  { destruct ll; [|reflexivity]. cbn [rr]. destruct (split_ws x) as [|w1 rest] eqn:Es; [reflexivity|].
    apply ll_norm_join; [|apply forallb_ws_no_lf; exact Hi].
    cbn [forallb] in Hi. apply andb_true_iff in Hi. destruct Hi as [H1 _]. apply (ws_item_facts _ H1). }
  rewrite Hrr. change [LF] with [10%N]. rewrite (split_ws_join_lf _ Hi). reflexivity.
Qed.

(* ------------------------------------------------------------------ structs *)
(* what a successful from_fields says about each field *)
Definition field_reads_as (get : str -> option str) (f : fieldspec) (x : option uval) : Prop :=
  match get (f_key f) with
  | Some s => exists u, x = Some u /\ de (f_de f) s = Some u
  | None => x = None /\ f_opt f = true
  end.
Lemma from_fields_reads get fs v : from_fields get fs = DOk v -> Forall2 (field_reads_as get) fs v.
Proof.
  revert v. induction fs as [|f r IH]; intros v; cbn [Derive.from_fields].
  - intros H. injection H as <-. constructor.
  - destruct (from_field get f) as [x|e] eqn:Ef; [|discriminate].
    destruct (from_fields get r) as [xs|e] eqn:Er; [|discriminate]. intros H. injection H as <-.
    constructor; [|apply IH; reflexivity]. unfold field_reads_as. unfold Derive.from_field in Ef.
    destruct (get (f_key f)) as [s|].
    + destruct (de (f_de f) s) as [u|] eqn:Ed; [|discriminate]. injection Ef as <-. exists u. auto.
    + destruct (f_opt f); [|discriminate]. injection Ef as <-. auto.
Qed.
Lemma reads_from_fields get fs v : Forall2 (field_reads_as get) fs v -> from_fields get fs = DOk v.
Proof.
  induction 1 as [|f x fs v Hx _ IH]; [reflexivity|]. cbn [Derive.from_fields]. unfold Derive.from_field.
  unfold field_reads_as in Hx. destruct (get (f_key f)) as [s|].
  - destruct Hx as (u & -> & Hd). rewrite Hd, IH. reflexivity.
  - destruct Hx as [-> Ho]. rewrite Ho, IH. reflexivity.
Qed.

(* a struct value that prints to canonical items and reads back from them *)
Definition good (ll : bool) (fs : list fieldspec) (v : sval) : Prop :=
  to_items fs v = Some (present_items E ext_print fs v) /\
  forallb (pfield ll) (present_items E ext_print fs v) = true /\
  map fst (present_items E ext_print fs v) = present_keys E fs v /\
  from_fields (fun k => option_map (rr ll) (l_get (present_items E ext_print fs v) k)) fs = DOk v.

(* per field: what reading promised, turned into what printing and re-reading needs *)
Definition field_good (ll : bool) (f : fieldspec) (x : option uval) : Prop :=
  match x with
  | None => f_opt f = true
  | Some u => exists y, ser (f_ser f) u = Some y /\ pcanon ll y = true /\ de (f_de f) (rr ll y) = Some u
  end.

Lemma present_items_canon ll fs v : forallb (fun f => valid_name (f_key f)) fs = true ->
  Forall2 (field_good ll) fs v -> forallb (pfield ll) (present_items E ext_print fs v) = true.
Proof.
  intros Hk H. induction H as [|f x fs v Hx _ IH]; [reflexivity|]. cbn [forallb] in Hk. apply andb_true_iff in Hk. destruct Hk as [Hk Hr].
  cbn [present_items]. destruct x as [u|]; cbn [fprint].
  - destruct Hx as (y & Hy & Hc & _). rewrite Hy. cbn [forallb]. rewrite (IH Hr), andb_true_r. unfold pfield. cbn [fst snd]. rewrite Hk, Hc. reflexivity.
  - apply IH. exact Hr.
Qed.

Lemma field_good_typed ll fs v : Forall2 (field_good ll) fs v -> val_typed E ext_print fs v.
Proof.
  induction 1 as [|f x fs v Hx _ IH]; constructor; [|exact IH]. destruct x as [u|]; [|exact Hx].
  destruct Hx as (y & Hy & _). exists y. exact Hy.
Qed.

Lemma good_of_fields ll fs v : NoDup (map f_key fs) -> forallb (fun f => valid_name (f_key f)) fs = true ->
  Forall2 (field_good ll) fs v -> good ll fs v.
Proof.
  intros Hnd Hk H. pose proof (field_good_typed _ _ _ H) as Hty. unfold good.
  split; [apply to_items_typed; exact Hty|]. split; [eapply present_items_canon; eassumption|].
  split; [apply present_items_keys; exact Hty|].
  apply reads_from_fields.
  pose proof (present_items_get E ext_print fs v Hnd (Forall2_length_eq _ _ _ H)) as Hg.
  clear Hnd Hk Hty. set (L := present_items E ext_print fs v) in *. clearbody L.
  induction H as [|f x fs v Hx _ IH]; [constructor|]. inversion Hg as [|? ? ? ? Hgx Hgr]; subst.
  constructor; [|apply IH; exact Hgr]. unfold field_reads_as. rewrite Hgx. destruct x as [u|]; cbn [fprint].
  - destruct Hx as (y & Hy & _ & Hd). rewrite Hy. cbn [option_map]. exists u. auto.
  - cbn [option_map]. split; [reflexivity|exact Hx].
Qed.

Lemma ext_ids_in fs f i : In f fs -> f_de f = DExt i -> In i (ext_ids fs).
Proof.
  intros Hf Hd. unfold ext_ids. apply in_flat_map. exists f. split; [exact Hf|]. rewrite Hd. left. reflexivity.
Qed.

Lemma ok_struct_stable_facts fs : ok_struct_stable fs = true ->
  NoDup (map f_key fs) /\ forallb (fun f => valid_name (f_key f)) fs = true /\
  forall f, In f fs -> stable_pair (f_ser f) (f_de f) = true \/ hash_pair (f_ser f) (f_de f) = true.
Proof.
  unfold ok_struct_stable. intros H. apply andb_true_iff in H. destruct H as [H1 H2].
  split; [apply nodup_keys_NoDup; exact H1|]. rewrite forallb_forall in H2. split.
  - apply forallb_forall. intros f Hf. specialize (H2 f Hf). unfold ok_field_stable in H2. apply andb_true_iff in H2. apply H2.
  - intros f Hf. specialize (H2 f Hf). unfold ok_field_stable in H2. apply andb_true_iff in H2. destruct H2 as [_ H2]. apply orb_true_iff. exact H2.
Qed.

(* THE struct-level statement: a value read through [get] (all of whose values are in the reader's
   domain) is good *)
Theorem read_value_good G ll fs get v :
  ok_struct_stable fs = true -> ext_stable_on G ll (ext_ids fs) -> ext_guard G fs get = true -> hash_guard fs get = true ->
  (forall k x, get k = Some x -> dom ll x) ->
  from_fields get fs = DOk v -> good ll fs v.
Proof.
  intros Hok Hext HG Hg Hdom Hv. unfold ext_guard in HG. rewrite forallb_forall in HG. destruct (ok_struct_stable_facts _ Hok) as (Hnd & Hk & Hpairs).
  apply good_of_fields; [exact Hnd|exact Hk|]. apply from_fields_reads in Hv.
  unfold hash_guard in Hg. rewrite forallb_forall in Hg.
  assert (Haux : forall fs0 v0, (forall f, In f fs0 -> In f fs) -> Forall2 (field_reads_as get) fs0 v0 -> Forall2 (field_good ll) fs0 v0).
  { induction fs0 as [|f r IH]; intros v0 Hin Hv0; inversion Hv0 as [|? x ? xs Hx Hr]; subst; constructor.
    - pose proof (Hin f (or_introl eq_refl)) as Hf. unfold field_reads_as in Hx. unfold field_good.
      destruct (get (f_key f)) as [s|] eqn:Eg.
      + destruct Hx as (u & -> & Hd). destruct (Hpairs f Hf) as [Hp|Hp].
        * eapply stable_field; [exact Hext| |exact Hp|apply (Hdom _ _ Eg)|exact Hd]. intros i Hi. split; [eapply ext_ids_in; eassumption|].
          specialize (HG f Hf). rewrite Hi, Eg in HG. exact HG.
        * eapply hash_field; [exact Hp| |exact Hd]. specialize (Hg f Hf). rewrite Hp, Eg in Hg. cbn in Hg. exact Hg.
      + destruct Hx as [-> Ho]. exact Ho.
    - apply IH; [|exact Hr]. intros g Hg'. apply Hin. right. exact Hg'. }
  apply Haux; [auto|exact Hv].
Qed.

(* mandatory fields are present in a value that was read *)
Lemma read_mandatory_present get fs v k : from_fields get fs = DOk v -> mandatory_key fs k = true ->
  In k (present_keys E fs v).
Proof.
  intros Hv. apply from_fields_reads in Hv. induction Hv as [|f x fs v Hx _ IH]; cbn [mandatory_key existsb]; [discriminate|].
  intros H. apply orb_true_iff in H. cbn [present_keys]. destruct H as [H|H].
  - apply andb_true_iff in H. destruct H as [Hk Ho]. apply str_eqb_eq in Hk. subst k. apply negb_true_iff in Ho.
    unfold field_reads_as in Hx. destruct (get (f_key f)).
    + destruct Hx as (u & -> & _). left. reflexivity.
    + destruct Hx as [_ Ho']. congruence.
  - destruct x; [right|]; apply IH; exact H.
Qed.

Lemma has_key_In fs k : has_key fs k = true <-> In k (map f_key fs).
Proof.
  unfold has_key. rewrite existsb_exists. split.
  - intros (f & Hf & He). apply str_eqb_eq in He. subst k. apply in_map. exact Hf.
  - intros H. apply in_map_iff in H. destruct H as (f & <- & Hf). exists f. split; [exact Hf|apply str_eqb_refl].
Qed.

(* what the re-reader's get answers on the printed items of a good value *)
Lemma good_get_absent ll fs v k : good ll fs v -> has_key fs k = false ->
  l_get (present_items E ext_print fs v) k = None.
Proof.
  intros (_ & _ & Hk & _) Hn. apply l_get_none_iff. rewrite Hk. intros Hin. apply present_keys_incl in Hin.
  apply has_key_In in Hin. congruence.
Qed.
Lemma good_get_present ll fs v k : good ll fs v -> In k (present_keys E fs v) ->
  exists y, l_get (present_items E ext_print fs v) k = Some y.
Proof.
  intros (_ & _ & Hk & _) Hin. destruct (l_get (present_items E ext_print fs v) k) eqn:Eg; [eexists; reflexivity|].
  apply l_get_none_iff in Eg. rewrite Hk in Eg. contradiction.
Qed.

End Ext.

(* ------------------------------------------------------------------ the generated tables *)
Lemma no_hash_guard fs get : forallb (fun f => negb (hash_pair (f_ser f) (f_de f))) fs = true -> hash_guard fs get = true.
Proof.
  unfold hash_guard. intros H. apply forallb_forall. intros f Hf. rewrite forallb_forall in H. rewrite (H f Hf). reflexivity.
Qed.

Lemma tables_ok : assembly_tables_ok = true.
Proof. vm_compute. reflexivity. Qed.
