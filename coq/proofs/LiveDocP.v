(* Live documents: what an edited tree prints, and that it re-reads to the content it reports. *)
From V.model Require Import Base Deb822Lex Deb822Parse Grammar Lossy LossySpec Deb822Edit LiveDoc.
From V.proofs Require Import BaseP GrammarLexP GrammarParseP GrammarAccP LossyRtP Deb822EditP.

(* ---- text ---- *)
Lemma texts_opt_elem k s : texts (opt_elem k s) = s.
Proof. destruct s; [reflexivity|]. cbn [opt_elem texts flat_map text]. apply app_nil_r. Qed.
Lemma texts_nl_elem b : texts (nl_elem b) = nl_text b.
Proof. destruct b; reflexivity. Qed.
Lemma texts_cont_elems cs : texts (flat_map cont_elems cs) = flat_map cont_text cs.
Proof.
  induction cs as [|[i t] cs IH]; [reflexivity|]. cbn [flat_map]. rewrite texts_app, IH.
  unfold cont_elems, cont_text. cbn [fst snd texts flat_map text app]. rewrite app_nil_r. reflexivity.
Qed.
Lemma text_field_tree f : text (field_tree f) = field_text f.
Proof.
  unfold field_tree, field_text. rewrite text_node. rewrite !texts_cons, !text_tok, !texts_app.
  rewrite !texts_opt_elem, texts_nl_elem, texts_cont_elems. rewrite <- ?app_assoc. reflexivity.
Qed.
Lemma texts_comment_elems c nl : texts (comment_elems c nl) = comment_text c nl.
Proof. unfold comment_elems, comment_text. rewrite texts_cons, text_tok, texts_nl_elem. reflexivity. Qed.
Lemma texts_item_elems its : texts (flat_map item_elems its) = flat_map item_text its.
Proof.
  induction its as [|it r IH]; [reflexivity|]. cbn [flat_map]. rewrite texts_app, IH. f_equal.
  destruct it as [f|c nl]; cbn [item_elems item_text].
  - rewrite texts_cons, texts_nil, app_nil_r. apply text_field_tree.
  - apply texts_comment_elems.
Qed.

Lemma render_norm_items its : render (norm_items its) = flat_map item_text its.
Proof.
  induction its as [|it r IH]; [reflexivity|]. destruct it as [f|c nl]; cbn [norm_items flat_map item_text].
  - unfold render. cbn [flat_map block_text]. rewrite app_nil_r. reflexivity.
  - unfold render in *. cbn [flat_map block_text]. rewrite IH. reflexivity.
Qed.

Theorem text_ltree_of d : text (ltree_of d) = render (norm d).
Proof.
  unfold ltree_of, norm, render. rewrite text_node. induction d as [|b r IH]; [reflexivity|].
  cbn [map flat_map]. rewrite texts_cons, IH, flat_map_app. f_equal.
  destruct b as [|c nl|its]; cbn [lblock_tree norm_block].
  - reflexivity.
  - rewrite text_node, texts_comment_elems. cbn [flat_map block_text]. rewrite app_nil_r. reflexivity.
  - rewrite text_node, texts_item_elems. symmetry. apply render_norm_items.
Qed.

(* ---- content ---- *)
Lemma pitems_item_elems its : pitems (flat_map item_elems its) = flat_map item_pairs its.
Proof.
  induction its as [|it r IH]; [reflexivity|]. cbn [flat_map]. rewrite pitems_app, IH. f_equal.
  destruct it as [f|c nl]; cbn [item_elems item_pairs].
  - rewrite pitems_cons_entry by reflexivity. rewrite entry_key_field, entry_value_field. reflexivity.
  - destruct nl; reflexivity.
Qed.

Theorem doc_items_ltree_of d : doc_items (ltree_of d) = lcontent d.
Proof.
  unfold doc_items, paragraphs, node_children_of_kind, ltree_of, lcontent. cbn [children].
  induction d as [|b r IH]; [reflexivity|]. cbn [map filter flat_map].
  destruct b as [|c nl|its]; cbn [lblock_tree app]; try exact IH.
  change (is_node (Node PARAGRAPH (flat_map item_elems its)) && is_kind PARAGRAPH (Node PARAGRAPH (flat_map item_elems its))) with true.
  cbn [map]. rewrite IH. f_equal. apply pitems_item_elems.
Qed.

Lemma content_norm_items its :
  content (norm_items its) = nonempty_paras [flat_map item_pairs its].
Proof.
  induction its as [|it r IH]; [reflexivity|]. destruct it as [f|c nl]; cbn [norm_items flat_map item_pairs app].
  - reflexivity.
  - unfold content in *. cbn [flat_map block_content app]. exact IH.
Qed.

Theorem content_norm d : content (norm d) = nonempty_paras (lcontent d).
Proof.
  unfold norm, content, lcontent, nonempty_paras. induction d as [|b r IH]; [reflexivity|].
  cbn [flat_map]. rewrite flat_map_app, filter_app, IH. f_equal.
  destruct b as [|c nl|its]; try reflexivity. apply (content_norm_items its).
Qed.

(* ---- well-formedness of the re-read layout ---- *)
Lemma wf_norm_items its more next :
  wf_items its more = true ->
  (match next with [] => more = false | BBlank :: _ => more = true | _ => False end) ->
  wf_doc next = true ->
  wf_doc (norm_items its ++ next) = true.
Proof.
  revert more. induction its as [|it r IH]; intros more Hwf Hn Hnext; [exact Hnext|].
  cbn [wf_items] in Hwf. apply andb_true_iff in Hwf. destruct Hwf as [Hit Hr].
  destruct it as [f|c nl]; cbn [norm_items app wf_doc].
  - rewrite Hnext, andb_true_r.
    assert (Em : (match next with [] => false | _ => true end) = more).
    { destruct next as [|b n]; [symmetry; exact Hn|]. destruct b; try contradiction. symmetry; exact Hn. }
    rewrite Em.
    assert (Hfm : wf_field f (match r with [] => more | _ => true end) = true) by exact Hit.
    rewrite Hfm, Hr. destruct next as [|b n]; [reflexivity|]. destruct b; try contradiction. reflexivity.
  - rewrite (IH more Hr Hn Hnext), andb_true_r.
    assert (Em : (match norm_items r ++ next with [] => false | _ => true end) = match r with [] => more | _ => true end).
    { destruct r as [|it2 r2].
      - cbn [norm_items app]. destruct next as [|b n]; [symmetry; exact Hn|]. destruct b; try contradiction. symmetry; exact Hn.
      - destruct it2; reflexivity. }
    rewrite Em. exact Hit.
Qed.

Theorem wf_norm d : lwf d = true -> wf_doc (norm d) = true.
Proof.
  induction d as [|b r IH]; [reflexivity|]. cbn [lwf]. intros H.
  apply andb_true_iff in H. destruct H as [Hb Hr]. specialize (IH Hr).
  unfold norm in *. cbn [flat_map].
  assert (Em : (match flat_map norm_block r with [] => false | _ => true end) = match r with [] => false | _ => true end \/
               (exists its r', r = LPara its :: r')).
  { destruct r as [|b2 r2]; [left; reflexivity|]. destruct b2; [left; reflexivity|left; reflexivity|right; eauto]. }
  destruct b as [|c nl|its]; cbn [norm_block app wf_doc].
  - exact IH.
  - rewrite IH, andb_true_r.
    destruct r as [|b2 r2]; [exact Hb|]. destruct b2 as [|c2 nl2|its2]; try exact Hb.
    (* next block is a paragraph: text follows unless it is empty; the comment is terminated anyway *)
    cbn [flat_map norm_block]. unfold wf_comment in *. apply andb_true_iff in Hb. destruct Hb as [Hc Hn].
    rewrite Hc. cbn [andb]. destruct nl; [reflexivity|discriminate].
  - apply andb_true_iff in Hb. destruct Hb as [Hits Hnext].
    apply (wf_norm_items its (match r with [] => false | _ => true end)); [exact Hits| |exact IH].
    destruct r as [|b2 r2]; [reflexivity|]. destruct b2; try discriminate. reflexivity.
Qed.

(* ---- re-reading a live document ---- *)
Theorem live_reread d : lwf d = true ->
  exists t', from_str (text (ltree_of d)) = Ok t' /\
             doc_items t' = nonempty_paras (doc_items (ltree_of d)).
Proof.
  intros H. pose proof (wf_norm d H) as Hwf.
  destruct (C03_accept_all (norm d) Hwf) as (E & _ & Ei).
  exists (tree_of (norm d)). rewrite text_ltree_of. split; [exact E|].
  rewrite Ei, content_norm, doc_items_ltree_of. reflexivity.
Qed.

(* ---- parsed well-formed documents are live documents ---- *)
Definition lift_block (b : block) : lblock :=
  match b with BBlank => LBlank | BComment c nl => LComment c nl | BPara f its => LPara (IField f :: its) end.
Definition lift (d : doc) : ldocl := map lift_block d.

Lemma ltree_of_lift d : ltree_of (lift d) = tree_of d.
Proof.
  unfold ltree_of, tree_of, lift. rewrite map_map. f_equal. apply map_ext. intros [|c nl|f its]; reflexivity.
Qed.

Lemma lwf_lift d : wf_doc d = true -> lwf (lift d) = true.
Proof.
  induction d as [|b r IH]; [reflexivity|]. cbn [wf_doc]. intros H.
  apply andb_true_iff in H. destruct H as [Hb Hr]. specialize (IH Hr).
  unfold lift in *. cbn [map lwf]. rewrite IH, andb_true_r.
  assert (Em : (match map lift_block r with [] => false | _ => true end) = match r with [] => false | _ => true end)
    by (destruct r; reflexivity).
  destruct b as [|c nl|f its]; cbn [lift_block].
  - reflexivity.
  - rewrite Em. exact Hb.
  - apply andb_true_iff in Hb. destruct Hb as [Hb Hnext]. apply andb_true_iff in Hb. destruct Hb as [Hf Hits].
    rewrite Em. cbn [wf_items]. rewrite Hf, Hits. cbn [andb].
    destruct r as [|b2 r2]; [reflexivity|]. destruct b2; try discriminate. reflexivity.
Qed.

Theorem parsed_is_live d : wf_doc d = true ->
  from_str (render d) = Ok (ltree_of (lift d)) /\ lwf (lift d) = true.
Proof.
  intros H. rewrite ltree_of_lift. split; [apply (C03_accept_all d H)|apply lwf_lift; exact H].
Qed.

(* ---- Entry::new of a canonical value is the tree of its layout ---- *)
Lemma value_line_elems_S i rest :
  value_line_elems (S i) rest = flat_map (fun l => [Tok INDENT [32%N]; Tok VALUE l; Tok NEWLINE [10%N]]) rest.
Proof. revert i. induction rest as [|l r IH]; intros i; [reflexivity|]. cbn [value_line_elems flat_map app]. rewrite IH. reflexivity. Qed.

Lemma shift_nl_elems (x : tree) rest :
  x :: Tok NEWLINE [10%N] :: flat_map (fun l => [Tok INDENT [32%N]; Tok VALUE l; Tok NEWLINE [10%N]]) rest =
  x :: flat_map cont_elems (map (fun l => ([32%N], l)) rest) ++ [Tok NEWLINE [LF]].
Proof.
  revert x. induction rest as [|l r IH]; intros x; [reflexivity|].
  cbn [flat_map map cont_elems fst snd app]. f_equal. f_equal. f_equal. apply (IH (Tok VALUE l)).
Qed.

Lemma value_line_elems_succ l1 rest :
  value_line_elems 0 (l1 :: rest) =
  Tok VALUE l1 :: flat_map cont_elems (map (fun l => ([32%N], l)) rest) ++ [Tok NEWLINE [LF]].
Proof. cbn [value_line_elems app]. rewrite value_line_elems_S. apply shift_nl_elems. Qed.

Lemma entry_new_layout k v : canon_kv k v = true -> entry_new k v = field_tree (new_field k v).
Proof.
  unfold canon_kv, new_field, layout_field, entry_new, field_tree. cbn [fst snd]. intros H.
  apply andb_true_iff in H. destruct H as [H Hne]. apply andb_true_iff in H. destruct H as [_ Hv].
  unfold canon_value in Hv. pose proof (join_split_lf v) as Hj.
  destruct (split_lf v) as [|l1 rest] eqn:Es; [discriminate|].
  cbn [f_name f_ws f_first f_cont f_nl opt_elem nl_elem].
  assert (Hl1 : l1 <> []).
  { intros ->. destruct v as [|c w]; [discriminate|]. apply negb_true_iff in Hne.
    unfold split_lf in Es. cbn [split_lf_go] in Es. rewrite Hne in Es.
    (* the first piece of split_lf_go w [c] starts with c *)
    assert (G : forall s acc, acc <> [] -> match split_lf_go s acc with x :: _ => x <> [] | [] => False end).
    { induction s as [|d s IH]; intros acc Ha; cbn [split_lf_go]; [exact Ha|].
      destruct (d =? 10)%N; [exact Ha|]. apply IH. destruct acc; discriminate. }
    specialize (G w [c] ltac:(discriminate)). cbn [app] in Es. rewrite Es in G. congruence. }
  rewrite value_line_elems_succ. destruct l1 as [|c l1']; [congruence|]. reflexivity.
Qed.

Lemma wf_new_field k v more : canon_kv k v = true -> wf_field (new_field k v) more = true.
Proof.
  unfold canon_kv. intros H. apply andb_true_iff in H. destruct H as [H _].
  apply wf_layout_field. exact H.
Qed.

Lemma new_field_pair k v : canon_kv k v = true -> field_pair (new_field k v) = (k, v).
Proof.
  intros H. unfold field_pair. rewrite <- entry_value_field, <- (entry_new_layout k v H), entry_new_value.
  unfold new_field, layout_field. cbn [fst snd]. destruct (split_lf v); reflexivity.
Qed.

(* ---- ensure_trailing_newline on a paragraph's children = terminating the last item ---- *)
Lemma ensure_nl_field_tree f :
  ensure_nl (field_tree f) = field_tree (mk_field (f_name f) (f_ws f) (f_first f) (f_cont f) true).
Proof.
  unfold field_tree. cbn [f_name f_ws f_first f_cont f_nl].
  change (ensure_nl (Node ENTRY ?l)) with (Node ENTRY (ensure_nl_list l)).
  f_equal. rewrite ensure_nl_list_spec.
  set (body := Tok KEY (f_name f) :: Tok COLON [58%N] :: opt_elem WHITESPACE (f_ws f) ++ opt_elem VALUE (f_first f) ++ flat_map cont_elems (f_cont f)).
  assert (Eb : forall tl, Tok KEY (f_name f) :: Tok COLON [58%N] :: opt_elem WHITESPACE (f_ws f) ++ opt_elem VALUE (f_first f) ++ flat_map cont_elems (f_cont f) ++ tl = body ++ tl).
  { intros tl. unfold body. cbn [app]. rewrite <- !app_assoc. reflexivity. }
  rewrite !Eb. destruct (f_nl f); cbn [nl_elem].
  - rewrite rev_app_distr. cbn [rev app]. rewrite rev_involutive. reflexivity.
  - rewrite app_nil_r.
    (* the last element of body is a token that is not a NEWLINE *)
    assert (Hlast : exists pre k s, body = pre ++ [Tok k s] /\ k <> NEWLINE).
    { unfold body. destruct (f_cont f) as [|c cs] eqn:Ec.
      - cbn [flat_map]. rewrite app_nil_r. destruct (f_first f) as [|x fx]; cbn [opt_elem].
        + rewrite app_nil_r. destruct (f_ws f) as [|y fy]; cbn [opt_elem].
          * exists [Tok KEY (f_name f)], COLON, [58%N]. split; [reflexivity|discriminate].
          * exists [Tok KEY (f_name f); Tok COLON [58%N]], WHITESPACE, (y :: fy). split; [reflexivity|discriminate].
        + exists (Tok KEY (f_name f) :: Tok COLON [58%N] :: opt_elem WHITESPACE (f_ws f)), VALUE, (x :: fx).
          split; [cbn [app]; rewrite <- ?app_assoc; reflexivity|discriminate].
      - destruct (exists_last (l := c :: cs) ltac:(discriminate)) as (cs' & [i t] & Ecs). rewrite Ecs.
        rewrite flat_map_app. cbn [flat_map cont_elems fst snd app].
        exists (Tok KEY (f_name f) :: Tok COLON [58%N] :: opt_elem WHITESPACE (f_ws f) ++ opt_elem VALUE (f_first f) ++ flat_map cont_elems cs' ++ [Tok NEWLINE [LF]; Tok INDENT i]), VALUE, t.
        split; [|discriminate]. cbn [app]. rewrite <- !app_assoc. cbn [app]. reflexivity. }
    destruct Hlast as (pre & k & s & -> & Hk). rewrite rev_app_distr. cbn [rev app]. rewrite rev_involutive.
    rewrite <- app_assoc. cbn [app]. destruct k; try congruence; reflexivity.
Qed.

Lemma ensure_nl_items its : ensure_nl_list (flat_map item_elems its) = flat_map item_elems (terminate_last its).
Proof.
  induction its as [|it r IH]; [reflexivity|].
  destruct r as [|it2 r2].
  - destruct it as [f|c nl]; cbn [flat_map item_elems terminate_last app].
    + rewrite ensure_nl_list_spec. cbn [rev app]. rewrite ensure_nl_field_tree. reflexivity.
    + rewrite ensure_nl_list_spec. unfold comment_elems. destruct nl; reflexivity.
  - assert (Et : terminate_last (it :: it2 :: r2) = it :: terminate_last (it2 :: r2)) by (destruct it; reflexivity).
    rewrite Et. cbn [flat_map] in *. rewrite <- IH.
    (* ensure_nl_list only touches the last element; the tail is non-empty *)
    assert (G : forall (a b : list tree), b <> [] -> ensure_nl_list (a ++ b) = a ++ ensure_nl_list b).
    { intros a b Hb. rewrite !ensure_nl_list_spec. rewrite rev_app_distr.
      destruct (rev b) as [|x w] eqn:Er.
      - exfalso. apply Hb. rewrite <- (rev_involutive b), Er. reflexivity.
      - cbn [app]. rewrite rev_app_distr, rev_involutive, <- app_assoc. reflexivity. }
    apply G. destruct it2 as [f|c nl]; cbn [item_elems]; [discriminate|]. unfold comment_elems. discriminate.
Qed.

(* ================= the edits commute with the abstract edits ================= *)
Lemma entry_has_key_field k f : entry_has_key k (field_tree f) = str_eqb (f_name f) k.
Proof. unfold entry_has_key. rewrite entry_key_field. reflexivity. Qed.

Lemma replace_first_items_elems k g' g its :
  (forall f, g' (field_tree f) = field_tree (g f)) ->
  replace_first (entry_has_key k) g' (flat_map item_elems its) =
  match a_replace_first k g its with Some r => Some (flat_map item_elems r) | None => None end.
Proof.
  intros Hg. induction its as [|it r IH]; [reflexivity|].
  destruct it as [f|c nl]; cbn [flat_map item_elems a_replace_first app].
  - cbn [replace_first]. rewrite entry_has_key_field. destruct (str_eqb (f_name f) k).
    + rewrite Hg. reflexivity.
    + rewrite IH. destruct (a_replace_first k g r); reflexivity.
  - unfold comment_elems. destruct nl; cbn [nl_elem app replace_first entry_has_key is_node andb];
      rewrite IH; destruct (a_replace_first k g r); reflexivity.
Qed.

Lemma commute_insert its k v : canon_kv k v = true ->
  para_insert (flat_map item_elems its) k v = flat_map item_elems (a_insert its k v).
Proof.
  intros H. unfold para_insert, a_insert. rewrite flat_map_app, ensure_nl_items. cbn [flat_map item_elems app].
  rewrite (entry_new_layout k v H). reflexivity.
Qed.

Lemma commute_set its k v : canon_kv k v = true ->
  para_set (flat_map item_elems its) k v = flat_map item_elems (a_set its k v).
Proof.
  intros H. unfold para_set, a_set.
  rewrite (replace_first_items_elems k (fun _ => entry_new k v) (fun _ => new_field k v) its (fun _ => entry_new_layout k v H)).
  destruct (a_replace_first k (fun _ => new_field k v) its); [reflexivity|apply commute_insert; exact H].
Qed.

Lemma commute_remove its k : para_remove (flat_map item_elems its) k = flat_map item_elems (a_remove its k).
Proof.
  unfold para_remove, a_remove. induction its as [|it r IH]; [reflexivity|].
  cbn [flat_map filter]. rewrite filter_app, IH. f_equal.
  destruct it as [f|c nl]; cbn [item_elems filter].
  - rewrite entry_has_key_field. destruct (str_eqb (f_name f) k); reflexivity.
  - unfold comment_elems. destruct nl; reflexivity.
Qed.

(* rename needs the renamed field to carry a value (Entry::new of an empty value has an empty
   VALUE token, which no parsed layout has) *)
Definition renamable (f : field) : bool := match field_value f with [] => false | c :: _ => negb (c =? 10)%N end.
Fixpoint first_named (k : str) (its : list item) : option field :=
  match its with
  | [] => None
  | IField f :: r => if str_eqb (f_name f) k then Some f else first_named k r
  | _ :: r => first_named k r
  end.

Lemma commute_rename its old new :
  (forall f, first_named old its = Some f -> canon_kv new (field_value f) = true) ->
  fst (para_rename (flat_map item_elems its) old new) = flat_map item_elems (a_rename its old new).
Proof.
  intros H. unfold para_rename, a_rename.
  (* generalise: the replacement only ever applies to the first field named old *)
  assert (G : replace_first (entry_has_key old) (fun e => entry_new new (entry_value e)) (flat_map item_elems its) =
              match a_replace_first old (fun f => new_field new (field_value f)) its with
              | Some r => Some (flat_map item_elems r) | None => None end).
  { induction its as [|it r IH]; [reflexivity|].
    destruct it as [f|c nl]; cbn [flat_map item_elems a_replace_first app first_named] in *.
    - cbn [replace_first]. rewrite entry_has_key_field. destruct (str_eqb (f_name f) old) eqn:E.
      + rewrite entry_value_field, (entry_new_layout new (field_value f) (H f eq_refl)). reflexivity.
      + rewrite (IH H). destruct (a_replace_first old _ r); reflexivity.
    - unfold comment_elems. destruct nl; cbn [nl_elem app replace_first entry_has_key is_node andb];
        rewrite (IH H); destruct (a_replace_first old _ r); reflexivity. }
  rewrite G. destruct (a_replace_first old (fun f => new_field new (field_value f)) its); reflexivity.
Qed.

(* ================= the abstract edits keep live documents well-formed ================= *)
Lemma wf_field_mono f m m' : wf_field f m = true -> (m' = true -> m = true) -> wf_field f m' = true.
Proof.
  unfold wf_field. intros H Hm. repeat (apply andb_true_iff in H; let X := fresh "W" in destruct H as [H X]).
  rewrite H, W2, W1, W0. cbn [andb]. destruct (f_nl f); [reflexivity|]. cbn in *. apply negb_true_iff in W.
  destruct m'; [|reflexivity]. rewrite (Hm eq_refl) in W. discriminate.
Qed.
Lemma wf_comment_mono c nl m m' : wf_comment c nl m = true -> (m' = true -> m = true) -> wf_comment c nl m' = true.
Proof.
  unfold wf_comment. intros H Hm. apply andb_true_iff in H. destruct H as [H W]. rewrite H. cbn [andb].
  destruct nl; [reflexivity|]. cbn in *. apply negb_true_iff in W. destruct m'; [|reflexivity]. rewrite (Hm eq_refl) in W. discriminate.
Qed.
Definition wf_item (it : item) (m : bool) : bool :=
  match it with IField f => wf_field f m | IComment c nl => wf_comment c nl m end.
Lemma wf_item_mono it m m' : wf_item it m = true -> (m' = true -> m = true) -> wf_item it m' = true.
Proof. destruct it; [apply wf_field_mono|apply wf_comment_mono]. Qed.

Lemma wf_items_cons it r more :
  wf_items (it :: r) more = wf_item it (match r with [] => more | _ => true end) && wf_items r more.
Proof. destruct it; reflexivity. Qed.

Lemma wf_items_mono its m m' : wf_items its m = true -> (m' = true -> m = true) -> wf_items its m' = true.
Proof.
  induction its as [|it r IH]; intros H Hm; [reflexivity|]. rewrite wf_items_cons in *.
  apply andb_true_iff in H. destruct H as [Hi Hr]. rewrite (IH Hr Hm), andb_true_r.
  destruct r; [eapply wf_item_mono; eassumption|exact Hi].
Qed.

Lemma wf_items_app a b more : b <> [] ->
  wf_items (a ++ b) more = wf_items a true && wf_items b more.
Proof.
  intros Hb. induction a as [|it r IH]; [reflexivity|]. cbn [app]. rewrite !wf_items_cons, IH, andb_assoc. f_equal. f_equal.
  destruct r; cbn [app]; [destruct b; [congruence|reflexivity]|reflexivity].
Qed.

Lemma wf_terminate_last its more : wf_items its more = true -> wf_items (terminate_last its) true = true.
Proof.
  induction its as [|it r IH]; intros H; [reflexivity|]. rewrite wf_items_cons in H.
  apply andb_true_iff in H. destruct H as [Hi Hr].
  destruct r as [|it2 r2].
  - destruct it as [f|c nl]; cbn [terminate_last wf_items].
    + rewrite andb_true_r. unfold wf_field in *. cbn [f_name f_ws f_first f_cont f_nl].
      repeat (apply andb_true_iff in Hi; let X := fresh "W" in destruct Hi as [Hi X]). rewrite Hi, W2, W1, W0. reflexivity.
    + rewrite andb_true_r. unfold wf_comment in *. apply andb_true_iff in Hi. destruct Hi as [Hc _]. rewrite Hc. reflexivity.
  - assert (Et : terminate_last (it :: it2 :: r2) = it :: terminate_last (it2 :: r2)) by (destruct it; reflexivity).
    rewrite Et, wf_items_cons, (IH Hr), andb_true_r.
    assert (En : terminate_last (it2 :: r2) <> []) by (destruct it2; destruct r2; discriminate).
    destruct (terminate_last (it2 :: r2)); [congruence|exact Hi].
Qed.

Lemma wf_a_insert its k v more : canon_kv k v = true -> wf_items its more = true -> wf_items (a_insert its k v) more = true.
Proof.
  intros Hk H. unfold a_insert. rewrite wf_items_app by discriminate.
  rewrite (wf_terminate_last its more H). cbn [andb wf_items]. rewrite (wf_new_field k v more Hk). reflexivity.
Qed.

Lemma wf_a_replace_first k g its more r :
  (forall f m, wf_field (g f) m = true) ->
  wf_items its more = true -> a_replace_first k g its = Some r -> wf_items r more = true.
Proof.
  intros Hg. revert r. induction its as [|it rest IH]; intros r H E; [discriminate|].
  rewrite wf_items_cons in H. apply andb_true_iff in H. destruct H as [Hi Hr].
  destruct it as [f|c nl]; cbn [a_replace_first] in E.
  - destruct (str_eqb (f_name f) k).
    + inversion E; subst. rewrite wf_items_cons. cbn [wf_item]. rewrite Hg, Hr. reflexivity.
    + destruct (a_replace_first k g rest) as [r'|] eqn:E'; [|discriminate]. inversion E; subst.
      rewrite wf_items_cons, (IH r' Hr eq_refl), andb_true_r.
      assert (match r' with [] => more | _ => true end = match rest with [] => more | _ => true end).
      { destruct rest; [discriminate|]. destruct r'; [|reflexivity].
        exfalso. revert E'. clear. intros E'. destruct i; cbn in E'; [destruct (str_eqb (f_name f) k); [discriminate|]|];
          destruct (a_replace_first k g rest); discriminate. }
      rewrite H. exact Hi.
  - destruct (a_replace_first k g rest) as [r'|] eqn:E'; [|discriminate]. inversion E; subst.
    rewrite wf_items_cons, (IH r' Hr eq_refl), andb_true_r.
    assert (match r' with [] => more | _ => true end = match rest with [] => more | _ => true end).
    { destruct rest; [discriminate|]. destruct r'; [|reflexivity].
      exfalso. revert E'. clear. intros E'. destruct i; cbn in E'; [destruct (str_eqb (f_name f) k); [discriminate|]|];
        destruct (a_replace_first k g rest); discriminate. }
    rewrite H. exact Hi.
Qed.

Lemma wf_a_set its k v more : canon_kv k v = true -> wf_items its more = true -> wf_items (a_set its k v) more = true.
Proof.
  intros Hk H. unfold a_set. destruct (a_replace_first k (fun _ => new_field k v) its) as [r|] eqn:E.
  - eapply wf_a_replace_first; [|exact H|exact E]. intros f m. apply wf_new_field. exact Hk.
  - apply wf_a_insert; assumption.
Qed.

Lemma wf_a_remove its k more : wf_items its more = true -> wf_items (a_remove its k) more = true.
Proof.
  unfold a_remove. induction its as [|it r IH]; intros H; [reflexivity|]. rewrite wf_items_cons in H.
  apply andb_true_iff in H. destruct H as [Hi Hr]. cbn [filter].
  destruct (match it with IField f => negb (str_eqb (f_name f) k) | IComment _ _ => true end); [|apply IH; exact Hr].
  rewrite wf_items_cons, (IH Hr), andb_true_r.
  eapply wf_item_mono; [exact Hi|]. intros Hm.
  destruct (filter _ r) eqn:Ef; [|destruct r; [discriminate|reflexivity]].
  destruct r; [exact Hm|reflexivity].
Qed.

(* ---- rename ---- *)
Lemma canon_field_value f m : wf_field f m = true -> renamable f = true -> canon_value (field_value f) = true.
Proof.
  unfold wf_field, renamable, field_value. intros H Hr.
  repeat (apply andb_true_iff in H; let X := fresh "W" in destruct H as [H X]).
  assert (Hcont : forallb canon_cont (map snd (f_cont f)) = true).
  { clear -W0. induction (f_cont f) as [|[i t] cs IH]; [reflexivity|]. cbn [forallb map snd] in *.
    apply andb_true_iff in W0. destruct W0 as [Hc Hcs]. rewrite (IH Hcs), andb_true_r.
    unfold cont_ok in Hc. apply andb_true_iff in Hc. destruct Hc as [Hc Ht]. apply andb_true_iff in Hc. destruct Hc as [_ Hn].
    unfold canon_cont. rewrite Hn. exact Ht. }
  unfold first_ok in W1. apply andb_true_iff in W1. destruct W1 as [F1 F2].
  unfold canon_value.
  destruct (f_first f) as [|x fx] eqn:Ef; cbn [app] in *.
  - destruct (map snd (f_cont f)) as [|l1 rest] eqn:Em; [discriminate|].
    rewrite split_lf_join; [|discriminate|apply canon_cont_no_eol; exact Hcont].
    cbn [forallb] in Hcont. apply andb_true_iff in Hcont. destruct Hcont as [H1 Hrest]. rewrite Hrest, andb_true_r.
    unfold canon_cont in H1. unfold canon_first. apply andb_true_iff in H1. destruct H1 as [Ha Hb]. rewrite Ha. cbn [andb].
    destruct l1; [discriminate|]. apply andb_true_iff in Hb. apply Hb.
  - rewrite split_lf_join; [|discriminate|cbn [forallb]; rewrite F1; apply canon_cont_no_eol; exact Hcont].
    rewrite Hcont, andb_true_r. unfold canon_first. rewrite F1. exact F2.
Qed.

Lemma canon_kv_rename f m new : wf_field f m = true -> renamable f = true -> valid_name new = true ->
  canon_kv new (field_value f) = true.
Proof.
  intros Hw Hr Hn. unfold canon_kv. rewrite Hn, (canon_field_value f m Hw Hr). cbn [andb]. exact Hr.
Qed.

Lemma wf_items_In its more f : wf_items its more = true -> In (IField f) its -> exists m, wf_field f m = true.
Proof.
  induction its as [|it r IH]; intros H Hin; [contradiction|]. rewrite wf_items_cons in H.
  apply andb_true_iff in H. destruct H as [Hi Hr]. destruct Hin as [->|Hin]; [eexists; exact Hi|apply IH; assumption].
Qed.

Lemma first_named_In k its f : first_named k its = Some f -> In (IField f) its /\ str_eqb (f_name f) k = true.
Proof.
  induction its as [|it r IH]; intros H; [discriminate|]. destruct it as [g|c nl]; cbn [first_named] in H.
  - destruct (str_eqb (f_name g) k) eqn:E; [inversion H; subst; split; [left; reflexivity|exact E]|].
    destruct (IH H) as [A B]. split; [right; exact A|exact B].
  - destruct (IH H) as [A B]. split; [right; exact A|exact B].
Qed.

Definition rename_ok (its : list item) (old new : str) : Prop :=
  valid_name new = true /\ forall f, first_named old its = Some f -> renamable f = true.

Lemma wf_a_replace_first_named k g its more r :
  (forall f, first_named k its = Some f -> forall m, wf_field (g f) m = true) ->
  wf_items its more = true -> a_replace_first k g its = Some r -> wf_items r more = true.
Proof.
  revert r. induction its as [|it rest IH]; intros r Hg H E; [discriminate|].
  rewrite wf_items_cons in H. apply andb_true_iff in H. destruct H as [Hi Hr].
  assert (Hlen : forall r', a_replace_first k g rest = Some r' ->
            match r' with [] => more | _ => true end = match rest with [] => more | _ => true end).
  { intros r' E'. destruct rest; [discriminate|]. destruct r'; [|reflexivity].
    exfalso. destruct i; cbn in E'; [destruct (str_eqb (f_name f) k); [discriminate|]|];
      destruct (a_replace_first k g rest); discriminate. }
  destruct it as [f|c nl]; cbn [a_replace_first first_named] in *.
  - destruct (str_eqb (f_name f) k).
    + inversion E; subst. rewrite wf_items_cons. cbn [wf_item]. rewrite (Hg f eq_refl), Hr. reflexivity.
    + destruct (a_replace_first k g rest) as [r'|] eqn:E'; [|discriminate]. inversion E; subst.
      rewrite wf_items_cons, (IH r' Hg Hr eq_refl), andb_true_r, (Hlen r' eq_refl). exact Hi.
  - destruct (a_replace_first k g rest) as [r'|] eqn:E'; [|discriminate]. inversion E; subst.
    rewrite wf_items_cons, (IH r' Hg Hr eq_refl), andb_true_r, (Hlen r' eq_refl). exact Hi.
Qed.

Lemma wf_a_rename its old new more : rename_ok its old new -> wf_items its more = true ->
  wf_items (a_rename its old new) more = true.
Proof.
  intros [Hn Hr] H. unfold a_rename.
  destruct (a_replace_first old (fun f => new_field new (field_value f)) its) as [r|] eqn:E; [|exact H].
  eapply wf_a_replace_first_named; [|exact H|exact E].
  intros f Hf m. apply wf_new_field. destruct (first_named_In _ _ _ Hf) as [Hin _].
  destruct (wf_items_In _ _ _ H Hin) as [m' Hw]. eapply canon_kv_rename; [exact Hw|apply Hr; exact Hf|exact Hn].
Qed.

Lemma commute_rename_ok its old new more : rename_ok its old new -> wf_items its more = true ->
  fst (para_rename (flat_map item_elems its) old new) = flat_map item_elems (a_rename its old new).
Proof.
  intros [Hn Hr] H. apply commute_rename. intros f Hf. destruct (first_named_In _ _ _ Hf) as [Hin _].
  destruct (wf_items_In _ _ _ H Hin) as [m' Hw]. eapply canon_kv_rename; [exact Hw|apply Hr; exact Hf|exact Hn].
Qed.

(* ================= document level ================= *)
Fixpoint nth_para (d : ldocl) (n : nat) : option (list item) :=
  match d with
  | [] => None
  | LPara its :: r => match n with O => Some its | S n' => nth_para r n' end
  | _ :: r => nth_para r n
  end.

Lemma commute_on_para d : forall n f g,
  (forall its, nth_para d n = Some its -> f (flat_map item_elems its) = flat_map item_elems (g its)) ->
  on_para (ltree_of d) n f = ltree_of (a_on_para n g d).
Proof.
  unfold on_para, ltree_of. cbn [children]. intros n f g H. f_equal. revert n H.
  induction d as [|b r IH]; intros n H; [reflexivity|].
  destruct b as [|c nl|its]; cbn [map map_nth_para lblock_tree a_on_para nth_para] in *.
  - change (is_paragraph (Node EMPTY_LINE [Tok NEWLINE [LF]])) with false. cbv iota. f_equal. apply IH. exact H.
  - change (is_paragraph (Node EMPTY_LINE (comment_elems c nl))) with false. cbv iota. f_equal. apply IH. exact H.
  - change (is_paragraph (Node PARAGRAPH (flat_map item_elems its))) with true. cbv iota.
    destruct n as [|n'].
    + cbn [map lblock_tree children]. rewrite (H its eq_refl). reflexivity.
    + cbn [map lblock_tree]. f_equal. apply IH. exact H.
Qed.

Lemma lwf_on_para d : forall n g,
  (forall its more, nth_para d n = Some its -> wf_items its more = true -> wf_items (g its) more = true) ->
  lwf d = true -> lwf (a_on_para n g d) = true.
Proof.
  induction d as [|b r IH]; intros n g Hg H; [reflexivity|]. cbn [lwf] in H.
  apply andb_true_iff in H. destruct H as [Hb Hr].
  assert (Em : forall n', (match a_on_para n' g r with [] => false | _ => true end) = match r with [] => false | _ => true end).
  { intros n'. destruct r as [|b2 r2]; [reflexivity|]. destruct b2; [reflexivity|reflexivity|destruct n'; reflexivity]. }
  assert (Enext : forall n', (match a_on_para n' g r with [] => true | LBlank :: _ => true | _ => false end)
                            = match r with [] => true | LBlank :: _ => true | _ => false end).
  { intros n'. destruct r as [|b2 r2]; [reflexivity|]. destruct b2; [reflexivity|reflexivity|destruct n'; reflexivity]. }
  destruct b as [|c nl|its]; cbn [a_on_para nth_para] in *.
  - cbn [lwf]. apply IH; assumption.
  - cbn [lwf]. rewrite Em, Hb. cbn [andb]. apply IH; assumption.
  - destruct n as [|n'].
    + cbn [lwf]. rewrite Hr, andb_true_r. apply andb_true_iff in Hb. destruct Hb as [Hits Hnext].
      rewrite (Hg its _ eq_refl Hits), Hnext. reflexivity.
    + cbn [lwf]. rewrite Em, Enext, Hb. cbn [andb]. apply IH; assumption.
Qed.

(* ================= C04: histories of field edits ================= *)
Inductive fop :=
| OSet (n : nat) (k v : str)
| OInsert (n : nat) (k v : str)
| ORemove (n : nat) (k : str)
| ORename (n : nat) (old new : str).

(* the implementation's step (on trees) *)
Definition tstep (t : tree) (o : fop) : tree :=
  match o with
  | OSet n k v => on_para t n (fun cs => para_set cs k v)
  | OInsert n k v => on_para t n (fun cs => para_insert cs k v)
  | ORemove n k => on_para t n (fun cs => para_remove cs k)
  | ORename n old new => on_para t n (fun cs => fst (para_rename cs old new))
  end.
(* the list-of-lists reading *)
Definition sstep (c : list (list (str * str))) (o : fop) : list (list (str * str)) :=
  match o with
  | OSet n k v => upd_nth n (fun p => l_set p k v) c
  | OInsert n k v => upd_nth n (fun p => l_insert p k v) c
  | ORemove n k => upd_nth n (fun p => l_remove p k) c
  | ORename n old new => upd_nth n (fun p => fst (l_rename p old new)) c
  end.
(* the abstract layout step *)
Definition astep (d : ldocl) (o : fop) : ldocl :=
  match o with
  | OSet n k v => a_on_para n (fun its => a_set its k v) d
  | OInsert n k v => a_on_para n (fun its => a_insert its k v) d
  | ORemove n k => a_on_para n (fun its => a_remove its k) d
  | ORename n old new => a_on_para n (fun its => a_rename its old new) d
  end.
(* the domain of the arguments *)
Definition op_ok (d : ldocl) (o : fop) : Prop :=
  match o with
  | OSet _ k v | OInsert _ k v => canon_kv k v = true
  | ORemove _ _ => True
  | ORename n old new => forall its, nth_para d n = Some its -> rename_ok its old new
  end.
Fixpoint ops_ok (d : ldocl) (ops : list fop) : Prop :=
  match ops with [] => True | o :: r => op_ok d o /\ ops_ok (astep d o) r end.

(* refinement: for EVERY tree and EVERY argument *)
Theorem tstep_refines t o : doc_items (tstep t o) = sstep (doc_items t) o.
Proof.
  destruct o as [n k v|n k v|n k|n old new]; cbn [tstep sstep]; apply on_para_items; intros cs.
  - apply para_set_items.
  - apply para_insert_items.
  - apply para_remove_items.
  - apply para_rename_items.
Qed.

Theorem tsteps_refine ops : forall t, doc_items (fold_left tstep ops t) = fold_left sstep ops (doc_items t).
Proof. induction ops as [|o r IH]; intros t; [reflexivity|]. cbn [fold_left]. rewrite IH, tstep_refines. reflexivity. Qed.

(* one step on a live document *)
Theorem tstep_live d o : lwf d = true -> op_ok d o ->
  tstep (ltree_of d) o = ltree_of (astep d o) /\ lwf (astep d o) = true.
Proof.
  intros Hwf Hok. destruct o as [n k v|n k v|n k|n old new]; cbn [tstep astep op_ok] in *.
  - split; [apply commute_on_para; intros its _; apply commute_set; exact Hok|].
    apply lwf_on_para; [|exact Hwf]. intros its more _. apply wf_a_set. exact Hok.
  - split; [apply commute_on_para; intros its _; apply commute_insert; exact Hok|].
    apply lwf_on_para; [|exact Hwf]. intros its more _. apply wf_a_insert. exact Hok.
  - split; [apply commute_on_para; intros its _; apply commute_remove|].
    apply lwf_on_para; [|exact Hwf]. intros its more _. apply wf_a_remove.
  - assert (Hwfi : forall its, nth_para d n = Some its -> exists more, wf_items its more = true).
    { clear Hok. revert n. induction d as [|b r IH]; intros n its E; [discriminate|]. cbn [lwf] in Hwf.
      apply andb_true_iff in Hwf. destruct Hwf as [Hb Hr]. destruct b as [|c nl|its0]; cbn [nth_para] in E; try (eapply IH; eassumption).
      destruct n; [inversion E; subst; apply andb_true_iff in Hb; destruct Hb as [Hi _]; eexists; exact Hi|eapply IH; eassumption]. }
    split.
    + apply commute_on_para. intros its E. destruct (Hwfi its E) as [more Hm]. eapply commute_rename_ok; [apply Hok; exact E|exact Hm].
    + apply lwf_on_para; [|exact Hwf]. intros its more E Hm. apply wf_a_rename; [apply Hok; exact E|exact Hm].
Qed.

(* any history *)
Theorem C04_history_all ops : forall d, lwf d = true -> ops_ok d ops ->
  let t' := fold_left tstep ops (ltree_of d) in
  t' = ltree_of (fold_left astep ops d) /\ lwf (fold_left astep ops d) = true /\
  doc_items t' = fold_left sstep ops (doc_items (ltree_of d)) /\
  exists t'', from_str (text t') = Ok t'' /\ doc_items t'' = nonempty_paras (doc_items t').
Proof.
  induction ops as [|o r IH]; intros d Hwf Hok; cbn [fold_left].
  - split; [reflexivity|]. split; [exact Hwf|]. split; [reflexivity|]. apply live_reread. exact Hwf.
  - destruct Hok as [Ho Hr]. destruct (tstep_live d o Hwf Ho) as [E W]. rewrite E.
    destruct (IH (astep d o) W Hr) as (A & B & C & D). cbn zeta in *.
    split; [exact A|]. split; [exact B|]. split; [|exact D].
    rewrite C, <- E, tstep_refines. reflexivity.
Qed.

(* paragraphs built from name/value pairs are live documents *)
Lemma paragraph_of_pairs_live l : Forall (fun kv => canon_kv (fst kv) (snd kv) = true) l ->
  paragraph_of_pairs l = lblock_tree (LPara (map (fun kv => IField (new_field (fst kv) (snd kv))) l)) /\
  forall more, wf_items (map (fun kv => IField (new_field (fst kv) (snd kv))) l) more = true.
Proof.
  intros H. split.
  - unfold paragraph_of_pairs. cbn [lblock_tree]. f_equal. induction H as [|[k v] r Hk Hr IH]; [reflexivity|].
    cbn [map flat_map item_elems app fst snd] in *. rewrite IH, (entry_new_layout k v Hk). reflexivity.
  - intros more. induction H as [|[k v] r Hk Hr IH]; [reflexivity|]. cbn [map fst snd]. rewrite wf_items_cons.
    cbn [wf_item]. rewrite (wf_new_field k v _ Hk), IH. reflexivity.
Qed.
