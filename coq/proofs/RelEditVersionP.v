(* Lemmas about RelEdit.v (C11): Relation::version() also parses the version text with debversion.
   RelEdit.structure reads version texts as written; RelEdit.structure_d is what the accessors
   return (Panic 12 when a version text is not a debversion::Version, the epoch re-printed).
     structure_d = field_display of structure                       (structure_d_of, structure_d_inv)
     the list model commutes with field_display (operands: identifier texts are versions that
     print as they are written)                                      (display_step, display_history) *)
From V.model Require Import Base RelLex RelParse RelAcc RelEdit RelEditSpec.
From V.proofs Require Import BaseP.

(* ------------------------------------------------------------------ mapM as a relation *)
Lemma mapM_ok {A B} (g : A -> res B) l l' : mapM g l = Ok l' <-> Forall2 (fun x y => g x = Ok y) l l'.
Proof.
  revert l'. induction l as [|x r IH]; intros l'; cbn [mapM].
  - split; [intros [= <-]; constructor|intros H; inversion H; reflexivity].
  - split.
    + destruct (g x) as [y| | |] eqn:E; try discriminate. destruct (mapM g r) as [ys| | |] eqn:E2; try discriminate.
      intros [= <-]. constructor; [exact E|]. now apply IH.
    + intros H. inversion H as [|x0 y l0 ys Hx Hr]; subst. rewrite Hx. apply IH in Hr. now rewrite Hr.
Qed.
Lemma mapM_ext_ok {A B} (g h : A -> res B) l l' : (forall x y, In x l -> g x = Ok y -> h x = Ok y) -> mapM g l = Ok l' -> mapM h l = Ok l'.
Proof.
  rewrite !mapM_ok. intros H F. induction F as [|x y r r' Hx _ IH]; constructor.
  - apply H; [now left|exact Hx].
  - apply IH. intros x0 y0 Hin. apply H. now right.
Qed.

(* ------------------------------------------------------------------ structure_d against structure *)
Lemma relrec_of_d_of r x : relrec_of r = Ok x -> relrec_of_d r = rr_display x.
Proof.
  unfold relrec_of, relrec_of_d, rel_version_d. destruct (rel_name r) as [n| | |]; destruct (rel_version r) as [v| | |]; try discriminate.
  intros [= <-]. unfold rr_display. cbn [rr_ver rr_name rr_qual rr_archs rr_profs].
  destruct v as [[vc ver]|]; [|reflexivity]. destruct (debversion_roundtrip ver); reflexivity.
Qed.
Lemma relrec_of_d_inv r y : relrec_of_d r = Ok y -> exists x, relrec_of r = Ok x /\ rr_display x = Ok y.
Proof.
  intros H. destruct (relrec_of r) as [x| | |] eqn:E.
  - exists x. split; [reflexivity|]. now rewrite <- (relrec_of_d_of r x E).
  - exfalso. revert H E. unfold relrec_of, relrec_of_d, rel_version_d.
    destruct (rel_name r); destruct (rel_version r) as [[[vc ver]|]| | |]; try discriminate;
      try (destruct (debversion_roundtrip ver); discriminate).
  - exfalso. revert H E. unfold relrec_of, relrec_of_d, rel_version_d.
    destruct (rel_name r); destruct (rel_version r) as [[[vc ver]|]| | |]; try discriminate;
      try (destruct (debversion_roundtrip ver); discriminate).
  - exfalso. revert H E. unfold relrec_of, relrec_of_d, rel_version_d.
    destruct (rel_name r); destruct (rel_version r) as [[[vc ver]|]| | |]; try discriminate;
      try (destruct (debversion_roundtrip ver); discriminate).
Qed.
Lemma mapM_comp {A B C} (g : A -> res B) (h : B -> res C) (k : A -> res C) l m :
  (forall x y, g x = Ok y -> k x = h y) -> mapM g l = Ok m -> mapM k l = mapM h m.
Proof.
  intros H. revert m. induction l as [|x r IH]; intros m; cbn [mapM].
  - intros [= <-]. reflexivity.
  - destruct (g x) as [y| | |] eqn:E; try discriminate. destruct (mapM g r) as [ys| | |] eqn:E2; try discriminate.
    intros [= <-]. cbn [mapM]. rewrite (H x y E), (IH ys eq_refl). reflexivity.
Qed.
Theorem structure_d_of t f : structure t = Ok f -> structure_d t = field_display f.
Proof.
  unfold structure, structure_d, field_display. apply mapM_comp. intros e rs He.
  revert He. apply mapM_comp. intros r x. apply relrec_of_d_of.
Qed.
Theorem structure_d_inv t f' : structure_d t = Ok f' -> exists f, structure t = Ok f /\ field_display f = Ok f'.
Proof.
  intros H. assert (E : exists f, structure t = Ok f).
  { unfold structure, structure_d in *. revert f' H. induction (entries t) as [|e es IH]; intros f' H; [now exists []|].
    cbn [mapM] in *. destruct (mapM relrec_of_d (relations e)) as [ys| | |] eqn:E1; try discriminate.
    destruct (mapM (fun e0 => mapM relrec_of_d (relations e0)) es) as [fs| | |] eqn:E2; try discriminate.
    destruct (IH fs eq_refl) as (f & Hf). rewrite Hf.
    assert (E3 : exists xs, mapM relrec_of (relations e) = Ok xs).
    { clear -E1. revert ys E1. induction (relations e) as [|r rs IH]; intros ys E1; [now exists []|]. cbn [mapM] in *.
      destruct (relrec_of_d r) as [y| | |] eqn:Er; try discriminate. destruct (mapM relrec_of_d rs) as [ys'| | |] eqn:E2; try discriminate.
      destruct (relrec_of_d_inv r y Er) as (x & -> & _). destruct (IH ys' eq_refl) as (xs & ->). now eexists. }
    destruct E3 as (xs & ->). now eexists. }
  destruct E as (f & Hf). exists f. split; [exact Hf|]. now rewrite <- (structure_d_of t f Hf).
Qed.

(* ------------------------------------------------------------------ operands: identifier texts are versions *)
Lemma ident_is_version_char c : is_ident_char c = true -> is_version_char c = true.
Proof.
  unfold is_ident_char, is_version_char. intros H. set (a := is_ascii_alnum c) in *.
  destruct a, (c =? 45)%N, (c =? 46)%N, (c =? 43)%N, (c =? 126)%N, (c =? 58)%N; cbn in *; congruence.
Qed.
Lemma ident_no_colon c : is_ident_char c = true -> (c =? 58)%N = false.
Proof.
  unfold is_ident_char. intros H. destruct (c =? 58)%N eqn:E; [|reflexivity]. apply N.eqb_eq in E. subst c. discriminate H.
Qed.
Lemma span_digit_ident s : forallb is_ident_char s = true ->
  forall d r, span is_digit s = (d, r) -> match r with c :: _ => (c =? 58)%N = false | [] => True end.
Proof.
  induction s as [|c s IH]; intros H d r; cbn [span].
  - intros [= <- <-]. exact I.
  - cbn [forallb] in H. apply andb_prop in H as [Hc Hs]. destruct (is_digit c).
    + destruct (span is_digit s) as [d' r'] eqn:E. intros [= <- <-]. now apply (IH Hs d' r').
    + intros [= <- <-]. now apply ident_no_colon.
Qed.
Theorem ident_version_operand v : ident_text v = true -> version_operand v = Ok v.
Proof.
  unfold ident_text, version_operand, debversion_roundtrip. destruct v as [|c v]; [discriminate|]. intros H.
  assert (Hv : forallb is_version_char (c :: v) = true).
  { rewrite forallb_forall in H. rewrite forallb_forall. intros x Hx. apply ident_is_version_char, H, Hx. }
  rewrite Hv. cbn [negb]. destruct (span is_digit (c :: v)) as [d r] eqn:E.
  pose proof (span_digit_ident (c :: v) H d r E) as Hr.
  destruct d as [|d0 d']; [reflexivity|]. destruct r as [|c0 [|c1 r']]; try reflexivity. now rewrite Hr.
Qed.

(* ------------------------------------------------------------------ the list model under field_display *)
Definition shows (x y : relrec) : Prop := rr_display x = Ok y.
Definition fshows (f f' : lfield) : Prop := Forall2 (Forall2 shows) f f'.
Lemma field_display_ok f f' : field_display f = Ok f' <-> fshows f f'.
Proof.
  unfold field_display, fshows. rewrite mapM_ok. split; intros H; induction H; constructor; auto; now apply mapM_ok.
Qed.
Lemma Forall2_firstn {A B} (P : A -> B -> Prop) n : forall l l', Forall2 P l l' -> Forall2 P (firstn n l) (firstn n l').
Proof. induction n as [|n IH]; intros l l' H; [constructor|]. destruct H; cbn [firstn]; constructor; auto. Qed.
Lemma Forall2_skipn {A B} (P : A -> B -> Prop) n : forall l l', Forall2 P l l' -> Forall2 P (skipn n l) (skipn n l').
Proof. induction n as [|n IH]; intros l l' H; [exact H|]. destruct H; cbn [skipn]; [constructor|auto]. Qed.
Lemma Forall2_upd_nth {A B} (P : A -> B -> Prop) g g' n : (forall x y, P x y -> P (g x) (g' y)) ->
  forall l l', Forall2 P l l' -> Forall2 P (upd_nth n g l) (upd_nth n g' l').
Proof.
  intros Hg. induction n as [|n IH]; intros l l' H; destruct H; cbn [upd_nth]; constructor; auto.
Qed.
Lemma Forall2_nth_error {A B} (P : A -> B -> Prop) l l' : Forall2 P l l' ->
  forall n, match nth_error l n, nth_error l' n with
            | Some x, Some y => P x y
            | None, None => True
            | _, _ => False
            end.
Proof. induction 1 as [|x y r r' Hx _ IH]; intros [|n]; cbn [nth_error]; auto. apply IH. Qed.
Lemma Forall2_len {A B} (P : A -> B -> Prop) l l' : Forall2 P l l' -> length l = length l'.
Proof. induction 1; cbn; congruence. Qed.

Lemma shows_operand r : wf_relrec r = true -> shows r r.
Proof.
  unfold wf_relrec, shows, rr_display. intros H. destruct (rr_ver r) as [[vc v]|] eqn:E; [|reflexivity].
  apply andb_prop in H as [H _]. apply andb_prop in H as [H _]. apply andb_prop in H as [_ H].
  pose proof (ident_version_operand v H) as Hv. unfold version_operand in Hv. rewrite Hv. destruct r; cbn in *. now subst.
Qed.
Lemma shows_entry e : forallb wf_relrec e = true -> Forall2 shows e e.
Proof. induction e as [|r e IH]; cbn [forallb]; intros H; [constructor|]. apply andb_prop in H as [H1 H2]. constructor; [now apply shows_operand|auto]. Qed.

Ltac shows_tac :=
  let r := fresh "r" in let r' := fresh "r'" in let Hr := fresh "Hr" in
  intros r r' Hr; unfold shows, rr_display in *; destruct r as [n0 q0 [[vc0 v0]|] a0 p0];
  cbn [rr_ver rr_name rr_qual rr_archs rr_profs rr_set_version rr_set_qual rr_set_archs rr_add_profile] in *;
  [destruct (debversion_roundtrip v0); try discriminate|]; injection Hr as <-; reflexivity.
Theorem display_step f f' o : fshows f f' -> wf_operands o = true ->
  fshows (astep f o) (astep f' o) /\ aop_in_range f' o = aop_in_range f o.
Proof.
  intros H Ho. pose proof (Forall2_len _ _ _ H) as Hl.
  assert (Hrange : forall i j, rel_in_range f' i j = rel_in_range f i j).
  { intros i j. unfold rel_in_range. pose proof (Forall2_nth_error _ _ _ H i) as Hn.
    destruct (nth_error f i), (nth_error f' i); try contradiction; [|reflexivity]. now rewrite (Forall2_len _ _ _ Hn). }
  split; [|destruct o; cbn [aop_in_range]; rewrite ?Hl, ?Hrange; reflexivity].
  unfold fshows in *. destruct o; cbn [astep wf_operands] in *.
  - apply andb_prop in Ho as [_ Ho]. apply Forall2_app; [exact H|]. constructor; [now apply shows_entry|constructor].
  - apply andb_prop in Ho as [_ Ho]. unfold l_insert. apply Forall2_app; [now apply Forall2_firstn|].
    constructor; [now apply shows_entry|now apply Forall2_skipn].
  - apply andb_prop in Ho as [_ Ho]. unfold l_replace. apply Forall2_app; [now apply Forall2_firstn|].
    constructor; [now apply shows_entry|now apply Forall2_skipn].
  - unfold l_remove. apply Forall2_app; [now apply Forall2_firstn|now apply Forall2_skipn].
  - apply Forall2_upd_nth; [|exact H]. intros x y Hxy. apply Forall2_app; [exact Hxy|]. constructor; [now apply shows_operand|constructor].
  - apply Forall2_upd_nth; [|exact H]. intros x y Hxy. unfold l_replace. apply Forall2_app; [now apply Forall2_firstn|].
    constructor; [now apply shows_operand|now apply Forall2_skipn].
  - unfold l_remove_relation. pose proof (Forall2_nth_error _ _ _ H i) as Hn.
    destruct (nth_error f i) as [e|], (nth_error f' i) as [e'|]; try contradiction; [|exact H].
    assert (Hr : Forall2 shows (l_remove j e) (l_remove j e')).
    { unfold l_remove. apply Forall2_app; [now apply Forall2_firstn|now apply Forall2_skipn]. }
    destruct Hr as [|x y r r' Hx Hr].
    + unfold l_remove. apply Forall2_app; [now apply Forall2_firstn|now apply Forall2_skipn].
    + unfold l_replace. apply Forall2_app; [now apply Forall2_firstn|]. constructor; [now constructor|now apply Forall2_skipn].
  - unfold l_on_relation. apply Forall2_upd_nth; [|exact H]. intros x y Hxy. apply Forall2_upd_nth; [|exact Hxy].
    intros r r' Hr. unfold shows, rr_display in *. destruct r as [n0 q0 vv a0 p0].
    cbn [rr_ver rr_name rr_qual rr_archs rr_profs rr_set_version] in *.
    assert (Er : rr_name r' = n0 /\ rr_qual r' = q0 /\ rr_archs r' = a0 /\ rr_profs r' = p0).
    { destruct vv as [[vc0 v0]|]; [destruct (debversion_roundtrip v0); try discriminate|]; injection Hr as <-; auto. }
    destruct Er as (E1 & E2 & E3 & E4). unfold rr_set_version. cbn [rr_ver rr_name rr_qual rr_archs rr_profs]. rewrite E1, E2, E3, E4.
    destruct v as [[vc v]|]; [|reflexivity].
    pose proof (ident_version_operand v Ho) as Hv. unfold version_operand in Hv. now rewrite Hv.
  - unfold l_on_relation. apply Forall2_upd_nth; [|exact H]. intros x y Hxy. apply Forall2_upd_nth; [|exact Hxy]. shows_tac.
  - unfold l_on_relation. apply Forall2_upd_nth; [|exact H]. intros x y Hxy. apply Forall2_upd_nth; [|exact Hxy]. shows_tac.
  - unfold l_on_relation. apply Forall2_upd_nth; [|exact H]. intros x y Hxy. apply Forall2_upd_nth; [|exact Hxy]. shows_tac.
  - unfold l_on_relation. apply Forall2_upd_nth; [|exact H]. intros x y Hxy. apply Forall2_upd_nth; [|exact Hxy]. shows_tac.
Qed.
Theorem display_history ops : forall f f', fshows f f' -> forallb wf_operands ops = true ->
  fshows (fold_left astep ops f) (fold_left astep ops f') /\ hist_in_range f' ops = hist_in_range f ops.
Proof.
  induction ops as [|o rest IH]; intros f f' H Ho; [split; [exact H|reflexivity]|].
  cbn [forallb] in Ho. apply andb_prop in Ho as [Ho1 Ho2]. destruct (display_step f f' o H Ho1) as [H1 H2].
  destruct (IH _ _ H1 Ho2) as [H3 H4]. cbn [fold_left hist_in_range]. split; [exact H3|]. now rewrite H2, H4.
Qed.
