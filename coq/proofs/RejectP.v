(* The rejection clause of C03: a line that cannot be a field, continuation, comment or blank
   line makes the strict reader fail — wherever it stands, in ANY text (no well-formedness of
   the surrounding text is needed). *)
From V.model Require Import Base Deb822Lex Deb822Parse Grammar.
From V.proofs Require Import BaseP Deb822LexP Deb822ParseP GrammarLexP.
Set Default Timeout 60.

(* ---------- a bad pattern at the start of a line, on token lists ---------- *)
Definition bad_here (ts : list token) : bool :=
  match ts with
  | (COLON, _) :: _ | (ERROR, _) :: _ => true
  | (KEY, _) :: r => match cur (snd (skip_ws r)) with Some COLON => false | _ => true end
  | _ => false
  end.
Definition is_nl (k : kind) : bool := match k with NEWLINE => true | _ => false end.
(* [prev]: is the position in front of ts the start of a line (start of input or after NEWLINE)? *)
Fixpoint bad_at (prev : bool) (ts : list token) : bool :=
  match ts with
  | [] => false
  | (k, s) :: r => (prev && bad_here ts) || bad_at (is_nl k) r
  end.

Lemma bad_at_cons prev k s r : bad_at prev ((k, s) :: r) = (prev && bad_here ((k, s) :: r)) || bad_at (is_nl k) r.
Proof. reflexivity. Qed.
Lemma bad_at_false_cons k s r : is_nl k = false -> bad_at false ((k, s) :: r) = bad_at false r.
Proof. intros H. rewrite bad_at_cons, H. reflexivity. Qed.

(* ---------- the parser routines: a bad pattern ahead is either reported or still ahead ---------- *)
Lemma bump_while_bad p ts e r : (forall k, p k = true -> is_nl k = false) ->
  bump_while p ts = (e, r) -> bad_at false ts = true -> bad_at false r = true.
Proof.
  intros Hp. revert e r. induction ts as [|[k s] t IH]; intros e r H Hb; cbn [bump_while] in H.
  - inversion H; subst. exact Hb.
  - destruct (p k) eqn:Pk.
    + destruct (bump_while p t) as [e' r'] eqn:E. inversion H; subst.
      rewrite (bad_at_false_cons k s t (Hp k Pk)) in Hb. eapply IH; [reflexivity|exact Hb].
    + inversion H; subst. exact Hb.
Qed.
Lemma ws_or_comment_not_nl k : is_ws_or_comment k = true -> is_nl k = false.
Proof. destruct k; cbn; congruence. Qed.
Lemma ws_or_value_not_nl k : is_ws_or_value k = true -> is_nl k = false.
Proof. destruct k; cbn; congruence. Qed.

(* the comments prologue: entered at a line start, left at a line start *)
Lemma pe_comments_bad m : forall ts e r n b, length ts <= m ->
  pe_comments ts = (e, r, n, b) -> bad_at true ts = true -> 1 <= n \/ bad_at true r = true.
Proof.
  induction m as [|m IH]; intros ts e r n b Hl H Hb.
  - destruct ts; [discriminate|cbn in Hl; lia].
  - destruct ts as [|[k s] t]; [discriminate|]. cbn [pe_comments] in H.
    destruct k; try (inversion H; subst; right; exact Hb).
    rewrite bad_at_cons in Hb. cbn [bad_here andb orb is_nl] in Hb.
    destruct t as [|[g s'] t']; [discriminate|].
    destruct (pe_comments t') as [[[e' rest] n'] early] eqn:E.
    destruct g; inversion H; subst; try (left; lia).
    rewrite bad_at_cons in Hb. cbn [andb orb is_nl] in Hb.
    eapply (IH t'); [cbn in Hl; lia|exact E|exact Hb].
Qed.

(* the value-lines loop: entered mid-line, left at a line start (or at the end of input) *)
Lemma pe_lines_bad fuel : forall ts e r n, pe_lines fuel ts = Ok (e, r, n) ->
  bad_at false ts = true -> 1 <= n \/ bad_at true r = true.
Proof.
  induction fuel as [|f IH]; intros ts e r n H Hb; cbn [pe_lines] in H; [discriminate|].
  destruct (bump_while is_ws_or_value ts) as [e1 r1] eqn:E1.
  pose proof (bump_while_bad _ _ _ _ ws_or_value_not_nl E1 Hb) as B1.
  destruct r1 as [|[k s] r2]; [discriminate|].
  destruct k; try (destruct r2 as [|[k3 si] r3]; [inversion H; subst; left; lia|];
                   destruct k3; try (inversion H; subst; left; lia);
                   unfold skip_ws in H; destruct (bump_while is_ws_or_comment r3) as [e3 r4];
                   destruct (pe_lines f r4) as [[[e5 r5] n5]| | |]; try discriminate; inversion H; subst; left; lia).
  (* NEWLINE: the next position is a line start *)
  rewrite bad_at_cons in B1. cbn [andb orb is_nl] in B1.
  destruct r2 as [|[k3 si] r3]; [discriminate|].
  destruct k3; try (inversion H; subst; right; exact B1).
  (* INDENT: a continuation line *)
  rewrite bad_at_cons in B1. cbn [bad_here andb orb is_nl] in B1.
  unfold skip_ws in H. destruct (bump_while is_ws_or_comment r3) as [e3 r4] eqn:E3.
  pose proof (bump_while_bad _ _ _ _ ws_or_comment_not_nl E3 B1) as B3.
  destruct (pe_lines f r4) as [[[e5 r5] n5]| | |] eqn:E5; try discriminate.
  inversion H; subst. destruct (IH _ _ _ _ E5 B3) as [A|A]; [left; lia|right; exact A].
Qed.

Lemma parse_entry_bad ts e r n : parse_entry ts = Ok (e, r, n) -> bad_at true ts = true ->
  1 <= n \/ bad_at true r = true.
Proof.
  unfold parse_entry. intros H Hb.
  destruct (pe_comments ts) as [[[e0 r0] n0] early] eqn:E0.
  destruct (pe_comments_bad (length ts) _ _ _ _ _ (le_n _) E0 Hb) as [A|B0]; [|].
  { destruct early; [inversion H; subst; left; exact A|].
    destruct (cur r0) as [k|]; [|inversion H; subst; left; exact A].
    destruct k; try (inversion H; subst; left; exact A);
      (destruct (pe_expect KEY r0) as [[e1 r1] n1]; destruct (pe_expect COLON r1) as [[e2 r2] n2];
       destruct (pe_lines (S (length r2)) r2) as [[[e3 r3] n3]| | |]; try discriminate; inversion H; subst; left; lia). }
  destruct early; [inversion H; subst; right; exact B0|].
  destruct r0 as [|[k s] t]; [discriminate|]. cbn [cur] in H.
  destruct k; try (inversion H; subst; right; exact B0).
  { (* KEY *)
    cbn [pe_expect kind_eqb kind_code N.eqb Pos.eqb] in H.
    destruct (skip_ws t) as [e1 r1] eqn:E1.
    rewrite bad_at_cons in B0. cbn [andb is_nl] in B0. apply orb_true_iff in B0.
    destruct (pe_expect COLON r1) as [[e2 r2] n2] eqn:E2.
    destruct (pe_lines (S (length r2)) r2) as [[[e3 r3] n3]| | |] eqn:E3; try discriminate. inversion H; subst.
    destruct B0 as [Bh|Bd].
    + (* the key is not followed by a colon: pe_expect COLON reports *)
      cbn [bad_here] in Bh. rewrite E1 in Bh. cbn [snd] in Bh. unfold pe_expect in E2.
      destruct r1 as [|[k1 s1] t1]; [inversion E2; subst; left; lia|].
      cbn [cur] in Bh. destruct (kind_eqb k1 COLON) eqn:Ek; [destruct k1; discriminate|inversion E2; subst; left; lia].
    + (* the pattern is further ahead *)
      unfold skip_ws in E1. pose proof (bump_while_bad _ _ _ _ ws_or_comment_not_nl E1 Bd) as B1.
      unfold pe_expect in E2. destruct r1 as [|[k1 s1] t1]; [discriminate|].
      destruct (kind_eqb k1 COLON) eqn:Ek; [|inversion E2; subst; left; lia].
      destruct (skip_ws t1) as [e2' r2'] eqn:E2'. inversion E2; subst.
      assert (k1 = COLON) by (destruct k1; try discriminate; reflexivity). subst k1.
      rewrite bad_at_false_cons in B1 by reflexivity.
      unfold skip_ws in E2'. pose proof (bump_while_bad _ _ _ _ ws_or_comment_not_nl E2' B1) as B2.
      destruct (pe_lines_bad _ _ _ _ _ E3 B2) as [A|A]; [left; lia|right; exact A]. }
  all: cbn [pe_expect kind_eqb kind_code N.eqb Pos.eqb] in H;
    destruct (pe_expect COLON t) as [[e2 r2] n2]; destruct (pe_lines (S (length r2)) r2) as [[[e3 r3] n3]| | |];
    try discriminate; inversion H; subst; left; lia.
Qed.
