(* The rejection clause of C03: a line that cannot be a field, continuation, comment or blank
   line makes the strict reader fail — wherever it stands, in ANY text (no well-formedness of
   the surrounding text is needed). *)
From V.model Require Import Base Deb822Lex Deb822Parse Grammar.
From V.proofs Require Import BaseP Deb822LexP Deb822ParseP GrammarLexP.

(* ---------- a bad pattern at the start of a line, on token lists ---------- *)
Definition bad_here (ts : list token) : bool :=
  match ts with
  | (COLON, _) :: _ | (ERROR, _) :: _ => true
  | (KEY, _) :: r => match cur (snd (skip_ws r)) with Some COLON => false | _ => true end
  | _ => false
  end.
Definition is_nl (k : kind) : bool := match k with NEWLINE => true | _ => false end.
(* [prev]: is the position in front of ts the start of a line (start of input or after NEWLINE)? *)
Fixpoint bad_at (prev : bool) (ts : list token) : bool :=
  match ts with
  | [] => false
  | (k, s) :: r => (prev && bad_here ts) || bad_at (is_nl k) r
  end.

Lemma bad_at_cons prev k s r : bad_at prev ((k, s) :: r) = (prev && bad_here ((k, s) :: r)) || bad_at (is_nl k) r.
Proof. reflexivity. Qed.
Lemma bad_at_false_cons k s r : is_nl k = false -> bad_at false ((k, s) :: r) = bad_at false r.
Proof. intros H. rewrite bad_at_cons, H. reflexivity. Qed.

(* ---------- the parser routines: a bad pattern ahead is either reported or still ahead ---------- *)
Lemma bump_while_bad p ts e r : (forall k, p k = true -> is_nl k = false) ->
  bump_while p ts = (e, r) -> bad_at false ts = true -> bad_at false r = true.
Proof.
  intros Hp. revert e r. induction ts as [|[k s] t IH]; intros e r H Hb; cbn [bump_while] in H.
  - inversion H; subst. exact Hb.
  - destruct (p k) eqn:Pk.
    + destruct (bump_while p t) as [e' r'] eqn:E. inversion H; subst.
      rewrite (bad_at_false_cons k s t (Hp k Pk)) in Hb. eapply IH; [reflexivity|exact Hb].
    + inversion H; subst. exact Hb.
Qed.
Lemma ws_or_comment_not_nl k : is_ws_or_comment k = true -> is_nl k = false.
Proof. destruct k; cbn; congruence. Qed.
Lemma ws_or_value_not_nl k : is_ws_or_value k = true -> is_nl k = false.
Proof. destruct k; cbn; congruence. Qed.

(* the comments prologue: entered at a line start, left at a line start *)
Lemma pe_comments_bad m : forall ts e r n b, length ts <= m ->
  pe_comments ts = (e, r, n, b) -> bad_at true ts = true -> 1 <= n \/ bad_at true r = true.
Proof.
  induction m as [|m IH]; intros ts e r n b Hl H Hb.
  - destruct ts; [discriminate|cbn in Hl; lia].
  - destruct ts as [|[k s] t]; [discriminate|]. cbn [pe_comments] in H.
    destruct k; try (inversion H; subst; right; exact Hb).
    rewrite bad_at_cons in Hb. cbn [bad_here andb orb is_nl] in Hb.
    destruct t as [|[g s'] t']; [discriminate|].
    destruct (pe_comments t') as [[[e' rest] n'] early] eqn:E.
    destruct g; inversion H; subst; try (left; lia).
    rewrite bad_at_cons in Hb. cbn [andb orb is_nl] in Hb.
    eapply (IH t'); [cbn in Hl; lia|exact E|exact Hb].
Qed.

(* the value-lines loop: entered mid-line, left at a line start (or at the end of input) *)
Lemma pe_lines_bad fuel : forall ts e r n, pe_lines fuel ts = Ok (e, r, n) ->
  bad_at false ts = true -> 1 <= n \/ bad_at true r = true.
Proof.
  induction fuel as [|f IH]; intros ts e r n H Hb; cbn [pe_lines] in H; [discriminate|].
  destruct (bump_while is_ws_or_value ts) as [e1 r1] eqn:E1.
  pose proof (bump_while_bad _ _ _ _ ws_or_value_not_nl E1 Hb) as B1.
  destruct r1 as [|[k s] r2]; [discriminate|].
  destruct k; try (destruct r2 as [|[k3 si] r3]; [inversion H; subst; left; lia|];
                   destruct k3; try (inversion H; subst; left; lia);
                   unfold skip_ws in H; destruct (bump_while is_ws_or_comment r3) as [e3 r4];
                   destruct (pe_lines f r4) as [[[e5 r5] n5]| | |]; try discriminate; inversion H; subst; left; lia).
  (* NEWLINE: the next position is a line start *)
  rewrite bad_at_cons in B1. cbn [andb orb is_nl] in B1.
  destruct r2 as [|[k3 si] r3]; [discriminate|].
  destruct k3; try (inversion H; subst; right; exact B1).
  (* INDENT: a continuation line *)
  rewrite bad_at_cons in B1. cbn [bad_here andb orb is_nl] in B1.
  unfold skip_ws in H. destruct (bump_while is_ws_or_comment r3) as [e3 r4] eqn:E3.
  pose proof (bump_while_bad _ _ _ _ ws_or_comment_not_nl E3 B1) as B3.
  destruct (pe_lines f r4) as [[[e5 r5] n5]| | |] eqn:E5; try discriminate.
  inversion H; subst. destruct (IH _ _ _ _ E5 B3) as [A|A]; [left; lia|right; exact A].
Qed.

Lemma parse_entry_bad ts e r n : parse_entry ts = Ok (e, r, n) -> bad_at true ts = true ->
  1 <= n \/ bad_at true r = true.
Proof.
  unfold parse_entry. intros H Hb.
  destruct (pe_comments ts) as [[[e0 r0] n0] early] eqn:E0.
  destruct (pe_comments_bad (length ts) _ _ _ _ _ (le_n _) E0 Hb) as [A|B0]; [|].
  { destruct early; [inversion H; subst; left; exact A|].
    destruct (cur r0) as [k|]; [|inversion H; subst; left; exact A].
    destruct k; try (inversion H; subst; left; exact A);
      (destruct (pe_expect KEY r0) as [[e1 r1] n1]; destruct (pe_expect COLON r1) as [[e2 r2] n2];
       destruct (pe_lines (S (length r2)) r2) as [[[e3 r3] n3]| | |]; try discriminate; inversion H; subst; left; lia). }
  destruct early; [inversion H; subst; right; exact B0|].
  destruct r0 as [|[k s] t]; [discriminate|]. cbn [cur] in H.
  destruct k; try (inversion H; subst; right; exact B0).
  { (* KEY *)
    cbn [pe_expect kind_eqb kind_code N.eqb Pos.eqb] in H.
    destruct (skip_ws t) as [e1 r1] eqn:E1.
    rewrite bad_at_cons in B0. cbn [andb is_nl] in B0. apply orb_true_iff in B0.
    destruct (pe_expect COLON r1) as [[e2 r2] n2] eqn:E2.
    destruct (pe_lines (S (length r2)) r2) as [[[e3 r3] n3]| | |] eqn:E3; try discriminate. inversion H; subst.
    destruct B0 as [Bh|Bd].
    + (* the key is not followed by a colon: pe_expect COLON reports *)
      cbn [bad_here] in Bh. rewrite E1 in Bh. cbn [snd] in Bh. unfold pe_expect in E2.
      destruct r1 as [|[k1 s1] t1]; [inversion E2; subst; left; lia|].
      cbn [cur] in Bh. destruct (kind_eqb k1 COLON) eqn:Ek; [destruct k1; discriminate|inversion E2; subst; left; lia].
    + (* the pattern is further ahead *)
      unfold skip_ws in E1. pose proof (bump_while_bad _ _ _ _ ws_or_comment_not_nl E1 Bd) as B1.
      unfold pe_expect in E2. destruct r1 as [|[k1 s1] t1]; [discriminate|].
      destruct (kind_eqb k1 COLON) eqn:Ek; [|inversion E2; subst; left; lia].
      destruct (skip_ws t1) as [e2' r2'] eqn:E2'. inversion E2; subst.
      assert (k1 = COLON) by (destruct k1; try discriminate; reflexivity). subst k1.
      rewrite bad_at_false_cons in B1 by reflexivity.
      unfold skip_ws in E2'. pose proof (bump_while_bad _ _ _ _ ws_or_comment_not_nl E2' B1) as B2.
      destruct (pe_lines_bad _ _ _ _ _ E3 B2) as [A|A]; [left; lia|right; exact A]. }
  all: cbn [pe_expect kind_eqb kind_code N.eqb Pos.eqb] in H;
    destruct (pe_expect COLON t) as [[e2 r2] n2]; destruct (pe_lines (S (length r2)) r2) as [[[e3 r3] n3]| | |];
    try discriminate; inversion H; subst; left; lia.
Qed.

Lemma pp_entries_bad fuel : forall ts e r n, pp_entries fuel ts = Ok (e, r, n) ->
  bad_at true ts = true -> 1 <= n \/ bad_at true r = true.
Proof.
  induction fuel as [|f IH]; intros ts e r n H Hb; cbn [pp_entries] in H.
  - destruct (cur ts) as [k|]; [destruct k|]; try discriminate; inversion H; subst; right; exact Hb.
  - destruct (cur ts) as [k|] eqn:Ec; [|inversion H; subst; right; exact Hb].
    destruct k; try (inversion H; subst; right; exact Hb; fail);
    (destruct (parse_entry ts) as [[[e1 r1] n1]| | |] eqn:E1; try discriminate;
     destruct (pp_entries f r1) as [[[e2 r2] n2]| | |] eqn:E2; try discriminate;
     inversion H; subst;
     destruct (parse_entry_bad _ _ _ _ E1 Hb) as [A|A]; [left; lia|];
     destruct (IH _ _ _ _ E2 A) as [B|B]; [left; lia|right; exact B]).
Qed.

(* an EMPTY_LINE starts with WHITESPACE / COMMENT / NEWLINE (never a bad pattern) and ends after
   the first NEWLINE *)
Lemma empty_line_bad ts : forall e r prev, empty_line ts = (e, r) ->
  (prev = true -> bad_here ts = false) -> bad_at prev ts = true -> bad_at true r = true.
Proof.
  induction ts as [|[k s] t IH]; intros e r prev H Hh Hb; [discriminate|].
  rewrite bad_at_cons in Hb. cbn [empty_line] in H.
  assert (Hb' : bad_at (is_nl k) t = true).
  { destruct prev; [rewrite (Hh eq_refl) in Hb; exact Hb|exact Hb]. }
  destruct k; try (destruct (empty_line t) as [e' r'] eqn:E; inversion H; subst;
                   eapply (IH _ _ false); [reflexivity|discriminate|exact Hb']).
  inversion H; subst. exact Hb'.
Qed.

Lemma skip_wsnl_bad fuel : forall ts e r, skip_wsnl fuel ts = Ok (e, r) ->
  bad_at true ts = true -> bad_at true r = true.
Proof.
  induction fuel as [|f IH]; intros ts e r H Hb; cbn [skip_wsnl] in H.
  - destruct (starts_blank ts); [discriminate|]. inversion H; subst. exact Hb.
  - destruct (starts_blank ts) eqn:Sb; [|inversion H; subst; exact Hb].
    destruct (empty_line ts) as [e1 r1] eqn:E1. destruct (skip_wsnl f r1) as [[e2 r2]| | |] eqn:E2; try discriminate.
    inversion H; subst. eapply IH; [exact E2|].
    eapply (empty_line_bad ts _ _ true); [exact E1| |exact Hb].
    intros _. unfold starts_blank in Sb. destruct ts as [|[k s] t]; [discriminate|]. cbn in Sb. destruct k; try discriminate; reflexivity.
Qed.

Lemma parse_root_bad fuel : forall ts e n, parse_root fuel ts = Ok (e, n) -> bad_at true ts = true -> 1 <= n.
Proof.
  induction fuel as [|f IH]; intros ts e n H Hb; cbn [parse_root] in H.
  - destruct ts; [discriminate|discriminate].
  - destruct ts as [|t0 ts0]; [discriminate|]. remember (t0 :: ts0) as ts.
    destruct (skip_wsnl (length ts) ts) as [[e1 r1]| | |] eqn:E1; try discriminate.
    pose proof (skip_wsnl_bad _ _ _ _ E1 Hb) as B1.
    destruct r1 as [|t1 r1']; [discriminate|]. remember (t1 :: r1') as r1.
    unfold parse_paragraph in H.
    destruct (pp_entries (length r1) r1) as [[[e2 r2] n2]| | |] eqn:E2; try discriminate.
    destruct (parse_root f r2) as [[e3 n3]| | |] eqn:E3; try discriminate.
    inversion H; subst n. destruct (pp_entries_bad _ _ _ _ _ E2 B1) as [A|A]; [lia|].
    pose proof (IH _ _ _ E3 A). lia.
Qed.

Theorem bad_tokens_rejected ts t n : parse_tokens ts = Ok (t, n) -> bad_at true ts = true -> 1 <= n.
Proof.
  unfold parse_tokens. intros H Hb. destruct (parse_root (length ts) ts) as [[e n']| | |] eqn:E; try discriminate.
  inversion H; subst. eapply parse_root_bad; eassumption.
Qed.

(* ================= the lexer is line-local ================= *)
Lemma span_before_lf {p : N -> bool} r y : p LF = false ->
  span p (r ++ LF :: y) = (fst (span p r), snd (span p r) ++ LF :: y).
Proof.
  intros Hp. induction r as [|c r IH]; cbn [app span].
  - rewrite Hp. reflexivity.
  - destruct (p c); [|reflexivity]. rewrite IH. destruct (span p r). reflexivity.
Qed.

Lemma lex_step_before_lf st c r y :
  lex_step st c (r ++ LF :: y) =
  match lex_step st c r with
  | Ok (t, st', r') => Ok (t, st', r' ++ LF :: y)
  | Err e => Err e | Panic n => Panic n | OutOfFuel => OutOfFuel
  end.
Proof.
  unfold lex_step.
  repeat match goal with |- context [if ?b then _ else _] => destruct b end;
    try reflexivity;
    rewrite span_before_lf by reflexivity;
    match goal with |- context [span ?p r] => destruct (span p r) end; reflexivity.
Qed.

Definition not_colon (t : token) : Prop := fst t <> COLON.

Lemma lex_step_colon st c r k s st' r' : lex_step st c r = Ok ((k, s), st', r') -> k = COLON -> c = 58%N.
Proof.
  unfold lex_step. intros H Hk.
  destruct ((c =? 58)%N) eqn:E; [apply N.eqb_eq in E; exact E|]. cbn [andb] in H.
  repeat match type of H with
  | (if ?b then _ else _) = _ => destruct b
  | (let '(_, _) := span ?p ?s in _) = _ => destruct (span p s)
  end; inversion H; subst; discriminate.
Qed.

(* lexing x ++ LF :: y = tokens of x, the NEWLINE, tokens of y; and no COLON token comes out of a
   colon-free x *)
Lemma lexf_line_local n : forall x st, length x <= n ->
  exists tx, (~ In 58%N x -> Forall not_colon tx) /\ lexf st x = Ok tx /\
             forall y ty, lexf st_init y = Ok ty -> lexf st (x ++ LF :: y) = Ok (tx ++ (NEWLINE, [LF]) :: ty).
Proof.
  induction n as [|n IH]; intros x st Hl.
  - destruct x; [|cbn in Hl; lia]. exists []. split; [constructor|]. split; [reflexivity|]. intros y ty Hy. cbn [app].
    apply lexf_lf; [tauto|exact Hy].
  - destruct x as [|c r].
    + exists []. split; [constructor|]. split; [reflexivity|]. intros y ty Hy. cbn [app]. apply lexf_lf; [tauto|exact Hy].
    + destruct (lex_step_total st c r) as (k & t & st' & r' & E & Hr).
      destruct (IH r' st' ltac:(cbn in Hl; lia)) as (tx & Hc & Hself & Hx).
      exists ((k, t) :: tx). split; [|split; [rewrite lexf_cons, E, Hself; reflexivity|]].
      * intros Hin. constructor.
        -- unfold not_colon. cbn [fst]. intros Hk. apply Hin. left. eapply lex_step_colon; eassumption.
        -- apply Hc. intros Hin'. apply Hin. right.
           (* r' is a suffix of r *)
           pose proof (lex_step_spec _ _ _ _ _ _ _ E) as (Ha & _ & _).
           destruct t as [|c0 t0]; [cbn in Ha; subst r'; cbn in Hr; lia|]. cbn in Ha. inversion Ha; subst.
           apply in_or_app. right. exact Hin'.
      * intros y ty Hy. cbn [app]. rewrite lexf_cons, lex_step_before_lf, E. rewrite (Hx y ty Hy). reflexivity.
Qed.

(* ================= a bad line ================= *)
Definition bad_line (l : str) : bool :=
  no_eol l &&
  match l with
  | [] => false
  | c :: _ =>
      negb (is_indent c) && negb (c =? 35)%N &&
      (negb (is_valid_initial_key_char c)                       (* cannot start a field name *)
       || negb (existsb (fun x => (x =? 58)%N) l))               (* a name but no colon *)
  end.

Lemma skip_ws_not_colon tz s ty : Forall not_colon tz ->
  cur (snd (skip_ws (tz ++ (NEWLINE, s) :: ty))) <> Some COLON.
Proof.
  unfold skip_ws. induction tz as [|[k1 s1] tz IH]; intros H; cbn [app bump_while].
  - cbn. discriminate.
  - inversion H as [|x l Hx Hl]; subst. unfold not_colon in Hx. cbn [fst] in Hx.
    destruct (is_ws_or_comment k1) eqn:E.
    + specialize (IH Hl). destruct (bump_while is_ws_or_comment (tz ++ (NEWLINE, s) :: ty)). exact IH.
    + cbn [snd cur]. congruence.
Qed.

Lemma bad_line_tokens l y ty : bad_line l = true -> lexf st_init y = Ok ty ->
  exists T, lexf st_init (l ++ LF :: y) = Ok T /\ bad_here T = true.
Proof.
  unfold bad_line. intros H Hy. apply andb_true_iff in H. destruct H as [Hne H].
  destruct l as [|c r]; [discriminate|].
  apply andb_true_iff in H. destruct H as [H Hor]. apply andb_true_iff in H. destruct H as [Hi H35].
  apply negb_true_iff in Hi. apply negb_true_iff in H35.
  cbn [no_eol forallb] in Hne. apply andb_true_iff in Hne. destruct Hne as [Hnl _]. apply negb_true_iff in Hnl.
  cbn [app]. rewrite lexf_cons, lex_step_before_lf.
  destruct (lex_step_total st_init c r) as (k & t & st' & r' & E & Hr). rewrite E.
  destruct (lexf_line_local (length r') r' st' (le_n _)) as (tx & Hc & _ & Hx). rewrite (Hx y ty Hy).
  eexists. split; [reflexivity|].
  (* which token is first? *)
  unfold lex_step in E. cbn [sol colon ind st_init negb andb orb] in E.
  rewrite Hnl, Hi, H35 in E. cbn [andb] in E.
  destruct (c =? 58)%N eqn:E58.
  - inversion E; subst. reflexivity.
  - cbn [andb] in E. destruct (is_valid_initial_key_char c) eqn:Ek.
    + (* a name: no colon on the line *)
      cbn [negb orb] in Hor. apply negb_true_iff in Hor.
      cbn [andb] in E. destruct (span is_valid_key_char r) as [w rr] eqn:Es. inversion E; subst.
      cbn [bad_here].
      assert (Hnc : ~ In 58%N r').
      { intros Hin. assert (In 58%N (c :: r)).
        { right. pose proof (span_app _ _ _ _ Es) as Ha. rewrite <- Ha. apply in_or_app. right. exact Hin. }
        assert (existsb (fun x => (x =? 58)%N) (c :: r) = true) by (apply existsb_exists; exists 58%N; split; [assumption|reflexivity]).
        congruence. }
      pose proof (skip_ws_not_colon tx [LF] ty (Hc Hnc)) as Hs.
      destruct (cur (snd (skip_ws (tx ++ (NEWLINE, [LF]) :: ty)))) as [k0|]; [destruct k0; try reflexivity; congruence|reflexivity].
    + cbn [andb orb] in E. inversion E; subst. reflexivity.
Qed.

Lemma bad_at_after_nl a s T prev : bad_here T = true -> bad_at prev (a ++ (NEWLINE, s) :: T) = true.
Proof.
  intros H. revert prev. induction a as [|[k s0] a IH]; intros prev; cbn [app].
  - rewrite bad_at_cons. cbn [is_nl]. destruct T as [|[k1 s1] T1]; [discriminate|].
    rewrite (bad_at_cons true). rewrite H. cbn. apply orb_true_r.
  - rewrite bad_at_cons, IH. apply orb_true_r.
Qed.

(* C03, rejection clause — for ANY text around the bad line *)
Theorem C03_reject_all (pre post l : str) :
  (pre = [] \/ exists p, pre = p ++ [LF]) -> bad_line l = true ->
  from_str (pre ++ l ++ [LF] ++ post) = Err 1%N.
Proof.
  intros Hpre Hbad.
  destruct (lex_total true post) as [tpost Epost]. change (lex_ true post) with (lexf st_init post) in Epost.
  destruct (bad_line_tokens l post tpost Hbad Epost) as (T & ET & HT).
  assert (Hlex : exists ts, lex (pre ++ l ++ [LF] ++ post) = Ok ts /\ bad_at true ts = true).
  { destruct Hpre as [->|[p ->]].
    - exists T. split; [exact ET|]. destruct T as [|[k s] T']; [discriminate|]. rewrite bad_at_cons, HT. reflexivity.
    - destruct (lexf_line_local (length p) p st_init (le_n _)) as (tp & _ & _ & Hp).
      exists (tp ++ (NEWLINE, [LF]) :: T). split.
      + rewrite <- app_assoc. cbn [app]. rewrite lex_is_lexf. apply (Hp _ _ ET).
      + apply bad_at_after_nl. exact HT. }
  destruct Hlex as (ts & Els & Hb).
  unfold from_str, parse. rewrite Els.
  destruct (parse_tokens_total ts) as (t & n & Ep & _). rewrite Ep.
  pose proof (bad_tokens_rejected ts t n Ep Hb). destruct n; [lia|reflexivity].
Qed.

(* ================= ... also as the last line, without a line end ================= *)
Lemma skip_ws_not_colon_end tz : Forall not_colon tz -> cur (snd (skip_ws tz)) <> Some COLON.
Proof.
  intros H. induction H as [|[k s] r Hk Hr IH]; [discriminate|].
  unfold skip_ws. cbn [bump_while]. destruct (is_ws_or_comment k) eqn:E.
  - fold skip_ws. destruct (skip_ws r) as [e r'] eqn:Es. cbn [snd] in *. exact IH.
  - cbn [snd cur]. unfold not_colon in Hk. cbn [fst] in Hk. congruence.
Qed.

Lemma bad_line_tokens_last l : bad_line l = true ->
  exists T, lexf st_init l = Ok T /\ bad_here T = true.
Proof.
  unfold bad_line. intros H. apply andb_true_iff in H. destruct H as [Hne H].
  destruct l as [|c r]; [discriminate|].
  apply andb_true_iff in H. destruct H as [H Hor]. apply andb_true_iff in H. destruct H as [Hi H35].
  apply negb_true_iff in Hi. apply negb_true_iff in H35.
  cbn [no_eol forallb] in Hne. apply andb_true_iff in Hne. destruct Hne as [Hnl _]. apply negb_true_iff in Hnl.
  rewrite lexf_cons.
  destruct (lex_step_total st_init c r) as (k & t & st' & r' & E & Hr). rewrite E.
  destruct (lexf_line_local (length r') r' st' (le_n _)) as (tx & Hc & Hself & _). rewrite Hself.
  eexists. split; [reflexivity|].
  unfold lex_step in E. cbn [sol colon ind st_init negb andb orb] in E.
  rewrite Hnl, Hi, H35 in E. cbn [andb] in E.
  destruct (c =? 58)%N eqn:E58.
  - inversion E; subst. reflexivity.
  - cbn [andb] in E. destruct (is_valid_initial_key_char c) eqn:Ek.
    + cbn [negb orb] in Hor. apply negb_true_iff in Hor.
      cbn [andb] in E. destruct (span is_valid_key_char r) as [w rr] eqn:Es. inversion E; subst.
      cbn [bad_here].
      assert (Hnc : ~ In 58%N r').
      { intros Hin. assert (In 58%N (c :: r)).
        { right. pose proof (span_app _ _ _ _ Es) as Ha. rewrite <- Ha. apply in_or_app. right. exact Hin. }
        assert (existsb (fun x => (x =? 58)%N) (c :: r) = true) by (apply existsb_exists; exists 58%N; split; [assumption|reflexivity]).
        congruence. }
      pose proof (skip_ws_not_colon_end tx (Hc Hnc)) as Hs.
      destruct (cur (snd (skip_ws tx))) as [k0|]; [destruct k0; try reflexivity; congruence|reflexivity].
    + cbn [andb orb] in E. inversion E; subst. reflexivity.
Qed.

Theorem C03_reject_last_all (pre l : str) :
  (pre = [] \/ exists p, pre = p ++ [LF]) -> bad_line l = true ->
  from_str (pre ++ l) = Err 1%N.
Proof.
  intros Hpre Hbad.
  destruct (bad_line_tokens_last l Hbad) as (T & ET & HT).
  assert (Hlex : exists ts, lex (pre ++ l) = Ok ts /\ bad_at true ts = true).
  { destruct Hpre as [->|[p ->]].
    - exists T. split; [exact ET|]. destruct T as [|[k s] T']; [discriminate|]. rewrite bad_at_cons, HT. reflexivity.
    - destruct (lexf_line_local (length p) p st_init (le_n _)) as (tp & _ & _ & Hp).
      exists (tp ++ (NEWLINE, [LF]) :: T). split.
      + rewrite <- app_assoc. cbn [app]. rewrite lex_is_lexf. apply (Hp _ _ ET).
      + apply bad_at_after_nl. exact HT. }
  destruct Hlex as (ts & Els & Hb).
  unfold from_str, parse. rewrite Els.
  destruct (parse_tokens_total ts) as (t & n & Ep & _). rewrite Ep.
  pose proof (bad_tokens_rejected ts t n Ep Hb). destruct n; [lia|reflexivity].
Qed.
