(* Lemmas about RelLive.v (C11), part 4: the bridges to C10's well-formed fields (RelGrammar.v).
   [live_of f] is a live layout with exactly the tree, the content and the well-formedness of f;
   [norm l] is a well-formed field with exactly the text and the content of the live layout l. *)
From V.model Require Import Base RelLex RelParse RelAcc RelGrammar.
From V.model Require Import RelEdit RelEditSpec RelEditTree RelLive.
From V.proofs Require Import BaseP RelLexP RelEditP RelEditStP RelEditTreeP RelGrammarParseP RelGrammarAccP.
From V.proofs Require Import RelLiveP RelLiveStepP RelLiveWfP.

(* ------------------------------------------------------------------ white space slots *)
Lemma wtrees_wsl_of s : wtrees (wsl_of s) = ws_elems s.
Proof.
  unfold wtrees, wsl_of, ws_elems, elems. rewrite map_map. pose proof (ws_toks_kinds s) as H.
  induction H as [|[k x] r Hk _ IH]; [reflexivity|]. cbn [map fst snd]. rewrite IH. f_equal.
  cbn [fst] in Hk. destruct k; try discriminate; reflexivity.
Qed.
Lemma rttext_ws_toks s : rttext (ws_toks s) = s.
Proof.
  unfold rttext. induction s as [|c r IH]; [reflexivity|]. cbn [ws_toks]. destruct (c =? 10)%N.
  - cbn [map concat snd app]. now rewrite IH.
  - destruct (ws_toks r) as [|[k w] ts]; [cbn in *; now subst r|].
    destruct k; cbn [map concat snd app] in *; now rewrite <- IH.
Qed.
Lemma texts_ws_elems s : texts (ws_elems s) = s.
Proof. unfold ws_elems. now rewrite texts_elems, rttext_ws_toks. Qed.
Lemma wstext_wsl_of s : wstext (wsl_of s) = s.
Proof.
  rewrite <- (rttext_ws_toks s) at 2. unfold wstext, wsl_of, rttext. rewrite flat_map_concat_map, map_map. f_equal.
  apply map_ext. intros [k x]. now destruct k.
Qed.
Lemma texts_wtrees w : texts (wtrees w) = wstext w.
Proof. induction w as [|[[|] s] r IH]; [reflexivity| |]; cbn [wtrees map wstext flat_map]; rewrite texts_cons; now f_equal. Qed.
Lemma map_rt_rws s : map rt (rws s) = ws_elems s.
Proof. unfold rws. rewrite map_map. exact (wtrees_wsl_of s). Qed.

(* a slot of well-formed white space is well-formed tokens *)
Lemma ws_toks_ok s : ws_ok s = true -> wsl_ok (wsl_of s) = true.
Proof.
  unfold wsl_ok, wsl_of. induction s as [|c r IH]; [reflexivity|]. cbn [ws_ok forallb]. intros H. andb_hyps.
  specialize (IH H0). cbn [ws_toks]. destruct (c =? 10)%N eqn:Ec.
  - cbn [map forallb fst snd wtok_ok]. apply N.eqb_eq in Ec. subst c. now rewrite IH.
  - assert (Hc : ((c =? 32) || (c =? 9))%N = true).
    { unfold is_fws in H. rewrite Ec, orb_false_r in H. exact H. }
    destruct (ws_toks r) as [|[k w] ts]; [cbn; now rewrite Hc|].
    destruct k; cbn [map forallb fst snd wtok_ok nonempty] in *; rewrite ?Hc; cbn [andb]; try exact IH.
    andb_hyps. andb_goal; auto.
Qed.
Lemma wstext_ok w : wsl_ok w = true -> ws_ok (wstext w) = true.
Proof.
  unfold wsl_ok, ws_ok. induction w as [|[[|] s] r IH]; [reflexivity| |]; cbn [forallb wstext flat_map wtext wtok_ok]; intros H; andb_hyps;
    rewrite forallb_app; andb_goal; auto.
  - unfold str_eqb in H. destruct s as [|c [|c' s']]; try discriminate; [destruct (N.eqb_spec c 10); [subst; reflexivity|]|].
    + cbn in H. destruct (c =? 10)%N eqn:E; [apply N.eqb_eq in E; contradiction|discriminate].
    + cbn in H. destruct (c =? 10)%N; discriminate.
  - rewrite forallb_forall in *. intros c Hc. specialize (H1 c Hc). unfold is_fws. apply orb_prop in H1 as [->| ->]; now rewrite ?orb_true_r.
Qed.

(* ------------------------------------------------------------------ live_of: the same tree *)
Lemma part_of {A} (f : A -> rtree) (ws0 : A -> str) (o : option A) :
  part f (option_map (fun a => (wsl_of (ws0 a), a)) o) = opt_elems (fun a => ws_elems (ws0 a) ++ [f a]) o.
Proof. destruct o as [a|]; [|reflexivity]. cbn [option_map part opt_elems]. now rewrite wtrees_wsl_of. Qed.
Lemma profs_of ps : flat_map prof_part (map (fun g => (wsl_of (g_ws0 g), g)) ps) = flat_map prof_elems ps.
Proof.
  induction ps as [|g r IH]; [reflexivity|]. cbn [map flat_map]. rewrite IH. unfold prof_part, prof_elems. cbn [fst snd].
  now rewrite wtrees_wsl_of.
Qed.
Lemma lrel_tree_of r last : lrel_tree (lrel_of r last) = rel_tree r last.
Proof.
  unfold lrel_tree, rel_tree, lrel_children, lrel_of. cbn [l_name l_qual l_ver l_archs l_profs l_trail]. f_equal. f_equal.
  rewrite (part_of qual_node q_ws0), (part_of vnode v_ws0), (part_of arch_node g_ws0), profs_of.
  f_equal. f_equal. f_equal. f_equal. destruct (owns_trail r last); [apply wtrees_wsl_of|reflexivity].
Qed.
Definition last_flag {A} (alts : list A) (last : bool) : bool := match alts with [] => last | _ => false end.
Lemma rels_elems_of alts : forall r last,
  rels_elems r alts last =
  lrel_tree (lrel_of r (last_flag alts last)) :: flat_map alt_part (fst (lalts_of r alts last)) ++ wtrees (snd (lalts_of r alts last)).
Proof.
  induction alts as [|[w r'] alts' IH]; intros r last; cbn [rels_elems lalts_of last_flag].
  - cbn [fst snd flat_map app]. rewrite lrel_tree_of. f_equal. destruct last; [apply eq_sym, wtrees_wsl_of|reflexivity].
  - rewrite (IH r' last). destruct (lalts_of r' alts' last) as [rest trail]. cbn [fst snd flat_map].
    f_equal; [symmetry; apply lrel_tree_of|].
    unfold alt_part. cbn [fst snd]. rewrite !wtrees_wsl_of. fold (last_flag alts' last).
    rewrite <- !app_assoc. cbn [app]. rewrite <- !app_assoc. reflexivity.
Qed.
Lemma lentry_tree_of r alts last : lentry_tree (lentry_of r alts last) = Node ENTRY (rels_elems r alts last).
Proof.
  unfold lentry_tree, lentry_of. rewrite rels_elems_of. destruct (lalts_of r alts last) as [la trail].
  reflexivity.
Qed.
Lemma litem_tree_of i last : map rt (litem_of i last) = item_elems i last.
Proof.
  destruct i as [r alts|seg segs trail|]; cbn [litem_of item_elems map relem_tree]; [| |reflexivity].
  - now rewrite lentry_tree_of, map_rt_rws.
  - now rewrite map_rt_rws.
Qed.
Lemma litems_tree_of more : forall i, map rt (litems_of i more) = items_elems i more.
Proof.
  induction more as [|[w i'] more IH]; intros i; cbn [litems_of items_elems]; rewrite map_app, litem_tree_of; [reflexivity|].
  cbn [map relem_tree]. now rewrite map_app, map_rt_rws, IH.
Qed.
Theorem ltree_live_of f : ltree (live_of f) = rtree_of f.
Proof. unfold ltree, live_of, rtree_of. now rewrite map_app, map_rt_rws, litems_tree_of. Qed.

(* ------------------------------------------------------------------ live_of: the same content *)
Lemma lrel_content_of r last : lrel_content (lrel_of r last) = rel_content r.
Proof.
  unfold lrel_content, lrel_of, rel_content. cbn [l_name l_qual l_ver l_archs l_profs]. f_equal.
  - now destruct (r_qual r).
  - now destruct (r_ver r).
  - now destruct (r_archs r).
  - rewrite map_map. reflexivity.
Qed.
Lemma lalts_content alts : forall r last,
  map (fun a => lrel_content (snd a)) (fst (lalts_of r alts last)) = map (fun wr => rel_content (snd wr)) alts.
Proof.
  induction alts as [|[w r'] alts' IH]; intros r last; [reflexivity|]. cbn [lalts_of]. specialize (IH r' last).
  destruct (lalts_of r' alts' last) as [rest trail]. cbn [fst snd map] in *. now rewrite IH, lrel_content_of.
Qed.
Lemma lentry_content_of r alts last :
  lentry_content (lentry_of r alts last) = rel_content r :: map (fun wr => rel_content (snd wr)) alts.
Proof.
  unfold lentry_of. pose proof (lalts_content alts r last) as H. destruct (lalts_of r alts last) as [la trail].
  unfold lentry_content. cbn [e_first e_alts fst] in *. now rewrite lrel_content_of, H.
Qed.
Lemma rws_entries s : flat_map relem_entries (rws s) = [].
Proof. unfold rws. induction (wsl_of s) as [|a l IHl]; [reflexivity|]. exact IHl. Qed.
Lemma rws_substs s : flat_map relem_substvars (rws s) = [].
Proof. unfold rws. induction (wsl_of s) as [|a l IHl]; [reflexivity|]. exact IHl. Qed.
Lemma litem_content i last :
  flat_map relem_entries (litem_of i last) = item_entries i /\ flat_map relem_substvars (litem_of i last) = item_substvars i.
Proof.
  destruct i as [r alts|seg segs trail|]; cbn [litem_of item_entries item_substvars flat_map relem_entries relem_substvars app].
  - now rewrite rws_entries, rws_substs, lentry_content_of.
  - now rewrite rws_entries, rws_substs.
  - auto.
Qed.
Lemma litems_content more : forall i,
  flat_map relem_entries (litems_of i more) = flat_map item_entries (i :: map snd more) /\
  flat_map relem_substvars (litems_of i more) = flat_map item_substvars (i :: map snd more).
Proof.
  induction more as [|[w i'] more IH]; intros i; cbn [litems_of map snd]; rewrite !flat_map_app.
  - destruct (litem_content i (is_nil (@nil (str * item)))) as [-> ->]; cbn [flat_map]. now rewrite !app_nil_r.
  - destruct (litem_content i (is_nil ((w, i') :: more))) as [-> ->]; cbn [flat_map].
    destruct (IH i') as [H1 H2]. cbn [relem_entries relem_substvars app]. rewrite !flat_map_app, rws_entries, rws_substs, H1, H2.
    split; reflexivity.
Qed.
Theorem lcontent_live_of f : lcontent (live_of f) = rcontent f.
Proof.
  unfold lcontent, live_of, rcontent, f_items. rewrite !flat_map_app, rws_entries, rws_substs.
  destruct (litems_content (f_rest f) (f_first f)) as [-> ->]. reflexivity.
Qed.

(* ------------------------------------------------------------------ live_of: well-formed *)
Lemma lrel_of_ok r last : wf_rel r = true -> lrel_ok (lrel_of r last) = true.
Proof.
  unfold wf_rel, lrel_ok, lrel_of. intros H. andb_hyps. cbn [l_name l_qual l_ver l_archs l_profs l_trail]. andb_goal; auto.
  - destruct (r_qual r) as [q|]; [|reflexivity]. cbn [opt_ok option_map inner_ok] in *. unfold qual_ok in H4. andb_hyps.
    unfold qual_in_ok. rewrite (ws_toks_ok _ H4). now andb_goal.
  - destruct (r_ver r) as [v|]; [|reflexivity]. cbn [opt_ok option_map inner_ok] in *. unfold vclause_ok in H3. andb_hyps.
    unfold vclause_in_ok. rewrite (ws_toks_ok _ H3). now andb_goal.
  - destruct (r_archs r) as [g|]; [|reflexivity]. cbn [opt_ok option_map inner_ok] in *. unfold group_ok in H2. andb_hyps.
    unfold group_in_ok. rewrite (ws_toks_ok _ H2). now andb_goal.
  - rewrite forallb_forall in *. intros x Hx. apply in_map_iff in Hx as (g & <- & Hin). cbn [fst snd].
    specialize (H1 g Hin). unfold group_ok in H1. andb_hyps. unfold group_in_ok. rewrite (ws_toks_ok _ H1). now andb_goal.
  - destruct (owns_trail r last); [now apply ws_toks_ok|reflexivity].
Qed.
Lemma rel_left_ok r last : wf_rel r = true -> ws_ok (rel_left r last) = true.
Proof. unfold wf_rel, rel_left. intros H. andb_hyps. now destruct (owns_trail r last). Qed.
Lemma lalts_of_ok alts : forall r last, wf_rel r = true -> forallb wf_alt alts = true ->
  forallb alt_ok (fst (lalts_of r alts last)) = true /\ wsl_ok (snd (lalts_of r alts last)) = true.
Proof.
  induction alts as [|[w r'] alts' IH]; intros r last Hr Ha; cbn [lalts_of].
  - cbn [fst snd]. split; [reflexivity|]. destruct last; [apply ws_toks_ok, rel_left_ok, Hr|reflexivity].
  - cbn [forallb] in Ha. andb_hyps. unfold wf_alt in H. cbn [fst snd] in H. andb_hyps.
    destruct (IH r' last H1 H0) as [I1 I2]. destruct (lalts_of r' alts' last) as [rest trail]. cbn [fst snd forallb] in *.
    split; [|exact I2]. rewrite I1, andb_true_r. unfold alt_ok. cbn [fst snd].
    rewrite (ws_toks_ok _ (rel_left_ok r false Hr)), (ws_toks_ok _ H), (lrel_of_ok r' _ H1). reflexivity.
Qed.
Lemma lentry_of_ok r alts last : wf_rel r = true -> forallb wf_alt alts = true -> lentry_ok (lentry_of r alts last) = true.
Proof.
  intros Hr Ha. unfold lentry_of. destruct (lalts_of_ok alts r last Hr Ha) as [H1 H2].
  destruct (lalts_of r alts last) as [la trail]. rewrite lentry_ok_eq. cbn [e_first e_alts e_trail fst snd] in *.
  now rewrite (lrel_of_ok r _ Hr), H1, H2.
Qed.
Lemma rws_ok b s : ws_ok s = true -> forallb (relem_ok b) (rws s) = true.
Proof.
  intros H. apply ws_toks_ok in H. unfold rws, wsl_ok in *. induction (wsl_of s) as [|a l IHl]; [reflexivity|].
  cbn [forallb map relem_ok] in *. andb_hyps. andb_goal; auto.
Qed.
Lemma rws_all_ws s : forallb is_rw (rws s) = true.
Proof. unfold rws. induction (wsl_of s) as [|a l IHl]; [reflexivity|]. exact IHl. Qed.
Lemma rels_left_ok alts : forall r last, wf_rel r = true -> forallb wf_alt alts = true -> ws_ok (rels_left r alts last) = true.
Proof.
  induction alts as [|[w r'] alts' IH]; intros r last Hr Ha; cbn [rels_left].
  - destruct last; [reflexivity|now apply rel_left_ok].
  - cbn [forallb] in Ha. andb_hyps. unfold wf_alt in H. cbn [snd] in H. andb_hyps. now apply IH.
Qed.
Lemma litem_of_ok b i last : wf_item b i = true ->
  forallb (relem_ok b) (litem_of i last) = true /\
  exists s, forall need, sep_run need (litem_of i last) = match i with IEmpty => Some need | _ => if need then None else Some s end.
Proof.
  destruct i as [r alts|seg segs trail|]; cbn [wf_item litem_of]; intros H; andb_hyps.
  - split.
    + cbn [forallb relem_ok]. rewrite (lentry_of_ok r alts last H H0). cbn [andb]. apply rws_ok. now apply rels_left_ok.
    + exists true. intros [|]; cbn [sep_run]; [reflexivity|]. apply sep_run_all_ws, rws_all_ws.
  - split.
    + cbn [forallb relem_ok]. rewrite H, H2, H1. cbn [andb]. now apply rws_ok.
    + exists true. intros [|]; cbn [sep_run]; [reflexivity|]. apply sep_run_all_ws, rws_all_ws.
  - split; [reflexivity|]. exists true. reflexivity.
Qed.
Lemma litems_of_ok b more : forall i, wf_item b i = true -> forallb (wf_more b) more = true ->
  forallb (relem_ok b) (litems_of i more) = true /\ exists s, sep_run false (litems_of i more) = Some s.
Proof.
  induction more as [|[w i'] more IH]; intros i Hi Hm; cbn [litems_of].
  - rewrite app_nil_r. destruct (litem_of_ok b i (is_nil (@nil (str * item))) Hi) as (H1 & s & H2). split; [exact H1|].
    rewrite H2. destruct i; eauto.
  - cbn [forallb] in Hm. andb_hyps. unfold wf_more in H. cbn [fst snd] in H. andb_hyps.
    destruct (litem_of_ok b i (is_nil ((w, i') :: more)) Hi) as (H2 & s & H3).
    destruct (IH i' H1 H0) as (H4 & s' & H5). split.
    + rewrite forallb_app, H2. cbn [forallb relem_ok andb]. rewrite forallb_app, (rws_ok b w H), H4. reflexivity.
    + exists s'. rewrite sep_run_app, H3.
      assert (Hc : sep_run false (rws w ++ litems_of i' more) = Some s') by (now rewrite sep_run_app, sep_run_all_ws by apply rws_all_ws).
      destruct i; cbn [sep_run]; exact Hc.
Qed.
Theorem lwf_live_of b f : wf_rfield b f = true -> lwf b (live_of f) = true.
Proof.
  unfold wf_rfield, live_of. intros H. andb_hyps. destruct (litems_of_ok b (f_rest f) (f_first f) H1 H0) as (H2 & s & H3).
  apply (lwf_intro _ _ s).
  - now rewrite forallb_app, (rws_ok b _ H), H2.
  - now rewrite sep_run_app, sep_run_all_ws by apply rws_all_ws.
Qed.

(* ------------------------------------------------------------------ norm: the text of the parts *)
Lemma rttext_app a b : rttext (a ++ b) = rttext a ++ rttext b.
Proof. unfold rttext. now rewrite map_app, concat_app. Qed.
Lemma rttext_cons k s r : rttext ((k, s) :: r) = s ++ rttext r.
Proof. reflexivity. Qed.
Lemma texts_one (t : rtree) : texts [t] = text t.
Proof. unfold texts. cbn [flat_map]. apply app_nil_r. Qed.
Lemma rttext_term t : rttext (term_toks t) = term_text t.
Proof.
  unfold term_toks, term_text. rewrite !rttext_app, rttext_ws_toks. f_equal. destruct (t_neg t); cbn; now rewrite ?app_nil_r.
Qed.
Lemma rttext_terms l : rttext (flat_map term_toks l) = flat_map term_text l.
Proof. induction l as [|t r IH]; [reflexivity|]. cbn [flat_map]. now rewrite rttext_app, rttext_term, IH. Qed.
Lemma text_group_node k ok ck o c g : text (group_node k ok ck o c g) = group_body_text o c g.
Proof.
  unfold group_node, group_body_text, group_body_toks. rewrite text_node, texts_elems. rewrite rttext_cons. cbn [app]. f_equal.
  rewrite !rttext_app, rttext_terms, rttext_ws_toks. reflexivity.
Qed.
Lemma rttext_vop o : rttext (vop_toks o) = vop_text o.
Proof. destruct o; reflexivity. Qed.
Lemma rttext_vtext v : rttext (vtext_toks v) = vtext v.
Proof.
  unfold vtext_toks, vtext. rewrite rttext_app. f_equal; [destruct (v_epoch v); cbn; now rewrite ?app_nil_r|].
  rewrite rttext_cons. f_equal. induction (v_more v) as [|p r IH]; [reflexivity|]. cbn [flat_map app]. rewrite !rttext_cons, IH. reflexivity.
Qed.
Lemma text_vnode v : text (vnode v) = vbody_text v.
Proof.
  unfold vnode, vbody_text. rewrite text_node, texts_cons, text_tok. cbn [app]. f_equal.
  rewrite texts_app, texts_ws_elems, texts_cons, text_node, texts_elems, rttext_vop.
  rewrite !texts_app, !texts_ws_elems, texts_elems, rttext_vtext. reflexivity.
Qed.
Lemma text_qual_node q : text (qual_node q) = 58%N :: q_ws1 q ++ q_name q.
Proof. unfold qual_node. rewrite text_node, texts_cons, text_tok, texts_app, texts_ws_elems, texts_one. reflexivity. Qed.

Lemma texts_part {A} (f : A -> rtree) o : texts (part f o) = match o with Some (w, a) => wstext w ++ text (f a) | None => [] end.
Proof. destruct o as [[w a]|]; [|reflexivity]. cbn [part]. now rewrite texts_app, texts_wtrees, texts_one. Qed.

Lemma rel_text_nrel r extra : rel_text (nrel r extra) = text (lrel_tree r) ++ extra.
Proof.
  unfold lrel_tree. rewrite text_node. unfold lrel_children, rel_text, nrel. cbn [r_name r_qual r_ver r_archs r_profs r_trail].
  rewrite texts_cons, text_tok, !texts_app, !texts_part, texts_wtrees. rewrite <- !app_assoc. f_equal.
  f_equal; [destruct (l_qual r) as [[w q]|]; [|reflexivity]; cbn [option_map opt_text fst snd]; unfold qual_text; cbn [q_ws0 q_ws1 q_name]; now rewrite text_qual_node|].
  f_equal; [destruct (l_ver r) as [[w v]|]; [|reflexivity]; cbn [option_map opt_text fst snd]; unfold vclause_text, vbody_text, vtext; cbn [v_ws0 v_ws1 v_ws2 v_ws3 v_op v_epoch v_ver v_more];
            rewrite text_vnode; reflexivity|].
  f_equal; [destruct (l_archs r) as [[w g]|]; [|reflexivity]; cbn [option_map opt_text fst snd]; unfold arch_text, group_text, group_body_text; cbn [g_ws0 g_terms g_ws1];
            unfold arch_node; rewrite text_group_node; reflexivity|].
  f_equal. induction (l_profs r) as [|[w g] ps IH]; [reflexivity|]. cbn [map flat_map fst snd]. rewrite texts_app, IH. f_equal.
  unfold prof_part. cbn [fst snd]. rewrite texts_app, texts_wtrees, texts_one. unfold prof_text, group_text, group_body_text. cbn [g_ws0 g_terms g_ws1].
  unfold prof_node. rewrite text_group_node. reflexivity.
Qed.

Lemma nalts_text alts : forall prev extra,
  rels_text (fst (nalts prev alts extra)) (snd (nalts prev alts extra)) =
  text (lrel_tree prev) ++ texts (flat_map alt_part alts) ++ extra.
Proof.
  induction alts as [|[[w1 w2] r] rest IH]; intros prev extra; cbn [nalts].
  - cbn [fst snd rels_text flat_map]. now rewrite app_nil_r, rel_text_nrel.
  - specialize (IH r extra). destruct (nalts r rest extra) as [r' more]. cbn [fst snd rels_text flat_map] in *.
    rewrite rel_text_nrel, IH. rewrite texts_app. rewrite (alt_part_eq w1 w2 r).
    rewrite !texts_app, texts_wtrees, texts_cons, texts_wtrees, texts_one. cbn [t_pipe text].
    rewrite <- !app_assoc. cbn [app]. rewrite <- ?app_assoc. reflexivity.
Qed.
Lemma item_text_nentry e extra : item_text (nentry e extra) = text (lentry_tree e) ++ extra.
Proof.
  unfold nentry. pose proof (nalts_text (e_alts e) (e_first e) (wstext (e_trail e) ++ extra)) as H.
  destruct (nalts (e_first e) (e_alts e) (wstext (e_trail e) ++ extra)) as [r alts]. cbn [fst snd item_text] in *. rewrite H.
  unfold lentry_tree. rewrite text_node. unfold lentry_children. rewrite texts_cons, texts_app, texts_wtrees.
  now rewrite <- !app_assoc.
Qed.

(* ------------------------------------------------------------------ norm: the shape of the segments *)
Definition comma_free (l : lroot) : bool := forallb (fun x => negb (is_rc x)) l.
Definition seg_good (need : bool) (sg : lroot) : Prop := comma_free sg = true /\ exists s, sep_run need sg = Some s.

Lemma segments_cons x r : is_rc x = false ->
  exists s ss, segments r = s :: ss /\ segments (x :: r) = (x :: s) :: ss.
Proof.
  intros Hx. assert (Hne : exists s ss, segments r = s :: ss).
  { destruct r as [|y r']; [now exists [], []|]. cbn [segments]. destruct y; try (destruct (segments r'); eauto); eauto. }
  destruct Hne as (s & ss & E). exists s, ss. split; [exact E|]. destruct x; try discriminate; cbn [segments]; now rewrite E.
Qed.
Lemma segments_good l : forall need s, sep_run need l = Some s ->
  exists s0 ss, segments l = s0 :: ss /\ seg_good need s0 /\ Forall (seg_good false) ss.
Proof.
  induction l as [|x r IH]; intros need s H.
  - exists [], []. repeat split; eauto.
  - destruct x as [w| |e|seg segs].
    + cbn [sep_run] in H. destruct (IH _ _ H) as (s0 & ss & E & (C & s1 & G) & F).
      destruct (segments_cons (RW w) r eq_refl) as (s0' & ss' & E1 & E2). rewrite E in E1. injection E1 as <- <-.
      exists (RW w :: s0), ss. repeat split; auto. exists s1. exact G.
    + cbn [sep_run] in H. destruct (IH _ _ H) as (s0 & ss & E & G & F).
      exists [], (s0 :: ss). cbn [segments]. rewrite E. repeat split; cbn [sep_run]; eauto.
    + cbn [sep_run] in H. destruct need; [discriminate|]. destruct (IH _ _ H) as (s0 & ss & E & (C & s1 & G) & F).
      destruct (segments_cons (RE e) r eq_refl) as (s0' & ss' & E1 & E2). rewrite E in E1. injection E1 as <- <-.
      exists (RE e :: s0), ss. repeat split; auto. exists s1. exact G.
    + cbn [sep_run] in H. destruct need; [discriminate|]. destruct (IH _ _ H) as (s0 & ss & E & (C & s1 & G) & F).
      destruct (segments_cons (RS seg segs) r eq_refl) as (s0' & ss' & E1 & E2). rewrite E in E1. injection E1 as <- <-.
      exists (RS seg segs :: s0), ss. repeat split; auto. exists s1. exact G.
Qed.

(* a good segment: white space, then nothing or one item followed by white space only *)
Lemma take_ws_text l : texts (map rt l) = fst (take_ws l) ++ texts (map rt (snd (take_ws l))).
Proof.
  induction l as [|x r IH]; [reflexivity|]. destruct x as [w| | |]; try reflexivity.
  cbn [take_ws]. destruct (take_ws r) as [s r'] eqn:E. cbn [fst snd map relem_tree] in *. rewrite texts_cons, IH.
  destruct w as [[|] x]; cbn [wtree wtext text]; now rewrite app_assoc.
Qed.
Lemma take_ws_rest_not_rw l w r : snd (take_ws l) <> RW w :: r.
Proof.
  induction l as [|x l' IH]; [discriminate|]. destruct x; try discriminate.
  cbn [take_ws]. destruct (take_ws l') as [s r'] eqn:E. exact IH.
Qed.
Lemma take_ws_all_ws l : forallb is_rw l = true -> snd (take_ws l) = [].
Proof.
  induction l as [|x r IH]; [reflexivity|]. cbn [forallb]. intros H. andb_hyps. destruct x; try discriminate.
  cbn [take_ws]. specialize (IH H0). destruct (take_ws r). exact IH.
Qed.
Lemma take_ws_good need l : seg_good need l -> seg_good need (snd (take_ws l)).
Proof.
  induction l as [|x r IH]; [auto|]. intros (C & s & G). destruct x; try (split; eauto; fail).
  cbn [take_ws]. destruct (take_ws r) as [w' r'] eqn:E. cbn [snd] in *. apply IH. cbn [comma_free forallb sep_run] in *. andb_hyps. split; eauto.
Qed.
Lemma after_item_all_ws r : comma_free r = true -> (exists s, sep_run true r = Some s) -> forallb is_rw r = true.
Proof.
  induction r as [|x r IH]; [reflexivity|]. cbn [comma_free forallb]. intros C (s & G). andb_hyps.
  destruct x; try discriminate. cbn [sep_run is_rw andb] in *. apply IH; eauto.
Qed.
Inductive seg_shape : lroot -> Prop :=
| shape_empty : seg_shape []
| shape_item x r : is_item x = true -> forallb is_rw r = true -> seg_shape (x :: r).
Lemma good_shape sg : seg_good false sg -> seg_shape (snd (take_ws sg)).
Proof.
  intros H. apply take_ws_good in H. destruct H as (C & s & G).
  destruct (snd (take_ws sg)) as [|x r] eqn:E; [constructor|].
  destruct x as [w| |e|seg segs].
  - exfalso. eapply take_ws_rest_not_rw. exact E.
  - discriminate.
  - constructor; [reflexivity|]. cbn [comma_free forallb sep_run] in *. andb_hyps. apply after_item_all_ws; eauto.
  - constructor; [reflexivity|]. cbn [comma_free forallb sep_run] in *. andb_hyps. apply after_item_all_ws; eauto.
Qed.

Lemma nseg_text sg : seg_good false sg -> fst (nseg sg) ++ item_text (snd (nseg sg)) = texts (map rt sg).
Proof.
  intros H. pose proof (good_shape sg H) as Hs. rewrite (take_ws_text sg). unfold nseg.
  destruct (take_ws sg) as [w rest]. cbn [fst snd] in *. f_equal.
  destruct Hs as [|x r Hx Hr]; [reflexivity|]. pose proof (take_ws_text r) as Hr'. rewrite (take_ws_all_ws r Hr) in Hr'. cbn [map] in Hr'.
  rewrite texts_nil, app_nil_r in Hr'.
  destruct x as [w0| |e|seg segs]; try discriminate; cbn [nitem map relem_tree]; rewrite texts_cons, Hr'.
  - apply item_text_nentry.
  - cbn [item_text]. now rewrite text_subst_node.
Qed.

(* the text of the whole *)
Lemma items_text_flat more : forall i,
  items_text i more = item_text i ++ flat_map (fun wi => 44%N :: fst wi ++ item_text (snd wi)) more.
Proof.
  induction more as [|[w i'] more IH]; intros i; cbn [items_text flat_map]; [reflexivity|]. rewrite IH. cbn [fst snd app].
  now rewrite <- ?app_assoc.
Qed.
Lemma segments_text l : forall s0 ss, segments l = s0 :: ss ->
  texts (map rt l) = texts (map rt s0) ++ flat_map (fun sg => 44%N :: texts (map rt sg)) ss.
Proof.
  induction l as [|x r IH]; intros s0 ss E.
  - cbn in E. injection E as <- <-. reflexivity.
  - destruct (is_rc x) eqn:Ex.
    + destruct x; try discriminate. cbn [segments] in E. injection E as <- <-.
      destruct (segments r) as [|s1 ss1] eqn:E1.
      * exfalso. destruct r as [|y r']; [discriminate|]. cbn [segments] in E1. destruct y; try discriminate; destruct (segments r'); discriminate.
      * cbn [map relem_tree flat_map]. rewrite texts_cons, (IH _ _ eq_refl). reflexivity.
    + destruct (segments_cons x r Ex) as (s & ss' & E1 & E2). rewrite E2 in E. injection E as <- <-.
      cbn [map]. rewrite !texts_cons, (IH _ _ E1). now rewrite app_assoc.
Qed.

Theorem rrender_norm b l : lwf b l = true -> rrender (norm l) = text (ltree l).
Proof.
  intros H. destruct (lwf_split _ _ H) as (_ & s & Hs). destruct (segments_good l false s Hs) as (s0 & ss & E & G0 & G).
  unfold ltree. rewrite text_node, (segments_text l s0 ss E). unfold norm. rewrite E. cbn [map].
  destruct (nseg s0) as [w i] eqn:E0. unfold rrender. cbn [f_lead f_first f_rest]. rewrite items_text_flat, app_assoc.
  pose proof (nseg_text s0 G0) as H0. rewrite E0 in H0. cbn [fst snd] in H0. rewrite H0. f_equal.
  clear E. induction G as [|sg ss' Hg _ IH]; [reflexivity|]. cbn [map flat_map]. rewrite IH. now rewrite (nseg_text sg Hg).
Qed.

(* ------------------------------------------------------------------ norm: well-formed *)
Lemma nrel_ok r extra : lrel_ok r = true -> ws_ok extra = true -> wf_rel (nrel r extra) = true.
Proof.
  unfold lrel_ok, wf_rel, nrel. intros H He. andb_hyps. cbn [r_name r_qual r_ver r_archs r_profs r_trail]. andb_goal; auto.
  - destruct (l_qual r) as [[w q]|]; [|reflexivity]. cbn [inner_ok option_map opt_ok fst snd] in *. andb_hyps.
    match goal with Hq : qual_in_ok q = true |- _ => unfold qual_in_ok in Hq end. andb_hyps.
    unfold qual_ok. cbn [q_ws0 q_ws1 q_name]. rewrite wstext_ok by assumption. now andb_goal.
  - destruct (l_ver r) as [[w v]|]; [|reflexivity]. cbn [inner_ok option_map opt_ok fst snd] in *. andb_hyps.
    match goal with Hq : vclause_in_ok v = true |- _ => unfold vclause_in_ok in Hq end. andb_hyps.
    unfold vclause_ok. cbn [v_ws0 v_ws1 v_ws2 v_ws3 v_epoch v_ver v_more]. rewrite wstext_ok by assumption. now andb_goal.
  - destruct (l_archs r) as [[w g]|]; [|reflexivity]. cbn [inner_ok option_map opt_ok fst snd] in *. andb_hyps.
    match goal with Hq : group_in_ok g = true |- _ => unfold group_in_ok in Hq end. andb_hyps.
    unfold group_ok. cbn [g_ws0 g_terms g_ws1]. rewrite wstext_ok by assumption. now andb_goal.
  - rewrite forallb_forall in *. intros x Hx. apply in_map_iff in Hx as ([w g] & <- & Hin).
    match goal with Hq : forall x, In x (l_profs r) -> _ |- _ => specialize (Hq _ Hin) end. cbn [fst snd] in *.
    andb_hyps. match goal with Hq : group_in_ok g = true |- _ => unfold group_in_ok in Hq end. andb_hyps.
    unfold group_ok. cbn [g_ws0 g_terms g_ws1]. rewrite wstext_ok by assumption. now andb_goal.
  - unfold ws_ok in *. rewrite forallb_app. andb_goal; auto. now apply wstext_ok.
Qed.
Lemma nalts_ok alts : forall prev extra, lrel_ok prev = true -> forallb alt_ok alts = true -> ws_ok extra = true ->
  wf_rel (fst (nalts prev alts extra)) = true /\ forallb wf_alt (snd (nalts prev alts extra)) = true.
Proof.
  induction alts as [|[[w1 w2] r] rest IH]; intros prev extra Hp Ha He; cbn [nalts].
  - cbn [fst snd forallb]. split; [now apply nrel_ok|reflexivity].
  - cbn [forallb] in Ha. apply andb_prop in Ha as [Ha1 Ha2]. unfold alt_ok in Ha1. cbn [fst snd] in Ha1.
    apply andb_prop in Ha1 as [Ha1 Hr]. apply andb_prop in Ha1 as [Hw1 Hw2].
    destruct (IH r extra Hr Ha2 He) as [I1 I2]. destruct (nalts r rest extra) as [r' more]. cbn [fst snd forallb] in *.
    split; [apply nrel_ok; [exact Hp|now apply wstext_ok]|]. unfold wf_alt at 1. cbn [fst snd]. rewrite (wstext_ok _ Hw2), I1, I2. reflexivity.
Qed.
Lemma take_ws_ok b l : forallb (relem_ok b) l = true -> ws_ok (fst (take_ws l)) = true /\ forallb (relem_ok b) (snd (take_ws l)) = true.
Proof.
  induction l as [|x r IH]; [auto|]. intros H. destruct x as [w| | |]; try (split; [reflexivity|exact H]).
  cbn [forallb relem_ok] in H. apply andb_prop in H as [Hw0 Hr]. destruct (IH Hr) as [I1 I2]. cbn [take_ws]. destruct (take_ws r) as [s r']. cbn [fst snd] in *.
  split; [|exact I2]. unfold ws_ok in *. rewrite forallb_app. andb_goal; auto.
  pose proof (wstext_ok [w]) as Hw. unfold wsl_ok, ws_ok in Hw. cbn [forallb wstext flat_map] in Hw. rewrite app_nil_r, Hw0 in Hw. now apply Hw.
Qed.
Lemma nentry_ok b e extra : lentry_ok e = true -> ws_ok extra = true -> wf_item b (nentry e extra) = true.
Proof.
  intros H He. rewrite lentry_ok_eq in H. apply andb_prop in H as [H Ht]. apply andb_prop in H as [Hf Ha]. unfold nentry.
  destruct (nalts_ok (e_alts e) (e_first e) (wstext (e_trail e) ++ extra) Hf Ha) as [I1 I2].
  { unfold ws_ok in *. rewrite forallb_app. andb_goal; auto. now apply wstext_ok. }
  destruct (nalts (e_first e) (e_alts e) (wstext (e_trail e) ++ extra)) as [r alts]. cbn [fst snd wf_item] in *. now rewrite I1, I2.
Qed.
Lemma nseg_ok b sg : forallb (relem_ok b) sg = true -> wf_more b (nseg sg) = true.
Proof.
  intros H. destruct (take_ws_ok b sg H) as [H1 H2]. unfold nseg. destruct (take_ws sg) as [w rest]. cbn [fst snd] in *.
  unfold wf_more. cbn [fst snd]. rewrite H1. cbn [andb].
  destruct rest as [|x r]; [reflexivity|]. cbn [forallb] in H2. apply andb_prop in H2 as [Hx Hr]. destruct (take_ws_ok b r Hr) as [H3 _].
  destruct x as [w0| |e|seg segs]; try reflexivity; cbn [nitem relem_ok] in *.
  - now apply nentry_ok.
  - cbn [wf_item]. andb_hyps. andb_goal; auto.
Qed.
Lemma segments_forall (p : relem -> bool) l : forallb p l = true -> Forall (fun sg => forallb p sg = true) (segments l).
Proof.
  induction l as [|x r IH]; [repeat constructor|]. cbn [forallb]. intros H. apply andb_prop in H as [Hx H0]. specialize (IH H0).
  destruct (is_rc x) eqn:Ex.
  - destruct x; try discriminate. cbn [segments]. constructor; [reflexivity|exact IH].
  - destruct (segments_cons x r Ex) as (s & ss & E1 & E2). rewrite E2. rewrite E1 in IH. inversion IH; subst.
    constructor; [|assumption]. cbn [forallb]. now andb_goal.
Qed.
Theorem wf_norm b l : lwf b l = true -> wf_rfield b (norm l) = true.
Proof.
  intros H. destruct (lwf_split _ _ H) as (Hok & _). pose proof (segments_forall _ _ Hok) as HF.
  unfold norm. destruct (segments l) as [|s0 ss]; [reflexivity|]. inversion HF as [|? ? H0 Hs]; subst. cbn [map].
  pose proof (nseg_ok b s0 H0) as Hn. destruct (nseg s0) as [w i]. unfold wf_more in Hn. cbn [fst snd] in Hn. andb_hyps.
  unfold wf_rfield. cbn [f_lead f_first f_rest]. andb_goal; auto.
  clear HF. induction Hs as [|sg ss' Hsg _ IH]; [reflexivity|]. cbn [map forallb]. now rewrite (nseg_ok b sg Hsg), IH.
Qed.

(* ------------------------------------------------------------------ norm: the same content *)
Lemma rel_content_nrel r extra : rel_content (nrel r extra) = lrel_content r.
Proof.
  unfold rel_content, nrel, lrel_content. cbn [r_name r_qual r_ver r_archs r_profs]. f_equal.
  - now destruct (l_qual r) as [[w q]|].
  - destruct (l_ver r) as [[w v]|]; [|reflexivity]. reflexivity.
  - now destruct (l_archs r) as [[w g]|].
  - rewrite map_map. reflexivity.
Qed.
Lemma nalts_content alts : forall prev extra,
  rel_content (fst (nalts prev alts extra)) :: map (fun wr => rel_content (snd wr)) (snd (nalts prev alts extra))
  = lrel_content prev :: map (fun a => lrel_content (snd a)) alts.
Proof.
  induction alts as [|[[w1 w2] r] rest IH]; intros prev extra; cbn [nalts].
  - cbn [fst snd map]. now rewrite rel_content_nrel.
  - specialize (IH r extra). destruct (nalts r rest extra) as [r' more]. cbn [fst snd map] in *. now rewrite rel_content_nrel, IH.
Qed.
Lemma item_entries_nentry e extra : item_entries (nentry e extra) = [lentry_content e] /\ item_substvars (nentry e extra) = [].
Proof.
  unfold nentry. pose proof (nalts_content (e_alts e) (e_first e) (wstext (e_trail e) ++ extra)) as H.
  destruct (nalts (e_first e) (e_alts e) (wstext (e_trail e) ++ extra)) as [r alts]. cbn [fst snd item_entries item_substvars] in *.
  now rewrite H.
Qed.
Lemma all_ws_content r : forallb is_rw r = true -> flat_map relem_entries r = [] /\ flat_map relem_substvars r = [].
Proof. induction r as [|x r IH]; [auto|]. cbn [forallb]. intros H. andb_hyps. destruct x; try discriminate. now apply IH. Qed.
Lemma take_ws_content l : flat_map relem_entries l = flat_map relem_entries (snd (take_ws l)) /\
                          flat_map relem_substvars l = flat_map relem_substvars (snd (take_ws l)).
Proof.
  induction l as [|x r IH]; [auto|]. destruct x; try (split; reflexivity). cbn [take_ws]. destruct (take_ws r) as [s r']. exact IH.
Qed.
Lemma nseg_content sg : seg_good false sg ->
  item_entries (snd (nseg sg)) = flat_map relem_entries sg /\ item_substvars (snd (nseg sg)) = flat_map relem_substvars sg.
Proof.
  intros H. pose proof (good_shape sg H) as Hs. destruct (take_ws_content sg) as [-> ->]. unfold nseg.
  destruct (take_ws sg) as [w rest]. cbn [fst snd] in *.
  destruct Hs as [|x r Hx Hr]; [auto|]. destruct (all_ws_content r Hr) as [R1 R2].
  destruct x as [w0| |e|seg segs]; try discriminate; cbn [nitem flat_map relem_entries relem_substvars]; rewrite R1, R2.
  - apply item_entries_nentry.
  - auto.
Qed.
Lemma segments_content l : forall s0 ss, segments l = s0 :: ss ->
  flat_map relem_entries l = flat_map (flat_map relem_entries) (s0 :: ss) /\
  flat_map relem_substvars l = flat_map (flat_map relem_substvars) (s0 :: ss).
Proof.
  induction l as [|x r IH]; intros s0 ss E.
  - cbn in E. injection E as <- <-. auto.
  - destruct (is_rc x) eqn:Ex.
    + destruct x; try discriminate. cbn [segments] in E. injection E as <- <-.
      destruct (segments r) as [|s1 ss1] eqn:E1.
      * exfalso. destruct r as [|y r']; [discriminate|]. cbn [segments] in E1. destruct y; try discriminate; destruct (segments r'); discriminate.
      * destruct (IH _ _ eq_refl) as [I1 I2]. cbn [flat_map relem_entries relem_substvars app] in *. auto.
    + destruct (segments_cons x r Ex) as (s & ss' & E1 & E2). rewrite E2 in E. injection E as <- <-.
      destruct (IH _ _ E1) as [I1 I2]. cbn [flat_map] in *. rewrite I1, I2, <- !app_assoc. auto.
Qed.
Theorem rcontent_norm b l : lwf b l = true -> rcontent (norm l) = lcontent l.
Proof.
  intros H. destruct (lwf_split _ _ H) as (_ & s & Hs). destruct (segments_good l false s Hs) as (s0 & ss & E & G0 & G).
  unfold lcontent. destruct (segments_content l s0 ss E) as [-> ->]. unfold norm. rewrite E. cbn [map].
  destruct (nseg_content s0 G0) as [H1 H2]. destruct (nseg s0) as [w i]. cbn [snd] in *.
  unfold rcontent, f_items. cbn [f_first f_rest flat_map]. rewrite H1, H2. rewrite map_map.
  assert (HG : flat_map item_entries (map (fun x => snd (nseg x)) ss) = flat_map (flat_map relem_entries) ss /\
               flat_map item_substvars (map (fun x => snd (nseg x)) ss) = flat_map (flat_map relem_substvars) ss).
  { clear E. induction G as [|sg ss' Hg _ IH]; [auto|]. destruct IH as [I1 I2]. destruct (nseg_content sg Hg) as [K1 K2].
    cbn [map flat_map]. now rewrite I1, I2, K1, K2. }
  destruct HG as [-> ->]. reflexivity.
Qed.
