(* Lemmas about RelLive.v (C11), part 4: the bridges to C10's well-formed fields (RelGrammar.v).
   [live_of f] is a live layout with exactly the tree, the content and the well-formedness of f;
   [norm l] is a well-formed field with exactly the text and the content of the live layout l. *)
From V.model Require Import Base RelLex RelParse RelAcc RelGrammar.
From V.model Require Import RelEdit RelEditSpec RelEditTree RelLive.
From V.proofs Require Import BaseP RelLexP RelEditP RelEditStP RelEditTreeP RelGrammarParseP RelGrammarAccP.
From V.proofs Require Import RelLiveP RelLiveStepP RelLiveWfP.
Set Default Timeout 60.

(* ------------------------------------------------------------------ white space slots *)
Lemma wtrees_wsl_of s : wtrees (wsl_of s) = ws_elems s.
Proof.
  unfold wtrees, wsl_of, ws_elems, elems. rewrite map_map. pose proof (ws_toks_kinds s) as H.
  induction H as [|[k x] r Hk _ IH]; [reflexivity|]. cbn [map fst snd]. rewrite IH. f_equal.
  cbn [fst] in Hk. destruct k; try discriminate; reflexivity.
Qed.
Lemma rttext_ws_toks s : rttext (ws_toks s) = s.
Proof.
  unfold rttext. induction s as [|c r IH]; [reflexivity|]. cbn [ws_toks]. destruct (c =? 10)%N.
  - cbn [map concat snd app]. now rewrite IH.
  - destruct (ws_toks r) as [|[k w] ts]; [cbn in *; now subst r|].
    destruct k; cbn [map concat snd app] in *; now rewrite <- IH.
Qed.
Lemma texts_ws_elems s : texts (ws_elems s) = s.
Proof. unfold ws_elems. now rewrite texts_elems, rttext_ws_toks. Qed.
Lemma wstext_wsl_of s : wstext (wsl_of s) = s.
Proof.
  rewrite <- (rttext_ws_toks s) at 2. unfold wstext, wsl_of, rttext. rewrite flat_map_concat_map, map_map. f_equal.
  apply map_ext. intros [k x]. now destruct k.
Qed.
Lemma texts_wtrees w : texts (wtrees w) = wstext w.
Proof. induction w as [|[[|] s] r IH]; [reflexivity| |]; cbn [wtrees map wstext flat_map]; rewrite texts_cons; now f_equal. Qed.
Lemma map_rt_rws s : map rt (rws s) = ws_elems s.
Proof. unfold rws. rewrite map_map. exact (wtrees_wsl_of s). Qed.

(* a slot of well-formed white space is well-formed tokens *)
Lemma ws_toks_ok s : ws_ok s = true -> wsl_ok (wsl_of s) = true.
Proof.
  unfold wsl_ok, wsl_of. induction s as [|c r IH]; [reflexivity|]. cbn [ws_ok forallb]. intros H. andb_hyps.
  specialize (IH H0). cbn [ws_toks]. destruct (c =? 10)%N eqn:Ec.
  - cbn [map forallb fst snd wtok_ok]. apply N.eqb_eq in Ec. subst c. now rewrite IH.
  - assert (Hc : ((c =? 32) || (c =? 9))%N = true).
    { unfold is_fws in H. rewrite Ec, orb_false_r in H. exact H. }
    destruct (ws_toks r) as [|[k w] ts]; [cbn; now rewrite Hc|].
    destruct k; cbn [map forallb fst snd wtok_ok nonempty] in *; rewrite ?Hc; cbn [andb]; try exact IH.
    andb_hyps. andb_goal; auto.
Qed.
Lemma wstext_ok w : wsl_ok w = true -> ws_ok (wstext w) = true.
Proof.
  unfold wsl_ok, ws_ok. induction w as [|[[|] s] r IH]; [reflexivity| |]; cbn [forallb wstext flat_map wtext wtok_ok]; intros H; andb_hyps;
    rewrite forallb_app; andb_goal; auto.
  - unfold str_eqb in H. destruct s as [|c [|c' s']]; try discriminate; [destruct (N.eqb_spec c 10); [subst; reflexivity|]|].
    + cbn in H. destruct (c =? 10)%N eqn:E; [apply N.eqb_eq in E; contradiction|discriminate].
    + cbn in H. destruct (c =? 10)%N; discriminate.
  - rewrite forallb_forall in *. intros c Hc. specialize (H1 c Hc). unfold is_fws. apply orb_prop in H1 as [->| ->]; now rewrite ?orb_true_r.
Qed.

(* ------------------------------------------------------------------ live_of: the same tree *)
Lemma part_of {A} (f : A -> rtree) (ws0 : A -> str) (o : option A) :
  part f (option_map (fun a => (wsl_of (ws0 a), a)) o) = opt_elems (fun a => ws_elems (ws0 a) ++ [f a]) o.
Proof. destruct o as [a|]; [|reflexivity]. cbn [option_map part opt_elems]. now rewrite wtrees_wsl_of. Qed.
Lemma profs_of ps : flat_map prof_part (map (fun g => (wsl_of (g_ws0 g), g)) ps) = flat_map prof_elems ps.
Proof.
  induction ps as [|g r IH]; [reflexivity|]. cbn [map flat_map]. rewrite IH. unfold prof_part, prof_elems. cbn [fst snd].
  now rewrite wtrees_wsl_of.
Qed.
Lemma lrel_tree_of r last : lrel_tree (lrel_of r last) = rel_tree r last.
Proof.
  unfold lrel_tree, rel_tree, lrel_children, lrel_of. cbn [l_name l_qual l_ver l_archs l_profs l_trail]. f_equal. f_equal.
  rewrite (part_of qual_node q_ws0), (part_of vnode v_ws0), (part_of arch_node g_ws0), profs_of.
  f_equal. f_equal. f_equal. f_equal. destruct (owns_trail r last); [apply wtrees_wsl_of|reflexivity].
Qed.
Definition last_flag {A} (alts : list A) (last : bool) : bool := match alts with [] => last | _ => false end.
Lemma rels_elems_of alts : forall r last,
  rels_elems r alts last =
  lrel_tree (lrel_of r (last_flag alts last)) :: flat_map alt_part (fst (lalts_of r alts last)) ++ wtrees (snd (lalts_of r alts last)).
Proof.
  induction alts as [|[w r'] alts' IH]; intros r last; cbn [rels_elems lalts_of last_flag].
  - cbn [fst snd flat_map app]. rewrite lrel_tree_of. f_equal. destruct last; [apply eq_sym, wtrees_wsl_of|reflexivity].
  - rewrite (IH r' last). destruct (lalts_of r' alts' last) as [rest trail]. cbn [fst snd flat_map].
    f_equal; [symmetry; apply lrel_tree_of|].
    unfold alt_part. cbn [fst snd]. rewrite !wtrees_wsl_of. fold (last_flag alts' last).
    rewrite <- !app_assoc. cbn [app]. rewrite <- !app_assoc. reflexivity.
Qed.
Lemma lentry_tree_of r alts last : lentry_tree (lentry_of r alts last) = Node ENTRY (rels_elems r alts last).
Proof.
  unfold lentry_tree, lentry_of. rewrite rels_elems_of. destruct (lalts_of r alts last) as [la trail].
  reflexivity.
Qed.
Lemma litem_tree_of i last : map rt (litem_of i last) = item_elems i last.
Proof.
  destruct i as [r alts|seg segs trail|]; cbn [litem_of item_elems map relem_tree]; [| |reflexivity].
  - now rewrite lentry_tree_of, map_rt_rws.
  - now rewrite map_rt_rws.
Qed.
Lemma litems_tree_of more : forall i, map rt (litems_of i more) = items_elems i more.
Proof.
  induction more as [|[w i'] more IH]; intros i; cbn [litems_of items_elems]; rewrite map_app, litem_tree_of; [reflexivity|].
  cbn [map relem_tree]. now rewrite map_app, map_rt_rws, IH.
Qed.
Theorem ltree_live_of f : ltree (live_of f) = rtree_of f.
Proof. unfold ltree, live_of, rtree_of. now rewrite map_app, map_rt_rws, litems_tree_of. Qed.

(* ------------------------------------------------------------------ live_of: the same content *)
Lemma lrel_content_of r last : lrel_content (lrel_of r last) = rel_content r.
Proof.
  unfold lrel_content, lrel_of, rel_content. cbn [l_name l_qual l_ver l_archs l_profs]. f_equal.
  - now destruct (r_qual r).
  - now destruct (r_ver r).
  - now destruct (r_archs r).
  - rewrite map_map. reflexivity.
Qed.
Lemma lalts_content alts : forall r last,
  map (fun a => lrel_content (snd a)) (fst (lalts_of r alts last)) = map (fun wr => rel_content (snd wr)) alts.
Proof.
  induction alts as [|[w r'] alts' IH]; intros r last; [reflexivity|]. cbn [lalts_of]. specialize (IH r' last).
  destruct (lalts_of r' alts' last) as [rest trail]. cbn [fst snd map] in *. now rewrite IH, lrel_content_of.
Qed.
Lemma lentry_content_of r alts last :
  lentry_content (lentry_of r alts last) = rel_content r :: map (fun wr => rel_content (snd wr)) alts.
Proof.
  unfold lentry_of. pose proof (lalts_content alts r last) as H. destruct (lalts_of r alts last) as [la trail].
  unfold lentry_content. cbn [e_first e_alts fst] in *. now rewrite lrel_content_of, H.
Qed.
Lemma rws_entries s : flat_map relem_entries (rws s) = [].
Proof. unfold rws. induction (wsl_of s) as [|a l IHl]; [reflexivity|]. exact IHl. Qed.
Lemma rws_substs s : flat_map relem_substvars (rws s) = [].
Proof. unfold rws. induction (wsl_of s) as [|a l IHl]; [reflexivity|]. exact IHl. Qed.
Lemma litem_content i last :
  flat_map relem_entries (litem_of i last) = item_entries i /\ flat_map relem_substvars (litem_of i last) = item_substvars i.
Proof.
  destruct i as [r alts|seg segs trail|]; cbn [litem_of item_entries item_substvars flat_map relem_entries relem_substvars app].
  - now rewrite rws_entries, rws_substs, lentry_content_of.
  - now rewrite rws_entries, rws_substs.
  - auto.
Qed.
Lemma litems_content more : forall i,
  flat_map relem_entries (litems_of i more) = flat_map item_entries (i :: map snd more) /\
  flat_map relem_substvars (litems_of i more) = flat_map item_substvars (i :: map snd more).
Proof.
  induction more as [|[w i'] more IH]; intros i; cbn [litems_of map snd]; rewrite !flat_map_app.
  - destruct (litem_content i (is_nil (@nil (str * item)))) as [-> ->]; cbn [flat_map]. now rewrite !app_nil_r.
  - destruct (litem_content i (is_nil ((w, i') :: more))) as [-> ->]; cbn [flat_map].
    destruct (IH i') as [H1 H2]. cbn [relem_entries relem_substvars app]. rewrite !flat_map_app, rws_entries, rws_substs, H1, H2.
    split; reflexivity.
Qed.
Theorem lcontent_live_of f : lcontent (live_of f) = rcontent f.
Proof.
  unfold lcontent, live_of, rcontent, f_items. rewrite !flat_map_app, rws_entries, rws_substs.
  destruct (litems_content (f_rest f) (f_first f)) as [-> ->]. reflexivity.
Qed.
