(* Lemmas about RelEdit.v (C11), part 9: operands obtained by parsing (Entry::from_str,
   Relation::from_str): the operand handle points INTO the tree the text parsed to; an edit that
   attaches the operand detaches it from that tree first.  The register machine computes
   RelEditTree.tt_op for such operands, on any tree. *)
From V.model Require Import Base RelLex RelParse RelAcc RelGrammar RelEdit RelEditSpec RelEditTree RelLive.
From V.proofs Require Import BaseP RelEditP RelEditStP RelEditHistP RelEditTreeP RelEditReplaceP RelGrammarAccP.
From V.proofs Require Import RelLiveP.

(* ------------------------------------------------------------------ attaching a child that sits inside another tree *)
Lemma attach_child_sub ts rs pr cr tid ri T p kd cs idx tc rc Tc pc ic C :
  nth_error rs pr = Some (Some (mk_hnd tid p)) -> nth_error rs cr = Some (Some (mk_hnd tc (pc ++ [ic]))) ->
  nth_error ts tid = Some (mk_slot true ri T) -> get_path T p = Some (Node kd cs) ->
  nth_error ts tc = Some (mk_slot true rc Tc) -> get_path Tc (pc ++ [ic]) = Some C -> tid <> tc -> idx <= length cs ->
  exists ts' F,
    runs (m_attach_child pr idx cr) (mk_state ts rs) tt (mk_state ts' (map (option_map F) rs)) /\
    length ts' = S (length ts) /\
    nth_error ts' tid = Some (mk_slot true ri (upd_path T p (fun _ => Node kd (insert_at idx [C] cs)))) /\
    (forall j, j <> tid -> j <> tc -> j < length ts -> nth_error ts' j = nth_error ts j) /\
    F (mk_hnd tc (pc ++ [ic])) = mk_hnd tid (p ++ [idx]) /\
    (forall g, h_tid g < length ts -> h_tid g <> tc -> above tid p g -> F g = g).
Proof.
  intros Hp Hc HT HG HC HGc Hne Hidx.
  pose proof (nth_error_Some_lt _ _ _ HT) as Hlt. pose proof (nth_error_Some_lt _ _ _ HC) as Hlc.
  destruct (detach_h_spec ts rs tc rc Tc pc ic C HC HGc) as (ts1 & R1 & L1 & T1 & N1 & O1).
  set (F1 := rebase_detach tc pc ic (length ts)) in *.
  assert (HT1 : nth_error ts1 tid = Some (mk_slot true ri T)) by (rewrite O1 by (auto; lia); exact HT).
  destruct (attach_h_spec ts1 (map (option_map F1) rs) tid ri T p kd cs idx (length ts) ic C HT1 HG N1 ltac:(lia) Hidx)
    as (ts2 & R2 & L2 & T2 & O2).
  set (F2 := rebase_attach tid p idx (length ts)) in *.
  exists ts2, (fun g => F2 (F1 g)). rewrite <- map_option_map_comp. split; [|split; [|split; [|split; [|split]]]].
  - unfold m_attach_child. rbind; [apply runs_get_reg; exact Hc|].
    rbind; [exact R1|].
    rbind; [apply runs_get_reg; apply (nth_error_map_reg F1 _ _ _ Hp)|].
    unfold F1 at 1. rewrite rebase_detach_other by (cbn; congruence).
    rbind; [apply runs_get_reg; apply (nth_error_map_reg F1 _ _ _ Hc)|].
    unfold F1 at 1. replace (pc ++ [ic]) with (pc ++ ic :: []) by reflexivity. rewrite rebase_detach_at. exact R2.
  - lia.
  - rewrite T2. f_equal. f_equal. eapply upd_path_ext; [exact HG|]. reflexivity.
  - intros j H1 H2 H3. rewrite O2 by lia. apply O1; [congruence|lia].
  - unfold F1. replace (pc ++ [ic]) with (pc ++ ic :: []) by reflexivity. rewrite rebase_detach_at. apply rebase_attach_child.
  - intros g Hg Ht Ha. unfold F1. rewrite rebase_detach_other by exact Ht. unfold F2. apply rebase_attach_above; [lia|exact Ha].
Qed.

Lemma splice_replace_sub ts rs pr cr tid ri T p kd pre x post tc rc Tc pc ic C :
  nth_error rs pr = Some (Some (mk_hnd tid p)) -> nth_error rs cr = Some (Some (mk_hnd tc (pc ++ [ic]))) ->
  nth_error ts tid = Some (mk_slot true ri T) -> get_path T p = Some (Node kd (pre ++ x :: post)) ->
  nth_error ts tc = Some (mk_slot true rc Tc) -> get_path Tc (pc ++ [ic]) = Some C -> tid <> tc ->
  exists ts' F,
    runs (m_splice pr (length pre) (S (length pre)) [cr]) (mk_state ts rs) tt (mk_state ts' (map (option_map F) rs)) /\
    length ts <= length ts' /\
    nth_error ts' tid = Some (mk_slot true ri (upd_path T p (fun _ => Node kd (pre ++ C :: post)))) /\
    F (mk_hnd tc (pc ++ [ic])) = mk_hnd tid (p ++ [length pre]) /\
    (forall g, h_tid g < length ts -> h_tid g <> tc -> above tid p g -> F g = g).
Proof.
  intros Hp Hc HT HG HC HGc Hne.
  pose proof (nth_error_Some_lt _ _ _ HC) as Hlc. pose proof (nth_error_Some_lt _ _ _ HT) as Hlt.
  assert (HGx : get_path T (p ++ [length pre]) = Some x) by (eapply get_path_child; [exact HG|apply nth_error_app_len]).
  destruct (detach_h_spec ts rs tid ri T p _ x HT HGx) as (ts1 & R1 & L1 & T1 & N1 & O1).
  set (F1 := rebase_detach tid p (length pre) (length ts)) in *.
  assert (ET : upd_path T p (fun q => set_children (remove_nth (length pre) (children q)) q)
               = upd_path T p (fun _ => Node kd (pre ++ post))).
  { eapply upd_path_ext; [exact HG|]. cbn [children set_children ekind]. now rewrite remove_nth_app_len. }
  rewrite ET in T1.
  assert (Hp1 : nth_error (map (option_map F1) rs) pr = Some (Some (mk_hnd tid p))).
  { rewrite (nth_error_map_reg F1 _ _ _ Hp). unfold F1. now rewrite rebase_detach_self. }
  assert (Hc1 : nth_error (map (option_map F1) rs) cr = Some (Some (mk_hnd tc (pc ++ [ic])))).
  { rewrite (nth_error_map_reg F1 _ _ _ Hc). unfold F1. now rewrite rebase_detach_other by (cbn; congruence). }
  assert (HC1 : nth_error ts1 tc = Some (mk_slot true rc Tc)) by (rewrite O1 by (auto; lia); exact HC).
  assert (HG1 : get_path (upd_path T p (fun _ => Node kd (pre ++ post))) p = Some (Node kd (pre ++ post)))
    by (now apply get_path_upd_path with (n := Node kd (pre ++ x :: post))).
  destruct (attach_child_sub ts1 (map (option_map F1) rs) pr cr tid ri _ p kd (pre ++ post) (length pre) tc rc Tc pc ic C
              Hp1 Hc1 T1 HG1 HC1 HGc Hne ltac:(rewrite app_length; lia)) as (ts2 & F2 & R2 & L2 & T2 & O2 & S2 & A2).
  exists ts2, (fun g => F2 (F1 g)). rewrite <- map_option_map_comp. split; [|split; [|split; [|split]]].
  - unfold m_splice. rbind; [apply runs_get_reg; exact Hp|]. cbn [h_tid].
    rbind; [eapply runs_get_slot; exact HT|]. cbn [s_mut negb].
    rbind; [eapply runs_children_of; [exact HT|exact HG]|]. cbn [children].
    assert (length pre <? S (length pre) = true) as -> by (apply Nat.ltb_lt; lia).
    assert (length pre <? length (pre ++ x :: post) = true) as -> by (apply Nat.ltb_lt; rewrite app_length; cbn; lia).
    cbn [andb]. unfold child_h. cbn [h_tid h_path].
    rbind; [rbind; [exact R1|]; rdone|].
    cbn [m_attach_all]. rbind; [exact R2|]. rdone.
  - lia.
  - rewrite T2. f_equal. f_equal. rewrite (upd_path_const2 _ _ _ _ _ HG).
    eapply upd_path_ext; [exact HG|]. now rewrite insert_at_app_len.
  - unfold F1. rewrite rebase_detach_other by (cbn; congruence). exact S2.
  - intros g Hg Ht Ha. unfold F1. rewrite rebase_detach_above by exact Ha. apply A2; [lia|exact Ht|exact Ha].
Qed.

(* ------------------------------------------------------------------ the parsed operands *)
Lemma rels_left_last alts : forall r, rels_left r alts true = [].
Proof. induction alts as [|[w r'] alts' IH]; intros r; [reflexivity|]. apply IH. Qed.
Lemma entry_field_children lead r alts :
  children (rtree_of (entry_field lead r alts)) = ws_elems lead ++ [Node ENTRY (rels_elems r alts true)].
Proof.
  unfold rtree_of, entry_field. cbn [children f_lead f_first f_rest items_elems item_elems is_nil].
  rewrite rels_left_last. cbn [ws_elems ws_toks elems map app]. now rewrite ?app_nil_r.
Qed.
Lemma ws_elems_not_entry s : Forall (fun x => is_entry x = false) (ws_elems s).
Proof.
  unfold ws_elems, elems. pose proof (RelGrammarParseP.ws_toks_kinds s) as H. induction H as [|[k x] r Hk _ IH]; [constructor|].
  cbn [map]. constructor; [|exact IH]. reflexivity.
Qed.
Lemma ws_elems_not_relation s : Forall (fun x => is_relation x = false) (ws_elems s).
Proof.
  unfold ws_elems, elems. pose proof (RelGrammarParseP.ws_toks_kinds s) as H. induction H as [|[k x] r Hk _ IH]; [constructor|].
  cbn [map]. constructor; [|exact IH]. reflexivity.
Qed.
Lemma entry_field_positions lead r alts :
  nth_index is_entry 0 (children (rtree_of (entry_field lead r alts))) = Some (length (ws_elems lead)) /\
  nth_index is_entry 1 (children (rtree_of (entry_field lead r alts))) = None.
Proof.
  rewrite entry_field_children. rewrite !nth_index_skip_false by apply ws_elems_not_entry.
  cbn [nth_index]. change (is_entry (Node ENTRY (rels_elems r alts true))) with true. cbn [option_map]. split; [now rewrite Nat.add_0_r|reflexivity].
Qed.

(* ONewEntry 1 (ESParse text): register 3 then points at the entry inside the parsed tree *)
Lemma parse_entry_runs lead r alts ts tid ri T a b c d : wf_rfield false (entry_field lead r alts) = true ->
  nth_error ts tid = Some (mk_slot true ri T) ->
  exists txt,
    runs (run_op fixed (ONewEntry 1 (ESParse (entry_text lead r alts)))) (st5 ts (mk_hnd tid []) a b c d) (4%N, txt)
         (st5 (ts ++ [mk_slot true 0 (rtree_of (entry_field lead r alts))]) (mk_hnd tid []) a b
              (Some (mk_hnd (length ts) ([] ++ [length (ws_elems lead)]))) d) /\
    get_path (rtree_of (entry_field lead r alts)) ([] ++ [length (ws_elems lead)]) = Some (Node ENTRY (rels_elems r alts true)) /\
    length ts <> tid.
Proof.
  intros Hw HT. pose proof (nth_error_Some_lt _ _ _ HT) as Hlt.
  destruct (entry_field_positions lead r alts) as [P0 P1].
  assert (HGe : get_path (rtree_of (entry_field lead r alts)) ([] ++ [length (ws_elems lead)]) = Some (Node ENTRY (rels_elems r alts true))).
  { cbn [app get_path]. rewrite entry_field_children, nth_error_app_len. reflexivity. }
  eexists. split; [|split; [exact HGe|lia]].
  cbn [run_op]. unfold st5. eapply runs_try_build.
  - cbn [build_entry]. unfold entry_parse, entry_text. rbind.
    { unfold lift, runs. rewrite (from_str_rrender _ Hw). reflexivity. }
    rewrite P0, P1. rbind; [apply runs_alloc|]. apply runs_set_reg.
  - cbn [ereg Nat.mul Nat.add set_reg_l child_h h_tid h_path]. unfold reg_text, node_of_reg.
    rbind; [rbind; [apply runs_get_reg; reflexivity|]; eapply runs_node_of; [apply nth_error_app_at|exact HGe]|].
    rdone.
Qed.

Lemma rels_elems_single r : rels_elems r [] true = rel_tree r true :: ws_elems (rel_left r true).
Proof. reflexivity. Qed.
(* ONewRel 1 (RSParse text): register 4 then points at the relation inside the parsed tree *)
Lemma parse_rel_runs lead r ts tid ri T a b c d : wf_rfield false (entry_field lead r []) = true ->
  nth_error ts tid = Some (mk_slot true ri T) ->
  exists txt,
    runs (run_op fixed (ONewRel 1 (RSParse (entry_text lead r [])))) (st5 ts (mk_hnd tid []) a b c d) (4%N, txt)
         (st5 (ts ++ [mk_slot true 0 (rtree_of (entry_field lead r []))]) (mk_hnd tid []) a b c
              (Some (mk_hnd (length ts) ([length (ws_elems lead)] ++ [0])))) /\
    get_path (rtree_of (entry_field lead r [])) ([length (ws_elems lead)] ++ [0]) = Some (rel_tree r true) /\
    length ts <> tid.
Proof.
  intros Hw HT. pose proof (nth_error_Some_lt _ _ _ HT) as Hlt.
  destruct (entry_field_positions lead r []) as [P0 P1].
  assert (HGe : nth_error (children (rtree_of (entry_field lead r []))) (length (ws_elems lead)) = Some (Node ENTRY (rels_elems r [] true))).
  { rewrite entry_field_children, nth_error_app_len. reflexivity. }
  assert (HGr : get_path (rtree_of (entry_field lead r [])) ([length (ws_elems lead)] ++ [0]) = Some (rel_tree r true)).
  { cbn [app get_path]. rewrite HGe. reflexivity. }
  assert (R0 : nth_index is_relation 0 (rels_elems r [] true) = Some 0) by reflexivity.
  assert (R1 : nth_index is_relation 1 (rels_elems r [] true) = None).
  { rewrite rels_elems_single. cbn [nth_index]. change (is_relation (rel_tree r true)) with true. cbn iota.
    rewrite <- (app_nil_r (ws_elems (rel_left r true))).
    rewrite nth_index_skip_false by apply ws_elems_not_relation. reflexivity. }
  eexists. split; [|split; [exact HGr|lia]].
  cbn [run_op]. unfold st5. eapply runs_try_build.
  - cbn [build_relation]. unfold relation_parse, entry_text. rbind.
    { unfold lift, runs. rewrite (from_str_rrender _ Hw). reflexivity. }
    rewrite P0, P1, HGe. cbn [children]. rewrite R0, R1. rbind; [apply runs_alloc|]. apply runs_set_reg.
  - change (rreg 1) with 4. cbn [set_reg_l child_h h_tid h_path app]. unfold reg_text, node_of_reg.
    rbind; [rbind; [apply runs_get_reg; reflexivity|]; eapply runs_node_of; [apply nth_error_app_at|exact HGr]|].
    rdone.
Qed.

(* ------------------------------------------------------------------ replace with such an operand (insert / push / Entry::push: RelEditStP) *)
Lemma replace_runs_sub k pre E post G ts tid ri a b d te re Te pc ic idx :
  nth_error ts tid = Some (mk_slot true ri (Node k (pre ++ E :: post))) ->
  nth_index is_entry idx (pre ++ E :: post) = Some (length pre) ->
  nth_error ts te = Some (mk_slot true re Te) -> get_path Te (pc ++ [ic]) = Some G -> tid <> te ->
  exists ts' a' b' d',
    runs (run_op fixed (OReplace idx 1)) (st5 ts (mk_hnd tid []) a b (Some (mk_hnd te (pc ++ [ic]))) d) (0%N, None)
         (st5 ts' (mk_hnd tid []) a' b' None d') /\
    nth_error ts' tid = Some (mk_slot true ri (Node k (pre ++ G :: post))).
Proof.
  intros HT Hn HE HGe Hne. set (T := Node k (pre ++ E :: post)) in *.
  assert (HG : get_path T [] = Some (Node k (pre ++ E :: post))) by reflexivity.
  pose proof (nth_error_Some_lt _ _ _ HT) as Hlt.
  destruct (splice_replace_sub ts [Some (mk_hnd tid []); a; b; Some (mk_hnd te (pc ++ [ic])); d] 0 3 tid ri T []
              k pre E post te re Te pc ic G eq_refl eq_refl HT HG HE HGe Hne)
    as (ts' & F & R & L & T' & S1 & A).
  exists ts', (option_map F a), (option_map F b), (option_map F d). split.
  - cbn [run_op]. unfold st5. eapply runs_with_reg_some; [reflexivity|].
    rbind; [|rdone]. unfold relations_replace.
    rbind; [apply runs_get_reg; reflexivity|].
    rbind; [eapply runs_children_of; [exact HT|reflexivity]|].
    cbn [s_tree children T]. rewrite Hn. change (ereg 1) with 3.
    rbind; [exact R|]. cbn [map option_map].
    rewrite (A (mk_hnd tid [])) by (cbn [h_tid]; auto using above_root).
    eapply runs_eq; [apply runs_set_reg|reflexivity|]. reflexivity.
  - exact T'.
Qed.

(* ------------------------------------------------------------------ Entry::replace with a parsed relation *)
(* detaching the last children of a node, one by one *)
Lemma detach_last_repeat : forall (ntl : list rtree) ts rs r tr rr' Tr pp kN ncore,
  nth_error rs r = Some (Some (mk_hnd tr pp)) -> nth_error ts tr = Some (mk_slot true rr' Tr) ->
  get_path Tr pp = Some (Node kN (ncore ++ ntl)) ->
  exists ts' F,
    runs (m_repeat (length ntl) (m_detach_last r)) (mk_state ts rs) tt (mk_state ts' (map (option_map F) rs)) /\
    length ts <= length ts' /\
    nth_error ts' tr = Some (mk_slot true rr' (upd_path Tr pp (fun _ => Node kN ncore))) /\
    (forall j, j <> tr -> j < length ts -> nth_error ts' j = nth_error ts j) /\
    (forall g, above tr pp g -> F g = g).
Proof.
  induction ntl as [|x ntl' IH] using rev_ind; intros ts rs r tr rr' Tr pp kN ncore Hr HT HG.
  - exists ts, (fun g => g). rewrite map_option_map_id. cbn [length m_repeat]. rewrite app_nil_r in HG.
    rewrite (upd_path_same _ _ _ HG). split; [rdone|]. repeat split; auto.
  - rewrite app_length. cbn [length]. rewrite Nat.add_1_r. cbn [m_repeat].
    rewrite app_assoc in HG.
    assert (HGx : get_path Tr (pp ++ [length (ncore ++ ntl')]) = Some x) by (eapply get_path_child; [exact HG|apply nth_error_app_len]).
    destruct (detach_h_spec ts rs tr rr' Tr pp _ x HT HGx) as (ts1 & R1 & L1 & T1 & N1 & O1).
    set (F1 := rebase_detach tr pp (length (ncore ++ ntl')) (length ts)) in *.
    assert (ET : upd_path Tr pp (fun q => set_children (remove_nth (length (ncore ++ ntl')) (children q)) q)
                 = upd_path Tr pp (fun _ => Node kN (ncore ++ ntl'))).
    { eapply upd_path_ext; [exact HG|]. cbn [children set_children ekind]. now rewrite remove_nth_app_len, app_nil_r. }
    rewrite ET in T1. set (Tr1 := upd_path Tr pp (fun _ => Node kN (ncore ++ ntl'))) in *.
    assert (Hr1 : nth_error (map (option_map F1) rs) r = Some (Some (mk_hnd tr pp))).
    { rewrite (nth_error_map_reg F1 _ _ _ Hr). unfold F1. now rewrite rebase_detach_self. }
    assert (HG1 : get_path Tr1 pp = Some (Node kN (ncore ++ ntl'))) by (unfold Tr1; now apply get_path_upd_path with (n := Node kN ((ncore ++ ntl') ++ [x]))).
    destruct (IH ts1 (map (option_map F1) rs) r tr rr' Tr1 pp kN ncore Hr1 T1 HG1) as (ts2 & F2 & R2 & L2 & T2 & O2 & A2).
    exists ts2, (fun g => F2 (F1 g)). rewrite <- map_option_map_comp. split; [|split; [|split; [|split]]].
    + rbind; [|exact R2]. unfold m_detach_last. rbind; [apply runs_get_reg; exact Hr|].
      rbind; [eapply runs_children_of; [exact HT|exact HG]|]. cbn [children].
      replace (length ((ncore ++ ntl') ++ [x]) - 1) with (length (ncore ++ ntl')) by (rewrite (app_length (ncore ++ ntl')); cbn; lia).
      unfold child_h. cbn [h_tid h_path]. rbind; [exact R1|]. rdone.
    + lia.
    + rewrite T2. unfold Tr1. now rewrite (upd_path_const2 _ _ _ _ _ HG).
    + intros j H1 H2. rewrite O2 by lia. now apply O1.
    + intros g Ha. unfold F1. rewrite rebase_detach_above by exact Ha. now apply A2.
Qed.

(* moving children to the end of a node that sits inside another tree *)
Lemma attach_all_move_sub : forall (tl : list rtree) crs ts rs pr tid ri T q kO core tr rr' Tr pp kN cs,
  nth_error rs pr = Some (Some (mk_hnd tr pp)) ->
  nth_error ts tid = Some (mk_slot true ri T) -> get_path T q = Some (Node kO (core ++ tl)) ->
  nth_error ts tr = Some (mk_slot true rr' Tr) -> get_path Tr pp = Some (Node kN cs) -> tid <> tr ->
  length crs = length tl ->
  (forall m cr, nth_error crs m = Some cr -> nth_error rs cr = Some (Some (mk_hnd tid (q ++ [length core + m])))) ->
  exists ts' F,
    runs (m_attach_all pr (length cs) crs) (mk_state ts rs) tt (mk_state ts' (map (option_map F) rs)) /\
    length ts <= length ts' /\
    nth_error ts' tid = Some (mk_slot true ri (upd_path T q (fun _ => Node kO core))) /\
    nth_error ts' tr = Some (mk_slot true rr' (upd_path Tr pp (fun _ => Node kN (cs ++ tl)))) /\
    F (mk_hnd tr pp) = mk_hnd tr pp /\
    (forall g, h_tid g < length ts -> h_tid g <> tr -> above tid q g -> F g = g).
Proof.
  induction tl as [|x tl' IH]; intros crs ts rs pr tid ri T q kO core tr rr' Tr pp kN cs Hpr HT HG HR HGr Hne Hlen Hcrs.
  - destruct crs; [|discriminate]. exists ts, (fun g => g). rewrite map_option_map_id. split; [|split; [|split; [|split; [|split]]]]; auto.
    + cbn [m_attach_all]. rdone.
    + rewrite app_nil_r in HG. now rewrite (upd_path_same _ _ _ HG).
    + rewrite app_nil_r. now rewrite (upd_path_same _ _ _ HGr).
  - destruct crs as [|cr crs']; [discriminate|]. cbn [length] in Hlen.
    pose proof (nth_error_Some_lt _ _ _ HT) as Hlt. pose proof (nth_error_Some_lt _ _ _ HR) as Hlr.
    pose proof (Hcrs 0 cr eq_refl) as Hcr. rewrite Nat.add_0_r in Hcr.
    assert (HGx : get_path T (q ++ [length core]) = Some x) by (eapply get_path_child; [exact HG|apply nth_error_app_len]).
    destruct (detach_h_spec ts rs tid ri T q (length core) x HT HGx) as (ts1 & R1 & L1 & T1 & N1 & O1).
    set (F1 := rebase_detach tid q (length core) (length ts)) in *.
    assert (ET : upd_path T q (fun n => set_children (remove_nth (length core) (children n)) n)
                 = upd_path T q (fun _ => Node kO (core ++ tl'))).
    { eapply upd_path_ext; [exact HG|]. cbn [children set_children ekind]. now rewrite remove_nth_app_len. }
    rewrite ET in T1.
    assert (HR1 : nth_error ts1 tr = Some (mk_slot true rr' Tr)) by (rewrite O1 by (auto; lia); exact HR).
    assert (Hne2 : tr <> length ts) by lia.
    destruct (attach_h_spec ts1 (map (option_map F1) rs) tr rr' Tr pp kN cs (length cs) (length ts) (length core) x
                HR1 HGr N1 Hne2 (le_n _)) as (ts2 & R2 & L2 & T2 & O2).
    set (F2 := rebase_attach tr pp (length cs) (length ts)) in *.
    assert (ET2 : upd_path Tr pp (fun n => set_children (insert_at (length cs) [x] (children n)) n)
                  = upd_path Tr pp (fun _ => Node kN (cs ++ [x]))).
    { eapply upd_path_ext; [exact HGr|]. cbn [children set_children ekind]. now rewrite insert_at_end by lia. }
    rewrite ET2 in T2.
    set (T' := upd_path T q (fun _ => Node kO (core ++ tl'))) in *.
    set (Tr' := upd_path Tr pp (fun _ => Node kN (cs ++ [x]))) in *.
    assert (HT2 : nth_error ts2 tid = Some (mk_slot true ri T')) by (rewrite O2 by lia; exact T1).
    assert (HG2 : get_path T' q = Some (Node kO (core ++ tl'))) by (unfold T'; now apply get_path_upd_path with (n := Node kO (core ++ x :: tl'))).
    assert (HGr2 : get_path Tr' pp = Some (Node kN (cs ++ [x]))) by (unfold Tr'; now apply get_path_upd_path with (n := Node kN cs)).
    assert (Fab : forall g, h_tid g < length ts -> h_tid g <> tr -> above tid q g -> F2 (F1 g) = g).
    { intros g Hg Ht Ha. unfold F1. rewrite rebase_detach_above by exact Ha. unfold F2.
      apply rebase_attach_above; [lia|]. now apply above_other. }
    assert (Fr : F2 (F1 (mk_hnd tr pp)) = mk_hnd tr pp).
    { unfold F1. rewrite rebase_detach_other by (cbn; congruence). unfold F2. apply rebase_attach_self. lia. }
    assert (Hpr2 : nth_error (map (option_map F2) (map (option_map F1) rs)) pr = Some (Some (mk_hnd tr pp))).
    { rewrite (nth_error_map_reg F2 _ _ (F1 (mk_hnd tr pp))) by (now apply nth_error_map_reg). f_equal. f_equal. exact Fr. }
    assert (Hcrs2 : forall m cr', nth_error crs' m = Some cr' ->
              nth_error (map (option_map F2) (map (option_map F1) rs)) cr' = Some (Some (mk_hnd tid (q ++ [length core + m])))).
    { intros m cr' Hm. pose proof (Hcrs (S m) cr' Hm) as Hc.
      rewrite (nth_error_map_reg F2 _ _ (F1 (mk_hnd tid (q ++ [length core + S m])))) by (now apply nth_error_map_reg).
      f_equal. f_equal. unfold F1. rewrite rebase_detach_after by lia. unfold F2.
      rewrite rebase_attach_above; [f_equal; f_equal; f_equal; lia|cbn; lia|apply above_other; cbn; congruence]. }
    destruct (IH crs' ts2 (map (option_map F2) (map (option_map F1) rs)) pr tid ri T' q kO core tr rr' Tr' pp kN (cs ++ [x])
                Hpr2 HT2 HG2 T2 HGr2 Hne ltac:(lia) Hcrs2) as (ts3 & F3 & R3 & L3 & T3 & N3 & Fr3 & A3).
    exists ts3, (fun g => F3 (F2 (F1 g))).
    replace (map (option_map (fun g => F3 (F2 (F1 g)))) rs)
      with (map (option_map F3) (map (option_map F2) (map (option_map F1) rs))) by (now rewrite !map_option_map_comp).
    split; [|split; [|split; [|split; [|split]]]].
    + cbn [m_attach_all]. rbind.
      { unfold m_attach_child. rbind; [apply runs_get_reg; exact Hcr|].
        rbind; [exact R1|].
        rbind; [apply runs_get_reg; apply (nth_error_map_reg F1 _ _ _ Hpr)|].
        unfold F1 at 1. rewrite rebase_detach_other by (cbn; congruence).
        rbind; [apply runs_get_reg; apply (nth_error_map_reg F1 _ _ _ Hcr)|].
        unfold F1 at 1. replace (q ++ [length core]) with (q ++ length core :: []) by reflexivity. rewrite rebase_detach_at.
        exact R2. }
      rewrite app_length in R3. cbn [length] in R3. rewrite Nat.add_1_r in R3. exact R3.
    + lia.
    + rewrite T3. unfold T'. now rewrite (upd_path_const2 _ _ _ _ _ HG).
    + rewrite N3. unfold Tr'. rewrite (upd_path_const2 _ _ _ _ _ HGr). now rewrite <- app_assoc.
    + now rewrite Fr, Fr3.
    + intros g Hg Ht Ha. rewrite (Fab g Hg Ht Ha). apply A3; [lia|exact Ht|exact Ha].
Qed.

Lemma ereplace_runs_sub k epre epost pre ocs post ncs j ts tid ri b c tr rr Tp pp pj :
  nth_error ts tid = Some (mk_slot true ri (Node k (epre ++ Node ENTRY (pre ++ Node RELATION ocs :: post) :: epost))) ->
  nth_error ts tr = Some (mk_slot true rr Tp) -> get_path Tp (pp ++ [pj]) = Some (Node RELATION ncs) -> tid <> tr ->
  nth_index is_relation j (pre ++ Node RELATION ocs :: post) = Some (length pre) ->
  ws_prefix_len ocs = 0 -> ws_prefix_len ncs = 0 ->
  exists ts' a' b' c' x,
    runs (run_op fixed (OEReplace 0 j 1))
         (st5 ts (mk_hnd tid []) (Some (mk_hnd tid [length epre])) b c (Some (mk_hnd tr (pp ++ [pj])))) x
         (st5 ts' (mk_hnd tid []) a' b' c' None) /\
    nth_error ts' tid = Some (mk_slot true ri
      (Node k (epre ++ Node ENTRY (pre ++ dressed (Node RELATION ocs) (Node RELATION ncs) :: post) :: epost))).
Proof.
  intros HT HR HGn Hne Hidx Hh Wh.
  set (O := Node RELATION ocs) in *. set (E := Node ENTRY (pre ++ O :: post)) in *.
  set (T := Node k (epre ++ E :: epost)) in *.
  set (ci := length epre) in *. set (oi := length pre) in *. set (pn := pp ++ [pj]) in *.
  set (kt := ws_prefix_len (rev ocs)). set (core := firstn (length ocs - kt) ocs). set (tl := ws_tail ocs).
  assert (Eocs : ocs = core ++ tl) by apply ws_tail_split.
  assert (Hkt : kt <= length ocs) by (unfold kt; rewrite <- (rev_length ocs); apply ws_prefix_len_le).
  assert (Lcore : length core = length ocs - kt) by (unfold core; rewrite firstn_length; lia).
  assert (Ltl : length tl = kt) by (unfold tl, ws_tail; fold kt; rewrite skipn_length; lia).
  set (kn := ws_prefix_len (rev ncs)). set (ncore := firstn (length ncs - kn) ncs). set (ntl := ws_tail ncs).
  assert (Encs : ncs = ncore ++ ntl) by apply ws_tail_split.
  assert (Hkn : kn <= length ncs) by (unfold kn; rewrite <- (rev_length ncs); apply ws_prefix_len_le).
  assert (Lntl : length ntl = kn) by (unfold ntl, ws_tail; fold kn; rewrite skipn_length; lia).
  assert (HGe : get_path T [ci] = Some E) by (cbn [get_path T children]; unfold ci; now rewrite nth_error_app_len).
  assert (HGo : get_path T ([ci] ++ [oi]) = Some O).
  { eapply get_path_child; [exact HGe|]. unfold oi. apply nth_error_app_len. }
  pose proof (nth_error_Some_lt _ _ _ HT) as Hlt. pose proof (nth_error_Some_lt _ _ _ HR) as Hlr.
  set (rs5 := [Some (mk_hnd tid []); Some (mk_hnd tid [ci]); b; c; Some (mk_hnd tr pn)]).
  set (rs6 := rs5 ++ [Some (mk_hnd tid ([ci] ++ [oi]))]).
  (* the new alternative loses its trailing white space *)
  assert (HGn' : get_path Tp pn = Some (Node RELATION (ncore ++ ntl))) by (rewrite HGn; now rewrite <- Encs).
  destruct (detach_last_repeat ntl ts rs6 4 tr rr Tp pn RELATION ncore eq_refl HR HGn')
    as (ts1 & F1 & R1 & L1 & T1 & O1 & A1).
  set (Tp1 := upd_path Tp pn (fun _ => Node RELATION ncore)) in *.
  assert (HGn1 : get_path Tp1 pn = Some (Node RELATION ncore)) by (unfold Tp1; now apply get_path_upd_path with (n := Node RELATION (ncore ++ ntl))).
  assert (HT1 : nth_error ts1 tid = Some (mk_slot true ri T)) by (rewrite O1 by (auto; lia); exact HT).
  assert (F1t : forall p, F1 (mk_hnd tid p) = mk_hnd tid p) by (intros p; apply A1, above_other; cbn; congruence).
  assert (F1r : F1 (mk_hnd tr pn) = mk_hnd tr pn) by apply A1, above_self.
  set (rs6' := [Some (mk_hnd tid []); Some (mk_hnd tid [ci]); option_map F1 b; option_map F1 c; Some (mk_hnd tr pn); Some (mk_hnd tid ([ci] ++ [oi]))]).
  assert (Ers6 : map (option_map F1) rs6 = rs6') by (unfold rs6, rs5, rs6'; cbn [app map option_map]; now rewrite !F1t, F1r).
  rewrite Ers6 in R1.
  (* the handles of the old one's trailing white space *)
  set (hs := ws_tail_handles (mk_hnd tid ([ci] ++ [oi])) ocs).
  set (rsA := rs6' ++ map Some hs).
  assert (Lhs : length hs = kt) by (unfold hs, ws_tail_handles; now rewrite map_length, seq_length).
  assert (Hcrs : forall m cr, nth_error (rev (seq 6 kt)) m = Some cr ->
            nth_error rsA cr = Some (Some (mk_hnd tid (([ci] ++ [oi]) ++ [length core + m])))).
  { intros m cr Hm. apply nth_error_rev_seq in Hm as [Hm ->]. unfold rsA.
    rewrite nth_error_app2 by (cbn; lia). change (length rs6') with 6.
    replace (6 + (kt - 1 - m) - 6) with (kt - 1 - m) by lia. rewrite nth_error_map.
    unfold hs, ws_tail_handles. fold kt. rewrite nth_error_map_seq by lia. cbn [option_map]. unfold child_h. cbn [h_tid h_path].
    do 3 f_equal. cbn [app]. do 2 f_equal. f_equal. rewrite Lcore. lia. }
  assert (HGoc : get_path T ([ci] ++ [oi]) = Some (Node RELATION (core ++ tl))) by (rewrite HGo; unfold O; now rewrite <- Eocs).
  assert (Hlt1 : tid < length ts1) by lia.
  destruct (attach_all_move_sub tl (rev (seq 6 kt)) ts1 rsA 4 tid ri T ([ci] ++ [oi]) RELATION core tr rr Tp1 pn RELATION ncore
              eq_refl HT1 HGoc T1 HGn1 Hne ltac:(now rewrite rev_length, seq_length) Hcrs)
    as (ts2 & F2 & R2 & L2 & T2 & N2 & Fr2 & A2).
  set (O1' := Node RELATION core) in *.
  assert (ET1 : upd_path T ([ci] ++ [oi]) (fun _ => O1') = Node k (epre ++ Node ENTRY (pre ++ O1' :: post) :: epost)).
  { unfold T, E. cbn [app upd_path]. unfold ci. rewrite upd_nth_app_r. cbn [upd_path]. unfold oi. now rewrite upd_nth_app_r. }
  rewrite ET1 in T2. set (T1' := Node k (epre ++ Node ENTRY (pre ++ O1' :: post) :: epost)) in *.
  assert (HGe1 : get_path T1' [ci] = Some (Node ENTRY (pre ++ O1' :: post))).
  { cbn [get_path T1' children]. unfold ci. now rewrite nth_error_app_len. }
  set (C := Node RELATION (ncore ++ tl)) in *.
  set (Tp2 := upd_path Tp1 pn (fun _ => C)) in *.
  assert (HGc : get_path Tp2 (pp ++ [pj]) = Some C) by (unfold Tp2; fold pn; now apply get_path_upd_path with (n := Node RELATION ncore)).
  assert (F2r0 : F2 (mk_hnd tid []) = mk_hnd tid []) by (apply A2; [exact Hlt1|cbn; congruence|apply above_root]).
  assert (F2r1 : F2 (mk_hnd tid [ci]) = mk_hnd tid [ci]) by (apply A2; [exact Hlt1|cbn; congruence|apply above_prefix]).
  assert (F2r5 : F2 (mk_hnd tid ([ci] ++ [oi])) = mk_hnd tid ([ci] ++ [oi])) by (apply A2; [exact Hlt1|cbn; congruence|apply above_self]).
  set (rsB := map (option_map F2) rsA) in *.
  assert (HB1 : nth_error rsB 1 = Some (Some (mk_hnd tid [ci]))) by (unfold rsB; cbn [rsA rs6' app map option_map nth_error]; now rewrite F2r1).
  assert (HB4 : nth_error rsB 4 = Some (Some (mk_hnd tr (pp ++ [pj])))) by (unfold rsB; cbn [rsA rs6' app map option_map nth_error]; fold pn; now rewrite Fr2).
  assert (HB5 : nth_error rsB 5 = Some (Some (mk_hnd tid ([ci] ++ [oi])))) by (unfold rsB; cbn [rsA rs6' app map option_map nth_error]; do 2 f_equal; exact F2r5).
  destruct (splice_replace_sub ts2 rsB 1 4 tid ri T1' [ci] ENTRY pre O1' post tr rr Tp2 pp pj C HB1 HB4 T2 HGe1 N2 HGc Hne)
    as (ts3 & F3 & R3 & L3 & T3 & S3 & A3).
  assert (ET3 : upd_path T1' [ci] (fun _ => Node ENTRY (pre ++ C :: post)) = Node k (epre ++ Node ENTRY (pre ++ C :: post) :: epost)).
  { unfold T1'. cbn [upd_path]. unfold ci. now rewrite upd_nth_app_r. }
  rewrite ET3 in T3.
  assert (EC : C = dressed O (Node RELATION ncs)).
  { unfold dressed, O, C. cbn [children set_children ekind]. unfold ws_head, strip_ws. rewrite Hh, Wh. cbn [firstn skipn app].
    fold kn. fold ncore. fold tl. reflexivity. }
  assert (Hlt2 : tid < length ts2) by lia.
  assert (F3r0 : F3 (mk_hnd tid []) = mk_hnd tid []) by (apply A3; [exact Hlt2|cbn; congruence|apply above_root]).
  assert (F3r1 : F3 (mk_hnd tid [ci]) = mk_hnd tid [ci]) by (apply A3; [exact Hlt2|cbn; congruence|apply above_self]).
  exists ts3, (Some (mk_hnd tid [ci])), (option_map F3 (option_map F2 (option_map F1 b))), (option_map F3 (option_map F2 (option_map F1 c))).
  eexists. split.
  - cbn [run_op]. change (rreg 1) with 4. change (ereg 0) with 1. unfold st5. fold pn. fold rs5.
    eapply runs_with_reg_some; [reflexivity|].
    rbind; [apply runs_has_reg|]. cbn [nth_error rs5].
    rbind.
    { unfold entry_replace. cbn [fx_replace_ws fixed]. unfold entry_replace_fixed.
      rbind; [|apply runs_set_reg].
      eapply runs_eq; [apply runs_scoped|reflexivity|].
      + rbind; [apply runs_get_reg; reflexivity|].
        rbind; [eapply runs_children_of; [exact HT|exact HGe]|].
        cbn [children E]. rewrite Hidx. unfold child_h. cbn [h_tid h_path]. fold oi.
        rbind; [apply runs_push_tmp|]. fold rs6. change (length rs5) with 5.
        rbind; [rbind; [apply runs_get_reg; reflexivity|]; eapply runs_children_of; [exact HR|exact HGn]|].
        cbn [s_tree children]. rewrite Wh. cbn [m_repeat skipn]. rbind; [rdone|]. fold kn. rewrite <- Lntl.
        rbind; [exact R1|].
        rbind; [apply runs_get_reg; reflexivity|].
        rbind; [eapply runs_children_of; [exact HT1|exact HGo]|]. cbn [children O].
        unfold ws_head_handles. rewrite Hh. cbn [seq map push_tmps]. rbind; [rdone|].
        fold hs. rbind; [apply runs_push_tmps|]. fold rsA. change (length rs6') with 6. rewrite Lhs.
        rbind; [eapply splice_nil_runs; [reflexivity|exact T1|reflexivity|exact HGn1]|].
        rbind; [rbind; [apply runs_get_reg; reflexivity|]; eapply runs_children_of; [exact T1|exact HGn1]|].
        cbn [s_tree children].
        rbind.
        { unfold m_splice. rbind; [apply runs_get_reg; reflexivity|]. cbn [h_tid].
          rbind; [eapply runs_get_slot; exact T1|]. cbn [s_mut negb].
          rbind; [eapply runs_children_of; [exact T1|exact HGn1]|]. cbn [s_tree children].
          rewrite Nat.ltb_irrefl. cbn [andb]. rbind; [rdone|]. exact R2. }
        fold rsB.
        rbind; [rbind; [apply runs_get_reg; exact HB5|]; unfold index_of; rewrite parent_h_app; rdone|].
        exact R3.
      + unfold rsB, rsA, rs6', rs5. cbn [map option_map length firstn app]. rewrite F2r0, F2r1, Fr2, F3r0, F3r1. reflexivity. }
    cbn [set_reg_l]. unfold reg_text, node_of_reg.
    rbind.
    { rbind.
      { rbind; [apply runs_get_reg; reflexivity|].
        eapply runs_node_of; [exact T3|]. cbn [s_tree get_path children]. unfold ci. rewrite nth_error_app_len. reflexivity. }
      rdone. }
    rdone.
  - rewrite T3, EC. reflexivity.
Qed.

(* ------------------------------------------------------------------ one operation with a parsed operand, on any tree *)
Definition preplace_ready (o : pop) (T : rtree) : Prop :=
  match o with
  | PEReplace i j _ _ => forall ci cj O, rel_pos T i j = Some (ci, cj) -> get_path T [ci; cj] = Some O ->
                                         ws_prefix_len (children O) = 0
  | _ => True
  end.

Theorem pop_step_tree o T T' st :
  poperands_ok o = true -> is_node T = true -> preplace_ready o T -> holds st T -> tt_op (ptop o) T = Ok T' ->
  exists st', run_ops fixed (pcompile o) st = Ok st' /\ holds st' T'.
Proof.
  intros Hw HnT Hready (ts & tid & ri & a & b & c & d & -> & HT) Ht.
  destruct o; cbn [poperands_ok ptop tt_op pcompile preplace_ready] in *.
  - (* push *)
    injection Ht as <-. destruct T as [kT sT|kT csT]; [discriminate|].
    destruct (parse_entry_runs lead r alts ts tid ri _ a b c d Hw HT) as (txt & R1 & HG & Ne).
    destruct (push_runs (ts ++ [mk_slot true 0 (rtree_of (entry_field lead r alts))]) tid ri kT csT a b d (length ts) ([] ++ [length (ws_elems lead)]) _ _
                (nth_error_app_l _ _ _ _ HT) (nth_error_app_at _ _) HG) as (ts2 & a2 & b2 & d2 & R2 & T2).
    eexists. split.
    + eapply run_ops_cons; [exact R1|]. eapply run_ops_cons; [exact R2|reflexivity].
    + eapply holds_st5. exact T2.
  - (* insert *)
    injection Ht as <-. destruct T as [kT sT|kT csT]; [discriminate|].
    destruct (parse_entry_runs lead r alts ts tid ri _ a b c d Hw HT) as (txt & R1 & HG & Ne).
    destruct (insert_runs i (ts ++ [mk_slot true 0 (rtree_of (entry_field lead r alts))]) tid ri kT csT a b d (length ts) ([] ++ [length (ws_elems lead)]) _ _
                (nth_error_app_l _ _ _ _ HT) (nth_error_app_at _ _) HG) as (ts2 & a2 & b2 & d2 & R2 & T2).
    eexists. split.
    + eapply run_ops_cons; [exact R1|]. eapply run_ops_cons; [exact R2|reflexivity].
    + eapply holds_st5. exact T2.
  - (* replace *)
    destruct (entry_pos T i) as [ci|] eqn:Ep; [|discriminate]. injection Ht as <-.
    destruct (entry_pos_split _ _ _ Ep) as (k & pre & E & post & -> & <- & PE).
    destruct (parse_entry_runs lead r alts ts tid ri _ a b c d Hw HT) as (txt & R1 & HG & Ne).
    destruct (replace_runs_sub k pre E post _ (ts ++ [mk_slot true 0 (rtree_of (entry_field lead r alts))]) tid ri a b d
                (length ts) 0 _ [] (length (ws_elems lead)) i (nth_error_app_l _ _ _ _ HT) Ep (nth_error_app_at _ _) HG ltac:(congruence))
      as (ts2 & a2 & b2 & d2 & R2 & T2).
    eexists. split.
    + eapply run_ops_cons; [exact R1|]. eapply run_ops_cons; [exact R2|reflexivity].
    + eapply holds_st5. rewrite T2. cbn [children set_children ekind]. now rewrite replace_at_split.
  - (* Entry::push *)
    destruct (entry_pos T i) as [ci|] eqn:Ep; [|discriminate]. injection Ht as <-.
    destruct (entry_pos_split _ _ _ Ep) as (k & pre & E & post & -> & <- & PE).
    destruct (parse_rel_runs lead r ts tid ri _ a b c d Hw HT) as (txt & R1 & HG & Ne).
    set (ts1 := ts ++ [mk_slot true 0 (rtree_of (entry_field lead r []))]) in *.
    pose proof (get_entry_runs_gen _ i (length pre) ts1 tid ri a b c
                  (Some (mk_hnd (length ts) ([length (ws_elems lead)] ++ [0]))) (nth_error_app_l _ _ _ _ HT) Ep) as R2.
    destruct (is_entry_node _ PE) as (ecs & ->).
    destruct (epush_runs_gen k pre ENTRY ecs post (rel_tree r true) ts1 tid ri b c (length ts) ([length (ws_elems lead)] ++ [0]) _
                (nth_error_app_l _ _ _ _ HT) (nth_error_app_at _ _) HG) as (ts3 & a3 & b3 & c3 & x & R3 & T3).
    eexists. split.
    + eapply run_ops_cons; [exact R1|]. eapply run_ops_cons; [exact R2|]. eapply run_ops_cons; [exact R3|reflexivity].
    + eapply holds_st5. rewrite T3. f_equal. f_equal. cbn [upd_path]. now rewrite upd_nth_app_r.
  - (* Entry::replace *)
    destruct (rel_pos T i j) as [[ci cj]|] eqn:Ep; [|destruct (entry_pos T i); discriminate]. injection Ht as <-.
    destruct (rel_pos_inv _ _ _ _ _ Ep) as (E & P1 & P2 & P3 & _).
    destruct (entry_pos_split _ _ _ P1) as (k & epre & E' & epost & -> & <- & PE).
    unfold child_at in P2. cbn [children] in P2. rewrite nth_error_app_len in P2. injection P2 as <-.
    destruct (is_entry_node _ PE) as (ecs & ->). cbn [children] in *.
    destruct (nth_index_split _ _ _ _ P3) as (pre & x & post & -> & <- & Px).
    destruct (is_relation_node _ Px) as (ocs & ->).
    assert (Hh : ws_prefix_len ocs = 0).
    { apply (Hready (length epre) (length pre) (Node RELATION ocs) eq_refl).
      cbn [get_path children]. rewrite nth_error_app_len. cbn [children]. now rewrite nth_error_app_len. }
    destruct (parse_rel_runs lead r ts tid ri _ a b c d Hw HT) as (txt & R1 & HG & Ne).
    set (ts1 := ts ++ [mk_slot true 0 (rtree_of (entry_field lead r []))]) in *.
    pose proof (get_entry_runs_gen _ i (length epre) ts1 tid ri a b c
                  (Some (mk_hnd (length ts) ([length (ws_elems lead)] ++ [0]))) (nth_error_app_l _ _ _ _ HT) P1) as R2.
    assert (Hrel : exists ncs, rel_tree r true = Node RELATION ncs /\ ws_prefix_len ncs = 0) by (eexists; split; reflexivity).
    destruct Hrel as (ncs & Encs & Wh). rewrite Encs in *.
    destruct (ereplace_runs_sub k epre epost pre ocs post ncs j ts1 tid ri b c (length ts) 0 _ [length (ws_elems lead)] 0
                (nth_error_app_l _ _ _ _ HT) (nth_error_app_at _ _) HG ltac:(congruence) P3 Hh Wh) as (ts3 & a3 & b3 & c3 & xx & R3 & T3).
    eexists. split.
    + eapply run_ops_cons; [exact R1|]. eapply run_ops_cons; [exact R2|]. eapply run_ops_cons; [exact R3|reflexivity].
    + eapply holds_st5. rewrite T3. f_equal. f_equal. cbn [upd_path]. rewrite upd_nth_app_r. cbn [upd_path].
      now rewrite upd_nth_app_r.
Qed.
