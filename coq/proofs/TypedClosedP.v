(* C20, part 5: where the assumption about external codecs can be DISCHARGED.
   - a struct without external codecs needs no assumption (Release, Removal);
   - a codec whose reader is canonical in C18's sense (from_str s = Ok v -> to_string v = s)
     satisfies the stability law outright; instantiated with C18's model of License
     (model/Codecs.v), the only external codec of the copyright structs: the copyright theorem
     then has no assumption left besides its class guard;
   and the converse of the acceptance theorems (a structurally valid document whose fields all
   read is accepted, with exactly the value the specification names). *)
From Coq Require Import ZArith.
From V.model Require Import Base Deb822Lex Deb822Parse Grammar Lossy LossySpec Derive TypedDocs Codecs.
From V.gen Require Import Structs_gen.
From V.proofs Require Import BaseP LossyRtP DeriveP CodecsP TypedCodecP TypedCanonP TypedDocsP TypedSpecP.

Lemma ext_stable_nil E pr pa ll : ext_stable E pr pa ll [].
Proof. intros i x e []. Qed.
Lemma ext_stable_on_nil E pr pa G ll : ext_stable_on E pr pa G ll [].
Proof. intros i x e []. Qed.

(* a reader that prints back exactly the text it read *)
Lemma ext_stable_canonical E (pr : N -> E -> str) (pa : N -> str -> option E) ll ids :
  (forall i x e, In i ids -> pa i x = Some e -> pr i e = x) -> ext_stable E pr pa ll ids.
Proof.
  intros H i x e Hi _ Hx Hp. rewrite (H i x e Hi Hp). split; [apply (dom_pcanon _ _ Hx)|]. rewrite (rr_dom _ _ Hx). exact Hp.
Qed.

(* the generated tables: which external codecs the structs use *)
Lemma release_no_ext : ext_ids fs_release = []. Proof. vm_compute. reflexivity. Qed.
Lemma removal_no_ext : ext_ids fs_removal = []. Proof. vm_compute. reflexivity. Qed.
Lemma header_no_ext : ext_ids fs_header = []. Proof. vm_compute. reflexivity. Qed.
Lemma files_only_license : forallb (N.eqb 6) (ext_ids fs_files) = true. Proof. vm_compute. reflexivity. Qed.
Lemma license_only_license : forallb (N.eqb 6) (ext_ids fs_license) = true. Proof. vm_compute. reflexivity. Qed.

(* C18's License as the external codec 6 (every other number: no such codec) *)
Definition lic_print (i : N) (v : license) : str := license_to_string v.
Definition lic_parse (i : N) (s : str) : option license :=
  if (i =? 6)%N then match license_from_str s with Ok v => Some v | _ => None end else None.

Lemma lic_stable ll ids : ext_stable license lic_print lic_parse ll ids.
Proof.
  apply ext_stable_canonical. intros i x e _ H. unfold lic_parse in H. destruct (i =? 6)%N; [|discriminate].
  destruct (license_from_str x) as [v| | |] eqn:Ev; try discriminate. injection H as <-. apply license_canonical. exact Ev.
Qed.

Opaque fs_control_source fs_control_binary fs_header fs_files fs_license fs_release fs_apt_source fs_apt_package
       fs_removal fs_buildinfo fs_dep3 fs_repository.

(* ------------------------------------------------------------------ completeness of the acceptance theorems *)
Section Ext.
Variable E : Type.
Variable ext_print : N -> E -> str.
Variable ext_parse : N -> str -> option E.
Notation from_ll := (from_ll E ext_parse).

Lemma is_binary_get p : is_binary p = true -> exists x, get p k_Package = Some x.
Proof. unfold is_binary, has. destruct (get p k_Package); [eexists; reflexivity|discriminate]. Qed.
Lemma not_binary_get p : is_binary p = false -> get p k_Package = None.
Proof. unfold is_binary, has. destruct (get p k_Package); [discriminate|reflexivity]. Qed.
Lemma is_source_get p : is_source p = true -> get p k_Package = None /\ exists x, get p k_Source = Some x.
Proof.
  unfold is_source, has. destruct (get p k_Package); [discriminate|]. destruct (get p k_Source); [|discriminate].
  intros _. split; [reflexivity|eexists; reflexivity].
Qed.

Lemma control_loop_complete ps : forall src bins s bs,
  forallb (fun p => is_binary p || is_source p) ps = true ->
  match src with
  | Some s0 => filter is_source ps = [] /\ s = s0
  | None => exists sp, filter is_source ps = [sp] /\ from_ll fs_control_source sp = DOk s
  end ->
  Forall2 (fun p b => from_ll fs_control_binary p = DOk b) (filter is_binary ps) bs ->
  control_loop E ext_parse ps src bins = TOk (mk_control s (bins ++ bs)).
Proof.
  induction ps as [|p r IH]; intros src bins s bs Hall Hsrc Hb; cbn [control_loop].
  - cbn [filter] in *. inversion Hb; subst. rewrite app_nil_r. destruct src as [s0|].
    + destruct Hsrc as [_ ->]. reflexivity.
    + destruct Hsrc as (sp & Hs & _). discriminate.
  - cbn [forallb filter] in *. apply andb_true_iff in Hall. destruct Hall as [Hp Hall].
    destruct (is_binary p) eqn:Eb.
    + destruct (is_binary_get _ Eb) as (x & ->).
      assert (Hs : is_source p = false) by (unfold is_source, is_binary in *; rewrite Eb; reflexivity).
      rewrite Hs in Hsrc. inversion Hb as [|? b ? bs' Hpb Hrb]; subst. rewrite Hpb. cbn [of_dres].
      rewrite (IH src (bins ++ [b]) s bs' Hall Hsrc Hrb), <- app_assoc. reflexivity.
    + cbn [orb] in Hp. rewrite Hp in Hsrc. rewrite (not_binary_get _ Eb). destruct (is_source_get _ Hp) as (_ & x & ->).
      destruct src as [s0|]; [destruct Hsrc as [Hs _]; discriminate|].
      destruct Hsrc as (sp & Hs & Hv). injection Hs as <- Hs. rewrite Hv. cbn [of_dres].
      apply (IH (Some s) bins s bs Hall); [split; [exact Hs|reflexivity]|exact Hb].
Qed.

Theorem control_complete s t c : from_str s = Ok t -> control_spec E ext_parse (paragraphs t) c ->
  parse_control E ext_parse s = TOk c.
Proof.
  intros Ht ((sp & Hs1 & Hs2) & Hb & Hall). unfold parse_control. rewrite Ht. cbn [of_res].
  rewrite (control_loop_complete (paragraphs t) None [] (c_source c) (c_binaries c) Hall); [destruct c; reflexivity| |exact Hb].
  exists sp. auto.
Qed.

Lemma copyright_loop_complete ps : forall files licenses fs' ls',
  forallb (fun p => is_files p || is_license p) ps = true ->
  Forall2 (fun p f => from_ll fs_files p = DOk f) (filter is_files ps) fs' ->
  Forall2 (fun p l => from_ll fs_license p = DOk l) (filter is_license ps) ls' ->
  copyright_loop E ext_parse ps files licenses = TOk (files ++ fs', licenses ++ ls').
Proof.
  induction ps as [|p r IH]; intros files licenses fs' ls' Hall HF HL; cbn [copyright_loop].
  - cbn [filter] in *. inversion HF; inversion HL; subst. rewrite !app_nil_r. reflexivity.
  - cbn [forallb filter] in *. apply andb_true_iff in Hall. destruct Hall as [Hp Hall].
    destruct (is_files p) eqn:Ef.
    + assert (Hg : exists x, get p k_Files = Some x) by (unfold is_files, has in Ef; destruct (get p k_Files); [eexists; reflexivity|discriminate]).
      destruct Hg as (x & ->). assert (Hl : is_license p = false) by (unfold is_license; unfold is_files in Ef; rewrite Ef; reflexivity).
      rewrite Hl in HL. inversion HF as [|? f ? fs2 Hpf Hrf]; subst. rewrite Hpf. cbn [of_dres].
      rewrite (IH (files ++ [f]) licenses fs2 ls' Hall Hrf HL), <- app_assoc. reflexivity.
    + cbn [orb] in Hp. rewrite Hp in HL.
      assert (Hg : get p k_Files = None) by (unfold is_files, has in Ef; destruct (get p k_Files); [discriminate|reflexivity]).
      rewrite Hg. assert (Hg2 : exists x, get p k_License = Some x).
      { unfold is_license in Hp. unfold is_files in Ef. rewrite Ef in Hp. cbn [negb andb] in Hp. unfold has in Hp. destruct (get p k_License); [eexists; reflexivity|discriminate]. }
      destruct Hg2 as (x & ->). inversion HL as [|? l ? ls2 Hpl Hrl]; subst. rewrite Hpl. cbn [of_dres].
      rewrite (IH files (licenses ++ [l]) fs' ls2 Hall HF Hrl), <- app_assoc. reflexivity.
Qed.

Theorem copyright_complete s t c : from_str s = Ok t -> copyright_spec E ext_parse s (paragraphs t) c ->
  parse_copyright E ext_parse s = TOk c.
Proof.
  intros Ht (Hg & first & rest & Hps & Hh & HF & HL & Hall). unfold parse_copyright. rewrite Hg. cbn [negb]. rewrite Ht. cbn [of_res].
  rewrite Hps, Hh. cbn [of_dres]. rewrite (copyright_loop_complete rest [] [] _ _ Hall HF HL). cbn [tbind app fst snd]. destruct c; reflexivity.
Qed.

End Ext.
