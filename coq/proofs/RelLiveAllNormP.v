(* Lemmas about RelLiveAll.v (C11, liberal layouts; the mirror of RelLiveNormP.v), part 4: the bridges
   to C10's image of the reader (RelGrammarAll.v).  [live_of g] is a live layout with exactly the
   tree and the well-formedness of the liberal layout g; [norm l] is a liberal layout with exactly
   the text and the content of the live layout l (white space that an edit left in several
   tokens, or in another node than the parser would put it, is one slot again).  And the content of
   a live layout is what RelEdit.structure reads from its tree. *)
From V.model Require Import Base RelLex RelParse RelAcc RelGrammar RelGrammarAll.
From V.model Require Import RelEdit RelEditSpec RelEditTree RelLiveAll.
From V.proofs Require Import BaseP RelLexP RelEditP RelEditStP RelEditTreeP RelGrammarParseP RelGrammarAccP RelLexInvP RelGrammarAllAccP.
From V.proofs Require Import RelLiveAllP RelLiveAllStepP RelLiveAllWfP.

(* ------------------------------------------------------------------ white space slots *)
Lemma wtree_wtok_of t : is_ws_kind (fst t) = true -> wtree (wtok_of t) = tk t.
Proof. destruct t as [k s]. cbn [fst]. destruct k; try discriminate; reflexivity. Qed.
Lemma wtrees_wsl_of ts : wsk ts = true -> wtrees (wsl_of ts) = elems ts.
Proof.
  unfold wsk, wtrees, wsl_of, elems. rewrite map_map. induction ts as [|t r IH]; [reflexivity|]. cbn [forallb map]. intros H. andb_hyps.
  now rewrite (wtree_wtok_of t H), (IH H0).
Qed.
Lemma map_rt_rws ts : wsk ts = true -> map rt (rws ts) = elems ts.
Proof. intros H. unfold rws. rewrite map_map. exact (wtrees_wsl_of ts H). Qed.
Lemma wtok_tok_of t : is_ws_kind (fst t) = true -> wtok_tok (wtok_of t) = t.
Proof. destruct t as [k s]. cbn [fst]. destruct k; try discriminate; reflexivity. Qed.
Lemma wsl_of_ok ts : wsk ts = true -> forallb tok_valid ts = true -> wsl_ok (wsl_of ts) = true.
Proof.
  unfold wsk, wsl_ok, wsl_of. induction ts as [|t r IH]; [reflexivity|]. cbn [forallb map]. intros H H'. andb_hyps.
  unfold wtok_ok at 1. rewrite (wtok_tok_of t H), H0. cbn [andb]. now apply IH.
Qed.
Lemma wstext_wsl_of ts : wstext (wsl_of ts) = rttext_of ts.
Proof.
  unfold wstext, wsl_of, rttext_of. rewrite flat_map_concat_map, map_map. f_equal.
Qed.
Lemma texts_wtrees w : texts (wtrees w) = wstext w.
Proof. induction w as [|[[|] s] r IH]; [reflexivity| |]; cbn [wtrees map wstext flat_map]; rewrite texts_cons; now f_equal. Qed.

(* ------------------------------------------------------------------ live_of: the same tree *)
Lemma part_of {A} (f : A -> rtree) (ws0 : A -> list rtoken) (o : option A) :
  opt_ok (fun a => wsk (ws0 a)) o = true ->
  part f (option_map (fun a => (wsl_of (ws0 a), a)) o) = opt_elems (fun a => elems (ws0 a) ++ [f a]) o.
Proof. destruct o as [a|]; [|reflexivity]. cbn [option_map part opt_elems opt_ok]. intros H. now rewrite wtrees_wsl_of. Qed.
Lemma profs_of ps : forallb (fun g => wsk (pg_ws0 g)) ps = true ->
  flat_map prof_part (map (fun g => (wsl_of (pg_ws0 g), g)) ps) = flat_map pgroup_elems ps.
Proof.
  induction ps as [|g r IH]; [reflexivity|]. cbn [forallb map flat_map]. intros H. andb_hyps. rewrite (IH H0). unfold prof_part, pgroup_elems. cbn [fst snd].
  now rewrite wtrees_wsl_of.
Qed.
Lemma arel_ok_slots r : arel_ok r = true ->
  opt_ok (fun q => wsk (aq_ws0 q)) (a_qual r) = true /\ opt_ok (fun v => wsk (av_ws0 v)) (a_ver r) = true /\
  opt_ok (fun g => wsk (ag_ws0 g)) (a_archs r) = true /\ forallb (fun g => wsk (pg_ws0 g)) (a_profs r) = true /\ wsk (a_trail r) = true.
Proof.
  unfold arel_ok. intros H. andb_hyps. repeat split; auto.
  - destruct (a_qual r) as [q|]; [|reflexivity]. cbn [opt_ok] in *.
    match goal with X : aqual_ok q = true |- _ => unfold aqual_ok in X end. now andb_hyps.
  - destruct (a_ver r) as [v|]; [|reflexivity]. cbn [opt_ok] in *.
    match goal with X : aver_ok v = true |- _ => unfold aver_ok in X end. now andb_hyps.
  - destruct (a_archs r) as [g|]; [|reflexivity]. cbn [opt_ok] in *.
    match goal with X : agroup_ok g = true |- _ => unfold agroup_ok in X end. now andb_hyps.
  - match goal with X : forallb pgroup_ok _ = true |- _ => rewrite forallb_forall in X; rename X into HP end.
    rewrite forallb_forall. intros g Hg. specialize (HP g Hg). unfold pgroup_ok in HP. now andb_hyps.
Qed.
Lemma lrel_tree_of r last : arel_ok r = true -> lrel_tree (lrel_of r last) = arel_tree r last.
Proof.
  intros H. destruct (arel_ok_slots r H) as (S1 & S2 & S3 & S4 & S5).
  unfold lrel_tree, arel_tree, lrel_children, lrel_of. cbn [l_name l_qual l_ver l_archs l_profs l_trail]. f_equal. f_equal.
  rewrite (part_of qual_node aq_ws0 _ S1), (part_of vnode av_ws0 _ S2), (part_of arch_node ag_ws0 _ S3), (profs_of _ S4).
  f_equal. f_equal. f_equal. f_equal. destruct (a_owns_trail r last); [now apply wtrees_wsl_of|reflexivity].
Qed.
Definition last_flag {A} (alts : list A) (last : bool) : bool := match alts with [] => last | _ => false end.
Lemma arel_left_wsk r last : arel_ok r = true -> wsk (arel_left r last) = true.
Proof. intros H. destruct (arel_ok_slots r H) as (_ & _ & _ & _ & S5). unfold arel_left. now destruct (a_owns_trail r last). Qed.
Lemma rels_elems_of alts : forall r last, arel_ok r = true -> forallb aalt_ok alts = true ->
  arels_elems r alts last =
  lrel_tree (lrel_of r (last_flag alts last)) :: flat_map alt_part (fst (lalts_of r alts last)) ++ wtrees (snd (lalts_of r alts last)).
Proof.
  induction alts as [|[w r'] alts' IH]; intros r last Hr Ha; cbn [arels_elems lalts_of last_flag].
  - cbn [fst snd flat_map app]. rewrite (lrel_tree_of r last Hr). f_equal. destruct last; [symmetry; apply wtrees_wsl_of, arel_left_wsk, Hr|reflexivity].
  - cbn [forallb] in Ha. andb_hyps. unfold aalt_ok in H. cbn [fst snd] in H. andb_hyps.
    rewrite (IH r' last H1 H0). destruct (lalts_of r' alts' last) as [rest trail]. cbn [fst snd flat_map].
    f_equal; [symmetry; now apply lrel_tree_of|].
    unfold alt_part. cbn [fst snd]. rewrite (wtrees_wsl_of _ (arel_left_wsk r false Hr)), (wtrees_wsl_of _ H). fold (last_flag alts' last).
    rewrite <- !app_assoc. cbn [app]. rewrite <- !app_assoc. reflexivity.
Qed.
Lemma lentry_tree_of r alts last : arel_ok r = true -> forallb aalt_ok alts = true ->
  lentry_tree (lentry_of r alts last) = Node ENTRY (arels_elems r alts last).
Proof.
  intros Hr Ha. unfold lentry_tree, lentry_of. rewrite (rels_elems_of alts r last Hr Ha). destruct (lalts_of r alts last) as [la trail].
  reflexivity.
Qed.
Lemma arels_left_wsk alts : forall r last, arel_ok r = true -> forallb aalt_ok alts = true -> wsk (arels_left r alts last) = true.
Proof.
  induction alts as [|[w r'] alts' IH]; intros r last Hr Ha; cbn [arels_left].
  - destruct last; [reflexivity|now apply arel_left_wsk].
  - cbn [forallb] in Ha. andb_hyps. unfold aalt_ok in H. cbn [snd] in H. andb_hyps. now apply IH.
Qed.
Lemma litem_tree_of a i last : aitem_ok a i = true -> map rt (litem_of i last) = aitem_elems i last.
Proof.
  destruct i as [r alts|body trail|]; cbn [aitem_ok litem_of aitem_elems map relem_tree]; intros H; andb_hyps; [| |reflexivity].
  - rewrite (lentry_tree_of r alts last H H0), map_rt_rws; [reflexivity|now apply arels_left_wsk].
  - now rewrite map_rt_rws.
Qed.
Lemma litems_tree_of a more : forall i, aitem_ok a i = true -> forallb (amore_ok a) more = true ->
  map rt (litems_of i more) = aitems_elems i more.
Proof.
  induction more as [|[w i'] more IH]; intros i Hi Hm; cbn [litems_of aitems_elems]; rewrite map_app, (litem_tree_of a i _ Hi); [reflexivity|].
  cbn [forallb] in Hm. andb_hyps. unfold amore_ok in H. cbn [fst snd] in H. andb_hyps.
  cbn [map relem_tree]. now rewrite map_app, (map_rt_rws w H), (IH i' H1 H0).
Qed.
Theorem ltree_live_of a g : ashape a g = true -> ltree (live_of g) = atree_of g.
Proof.
  unfold ashape. intros H. andb_hyps. unfold ltree, live_of, atree_of. now rewrite map_app, (map_rt_rws _ H), (litems_tree_of a _ _ H1 H0).
Qed.

(* ------------------------------------------------------------------ live_of: well-formed *)
(* segments of a token list *)
Definition seg {A} (b ts : list A) : Prop := exists a c, ts = a ++ b ++ c.
Lemma seg_refl {A} (ts : list A) : seg ts ts.
Proof. exists [], []. now rewrite app_nil_r. Qed.
Lemma seg_app_l {A} (b x y : list A) : seg b x -> seg b (x ++ y).
Proof. intros (a & c & ->). exists a, (c ++ y). now rewrite <- !app_assoc. Qed.
Lemma seg_app_r {A} (b x y : list A) : seg b y -> seg b (x ++ y).
Proof. intros (a & c & ->). exists (x ++ a), c. now rewrite <- !app_assoc. Qed.
Lemma seg_cons {A} (b : list A) t x : seg b x -> seg b (t :: x).
Proof. intros H. apply (seg_app_r b [t] x H). Qed.
Lemma seg_trans {A} (b x ts : list A) : seg b x -> seg x ts -> seg b ts.
Proof. intros (a & c & ->) (a' & c' & ->). exists (a' ++ a), (c ++ c'). now rewrite <- !app_assoc. Qed.
Lemma lexable_valid ts : lexable ts = true -> forallb tok_valid ts = true.
Proof. induction ts as [|t r IH]; [reflexivity|]. rewrite lexable_cons. intros H. andb_hyps. cbn [forallb]. now rewrite H, IH. Qed.
Lemma lexable_app_r a : forall b, lexable (a ++ b) = true -> lexable b = true.
Proof. induction a as [|t r IH]; intros b H; [exact H|]. cbn [app] in H. rewrite lexable_cons in H. andb_hyps. now apply IH. Qed.
Lemma lexable_app_l a : forall b, lexable (a ++ b) = true -> lexable a = true.
Proof.
  induction a as [|t r IH]; intros b H; [reflexivity|]. cbn [app] in H. rewrite lexable_cons in *. andb_hyps.
  rewrite H, (IH b H0). destruct r; [reflexivity|]. cbn [app] in H1. now rewrite H1.
Qed.
Lemma lexable_seg b ts : seg b ts -> lexable ts = true -> lexable b = true.
Proof. intros (a & c & ->) H. apply lexable_app_r in H. now apply lexable_app_l in H. Qed.
Lemma forallb_seg {A} (p : A -> bool) b ts : seg b ts -> forallb p ts = true -> forallb p b = true.
Proof. intros (a & c & ->) H. rewrite !forallb_app in H. now andb_hyps. Qed.
#[local] Hint Resolve seg_refl seg_app_l seg_app_r seg_cons : seg.

(* the pieces of a liberal layout that the lexer produced *)
Definition arel_lexok (r : arel) : bool :=
  name_ok (a_name r)
  && opt_ok (fun q => forallb tok_valid (aq_ws0 q) && lexable (aqual_body q)) (a_qual r)
  && opt_ok (fun v => forallb tok_valid (av_ws0 v) && lexable (aver_body_toks v)) (a_ver r)
  && opt_ok (fun g => forallb tok_valid (ag_ws0 g) && lexable (agroup_body_toks g)) (a_archs r)
  && forallb (fun g => forallb tok_valid (pg_ws0 g) && lexable (pgroup_body_toks g)) (a_profs r)
  && forallb tok_valid (a_trail r).
Definition arel_opsok (r : arel) : bool :=
  opt_ok (fun v => match parse_vc (av_op v) with Some _ => true | None => false end) (a_ver r).
Definition aalt_lexok (wr : list rtoken * arel) : bool := forallb tok_valid (fst wr) && arel_lexok (snd wr).
Definition aitem_lexok (i : aitem) : bool :=
  match i with
  | AEntry r alts => arel_lexok r && forallb aalt_lexok alts
  | ASubst body trail => lexable (asubst_toks body) && forallb tok_valid trail
  | AEmpty => true
  end.
Definition aitem_opsok (i : aitem) : bool :=
  match i with AEntry r alts => arel_opsok r && forallb (fun wr => arel_opsok (snd wr)) alts | _ => true end.
Definition afield_lexok (g : afield) : bool :=
  forallb tok_valid (af_lead g) && aitem_lexok (af_first g)
  && forallb (fun wi => forallb tok_valid (fst wi) && aitem_lexok (snd wi)) (af_rest g).
Definition afield_opsok (g : afield) : bool := forallb aitem_opsok (af_items g).

Lemma seg_profs g ps : In g ps -> seg (pgroup_toks g) (flat_map pgroup_toks ps).
Proof.
  induction ps as [|x r IH]; [contradiction|]. intros [->|H]; cbn [flat_map]; [apply seg_app_l, seg_refl|apply seg_app_r, IH, H].
Qed.
Lemma arel_lex r ts : seg (arel_toks r) ts -> lexable ts = true -> arel_lexok r = true.
Proof.
  intros Hs Hl. pose proof (lexable_valid _ Hl) as Hv.
  assert (Hseg : forall b, seg b (arel_toks r) -> lexable b = true /\ forallb tok_valid b = true).
  { intros b Hb. split; [eapply lexable_seg; [eapply seg_trans; eassumption|exact Hl]|eapply forallb_seg; [eapply seg_trans; eassumption|exact Hv]]. }
  unfold arel_lexok, arel_toks, arel_core_toks in *. andb_goal.
  - destruct (Hseg [(IDENT, a_name r)]) as [_ H].
    { apply seg_app_l. exact (seg_app_l [(IDENT, a_name r)] [(IDENT, a_name r)] _ (seg_refl _)). }
    cbn [forallb] in H. now andb_hyps.
  - destruct (a_qual r) as [q|]; [|reflexivity]. cbn [opt_ok opt_toks] in *.
    assert (Hq : seg (aqual_toks q) (((IDENT, a_name r) :: aqual_toks q ++ opt_toks aver_toks (a_ver r) ++ opt_toks agroup_toks (a_archs r) ++ flat_map pgroup_toks (a_profs r)) ++ a_trail r)) by auto with seg.
    andb_goal; [apply (Hseg (aq_ws0 q)); eapply seg_trans; [|exact Hq]; unfold aqual_toks; auto with seg|].
    apply (Hseg (aqual_body q)). eapply seg_trans; [|exact Hq]. unfold aqual_toks, aqual_body. auto with seg.
  - destruct (a_ver r) as [v|]; [|reflexivity]. cbn [opt_ok opt_toks] in *.
    assert (Hq : seg (aver_toks v) (((IDENT, a_name r) :: opt_toks aqual_toks (a_qual r) ++ aver_toks v ++ opt_toks agroup_toks (a_archs r) ++ flat_map pgroup_toks (a_profs r)) ++ a_trail r)) by auto 8 with seg.
    andb_goal; [apply (Hseg (av_ws0 v))|apply (Hseg (aver_body_toks v))]; (eapply seg_trans; [|exact Hq]); unfold aver_toks; auto with seg.
  - destruct (a_archs r) as [g|]; [|reflexivity]. cbn [opt_ok opt_toks] in *.
    assert (Hq : seg (agroup_toks g) (((IDENT, a_name r) :: opt_toks aqual_toks (a_qual r) ++ opt_toks aver_toks (a_ver r) ++ agroup_toks g ++ flat_map pgroup_toks (a_profs r)) ++ a_trail r)) by auto 10 with seg.
    andb_goal; [apply (Hseg (ag_ws0 g))|apply (Hseg (agroup_body_toks g))]; (eapply seg_trans; [|exact Hq]); unfold agroup_toks; auto with seg.
  - rewrite forallb_forall. intros g Hg.
    assert (Hq : seg (pgroup_toks g) (((IDENT, a_name r) :: opt_toks aqual_toks (a_qual r) ++ opt_toks aver_toks (a_ver r) ++ opt_toks agroup_toks (a_archs r) ++ flat_map pgroup_toks (a_profs r)) ++ a_trail r)).
    { apply seg_app_l, seg_cons, seg_app_r, seg_app_r, seg_app_r, seg_profs, Hg. }
    andb_goal; [apply (Hseg (pg_ws0 g))|apply (Hseg (pgroup_body_toks g))]; (eapply seg_trans; [|exact Hq]); unfold pgroup_toks; auto with seg.
  - apply (Hseg (a_trail r)). auto with seg.
Qed.
Lemma arels_lex alts : forall r ts, seg (arels_toks r alts) ts -> lexable ts = true ->
  arel_lexok r = true /\ forallb aalt_lexok alts = true.
Proof.
  induction alts as [|[w r'] alts' IH]; intros r ts Hs Hl; cbn [arels_toks] in Hs.
  - rewrite app_nil_r in Hs. split; [eapply arel_lex; eassumption|reflexivity].
  - assert (H1 : seg (arel_toks r) ts) by (eapply seg_trans; [|exact Hs]; auto with seg).
    assert (H2 : seg w ts) by (eapply seg_trans; [|exact Hs]; auto with seg).
    assert (H3 : seg (arels_toks r' alts') ts) by (eapply seg_trans; [|exact Hs]; auto with seg).
    destruct (IH r' ts H3 Hl) as [I1 I2]. split; [eapply arel_lex; eassumption|].
    cbn [forallb]. unfold aalt_lexok at 1. cbn [fst snd]. rewrite I1, I2, (forallb_seg tok_valid w ts H2 (lexable_valid _ Hl)). reflexivity.
Qed.
Lemma aitem_lex i ts : seg (aitem_toks i) ts -> lexable ts = true -> aitem_lexok i = true.
Proof.
  intros Hs Hl. destruct i as [r alts|body trail|]; cbn [aitem_toks aitem_lexok] in *; [| |reflexivity].
  - destruct (arels_lex alts r ts Hs Hl) as [-> ->]. reflexivity.
  - andb_goal; [eapply lexable_seg; [|exact Hl]|eapply forallb_seg; [|exact (lexable_valid _ Hl)]]; (eapply seg_trans; [|exact Hs]); auto with seg.
Qed.
Lemma aitems_lex more : forall i ts, seg (aitems_toks i more) ts -> lexable ts = true ->
  aitem_lexok i = true /\ forallb (fun wi => forallb tok_valid (fst wi) && aitem_lexok (snd wi)) more = true.
Proof.
  induction more as [|[w i'] more IH]; intros i ts Hs Hl; cbn [aitems_toks] in Hs.
  - rewrite app_nil_r in Hs. split; [eapply aitem_lex; eassumption|reflexivity].
  - assert (H1 : seg (aitem_toks i) ts) by (eapply seg_trans; [|exact Hs]; auto with seg).
    assert (H2 : seg w ts) by (eapply seg_trans; [|exact Hs]; auto with seg).
    assert (H3 : seg (aitems_toks i' more) ts) by (eapply seg_trans; [|exact Hs]; auto with seg).
    destruct (IH i' ts H3 Hl) as [I1 I2]. split; [eapply aitem_lex; eassumption|].
    cbn [forallb fst snd]. rewrite I1, I2, (forallb_seg tok_valid w ts H2 (lexable_valid _ Hl)). reflexivity.
Qed.
Lemma afield_lex g : lexable (atoks g) = true -> afield_lexok g = true.
Proof.
  intros Hl. unfold afield_lexok, atoks in *.
  destruct (aitems_lex (af_rest g) (af_first g) _ (seg_app_r _ _ _ (seg_refl _)) Hl) as [-> ->].
  rewrite (forallb_seg tok_valid (af_lead g) _ (seg_app_l _ _ _ (seg_refl _)) (lexable_valid _ Hl)). reflexivity.
Qed.

Lemma lrel_of_ok r last : arel_ok r = true -> arel_lexok r = true -> arel_opsok r = true -> lrel_ok (lrel_of r last) = true.
Proof.
  intros Hs Hl Ho. destruct (arel_ok_slots r Hs) as (S1 & S2 & S3 & S4 & S5).
  unfold arel_ok in Hs. unfold arel_lexok in Hl. unfold arel_opsok in Ho. andb_hyps.
  unfold lrel_ok, lrel_of. cbn [l_name l_qual l_ver l_archs l_profs l_trail]. andb_goal; auto.
  - destruct (a_qual r) as [q|]; [|reflexivity]. cbn [opt_ok option_map inner_ok] in *.
    repeat match goal with X : aqual_ok q = true |- _ => unfold aqual_ok in X end. andb_hyps.
    unfold qual_in_ok. andb_goal; auto. now apply wsl_of_ok.
  - destruct (a_ver r) as [v|]; [|reflexivity]. cbn [opt_ok option_map inner_ok] in *.
    repeat match goal with X : aver_ok v = true |- _ => unfold aver_ok in X end. andb_hyps.
    unfold vclause_in_ok. andb_goal; auto. now apply wsl_of_ok.
  - destruct (a_archs r) as [g|]; [|reflexivity]. cbn [opt_ok option_map inner_ok] in *.
    repeat match goal with X : agroup_ok g = true |- _ => unfold agroup_ok in X end. andb_hyps.
    unfold group_in_ok. andb_goal; auto. now apply wsl_of_ok.
  - rewrite forallb_forall in *. intros x Hx. apply in_map_iff in Hx as (g & <- & Hin). cbn [fst snd].
    repeat match goal with X : forall y, In y (a_profs r) -> _ |- _ => specialize (X g Hin) end.
    repeat match goal with X : pgroup_ok g = true |- _ => unfold pgroup_ok in X end. andb_hyps.
    unfold pgroup_in_ok. andb_goal; auto. now apply wsl_of_ok.
  - destruct (a_owns_trail r last); [now apply wsl_of_ok|reflexivity].
Qed.
Lemma arel_left_valid r last : arel_lexok r = true -> forallb tok_valid (arel_left r last) = true.
Proof. unfold arel_lexok, arel_left. intros H. andb_hyps. now destruct (a_owns_trail r last). Qed.
Definition aalt_opsok (wr : list rtoken * arel) : bool := arel_opsok (snd wr).
Lemma lalts_of_ok alts : forall r last, arel_ok r = true -> arel_lexok r = true ->
  forallb aalt_ok alts = true -> forallb aalt_lexok alts = true -> forallb aalt_opsok alts = true ->
  forallb alt_ok (fst (lalts_of r alts last)) = true /\ wsl_ok (snd (lalts_of r alts last)) = true.
Proof.
  induction alts as [|[w r'] alts' IH]; intros r last Hr Hrl Ha Hal Hao; cbn [lalts_of].
  - cbn [fst snd]. split; [reflexivity|]. destruct last; [apply wsl_of_ok; [now apply arel_left_wsk|now apply arel_left_valid]|reflexivity].
  - cbn [forallb] in Ha, Hal, Hao. andb_hyps. unfold aalt_ok in *. unfold aalt_lexok in *. unfold aalt_opsok in *. cbn [fst snd] in *. andb_hyps.
    match goal with X : arel_ok r' = true, Y : arel_lexok r' = true |- _ =>
      destruct (IH r' last X Y ltac:(assumption) ltac:(assumption) ltac:(assumption)) as [I1 I2]; pose proof X as Hr'; pose proof Y as Hrl' end.
    destruct (lalts_of r' alts' last) as [rest trail]. cbn [fst snd forallb] in *.
    split; [|exact I2]. rewrite I1, andb_true_r. unfold alt_ok. cbn [fst snd]. andb_goal.
    + apply wsl_of_ok; [now apply arel_left_wsk|now apply arel_left_valid].
    + now apply wsl_of_ok.
    + now apply lrel_of_ok.
Qed.
Lemma lentry_of_ok r alts last : arel_ok r = true -> arel_lexok r = true -> arel_opsok r = true ->
  forallb aalt_ok alts = true -> forallb aalt_lexok alts = true -> forallb aalt_opsok alts = true ->
  lentry_ok (lentry_of r alts last) = true.
Proof.
  intros Hr Hrl Hro Ha Hal Hao. unfold lentry_of. destruct (lalts_of_ok alts r last Hr Hrl Ha Hal Hao) as [H1 H2].
  destruct (lalts_of r alts last) as [la trail]. rewrite lentry_ok_eq. cbn [e_first e_alts e_trail fst snd] in *.
  now rewrite (lrel_of_ok r _ Hr Hrl Hro), H1, H2.
Qed.
Lemma rws_ok b ts : wsk ts = true -> forallb tok_valid ts = true -> forallb (relem_ok b) (rws ts) = true.
Proof.
  intros H H'. pose proof (wsl_of_ok ts H H') as Hw. unfold rws, wsl_ok in *. induction (wsl_of ts) as [|a l IHl]; [reflexivity|].
  cbn [forallb map relem_ok] in *. andb_hyps. andb_goal; auto.
Qed.
Lemma rws_all_ws ts : forallb is_rw (rws ts) = true.
Proof. unfold rws. induction (wsl_of ts) as [|a l IHl]; [reflexivity|]. exact IHl. Qed.
Lemma arels_left_valid alts : forall r last, arel_lexok r = true -> forallb aalt_lexok alts = true ->
  forallb tok_valid (arels_left r alts last) = true.
Proof.
  induction alts as [|[w r'] alts' IH]; intros r last Hr Ha; cbn [arels_left].
  - destruct last; [reflexivity|now apply arel_left_valid].
  - cbn [forallb] in Ha. andb_hyps. unfold aalt_lexok in H. cbn [snd] in H. andb_hyps. now apply IH.
Qed.
Lemma litem_of_ok b i last : aitem_ok b i = true -> aitem_lexok i = true -> aitem_opsok i = true ->
  forallb (relem_ok b) (litem_of i last) = true /\
  exists s, forall need, sep_run need (litem_of i last) = match i with AEmpty => Some need | _ => if need then None else Some s end.
Proof.
  destruct i as [r alts|body trail|]; cbn [aitem_ok aitem_lexok aitem_opsok litem_of]; intros H Hl Ho; andb_hyps.
  - split.
    + cbn [forallb relem_ok]. rewrite (lentry_of_ok r alts last) by assumption. cbn [andb].
      apply rws_ok; [now apply arels_left_wsk|now apply arels_left_valid].
    + exists true. intros [|]; cbn [sep_run]; [reflexivity|]. apply sep_run_all_ws, rws_all_ws.
  - split.
    + cbn [forallb relem_ok]. andb_goal; auto. now apply rws_ok.
    + exists true. intros [|]; cbn [sep_run]; [reflexivity|]. apply sep_run_all_ws, rws_all_ws.
  - split; [reflexivity|]. exists true. reflexivity.
Qed.
Lemma litems_of_ok b more : forall i, aitem_ok b i = true -> aitem_lexok i = true -> aitem_opsok i = true ->
  forallb (amore_ok b) more = true -> forallb (fun wi => forallb tok_valid (fst wi) && aitem_lexok (snd wi)) more = true ->
  forallb (fun wi => aitem_opsok (snd wi)) more = true ->
  forallb (relem_ok b) (litems_of i more) = true /\ exists s, sep_run false (litems_of i more) = Some s.
Proof.
  induction more as [|[w i'] more IH]; intros i Hi Hil Hio Hm Hml Hmo; cbn [litems_of].
  - rewrite app_nil_r. destruct (litem_of_ok b i (is_nil (@nil (list rtoken * aitem))) Hi Hil Hio) as (H1 & s & H2). split; [exact H1|].
    rewrite H2. destruct i; eauto.
  - cbn [forallb] in Hm, Hml, Hmo. andb_hyps. unfold amore_ok in *. cbn [fst snd] in *. andb_hyps.
    destruct (litem_of_ok b i (is_nil ((w, i') :: more)) Hi Hil Hio) as (H2' & s & H3').
    destruct (IH i') as (H4' & s' & H5'); try assumption. split.
    + rewrite forallb_app, H2'. cbn [forallb relem_ok andb]. rewrite forallb_app, (rws_ok b w), H4' by assumption. reflexivity.
    + exists s'. rewrite sep_run_app, H3'.
      assert (Hc : sep_run false (rws w ++ litems_of i' more) = Some s') by (now rewrite sep_run_app, sep_run_all_ws by apply rws_all_ws).
      destruct i; cbn [sep_run]; exact Hc.
Qed.
Lemma opsok_items g : afield_opsok g = true ->
  aitem_opsok (af_first g) = true /\ forallb (fun wi => aitem_opsok (snd wi)) (af_rest g) = true.
Proof.
  unfold afield_opsok, af_items. cbn [forallb]. intros H. andb_hyps. split; [assumption|].
  induction (af_rest g) as [|x r IH]; [reflexivity|]. cbn [map forallb] in *. andb_hyps. andb_goal; auto.
Qed.
Theorem lwf_live_of b g : awf b g = true -> afield_opsok g = true -> lwf b (live_of g) = true.
Proof.
  unfold awf. intros H Ho. andb_hyps. pose proof (afield_lex g H0) as Hl. unfold afield_lexok in Hl. unfold ashape in H. andb_hyps.
  destruct (opsok_items g Ho) as [Ho1 Ho2]. unfold live_of.
  destruct (litems_of_ok b (af_rest g) (af_first g)) as (H2' & s & H3'); try assumption.
  apply (lwf_intro _ _ s).
  - rewrite forallb_app, H2', andb_true_r. now apply rws_ok.
  - now rewrite sep_run_app, sep_run_all_ws by apply rws_all_ws.
Qed.

(* ------------------------------------------------------------------ the content is what RelEdit.structure reads *)
Definition rels (e : lentry) : list lrel := e_first e :: map snd (e_alts e).
Definition rel_ops (r : lrel) : bool :=
  match l_ver r with Some (_, v) => match parse_vc (av_op v) with Some _ => true | None => false end | None => true end.
Definition lops (l : lroot) : bool := forallb (fun e => forallb rel_ops (rels e)) (lentries l).
(* what the accessors need of a relation to read it as its content *)
Definition rel_acc_ok (r : lrel) : bool :=
  match l_qual r with Some (_, q) => wsk (aq_ws1 q) | None => true end &&
  match l_ver r with
  | Some (_, v) => wsk (av_ws1 v) && wsk (av_ws2 v) && wsk (av_ws3 v) && nonempty (rttext_of (map vpiece_tok (av_ver v)))
  | None => true
  end.
Definition lacc_ok (l : lroot) : bool := forallb (fun e => forallb rel_acc_ok (rels e)) (lentries l).

Lemma find_none {A} (p : A -> bool) l : Forall (fun x => p x = false) l -> find p l = None.
Proof. induction 1 as [|x r Hx _ IH]; [reflexivity|]. cbn. now rewrite Hx. Qed.
Lemma find_app_none {A} (p : A -> bool) a b : Forall (fun x => p x = false) a -> find p (a ++ b) = find p b.
Proof. induction 1 as [|x r Hx _ IH]; [reflexivity|]. cbn [app find]. now rewrite Hx. Qed.
Lemma find_part_some {A} (p : rtree -> bool) (f : A -> rtree) w a post :
  (forall t, p (wtree t) = false) -> p (f a) = true -> find p (part f (Some (w, a)) ++ post) = Some (f a).
Proof. intros Hw Hf. cbn [part]. rewrite <- app_assoc, find_app_none by now apply Forall_wtrees. cbn [app find]. now rewrite Hf. Qed.
Lemma tok_is_elems_ws k w : wsk w = true -> is_ws_kind k = false -> Forall (fun x => tok_is k x = false) (elems w).
Proof.
  unfold wsk. intros H Hk. induction w as [|[k' s] r IH]; [constructor|]. cbn [forallb fst] in H. andb_hyps. constructor; [|now apply IH].
  unfold tk, tok_is, kind_is. cbn [fst snd is_node negb ekind andb]. destruct k', k; try discriminate; reflexivity.
Qed.
Lemma vtext_ws w : wsk w = true -> version_text_of (elems w) = [].
Proof.
  intros H. unfold version_text_of. pose proof (tok_is_elems_ws IDENT w H eq_refl) as H1. pose proof (tok_is_elems_ws COLON w H eq_refl) as H2.
  induction (elems w) as [|c r IH]; [reflexivity|]. inversion H1 as [|? ? Ha Hb]; subst. inversion H2 as [|? ? Hc Hd]; subst. cbn [flat_map]. rewrite Ha, Hc. cbn [orb app]. now apply IH.
Qed.
Lemma vtext_pieces l : version_text_of (elems (map vpiece_tok l)) = rttext_of (map vpiece_tok l).
Proof. unfold version_text_of, rttext_of. induction l as [|p r IH]; [reflexivity|]. cbn [map elems flat_map concat]. rewrite <- IH. now destruct p. Qed.
Lemma vtext_app a b : version_text_of (a ++ b) = version_text_of a ++ version_text_of b.
Proof. unfold version_text_of. apply flat_map_app. Qed.
Lemma vtext_cons c l : version_text_of (c :: l) = version_text_of [c] ++ version_text_of l.
Proof. unfold version_text_of. cbn [flat_map]. now rewrite app_nil_r. Qed.
Lemma text_constraint op : text (Node CONSTRAINT (elems (map op_tok op))) = op.
Proof.
  rewrite text_node, texts_elems. unfold rttext. induction op as [|c r IH]; [reflexivity|]. cbn [map concat]. rewrite IH.
  unfold op_tok. destruct (c =? 60)%N; [reflexivity|]. destruct (c =? 62)%N; reflexivity.
Qed.

Lemma rel_name_lrel r : rel_name (lrel_tree r) = Ok (l_name r).
Proof. reflexivity. Qed.
Lemma rel_archqual_lrel r : rel_acc_ok r = true ->
  rel_archqual (lrel_tree r) = option_map (fun wq => aq_name (snd wq)) (l_qual r).
Proof.
  unfold rel_acc_ok. intros H. andb_hyps. unfold rel_archqual, lrel_tree, lrel_children. cbn [children find].
  change (node_is ARCHQUAL (Tok IDENT (l_name r))) with false. cbn iota.
  destruct (l_qual r) as [[w q]|].
  - rewrite find_part_some by (intros; try apply node_is_wtree; reflexivity). cbn [option_map snd].
    unfold qual_node, aqual_node. cbn [children]. unfold first_tok_text. cbn [find]. change (tok_is IDENT (Tok COLON [58%N])) with false. cbn iota.
    rewrite find_app_none by (now apply tok_is_elems_ws). reflexivity.
  - cbn [part app option_map]. rewrite find_none; [reflexivity|]. not_kind.
Qed.
Lemma rel_version_lrel r : rel_acc_ok r = true ->
  rel_version (lrel_tree r) = if rel_ops r then Ok (match l_ver r with Some (_, v) => ver_content v | None => None end) else Panic 51%N.
Proof.
  unfold rel_acc_ok, rel_ops. intros H. andb_hyps. unfold rel_version, lrel_tree, lrel_children. cbn [children find].
  change (node_is VERSION (Tok IDENT (l_name r))) with false. cbn iota.
  rewrite find_app_none by not_kind.
  destruct (l_ver r) as [[w v]|].
  - andb_hyps. rewrite find_part_some by (intros; try apply node_is_wtree; reflexivity).
    unfold vnode, aver_node. cbn [children find]. change (node_is CONSTRAINT (Tok L_PARENS [40%N])) with false. cbn iota.
    rewrite find_app_none by (clear; induction (av_ws1 v) as [|t r0 IH]; constructor; [reflexivity|exact IH]).
    cbn [app find]. change (node_is CONSTRAINT (Node CONSTRAINT (elems (map op_tok (av_op v))))) with true. cbn iota.
    match goal with |- context [version_text_of ?x] => assert (Ev : version_text_of x = rttext_of (map vpiece_tok (av_ver v))) end.
    { rewrite vtext_cons, vtext_app, (vtext_cons (Node CONSTRAINT (elems (map op_tok (av_op v))))), !vtext_app.
      rewrite (vtext_ws (av_ws1 v)), (vtext_ws (av_ws2 v)), (vtext_ws (av_ws3 v)), vtext_pieces by assumption.
      cbn. now rewrite app_nil_r. }
    rewrite Ev, text_constraint. unfold ver_content.
    destruct (rttext_of (map vpiece_tok (av_ver v))) as [|c0 r0] eqn:Et; [discriminate|].
    destruct (parse_vc (av_op v)); reflexivity.
  - cbn [part app]. rewrite find_none; [reflexivity|]. not_kind.
Qed.
Lemma rel_architectures_lrel r :
  rel_architectures (lrel_tree r) = option_map (fun wg => arch_names (children (arch_node (snd wg))) false) (l_archs r).
Proof.
  unfold rel_architectures, lrel_tree, lrel_children. cbn [children find].
  change (node_is ARCHITECTURES (Tok IDENT (l_name r))) with false. cbn iota.
  rewrite find_app_none by not_kind. rewrite find_app_none by not_kind.
  destruct (l_archs r) as [[w g]|].
  - rewrite find_part_some by (intros; try apply node_is_wtree; reflexivity). reflexivity.
  - cbn [part app option_map]. rewrite find_none; [reflexivity|]. not_kind.
Qed.
Lemma filter_none {A} (p : A -> bool) l : Forall (fun x => p x = false) l -> filter p l = [].
Proof. induction 1 as [|x r Hx _ IH]; [reflexivity|]. cbn. now rewrite Hx. Qed.
Lemma rel_profiles_lrel r :
  rel_profiles (lrel_tree r) = map (fun wg => profile_group (children (prof_node (snd wg))) [] false) (l_profs r).
Proof.
  unfold rel_profiles, lrel_tree, lrel_children. cbn [children filter].
  change (node_is PROFILES (Tok IDENT (l_name r))) with false. cbn iota.
  rewrite !filter_app. rewrite (filter_none _ (part qual_node (l_qual r))), (filter_none _ (part vnode (l_ver r))),
    (filter_none _ (part arch_node (l_archs r))), (filter_none _ (wtrees (l_trail r))) by not_kind.
  cbn [app]. rewrite app_nil_r. induction (l_profs r) as [|[w g] rest IH]; [reflexivity|].
  cbn [flat_map map]. unfold prof_part at 1. cbn [fst snd]. rewrite !filter_app, (filter_none _ (wtrees w)) by not_kind. cbn [app filter].
  change (node_is PROFILES (prof_node g)) with true. cbn iota. cbn [app map]. now rewrite IH.
Qed.
Lemma relrec_of_lrel r : rel_acc_ok r = true ->
  relrec_of (lrel_tree r) = if rel_ops r then Ok (lrel_content r) else Panic 51%N.
Proof.
  intros H. unfold relrec_of. rewrite rel_name_lrel, (rel_version_lrel r H), (rel_archqual_lrel r H), rel_architectures_lrel, rel_profiles_lrel.
  destruct (rel_ops r); reflexivity.
Qed.

Lemma entries_ltree l : entries (ltree l) = map lentry_tree (lentries l).
Proof.
  unfold entries, ltree. cbn [children]. induction l as [|x r IH]; [reflexivity|]. cbn [map filter]. rewrite is_entry_rt.
  destruct x; cbn [is_re]; try exact IH. change (lentries (RE e :: r)) with (e :: lentries r). cbn [map]. now rewrite IH.
Qed.
Lemma relations_lentry e : relations (lentry_tree e) = map lrel_tree (rels e).
Proof.
  unfold relations, lentry_tree, lentry_children, rels. cbn [children filter]. rewrite is_relation_lrel. cbn [map]. f_equal.
  rewrite filter_app, filter_relations_alts, filter_relation_wtrees, app_nil_r. now rewrite map_map.
Qed.
Lemma mapM_if {A B} (f : A -> res B) (p : A -> bool) (g : A -> B) l :
  (forall x, In x l -> f x = if p x then Ok (g x) else Panic 51%N) ->
  mapM f l = if forallb p l then Ok (map g l) else Panic 51%N.
Proof.
  induction l as [|x r IH]; intros H; [reflexivity|]. cbn [mapM forallb map]. rewrite (H x (or_introl eq_refl)).
  destruct (p x); [|reflexivity]. rewrite IH by (intros y Hy; apply H; now right). cbn [andb]. destruct (forallb p r); reflexivity.
Qed.
Lemma lentry_content_rels e : lentry_content e = map lrel_content (rels e).
Proof. unfold lentry_content, rels. cbn [map]. now rewrite map_map. Qed.
Theorem structure_ltree_gen l : lacc_ok l = true ->
  structure (ltree l) = if lops l then Ok (fst (lcontent l)) else Panic 51%N.
Proof.
  unfold lacc_ok, lops. intros H. unfold structure. rewrite entries_ltree, lcontent_entries. cbn [fst].
  rewrite forallb_forall in H.
  assert (E : forall e, In e (lentries l) ->
            mapM relrec_of (relations (lentry_tree e)) = if forallb rel_ops (rels e) then Ok (lentry_content e) else Panic 51%N).
  { intros e He. rewrite relations_lentry, lentry_content_rels. specialize (H e He). rewrite forallb_forall in H.
    clear He. revert H. induction (rels e) as [|r rs IH]; intros H; [reflexivity|]. cbn [map mapM forallb].
    rewrite (relrec_of_lrel r (H r (or_introl eq_refl))). destruct (rel_ops r); [|reflexivity].
    rewrite IH by (intros y Hy; apply H; now right). cbn [andb]. destruct (forallb rel_ops rs); reflexivity. }
  clear H. induction (lentries l) as [|e es IH]; [reflexivity|]. cbn [map mapM forallb].
  rewrite (E e (or_introl eq_refl)). destruct (forallb rel_ops (rels e)); [|reflexivity].
  rewrite IH by (intros y Hy; apply E; now right). cbn [andb]. destruct (forallb (fun e0 => forallb rel_ops (rels e0)) es); reflexivity.
Qed.

(* well-formed layouts are readable *)
Lemma lexable_nonempty_text ts : lexable ts = true -> ts <> [] -> rttext_of ts <> [].
Proof.
  destruct ts as [|[k s] r]; [congruence|]. rewrite lexable_cons. intros H _. andb_hyps. unfold tok_valid in H. cbn [snd] in H.
  destruct s; [discriminate|]. unfold rttext_of. cbn. discriminate.
Qed.
Lemma ver_text_nonempty v : lexable (aver_body_toks v) = true -> nonempty (av_ver v) = true ->
  nonempty (rttext_of (map vpiece_tok (av_ver v))) = true.
Proof.
  intros HL Hn. unfold aver_body_toks in HL.
  assert (Hp : lexable (map vpiece_tok (av_ver v)) = true) by (eapply lexable_seg; [|exact HL]; auto 10 with seg).
  destruct (rttext_of (map vpiece_tok (av_ver v))) eqn:Et; [|reflexivity].
  exfalso. apply (lexable_nonempty_text _ Hp); [destruct (av_ver v); discriminate|exact Et].
Qed.
Lemma lrel_ok_acc r : lrel_ok r = true -> rel_acc_ok r = true /\ rel_ops r = true.
Proof.
  unfold lrel_ok, rel_acc_ok, rel_ops. intros H. andb_hyps.
  assert (Hq : match l_qual r with Some (_, q) => wsk (aq_ws1 q) | None => true end = true).
  { destruct (l_qual r) as [[w q]|]; [|reflexivity]. cbn [inner_ok] in *. andb_hyps.
    match goal with X : qual_in_ok q = true |- _ => unfold qual_in_ok in X end. now andb_hyps. }
  rewrite Hq. cbn [andb].
  destruct (l_ver r) as [[w' v]|]; [|auto]. cbn [inner_ok] in *. andb_hyps.
  match goal with X : vclause_in_ok v = true |- _ => unfold vclause_in_ok in X end. andb_hyps.
  split; [|assumption]. andb_goal; auto. now apply ver_text_nonempty.
Qed.
Lemma lentry_ok_rels e r : lentry_ok e = true -> In r (rels e) -> lrel_ok r = true.
Proof.
  rewrite lentry_ok_eq. intros H Hin. andb_hyps. unfold rels in Hin. destruct Hin as [<-|Hin]; [assumption|].
  apply in_map_iff in Hin as (a & <- & Ha). rewrite forallb_forall in H1. specialize (H1 a Ha). unfold alt_ok in H1. now andb_hyps.
Qed.
Lemma lwf_entries b l e : lwf b l = true -> In e (lentries l) -> lentry_ok e = true.
Proof.
  intros H Hin. destruct (lwf_split _ _ H) as (Hok & _). clear H. induction l as [|x r IH]; [contradiction|]. cbn [forallb] in Hok. andb_hyps.
  destruct x; try (apply IH; assumption). change (lentries (RE e0 :: r)) with (e0 :: lentries r) in Hin.
  destruct Hin as [<-|Hin]; [assumption|now apply IH].
Qed.
Lemma lwf_acc b l : lwf b l = true -> lacc_ok l = true /\ lops l = true.
Proof.
  intros H. unfold lacc_ok, lops. split; rewrite forallb_forall; intros e Hin; rewrite forallb_forall; intros r Hr;
    apply (lrel_ok_acc r (lentry_ok_rels e r (lwf_entries b l e H Hin) Hr)).
Qed.
Theorem structure_ltree b l : lwf b l = true -> structure (ltree l) = Ok (fst (lcontent l)).
Proof. intros H. destruct (lwf_acc b l H) as [Ha Ho]. now rewrite (structure_ltree_gen l Ha), Ho. Qed.
Theorem substvars_ltree l : substvar_texts (ltree l) = snd (lcontent l).
Proof.
  unfold substvar_texts, ltree, lcontent. cbn [children snd]. induction l as [|x r IH]; [reflexivity|]. cbn [map filter flat_map].
  destruct x; cbn [relem_tree relem_substvars app]; rewrite ?node_is_wtree; try exact IH.
  change (node_is SUBSTVAR (subst_node body)) with true. cbn [map]. now rewrite IH.
Qed.

(* ------------------------------------------------------------------ norm: the text of the parts *)
Lemma rt_app a b : rttext_of (a ++ b) = rttext_of a ++ rttext_of b.
Proof. unfold rttext_of. now rewrite map_app, concat_app. Qed.
Lemma rt_cons k s r : rttext_of ((k, s) :: r) = s ++ rttext_of r.
Proof. reflexivity. Qed.
Lemma rt_ws_toks s : rttext_of (ws_toks s) = s.
Proof.
  unfold rttext_of. induction s as [|c r IH]; [reflexivity|]. cbn [ws_toks]. destruct (c =? 10)%N.
  - cbn [map concat snd app]. now rewrite IH.
  - destruct (ws_toks r) as [|[k w] ts]; [cbn in *; now subst r|].
    destruct k; cbn [map concat snd app] in *; now rewrite <- IH.
Qed.
Lemma rt_relex w : rttext_of (relex w) = wstext w.
Proof. apply rt_ws_toks. Qed.
Lemma texts_one (t : rtree) : texts [t] = text t.
Proof. unfold texts. cbn [flat_map]. apply app_nil_r. Qed.
Lemma texts_elems' l : texts (elems l) = rttext_of l.
Proof. rewrite texts_elems. reflexivity. Qed.
Lemma text_qual_node q : text (qual_node q) = rttext_of (aqual_body q).
Proof.
  unfold qual_node, aqual_node, aqual_body. rewrite text_node, texts_cons, text_tok, texts_app, texts_elems', texts_one, text_tok.
  unfold t_colon. rewrite rt_cons, rt_app. unfold rttext_of at 3. cbn [map concat snd]. now rewrite app_nil_r.
Qed.
Lemma text_vnode v : text (vnode v) = rttext_of (aver_body_toks v).
Proof.
  unfold vnode, aver_node, aver_body_toks. rewrite text_node, texts_cons, text_tok, rt_cons. f_equal.
  rewrite !texts_app, !texts_elems', texts_one, text_node, texts_elems', !rt_app. reflexivity.
Qed.
Lemma text_arch_node g : text (arch_node g) = rttext_of (agroup_body_toks g).
Proof. unfold arch_node, agroup_node. now rewrite text_node, texts_elems'. Qed.
Lemma text_prof_node g : text (prof_node g) = rttext_of (pgroup_body_toks g).
Proof. unfold prof_node, pgroup_node. now rewrite text_node, texts_elems'. Qed.
Lemma text_subst_node' body : text (subst_node body) = rttext_of (asubst_toks body).
Proof. unfold subst_node, asubst_node. now rewrite text_node, texts_elems'. Qed.
Lemma texts_part {A} (f : A -> rtree) o : texts (part f o) = match o with Some (w, a) => wstext w ++ text (f a) | None => [] end.
Proof. destruct o as [[w a]|]; [|reflexivity]. cbn [part]. now rewrite texts_app, texts_wtrees, texts_one. Qed.

Lemma rel_text_nrel r extra : rttext_of (arel_toks (nrel r extra)) = text (lrel_tree r) ++ extra.
Proof.
  unfold lrel_tree. rewrite text_node. unfold lrel_children, arel_toks, arel_core_toks, nrel. cbn [a_name a_qual a_ver a_archs a_profs a_trail].
  rewrite texts_cons, text_tok, !texts_app, !texts_part, texts_wtrees. rewrite rt_app, rt_cons, !rt_app, rt_ws_toks. rewrite <- !app_assoc. f_equal.
  f_equal; [destruct (l_qual r) as [[w q]|]; [|reflexivity]; cbn [option_map opt_toks fst snd]; unfold aqual_toks; cbn [aq_ws0 aq_ws1 aq_name];
            rewrite rt_app, rt_relex, text_qual_node; reflexivity|].
  f_equal; [destruct (l_ver r) as [[w v]|]; [|reflexivity]; cbn [option_map opt_toks fst snd]; unfold aver_toks; cbn [av_ws0];
            rewrite rt_app, rt_relex, text_vnode; reflexivity|].
  f_equal; [destruct (l_archs r) as [[w g]|]; [|reflexivity]; cbn [option_map opt_toks fst snd]; unfold agroup_toks; cbn [ag_ws0];
            rewrite rt_app, rt_relex, text_arch_node; reflexivity|].
  f_equal. induction (l_profs r) as [|[w g] ps IH]; [reflexivity|]. cbn [map flat_map fst snd]. rewrite texts_app, rt_app, IH. f_equal.
  unfold prof_part, pgroup_toks. cbn [fst snd pg_ws0]. rewrite texts_app, texts_wtrees, texts_one, rt_app, rt_relex, text_prof_node. reflexivity.
Qed.
Lemma nalts_text alts : forall prev extra,
  rttext_of (arels_toks (fst (nalts prev alts extra)) (snd (nalts prev alts extra))) =
  text (lrel_tree prev) ++ texts (flat_map alt_part alts) ++ extra.
Proof.
  induction alts as [|[[w1 w2] r] rest IH]; intros prev extra; cbn [nalts].
  - cbn [fst snd arels_toks flat_map]. now rewrite app_nil_r, rel_text_nrel.
  - specialize (IH r extra). destruct (nalts r rest extra) as [r' more]. cbn [fst snd arels_toks flat_map] in *.
    rewrite rt_app, rel_text_nrel, rt_cons, rt_app, rt_relex, IH. rewrite texts_app. rewrite (alt_part_eq w1 w2 r).
    rewrite !texts_app, texts_wtrees, texts_cons, texts_wtrees, texts_one. cbn [t_pipe text].
    rewrite <- !app_assoc. cbn [app]. rewrite <- ?app_assoc. reflexivity.
Qed.
Lemma item_text_nentry e extra : rttext_of (aitem_toks (nentry e extra)) = text (lentry_tree e) ++ extra.
Proof.
  unfold nentry. pose proof (nalts_text (e_alts e) (e_first e) (wstext (e_trail e) ++ extra)) as H.
  destruct (nalts (e_first e) (e_alts e) (wstext (e_trail e) ++ extra)) as [r alts]. cbn [fst snd aitem_toks] in *. rewrite H.
  unfold lentry_tree. rewrite text_node. unfold lentry_children. rewrite texts_cons, texts_app, texts_wtrees.
  now rewrite <- !app_assoc.
Qed.

(* ------------------------------------------------------------------ norm: the shape of the segments *)
Definition comma_free (l : lroot) : bool := forallb (fun x => negb (is_rc x)) l.
Definition seg_good (need : bool) (sg : lroot) : Prop := comma_free sg = true /\ exists s, sep_run need sg = Some s.

Lemma segments_cons x r : is_rc x = false ->
  exists s ss, segments r = s :: ss /\ segments (x :: r) = (x :: s) :: ss.
Proof.
  intros Hx. assert (Hne : exists s ss, segments r = s :: ss).
  { destruct r as [|y r']; [now exists [], []|]. cbn [segments]. destruct y; try (destruct (segments r'); eauto); eauto. }
  destruct Hne as (s & ss & E). exists s, ss. split; [exact E|]. destruct x; try discriminate; cbn [segments]; now rewrite E.
Qed.
Lemma segments_good l : forall need s, sep_run need l = Some s ->
  exists s0 ss, segments l = s0 :: ss /\ seg_good need s0 /\ Forall (seg_good false) ss.
Proof.
  induction l as [|x r IH]; intros need s H.
  - exists [], []. repeat split; eauto.
  - destruct x as [w| |e|body].
    + cbn [sep_run] in H. destruct (IH _ _ H) as (s0 & ss & E & (C & s1 & G) & F).
      destruct (segments_cons (RW w) r eq_refl) as (s0' & ss' & E1 & E2). rewrite E in E1. injection E1 as <- <-.
      exists (RW w :: s0), ss. repeat split; auto. exists s1. exact G.
    + cbn [sep_run] in H. destruct (IH _ _ H) as (s0 & ss & E & G & F).
      exists [], (s0 :: ss). cbn [segments]. rewrite E. repeat split; cbn [sep_run]; eauto.
    + cbn [sep_run] in H. destruct need; [discriminate|]. destruct (IH _ _ H) as (s0 & ss & E & (C & s1 & G) & F).
      destruct (segments_cons (RE e) r eq_refl) as (s0' & ss' & E1 & E2). rewrite E in E1. injection E1 as <- <-.
      exists (RE e :: s0), ss. repeat split; auto. exists s1. exact G.
    + cbn [sep_run] in H. destruct need; [discriminate|]. destruct (IH _ _ H) as (s0 & ss & E & (C & s1 & G) & F).
      destruct (segments_cons (RS body) r eq_refl) as (s0' & ss' & E1 & E2). rewrite E in E1. injection E1 as <- <-.
      exists (RS body :: s0), ss. repeat split; auto. exists s1. exact G.
Qed.
Lemma take_ws_text l : texts (map rt l) = fst (take_ws l) ++ texts (map rt (snd (take_ws l))).
Proof.
  induction l as [|x r IH]; [reflexivity|]. destruct x as [w| | |]; try reflexivity.
  cbn [take_ws]. destruct (take_ws r) as [s r'] eqn:E. cbn [fst snd map relem_tree] in *. rewrite texts_cons, IH.
  destruct w as [[|] x]; cbn [wtree wtext text]; now rewrite app_assoc.
Qed.
Lemma take_ws_rest_not_rw l w r : snd (take_ws l) <> RW w :: r.
Proof.
  induction l as [|x l' IH]; [discriminate|]. destruct x; try discriminate.
  cbn [take_ws]. destruct (take_ws l') as [s r'] eqn:E. exact IH.
Qed.
Lemma take_ws_all_ws l : forallb is_rw l = true -> snd (take_ws l) = [].
Proof.
  induction l as [|x r IH]; [reflexivity|]. cbn [forallb]. intros H. andb_hyps. destruct x; try discriminate.
  cbn [take_ws]. specialize (IH H0). destruct (take_ws r). exact IH.
Qed.
Lemma take_ws_good need l : seg_good need l -> seg_good need (snd (take_ws l)).
Proof.
  induction l as [|x r IH]; [auto|]. intros (C & s & G). destruct x; try (split; eauto; fail).
  cbn [take_ws]. destruct (take_ws r) as [w' r'] eqn:E. cbn [snd] in *. apply IH. cbn [comma_free forallb sep_run] in *. andb_hyps. split; eauto.
Qed.
Lemma after_item_all_ws r : comma_free r = true -> (exists s, sep_run true r = Some s) -> forallb is_rw r = true.
Proof.
  induction r as [|x r IH]; [reflexivity|]. cbn [comma_free forallb]. intros C (s & G). andb_hyps.
  destruct x; try discriminate. cbn [sep_run is_rw andb] in *. apply IH; eauto.
Qed.
Inductive seg_shape : lroot -> Prop :=
| shape_empty : seg_shape []
| shape_item x r : is_item x = true -> forallb is_rw r = true -> seg_shape (x :: r).
Lemma good_shape sg : seg_good false sg -> seg_shape (snd (take_ws sg)).
Proof.
  intros H. apply take_ws_good in H. destruct H as (C & s & G).
  destruct (snd (take_ws sg)) as [|x r] eqn:E; [constructor|].
  destruct x as [w| |e|body].
  - exfalso. eapply take_ws_rest_not_rw. exact E.
  - discriminate.
  - constructor; [reflexivity|]. cbn [comma_free forallb sep_run] in *. andb_hyps. apply after_item_all_ws; eauto.
  - constructor; [reflexivity|]. cbn [comma_free forallb sep_run] in *. andb_hyps. apply after_item_all_ws; eauto.
Qed.

Lemma nseg_text sg : seg_good false sg -> rttext_of (fst (nseg sg)) ++ rttext_of (aitem_toks (snd (nseg sg))) = texts (map rt sg).
Proof.
  intros H. pose proof (good_shape sg H) as Hs. rewrite (take_ws_text sg). unfold nseg.
  destruct (take_ws sg) as [w rest]. cbn [fst snd] in *. rewrite rt_ws_toks. f_equal.
  destruct Hs as [|x r Hx Hr]; [reflexivity|]. pose proof (take_ws_text r) as Hr'. rewrite (take_ws_all_ws r Hr) in Hr'. cbn [map] in Hr'.
  rewrite texts_nil, app_nil_r in Hr'.
  destruct x as [w0| |e|body]; try discriminate; cbn [nitem map relem_tree]; rewrite texts_cons, Hr'.
  - apply item_text_nentry.
  - cbn [aitem_toks]. now rewrite rt_app, rt_ws_toks, text_subst_node'.
Qed.
Lemma items_text_flat more : forall i,
  rttext_of (aitems_toks i more) = rttext_of (aitem_toks i) ++ flat_map (fun wi => 44%N :: rttext_of (fst wi) ++ rttext_of (aitem_toks (snd wi))) more.
Proof.
  induction more as [|[w i'] more IH]; intros i; cbn [aitems_toks flat_map]; [now rewrite !app_nil_r|].
  rewrite rt_app, rt_cons, rt_app, IH. cbn [fst snd app]. now rewrite <- ?app_assoc.
Qed.
Lemma segments_text l : forall s0 ss, segments l = s0 :: ss ->
  texts (map rt l) = texts (map rt s0) ++ flat_map (fun sg => 44%N :: texts (map rt sg)) ss.
Proof.
  induction l as [|x r IH]; intros s0 ss E.
  - cbn in E. injection E as <- <-. reflexivity.
  - destruct (is_rc x) eqn:Ex.
    + destruct x; try discriminate. cbn [segments] in E. injection E as <- <-.
      destruct (segments r) as [|s1 ss1] eqn:E1.
      * exfalso. destruct r as [|y r']; [discriminate|]. cbn [segments] in E1. destruct y; try discriminate; destruct (segments r'); discriminate.
      * cbn [map relem_tree flat_map]. rewrite texts_cons, (IH _ _ eq_refl). reflexivity.
    + destruct (segments_cons x r Ex) as (s & ss' & E1 & E2). rewrite E2 in E. injection E as <- <-.
      cbn [map]. rewrite !texts_cons, (IH _ _ E1). now rewrite app_assoc.
Qed.
Theorem arender_norm b l : lwf b l = true -> arender (norm l) = text (ltree l).
Proof.
  intros H. destruct (lwf_split _ _ H) as (_ & s & Hs). destruct (segments_good l false s Hs) as (s0 & ss & E & G0 & G).
  unfold ltree. rewrite text_node, (segments_text l s0 ss E). unfold norm. rewrite E. cbn [map].
  destruct (nseg s0) as [w i] eqn:E0. unfold arender, atoks. cbn [af_lead af_first af_rest]. rewrite rt_app, items_text_flat, app_assoc.
  pose proof (nseg_text s0 G0) as H0. rewrite E0 in H0. cbn [fst snd] in H0. rewrite H0. f_equal.
  clear E. induction G as [|sg ss' Hg _ IH]; [reflexivity|]. cbn [map flat_map]. rewrite IH. now rewrite (nseg_text sg Hg).
Qed.

(* ------------------------------------------------------------------ norm: the shape the parser needs *)
Lemma nrel_shape r extra : lrel_ok r = true -> arel_ok (nrel r extra) = true.
Proof.
  unfold lrel_ok, arel_ok, nrel. intros H. andb_hyps. cbn [a_name a_qual a_ver a_archs a_profs a_trail]. andb_goal; try apply wsk_ws_toks.
  - destruct (l_qual r) as [[w q]|]; [|reflexivity]. cbn [inner_ok option_map opt_ok fst snd] in *. andb_hyps.
    match goal with Hq : qual_in_ok q = true |- _ => unfold qual_in_ok in Hq end. andb_hyps.
    unfold aqual_ok. cbn [aq_ws0 aq_ws1]. unfold relex. rewrite wsk_ws_toks. now andb_goal.
  - destruct (l_ver r) as [[w v]|]; [|reflexivity]. cbn [inner_ok option_map opt_ok fst snd] in *. andb_hyps.
    match goal with Hq : vclause_in_ok v = true |- _ => unfold vclause_in_ok in Hq end. andb_hyps.
    unfold aver_ok. cbn [av_ws0 av_ws1 av_ws2 av_ws3 av_op av_ver]. unfold relex. rewrite wsk_ws_toks. now andb_goal.
  - destruct (l_archs r) as [[w g]|]; [|reflexivity]. cbn [inner_ok option_map opt_ok fst snd] in *. andb_hyps.
    match goal with Hq : group_in_ok g = true |- _ => unfold group_in_ok in Hq end. andb_hyps.
    unfold agroup_ok. cbn [ag_ws0 ag_atoms ag_ws1]. unfold relex. rewrite wsk_ws_toks. now andb_goal.
  - rewrite forallb_forall in *. intros x Hx. apply in_map_iff in Hx as ([w g] & <- & Hin).
    match goal with Hq : forall x, In x (l_profs r) -> _ |- _ => specialize (Hq _ Hin) end. cbn [fst snd] in *.
    andb_hyps. match goal with Hq : pgroup_in_ok g = true |- _ => unfold pgroup_in_ok in Hq end. andb_hyps.
    unfold pgroup_ok. cbn [pg_ws0 pg_terms pg_ws1]. unfold relex. rewrite wsk_ws_toks. now andb_goal.
Qed.
Lemma nalts_shape alts : forall prev extra, lrel_ok prev = true -> forallb alt_ok alts = true ->
  arel_ok (fst (nalts prev alts extra)) = true /\ forallb aalt_ok (snd (nalts prev alts extra)) = true.
Proof.
  induction alts as [|[[w1 w2] r] rest IH]; intros prev extra Hp Ha; cbn [nalts].
  - cbn [fst snd forallb]. split; [now apply nrel_shape|reflexivity].
  - cbn [forallb] in Ha. apply andb_prop in Ha as [Ha1 Ha2]. unfold alt_ok in Ha1. cbn [fst snd] in Ha1. andb_hyps.
    destruct (IH r extra) as [I1 I2]; try assumption. destruct (nalts r rest extra) as [r' more]. cbn [fst snd forallb] in *.
    split; [now apply nrel_shape|]. unfold aalt_ok at 1. cbn [fst snd]. unfold relex. now rewrite wsk_ws_toks, I1, I2.
Qed.
Lemma nentry_shape b e extra : lentry_ok e = true -> aitem_ok b (nentry e extra) = true.
Proof.
  intros H. rewrite lentry_ok_eq in H. andb_hyps. unfold nentry.
  destruct (nalts_shape (e_alts e) (e_first e) (wstext (e_trail e) ++ extra)) as [I1 I2]; try assumption.
  destruct (nalts (e_first e) (e_alts e) (wstext (e_trail e) ++ extra)) as [r alts]. cbn [fst snd aitem_ok] in *. now rewrite I1, I2.
Qed.
Lemma take_ws_elems b l : forallb (relem_ok b) l = true -> forallb (relem_ok b) (snd (take_ws l)) = true.
Proof.
  induction l as [|x r IH]; [auto|]. intros H. destruct x as [w| | |]; try exact H.
  cbn [forallb relem_ok] in H. apply andb_prop in H as [_ Hr]. specialize (IH Hr). cbn [take_ws]. destruct (take_ws r) as [s r']. exact IH.
Qed.
Lemma nseg_shape b sg : forallb (relem_ok b) sg = true -> amore_ok b (nseg sg) = true.
Proof.
  intros H. pose proof (take_ws_elems b sg H) as H2. unfold nseg. destruct (take_ws sg) as [w rest]. cbn [fst snd] in *.
  unfold amore_ok. cbn [fst snd]. rewrite wsk_ws_toks. cbn [andb].
  destruct rest as [|x r]; [reflexivity|]. cbn [forallb] in H2. apply andb_prop in H2 as [Hx Hr].
  destruct x as [w0| |e|body]; try reflexivity; cbn [nitem relem_ok] in *.
  - now apply nentry_shape.
  - cbn [aitem_ok]. andb_hyps. rewrite wsk_ws_toks. now andb_goal.
Qed.
Lemma segments_forall (p : relem -> bool) l : forallb p l = true -> Forall (fun sg => forallb p sg = true) (segments l).
Proof.
  induction l as [|x r IH]; [repeat constructor|]. cbn [forallb]. intros H. apply andb_prop in H as [Hx H0]. specialize (IH H0).
  destruct (is_rc x) eqn:Ex.
  - destruct x; try discriminate. cbn [segments]. constructor; [reflexivity|exact IH].
  - destruct (segments_cons x r Ex) as (s & ss & E1 & E2). rewrite E2. rewrite E1 in IH. inversion IH; subst.
    constructor; [|assumption]. cbn [forallb]. now andb_goal.
Qed.
Theorem ashape_norm b l : lwf b l = true -> ashape b (norm l) = true.
Proof.
  intros H. destruct (lwf_split _ _ H) as (Hok & _). pose proof (segments_forall _ _ Hok) as HF.
  unfold norm. destruct (segments l) as [|s0 ss]; [reflexivity|]. inversion HF as [|? ? H0 Hs]; subst. cbn [map].
  pose proof (nseg_shape b s0 H0) as Hn. destruct (nseg s0) as [w i]. unfold amore_ok in Hn. cbn [fst snd] in Hn. andb_hyps.
  unfold ashape. cbn [af_lead af_first af_rest]. andb_goal; auto.
  clear HF. induction Hs as [|sg ss' Hsg _ IH]; [reflexivity|]. cbn [map forallb]. now rewrite (nseg_shape b sg Hsg), IH.
Qed.

(* ------------------------------------------------------------------ the content of a liberal layout, and norm / live_of keep it *)
Definition arel_cont (r : arel) : relrec :=
  mk_relrec (a_name r) (option_map aq_name (a_qual r))
            (match a_ver r with Some v => ver_content v | None => None end)
            (option_map (fun g => arch_names (children (agroup_node g)) false) (a_archs r))
            (map (fun g => profile_group (children (pgroup_node g)) [] false) (a_profs r)).
Definition aitem_conts (i : aitem) : list (list relrec) :=
  match i with AEntry r alts => [arel_cont r :: map (fun wr => arel_cont (snd wr)) alts] | _ => [] end.
Definition aitem_substs (i : aitem) : list str := match i with ASubst body _ => [text (subst_node body)] | _ => [] end.
Definition acont (g : afield) : lfield * list str :=
  (flat_map aitem_conts (af_items g), flat_map aitem_substs (af_items g)).

Lemma lrel_content_of r last : lrel_content (lrel_of r last) = arel_cont r.
Proof.
  unfold lrel_content, lrel_of, arel_cont. cbn [l_name l_qual l_ver l_archs l_profs]. f_equal.
  - now destruct (a_qual r).
  - now destruct (a_ver r).
  - now destruct (a_archs r).
  - rewrite map_map. reflexivity.
Qed.
Lemma lalts_content alts : forall r last,
  map (fun a => lrel_content (snd a)) (fst (lalts_of r alts last)) = map (fun wr => arel_cont (snd wr)) alts.
Proof.
  induction alts as [|[w r'] alts' IH]; intros r last; [reflexivity|]. cbn [lalts_of]. specialize (IH r' last).
  destruct (lalts_of r' alts' last) as [rest trail]. cbn [fst snd map] in *. now rewrite IH, lrel_content_of.
Qed.
Lemma lentry_content_of r alts last :
  lentry_content (lentry_of r alts last) = arel_cont r :: map (fun wr => arel_cont (snd wr)) alts.
Proof.
  unfold lentry_of. pose proof (lalts_content alts r last) as H. destruct (lalts_of r alts last) as [la trail].
  unfold lentry_content. cbn [e_first e_alts fst] in *. now rewrite lrel_content_of, H.
Qed.
Lemma rws_entries s : flat_map relem_entries (rws s) = [].
Proof. unfold rws. induction (wsl_of s) as [|a l IHl]; [reflexivity|]. exact IHl. Qed.
Lemma rws_substs s : flat_map relem_substvars (rws s) = [].
Proof. unfold rws. induction (wsl_of s) as [|a l IHl]; [reflexivity|]. exact IHl. Qed.
Lemma litem_content i last :
  flat_map relem_entries (litem_of i last) = aitem_conts i /\ flat_map relem_substvars (litem_of i last) = aitem_substs i.
Proof.
  destruct i as [r alts|body trail|]; cbn [litem_of aitem_conts aitem_substs flat_map relem_entries relem_substvars app].
  - now rewrite rws_entries, rws_substs, lentry_content_of.
  - now rewrite rws_entries, rws_substs.
  - auto.
Qed.
Lemma litems_content more : forall i,
  flat_map relem_entries (litems_of i more) = flat_map aitem_conts (i :: map snd more) /\
  flat_map relem_substvars (litems_of i more) = flat_map aitem_substs (i :: map snd more).
Proof.
  induction more as [|[w i'] more IH]; intros i; cbn [litems_of map snd]; rewrite !flat_map_app.
  - destruct (litem_content i (is_nil (@nil (list rtoken * aitem)))) as [-> ->]; cbn [flat_map]. now rewrite !app_nil_r.
  - destruct (litem_content i (is_nil ((w, i') :: more))) as [-> ->]; cbn [flat_map].
    destruct (IH i') as [H1 H2]. cbn [relem_entries relem_substvars app]. rewrite !flat_map_app, rws_entries, rws_substs, H1, H2.
    split; reflexivity.
Qed.
Theorem lcontent_live_of g : lcontent (live_of g) = acont g.
Proof.
  unfold lcontent, live_of, acont, af_items. rewrite !flat_map_app, rws_entries, rws_substs.
  destruct (litems_content (af_rest g) (af_first g)) as [-> ->]. reflexivity.
Qed.

Lemma rel_content_nrel r extra : arel_cont (nrel r extra) = lrel_content r.
Proof.
  unfold arel_cont, nrel, lrel_content. cbn [a_name a_qual a_ver a_archs a_profs]. f_equal.
  - now destruct (l_qual r) as [[w q]|].
  - destruct (l_ver r) as [[w v]|]; reflexivity.
  - now destruct (l_archs r) as [[w g]|].
  - rewrite map_map. reflexivity.
Qed.
Lemma nalts_content alts : forall prev extra,
  arel_cont (fst (nalts prev alts extra)) :: map (fun wr => arel_cont (snd wr)) (snd (nalts prev alts extra))
  = lrel_content prev :: map (fun a => lrel_content (snd a)) alts.
Proof.
  induction alts as [|[[w1 w2] r] rest IH]; intros prev extra; cbn [nalts].
  - cbn [fst snd map]. now rewrite rel_content_nrel.
  - specialize (IH r extra). destruct (nalts r rest extra) as [r' more]. cbn [fst snd map] in *. now rewrite rel_content_nrel, IH.
Qed.
Lemma item_entries_nentry e extra : aitem_conts (nentry e extra) = [lentry_content e] /\ aitem_substs (nentry e extra) = [].
Proof.
  unfold nentry. pose proof (nalts_content (e_alts e) (e_first e) (wstext (e_trail e) ++ extra)) as H.
  destruct (nalts (e_first e) (e_alts e) (wstext (e_trail e) ++ extra)) as [r alts]. cbn [fst snd aitem_conts aitem_substs] in *.
  now rewrite H.
Qed.
Lemma all_ws_content r : forallb is_rw r = true -> flat_map relem_entries r = [] /\ flat_map relem_substvars r = [].
Proof. induction r as [|x r IH]; [auto|]. cbn [forallb]. intros H. andb_hyps. destruct x; try discriminate. now apply IH. Qed.
Lemma take_ws_content l : flat_map relem_entries l = flat_map relem_entries (snd (take_ws l)) /\
                          flat_map relem_substvars l = flat_map relem_substvars (snd (take_ws l)).
Proof.
  induction l as [|x r IH]; [auto|]. destruct x; try (split; reflexivity). cbn [take_ws]. destruct (take_ws r) as [s r']. exact IH.
Qed.
Lemma nseg_content sg : seg_good false sg ->
  aitem_conts (snd (nseg sg)) = flat_map relem_entries sg /\ aitem_substs (snd (nseg sg)) = flat_map relem_substvars sg.
Proof.
  intros H. pose proof (good_shape sg H) as Hs. destruct (take_ws_content sg) as [-> ->]. unfold nseg.
  destruct (take_ws sg) as [w rest]. cbn [fst snd] in *.
  destruct Hs as [|x r Hx Hr]; [auto|]. destruct (all_ws_content r Hr) as [R1 R2].
  destruct x as [w0| |e|body]; try discriminate; cbn [nitem flat_map relem_entries relem_substvars]; rewrite R1, R2.
  - apply item_entries_nentry.
  - auto.
Qed.
Lemma segments_content l : forall s0 ss, segments l = s0 :: ss ->
  flat_map relem_entries l = flat_map (flat_map relem_entries) (s0 :: ss) /\
  flat_map relem_substvars l = flat_map (flat_map relem_substvars) (s0 :: ss).
Proof.
  induction l as [|x r IH]; intros s0 ss E.
  - cbn in E. injection E as <- <-. auto.
  - destruct (is_rc x) eqn:Ex.
    + destruct x; try discriminate. cbn [segments] in E. injection E as <- <-.
      destruct (segments r) as [|s1 ss1] eqn:E1.
      * exfalso. destruct r as [|y r']; [discriminate|]. cbn [segments] in E1. destruct y; try discriminate; destruct (segments r'); discriminate.
      * destruct (IH _ _ eq_refl) as [I1 I2]. cbn [flat_map relem_entries relem_substvars app] in *. auto.
    + destruct (segments_cons x r Ex) as (s & ss' & E1 & E2). rewrite E2 in E. injection E as <- <-.
      destruct (IH _ _ E1) as [I1 I2]. cbn [flat_map] in *. rewrite I1, I2, <- !app_assoc. auto.
Qed.
Theorem acont_norm b l : lwf b l = true -> acont (norm l) = lcontent l.
Proof.
  intros H. destruct (lwf_split _ _ H) as (_ & s & Hs). destruct (segments_good l false s Hs) as (s0 & ss & E & G0 & G).
  unfold lcontent. destruct (segments_content l s0 ss E) as [-> ->]. unfold norm. rewrite E. cbn [map].
  destruct (nseg_content s0 G0) as [H1 H2]. destruct (nseg s0) as [w i]. cbn [snd] in *.
  unfold acont, af_items. cbn [af_first af_rest flat_map]. rewrite H1, H2. rewrite map_map.
  assert (HG : flat_map aitem_conts (map (fun x => snd (nseg x)) ss) = flat_map (flat_map relem_entries) ss /\
               flat_map aitem_substs (map (fun x => snd (nseg x)) ss) = flat_map (flat_map relem_substvars) ss).
  { clear E. induction G as [|sg ss' Hg _ IH]; [auto|]. destruct IH as [I1 I2]. destruct (nseg_content sg Hg) as [K1 K2].
    cbn [map flat_map]. now rewrite I1, I2, K1, K2. }
  destruct HG as [-> ->]. reflexivity.
Qed.

(* the operators stay readable *)
Lemma nrel_ops r extra : arel_opsok (nrel r extra) = rel_ops r.
Proof. unfold arel_opsok, nrel, rel_ops. cbn [a_ver]. destruct (l_ver r) as [[w v]|]; reflexivity. Qed.
Lemma nalts_ops alts : forall prev extra,
  arel_opsok (fst (nalts prev alts extra)) && forallb (fun wr => arel_opsok (snd wr)) (snd (nalts prev alts extra))
  = rel_ops prev && forallb (fun a => rel_ops (snd a)) alts.
Proof.
  induction alts as [|[[w1 w2] r] rest IH]; intros prev extra; cbn [nalts].
  - cbn [fst snd forallb]. now rewrite nrel_ops.
  - specialize (IH r extra). destruct (nalts r rest extra) as [r' more]. cbn [fst snd forallb] in *. now rewrite nrel_ops, IH.
Qed.
Lemma nentry_ops e extra : lentry_ok e = true -> aitem_opsok (nentry e extra) = true.
Proof.
  intros H. unfold nentry. pose proof (nalts_ops (e_alts e) (e_first e) (wstext (e_trail e) ++ extra)) as Hn.
  destruct (nalts (e_first e) (e_alts e) (wstext (e_trail e) ++ extra)) as [r alts]. cbn [fst snd aitem_opsok] in *. rewrite Hn.
  andb_goal; [apply lrel_ok_acc, (lentry_ok_rels e); [exact H|now left]|].
  rewrite forallb_forall. intros a Ha. apply lrel_ok_acc, (lentry_ok_rels e); [exact H|]. right. now apply in_map.
Qed.
Lemma nseg_ops b sg : forallb (relem_ok b) sg = true -> aitem_opsok (snd (nseg sg)) = true.
Proof.
  intros H. pose proof (take_ws_elems b sg H) as H2. unfold nseg. destruct (take_ws sg) as [w rest]. cbn [fst snd] in *.
  destruct rest as [|x r]; [reflexivity|]. cbn [forallb] in H2. apply andb_prop in H2 as [Hx Hr].
  destruct x as [w0| |e|body]; try reflexivity. cbn [nitem relem_ok] in *. now apply nentry_ops.
Qed.
Theorem opsok_norm b l : lwf b l = true -> afield_opsok (norm l) = true.
Proof.
  intros H. destruct (lwf_split _ _ H) as (Hok & _). pose proof (segments_forall _ _ Hok) as HF.
  unfold norm. destruct (segments l) as [|s0 ss]; [reflexivity|]. inversion HF as [|? ? H0 Hs]; subst. cbn [map].
  pose proof (nseg_ops b s0 H0) as Hn. destruct (nseg s0) as [w i]. cbn [snd] in Hn.
  unfold afield_opsok, af_items. cbn [af_first af_rest forallb]. rewrite Hn. cbn [andb].
  clear HF. induction Hs as [|sg ss' Hsg _ IH]; [reflexivity|]. cbn [map forallb]. now rewrite (nseg_ops b sg Hsg), IH.
Qed.

(* ------------------------------------------------------------------ norm: a token list the lexer produces *)
(* scanning a token list from the left; the state is the class of the previous token *)
Inductive cls := cWS | cID | cO.
Definition cls_of (k : rkind) : cls := match k with WHITESPACE => cWS | IDENT => cID | _ => cO end.
Definition adj_c (c : option cls) (k : cls) : bool :=
  match c, k with Some cWS, cWS => false | Some cID, cID => false | _, _ => true end.
Fixpoint scan (c : option cls) (ts : list rtoken) : option (option cls) :=
  match ts with
  | [] => Some c
  | t :: r => if tok_valid t && adj_c c (cls_of (fst t)) then scan (Some (cls_of (fst t))) r else None
  end.
Fixpoint end_cls (c : option cls) (ts : list rtoken) : option cls :=
  match ts with [] => c | t :: r => end_cls (Some (cls_of (fst t))) r end.
Definition nid (c : option cls) : Prop := c <> Some cID.
Definition nws (c : option cls) : Prop := c <> Some cWS.

Lemma adj_ok_c a b : adj_ok a b = adj_c (Some (cls_of a)) (cls_of b).
Proof. destruct a, b; reflexivity. Qed.
Lemma scan_app a : forall c b, scan c (a ++ b) = match scan c a with Some c' => scan c' b | None => None end.
Proof. induction a as [|t r IH]; intros c b; [reflexivity|]. cbn [app scan]. destruct (tok_valid t && adj_c c (cls_of (fst t))); [apply IH|reflexivity]. Qed.
Lemma scan_lexable ts : forall c c', scan c ts = Some c' -> lexable ts = true.
Proof.
  induction ts as [|t r IH]; intros c c' H; [reflexivity|]. cbn [scan] in H.
  destruct (tok_valid t && adj_c c (cls_of (fst t))) eqn:E; [|discriminate]. andb_hyps.
  rewrite lexable_cons, H0, (IH _ _ H). destruct r as [|t' r']; [reflexivity|]. cbn [scan] in H.
  rewrite adj_ok_c. destruct (tok_valid t' && adj_c (Some (cls_of (fst t))) (cls_of (fst t'))) eqn:E'; [|discriminate]. andb_hyps.
  now rewrite H3.
Qed.
Lemma scan_of_lexable ts : lexable ts = true -> forall c,
  match ts with t :: _ => adj_c c (cls_of (fst t)) | [] => true end = true -> scan c ts = Some (end_cls c ts).
Proof.
  induction ts as [|t r IH]; intros H c Hc; [reflexivity|]. rewrite lexable_cons in H. andb_hyps. cbn [scan end_cls].
  rewrite H, Hc. cbn [andb]. apply IH; [assumption|]. destruct r as [|t' r']; [reflexivity|]. now rewrite <- adj_ok_c.
Qed.
Lemma end_cls_snoc a t : forall c, end_cls c (a ++ [t]) = Some (cls_of (fst t)).
Proof. induction a as [|x r IH]; intros c; [reflexivity|]. cbn [app end_cls]. apply IH. Qed.
Lemma end_cls_ws ts : wsk ts = true -> forall c, nid c -> nid (end_cls c ts).
Proof.
  unfold wsk. induction ts as [|[k s] r IH]; intros H c Hc; [exact Hc|]. cbn [forallb fst] in H. andb_hyps. cbn [end_cls fst].
  apply IH; [assumption|]. destruct k; try discriminate; unfold nid; cbn; congruence.
Qed.

(* white space texts *)
Definition is_wsc (c : char) : bool := is_rel_ws c || (c =? 10)%N.
Definition wss (s : str) : bool := forallb is_wsc s.
Lemma ws_single_none c : is_rel_ws c = true -> single_char_kind c = None.
Proof. intros H. destruct (single_char_kind c) as [k|] eqn:E; [|reflexivity]. apply single_not_ws in E. congruence. Qed.
Lemma single_not_wskind c : single_char_kind c <> Some WHITESPACE.
Proof. unfold single_char_kind. repeat match goal with |- context [(c =? ?k)%N] => destruct (c =? k)%N end; discriminate. Qed.
Lemma ws_toks_lexable s : wss s = true -> lexable (ws_toks s) = true.
Proof.
  unfold wss. induction s as [|c r IH]; [reflexivity|]. cbn [forallb]. intros H. andb_hyps. specialize (IH H0). cbn [ws_toks].
  destruct (c =? 10)%N eqn:Ec.
  - apply N.eqb_eq in Ec. subst c. rewrite lexable_cons, IH. destruct (ws_toks r) as [|[k x] t]; reflexivity.
  - unfold is_wsc in H. rewrite Ec, orb_false_r in H.
    destruct (ws_toks r) as [|[k w] ts] eqn:Er.
    + rewrite lexable_cons. unfold tok_valid. cbn [fst snd]. now rewrite (ws_single_none c H), H.
    + destruct k; try (rewrite lexable_cons, IH; unfold tok_valid; cbn [fst snd]; rewrite (ws_single_none c H), H; reflexivity).
      rewrite lexable_cons in IH. andb_hyps. rewrite lexable_cons. unfold tok_valid in *. cbn [fst snd] in *.
      rewrite (ws_single_none c H), H. cbn [rkind_eqb andb forallb].
      destruct w as [|c' w']; [discriminate|]. destruct (single_char_kind c') as [k0|] eqn:Es.
      { exfalso. match goal with X : rkind_eqb WHITESPACE k0 && _ = true |- _ => apply andb_prop in X as [X _]; apply rkind_eqb_eq in X; subst k0 end. now apply (single_not_wskind c'). }
      destruct (is_rel_ws c') eqn:Ew.
      * andb_hyps. cbn [forallb]. rewrite Ew. andb_goal; auto.
      * destruct (is_ident_char c'); andb_hyps; discriminate.
Qed.
Lemma scan_slot s c : wss s = true -> nws c -> scan c (ws_toks s) = Some (end_cls c (ws_toks s)).
Proof.
  intros Hs Hc. apply scan_of_lexable; [now apply ws_toks_lexable|]. pose proof (wsk_ws_toks s) as Hk. unfold wsk in Hk.
  destruct (ws_toks s) as [|[k x] t]; [reflexivity|]. cbn [forallb fst] in Hk. andb_hyps.
  destruct k; try discriminate; destruct c as [[| |]|]; try reflexivity. exfalso. now apply Hc.
Qed.
Lemma slot_nid s c : nid c -> nid (end_cls c (ws_toks s)).
Proof. apply end_cls_ws, wsk_ws_toks. Qed.

Lemma single_newline c : single_char_kind c = Some NEWLINE -> (c =? 10)%N = true.
Proof. unfold single_char_kind. repeat match goal with |- context [(c =? ?k)%N] => destruct (c =? k)%N eqn:? end; try discriminate; reflexivity. Qed.
Lemma wtok_ok_wss w : wtok_ok w = true -> wss (wtext w) = true.
Proof.
  unfold wtok_ok, tok_valid, wss. destruct w as [[|] s]; cbn [wtok_tok fst snd wtext]; destruct s as [|c r]; try discriminate.
  - destruct (single_char_kind c) as [k|] eqn:E.
    + intros H. andb_hyps. apply rkind_eqb_eq in H. subst k. destruct r; [|discriminate]. cbn [forallb]. unfold is_wsc. now rewrite (single_newline c E), orb_true_r.
    + destruct (is_rel_ws c); [intros H; andb_hyps; discriminate|]. destruct (is_ident_char c); intros H; andb_hyps; discriminate.
  - destruct (single_char_kind c) as [k|] eqn:E.
    + intros H. andb_hyps. apply rkind_eqb_eq in H. subst k. exfalso. now apply (single_not_wskind c).
    + destruct (is_rel_ws c) eqn:Ew; [|destruct (is_ident_char c); intros H; andb_hyps; discriminate].
      intros H. andb_hyps. cbn [forallb]. unfold is_wsc. rewrite Ew. cbn [orb andb].
      rewrite forallb_forall in *. intros x Hx. now rewrite (H0 x Hx).
Qed.
Lemma wsl_ok_wss w : wsl_ok w = true -> wss (wstext w) = true.
Proof.
  unfold wsl_ok, wss. induction w as [|t r IH]; [reflexivity|]. cbn [forallb wstext flat_map]. intros H. andb_hyps.
  rewrite forallb_app. andb_goal; [now apply wtok_ok_wss|now apply IH].
Qed.
Lemma wss_app a b : wss (a ++ b) = wss a && wss b.
Proof. apply forallb_app. Qed.
Lemma take_ws_wss b l : forallb (relem_ok b) l = true -> wss (fst (take_ws l)) = true.
Proof.
  induction l as [|x r IH]; [reflexivity|]. intros H. destruct x as [w| | |]; try reflexivity.
  cbn [forallb relem_ok] in H. andb_hyps. specialize (IH H0). cbn [take_ws]. destruct (take_ws r) as [s r']. cbn [fst] in *.
  rewrite wss_app. andb_goal; [now apply wtok_ok_wss|exact IH].
Qed.

(* the pieces *)
Lemma scan_body c t body : lexable (t :: body) = true -> cls_of (fst t) = cO ->
  scan c (t :: body) = Some (end_cls c (t :: body)).
Proof. intros H Hk. apply scan_of_lexable; [exact H|]. rewrite Hk. now destruct c as [[| |]|]. Qed.
Definition body_end (ts : list rtoken) : Prop := exists a t, ts = a ++ [t] /\ cls_of (fst t) <> cWS.
Lemma body_end_nws ts c : body_end ts -> nws (end_cls c ts).
Proof. intros (a & t & -> & Ht). rewrite end_cls_snoc. unfold nws. congruence. Qed.

Lemma scan_part {A} (mk : list rtoken -> A -> list rtoken) (body : A -> list rtoken) w a c t bd :
  (forall ws0, mk ws0 a = ws0 ++ body a) -> body a = t :: bd -> cls_of (fst t) = cO -> body_end (body a) ->
  wsl_ok w = true -> lexable (body a) = true -> nws c ->
  exists c', scan c (mk (relex w) a) = Some c' /\ nws c'.
Proof.
  intros Hmk Hb Hk He Hw Hl Hc. rewrite Hmk, scan_app. unfold relex. rewrite (scan_slot _ c (wsl_ok_wss w Hw) Hc).
  rewrite Hb in *. rewrite (scan_body _ t bd Hl Hk). eexists. split; [reflexivity|]. now apply body_end_nws.
Qed.
Lemma snoc_end {A} (x : A) l : exists a t, x :: l = a ++ [t].
Proof. revert x. induction l as [|y r IH]; intros x; [now exists [], x|]. destruct (IH y) as (a & t & ->). now exists (x :: a), t. Qed.

Lemma scan_rel r extra c : lrel_ok r = true -> wss extra = true -> nid c ->
  exists c', scan c (arel_toks (nrel r extra)) = Some c'.
Proof.
  unfold lrel_ok. intros H He Hc. andb_hyps.
  unfold arel_toks, arel_core_toks, nrel. cbn [a_name a_qual a_ver a_archs a_profs a_trail].
  cbn [app scan fst]. unfold name_ok in H. rewrite H.
  assert (Ha : adj_c c (cls_of IDENT) = true) by (destruct c as [[| |]|]; try reflexivity; exfalso; now apply Hc).
  rewrite Ha. cbn [andb]. rewrite <- !app_assoc.
  (* qualifier *)
  assert (Hq : exists c1, scan (Some (cls_of IDENT))
                 (opt_toks aqual_toks (option_map (fun wq => mk_aqual (relex (fst wq)) (aq_ws1 (snd wq)) (aq_name (snd wq))) (l_qual r))) = Some c1 /\ nws c1).
  { destruct (l_qual r) as [[w q]|]; [|eexists; split; [reflexivity|unfold nws; cbn; congruence]].
    cbn [inner_ok option_map opt_toks fst snd] in *. andb_hyps.
    match goal with X : qual_in_ok q = true |- _ => unfold qual_in_ok in X end. andb_hyps.
    apply (scan_part (fun ws0 q0 => aqual_toks (mk_aqual ws0 (aq_ws1 q0) (aq_name q0))) aqual_body w q _ t_colon (aq_ws1 q ++ [(IDENT, aq_name q)]));
      try assumption; try reflexivity.
    - exists (t_colon :: aq_ws1 q), (IDENT, aq_name q). split; [reflexivity|discriminate].
    - unfold nws. cbn. congruence. }
  destruct Hq as (c1 & S1 & N1). rewrite scan_app, S1.
  (* version *)
  assert (Hv : exists c2, scan c1
                 (opt_toks aver_toks (option_map (fun wv => mk_aver (relex (fst wv)) (av_ws1 (snd wv)) (av_op (snd wv)) (av_ws2 (snd wv)) (av_ver (snd wv)) (av_ws3 (snd wv))) (l_ver r))) = Some c2 /\ nws c2).
  { destruct (l_ver r) as [[w v]|]; [|eexists; split; [reflexivity|exact N1]].
    cbn [inner_ok option_map opt_toks fst snd] in *. andb_hyps.
    match goal with X : vclause_in_ok v = true |- _ => unfold vclause_in_ok in X end. andb_hyps.
    apply (scan_part (fun ws0 v0 => aver_toks (mk_aver ws0 (av_ws1 v0) (av_op v0) (av_ws2 v0) (av_ver v0) (av_ws3 v0))) aver_body_toks w v _ (L_PARENS, [40%N])
             (av_ws1 v ++ map op_tok (av_op v) ++ av_ws2 v ++ map vpiece_tok (av_ver v) ++ av_ws3 v ++ [(R_PARENS, [41%N])]));
      try assumption; try reflexivity.
    exists ((L_PARENS, [40%N]) :: av_ws1 v ++ map op_tok (av_op v) ++ av_ws2 v ++ map vpiece_tok (av_ver v) ++ av_ws3 v), (R_PARENS, [41%N]).
    split; [unfold aver_body_toks; cbn [app]; now rewrite <- !app_assoc|discriminate]. }
  destruct Hv as (c2 & S2 & N2). rewrite scan_app, S2.
  (* architectures *)
  assert (Hg : exists c3, scan c2
                 (opt_toks agroup_toks (option_map (fun wg => mk_agroup (relex (fst wg)) (ag_atoms (snd wg)) (ag_ws1 (snd wg))) (l_archs r))) = Some c3 /\ nws c3).
  { destruct (l_archs r) as [[w g]|]; [|eexists; split; [reflexivity|exact N2]].
    cbn [inner_ok option_map opt_toks fst snd] in *. andb_hyps.
    match goal with X : group_in_ok g = true |- _ => unfold group_in_ok in X end. andb_hyps.
    apply (scan_part (fun ws0 g0 => agroup_toks (mk_agroup ws0 (ag_atoms g0) (ag_ws1 g0))) agroup_body_toks w g _ (L_BRACKET, [91%N])
             (flat_map watom_toks (ag_atoms g) ++ ag_ws1 g ++ [(R_BRACKET, [93%N])]));
      try assumption; try reflexivity.
    exists ((L_BRACKET, [91%N]) :: flat_map watom_toks (ag_atoms g) ++ ag_ws1 g), (R_BRACKET, [93%N]).
    split; [unfold agroup_body_toks; cbn [app]; now rewrite <- !app_assoc|discriminate]. }
  destruct Hg as (c3 & S3 & N3). rewrite scan_app, S3.
  (* profiles *)
  assert (Hp : forall ps c4, nws c4 ->
            forallb (fun wg : wsl * pgroup => wsl_ok (fst wg) && pgroup_in_ok (snd wg)) ps = true ->
            exists c5, scan c4 (flat_map pgroup_toks (map (fun wg => mk_pgroup (relex (fst wg)) (pg_terms (snd wg)) (pg_ws1 (snd wg))) ps)) = Some c5 /\ nws c5).
  { induction ps as [|[w g] rest IHp]; intros c4 N4 Hps; [eexists; split; [reflexivity|exact N4]|].
    cbn [forallb fst snd] in Hps. andb_hyps. match goal with X : pgroup_in_ok g = true |- _ => unfold pgroup_in_ok in X end. andb_hyps.
    cbn [map flat_map fst snd].
    destruct (scan_part (fun ws0 g0 => pgroup_toks (mk_pgroup ws0 (pg_terms g0) (pg_ws1 g0))) pgroup_body_toks w g c4 (L_ANGLE, [60%N])
             (flat_map wpterm_toks (pg_terms g) ++ pg_ws1 g ++ [(R_ANGLE, [62%N])])) as (c' & S' & N'); try assumption; try reflexivity.
    { exists ((L_ANGLE, [60%N]) :: flat_map wpterm_toks (pg_terms g) ++ pg_ws1 g), (R_ANGLE, [62%N]).
      split; [unfold pgroup_body_toks; cbn [app]; now rewrite <- !app_assoc|discriminate]. }
    rewrite scan_app, S'. now apply IHp. }
  destruct (Hp (l_profs r) c3 N3) as (c5 & S5 & N5); [assumption|]. rewrite scan_app, S5.
  (* trailing white space *)
  rewrite scan_slot; [eauto| |exact N5]. rewrite wss_app. andb_goal; [now apply wsl_ok_wss|exact He].
Qed.
Lemma scan_alts alts : forall prev extra c, lrel_ok prev = true -> forallb alt_ok alts = true -> wss extra = true -> nid c ->
  exists c', scan c (arels_toks (fst (nalts prev alts extra)) (snd (nalts prev alts extra))) = Some c'.
Proof.
  induction alts as [|[[w1 w2] r] rest IH]; intros prev extra c Hp Ha He Hc; cbn [nalts].
  - cbn [fst snd arels_toks]. rewrite app_nil_r. now apply scan_rel.
  - cbn [forallb] in Ha. andb_hyps. unfold alt_ok in H. cbn [fst snd] in H. andb_hyps.
    specialize (IH r extra). destruct (nalts r rest extra) as [r' more]. cbn [fst snd arels_toks] in *.
    destruct (scan_rel prev (wstext w1) c Hp (wsl_ok_wss _ H) Hc) as (c1 & S1). rewrite scan_app, S1.
    cbn [scan fst]. change (tok_valid (PIPE, [124%N])) with true. replace (adj_c c1 (cls_of PIPE)) with true by (now destruct c1 as [[| |]|]).
    cbn [andb]. rewrite scan_app. unfold relex. rewrite scan_slot; [|now apply wsl_ok_wss|unfold nws; cbn; congruence].
    apply IH; try assumption. apply slot_nid. unfold nid. cbn. congruence.
Qed.
Lemma scan_item b x r c : relem_ok b x = true -> is_item x = true -> forallb (relem_ok b) r = true -> nid c ->
  exists c', scan c (aitem_toks (nitem (x :: r))) = Some c'.
Proof.
  intros Hx Hi Hr Hc. destruct x as [w| |e|body]; try discriminate; cbn [nitem relem_ok] in *.
  - rewrite lentry_ok_eq in Hx. andb_hyps. unfold nentry.
    destruct (scan_alts (e_alts e) (e_first e) (wstext (e_trail e) ++ fst (take_ws r)) c) as (c' & S'); try assumption.
    { rewrite wss_app. andb_goal; [now apply wsl_ok_wss|now apply (take_ws_wss b)]. }
    destruct (nalts (e_first e) (e_alts e) (wstext (e_trail e) ++ fst (take_ws r))) as [r0 alts]. cbn [fst snd aitem_toks] in *. eauto.
  - andb_hyps. cbn [aitem_toks]. rewrite scan_app. unfold asubst_toks in *.
    rewrite (scan_body c (DOLLAR, [36%N]) _ H0 eq_refl).
    rewrite scan_slot; [eauto|now apply (take_ws_wss b)|].
    apply body_end_nws. exists ((DOLLAR, [36%N]) :: (L_CURLY, [123%N]) :: map vpiece_tok body), (R_CURLY, [125%N]). split; [reflexivity|discriminate].
Qed.
Lemma scan_seg b sg c : forallb (relem_ok b) sg = true -> seg_good false sg -> nws c -> nid c ->
  exists c', scan c (fst (nseg sg) ++ aitem_toks (snd (nseg sg))) = Some c'.
Proof.
  intros H Hg Hw Hc. pose proof (good_shape sg Hg) as Hs. pose proof (take_ws_elems b sg H) as H2. pose proof (take_ws_wss b sg H) as H1.
  unfold nseg. destruct (take_ws sg) as [w rest]. cbn [fst snd] in *. rewrite scan_app, (scan_slot w c H1 Hw).
  destruct Hs as [|x r Hx Hr]; [cbn [nitem aitem_toks scan]; eauto|].
  cbn [forallb] in H2. andb_hyps. apply (scan_item b); try assumption. now apply slot_nid.
Qed.
Theorem lexable_norm b l : lwf b l = true -> lexable (atoks (norm l)) = true.
Proof.
  intros H. destruct (lwf_split _ _ H) as (Hok & s & Hs). destruct (segments_good l false s Hs) as (s0 & ss & E & G0 & G).
  pose proof (segments_forall _ _ Hok) as HF. rewrite E in HF. inversion HF as [|? ? H0 Hss]; subst.
  unfold norm. rewrite E. cbn [map]. destruct (nseg s0) as [w i] eqn:E0. unfold atoks. cbn [af_lead af_first af_rest].
  assert (Hall : forall ss' c, Forall (seg_good false) ss' -> Forall (fun sg => forallb (relem_ok b) sg = true) ss' ->
            forall i0, (exists c1, scan c (aitem_toks i0) = Some c1) ->
            exists c', scan c (aitems_toks i0 (map nseg ss')) = Some c').
  { induction ss' as [|sg rest IH]; intros c Gs Fs i0 (c1 & S1); cbn [map aitems_toks]; [rewrite app_nil_r; eauto|].
    inversion Gs as [|? ? Hg Gr]; subst. inversion Fs as [|? ? Hf Fr]; subst.
    destruct (nseg sg) as [w' i'] eqn:En. rewrite scan_app, S1. cbn [scan fst].
    change (tok_valid (COMMA, [44%N])) with true. replace (adj_c c1 (cls_of COMMA)) with true by (now destruct c1 as [[| |]|]). cbn [andb].
    destruct (scan_seg b sg (Some (cls_of COMMA)) Hf Hg) as (c2 & S2); [unfold nws; cbn; congruence|unfold nid; cbn; congruence|].
    rewrite En in S2. cbn [fst snd] in S2. rewrite scan_app in S2. destruct (scan (Some (cls_of COMMA)) w') as [cw|] eqn:Ew; [|discriminate].
    rewrite scan_app, Ew. apply (IH cw Gr Fr). eauto. }
  destruct (scan_seg b s0 None H0 G0) as (c0 & S0); [unfold nws; congruence|unfold nid; congruence|].
  rewrite E0 in S0. cbn [fst snd] in S0. rewrite scan_app in S0. destruct (scan None w) as [cw|] eqn:Ew; [|discriminate].
  destruct (Hall ss cw G Hss i (ex_intro _ c0 S0)) as (c' & S').
  apply (scan_lexable _ None c'). now rewrite scan_app, Ew.
Qed.
Theorem awf_norm b l : lwf b l = true -> awf b (norm l) = true.
Proof. intros H. unfold awf. now rewrite (ashape_norm b l H), (lexable_norm b l H). Qed.
