(* C07 beyond the abstract grammar, at the level of tokens: Entry::wrap_and_sort (variant [fixed],
   no formatter) on ANY entry that consists of tokens -- whatever whitespace before the colon, CR or
   LF line ends, blank and comment lines inside the value: every entry of an error-free document is
   one.  No reference to Grammar.v. *)
From V.model Require Import Base Deb822Lex Deb822Parse Deb822Edit Deb822Wrap WrapSpec.
From V.proofs Require Import BaseP Deb822WrapP.
Set Default Timeout 60.

(* ---------------------------------------------------------------- token lists *)
Definition ckind (k : kind) : bool := match k with WHITESPACE | VALUE | NEWLINE | COMMENT => true | _ => false end.
Definition is_ctok (t : token) : bool := ckind (fst t).
Definition elems (T : list token) : list tree := map tok_elem T.
Definition strippable (t : token) : bool := is_nl_or_ws_tok t.
(* nothing to strip at the end *)
Definition stripped (T : list token) : Prop := match rev T with [] => True | t :: _ => strippable t = false end.

Lemma is_nl_or_ws_elem t : is_nl_or_ws (tok_elem t) = is_nl_or_ws_tok t.
Proof. destruct t; reflexivity. Qed.

Lemma drop_while_elems T : drop_while is_nl_or_ws (elems T) = elems (drop_while is_nl_or_ws_tok T).
Proof. induction T as [|t r IH]; [reflexivity|]. cbn [elems map drop_while]. rewrite is_nl_or_ws_elem. destruct (is_nl_or_ws_tok t); [exact IH|reflexivity]. Qed.

Definition stripT (T : list token) : list token := rev (drop_while is_nl_or_ws_tok (rev T)).
Lemma strip_trailing_elems T : strip_trailing (elems T) = elems (stripT T).
Proof. unfold strip_trailing, stripT. unfold elems at 1. rewrite <- map_rev. fold (elems (rev T)). rewrite (drop_while_elems (rev T)). unfold elems. rewrite map_rev. reflexivity. Qed.

Lemma stripT_stripped T : stripped (stripT T).
Proof.
  unfold stripped, stripT. rewrite rev_involutive. generalize (rev T) as l. induction l as [|t r IH]; [exact I|].
  cbn [drop_while]. destruct (is_nl_or_ws_tok t) eqn:E; [exact IH|exact E].
Qed.
Lemma stripT_id T : stripped T -> stripT T = T.
Proof.
  unfold stripped, stripT. intros H. destruct (rev T) as [|t r] eqn:E; [rewrite <- (rev_involutive T), E; reflexivity|].
  cbn [drop_while]. unfold strippable in H. rewrite H, <- E. apply rev_involutive.
Qed.
Lemma stripT_snoc_drop T t : strippable t = true -> stripT (T ++ [t]) = stripT T.
Proof. intros H. unfold stripT. rewrite rev_app_distr. cbn [rev app drop_while]. unfold strippable in H. rewrite H. reflexivity. Qed.
Lemma stripped_app_nonempty A T : T <> [] -> stripped T -> stripped (A ++ T).
Proof.
  unfold stripped. intros Hne H. rewrite rev_app_distr. destruct (rev T) as [|t r] eqn:E; [|exact H].
  apply (f_equal (@rev token)) in E. rewrite rev_involutive in E. cbn [rev] in E. congruence.
Qed.
Lemma stripped_suffix A T : stripped (A ++ T) -> T <> [] -> stripped T.
Proof.
  unfold stripped. rewrite rev_app_distr. intros H Hne. destruct (rev T) as [|t r] eqn:E; [exact I|exact H].
Qed.

Lemma drop_while_suffix {A} (p : A -> bool) l : exists a, forallb p a = true /\ l = a ++ drop_while p l.
Proof.
  induction l as [|x r IH]; [exists []; split; reflexivity|]. cbn [drop_while]. destruct (p x) eqn:E.
  - destruct IH as (a & Ha & Er). exists (x :: a). cbn [forallb app]. rewrite E, Ha. split; [reflexivity|]. f_equal. exact Er.
  - exists []. split; reflexivity.
Qed.

Lemma stripped_all_strippable T : stripped T -> forallb strippable T = true -> T = [].
Proof.
  unfold stripped. intros H Ha. destruct (rev T) as [|t r] eqn:E.
  - apply (f_equal (@rev token)) in E. rewrite rev_involutive in E. exact E.
  - exfalso. assert (Hin : In t T) by (apply in_rev; rewrite E; left; reflexivity).
    rewrite forallb_forall in Ha. rewrite (Ha t Hin) in H. discriminate.
Qed.

(* the tokens left after the leading blanks / line breaks: stripped again; empty only if T is *)
Lemma stripped_drop T : stripped T -> stripped (drop_while is_nl_or_ws_tok T) /\
  (drop_while is_nl_or_ws_tok T = [] -> T = []).
Proof.
  intros H. destruct (drop_while_suffix is_nl_or_ws_tok T) as (a & Ha & E). split.
  - destruct (drop_while is_nl_or_ws_tok T) as [|x y] eqn:Ed; [exact I|]. rewrite E in H. apply (stripped_suffix a _ H). discriminate.
  - intros Ed. rewrite Ed, app_nil_r in E. subst a. apply (stripped_all_strippable T H Ha).
Qed.

Lemma drop_while_head_tok T : match drop_while is_nl_or_ws_tok T with [] => True | t :: _ => is_nl_or_ws_tok t = false end.
Proof. induction T as [|t r IH]; [exact I|]. cbn [drop_while]. destruct (is_nl_or_ws_tok t) eqn:E; [exact IH|exact E]. Qed.

(* ---------------------------------------------------------------- rebuild_value, on any stripped token list *)
Definition cfilt (c : tree) : bool := ckind (ekind c).
Definition nl_tok : token := (NEWLINE, [10%N]).
Definition sp_tok : token := (WHITESPACE, [32%N]).

Lemma cfilt_elems T : forallb is_ctok T = true -> filter cfilt (elems T) = elems T.
Proof.
  induction T as [|t r IH]; [reflexivity|]. cbn [forallb elems map filter]. intros H. apply andb_true_iff in H. destruct H as [H1 H2].
  unfold cfilt at 1. destruct t as [k s]. cbn [tok_elem fst snd ekind]. unfold is_ctok in H1. cbn [fst] in H1. rewrite H1. f_equal. apply IH, H2.
Qed.

Lemma emit_content n T : forall lwn, forallb is_ctok T = true -> filter cfilt (fst (emit_indented n lwn T)) = elems T.
Proof.
  induction T as [|t r IH]; intros lwn H; [reflexivity|]. cbn [forallb] in H. apply andb_true_iff in H. destruct H as [H1 H2].
  cbn [emit_indented]. specialize (IH (is_nl_tok t) H2). destruct (emit_indented n (is_nl_tok t) r) as [e l]. cbn [fst] in *.
  rewrite filter_app. replace (filter cfilt (if lwn then [Tok INDENT (spaces n)] else [])) with (@nil tree) by (destruct lwn; reflexivity).
  cbn [app filter elems map]. unfold cfilt at 1. destruct t as [k s]. cbn [tok_elem fst snd ekind]. unfold is_ctok in H1. cbn [fst] in H1. rewrite H1, IH. reflexivity.
Qed.

Lemma emit_last n T : forall lwn, snd (emit_indented n lwn T) = match rev T with [] => lwn | t :: _ => is_nl_tok t end.
Proof.
  induction T as [|t r IH]; intros lwn; [reflexivity|]. cbn [emit_indented]. specialize (IH (is_nl_tok t)).
  destruct (emit_indented n (is_nl_tok t) r) as [e l]. cbn [snd] in *. rewrite IH. cbn [rev].
  destruct (rev r) as [|x y]; reflexivity.
Qed.

Lemma strippable_nl t : is_nl_tok t = true -> strippable t = true.
Proof. unfold strippable, is_nl_or_ws_tok, is_nl_tok. intros ->. reflexivity. Qed.

Lemma emit_stripped_last n lwn T : T <> [] -> stripped T -> snd (emit_indented n lwn T) = false.
Proof.
  intros Hne H. rewrite emit_last. unfold stripped in H. destruct (rev T) as [|t r] eqn:E.
  - apply (f_equal (@rev token)) in E. rewrite rev_involutive in E. cbn [rev] in E. congruence.
  - destruct (is_nl_tok t) eqn:En; [|reflexivity]. rewrite (strippable_nl t En) in H. discriminate.
Qed.

Lemma emit_no_nl n T : existsb is_nl_tok T = false -> fst (emit_indented n false T) = elems T.
Proof.
  induction T as [|t r IH]; [reflexivity|]. cbn [existsb]. intros H. apply orb_false_iff in H. destruct H as [H1 H2].
  cbn [emit_indented]. rewrite H1. specialize (IH H2). destruct (emit_indented n false r) as [e l]. cbn [fst] in *. rewrite IH. reflexivity.
Qed.

Lemma drop_while_stop_tok T : match T with [] => True | t :: _ => is_nl_or_ws_tok t = false end -> drop_while is_nl_or_ws_tok T = T.
Proof. destruct T as [|t r]; [reflexivity|]. intros H. cbn [drop_while]. rewrite H. reflexivity. Qed.

Lemma has_newline_suffix a T : has_newline T = true -> has_newline (a ++ T) = true.
Proof. unfold has_newline. rewrite existsb_app. intros ->. apply orb_true_r. Qed.

Lemma down_again (iel hnT hnT' keep cf : bool) : (hnT' = true -> hnT = true) ->
  (iel && ((if (iel && hnT && negb keep) || cf then true else false) || hnT') && negb keep) || cf = (iel && hnT && negb keep) || cf.
Proof. destruct iel, hnT, hnT', keep, cf; intros H; try reflexivity; specialize (H eq_refl); discriminate. Qed.

(* what the entry's value tokens become, and what is read back from them *)
Theorem rebuild_fix T kl n iel mll : forallb is_ctok T = true -> stripped T ->
  exists T2, strip_trailing (filter cfilt (rebuild_value fixed T kl n iel mll)) = elems T2 /\
             forallb is_ctok T2 = true /\ stripped T2 /\
             rebuild_value fixed T2 kl n iel mll = rebuild_value fixed T kl n iel mll.
Proof.
  intros Hc Hs. unfold rebuild_value at 1 3.
  destruct ((match mll with Some m => (first_line_len T kl <=? m)%N | None => false end) && negb (has_newline T)) eqn:C1.
  - (* one line, copied *)
    exists T. fold (elems T). rewrite filter_app, (cfilt_elems T Hc). cbn [filter cfilt ekind ckind app].
    assert (En : elems T ++ [Tok NEWLINE [10%N]] = elems (T ++ [nl_tok])) by (unfold elems; rewrite map_app; reflexivity).
    split; [rewrite En, strip_trailing_elems, (stripT_snoc_drop T nl_tok eq_refl), (stripT_id T Hs); reflexivity|].
    split; [exact Hc|]. split; [exact Hs|]. unfold rebuild_value. rewrite C1. reflexivity.
  - destruct (stripped_drop T Hs) as [Hs' Hnil]. pose proof (drop_while_head_tok T) as Hhead.
    destruct (drop_while_suffix is_nl_or_ws_tok T) as (a & Ha & Ea).
    remember (drop_while is_nl_or_ws_tok T) as T' eqn:ET'.
    destruct T' as [|t0 r0].
    + (* no text at all *)
      pose proof (Hnil eq_refl) as ET. clear Ea Hnil ET'. subst T. exists [].
      destruct iel; (split; [reflexivity|]); (split; [reflexivity|]); (split; [exact I|]); unfold rebuild_value; rewrite C1; reflexivity.
    + set (down := (iel && has_newline T && negb (keep_first fixed (t0 :: r0))) || comment_first fixed (t0 :: r0)) in *.
      assert (Hc' : forallb is_ctok (t0 :: r0) = true).
      { rewrite Ea, forallb_app in Hc. apply andb_true_iff in Hc. apply Hc. }
      pose proof (emit_content n (t0 :: r0) down Hc') as Econt.
      pose proof (emit_stripped_last n down (t0 :: r0) ltac:(discriminate) Hs') as Elast.
      destruct (emit_indented n down (t0 :: r0)) as [E lwn] eqn:Eemit. cbn [fst snd] in *. subst lwn.
      set (lead := if down then nl_tok else sp_tok).
      exists (lead :: t0 :: r0).
      assert (Hlead_elem : (if down then [Tok NEWLINE [10%N]] else [Tok WHITESPACE [32%N]]) = [tok_elem lead]) by (unfold lead; destruct down; reflexivity).
      rewrite Hlead_elem.
      assert (Hcont : filter cfilt (([tok_elem lead] ++ E) ++ [Tok NEWLINE [10%N]]) = elems ((lead :: t0 :: r0) ++ [nl_tok])).
      { rewrite !filter_app, Econt. unfold elems. rewrite map_app. unfold lead. destruct down; reflexivity. }
      assert (Hs2 : stripped (lead :: t0 :: r0)) by (apply (stripped_app_nonempty [lead] (t0 :: r0)); [discriminate|exact Hs']).
      rewrite Hcont, strip_trailing_elems, (stripT_snoc_drop _ nl_tok eq_refl), (stripT_id _ Hs2).
      split; [reflexivity|]. split; [change (forallb is_ctok (lead :: t0 :: r0)) with (is_ctok lead && forallb is_ctok (t0 :: r0)); rewrite Hc'; unfold lead; destruct down; reflexivity|]. split; [exact Hs2|].
      (* the second application *)
      unfold rebuild_value.
      destruct ((match mll with Some m => (first_line_len (lead :: t0 :: r0) kl <=? m)%N | None => false end) && negb (has_newline (lead :: t0 :: r0))) eqn:C2.
      * apply andb_true_iff in C2. destruct C2 as [_ C2]. apply negb_true_iff in C2. unfold has_newline in C2. cbn [existsb] in C2.
        apply orb_false_iff in C2. destruct C2 as [Cl Cr].
        assert (Hd : down = false) by (unfold lead in Cl; destruct down; [discriminate|reflexivity]).
        rewrite Hd in *. pose proof (emit_no_nl n (t0 :: r0) Cr) as En. rewrite Eemit in En. cbn [fst] in En. subst E.
        reflexivity.
      * assert (Ed : drop_while is_nl_or_ws_tok (lead :: t0 :: r0) = t0 :: r0).
        { cbn [drop_while]. replace (is_nl_or_ws_tok lead) with true by (unfold lead; destruct down; reflexivity).
          cbn [drop_while]. rewrite Hhead. reflexivity. }
        rewrite Ed.
        assert (Hdown2 : (iel && has_newline (lead :: t0 :: r0) && negb (keep_first fixed (t0 :: r0))) || comment_first fixed (t0 :: r0) = down).
        { assert (Hl : has_newline (lead :: t0 :: r0) = (if down then true else false) || has_newline (t0 :: r0))
            by (unfold lead; destruct down; reflexivity).
          rewrite Hl. unfold down. apply down_again. intros Hh. rewrite Ea. apply has_newline_suffix, Hh. }
        rewrite Hdown2, Eemit. cbn [fst snd]. rewrite Hlead_elem. reflexivity.
Qed.
