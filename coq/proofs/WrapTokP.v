(* C07 beyond the abstract grammar, at the level of tokens: Entry::wrap_and_sort (variant [fixed],
   no formatter) on ANY entry that consists of tokens -- whatever whitespace before the colon, CR or
   LF line ends, blank and comment lines inside the value: every entry of an error-free document is
   one.  No reference to Grammar.v. *)
From V.model Require Import Base Deb822Lex Deb822Parse Deb822Edit Deb822Wrap WrapSpec.
From V.model Require Export WrapTokSpec.
From V.proofs Require Import BaseP Deb822WrapP.

(* proof-internal definitions (the statements' vocabulary is in model/WrapTokSpec.v) *)
Definition nl_tok : token := (NEWLINE, [10%N]).
Definition sp_tok : token := (WHITESPACE, [32%N]).
Definition group_ok (g : list tree * tree) : Prop := forallb loose (fst g) = true /\ loose (snd g) = false.
(* the loose tokens after the last entry, terminated *)
Definition term_tr (tr : list tree) : list tree :=
  match rev tr with Tok COMMENT _ :: _ => tr ++ [Tok NEWLINE [10%N]] | _ => tr end.
(* a canonical paragraph: groups whose entries are fixed points of the entry step *)
Definition canon_pgroups (ind : indentation) (iel : bool) (mll : option N) (esort : option (tree -> tree -> comparison)) (G : list (list tree * tree)) : Prop :=
  (forall g, In g G -> group_ok g /\ entry_ok ind (snd g) = true /\ e_out ind iel mll (snd g) = snd g) /\
  match option_map on_snd esort with Some e => lsorted e G | None => True end.
Definition dgroup_ok (ind : indentation) (g : list tree * tree) : Prop := forallb cline (fst g) = true /\ para_ok ind (snd g) = true.
(* terminating the last comment line *)
Definition term_lines (tr : list tree) : list tree :=
  match rev tr with [] => [] | x :: r => rev r ++ [ensure_nl x] end.


Lemma is_nl_or_ws_elem t : is_nl_or_ws (tok_elem t) = is_nl_or_ws_tok t.
Proof. destruct t; reflexivity. Qed.

Lemma drop_while_elems T : drop_while is_nl_or_ws (elems T) = elems (drop_while is_nl_or_ws_tok T).
Proof. induction T as [|t r IH]; [reflexivity|]. cbn [elems map drop_while]. rewrite is_nl_or_ws_elem. destruct (is_nl_or_ws_tok t); [exact IH|reflexivity]. Qed.

Lemma strip_trailing_elems T : strip_trailing (elems T) = elems (stripT T).
Proof. unfold strip_trailing, stripT. unfold elems at 1. rewrite <- map_rev. fold (elems (rev T)). rewrite (drop_while_elems (rev T)). unfold elems. rewrite map_rev. reflexivity. Qed.

Lemma stripT_stripped T : stripped (stripT T).
Proof.
  unfold stripped, stripT. rewrite rev_involutive. generalize (rev T) as l. induction l as [|t r IH]; [exact I|].
  cbn [drop_while]. destruct (is_nl_or_ws_tok t) eqn:E; [exact IH|exact E].
Qed.
Lemma stripT_id T : stripped T -> stripT T = T.
Proof.
  unfold stripped, stripT. intros H. destruct (rev T) as [|t r] eqn:E; [rewrite <- (rev_involutive T), E; reflexivity|].
  cbn [drop_while]. unfold strippable in H. rewrite H, <- E. apply rev_involutive.
Qed.
Lemma stripT_snoc_drop T t : strippable t = true -> stripT (T ++ [t]) = stripT T.
Proof. intros H. unfold stripT. rewrite rev_app_distr. cbn [rev app drop_while]. unfold strippable in H. rewrite H. reflexivity. Qed.
Lemma stripped_app_nonempty A T : T <> [] -> stripped T -> stripped (A ++ T).
Proof.
  unfold stripped. intros Hne H. rewrite rev_app_distr. destruct (rev T) as [|t r] eqn:E; [|exact H].
  apply (f_equal (@rev token)) in E. rewrite rev_involutive in E. cbn [rev] in E. congruence.
Qed.
Lemma stripped_suffix A T : stripped (A ++ T) -> T <> [] -> stripped T.
Proof.
  unfold stripped. rewrite rev_app_distr. intros H Hne. destruct (rev T) as [|t r] eqn:E; [exact I|exact H].
Qed.

Lemma drop_while_suffix {A} (p : A -> bool) l : exists a, forallb p a = true /\ l = a ++ drop_while p l.
Proof.
  induction l as [|x r IH]; [exists []; split; reflexivity|]. cbn [drop_while]. destruct (p x) eqn:E.
  - destruct IH as (a & Ha & Er). exists (x :: a). cbn [forallb app]. rewrite E, Ha. split; [reflexivity|]. f_equal. exact Er.
  - exists []. split; reflexivity.
Qed.

Lemma stripped_all_strippable T : stripped T -> forallb strippable T = true -> T = [].
Proof.
  unfold stripped. intros H Ha. destruct (rev T) as [|t r] eqn:E.
  - apply (f_equal (@rev token)) in E. rewrite rev_involutive in E. exact E.
  - exfalso. assert (Hin : In t T) by (apply in_rev; rewrite E; left; reflexivity).
    rewrite forallb_forall in Ha. rewrite (Ha t Hin) in H. discriminate.
Qed.

(* the tokens left after the leading blanks / line breaks: stripped again; empty only if T is *)
Lemma stripped_drop T : stripped T -> stripped (drop_while is_nl_or_ws_tok T) /\
  (drop_while is_nl_or_ws_tok T = [] -> T = []).
Proof.
  intros H. destruct (drop_while_suffix is_nl_or_ws_tok T) as (a & Ha & E). split.
  - destruct (drop_while is_nl_or_ws_tok T) as [|x y] eqn:Ed; [exact I|]. rewrite E in H. apply (stripped_suffix a _ H). discriminate.
  - intros Ed. rewrite Ed, app_nil_r in E. subst a. apply (stripped_all_strippable T H Ha).
Qed.

Lemma drop_while_head_tok T : match drop_while is_nl_or_ws_tok T with [] => True | t :: _ => is_nl_or_ws_tok t = false end.
Proof. induction T as [|t r IH]; [exact I|]. cbn [drop_while]. destruct (is_nl_or_ws_tok t) eqn:E; [exact IH|exact E]. Qed.


Lemma cfilt_elems T : forallb is_ctok T = true -> filter cfilt (elems T) = elems T.
Proof.
  induction T as [|t r IH]; [reflexivity|]. cbn [forallb elems map filter]. intros H. apply andb_true_iff in H. destruct H as [H1 H2].
  unfold cfilt at 1. destruct t as [k s]. cbn [tok_elem fst snd ekind]. unfold is_ctok in H1. cbn [fst] in H1. rewrite H1. f_equal. apply IH, H2.
Qed.

Lemma emit_content n T : forall lwn, forallb is_ctok T = true -> filter cfilt (fst (emit_indented n lwn T)) = elems T.
Proof.
  induction T as [|t r IH]; intros lwn H; [reflexivity|]. cbn [forallb] in H. apply andb_true_iff in H. destruct H as [H1 H2].
  cbn [emit_indented]. specialize (IH (is_nl_tok t) H2). destruct (emit_indented n (is_nl_tok t) r) as [e l]. cbn [fst] in *.
  rewrite filter_app. replace (filter cfilt (if lwn then [Tok INDENT (spaces n)] else [])) with (@nil tree) by (destruct lwn; reflexivity).
  cbn [app filter elems map]. unfold cfilt at 1. destruct t as [k s]. cbn [tok_elem fst snd ekind]. unfold is_ctok in H1. cbn [fst] in H1. rewrite H1, IH. reflexivity.
Qed.

Lemma emit_last n T : forall lwn, snd (emit_indented n lwn T) = match rev T with [] => lwn | t :: _ => is_nl_tok t end.
Proof.
  induction T as [|t r IH]; intros lwn; [reflexivity|]. cbn [emit_indented]. specialize (IH (is_nl_tok t)).
  destruct (emit_indented n (is_nl_tok t) r) as [e l]. cbn [snd] in *. rewrite IH. cbn [rev].
  destruct (rev r) as [|x y]; reflexivity.
Qed.

Lemma strippable_nl t : is_nl_tok t = true -> strippable t = true.
Proof. unfold strippable, is_nl_or_ws_tok, is_nl_tok. intros ->. reflexivity. Qed.

Lemma emit_stripped_last n lwn T : T <> [] -> stripped T -> snd (emit_indented n lwn T) = false.
Proof.
  intros Hne H. rewrite emit_last. unfold stripped in H. destruct (rev T) as [|t r] eqn:E.
  - apply (f_equal (@rev token)) in E. rewrite rev_involutive in E. cbn [rev] in E. congruence.
  - destruct (is_nl_tok t) eqn:En; [|reflexivity]. rewrite (strippable_nl t En) in H. discriminate.
Qed.

Lemma emit_no_nl n T : existsb is_nl_tok T = false -> fst (emit_indented n false T) = elems T.
Proof.
  induction T as [|t r IH]; [reflexivity|]. cbn [existsb]. intros H. apply orb_false_iff in H. destruct H as [H1 H2].
  cbn [emit_indented]. rewrite H1. specialize (IH H2). destruct (emit_indented n false r) as [e l]. cbn [fst] in *. rewrite IH. reflexivity.
Qed.

Lemma drop_while_stop_tok T : match T with [] => True | t :: _ => is_nl_or_ws_tok t = false end -> drop_while is_nl_or_ws_tok T = T.
Proof. destruct T as [|t r]; [reflexivity|]. intros H. cbn [drop_while]. rewrite H. reflexivity. Qed.

Lemma has_newline_suffix a T : has_newline T = true -> has_newline (a ++ T) = true.
Proof. unfold has_newline. rewrite existsb_app. intros ->. apply orb_true_r. Qed.

Lemma down_again (iel hnT hnT' keep cf : bool) : (hnT' = true -> hnT = true) ->
  (iel && ((if (iel && hnT && negb keep) || cf then true else false) || hnT') && negb keep) || cf = (iel && hnT && negb keep) || cf.
Proof. destruct iel, hnT, hnT', keep, cf; intros H; try reflexivity; specialize (H eq_refl); discriminate. Qed.

(* what the entry's value tokens become, and what is read back from them *)
Theorem rebuild_fix T kl n iel mll : forallb is_ctok T = true -> stripped T ->
  exists T2, strip_trailing (filter cfilt (rebuild_value fixed T kl n iel mll)) = elems T2 /\
             forallb is_ctok T2 = true /\ stripped T2 /\
             rebuild_value fixed T2 kl n iel mll = rebuild_value fixed T kl n iel mll.
Proof.
  intros Hc Hs. unfold rebuild_value at 1 3.
  destruct ((match mll with Some m => (first_line_len T kl <=? m)%N | None => false end) && negb (has_newline T)) eqn:C1.
  - (* one line, copied *)
    exists T. fold (elems T). rewrite filter_app, (cfilt_elems T Hc). cbn [filter cfilt ekind ckind app].
    assert (En : elems T ++ [Tok NEWLINE [10%N]] = elems (T ++ [nl_tok])) by (unfold elems; rewrite map_app; reflexivity).
    split; [rewrite En, strip_trailing_elems, (stripT_snoc_drop T nl_tok eq_refl), (stripT_id T Hs); reflexivity|].
    split; [exact Hc|]. split; [exact Hs|]. unfold rebuild_value. rewrite C1. reflexivity.
  - destruct (stripped_drop T Hs) as [Hs' Hnil]. pose proof (drop_while_head_tok T) as Hhead.
    destruct (drop_while_suffix is_nl_or_ws_tok T) as (a & Ha & Ea).
    remember (drop_while is_nl_or_ws_tok T) as T' eqn:ET'.
    destruct T' as [|t0 r0].
    + (* no text at all *)
      pose proof (Hnil eq_refl) as ET. clear Ea Hnil ET'. subst T. exists [].
      destruct iel; (split; [reflexivity|]); (split; [reflexivity|]); (split; [exact I|]); unfold rebuild_value; rewrite C1; reflexivity.
    + set (down := (iel && has_newline T && negb (keep_first fixed (t0 :: r0))) || comment_first fixed (t0 :: r0)) in *.
      assert (Hc' : forallb is_ctok (t0 :: r0) = true).
      { rewrite Ea, forallb_app in Hc. apply andb_true_iff in Hc. apply Hc. }
      pose proof (emit_content n (t0 :: r0) down Hc') as Econt.
      pose proof (emit_stripped_last n down (t0 :: r0) ltac:(discriminate) Hs') as Elast.
      destruct (emit_indented n down (t0 :: r0)) as [E lwn] eqn:Eemit. cbn [fst snd] in *. subst lwn.
      set (lead := if down then nl_tok else sp_tok).
      exists (lead :: t0 :: r0).
      assert (Hlead_elem : (if down then [Tok NEWLINE [10%N]] else [Tok WHITESPACE [32%N]]) = [tok_elem lead]) by (unfold lead; destruct down; reflexivity).
      rewrite Hlead_elem.
      assert (Hcont : filter cfilt (([tok_elem lead] ++ E) ++ [Tok NEWLINE [10%N]]) = elems ((lead :: t0 :: r0) ++ [nl_tok])).
      { rewrite !filter_app, Econt. unfold elems. rewrite map_app. unfold lead. destruct down; reflexivity. }
      assert (Hs2 : stripped (lead :: t0 :: r0)) by (apply (stripped_app_nonempty [lead] (t0 :: r0)); [discriminate|exact Hs']).
      rewrite Hcont, strip_trailing_elems, (stripT_snoc_drop _ nl_tok eq_refl), (stripT_id _ Hs2).
      split; [reflexivity|]. split; [change (forallb is_ctok (lead :: t0 :: r0)) with (is_ctok lead && forallb is_ctok (t0 :: r0)); rewrite Hc'; unfold lead; destruct down; reflexivity|]. split; [exact Hs2|].
      (* the second application *)
      unfold rebuild_value.
      destruct ((match mll with Some m => (first_line_len (lead :: t0 :: r0) kl <=? m)%N | None => false end) && negb (has_newline (lead :: t0 :: r0))) eqn:C2.
      * apply andb_true_iff in C2. destruct C2 as [_ C2]. apply negb_true_iff in C2. unfold has_newline in C2. cbn [existsb] in C2.
        apply orb_false_iff in C2. destruct C2 as [Cl Cr].
        assert (Hd : down = false) by (unfold lead in Cl; destruct down; [discriminate|reflexivity]).
        rewrite Hd in *. pose proof (emit_no_nl n (t0 :: r0) Cr) as En. rewrite Eemit in En. cbn [fst] in En. subst E.
        reflexivity.
      * assert (Ed : drop_while is_nl_or_ws_tok (lead :: t0 :: r0) = t0 :: r0).
        { cbn [drop_while]. replace (is_nl_or_ws_tok lead) with true by (unfold lead; destruct down; reflexivity).
          cbn [drop_while]. rewrite Hhead. reflexivity. }
        rewrite Ed.
        assert (Hdown2 : (iel && has_newline (lead :: t0 :: r0) && negb (keep_first fixed (t0 :: r0))) || comment_first fixed (t0 :: r0) = down).
        { assert (Hl : has_newline (lead :: t0 :: r0) = (if down then true else false) || has_newline (t0 :: r0))
            by (unfold lead; destruct down; reflexivity).
          rewrite Hl. unfold down. apply down_again. intros Hh. rewrite Ea. apply has_newline_suffix, Hh. }
        rewrite Hdown2, Eemit. cbn [fst snd]. rewrite Hlead_elem. reflexivity.
Qed.



Lemma ews_scan_tokens cs : forall ind b c, forallb is_tok_elem cs = true ->
  ews_scan cs ind b c = Ok (ind_after ind cs, b ++ built_of cs, c ++ filter cfilt cs).
Proof.
  induction cs as [|x r IH]; intros ind b c H.
  - cbn [ews_scan ind_after built_of flat_map filter]. rewrite !app_nil_r. reflexivity.
  - cbn [forallb] in H. apply andb_true_iff in H. destruct H as [Hx Hr]. destruct x as [k s|k cs']; [|discriminate].
    destruct k; try discriminate; cbn [ews_scan ekind ind_after built_of flat_map filter cfilt ckind app];
      rewrite (IH _ _ _ Hr); rewrite <- ?app_assoc; reflexivity.
Qed.

Lemma elems_toks_of cs : forallb is_tok_elem cs = true -> elems (toks_of cs) = cs.
Proof.
  induction cs as [|x r IH]; [reflexivity|]. cbn [forallb]. intros H. apply andb_true_iff in H. destruct H as [Hx Hr].
  destruct x as [k s|k cs']; [|discriminate]. cbn [toks_of flat_map app elems map tok_elem fst snd]. f_equal. apply IH, Hr.
Qed.

Lemma filter_tok_elems cs : forallb is_tok_elem cs = true -> forallb is_tok_elem (filter cfilt cs) = true.
Proof.
  induction cs as [|x r IH]; [reflexivity|]. cbn [forallb filter]. intros H. apply andb_true_iff in H. destruct H as [Hx Hr].
  destruct (cfilt x); [cbn [forallb]; rewrite Hx, (IH Hr); reflexivity|apply IH, Hr].
Qed.

Lemma ctok_content cs : forallb is_tok_elem cs = true -> forallb is_ctok (toks_of (filter cfilt cs)) = true.
Proof.
  induction cs as [|x r IH]; [reflexivity|]. cbn [forallb filter]. intros H. apply andb_true_iff in H. destruct H as [Hx Hr].
  destruct x as [k s|k cs']; [|discriminate]. unfold cfilt at 1. cbn [ekind]. destruct (ckind k) eqn:E; [|apply IH, Hr].
  cbn [toks_of flat_map app forallb]. unfold is_ctok at 1. cbn [fst]. rewrite E. apply IH, Hr.
Qed.

Lemma forallb_stripT (p : token -> bool) T : forallb p T = true -> forallb p (stripT T) = true.
Proof.
  intros H. unfold stripT. rewrite forallb_forall in *. intros x Hx. apply in_rev in Hx.
  destruct (drop_while_suffix is_nl_or_ws_tok (rev T)) as (a & _ & E). apply H. apply in_rev. rewrite E. apply in_or_app. right. exact Hx.
Qed.


Theorem entry_ws_tokens ind iel mll cs : forallb is_tok_elem cs = true -> (entry_n ind cs =? 0)%N = false ->
  entry_ws fixed ind iel mll None (Node ENTRY cs) = Ok (entry_out ind iel mll cs).
Proof.
  intros H Hn. unfold entry_ws. cbn [children]. rewrite (ews_scan_tokens cs ind [] [] H). cbn [bind app].
  fold (entry_n ind cs). rewrite Hn. cbn [entry_tokens].
  rewrite <- (elems_toks_of (filter cfilt cs) (filter_tok_elems cs H)), strip_trailing_elems. fold (entry_T cs).
  unfold elems. rewrite res_map_into_token. cbn [bind]. reflexivity.
Qed.


Lemma out_elem_tok n t : is_ctok t = true -> out_elem n (tok_elem t) = true.
Proof. destruct t as [k s]. unfold is_ctok. cbn [fst tok_elem snd out_elem]. destruct k; try discriminate; intros _; reflexivity. Qed.

Lemma emit_out n T : forall lwn, forallb is_ctok T = true -> forallb (out_elem n) (fst (emit_indented n lwn T)) = true.
Proof.
  induction T as [|t r IH]; intros lwn H; [reflexivity|]. cbn [forallb] in H. apply andb_true_iff in H. destruct H as [H1 H2].
  cbn [emit_indented]. specialize (IH (is_nl_tok t) H2). destruct (emit_indented n (is_nl_tok t) r) as [e l]. cbn [fst] in *.
  rewrite forallb_app. cbn [forallb]. rewrite (out_elem_tok n t H1), IH, andb_true_r.
  destruct lwn; [cbn [forallb out_elem]; rewrite str_eqb_refl; reflexivity|reflexivity].
Qed.

Lemma rebuild_out T kl n iel mll : forallb is_ctok T = true -> forallb (out_elem n) (rebuild_value fixed T kl n iel mll) = true.
Proof.
  intros H. unfold rebuild_value.
  destruct ((match mll with Some m => (first_line_len T kl <=? m)%N | None => false end) && negb (has_newline T)).
  - rewrite forallb_app. cbn [forallb out_elem ckind]. rewrite andb_true_r. clear -H. induction T as [|t r IH]; [reflexivity|].
    cbn [forallb map] in *. apply andb_true_iff in H. destruct H as [H1 H2]. rewrite (out_elem_tok n t H1), (IH H2). reflexivity.
  - assert (H' : forallb is_ctok (drop_while is_nl_or_ws_tok T) = true).
    { destruct (drop_while_suffix is_nl_or_ws_tok T) as (a & _ & E). rewrite E, forallb_app in H. apply andb_true_iff in H. apply H. }
    set (down := _ || _). pose proof (emit_out n (drop_while is_nl_or_ws_tok T) down H') as He.
    destruct (emit_indented n down (drop_while is_nl_or_ws_tok T)) as [e l]. cbn [fst] in He.
    rewrite !forallb_app, He. destruct down, l; reflexivity.
Qed.

Lemma out_is_tok n cs : forallb (out_elem n) cs = true -> forallb is_tok_elem cs = true.
Proof.
  induction cs as [|x r IH]; [reflexivity|]. cbn [forallb]. intros H. apply andb_true_iff in H. destruct H as [Hx Hr]. rewrite (IH Hr), andb_true_r.
  destruct x as [k s|]; [|discriminate]. destruct k; try discriminate; reflexivity.
Qed.
Lemma out_built n cs : forallb (out_elem n) cs = true -> built_of cs = [].
Proof.
  induction cs as [|x r IH]; [reflexivity|]. cbn [forallb]. intros H. apply andb_true_iff in H. destruct H as [Hx Hr].
  destruct x as [k s|]; [|discriminate]. destruct k; try discriminate; cbn [built_of flat_map app]; apply IH, Hr.
Qed.
Lemma out_ind n cs : forallb (out_elem n) cs = true -> forall ind, ind_after ind cs = ind.
Proof.
  induction cs as [|x r IH]; [reflexivity|]. cbn [forallb]. intros H ind. apply andb_true_iff in H. destruct H as [Hx Hr].
  destruct x as [k s|]; [|discriminate]. destruct k; try discriminate; cbn [ind_after]; apply IH, Hr.
Qed.
Lemma out_keys n cs : forallb (out_elem n) cs = true -> token_texts_of_kind KEY (Node ENTRY cs) = [].
Proof.
  unfold token_texts_of_kind. cbn [children]. induction cs as [|x r IH]; [reflexivity|]. cbn [forallb]. intros H. apply andb_true_iff in H. destruct H as [Hx Hr].
  destruct x as [k s|]; [|discriminate]. destruct k; try discriminate; cbn [flat_map kind_eqb kind_code N.eqb Pos.eqb app]; apply IH, Hr.
Qed.

Lemma built_of_app a b : built_of (a ++ b) = built_of a ++ built_of b.
Proof. apply flat_map_app. Qed.
Lemma built_of_idem cs : built_of (built_of cs) = built_of cs.
Proof.
  induction cs as [|x r IH]; [reflexivity|]. destruct x as [k s|]; [|exact IH].
  destruct k; cbn [built_of flat_map app]; try exact IH; fold (built_of r); fold (built_of (built_of r)); rewrite IH; reflexivity.
Qed.
Lemma built_is_tok cs : forallb is_tok_elem (built_of cs) = true.
Proof.
  induction cs as [|x r IH]; [reflexivity|]. destruct x as [k s|]; [|exact IH].
  destruct k; cbn [built_of flat_map app forallb is_tok_elem tkind]; exact IH.
Qed.
Lemma built_content cs : filter cfilt (built_of cs) = [].
Proof.
  induction cs as [|x r IH]; [reflexivity|]. destruct x as [k s|]; [|exact IH].
  destruct k; cbn [built_of flat_map app filter cfilt ekind ckind]; exact IH.
Qed.
Lemma ind_after_app a : forall ind b, ind_after ind (a ++ b) = ind_after (ind_after ind a) b.
Proof. induction a as [|x r IH]; intros ind b; [reflexivity|]. destruct x as [k s|]; [destruct k|]; cbn [app ind_after]; apply IH. Qed.
Lemma ind_after_built cs : forall ind, ind_after ind (built_of cs) = ind_after ind cs.
Proof.
  induction cs as [|x r IH]; intros ind; [reflexivity|]. destruct x as [k s|]; [|apply IH].
  destruct k; cbn [built_of flat_map app ind_after]; apply IH.
Qed.
Lemma keys_built cs : token_texts_of_kind KEY (Node ENTRY (built_of cs)) = token_texts_of_kind KEY (Node ENTRY cs).
Proof.
  unfold token_texts_of_kind. cbn [children]. induction cs as [|x r IH]; [reflexivity|]. destruct x as [k s|]; [|exact IH].
  destruct k; cbn [built_of flat_map app kind_eqb kind_code N.eqb Pos.eqb]; try exact IH; f_equal; exact IH.
Qed.
Lemma keys_app a b : token_texts_of_kind KEY (Node ENTRY (a ++ b)) = token_texts_of_kind KEY (Node ENTRY a) ++ token_texts_of_kind KEY (Node ENTRY b).
Proof. unfold token_texts_of_kind. cbn [children]. apply flat_map_app. Qed.

Lemma elems_inj A B : elems A = elems B -> A = B.
Proof.
  revert B. induction A as [|[k s] r IH]; intros B H; destruct B as [|[k' s'] r']; try discriminate; [reflexivity|].
  cbn [elems map tok_elem fst snd] in H. injection H as -> -> H. f_equal. apply IH, H.
Qed.

(* ---- a second application changes nothing ---- *)
Theorem entry_out_idem ind iel mll cs : forallb is_tok_elem cs = true ->
  forallb is_tok_elem (children (entry_out ind iel mll cs)) = true /\
  entry_n ind (children (entry_out ind iel mll cs)) = entry_n ind cs /\
  entry_out ind iel mll (children (entry_out ind iel mll cs)) = entry_out ind iel mll cs.
Proof.
  intros H. unfold entry_out. cbn [children].
  set (T := entry_T cs). set (kl := entry_kl cs). set (n := entry_n ind cs).
  assert (HcT : forallb is_ctok T = true) by (apply forallb_stripT, ctok_content, H).
  pose proof (rebuild_out T kl n iel mll HcT) as Hout. set (O := rebuild_value fixed T kl n iel mll) in *.
  assert (Htok : forallb is_tok_elem (built_of cs ++ O) = true) by (rewrite forallb_app, built_is_tok, (out_is_tok n O Hout); reflexivity).
  assert (En : entry_n ind (built_of cs ++ O) = n).
  { unfold entry_n, n. rewrite ind_after_app, ind_after_built, (out_ind n O Hout). reflexivity. }
  split; [exact Htok|]. split; [exact En|].
  rewrite En.
  assert (Ekl : entry_kl (built_of cs ++ O) = kl).
  { unfold entry_kl, kl, entry_key. rewrite keys_app, keys_built, (out_keys n O Hout), app_nil_r. reflexivity. }
  rewrite Ekl, built_of_app, built_of_idem, (out_built n O Hout), app_nil_r.
  destruct (rebuild_fix T kl n iel mll HcT (stripT_stripped _)) as (T2 & E1 & _ & _ & E2). fold O in E1, E2.
  assert (ET : entry_T (built_of cs ++ O) = T2).
  { apply elems_inj. unfold entry_T. rewrite <- strip_trailing_elems.
    rewrite filter_app, built_content. cbn [app]. rewrite (elems_toks_of _ (filter_tok_elems O (out_is_tok n O Hout))). exact E1. }
  rewrite ET, E2. reflexivity.
Qed.


Lemma ktx_app k a b : ktx k (a ++ b) = ktx k a ++ ktx k b.
Proof. unfold ktx, token_texts_of_kind. cbn [children]. apply flat_map_app. Qed.
Lemma ktx_cons k x r : ktx k (x :: r) = ktx k [x] ++ ktx k r.
Proof. apply (ktx_app k [x] r). Qed.

Lemma ktx_strippable k a : vk k = true -> forallb strippable a = true -> ktx k (elems a) = [].
Proof.
  intros Hk. induction a as [|[k' s] r IH]; [reflexivity|]. cbn [forallb]. intros H. apply andb_true_iff in H. destruct H as [H1 H2].
  cbn [elems map]. fold (elems r). rewrite ktx_cons, (IH H2), app_nil_r. unfold strippable, is_nl_or_ws_tok in H1. cbn [fst] in H1.
  unfold ktx, token_texts_of_kind. cbn [children flat_map tok_elem fst snd]. rewrite app_nil_r.
  destruct k'; try discriminate; destruct k; try discriminate; reflexivity.
Qed.

Lemma elems_app a b : elems (a ++ b) = elems a ++ elems b.
Proof. apply map_app. Qed.

Lemma stripT_decomp T : exists s, forallb strippable s = true /\ T = stripT T ++ s.
Proof.
  destruct (drop_while_suffix is_nl_or_ws_tok (rev T)) as (a & Ha & E). exists (rev a). split.
  - rewrite forallb_forall in *. intros x Hx. apply Ha. apply in_rev. exact Hx.
  - unfold stripT. rewrite <- rev_app_distr, <- E. symmetry. apply rev_involutive.
Qed.

Lemma ktx_stripT k T : vk k = true -> ktx k (elems (stripT T)) = ktx k (elems T).
Proof.
  intros Hk. destruct (stripT_decomp T) as (s & Hs & E). rewrite E at 2. rewrite elems_app, ktx_app, (ktx_strippable k s Hk Hs), app_nil_r. reflexivity.
Qed.
Lemma ktx_drop k T : vk k = true -> ktx k (elems (drop_while is_nl_or_ws_tok T)) = ktx k (elems T).
Proof.
  intros Hk. destruct (drop_while_suffix is_nl_or_ws_tok T) as (a & Ha & E). rewrite E at 2. rewrite elems_app, ktx_app, (ktx_strippable k a Hk Ha). reflexivity.
Qed.

Lemma ktx_emit k n T : vk k = true -> forall lwn, ktx k (fst (emit_indented n lwn T)) = ktx k (elems T).
Proof.
  intros Hk. induction T as [|t r IH]; intros lwn; [reflexivity|]. cbn [emit_indented]. specialize (IH (is_nl_tok t)).
  destruct (emit_indented n (is_nl_tok t) r) as [e l]. cbn [fst] in *. rewrite ktx_app. cbn [elems map].
  rewrite (ktx_cons k (tok_elem t) e), (ktx_cons k (tok_elem t) (map tok_elem r)), IH.
  replace (ktx k (if lwn then [Tok INDENT (spaces n)] else [])) with (@nil str); [reflexivity|].
  destruct lwn; [|reflexivity]. destruct k; try discriminate; reflexivity.
Qed.

Lemma ktx_content k cs : vk k = true -> ktx k (filter cfilt cs) = ktx k cs.
Proof.
  intros Hk. induction cs as [|x r IH]; [reflexivity|]. cbn [filter]. rewrite (ktx_cons k x r), <- IH.
  destruct (cfilt x) eqn:E; [rewrite (ktx_cons k x (filter cfilt r)); reflexivity|].
  replace (ktx k [x]) with (@nil str); [reflexivity|]. destruct x as [k' s|]; [|reflexivity]. unfold cfilt in E. cbn [ekind] in E.
  unfold ktx, token_texts_of_kind. cbn [children flat_map]. rewrite app_nil_r.
  destruct k'; try discriminate; destruct k; try discriminate; reflexivity.
Qed.

Lemma ktx_built k cs : vk k = true -> ktx k (built_of cs) = [].
Proof.
  intros Hk. induction cs as [|x r IH]; [reflexivity|]. destruct x as [k' s|]; [|exact IH].
  destruct k'; cbn [built_of flat_map app]; try exact IH; fold (built_of r);
    (match goal with |- ktx k (?y :: _) = _ => rewrite (ktx_cons k y (built_of r)), IH, app_nil_r end); destruct k; try discriminate; reflexivity.
Qed.

Theorem entry_out_texts ind iel mll cs k : forallb is_tok_elem cs = true -> vk k = true ->
  ktx k (children (entry_out ind iel mll cs)) = ktx k cs.
Proof.
  intros H Hk. unfold entry_out. cbn [children]. rewrite ktx_app, (ktx_built k cs Hk). cbn [app].
  rewrite <- (ktx_content k cs Hk), <- (elems_toks_of (filter cfilt cs) (filter_tok_elems cs H)), <- (ktx_stripT k _ Hk). fold (entry_T cs).
  unfold rebuild_value.
  destruct ((match mll with Some m => (first_line_len (entry_T cs) (entry_kl cs) <=? m)%N | None => false end) && negb (has_newline (entry_T cs))).
  - rewrite ktx_app. fold (elems (entry_T cs)). replace (ktx k [Tok NEWLINE [10%N]]) with (@nil str) by (destruct k; try discriminate; reflexivity).
    apply app_nil_r.
  - set (down := _ || _). pose proof (ktx_emit k (entry_n ind cs) (drop_while is_nl_or_ws_tok (entry_T cs)) Hk down) as He.
    destruct (emit_indented (entry_n ind cs) down (drop_while is_nl_or_ws_tok (entry_T cs))) as [e l]. cbn [fst] in He.
    rewrite !ktx_app, He, (ktx_drop k _ Hk).
    replace (ktx k (if down then [Tok NEWLINE [10%N]] else [Tok WHITESPACE [32%N]])) with (@nil str) by (destruct down; destruct k; try discriminate; reflexivity).
    replace (ktx k (if l then [] else [Tok NEWLINE [10%N]])) with (@nil str) by (destruct l; destruct k; try discriminate; reflexivity).
    cbn [app]. apply app_nil_r.
Qed.

(* the key and the colon(s) stay in front; every INDENT has exactly the requested width *)
Theorem entry_out_shape ind iel mll cs : forallb is_tok_elem cs = true ->
  entry_key (entry_out ind iel mll cs) = entry_key (Node ENTRY cs) /\
  exists O, children (entry_out ind iel mll cs) = built_of cs ++ O /\ forallb (out_elem (entry_n ind cs)) O = true.
Proof.
  intros H. unfold entry_out.
  assert (HcT : forallb is_ctok (entry_T cs) = true) by (apply forallb_stripT, ctok_content, H).
  pose proof (rebuild_out (entry_T cs) (entry_kl cs) (entry_n ind cs) iel mll HcT) as Hout.
  split; [|eexists; split; [reflexivity|exact Hout]].
  unfold entry_key. rewrite keys_app, keys_built, (out_keys _ _ Hout), app_nil_r. reflexivity.
Qed.



Lemma entry_ok_shape ind c : entry_ok ind c = true ->
  exists cs, c = Node ENTRY cs /\ forallb is_tok_elem cs = true /\ (entry_n ind cs =? 0)%N = false.
Proof.
  unfold entry_ok, token_entry. intros H. apply andb_true_iff in H. destruct H as [H1 H2]. destruct c as [|k cs]; [discriminate|].
  destruct k; try discriminate. exists cs. split; [reflexivity|]. split; [exact H1|]. apply negb_true_iff in H2. exact H2.
Qed.

Lemma pws_scan_tok ind cs : forall cur acc, forallb (pchild_ok ind) cs = true ->
  pws_scan fixed cs cur acc = Ok (acc ++ fst (p_groups cs cur), snd (p_groups cs cur)).
Proof.
  induction cs as [|c r IH]; intros cur acc H.
  - cbn [pws_scan p_groups fst snd]. rewrite app_nil_r. reflexivity.
  - cbn [forallb] in H. apply andb_true_iff in H. destruct H as [Hc Hr]. cbn [p_groups].
    destruct (loose c) eqn:El.
    + destruct c as [k s|]; [|discriminate]. destruct k; try discriminate; cbn [pws_scan ekind v_para_nl fixed]; apply IH, Hr.
    + unfold pchild_ok in Hc. rewrite El in Hc. cbn [orb] in Hc. destruct (entry_ok_shape ind c Hc) as (cs' & -> & _ & _).
      cbn [pws_scan ekind is_node]. rewrite (IH [] _ Hr). destruct (p_groups r []) as [gs tr]. cbn [fst snd]. rewrite <- app_assoc. reflexivity.
Qed.

Lemma p_groups_props ind cs : forall cur, forallb (pchild_ok ind) cs = true -> forallb loose cur = true ->
  (forall g, In g (fst (p_groups cs cur)) -> forallb loose (fst g) = true /\ entry_ok ind (snd g) = true /\ loose (snd g) = false) /\
  forallb loose (snd (p_groups cs cur)) = true.
Proof.
  induction cs as [|c r IH]; intros cur H Hcur.
  - cbn [p_groups fst snd]. split; [intros g []|exact Hcur].
  - cbn [forallb] in H. apply andb_true_iff in H. destruct H as [Hc Hr]. cbn [p_groups]. destruct (loose c) eqn:El.
    + apply IH; [exact Hr|]. rewrite forallb_app, Hcur. cbn [forallb]. rewrite El. reflexivity.
    + unfold pchild_ok in Hc. rewrite El in Hc. cbn [orb] in Hc. specialize (IH [] Hr eq_refl).
      destruct (p_groups r []) as [gs tr]. cbn [fst snd] in *. destruct IH as [IH1 IH2]. split; [|exact IH2].
      intros g [<-|Hg]; [cbn [fst snd]; auto|apply IH1, Hg].
Qed.

Lemma res_map_emit_loose cs : forallb loose cs = true -> res_map emit_token cs = Ok cs.
Proof.
  intros H. apply res_map_id. intros x Hx. rewrite forallb_forall in H. specialize (H x Hx). destruct x; [reflexivity|discriminate].
Qed.

Theorem para_ws_tokens ind iel mll esort cs : forallb (pchild_ok ind) cs = true ->
  para_ws fixed ind iel mll esort None (Node PARAGRAPH cs) = Ok (Node PARAGRAPH (p_out ind iel mll esort cs)).
Proof.
  intros H. unfold para_ws. cbn [children]. rewrite (pws_scan_tok ind cs [] [] H). cbn [bind app].
  destruct (p_groups_props ind cs [] H eq_refl) as [Hg Htr]. unfold p_out.
  destruct (p_groups cs []) as [gs tr]. cbn [fst snd] in *.
  set (L := sort_opt (option_map on_snd esort) gs).
  assert (HL : forall g, In g L -> forallb loose (fst g) = true /\ entry_ok ind (snd g) = true /\ loose (snd g) = false)
    by (intros g Hin; apply Hg; apply (sort_opt_In _ _ _ Hin)).
  rewrite (res_map_ok _ (fun g => fst g ++ [e_out ind iel mll (snd g)])).
  - cbn [bind]. rewrite (res_map_emit_loose tr Htr). cbn [bind]. unfold p_ungroup. rewrite map_map. reflexivity.
  - intros g Hin. destruct (HL g Hin) as (H1 & H2 & _). rewrite (res_map_emit_loose _ H1). cbn [bind].
    destruct (entry_ok_shape ind (snd g) H2) as (cs' & E & Ht & Hn). rewrite E. rewrite (entry_ws_tokens ind iel mll cs' Ht Hn). reflexivity.
Qed.

(* ---- a second application changes nothing ---- *)
Lemma p_groups_loose a : forall X cur, forallb loose a = true -> p_groups (a ++ X) cur = p_groups X (cur ++ a).
Proof.
  induction a as [|c r IH]; intros X cur H; [rewrite app_nil_r; reflexivity|]. cbn [forallb] in H. apply andb_true_iff in H. destruct H as [H1 H2].
  cbn [app p_groups]. rewrite H1, (IH X _ H2), <- app_assoc. reflexivity.
Qed.


Lemma p_groups_ungroup gs tr : forall cur, (forall g, In g gs -> group_ok g) -> forallb loose tr = true ->
  p_groups (p_ungroup gs tr) cur =
  match gs with [] => ([], cur ++ tr) | g :: r => ((cur ++ fst g, snd g) :: r, tr) end.
Proof.
  induction gs as [|g r IH]; intros cur Hg Htr.
  - unfold p_ungroup. cbn [map concat app]. pose proof (p_groups_loose tr [] cur Htr) as E. rewrite app_nil_r in E. rewrite E. reflexivity.
  - destruct (Hg g (or_introl eq_refl)) as [H1 H2].
    assert (E : p_ungroup (g :: r) tr = fst g ++ snd g :: p_ungroup r tr).
    { unfold p_ungroup. cbn [map concat]. rewrite <- !app_assoc. reflexivity. }
    rewrite E, (p_groups_loose (fst g) _ cur H1). cbn [p_groups]. rewrite H2.
    rewrite (IH [] (fun y Hy => Hg y (or_intror Hy)) Htr). destruct r as [|g2 r2]; [reflexivity|]. destruct g2; reflexivity.
Qed.

Lemma e_out_idem ind iel mll e : entry_ok ind e = true ->
  entry_ok ind (e_out ind iel mll e) = true /\ e_out ind iel mll (e_out ind iel mll e) = e_out ind iel mll e.
Proof.
  intros H. destruct (entry_ok_shape ind e H) as (cs & -> & Ht & Hn). unfold e_out. cbn [children].
  destruct (entry_out_idem ind iel mll cs Ht) as (A & B & C). split; [|exact C].
  unfold entry_ok. rewrite B, Hn. unfold token_entry, entry_out in *. cbn [children] in A. rewrite A. reflexivity.
Qed.


Theorem p_out_idem ind iel mll esort cs : forallb (pchild_ok ind) cs = true -> esort_ok ind iel mll esort ->
  forallb (pchild_ok ind) (p_out ind iel mll esort cs) = true /\
  p_out ind iel mll esort (p_out ind iel mll esort cs) = p_out ind iel mll esort cs.
Proof.
  intros H Hes. destruct (p_groups_props ind cs [] H eq_refl) as [Hg Htr]. unfold p_out at 1 3 4.
  destruct (p_groups cs []) as [gs tr]. cbn [fst snd] in *.
  set (L := sort_opt (option_map on_snd esort) gs).
  assert (HL : forall g, In g L -> forallb loose (fst g) = true /\ entry_ok ind (snd g) = true /\ loose (snd g) = false)
    by (intros g Hin; apply Hg; apply (sort_opt_In _ _ _ Hin)).
  set (G := map (fun g => (fst g, e_out ind iel mll (snd g))) L).
  assert (HG : forall g, In g G -> group_ok g /\ entry_ok ind (snd g) = true /\ e_out ind iel mll (snd g) = snd g).
  { intros g' Hg'. apply in_map_iff in Hg'. destruct Hg' as (g & <- & Hin). destruct (HL g Hin) as (H1 & H2 & _). cbn [fst snd].
    destruct (e_out_idem ind iel mll (snd g) H2) as [A B]. split; [split; [exact H1|reflexivity]|split; [exact A|exact B]]. }
  split.
  - unfold p_ungroup. rewrite forallb_app. apply andb_true_iff. split.
    + rewrite forallb_forall. intros x Hx. apply in_concat in Hx. destruct Hx as (l & Hl & Hx). apply in_map_iff in Hl. destruct Hl as (g & <- & Hg').
      destruct (HG g Hg') as ([P1 _] & P2 & _). apply in_app_or in Hx. destruct Hx as [Hx|[<-|[]]].
      * rewrite forallb_forall in P1. unfold pchild_ok. rewrite (P1 x Hx). reflexivity.
      * unfold pchild_ok. rewrite P2. apply orb_true_r.
    + rewrite forallb_forall in *. intros x Hx. unfold pchild_ok. rewrite (Htr x Hx). reflexivity.
  - unfold p_out. rewrite (p_groups_ungroup G tr [] (fun g Hg' => proj1 (HG g Hg')) Htr).
    assert (E : (match G with [] => ([], [] ++ tr) | g :: r => (([] ++ fst g, snd g) :: r, tr) end) = (G, tr))
      by (destruct G as [|g r]; [reflexivity|destruct g; reflexivity]).
    rewrite E. cbn [fst snd].
    assert (Hs : sort_opt (option_map on_snd esort) G = G).
    { apply sort_opt_sorted. destruct esort as [e|]; cbn [option_map]; [|exact I]. destruct Hes as [Hc Hi].
      assert (HsL : lsorted (on_snd e) L) by (unfold L; cbn [option_map sort_opt]; apply sort_by_lsorted; intros a b Hab; apply Hc; exact Hab).
      unfold G. revert HsL HL. generalize L as l. induction l as [|x r IH]; intros Hs HL'; [exact I|].
      cbn [lsorted map] in *. destruct Hs as [Hx Hr]. split; [|apply IH; [exact Hr|intros g Hin; apply HL'; right; exact Hin]].
      destruct r as [|y r']; [exact I|]. cbn [map]. unfold le_cmp, gtb, on_snd in *. cbn [snd].
      rewrite (Hi (snd x) (snd y)); [exact Hx|apply (HL' x (or_introl eq_refl))|apply (HL' y (or_intror (or_introl eq_refl)))]. }
    rewrite Hs. f_equal. rewrite <- (map_id G) at 2. apply map_ext_in. intros g Hg'. destruct (HG g Hg') as (_ & _ & B). rewrite B. destruct g; reflexivity.
Qed.



Lemma dws_scan_tok ind rs : forall cur acc, forallb (rchild_ok ind) rs = true ->
  dws_scan fixed rs cur acc = Ok (acc ++ fst (d_groups rs cur), snd (d_groups rs cur)).
Proof.
  induction rs as [|c r IH]; intros cur acc H.
  - cbn [dws_scan d_groups fst snd]. rewrite app_nil_r. reflexivity.
  - cbn [forallb] in H. apply andb_true_iff in H. destruct H as [Hc Hr]. destruct c as [k s|k cs]; [discriminate|].
    destruct k; try discriminate; cbn [d_groups is_para_node dws_scan ekind is_node v_doc_lines fixed].
    + rewrite (IH [] _ Hr). destruct (d_groups r []) as [gs tr]. cbn [fst snd]. rewrite <- app_assoc. reflexivity.
    + unfold comment_line. destruct (existsb (fun x => negb (is_blank_kind x)) (children (Node EMPTY_LINE cs))); apply IH, Hr.
Qed.

Lemma d_groups_In ind rs : forall cur g, forallb (rchild_ok ind) rs = true -> In g (fst (d_groups rs cur)) ->
  exists ps, snd g = Node PARAGRAPH ps /\ forallb (pchild_ok ind) ps = true.
Proof.
  induction rs as [|c r IH]; intros cur g H Hg; [contradiction|]. cbn [forallb] in H. apply andb_true_iff in H. destruct H as [Hc Hr].
  cbn [d_groups] in Hg. destruct (is_para_node c) eqn:Ep.
  - destruct (d_groups r []) as [gs tr] eqn:E. cbn [fst] in Hg. destruct Hg as [<-|Hg].
    + cbn [snd]. destruct c as [|k cs]; [discriminate|]. destruct k; try discriminate. exists cs. split; [reflexivity|exact Hc].
    + apply (IH [] g Hr). rewrite E. exact Hg.
  - apply (IH _ g Hr Hg).
Qed.

Lemma dws_emit_tok ind iel mll esort gs : forall first,
  (forall g, In g gs -> exists ps, snd g = Node PARAGRAPH ps /\ forallb (pchild_ok ind) ps = true) ->
  dws_emit fixed (Some (para_ws fixed ind iel mll esort None)) first gs =
  Ok (d_emit first (map (fun g => (fst g, pp_out ind iel mll esort (snd g))) gs)).
Proof.
  induction gs as [|[pre p] r IH]; intros first H; [reflexivity|]. cbn [dws_emit map d_emit fst snd].
  rewrite (res_map_id (emit_current fixed)) by (intros x _; reflexivity). cbn [bind].
  destruct (H (pre, p) (or_introl eq_refl)) as (ps & E & Hps). cbn [snd] in E. subst p.
  rewrite (para_ws_tokens ind iel mll esort ps Hps). cbn [bind v_terminate fixed].
  rewrite (IH false (fun g Hg => H g (or_intror Hg))). cbn [bind]. unfold pp_out. cbn [children]. reflexivity.
Qed.

Theorem doc_ws_tokens ind iel mll psort esort rs : forallb (rchild_ok ind) rs = true ->
  doc_ws fixed psort (Some (para_ws fixed ind iel mll esort None)) (Node ROOT rs) = Ok (d_out ind iel mll psort esort rs).
Proof.
  intros H. unfold doc_ws. cbn [children]. rewrite (dws_scan_tok ind rs [] [] H). cbn [bind app].
  pose proof (d_groups_In ind rs []) as HIn. unfold d_out. destruct (d_groups rs []) as [gs tr]. cbn [fst snd] in *.
  rewrite (dws_emit_tok ind iel mll esort _ true).
  - cbn [bind]. rewrite (res_map_id (emit_current fixed)) by (intros x _; reflexivity). cbn [bind v_terminate fixed]. reflexivity.
  - intros g Hg. apply (HIn g H). apply (sort_opt_In _ _ _ Hg).
Qed.

(* ---------------------------------------------------------------- terminating the last line, on these shapes *)
Lemma ensure_nl_node k cs : ensure_nl (Node k cs) = Node k (ensure_nl_list cs).
Proof. reflexivity. Qed.
Lemma enl_snoc a x : ensure_nl_list (a ++ [x]) =
  a ++ match x with Tok NEWLINE _ => [x] | Tok _ _ => [x; Tok NEWLINE [10%N]] | Node _ _ => [ensure_nl x] end.
Proof. rewrite Deb822EditP.ensure_nl_list_spec, rev_app_distr. cbn [rev app]. rewrite rev_involutive. reflexivity. Qed.
Lemma enl_nil : ensure_nl_list [] = [].
Proof. reflexivity. Qed.

Lemma emit_ends n T : forall lwn, snd (emit_indented n lwn T) = true ->
  (T = [] /\ lwn = true) \/ exists e' s, fst (emit_indented n lwn T) = e' ++ [Tok NEWLINE s].
Proof.
  induction T as [|t r IH]; intros lwn H; [left; split; [reflexivity|exact H]|]. right. cbn [emit_indented] in *.
  specialize (IH (is_nl_tok t)). destruct (emit_indented n (is_nl_tok t) r) as [e l] eqn:Ee. cbn [fst snd] in *.
  destruct (IH H) as [[-> En]|(e' & s & E)].
  - cbn [emit_indented] in Ee. injection Ee as <- _. destruct t as [k s]. unfold is_nl_tok in En. cbn [fst] in En.
    exists (if lwn then [Tok INDENT (spaces n)] else []), s. destruct k; try discriminate. reflexivity.
  - exists ((if lwn then [Tok INDENT (spaces n)] else []) ++ tok_elem t :: e'), s. rewrite E, <- app_assoc. reflexivity.
Qed.

Lemma rebuild_ends_nl T kl n iel mll : exists O' s, rebuild_value fixed T kl n iel mll = O' ++ [Tok NEWLINE s].
Proof.
  unfold rebuild_value.
  destruct ((match mll with Some m => (first_line_len T kl <=? m)%N | None => false end) && negb (has_newline T)).
  - eexists _, _. reflexivity.
  - set (down := _ || _). set (T' := drop_while is_nl_or_ws_tok T). pose proof (emit_ends n T' down) as He.
    destruct (emit_indented n down T') as [e l] eqn:Ee. cbn [fst snd] in He. destruct l.
    + rewrite app_nil_r. destruct (He eq_refl) as [[ET Hd]|(e' & s & ->)].
      * rewrite ET in Ee. cbn [emit_indented] in Ee. injection Ee as <- _. rewrite Hd. exists [], [10%N]. reflexivity.
      * eexists _, s. rewrite app_assoc. reflexivity.
    + eexists _, _. reflexivity.
Qed.

Lemma ensure_nl_e_out ind iel mll e : ensure_nl (e_out ind iel mll e) = e_out ind iel mll e.
Proof.
  unfold e_out, entry_out. destruct (rebuild_ends_nl (entry_T (children e)) (entry_kl (children e)) (entry_n ind (children e)) iel mll) as (O' & s & E).
  rewrite E, ensure_nl_node, app_assoc, enl_snoc. reflexivity.
Qed.


Lemma term_tr_loose tr : forallb loose tr = true -> forallb loose (term_tr tr) = true.
Proof. intros H. unfold term_tr. destruct (rev tr) as [|x r]; [exact H|]. destruct x as [k s|]; [destruct k|]; try exact H. rewrite forallb_app, H. reflexivity. Qed.
Lemma term_tr_idem tr : forallb loose tr = true -> term_tr (term_tr tr) = term_tr tr.
Proof.
  intros H. assert (Hn : forall t : list tree, (forall k s r, rev t = Tok k s :: r -> k <> COMMENT) -> (forall k c r, rev t = Node k c :: r -> True) -> term_tr t = t).
  { intros t Hk _. unfold term_tr. destruct (rev t) as [|x r] eqn:E; [reflexivity|]. destruct x as [k s|]; [|reflexivity].
    destruct k; try reflexivity. exfalso. apply (Hk COMMENT s r eq_refl). reflexivity. }
  unfold term_tr at 2. destruct (rev tr) as [|x r] eqn:E; [reflexivity|].
  destruct x as [k s|k cs]; [|reflexivity]. destruct k; try reflexivity.
  rewrite (Hn (tr ++ [Tok NEWLINE [10%N]])); [unfold term_tr; rewrite E; reflexivity| |trivial].
  intros k' s' r' E'. rewrite rev_app_distr in E'. cbn [rev app] in E'. injection E' as <- _ _. discriminate.
Qed.


Lemma p_out_canon_fix ind iel mll esort G tr : canon_pgroups ind iel mll esort G -> forallb loose tr = true ->
  p_out ind iel mll esort (p_ungroup G tr) = p_ungroup G tr.
Proof.
  intros [HG Hs] Htr. unfold p_out. rewrite (p_groups_ungroup G tr [] (fun g Hg => proj1 (HG g Hg)) Htr).
  assert (E : (match G with [] => ([], [] ++ tr) | g :: r => (([] ++ fst g, snd g) :: r, tr) end) = (G, tr))
    by (destruct G as [|g r]; [reflexivity|destruct g; reflexivity]).
  rewrite E. cbn [fst snd]. rewrite (sort_opt_sorted _ _ Hs). f_equal.
  rewrite <- (map_id G) at 2. apply map_ext_in. intros g Hg. destruct (HG g Hg) as (_ & _ & B). rewrite B. destruct g; reflexivity.
Qed.

Lemma p_out_is_canon ind iel mll esort cs : forallb (pchild_ok ind) cs = true -> esort_ok ind iel mll esort ->
  exists G tr, p_out ind iel mll esort cs = p_ungroup G tr /\ canon_pgroups ind iel mll esort G /\ forallb loose tr = true.
Proof.
  intros H Hes. destruct (p_groups_props ind cs [] H eq_refl) as [Hg Htr]. unfold p_out.
  destruct (p_groups cs []) as [gs tr]. cbn [fst snd] in *.
  set (L := sort_opt (option_map on_snd esort) gs).
  assert (HL : forall g, In g L -> forallb loose (fst g) = true /\ entry_ok ind (snd g) = true /\ loose (snd g) = false)
    by (intros g Hin; apply Hg; apply (sort_opt_In _ _ _ Hin)).
  exists (map (fun g => (fst g, e_out ind iel mll (snd g))) L), tr. split; [reflexivity|]. split; [|exact Htr]. split.
  - intros g' Hg'. apply in_map_iff in Hg'. destruct Hg' as (g & <- & Hin). destruct (HL g Hin) as (H1 & H2 & _). cbn [fst snd].
    destruct (e_out_idem ind iel mll (snd g) H2) as [A B]. split; [split; [exact H1|reflexivity]|split; [exact A|exact B]].
  - destruct esort as [e|]; cbn [option_map]; [|exact I]. destruct Hes as [Hc Hi].
    assert (HsL : lsorted (on_snd e) L) by (unfold L; cbn [option_map sort_opt]; apply sort_by_lsorted; intros a b Hab; apply Hc; exact Hab).
    revert HsL HL. generalize L as l. induction l as [|x r IH]; intros Hs HL'; [exact I|].
    cbn [lsorted map] in *. destruct Hs as [Hx Hr]. split; [|apply IH; [exact Hr|intros g Hin; apply HL'; right; exact Hin]].
    destruct r as [|y r']; [exact I|]. cbn [map]. unfold le_cmp, gtb, on_snd in *. cbn [snd].
    rewrite (Hi (snd x) (snd y)); [exact Hx|apply (HL' x (or_introl eq_refl))|apply (HL' y (or_intror (or_introl eq_refl)))].
Qed.

Lemma enl_p_ungroup ind iel mll esort G tr : canon_pgroups ind iel mll esort G -> forallb loose tr = true ->
  ensure_nl_list (p_ungroup G tr) = p_ungroup G (term_tr tr).
Proof.
  intros [HG _] Htr. unfold p_ungroup, term_tr. destruct (rev tr) as [|x r] eqn:Er.
  - assert (tr = []) by (rewrite <- (rev_involutive tr), Er; reflexivity). subst tr. rewrite !app_nil_r.
    destruct G as [|g0 G0]; [reflexivity|]. assert (Hne : g0 :: G0 <> []) by discriminate.
    destruct (exists_last Hne) as (G' & g & E). rewrite E in *. rewrite map_app, concat_app. cbn [map concat]. rewrite app_nil_r, !app_assoc, enl_snoc.
    assert (Hin : In g (G' ++ [g])) by (apply in_or_app; right; left; reflexivity).
    destruct (HG g Hin) as (_ & He & Hf). destruct (entry_ok_shape ind (snd g) He) as (cs & Ecs & _ & _).
    f_equal. assert (En : ensure_nl (snd g) = snd g) by (rewrite <- Hf; apply ensure_nl_e_out). rewrite Ecs in *. rewrite En. reflexivity.
  - assert (Et : tr = rev r ++ [x]) by (rewrite <- (rev_involutive tr), Er; reflexivity). rewrite Et at 1. rewrite app_assoc, enl_snoc, <- app_assoc.
    assert (Hx : loose x = true) by (rewrite forallb_forall in Htr; apply Htr; apply in_rev; rewrite Er; left; reflexivity).
    destruct x as [k s|]; [|discriminate]. destruct k; try discriminate.
    + rewrite Et. reflexivity.
    + rewrite Et, <- app_assoc. reflexivity.
Qed.

Theorem pp_out_idem ind iel mll esort ps : forallb (pchild_ok ind) ps = true -> esort_ok ind iel mll esort ->
  forallb (pchild_ok ind) (children (pp_out ind iel mll esort (Node PARAGRAPH ps))) = true /\
  pp_out ind iel mll esort (pp_out ind iel mll esort (Node PARAGRAPH ps)) = pp_out ind iel mll esort (Node PARAGRAPH ps) /\
  ensure_nl (pp_out ind iel mll esort (Node PARAGRAPH ps)) = pp_out ind iel mll esort (Node PARAGRAPH ps).
Proof.
  intros H Hes. destruct (p_out_is_canon ind iel mll esort ps H Hes) as (G & tr & E & Hcan & Htr).
  pose proof (term_tr_loose tr Htr) as Htr'.
  assert (EP : pp_out ind iel mll esort (Node PARAGRAPH ps) = Node PARAGRAPH (p_ungroup G (term_tr tr))).
  { unfold pp_out. cbn [children]. rewrite E, ensure_nl_node, (enl_p_ungroup ind iel mll esort G tr Hcan Htr). reflexivity. }
  rewrite EP. cbn [children].
  assert (Hok : forallb (pchild_ok ind) (p_ungroup G (term_tr tr)) = true).
  { unfold p_ungroup. rewrite forallb_app. apply andb_true_iff. split.
    - rewrite forallb_forall. intros x Hx. apply in_concat in Hx. destruct Hx as (l & Hl & Hx). apply in_map_iff in Hl. destruct Hl as (g & <- & Hg).
      destruct (proj1 Hcan g Hg) as ([P1 _] & P2 & _). apply in_app_or in Hx. destruct Hx as [Hx|[<-|[]]].
      + rewrite forallb_forall in P1. unfold pchild_ok. rewrite (P1 x Hx). reflexivity.
      + unfold pchild_ok. rewrite P2. apply orb_true_r.
    - rewrite forallb_forall in *. intros x Hx. unfold pchild_ok. rewrite (Htr' x Hx). reflexivity. }
  split; [exact Hok|]. unfold pp_out. cbn [children].
  rewrite (p_out_canon_fix ind iel mll esort G (term_tr tr) Hcan Htr'), !ensure_nl_node, (enl_p_ungroup ind iel mll esort G _ Hcan Htr'), (term_tr_idem tr Htr).
  split; reflexivity.
Qed.


Lemma cline_props ind c : cline c = true -> is_para_node c = false /\ comment_line c = true /\ rchild_ok ind c = true.
Proof.
  destruct c as [|k ts]; [discriminate|]. destruct k; try discriminate. cbn [cline]. intros H. apply andb_true_iff in H. destruct H as [H1 H2].
  split; [reflexivity|]. split; [exact H2|exact H1].
Qed.

Lemma d_groups_props ind rs : forall cur, forallb (rchild_ok ind) rs = true -> forallb cline cur = true ->
  (forall g, In g (fst (d_groups rs cur)) -> forallb cline (fst g) = true /\ para_ok ind (snd g) = true) /\
  forallb cline (snd (d_groups rs cur)) = true.
Proof.
  induction rs as [|c r IH]; intros cur H Hcur.
  - cbn [d_groups fst snd]. split; [intros g []|exact Hcur].
  - cbn [forallb] in H. apply andb_true_iff in H. destruct H as [Hc Hr]. cbn [d_groups]. destruct (is_para_node c) eqn:Ep.
    + specialize (IH [] Hr eq_refl). destruct (d_groups r []) as [gs tr]. cbn [fst snd] in *. destruct IH as [IH1 IH2]. split; [|exact IH2].
      intros g [<-|Hg]; [|apply IH1, Hg]. cbn [fst snd]. split; [exact Hcur|]. destruct c as [|k cs]; [discriminate|]. destruct k; try discriminate. exact Hc.
    + apply IH; [exact Hr|]. destruct (comment_line c) eqn:Ec; [|exact Hcur]. rewrite forallb_app, Hcur. cbn [forallb].
      destruct c as [|k ts]; [discriminate|]. destruct k; try discriminate. cbn [cline]. cbn [rchild_ok] in Hc. rewrite Hc, Ec. reflexivity.
Qed.

Lemma d_groups_clines a : forall X cur, forallb cline a = true -> d_groups (a ++ X) cur = d_groups X (cur ++ a).
Proof.
  induction a as [|c r IH]; intros X cur H; [rewrite app_nil_r; reflexivity|]. cbn [forallb] in H. apply andb_true_iff in H. destruct H as [H1 H2].
  destruct (cline_props FieldNameLength c H1) as (P1 & P2 & _). cbn [app d_groups]. rewrite P1, P2, (IH X _ H2), <- app_assoc. reflexivity.
Qed.


Lemma para_ok_node ind c : para_ok ind c = true -> is_para_node c = true.
Proof. destruct c as [|k cs]; [discriminate|]. destruct k; try discriminate. reflexivity. Qed.

Lemma d_groups_emit ind G tr : forall first cur, (forall g, In g G -> dgroup_ok ind g) -> forallb cline tr = true ->
  d_groups (d_emit first G ++ tr) cur =
  match G with [] => ([], cur ++ tr) | g :: r => ((cur ++ fst g, snd g) :: r, tr) end.
Proof.
  induction G as [|g r IH]; intros first cur HG Htr.
  - cbn [d_emit app]. pose proof (d_groups_clines tr [] cur Htr) as E. rewrite app_nil_r in E. rewrite E. reflexivity.
  - destruct (HG g (or_introl eq_refl)) as [H1 H2]. cbn [d_emit]. rewrite <- !app_assoc.
    assert (E : d_groups ((if first then [] else [blank_line]) ++ fst g ++ (snd g :: d_emit false r) ++ tr) cur
              = d_groups (fst g ++ (snd g :: d_emit false r) ++ tr) cur) by (destruct first; reflexivity).
    rewrite E, (d_groups_clines (fst g) _ cur H1). cbn [app d_groups]. rewrite (para_ok_node ind _ H2).
    rewrite (IH false [] (fun y Hy => HG y (or_intror Hy)) Htr). destruct r as [|g2 r2]; [reflexivity|]. destruct g2; reflexivity.
Qed.


Lemma ensure_nl_cline c : cline c = true -> cline (ensure_nl c) = true /\ ensure_nl (ensure_nl c) = ensure_nl c.
Proof.
  destruct c as [|k ts]; [discriminate|]. destruct k; try discriminate. cbn [cline]. intros H. apply andb_true_iff in H. destruct H as [H1 H2].
  rewrite ensure_nl_node. destruct (rev ts) as [|x r] eqn:Er.
  - assert (ts = []) by (rewrite <- (rev_involutive ts), Er; reflexivity). subst ts. discriminate.
  - assert (Et : ts = rev r ++ [x]) by (rewrite <- (rev_involutive ts), Er; reflexivity). rewrite Et in *. rewrite enl_snoc.
    rewrite forallb_app in H1. apply andb_true_iff in H1. destruct H1 as [Ha Hx]. cbn [forallb] in Hx. destruct x as [k s|]; [|discriminate].
    unfold comment_line in *. cbn [children] in *. rewrite existsb_app in H2.
    destruct k; cbn [cline]; rewrite ?ensure_nl_node, ?enl_snoc;
      try (split; [rewrite forallb_app, Ha; unfold comment_line; cbn [children]; rewrite existsb_app; cbn [forallb is_token existsb andb];
                   try rewrite H2; apply orb_true_iff in H2; destruct H2 as [H2|H2]; rewrite ?H2, ?orb_true_r; try reflexivity; cbn in H2; try discriminate; rewrite ?orb_true_r; reflexivity
                  |try reflexivity; change (rev r ++ [Tok ?k0 s; Tok NEWLINE [10%N]]) with (rev r ++ [Tok k0 s] ++ [Tok NEWLINE [10%N]]); rewrite app_assoc, enl_snoc, <- app_assoc; reflexivity]).
Qed.

Lemma term_lines_props tr : forallb cline tr = true ->
  forallb cline (term_lines tr) = true /\ term_lines (term_lines tr) = term_lines tr /\
  (tr <> [] -> forall E, ensure_nl_list (E ++ tr) = E ++ term_lines tr).
Proof.
  intros H. unfold term_lines at 1 3 4. destruct (rev tr) as [|x r] eqn:Er.
  - assert (tr = []) by (rewrite <- (rev_involutive tr), Er; reflexivity). subst tr. split; [reflexivity|]. split; [reflexivity|congruence].
  - assert (Et : tr = rev r ++ [x]) by (rewrite <- (rev_involutive tr), Er; reflexivity).
    assert (Hx : cline x = true) by (rewrite forallb_forall in H; apply H; apply in_rev; rewrite Er; left; reflexivity).
    assert (Hr : forallb cline (rev r) = true) by (rewrite Et, forallb_app in H; apply andb_true_iff in H; apply H).
    destruct (ensure_nl_cline x Hx) as [C1 C2].
    split; [rewrite forallb_app, Hr; cbn [forallb]; rewrite C1; reflexivity|]. split.
    + unfold term_lines. rewrite rev_app_distr. cbn [rev app]. rewrite rev_involutive, C2. reflexivity.
    + intros _ E. unfold term_lines. rewrite Er. rewrite Et at 1. rewrite app_assoc, enl_snoc, <- app_assoc. destruct x as [|k ts]; [discriminate|]. reflexivity.
Qed.


Lemma d_emit_snoc G g : forall first, d_emit first (G ++ [g]) =
  d_emit first G ++ (if first && match G with [] => true | _ => false end then [] else [blank_line]) ++ fst g ++ [snd g].
Proof.
  induction G as [|x r IH]; intros first; [destruct first; cbn [d_emit app andb]; rewrite ?app_nil_r; reflexivity|].
  cbn [app d_emit]. rewrite (IH false). cbn [andb]. rewrite andb_false_r. rewrite <- !app_assoc. reflexivity.
Qed.

Lemma rchild_ok_emit ind G : forall first : bool, (forall g, In g G -> dgroup_ok ind g) ->
  forallb (rchild_ok ind) (d_emit first G) = true.
Proof.
  induction G as [|g r IH]; intros first HG; [reflexivity|].
  destruct (HG g (or_introl eq_refl)) as [P1 P2]. cbn [d_emit]. rewrite !forallb_app. cbn [forallb].
  rewrite (IH false (fun y Hy => HG y (or_intror Hy))), andb_true_r.
  apply andb_true_iff. split; [destruct first; reflexivity|]. apply andb_true_iff. split.
  - rewrite forallb_forall in *. intros x Hx. apply (cline_props ind x (P1 x Hx)).
  - destruct (snd g) as [|k ps]; [discriminate|]. destruct k; try discriminate. exact P2.
Qed.

Theorem d_out_idem ind iel mll psort esort rs : forallb (rchild_ok ind) rs = true ->
  esort_ok ind iel mll esort -> psort_ok ind iel mll psort esort ->
  forallb (rchild_ok ind) (children (d_out ind iel mll psort esort rs)) = true /\
  d_out ind iel mll psort esort (children (d_out ind iel mll psort esort rs)) = d_out ind iel mll psort esort rs.
Proof.
  intros H Hes Hps. destruct (d_groups_props ind rs [] H eq_refl) as [Hg Htr].
  set (R := d_out ind iel mll psort esort rs). unfold d_out in R.
  destruct (d_groups rs []) as [gs tr]. cbn [fst snd] in *.
  set (L := sort_opt (option_map on_snd psort) gs) in *.
  assert (HL : forall g, In g L -> forallb cline (fst g) = true /\ para_ok ind (snd g) = true)
    by (intros g Hin; apply Hg; apply (sort_opt_In _ _ _ Hin)).
  set (G := map (fun g => (fst g, pp_out ind iel mll esort (snd g))) L) in *.
  assert (HG : forall g, In g G -> dgroup_ok ind g /\ pp_out ind iel mll esort (snd g) = snd g /\ ensure_nl (snd g) = snd g).
  { intros g' Hg'. apply in_map_iff in Hg'. destruct Hg' as (g & <- & Hin). destruct (HL g Hin) as (H1 & H2). cbn [fst snd].
    destruct (snd g) as [|k ps] eqn:Esg; [discriminate|]. destruct k; try discriminate. cbn [para_ok] in H2.
    destruct (pp_out_idem ind iel mll esort ps H2 Hes) as (A & B & C).
    split; [split; [exact H1|]|split; [exact B|exact C]].
    unfold pp_out at 1. rewrite ensure_nl_node. cbn [para_ok]. unfold pp_out in A. rewrite ensure_nl_node in A. exact A. }
  destruct (term_lines_props tr Htr) as (T1 & T2 & T3).
  (* the children of the result *)
  assert (ER : children R = d_emit true G ++ term_lines tr).
  { unfold R. rewrite ensure_nl_node. cbn [children]. destruct tr as [|t0 tr0].
    - cbn [term_lines rev]. rewrite !app_nil_r. destruct G as [|g0 G0] eqn:EG; [reflexivity|].
      assert (Hne : g0 :: G0 <> []) by discriminate. destruct (exists_last Hne) as (G' & g & E). rewrite E in *.
      rewrite d_emit_snoc, !app_assoc, enl_snoc.
      assert (Hin : In g (G' ++ [g])) by (apply in_or_app; right; left; reflexivity).
      destruct (HG g Hin) as ([_ Hp] & _ & Hen). destruct (snd g) as [|k ps] eqn:Esg; [discriminate|]. rewrite Hen. reflexivity.
    - apply T3. discriminate. }
  assert (Hok : forallb (rchild_ok ind) (d_emit true G ++ term_lines tr) = true).
  { rewrite forallb_app. apply andb_true_iff. split.
    - apply rchild_ok_emit. intros g Hg'. apply (HG g Hg').
    - rewrite forallb_forall in *. intros x Hx. apply (cline_props ind x (T1 x Hx)). }
  rewrite ER. split; [exact Hok|].
  unfold d_out. rewrite (d_groups_emit ind G (term_lines tr) true [] (fun g Hg' => proj1 (HG g Hg')) T1).
  assert (E : (match G with [] => ([], [] ++ term_lines tr) | g :: r => (([] ++ fst g, snd g) :: r, term_lines tr) end) = (G, term_lines tr))
    by (destruct G as [|g r]; [reflexivity|destruct g; reflexivity]).
  rewrite E. cbn [fst snd].
  assert (Hs : sort_opt (option_map on_snd psort) G = G).
  { apply sort_opt_sorted. destruct psort as [p|]; cbn [option_map]; [|exact I]. destruct Hps as [Hc Hi].
    assert (HsL : lsorted (on_snd p) L) by (unfold L; cbn [option_map sort_opt]; apply sort_by_lsorted; intros a b Hab; apply Hc; exact Hab).
    unfold G. clear ER Hok HG E. revert HsL HL. generalize L as l. induction l as [|x r IH]; intros Hs HL'; [exact I|].
    cbn [lsorted map] in *. destruct Hs as [Hx Hr]. split; [|apply IH; [exact Hr|intros g Hin; apply HL'; right; exact Hin]].
    destruct r as [|y r']; [exact I|]. cbn [map]. unfold le_cmp, gtb, on_snd in *. cbn [snd].
    rewrite (Hi (snd x) (snd y)); [exact Hx|apply (HL' x (or_introl eq_refl))|apply (HL' y (or_intror (or_introl eq_refl)))]. }
  rewrite Hs.
  assert (Hm : map (fun g => (fst g, pp_out ind iel mll esort (snd g))) G = G).
  { rewrite <- (map_id G) at 2. apply map_ext_in. intros g Hg'. destruct (HG g Hg') as (_ & B & _). rewrite B. destruct g; reflexivity. }
  rewrite Hm, ensure_nl_node. f_equal.
  destruct tr as [|t0 tr0].
  - cbn [term_lines rev]. rewrite !app_nil_r. rewrite app_nil_r in ER. rewrite <- ER. unfold R. rewrite ensure_nl_node. cbn [children].
    change (term_lines []) with (@nil tree) in ER. rewrite app_nil_r. cbn [children] in ER. unfold R in ER. rewrite ensure_nl_node in ER. cbn [children] in ER.
    rewrite app_nil_r in ER. rewrite ER at 1. rewrite ER. reflexivity.
  - assert (Hne : term_lines (t0 :: tr0) <> []).
    { unfold term_lines. destruct (rev (t0 :: tr0)) as [|x r] eqn:Er; [|destruct (rev r); discriminate].
      exfalso. apply (f_equal (@length tree)) in Er. rewrite rev_length in Er. discriminate. }
    destruct (term_lines_props (term_lines (t0 :: tr0)) T1) as (_ & _ & T3'). rewrite (T3' Hne), T2.
    unfold R. rewrite ensure_nl_node. cbn [children]. rewrite (T3 ltac:(discriminate)). reflexivity.
Qed.


Theorem token_doc_ws ind iel mll psort esort t : token_doc ind t = true ->
  esort_ok ind iel mll esort -> psort_ok ind iel mll psort esort ->
  let R := d_out ind iel mll psort esort (children t) in
  doc_ws fixed psort (Some (para_ws fixed ind iel mll esort None)) t = Ok R /\
  token_doc ind R = true /\
  doc_ws fixed psort (Some (para_ws fixed ind iel mll esort None)) R = Ok R.
Proof.
  intros Ht Hes Hps R. destruct t as [|k rs]; [discriminate|]. destruct k; try discriminate. cbn [token_doc children] in *.
  destruct (d_out_idem ind iel mll psort esort rs Ht Hes Hps) as [A B]. fold R in A, B.
  assert (ER : R = Node ROOT (children R)) by (unfold R, d_out; rewrite ensure_nl_node; reflexivity).
  split; [apply doc_ws_tokens, Ht|]. split; [rewrite ER; exact A|].
  rewrite ER at 1. rewrite (doc_ws_tokens ind iel mll psort esort (children R) A), B. reflexivity.
Qed.

(* sorting the fields by name meets the premise *)
Lemma e_out_key ind iel mll e : entry_ok ind e = true -> entry_key (e_out ind iel mll e) = entry_key e.
Proof.
  intros H. destruct (entry_ok_shape ind e H) as (cs & -> & Ht & _). unfold e_out. cbn [children]. apply (entry_out_shape ind iel mll cs Ht).
Qed.
