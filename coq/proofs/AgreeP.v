(* C06, full statement: on EVERY text the lossy reader accepts, the lossless reader accepts too and
   both report the same paragraphs, field names and non-blank value lines.
   Method: the lexer's output satisfies the automaton of LexInvP; under it, every step of the lossy
   reader (Lossy.read_go) is matched by the corresponding routine of the lossless parser. *)
From V.model Require Import Base Deb822Lex Deb822Parse Grammar Lossy.
From V.proofs Require Import BaseP Deb822LexP GrammarLexP GrammarParseP LossyP LossyRtP LexInvP.

(* ------------------------------------------------------------ shapes allowed by the automaton *)
Definition val_ok (t : str) : Prop := tok_text_ok VALUE t = true.

Lemma inv_tok q k s r : q <> JUNK -> lexinv q ((k, s) :: r) ->
  exists q', lnext q k = Some q' /\ tok_text_ok k s = true /\ lexinv q' r.
Proof.
  intros Hq H. cbn [lexinv] in H. destruct (lnext q k) as [q'|]; [|contradiction].
  destruct H as [[H|H] H2]; [congruence|]. exists q'. repeat split; assumption.
Qed.

Lemma EOLN_cases X : lexinv EOLN X -> X = [] \/ exists s Z, X = (NEWLINE, s) :: Z /\ lexinv LS Z.
Proof.
  destruct X as [|[k s] r]; [left; reflexivity|]. intros H. right.
  destruct (inv_tok EOLN _ _ _ (fun E => ltac:(discriminate E)) H) as (q' & Hn & _ & Hr).
  destruct k; try discriminate. injection Hn as <-. eauto.
Qed.

(* the rest of a value line: an optional VALUE, then the end of the line or of the input *)
Inductive line_rest : list token -> Prop :=
| LR_end : line_rest []
| LR_nl s Z : lexinv LS Z -> line_rest ((NEWLINE, s) :: Z)
| LR_val t : val_ok t -> line_rest [(VALUE, t)]
| LR_val_nl t s Z : val_ok t -> lexinv LS Z -> line_rest ((VALUE, t) :: (NEWLINE, s) :: Z).

Lemma ACW_cases X : lexinv ACW X -> line_rest X.
Proof.
  destruct X as [|[k s] r]; [constructor|]. intros H.
  destruct (inv_tok ACW _ _ _ (fun E => ltac:(discriminate E)) H) as (q' & Hn & Hok & Hr).
  destruct k; try discriminate; injection Hn as <-.
  - destruct (EOLN_cases _ Hr) as [->|(s2 & Z & -> & HZ)]; constructor; assumption.
  - constructor. exact Hr.
Qed.

Lemma AC_cases X : lexinv AC X ->
  (exists w X', X = (WHITESPACE, w) :: X' /\ line_rest X') \/
  (match X with (WHITESPACE, _) :: _ => False | _ => True end /\ line_rest X).
Proof.
  destruct X as [|[k s] r]; [right; split; [exact I|constructor]|]. intros H.
  destruct (inv_tok AC _ _ _ (fun E => ltac:(discriminate E)) H) as (q' & Hn & Hok & Hr).
  destruct k; try discriminate; injection Hn as <-.
  - right. split; [exact I|]. destruct (EOLN_cases _ Hr) as [->|(s2 & Z & -> & HZ)]; constructor; assumption.
  - right. split; [exact I|]. constructor. exact Hr.
  - left. exists s, r. split; [reflexivity|]. apply ACW_cases. exact Hr.
Qed.

(* after an INDENT: a comment may come first *)
Lemma AI_cases X : lexinv AI X ->
  line_rest X \/ exists c X', X = (COMMENT, c) :: X' /\ (X' = [] \/ exists s Z, X' = (NEWLINE, s) :: Z /\ lexinv LS Z).
Proof.
  destruct X as [|[k s] r]; [left; constructor|]. intros H.
  destruct (inv_tok AI _ _ _ (fun E => ltac:(discriminate E)) H) as (q' & Hn & Hok & Hr).
  destruct k; try discriminate; injection Hn as <-.
  - left. destruct (EOLN_cases _ Hr) as [->|(s2 & Z & -> & HZ)]; constructor; assumption.
  - left. constructor. exact Hr.
  - right. exists s, r. split; [reflexivity|]. apply EOLN_cases. exact Hr.
Qed.

(* ------------------------------------------------------------ value lines *)
Definition lines_cat (ls : list str) : str := concat (map (fun l => l ++ [LF]) ls).
Definition nonblank (l : str) : bool := negb (blank_line l).

Lemma lines_cat_app a b : lines_cat (a ++ b) = lines_cat a ++ lines_cat b.
Proof. unfold lines_cat. rewrite map_app, concat_app. reflexivity. Qed.
Lemma lines_cat_one l : lines_cat [l] = l ++ [LF].
Proof. unfold lines_cat. cbn. rewrite app_nil_r. reflexivity. Qed.

Lemma join_snoc (ls : list str) x : ls <> [] -> join [LF] (ls ++ [x]) = join [LF] ls ++ [LF] ++ x.
Proof.
  induction ls as [|l r IH]; [congruence|]. intros _. destruct r as [|l2 r2].
  - reflexivity.
  - change ((l :: l2 :: r2) ++ [x]) with (l :: ((l2 :: r2) ++ [x])).
    rewrite (join_cons2 [LF] l ((l2 :: r2) ++ [x])) by discriminate.
    rewrite IH by discriminate. rewrite (join_cons2 [LF] l (l2 :: r2)) by discriminate. rewrite <- !app_assoc. reflexivity.
Qed.

Lemma lines_cat_join ls tl : lines_cat ls ++ tl = join [LF] (ls ++ [tl]).
Proof.
  induction ls as [|l r IH]; [reflexivity|].
  cbn [app]. rewrite join_cons2 by (destruct r; discriminate). rewrite <- IH.
  unfold lines_cat. cbn [map concat]. rewrite <- !app_assoc. reflexivity.
Qed.

Lemma val_ok_no_eol t : val_ok t -> no_eol t = true.
Proof. unfold val_ok, tok_text_ok. intros H. apply andb_true_iff in H. apply H. Qed.
Lemma val_ok_nonblank t : val_ok t -> nonblank t = true.
Proof.
  unfold val_ok, tok_text_ok, nonblank, blank_line. intros H. apply andb_true_iff in H. destruct H as [_ H].
  destruct t as [|c r]; [discriminate|]. cbn [forallb]. apply negb_true_iff in H. rewrite H. reflexivity.
Qed.
Lemma val_ok_nonempty t : val_ok t -> t <> [].
Proof. unfold val_ok, tok_text_ok. intros H. apply andb_true_iff in H. destruct H as [_ H]. destruct t; [discriminate|discriminate]. Qed.

(* what the lossy reader finally stores, in non-blank lines *)
Lemma nb_final ls tl : ls <> [] -> forallb no_eol ls = true -> (tl = [] \/ val_ok tl) ->
  nb_lines (strip_nl (lines_cat ls ++ tl)) = filter nonblank (ls ++ [tl]).
Proof.
  intros Hne Hls [->|Htl].
  - rewrite app_nil_r. destruct (exists_last Hne) as (ls0 & l & ->).
    rewrite lines_cat_app, lines_cat_one, app_assoc, strip_nl_snoc, lines_cat_join.
    unfold nb_lines. rewrite split_lf_join by (try (destruct ls0; discriminate); exact Hls).
    rewrite (filter_app nonblank (ls0 ++ [l]) [[]]). cbn [filter nonblank blank_line forallb negb]. rewrite app_nil_r. reflexivity.
  - rewrite lines_cat_join. rewrite strip_nl_keep.
    + unfold nb_lines. rewrite split_lf_join; [reflexivity|destruct ls; discriminate|].
      rewrite forallb_app, Hls. cbn [forallb]. rewrite (val_ok_no_eol _ Htl). reflexivity.
    + rewrite join_snoc by exact Hne. rewrite !rev_app_distr.
      destruct (rev tl) as [|c r] eqn:Er.
      * exfalso. apply (val_ok_nonempty _ Htl). rewrite <- (rev_involutive tl), Er. reflexivity.
      * cbn [app]. eapply no_eol_last; [apply val_ok_no_eol; exact Htl|exact Er].
Qed.

Lemma filter_all_id {A} (p : A -> bool) l : forallb p l = true -> filter p l = l.
Proof.
  induction l as [|x r IH]; [reflexivity|]. cbn [forallb filter]. intros H. apply andb_true_iff in H.
  destruct H as [Hx Hr]. rewrite Hx, (IH Hr). reflexivity.
Qed.

(* ... and the lossless one *)
Lemma nb_join vs : Forall val_ok vs -> nb_lines (join [LF] vs) = vs.
Proof.
  intros H. destruct vs as [|v r]; [reflexivity|].
  unfold nb_lines. rewrite split_lf_join; [|discriminate|].
  - apply filter_all_id. rewrite forallb_forall. rewrite Forall_forall in H. intros x Hx. apply val_ok_nonblank, H, Hx.
  - rewrite forallb_forall. rewrite Forall_forall in H. intros x Hx. apply val_ok_no_eol, H, Hx.
Qed.

(* ------------------------------------------------------------ the lossless value-lines loop *)
Definition vals (e : list tree) : list str := token_texts_of_kind VALUE (Node ENTRY e).
Lemma vals_app a b : vals (a ++ b) = vals a ++ vals b.
Proof. unfold vals, token_texts_of_kind. cbn [children]. apply flat_map_app. Qed.
Lemma vals_nil : vals [] = [].
Proof. reflexivity. Qed.

Lemma vals_bump_while p ts : p VALUE = false -> vals (fst (bump_while p ts)) = [].
Proof.
  intros Hp. induction ts as [|[k s] r IH]; [reflexivity|]. cbn [bump_while].
  destruct (p k) eqn:E; [|reflexivity]. destruct (bump_while p r) as [e r']. cbn [fst] in *.
  change (Tok k s :: e) with ([Tok k s] ++ e). rewrite vals_app, IH, app_nil_r.
  destruct k; try reflexivity. congruence.
Qed.

Lemma pe_lines_nil f : pe_lines (S f) [] = Ok ([], [], 0).
Proof. reflexivity. Qed.

Lemma pe_lines_value f t X : pe_lines (S f) ((VALUE, t) :: X) = prefix3 [Tok VALUE t] (pe_lines (S f) X).
Proof.
  cbn [pe_lines bump_while is_ws_or_value]. destruct (bump_while is_ws_or_value X) as [e1 r1].
  destruct r1 as [|[k s] r2]; [reflexivity|].
  destruct (match k with NEWLINE => ([Tok k s], 0) | _ => ([Node ERROR [Tok k s]], 1) end) as [e2 n2].
  destruct r2 as [|[k3 s3] r3]; [reflexivity|].
  destruct k3; try reflexivity.
  destruct (skip_ws r3) as [e3 r4]. destruct (pe_lines f r4) as [[[e5 r5] n5]| | |]; reflexivity.
Qed.

Lemma pe_lines_nl_stop f s Z : match Z with (INDENT, _) :: _ => False | _ => True end ->
  pe_lines (S f) ((NEWLINE, s) :: Z) = Ok ([Tok NEWLINE s], Z, 0).
Proof.
  intros H. cbn [pe_lines bump_while is_ws_or_value]. destruct Z as [|[k3 s3] r3]; [reflexivity|].
  destruct k3; try reflexivity. contradiction.
Qed.

Lemma pe_lines_nl_indent f s si r3 :
  pe_lines (S f) ((NEWLINE, s) :: (INDENT, si) :: r3) =
  prefix3 (Tok NEWLINE s :: Tok INDENT si :: fst (skip_ws r3)) (pe_lines f (snd (skip_ws r3))).
Proof.
  cbn [pe_lines bump_while is_ws_or_value]. destruct (skip_ws r3) as [e3 r4]. cbn [fst snd].
  destruct (pe_lines f r4) as [[[e5 r5] n5]| | |]; reflexivity.
Qed.

Lemma skip_ws_comment c X : skip_ws ((COMMENT, c) :: X) = (Tok COMMENT c :: fst (skip_ws X), snd (skip_ws X)).
Proof. unfold skip_ws. cbn [bump_while is_ws_or_comment]. destruct (bump_while is_ws_or_comment X); reflexivity. Qed.
Lemma skip_ws_stop X : match cur X with Some WHITESPACE | Some COMMENT => False | _ => True end -> skip_ws X = ([], X).
Proof.
  intros H. destruct X as [|[k s] r]; [reflexivity|]. unfold skip_ws. cbn [bump_while]. cbn in H.
  destruct k; try reflexivity; contradiction.
Qed.

Lemma line_rest_no_wsc X : line_rest X -> skip_ws X = ([], X).
Proof. intros H. apply skip_ws_stop. destruct H; exact I. Qed.

Lemma conts_stop fc Z v : match Z with (INDENT, _) :: _ => False | _ => True end -> conts fc Z v = Ok (v, Z).
Proof. intros H. destruct fc; destruct Z as [|[k s] r]; try reflexivity; destruct k; try reflexivity; contradiction. Qed.

(* the situation at the NEWLINE that ends a value line: the lossy reader has [lines_cat ls] and
   runs [conts] on what follows; the lossless parser is in pe_lines at that NEWLINE *)
Ltac fin := repeat split; first [reflexivity | left; reflexivity | exact I | assumption | cbn [length] in *; lia | idtac].
Lemma nl_tail f2 : forall s Z ls fc v' r1,
  lexinv LS Z -> forallb no_eol ls = true -> conts fc Z (lines_cat ls) = Ok (v', r1) -> length Z < f2 ->
  exists e ls' tl, pe_lines f2 ((NEWLINE, s) :: Z) = Ok (e, r1, 0) /\
                   v' = lines_cat (ls ++ ls') ++ tl /\ forallb no_eol ls' = true /\ (tl = [] \/ val_ok tl) /\
                   vals e = filter nonblank (ls' ++ [tl]) /\ lexinv LS r1 /\ length r1 <= length Z.
Proof.
  induction f2 as [|f2 IH]; intros s Z ls fc v' r1 HZ Hls Hc Hlen; [lia|].
  (* the recursive step, shared by the cases below: one more line [l], then NEWLINE and Z2 *)
  assert (Hrec : forall (pre : list tree) l s2 Z2 fc',
            lexinv LS Z2 -> no_eol l = true -> S (length Z2) < S f2 ->
            conts fc' Z2 (lines_cat ls ++ l ++ [LF]) = Ok (v', r1) ->
            vals pre = (if nonblank l then [l] else []) ->
            exists e ls' tl, prefix3 pre (pe_lines f2 ((NEWLINE, s2) :: Z2)) = Ok (e, r1, 0) /\
                   v' = lines_cat (ls ++ ls') ++ tl /\ forallb no_eol ls' = true /\ (tl = [] \/ val_ok tl) /\
                   vals e = filter nonblank (ls' ++ [tl]) /\ lexinv LS r1 /\ length r1 <= length Z2).
  { intros pre l s2 Z2 fc' HZ2 Hl Hlen2 Hc2 Hpre.
    assert (Hc3 : conts fc' Z2 (lines_cat (ls ++ [l])) = Ok (v', r1)).
    { rewrite lines_cat_app, lines_cat_one. exact Hc2. }
    destruct (IH s2 Z2 (ls ++ [l]) fc' v' r1 HZ2) as (e & ls' & tl & He & Hv & Hls' & Htl & Hvals & Hr1 & Hlen1).
    - rewrite forallb_app, Hls. cbn [forallb]. rewrite Hl. reflexivity.
    - exact Hc3.
    - lia.
    - exists (pre ++ e), (l :: ls'), tl. rewrite He. cbn [prefix3].
      split; [reflexivity|]. split; [rewrite Hv, <- app_assoc; reflexivity|].
      split; [cbn [forallb]; rewrite Hl, Hls'; reflexivity|]. split; [exact Htl|].
      split; [|split; assumption].
      rewrite vals_app, Hpre, Hvals. cbn [app filter]. destruct (nonblank l); reflexivity. }
  destruct Z as [|[k si] r3].
  { (* end of input after the NEWLINE *)
    rewrite conts_stop in Hc by exact I. injection Hc as <- <-. exists [Tok NEWLINE s], [], [].
    rewrite pe_lines_nl_stop by exact I. rewrite !app_nil_r. fin. }
  destruct (kind_eqb k INDENT) eqn:Ek.
  2:{ (* no continuation line *)
    assert (Hc' : v' = lines_cat ls /\ r1 = (k, si) :: r3).
    { rewrite conts_stop in Hc by (destruct k; try exact I; discriminate). injection Hc as <- <-. split; reflexivity. }
    destruct Hc' as [-> ->]. exists [Tok NEWLINE s], [], [].
    rewrite pe_lines_nl_stop by (destruct k; try exact I; discriminate).
    rewrite !app_nil_r. fin. }
  destruct k; try discriminate. clear Ek.
  destruct (inv_tok LS _ _ _ (fun E => ltac:(discriminate E)) HZ) as (q' & Hn & _ & Hr3). injection Hn as <-.
  destruct fc as [|fc]; [discriminate|]. cbn [conts] in Hc.
  rewrite pe_lines_nl_indent. cbn [length] in Hlen.
  destruct (AI_cases _ Hr3) as [HL|(c & X' & -> & HX')].
  - rewrite (line_rest_no_wsc _ HL). cbn [fst snd].
    destruct HL as [|s2 Z2 HZ2|t Ht|t s2 Z2 Ht HZ2].
    + (* INDENT at the end of the input *)
      cbn [cont_line] in Hc. rewrite conts_stop in Hc by exact I. injection Hc as <- <-.
      destruct f2; [cbn in Hlen; lia|]; rewrite pe_lines_nil; cbn [prefix3];
        exists [Tok NEWLINE s; Tok INDENT si], [], []; rewrite !app_nil_r;
        fin.
    + (* an indented empty line *)
      cbn [cont_line] in Hc.
      destruct (Hrec [Tok NEWLINE s; Tok INDENT si] [] s2 Z2 fc HZ2 eq_refl ltac:(cbn [length] in *; lia) Hc eq_refl)
        as (e & ls' & tl & He & Hv & Hls' & Htl & Hvals & Hr1 & Hlen1).
      exists e, ls', tl. cbn [app] in He. repeat split; try assumption. cbn [length]. lia.
    + (* a last line without line end *)
      cbn [cont_line] in Hc. rewrite conts_stop in Hc by exact I. injection Hc as <- <-.
      destruct f2; [cbn in Hlen; lia|]; rewrite pe_lines_value, pe_lines_nil; cbn [prefix3 app];
        exists [Tok NEWLINE s; Tok INDENT si; Tok VALUE t], [], t; rewrite !app_nil_r;
        fin; [right; exact Ht|cbn [app filter]; rewrite (val_ok_nonblank _ Ht); reflexivity].
    + (* a continuation line *)
      cbn [cont_line] in Hc. rewrite <- app_assoc in Hc.
      destruct f2; [cbn in Hlen; lia|]. rewrite pe_lines_value.
      destruct (Hrec [Tok NEWLINE s; Tok INDENT si; Tok VALUE t] t s2 Z2 fc HZ2 (val_ok_no_eol _ Ht)
                  ltac:(cbn [length] in *; lia) Hc) as (e & ls' & tl & He & Hv & Hls' & Htl & Hvals & Hr1 & Hlen1).
      { rewrite (val_ok_nonblank _ Ht). reflexivity. }
      exists e, ls', tl. split.
      { destruct (pe_lines (S f2) ((NEWLINE, s2) :: Z2)) as [[[e5 r5] n5]| | |]; cbn [prefix3 app] in *; try discriminate. exact He. }
      repeat split; try assumption. cbn [length]. lia.
  - (* an indented comment line *)
    rewrite skip_ws_comment. cbn [cont_line] in Hc.
    destruct HX' as [->|(s2 & Z2 & -> & HZ2)].
    + cbn [cont_line] in Hc. rewrite conts_stop in Hc by exact I. injection Hc as <- <-.
      rewrite skip_ws_stop by exact I; cbn [fst snd];
        destruct f2; [cbn in Hlen; lia|]; rewrite pe_lines_nil; cbn [prefix3];
        exists [Tok NEWLINE s; Tok INDENT si; Tok COMMENT c], [], []; rewrite !app_nil_r;
        fin.
    + cbn [cont_line] in Hc. rewrite skip_ws_stop by exact I. cbn [fst snd].
      destruct (Hrec [Tok NEWLINE s; Tok INDENT si; Tok COMMENT c] [] s2 Z2 fc HZ2 eq_refl ltac:(cbn [length] in *; lia) Hc eq_refl)
        as (e & ls' & tl & He & Hv & Hls' & Htl & Hvals & Hr1 & Hlen1).
      exists e, ls', tl. cbn [app] in He. repeat split; try assumption. cbn [length]. lia.
Qed.

Lemma nb_join' vs : forallb no_eol vs = true -> forallb nonblank vs = true -> nb_lines (join [LF] vs) = vs.
Proof.
  intros H1 H2. destruct vs as [|v r]; [reflexivity|].
  unfold nb_lines. rewrite split_lf_join; [|discriminate|exact H1]. apply filter_all_id. exact H2.
Qed.
Lemma forallb_filter {A} (p q : A -> bool) l : forallb p l = true -> forallb p (filter q l) = true.
Proof.
  induction l as [|x r IH]; [reflexivity|]. cbn [forallb filter]. intros H. apply andb_true_iff in H. destruct H as [Hx Hr].
  destruct (q x); [cbn [forallb]; rewrite Hx|]; apply IH; exact Hr.
Qed.
Lemma forallb_filter_self {A} (q : A -> bool) l : forallb q (filter q l) = true.
Proof. induction l as [|x r IH]; [reflexivity|]. cbn [filter]. destruct (q x) eqn:E; [cbn [forallb]; rewrite E|]; exact IH. Qed.

(* both readers on the lines of one field, from the first token after "name:" and its white space *)
Lemma field_lines X v rA v' r1 :
  line_rest X -> first_line X [] = Ok (v, rA) -> conts (length rA) rA (v ++ [LF]) = Ok (v', r1) ->
  exists e3, pe_lines (S (length X)) X = Ok (e3, r1, 0) /\
             nb_lines (join [LF] (vals e3)) = nb_lines (strip_nl v') /\ lexinv LS r1 /\ length r1 <= length X.
Proof.
  intros HL Hf Hc. destruct HL as [|s Z HZ|t Ht|t s Z Ht HZ].
  - cbn [first_line] in Hf. injection Hf as <- <-. rewrite conts_stop in Hc by exact I. injection Hc as <- <-.
    exists []. fin.
  - cbn [first_line] in Hf. injection Hf as <- <-. cbn [app] in Hc.
    change [LF] with (lines_cat [[]]) in Hc.
    destruct (nl_tail (S (S (length Z))) s Z [[]] _ _ _ HZ eq_refl Hc ltac:(lia))
      as (e & ls' & tl & He & Hv & Hls' & Htl & Hvals & Hr1 & Hlen1).
    exists e. cbn [length]. split; [exact He|]. split; [|split; [exact Hr1|lia]].
    rewrite Hv, nb_final; [|destruct ls'; discriminate|cbn [app forallb]; exact Hls'|exact Htl].
    rewrite Hvals. cbn [app filter nonblank blank_line forallb negb].
    apply nb_join'; [apply forallb_filter; rewrite forallb_app, Hls'; cbn [forallb]; destruct Htl as [->|Htl]; [reflexivity|rewrite (val_ok_no_eol _ Htl); reflexivity]
                    |apply forallb_filter_self].
  - cbn [first_line] in Hf. injection Hf as <- <-. rewrite conts_stop in Hc by exact I. injection Hc as <- <-.
    exists [Tok VALUE t]. cbn [length]. rewrite pe_lines_value, pe_lines_nil. cbn [prefix3 app].
    split; [reflexivity|]. split; [|split; [exact I|lia]]. rewrite strip_nl_snoc. reflexivity.
  - cbn [first_line] in Hf. injection Hf as <- <-. rewrite <- lines_cat_one in Hc.
    assert (Hlt : forallb no_eol [t] = true) by (cbn [forallb]; rewrite (val_ok_no_eol _ Ht); reflexivity).
    destruct (nl_tail (S (S (S (length Z)))) s Z [t] _ _ _ HZ Hlt Hc ltac:(lia))
      as (e & ls' & tl & He & Hv & Hls' & Htl & Hvals & Hr1 & Hlen1).
    exists (Tok VALUE t :: e). cbn [length]. rewrite pe_lines_value, He. cbn [prefix3 app].
    split; [reflexivity|]. split; [|split; [exact Hr1|lia]].
    rewrite Hv, nb_final; [|discriminate|cbn [app forallb]; rewrite (val_ok_no_eol _ Ht); exact Hls'|exact Htl].
    change (Tok VALUE t :: e) with ([Tok VALUE t] ++ e). rewrite vals_app, Hvals.
    cbn [app filter]. rewrite (val_ok_nonblank _ Ht).
    change (vals [Tok VALUE t] ++ filter nonblank (ls' ++ [tl])) with (t :: filter nonblank (ls' ++ [tl])).
    apply nb_join'.
    + cbn [forallb]. rewrite (val_ok_no_eol _ Ht). apply forallb_filter. rewrite forallb_app, Hls'. cbn [forallb].
      destruct Htl as [->|Htl]; [reflexivity|rewrite (val_ok_no_eol _ Htl); reflexivity].
    + cbn [forallb]. rewrite (val_ok_nonblank _ Ht). apply forallb_filter_self.
Qed.

(* ------------------------------------------------------------ one field *)
Lemma skip_ws_ws w X : skip_ws ((WHITESPACE, w) :: X) = (Tok WHITESPACE w :: fst (skip_ws X), snd (skip_ws X)).
Proof. unfold skip_ws. cbn [bump_while is_ws_or_comment]. destruct (bump_while is_ws_or_comment X); reflexivity. Qed.

Lemma line_rest_no_ws X : line_rest X -> skip_ws_tokens X = X.
Proof. intros H. destruct H; reflexivity. Qed.

Lemma after_colon r' : lexinv AC r' ->
  exists ews X, skip_ws r' = (ews, X) /\ skip_ws_tokens r' = X /\ vals ews = [] /\ line_rest X /\ length X <= length r'.
Proof.
  intros H. destruct (AC_cases _ H) as [(w & X & -> & HL)|[Hnw HL]].
  - exists [Tok WHITESPACE w], X. rewrite skip_ws_ws, (line_rest_no_wsc _ HL). cbn [fst snd skip_ws_tokens].
    rewrite (line_rest_no_ws _ HL). fin.
  - exists [], r'. rewrite (line_rest_no_wsc _ HL), (line_rest_no_ws _ HL). fin.
Qed.

Lemma entry_joint name r fld r1 :
  lexinv AK r -> read_field name r = Ok (fld, r1) ->
  exists cs, parse_entry ((KEY, name) :: r) = Ok ([Node ENTRY cs], r1, 0) /\
             entry_key (Node ENTRY cs) = Some name /\ fst fld = name /\
             nb_lines (entry_value (Node ENTRY cs)) = nb_lines (snd fld) /\
             lexinv LS r1 /\ length r1 <= length r.
Proof.
  intros Hinv Hrf. unfold read_field in Hrf. destruct r as [|[k sc] r']; [discriminate|].
  destruct (inv_tok AK _ _ _ (fun E => ltac:(discriminate E)) Hinv) as (q' & Hn & _ & Hr').
  destruct k; try discriminate. injection Hn as <-.
  destruct (after_colon _ Hr') as (ews & X & Hsk & Hskt & Hews & HL & HlenX).
  rewrite Hskt in Hrf.
  destruct (first_line X []) as [[v rA]| | |] eqn:Ef; try discriminate.
  destruct (conts (length rA) rA (v ++ [10%N])) as [[v' r2]| | |] eqn:Ec; try discriminate.
  injection Hrf as <- <-.
  destruct (field_lines _ _ _ _ _ HL Ef Ec) as (e3 & He3 & Hnb & Hr1 & Hlen).
  exists ([Tok KEY name] ++ (Tok COLON sc :: ews) ++ e3).
  split.
  { unfold parse_entry. cbn [pe_comments cur pe_expect kind_eqb kind_code N.eqb Pos.eqb].
    rewrite (skip_ws_stop ((COLON, sc) :: r')) by exact I. cbn [pe_expect kind_eqb kind_code N.eqb Pos.eqb].
    rewrite Hsk, He3. reflexivity. }
  split; [reflexivity|]. split; [reflexivity|]. split; [|split; [exact Hr1|cbn [length]; lia]].
  cbn [snd]. rewrite <- Hnb. unfold entry_value. fold (vals ([Tok KEY name] ++ (Tok COLON sc :: ews) ++ e3)).
  rewrite !vals_app. change (Tok COLON sc :: ews) with ([Tok COLON sc] ++ ews). rewrite vals_app, Hews. reflexivity.
Qed.

(* ------------------------------------------------------------ one paragraph *)
Definition nbf (kv : str * str) : str * list str := (fst kv, nb_lines (snd kv)).
Definition eitems (e : list tree) : list (str * str) := items (Node PARAGRAPH e).

Lemma eitems_app a b : eitems (a ++ b) = eitems a ++ eitems b.
Proof.
  unfold eitems, items, entries, node_children_of_kind. cbn [children]. rewrite filter_app, flat_map_app. reflexivity.
Qed.
Lemma eitems_tok k s : eitems [Tok k s] = [].
Proof. reflexivity. Qed.
Lemma eitems_entry cs name : entry_key (Node ENTRY cs) = Some name ->
  eitems [Node ENTRY cs] = [(name, entry_value (Node ENTRY cs))].
Proof.
  intros H. unfold eitems, items, entries, node_children_of_kind. cbn [children filter is_node is_kind ekind kind_eqb kind_code N.eqb Pos.eqb andb flat_map].
  rewrite H. reflexivity.
Qed.

Lemma pp_entries_stop f ts : match cur ts with None | Some NEWLINE => True | _ => False end ->
  pp_entries f ts = Ok ([], ts, 0).
Proof. intros H. destruct f; cbn [pp_entries]; destruct (cur ts) as [k|]; try reflexivity; destruct k; try reflexivity; contradiction. Qed.

Lemma readf_ok_key t r0 cur0 ps L : readf ((KEY, t) :: r0) cur0 ps = Ok L ->
  exists fld r1, read_field t r0 = Ok (fld, r1) /\ readf r1 (cur0 ++ [fld]) ps = Ok L.
Proof.
  intros H. destruct (read_field t r0) as [[fld r1]| | |] eqn:E.
  - exists fld, r1. split; [reflexivity|]. rewrite <- (readf_key _ _ cur0 ps _ _ E). exact H.
  - unfold readf in H. cbn [length read_go] in H. rewrite E in H. discriminate.
  - unfold readf in H. cbn [length read_go] in H. rewrite E in H. discriminate.
  - unfold readf in H. cbn [length read_go] in H. rewrite E in H. discriminate.
Qed.

Lemma para_joint n : forall ts, length ts <= n -> forall f cur0 ps L, length ts <= f -> lexinv LS ts ->
  readf ts cur0 ps = Ok L ->
  exists e r F, pp_entries f ts = Ok (e, r, 0) /\ map nbf (eitems e) = map nbf F /\ lexinv LS r /\
                length r <= length ts /\ match cur r with None | Some NEWLINE => True | _ => False end /\
                readf r (cur0 ++ F) ps = Ok L /\
                (cur ts = Some KEY -> F <> [] /\ length r < length ts).
Proof.
  induction n as [|n IH]; intros ts Hn f cur0 ps L Hf Hinv Hread.
  { destruct ts; [|cbn in Hn; lia]. exists [], [], []. rewrite pp_entries_stop by exact I. rewrite app_nil_r. fin; cbn [cur] in *; congruence. }
  destruct ts as [|[k t] r0].
  { exists [], [], []. rewrite pp_entries_stop by exact I. rewrite app_nil_r. fin; cbn [cur] in *; congruence. }
  cbn [length] in Hn, Hf.
  destruct (inv_tok LS _ _ _ (fun E => ltac:(discriminate E)) Hinv) as (q' & Hq & _ & Hr0).
  (* COLON, INDENT, ERROR: the lossy reader fails; VALUE, WHITESPACE: not at a line start *)
  destruct k; try discriminate; injection Hq as <-.
  - (* KEY *)
    destruct (readf_ok_key _ _ _ _ _ Hread) as (fld & r1 & Hrf & Hread1).
    destruct (entry_joint _ _ _ _ Hr0 Hrf) as (cs & Hpe & Hkey & Hname & Hnb & Hr1 & Hlen1).
    destruct f as [|f]; [lia|].
    destruct (IH r1 ltac:(lia) f (cur0 ++ [fld]) ps L ltac:(lia) Hr1 Hread1) as (e2 & r & F2 & Hpp & Hit & Hr & Hlen & Hcur & Hread2 & _).
    exists ([Node ENTRY cs] ++ e2), r, (fld :: F2).
    split. { cbn [pp_entries cur]. rewrite Hpe, Hpp. reflexivity. }
    split. { rewrite eitems_app, (eitems_entry _ _ Hkey), map_app. cbn [map app]. rewrite Hit. f_equal.
             unfold nbf. cbn [fst snd]. rewrite Hnb, Hname. reflexivity. }
    split; [exact Hr|]. split; [cbn [length]; lia|]. split; [exact Hcur|].
    split. { rewrite <- app_assoc in Hread2. exact Hread2. }
    intros _. split; [discriminate|cbn [length]; lia].
  - (* NEWLINE *)
    exists [], ((NEWLINE, t) :: r0), []. rewrite pp_entries_stop by exact I. rewrite app_nil_r.
    split; [reflexivity|]. split; [reflexivity|]. split; [exact Hinv|]. split; [lia|]. split; [exact I|]. split; [exact Hread|].
    intros Hk. cbn in Hk. discriminate Hk.
  - (* COMMENT *)
    rewrite readf_comment in Hread. destruct f as [|f]; [lia|].
    destruct (EOLN_cases _ Hr0) as [->|(s2 & Z & -> & HZ)].
    + cbn [drop_line] in Hread. exists [Tok COMMENT t], [], []. rewrite app_nil_r.
      split. { cbn [pp_entries cur]. unfold parse_entry. cbn [pe_comments]. rewrite pp_entries_stop by exact I. reflexivity. }
      fin; cbn [cur] in *; congruence.
    + cbn [drop_line] in Hread. cbn [length] in Hn, Hf.
      destruct (IH Z ltac:(lia) (S f) cur0 ps L ltac:(lia) HZ Hread) as (e2 & r & F2 & Hpp & Hit & Hr & Hlen & Hcur & Hread2 & _).
      exists ([Tok COMMENT t; Tok NEWLINE s2] ++ e2), r, F2.
      split. { rewrite pp_entries_comment, Hpp. reflexivity. }
      split. { rewrite eitems_app. exact Hit. }
      fin; cbn [cur] in *; congruence.
Qed.

(* ------------------------------------------------------------ the document *)
Definition is_el (e : tree) : bool := match e with Node EMPTY_LINE _ => true | _ => false end.

Lemma skip_wsnl_stop f ts : starts_blank ts = false -> skip_wsnl f ts = Ok ([], ts).
Proof. intros H. destruct f; cbn [skip_wsnl]; rewrite H; reflexivity. Qed.

Lemma wsnl_joint n : forall ts, length ts <= n -> forall f ps L, length ts <= f -> lexinv LS ts ->
  readf ts [] ps = Ok L ->
  exists e1 r1, skip_wsnl f ts = Ok (e1, r1) /\ forallb is_el e1 = true /\ readf r1 [] ps = Ok L /\
                lexinv LS r1 /\ length r1 <= length ts /\ starts_blank r1 = false.
Proof.
  induction n as [|n IH]; intros ts Hn f ps L Hf Hinv Hread.
  { destruct ts; [|cbn in Hn; lia]. exists [], []. rewrite skip_wsnl_stop by reflexivity. fin. }
  destruct ts as [|[k t] r0].
  { exists [], []. rewrite skip_wsnl_stop by reflexivity. fin. }
  cbn [length] in Hn, Hf.
  destruct (inv_tok LS _ _ _ (fun E => ltac:(discriminate E)) Hinv) as (q' & Hq & _ & Hr0).
  destruct k; try discriminate; injection Hq as <-.
  - (* KEY *) exists [], ((KEY, t) :: r0). rewrite skip_wsnl_stop by reflexivity.
    split; [reflexivity|]. split; [reflexivity|]. split; [exact Hread|]. split; [exact Hinv|]. split; [lia|reflexivity].
  - (* NEWLINE *)
    rewrite readf_newline in Hread. cbn [push_para] in Hread. destruct f as [|f]; [lia|].
    destruct (IH r0 ltac:(lia) f ps L ltac:(lia) Hr0 Hread) as (e1 & r1 & Hs & Hel & Hrd & Hr1 & Hlen & Hsb).
    exists (Node EMPTY_LINE [Tok NEWLINE t] :: e1), r1.
    split. { cbn [skip_wsnl starts_blank cur empty_line]. rewrite Hs. reflexivity. }
    split; [cbn [forallb is_el]; exact Hel|]. split; [exact Hrd|]. split; [exact Hr1|]. split; [cbn [length]; lia|exact Hsb].
  - (* COMMENT *)
    rewrite readf_comment in Hread. destruct f as [|f]; [lia|].
    destruct (EOLN_cases _ Hr0) as [->|(s2 & Z & -> & HZ)].
    + cbn [drop_line] in Hread. exists [Node EMPTY_LINE [Tok COMMENT t]], [].
      split. { cbn [skip_wsnl starts_blank cur empty_line]. rewrite skip_wsnl_stop by reflexivity. reflexivity. }
      fin.
    + cbn [drop_line] in Hread. cbn [length] in Hn, Hf.
      destruct (IH Z ltac:(lia) f ps L ltac:(lia) HZ Hread) as (e1 & r1 & Hs & Hel & Hrd & Hr1 & Hlen & Hsb).
      exists (Node EMPTY_LINE [Tok COMMENT t; Tok NEWLINE s2] :: e1), r1.
      split. { cbn [skip_wsnl starts_blank cur empty_line]. rewrite Hs. reflexivity. }
      split; [cbn [forallb is_el]; exact Hel|]. split; [exact Hrd|]. split; [exact Hr1|]. split; [cbn [length]; lia|exact Hsb].
Qed.

Lemma paragraphs_app a b : paragraphs (Node ROOT (a ++ b)) = paragraphs (Node ROOT a) ++ paragraphs (Node ROOT b).
Proof. unfold paragraphs, node_children_of_kind. cbn [children]. apply filter_app. Qed.
Lemma paragraphs_el e1 : forallb is_el e1 = true -> paragraphs (Node ROOT e1) = [].
Proof.
  unfold paragraphs, node_children_of_kind. cbn [children]. induction e1 as [|x r IH]; [reflexivity|].
  cbn [forallb]. intros H. apply andb_true_iff in H. destruct H as [Hx Hr]. cbn [filter].
  destruct x as [k s|k cs]; [discriminate|]. destruct k; try discriminate. cbn. apply IH. exact Hr.
Qed.
Lemma parse_root_nil f : parse_root f [] = Ok ([], 0).
Proof. destruct f; reflexivity. Qed.
Lemma push_para_nonempty F ps : F <> [] -> push_para F ps = ps ++ [F].
Proof. destruct F; [congruence|reflexivity]. Qed.

Lemma root_joint n : forall ts, length ts <= n -> forall f ps L, length ts <= f -> lexinv LS ts ->
  readf ts [] ps = Ok L ->
  exists e D, parse_root f ts = Ok (e, 0) /\ L = ps ++ D /\
              map (map nbf) (map items (paragraphs (Node ROOT e))) = map (map nbf) D.
Proof.
  induction n as [|n IH]; intros ts Hn f ps L Hf Hinv Hread.
  { destruct ts; [|cbn in Hn; lia]. exists [], []. rewrite parse_root_nil. rewrite readf_nil in Hread. cbn [push_para] in Hread.
    injection Hread as <-. rewrite app_nil_r. fin. }
  destruct ts as [|tk0 ts0] eqn:Ets.
  { exists [], []. rewrite parse_root_nil. rewrite readf_nil in Hread. cbn [push_para] in Hread.
    injection Hread as <-. rewrite app_nil_r. fin. }
  rewrite <- Ets in *. assert (Hne : ts <> []) by (rewrite Ets; discriminate).
  destruct f as [|f]; [rewrite Ets in Hf; cbn in Hf; lia|].
  destruct (wsnl_joint (length ts) ts (le_n _) (length ts) ps L (le_n _) Hinv Hread) as (e1 & r1 & Hs & Hel & Hrd & Hr1 & Hlen1 & Hsb).
  assert (Hroot : parse_root (S f) ts =
                  match r1 with
                  | [] => Ok (e1, 0)
                  | _ => match parse_paragraph r1 with
                         | Ok (e2, r2, n2) => match parse_root f r2 with
                                              | Ok (e3, n3) => Ok (e1 ++ e2 ++ e3, n2 + n3)
                                              | Err x => Err x | Panic x => Panic x | OutOfFuel => OutOfFuel
                                              end
                         | Err x => Err x | Panic x => Panic x | OutOfFuel => OutOfFuel
                         end
                  end).
  { rewrite Ets. cbn [parse_root]. rewrite <- Ets, Hs. reflexivity. }
  rewrite Hroot. clear Hroot.
  destruct r1 as [|[k t] r1'] eqn:Er1.
  { exists e1, []. rewrite readf_nil in Hrd. cbn [push_para] in Hrd. injection Hrd as <-. rewrite app_nil_r.
    split; [reflexivity|]. split; [reflexivity|]. rewrite (paragraphs_el _ Hel). reflexivity. }
  rewrite <- Er1 in *.
  assert (Hkey : cur r1 = Some KEY).
  { rewrite Er1 in *. destruct (inv_tok LS _ _ _ (fun E => ltac:(discriminate E)) Hr1) as (q' & Hq & _ & _).
    destruct k; try discriminate; reflexivity. }
  destruct (para_joint (length r1) r1 (le_n _) (length r1) [] ps L (le_n _) Hr1 Hrd)
    as (e & r & F & Hpp & Hit & Hr & Hlen & Hcur & Hread2 & Hk).
  destruct (Hk Hkey) as [HF Hlt]. cbn [app] in Hread2.
  unfold parse_paragraph. rewrite Hpp.
  assert (Hread3 : readf r [] (ps ++ [F]) = Ok L).
  { destruct r as [|[k2 t2] r']; [rewrite readf_nil in *; rewrite (push_para_nonempty _ _ HF) in Hread2; exact Hread2|].
    cbn [cur] in Hcur. destruct k2; try contradiction.
    rewrite readf_newline in *. rewrite (push_para_nonempty _ _ HF) in Hread2. exact Hread2. }
  assert (Hlr : length r <= n) by (rewrite Ets in Hn; cbn [length] in Hn; rewrite Ets in Hlen1; cbn [length] in Hlen1; lia).
  assert (Hlf : length r <= f) by (rewrite Ets in Hf; cbn [length] in Hf; rewrite Ets in Hlen1; cbn [length] in Hlen1; lia).
  destruct (IH r Hlr f (ps ++ [F]) L Hlf Hr Hread3) as (e3 & D & Hp3 & HL & Hd).
  exists (e1 ++ [Node PARAGRAPH e] ++ e3), (F :: D). rewrite Hp3.
  split; [reflexivity|]. split; [rewrite HL, <- app_assoc; reflexivity|].
  rewrite !paragraphs_app, (paragraphs_el _ Hel). cbn [app map].
  change (paragraphs (Node ROOT [Node PARAGRAPH e])) with [Node PARAGRAPH e]. cbn [app map].
  fold (eitems e). rewrite Hit, Hd. reflexivity.
Qed.

(* ------------------------------------------------------------ the theorem *)
Theorem lossy_accepts_implies_agreement s L : lossy_from_str s = Ok L ->
  exists t, from_str s = Ok t /\ nb_doc L = nb_doc (doc_items t).
Proof.
  unfold lossy_from_str, from_str, parse. intros H. destruct (lex s) as [ts| | |] eqn:El; try discriminate.
  pose proof (lex_inv _ _ El) as Hinv.
  destruct (root_joint (length ts) ts (le_n _) (length ts) [] L (le_n _) Hinv H) as (e & D & Hp & HL & Hd).
  unfold parse_tokens. rewrite Hp. exists (Node ROOT e). split; [reflexivity|].
  cbn [app] in HL. subst D. unfold nb_doc, doc_items. symmetry. exact Hd.
Qed.

Theorem C06_full_holds : forall (s : str) (L : ldoc) (t : tree),
  lossy_from_str s = Ok L -> from_str s = Ok t -> nb_doc L = nb_doc (doc_items t).
Proof.
  intros s L t HL Ht. destruct (lossy_accepts_implies_agreement _ _ HL) as (t' & Ht' & Hnb).
  rewrite Ht in Ht'. injection Ht' as <-. exact Hnb.
Qed.
