(* Clause 3 of the conversion part of C14 for EVERY valid lossy value: the lossless reader reads
   the text printed by a lossy value as the same structure.  The printed text is exhibited as the
   rendering of a LIBERAL layout of cone C10 (RelGrammarAll.afield: also "[]", "<>" and versions with
   empty colon parts), whose token list is shown to be what the lexer produces for the printed text
   (so the layout is lexable and renders to that text); C10's image theorem then gives the tree the
   parser builds, and the conversion back (RelConv.to_lossy) is evaluated on it. *)
From Coq Require Import ZifyBool.
From V.model Require Import Base RelLex RelParse RelLossy RelConv.
From V.proofs Require RelLossyP RelConvP.
From V.model Require Import RelAcc RelGrammar RelGrammarAll.
From V.proofs Require Import BaseP RelLexP RelParseP RelGrammarLexP RelGrammarParseP RelGrammarAccP RelLexInvP
  RelGrammarAllParseP RelGrammarAllInvP RelGrammarAllAccP.

Notation tSP := RelLossyP.tSP.

(* ================================================================== the liberal layout of a lossy value *)
(* the pieces of a version text: maximal identifier runs and colons *)
Fixpoint vpieces_go (fuel : nat) (s : str) : list vpiece :=
  match fuel with
  | O => []
  | S f =>
    match s with
    | [] => []
    | c :: r => if (c =? 58)%N then VColon :: vpieces_go f r
                else let '(w, r') := span is_ident_char r in VId (c :: w) :: vpieces_go f r'
    end
  end.
Definition vpieces (s : str) : list vpiece := vpieces_go (length s) s.

Definition atoms_of_term (w : list rtoken) (t : bool * str) : list (list rtoken * atom) :=
  if fst t then [(w, ANot); ([], AId (snd t))] else [(w, AId (snd t))].
Definition atoms_of (ts : list (bool * str)) : list (list rtoken * atom) :=
  match ts with [] => [] | t :: r => atoms_of_term [] t ++ flat_map (atoms_of_term [tSP]) r end.
Definition pterm_of (t : bool * str) : pterm := if fst t then PNot [] (snd t) else PId (snd t).
Definition pterms_of (ts : list (bool * str)) : list (list rtoken * pterm) :=
  match ts with [] => [] | t :: r => ([], pterm_of t) :: map (fun t => ([tSP], pterm_of t)) r end.

Definition al_ver (c : vconstraint) (v : dversion) : aver := mk_aver [tSP] [] (vc_print c) [tSP] (vpieces (dv_print v)) [].
Definition al_archs (a : list str) : agroup := mk_agroup [tSP] (atoms_of (map RelLossyP.arch_term a)) [].
Definition al_group (g : list RelLossy.bprofile) : pgroup := mk_pgroup [tSP] (pterms_of (map RelLossyP.prof_term g)) [].
Definition al_rel (bp : bool) (r : relation dversion) : arel :=
  mk_arel (RelLossy.r_name r) (option_map (mk_aqual [] []) (r_archqual r))
          (option_map (fun cv => al_ver (fst cv) (snd cv)) (r_version r))
          (option_map al_archs (RelLossy.r_archs r)) (map al_group (r_profiles r))
          (if bp then [tSP] else []).
Fixpoint al_alts (rs : list (relation dversion)) : list (list rtoken * arel) :=
  match rs with [] => [] | r :: rest => ([tSP], al_rel (nonempty_list rest) r) :: al_alts rest end.
Definition al_item (e : list (relation dversion)) : aitem :=
  match e with [] => AEmpty | r :: rs => AEntry (al_rel (nonempty_list rs) r) (al_alts rs) end.
Definition al_of (rs : list (list (relation dversion))) : afield :=
  match rs with
  | [] => mk_afield [] AEmpty []
  | e :: es => mk_afield [] (al_item e) (map (fun e' => ([tSP], al_item e')) es)
  end.

(* ================================================================== its tokens are the lexer's *)
Lemma lex_vpieces n : forall s rest ts, length s <= n -> version_text_ok s = true -> RelLossyP.sep_start rest ->
  rlex rest = Ok ts -> rlex (s ++ rest) = Ok (map vpiece_tok (vpieces_go n s) ++ ts).
Proof.
  induction n as [|n IH]; intros s rest ts Hl Hok Hs Hr.
  - destruct s; [exact Hr|cbn in Hl; lia].
  - destruct s as [|c s']; [exact Hr|].
    unfold version_text_ok in Hok. cbn [forallb] in Hok. apply andb_true_iff in Hok. destruct Hok as [Hc Hok].
    cbn [vpieces_go]. destruct (N.eqb_spec c 58) as [->|Hne].
    + cbn [map vpiece_tok app]. apply RelLossyP.rlex_single; [reflexivity|].
      apply IH; [cbn in Hl; lia|exact Hok|exact Hs|exact Hr].
    + assert (Ec : is_ident_char c = true).
      { rewrite orb_false_r in Hc. exact Hc. }
      destruct (RelLossyP.span_ident_split s') as (w & r & E & Es & Hw & Hsr). rewrite Es.
      assert (Hokr : version_text_ok r = true).
      { unfold version_text_ok in *. rewrite E, forallb_app in Hok. apply andb_true_iff in Hok. apply Hok. }
      assert (Eq : (c :: s') ++ rest = (c :: w) ++ r ++ rest) by (rewrite E; cbn [app]; rewrite <- app_assoc; reflexivity).
      rewrite Eq.
      change (map vpiece_tok (VId (c :: w) :: vpieces_go n r) ++ ts) with ((IDENT, c :: w) :: map vpiece_tok (vpieces_go n r) ++ ts).
      apply RelLossyP.rlex_ident; [cbn [RelLossy.ident_ok forallb]; rewrite Ec, Hw; reflexivity| |].
      * destruct r as [|c2 r2]; [exact Hs|exact Hsr].
      * apply IH; [rewrite E in Hl; cbn in Hl; rewrite app_length in Hl; lia|exact Hokr|exact Hs|exact Hr].
Qed.

(* the tokens of the layout's parts, in the notation of RelLossyP (part B) *)
Lemma atoms_toks ts : flat_map watom_toks (atoms_of ts) = RelLossyP.tk_join (map RelLossyP.term_toks ts).
Proof.
  assert (H1 : forall w t, flat_map watom_toks (atoms_of_term w t) = w ++ RelLossyP.term_toks t).
  { intros w [[|] n]; unfold atoms_of_term, RelLossyP.term_toks; cbn [fst snd flat_map watom_toks atom_tok app];
      rewrite ?app_nil_r; [rewrite <- app_assoc|]; reflexivity. }
  destruct ts as [|t r]; [reflexivity|]. cbn [atoms_of]. rewrite flat_map_app, H1. cbn [app map].
  revert t. induction r as [|t2 r IH]; intros t; [cbn; rewrite app_nil_r; reflexivity|].
  cbn [flat_map map]. rewrite RelLossyP.tk_join_cons2 by discriminate. rewrite flat_map_app, H1. f_equal.
  cbn [app]. f_equal. apply IH.
Qed.
Lemma pterms_toks ts : flat_map wpterm_toks (pterms_of ts) = RelLossyP.tk_join (map RelLossyP.term_toks ts).
Proof.
  assert (H1 : forall w t, wpterm_toks (w, pterm_of t) = w ++ RelLossyP.term_toks t).
  { intros w [[|] n]; reflexivity. }
  destruct ts as [|t r]; [reflexivity|]. cbn [pterms_of flat_map]. rewrite H1. cbn [app map].
  revert t. induction r as [|t2 r IH]; intros t; [cbn; rewrite app_nil_r; reflexivity|].
  cbn [flat_map map]. rewrite RelLossyP.tk_join_cons2 by discriminate. rewrite H1. f_equal. cbn [app]. f_equal. apply IH.
Qed.

Lemma op_toks_vc c : map op_tok (vc_print c) = RelLossyP.tk_vc c.
Proof. destruct c; reflexivity. Qed.

Definition core_toks (r : relation dversion) : list rtoken :=
  (IDENT, RelLossy.r_name r) :: RelLossyP.tk_aq (r_archqual r)
  ++ RelLossyP.tk_ver (option_map (fun cv => (fst cv, map vpiece_tok (vpieces (dv_print (snd cv))))) (r_version r))
  ++ RelLossyP.tk_archs (RelLossy.r_archs r) ++ RelLossyP.tk_profs (r_profiles r).

Lemma al_rel_core bp r : arel_core_toks (al_rel bp r) = core_toks r.
Proof.
  destruct r as [n q a v ps]. unfold arel_core_toks, al_rel, core_toks.
  cbn [a_name a_qual a_ver a_archs a_profs RelLossy.r_name r_archqual RelLossy.r_archs r_version r_profiles].
  f_equal. f_equal; [destruct q; reflexivity|]. f_equal.
  { destruct v as [[c x]|]; [|reflexivity]. cbn [option_map opt_toks fst snd RelLossyP.tk_ver].
    unfold aver_toks, aver_body_toks, al_ver. cbn [av_ws0 av_ws1 av_op av_ws2 av_ver av_ws3 app].
    rewrite op_toks_vc. reflexivity. }
  f_equal.
  { destruct a as [l|]; [|reflexivity]. cbn [option_map opt_toks RelLossyP.tk_archs]. unfold agroup_toks, agroup_body_toks, al_archs, RelLossyP.tk_terms.
    cbn [ag_ws0 ag_atoms ag_ws1 app]. rewrite atoms_toks. reflexivity. }
  unfold RelLossyP.tk_profs. induction ps as [|g r IH]; [reflexivity|]. cbn [map flat_map]. rewrite IH. f_equal.
  unfold pgroup_toks, pgroup_body_toks, al_group, RelLossyP.tk_group, RelLossyP.tk_terms.
  cbn [pg_ws0 pg_terms pg_ws1 app]. rewrite pterms_toks. reflexivity.
Qed.

(* ---- the printed relation, followed by anything that cannot be glued to it ---- *)
Lemma lex_profs_rest ps : forall rest ts, forallb (forallb profile_ok) ps = true -> rlex rest = Ok ts ->
  rlex (flat_map RelLossyP.group_text ps ++ rest) = Ok (RelLossyP.tk_profs ps ++ ts).
Proof.
  induction ps as [|g r IH]; intros rest ts H Hr; [exact Hr|]. cbn [forallb] in H.
  apply andb_true_iff in H. destruct H as [Hg Hps]. specialize (IH rest ts Hps Hr).
  destruct (RelLossyP.map_prof_terms g Hg) as [E F].
  cbn [flat_map]. unfold RelLossyP.tk_profs. cbn [flat_map]. fold (RelLossyP.tk_profs r).
  unfold RelLossyP.group_text, RelLossyP.tk_group. rewrite <- E. rewrite <- !app_assoc.
  apply (RelLossyP.rlex_bracketed 60%N 62%N L_ANGLE R_ANGLE); try reflexivity; assumption.
Qed.

Lemma lex_ver_rest v rest ts :
  match v with Some (_, x) => version_text_ok (dv_print x) = true | None => True end -> rlex rest = Ok ts ->
  rlex (RelLossyP.ver_text dversion dv_print v ++ rest)
  = Ok (RelLossyP.tk_ver (option_map (fun cv => (fst cv, map vpiece_tok (vpieces (dv_print (snd cv))))) v) ++ ts).
Proof.
  destruct v as [[c x]|]; [|intros _ Hr; exact Hr]. intros Hx Hr.
  unfold RelLossyP.ver_text, RelLossyP.tk_ver. cbn [option_map fst snd].
  repeat first [rewrite <- app_assoc | progress cbn [app]].
  apply RelLossyP.rlex_space; [reflexivity|]. apply RelLossyP.rlex_single; [reflexivity|].
  apply RelLossyP.lex_vc. apply RelLossyP.rlex_space.
  - destruct (dv_print x) as [|c0 w] eqn:Ev; [reflexivity|]. cbn [app].
    unfold version_text_ok in Hx. cbn [forallb] in Hx. apply andb_true_iff in Hx. destruct Hx as [Hc0 _].
    apply orb_true_iff in Hc0. destruct Hc0 as [Hc0|Hc0]; [apply RelLossyP.ident_char_plain; exact Hc0|].
    apply N.eqb_eq in Hc0. subst c0. reflexivity.
  - unfold vpieces. apply lex_vpieces; [lia|exact Hx|reflexivity|].
    apply RelLossyP.rlex_single; [reflexivity|exact Hr].
Qed.

Lemma okb_parts n q a v ps : relation_okb (mkRel n q a v ps) = true ->
  RelLossy.ident_ok n = true /\ match q with Some s => RelLossy.ident_ok s = true | None => True end /\
  match v with Some (_, x) => dv_canonical x = true | None => True end /\
  match a with Some l => forallb arch_ok l = true | None => True end /\ forallb (forallb profile_ok) ps = true.
Proof.
  unfold relation_okb. cbn [RelLossy.r_name r_archqual RelLossy.r_archs r_version r_profiles]. intros H.
  apply andb_true_iff in H. destruct H as [H Hp]. apply andb_true_iff in H. destruct H as [H Ha].
  apply andb_true_iff in H. destruct H as [H Hv]. apply andb_true_iff in H. destruct H as [Hn Hq].
  repeat split; try assumption; [destruct q|destruct v as [[c x]|]|destruct a]; try exact I; assumption.
Qed.

Lemma lex_rel_rest r rest ts : relation_okb r = true -> RelLossyP.sep_start rest -> rlex rest = Ok ts ->
  rlex (print_relation dv_print r ++ rest) = Ok (core_toks r ++ ts).
Proof.
  destruct r as [n q a v ps]. intros Hok Hs Hr. destruct (okb_parts _ _ _ _ _ Hok) as (Hn & Hq & Hv & Ha & Hp).
  rewrite RelLossyP.print_relation_pieces. unfold core_toks.
  cbn [RelLossy.r_name r_archqual RelLossy.r_archs r_version r_profiles]. rewrite <- !app_assoc.
  pose proof (lex_profs_rest ps rest ts Hp Hr) as Lp.
  pose proof (RelLossyP.lex_archs a _ _ Ha Lp) as La.
  assert (Hvt : match v with Some (_, x) => version_text_ok (dv_print x) = true | None => True end).
  { destruct v as [[c x]|]; [|exact I]. apply (RelLossyP.dv_canonical_ok x Hv). }
  pose proof (lex_ver_rest v _ _ Hvt La) as Lv.
  assert (S3 : RelLossyP.sep_start (flat_map RelLossyP.group_text ps ++ rest))
    by (apply RelLossyP.sep_start_app; [apply RelLossyP.sep_start_profs|exact Hs]).
  assert (S2 : RelLossyP.sep_start (RelLossyP.archs_text a ++ flat_map RelLossyP.group_text ps ++ rest))
    by (apply RelLossyP.sep_start_app; [apply RelLossyP.sep_start_archs|exact S3]).
  assert (S1 : RelLossyP.sep_start (RelLossyP.ver_text dversion dv_print v ++ RelLossyP.archs_text a ++ flat_map RelLossyP.group_text ps ++ rest))
    by (apply RelLossyP.sep_start_app; [apply RelLossyP.sep_start_ver|exact S2]).
  change ((IDENT, n) :: ?l ++ ts) with ([(IDENT, n)] ++ l ++ ts).
  repeat first [rewrite <- app_assoc | progress cbn [app]].
  change ((IDENT, n) :: ?l) with ([(IDENT, n)] ++ l).
  apply RelLossyP.rlex_ident; [exact Hn| |].
  - apply RelLossyP.sep_start_app; [apply RelLossyP.sep_start_aq|exact S1].
  - apply RelLossyP.lex_aq; [exact Hq|exact S1|exact Lv].
Qed.

(* ---- entries and the whole field ---- *)
Lemma print_relation_head r : relation_okb r = true ->
  exists c t, print_relation dv_print r = c :: t /\ is_rel_ws c = false.
Proof.
  destruct r as [n q a v ps]. intros Hok. destruct (okb_parts _ _ _ _ _ Hok) as (Hn & _).
  destruct (RelLossyP.ident_ok_head n Hn) as (c & w & -> & Hc). rewrite RelLossyP.print_relation_pieces.
  exists c. eexists. split; [reflexivity|]. apply RelLossyP.ident_char_plain, Hc.
Qed.
Lemma print_entry_head r rs : relation_okb r = true ->
  exists c t, print_entry dv_print (r :: rs) = c :: t /\ is_rel_ws c = false.
Proof.
  intros Hok. destruct (print_relation_head r Hok) as (c & t & E & Hc). destruct rs as [|r' rs].
  - exists c, t. split; [exact E|exact Hc].
  - rewrite (RelLossyP.print_entry_cons dversion dv_print r (r' :: rs)) by discriminate. rewrite E.
    exists c. eexists. split; [reflexivity|exact Hc].
Qed.

Lemma lex_entry_rest rs : forall r rest ts, forallb relation_okb (r :: rs) = true ->
  RelLossyP.sep_start rest -> rlex rest = Ok ts ->
  rlex (print_entry dv_print (r :: rs) ++ rest) = Ok (arels_toks (al_rel (nonempty_list rs) r) (al_alts rs) ++ ts).
Proof.
  induction rs as [|r' rs IH]; intros r rest ts H Hs Hr; cbn [forallb] in H; apply andb_true_iff in H; destruct H as [Hok Hrs].
  - cbn [al_alts arels_toks nonempty_list]. unfold arel_toks. rewrite al_rel_core. cbn [al_rel a_trail]. rewrite !app_nil_r.
    change (print_entry dv_print [r]) with (print_relation dv_print r). apply lex_rel_rest; assumption.
  - cbn [al_alts arels_toks nonempty_list]. unfold arel_toks at 1. rewrite al_rel_core. cbn [al_rel a_trail].
    rewrite (RelLossyP.print_entry_cons dversion dv_print r (r' :: rs)) by discriminate.
    repeat first [rewrite <- app_assoc | progress cbn [app]].
    apply lex_rel_rest; [exact Hok|reflexivity|].
    apply RelLossyP.rlex_space; [reflexivity|]. apply RelLossyP.rlex_single; [reflexivity|].
    assert (Hr' : relation_okb r' = true) by (cbn [forallb] in Hrs; apply andb_true_iff in Hrs; apply Hrs).
    apply RelLossyP.rlex_space.
    + destruct (print_entry_head r' rs Hr') as (c & t & E & Hc). rewrite E. exact Hc.
    + apply IH; assumption.
Qed.

Definition entry_okb (e : list (relation dversion)) : bool := match e with [] => false | _ :: _ => forallb relation_okb e end.

Lemma aitem_toks_entry r rs : aitem_toks (al_item (r :: rs)) = arels_toks (al_rel (nonempty_list rs) r) (al_alts rs).
Proof. reflexivity. Qed.

Lemma lex_field es : forall e, forallb entry_okb (e :: es) = true ->
  rlex (print_relations dv_print (e :: es)) = Ok (aitems_toks (al_item e) (map (fun e' => ([tSP], al_item e')) es)).
Proof.
  induction es as [|e' es IH]; intros e H; cbn [forallb] in H; apply andb_true_iff in H; destruct H as [He Hes];
    destruct e as [|r rs]; try discriminate; cbn [entry_okb] in He.
  - cbn [map aitems_toks]. rewrite aitem_toks_entry, app_nil_r.
    change (print_relations dv_print [r :: rs]) with (print_entry dv_print (r :: rs)).
    rewrite <- (app_nil_r (print_entry dv_print (r :: rs))), <- (app_nil_r (arels_toks _ _)).
    apply lex_entry_rest; [exact He|exact I|reflexivity].
  - cbn [map aitems_toks]. rewrite aitem_toks_entry.
    rewrite (RelLossyP.print_relations_cons dversion dv_print (r :: rs) (e' :: es)) by discriminate.
    cbn [app]. apply lex_entry_rest; [exact He|reflexivity|].
    apply RelLossyP.rlex_single; [reflexivity|]. apply RelLossyP.rlex_space; [|apply IH; exact Hes].
    cbn [forallb] in Hes. apply andb_true_iff in Hes. destruct Hes as [He' _]. destruct e' as [|r' rs']; [discriminate|].
    cbn [entry_okb forallb] in He'. apply andb_true_iff in He'. destruct He' as [Hr' _].
    destruct (print_entry_head r' rs' Hr') as (c & t & E & Hc).
    destruct es as [|e2 es2].
    + change (print_relations dv_print [r' :: rs']) with (print_entry dv_print (r' :: rs')). rewrite E. exact Hc.
    + rewrite (RelLossyP.print_relations_cons dversion dv_print (r' :: rs') (e2 :: es2)) by discriminate. rewrite E. exact Hc.
Qed.

Lemma relations_okb_entries rs : relations_okb rs = true -> forallb entry_okb rs = true.
Proof. intros H. exact H. Qed.

(* the layout's tokens are the lexer's output on the printed field: it is lexable and renders to that text *)
Theorem lex_al_of rs : relations_okb rs = true -> rlex (print_relations dv_print rs) = Ok (atoks (al_of rs)).
Proof.
  intros H. destruct rs as [|e es]; [reflexivity|]. unfold atoks, al_of. cbn [af_lead af_first af_rest app].
  apply lex_field. exact H.
Qed.
Theorem al_of_render rs : relations_okb rs = true ->
  arender (al_of rs) = print_relations dv_print rs /\ lexable (atoks (al_of rs)) = true.
Proof.
  intros H. destruct (rlex_lexable _ _ (lex_al_of rs H)) as [L T]. split; [exact T|exact L].
Qed.

(* ================================================================== the shape *)
Lemma atoms_wsk w ts : wsk w = true -> forallb (fun wa : list rtoken * atom => wsk (fst wa)) (flat_map (atoms_of_term w) ts) = true.
Proof.
  intros Hw. induction ts as [|[[|] n] r IH]; [reflexivity| |]; cbn [flat_map atoms_of_term fst snd app forallb]; rewrite Hw, IH; reflexivity.
Qed.
Lemma al_archs_ok a : agroup_ok (al_archs a) = true.
Proof.
  unfold agroup_ok, al_archs. cbn [ag_ws0 ag_atoms ag_ws1]. change (wsk [tSP]) with true. change (wsk []) with true.
  cbn [andb]. rewrite andb_true_r. destruct (map RelLossyP.arch_term a) as [|t r]; [reflexivity|].
  cbn [atoms_of]. rewrite forallb_app, (atoms_wsk [tSP] r eq_refl), andb_true_r. destruct t as [[|] n]; reflexivity.
Qed.
Lemma al_group_ok g : pgroup_ok (al_group g) = true.
Proof.
  unfold pgroup_ok, al_group. cbn [pg_ws0 pg_terms pg_ws1]. change (wsk [tSP]) with true. change (wsk []) with true.
  cbn [andb]. rewrite andb_true_r. destruct (map RelLossyP.prof_term g) as [|t r]; [reflexivity|].
  assert (Ht : forall t : bool * str, pterm_ok (pterm_of t) = true) by (intros [[|] n]; reflexivity).
  cbn [pterms_of forallb fst snd]. rewrite Ht. change (wsk []) with true. cbn [andb].
  induction r as [|x r IH]; [reflexivity|]. cbn [map forallb fst snd]. rewrite Ht, IH. reflexivity.
Qed.
Lemma vpieces_nonempty s : s <> [] -> nonempty (vpieces s) = true.
Proof.
  destruct s as [|c r]; [congruence|]. intros _. unfold vpieces. cbn [length vpieces_go].
  destruct (c =? 58)%N; [reflexivity|]. destruct (span is_ident_char r). reflexivity.
Qed.
Lemma al_ver_ok c x : dv_canonical x = true -> aver_ok (al_ver c x) = true.
Proof.
  intros Hv. unfold aver_ok, al_ver. cbn [av_ws0 av_ws1 av_op av_ws2 av_ver av_ws3].
  rewrite (vpieces_nonempty _ (RelConvP.dv_canonical_print_nonempty x Hv)). destruct c; reflexivity.
Qed.
Lemma al_rel_ok bp r : relation_okb r = true -> arel_ok (al_rel bp r) = true.
Proof.
  destruct r as [n q a v ps]. intros Hok. destruct (okb_parts _ _ _ _ _ Hok) as (_ & _ & Hv & _ & _).
  unfold arel_ok, al_rel. cbn [a_qual a_ver a_archs a_profs a_trail RelLossy.r_name r_archqual RelLossy.r_archs r_version r_profiles].
  assert (E1 : opt_ok aqual_ok (option_map (mk_aqual [] []) q) = true) by (destruct q; reflexivity).
  assert (E2 : opt_ok aver_ok (option_map (fun cv => al_ver (fst cv) (snd cv)) v) = true).
  { destruct v as [[c x]|]; [|reflexivity]. cbn [option_map opt_ok fst snd]. apply al_ver_ok, Hv. }
  assert (E3 : opt_ok agroup_ok (option_map al_archs a) = true) by (destruct a; [apply al_archs_ok|reflexivity]).
  assert (E4 : forallb pgroup_ok (map al_group ps) = true).
  { clear. induction ps as [|g r IH]; [reflexivity|]. cbn [map forallb]. rewrite al_group_ok, IH. reflexivity. }
  rewrite E1, E2, E3, E4. destruct bp; reflexivity.
Qed.
Lemma al_alts_ok rs : forallb relation_okb rs = true -> forallb aalt_ok (al_alts rs) = true.
Proof.
  induction rs as [|r rs IH]; [reflexivity|]. cbn [forallb al_alts]. intros H. apply andb_true_iff in H. destruct H as [H1 H2].
  rewrite (IH H2), andb_true_r. unfold aalt_ok. cbn [fst snd]. change (wsk [tSP]) with true. apply al_rel_ok, H1.
Qed.
Lemma al_item_ok a e : entry_okb e = true -> aitem_ok a (al_item e) = true.
Proof.
  destruct e as [|r rs]; [discriminate|]. cbn [entry_okb forallb]. intros H. apply andb_true_iff in H. destruct H as [H1 H2].
  cbn [al_item aitem_ok]. rewrite (al_rel_ok _ r H1), (al_alts_ok rs H2). reflexivity.
Qed.
Lemma al_of_shape a rs : relations_okb rs = true -> ashape a (al_of rs) = true.
Proof.
  intros H. apply relations_okb_entries in H. destruct rs as [|e es]; [reflexivity|]. cbn [forallb] in H.
  apply andb_true_iff in H. destruct H as [He Hes]. unfold ashape, al_of. cbn [af_lead af_first af_rest].
  change (wsk []) with true. rewrite (al_item_ok a e He). cbn [andb].
  induction es as [|e' es IH]; [reflexivity|]. cbn [forallb map] in *. apply andb_true_iff in Hes. destruct Hes as [He' Hes].
  rewrite (IH Hes), andb_true_r. unfold amore_ok. cbn [fst snd]. change (wsk [tSP]) with true. apply al_item_ok, He'.
Qed.

Theorem al_of_awf a rs : relations_okb rs = true -> awf a (al_of rs) = true.
Proof. intros H. unfold awf. rewrite (al_of_shape a rs H). apply (al_of_render rs H). Qed.

(* ================================================================== the conversion back on the tree of the layout *)
Lemma vpieces_text s : version_text_ok s = true -> rttext_of (map vpiece_tok (vpieces s)) = s.
Proof.
  intros H. pose proof (lex_vpieces (length s) s [] [] (le_n _) H I eq_refl) as L. rewrite !app_nil_r in L.
  apply (rlex_lexable _ _ L).
Qed.

Lemma conv_version_arel rr last : arel_ok rr = true ->
  conv_version (arel_tree rr last) =
  match a_ver rr with
  | None => Ok None
  | Some v =>
    match rttext_of (map vpiece_tok (av_ver v)) with
    | [] => Ok None
    | vt => match vc_of_str (av_op v) with
            | None => Panic 11%N
            | Some o => match dv_parse vt with Some x => Ok (Some (o, x)) | None => Panic 12%N end
            end
    end
  end.
Proof.
  intros Hok. unfold arel_ok in Hok. andb_split Hok.
  unfold conv_version. rewrite fn_arel by discriminate. cbn [rkind_eqb rkind_code N.eqb Pos.eqb].
  destruct (a_ver rr) as [v|]; cbn [option_map opt_ok] in *; [|reflexivity].
  destruct (aver_ok_inv v W2) as (V0 & V1 & V2 & V3 & _ & _).
  cbn [aver_node children first_node_of_kind]. rewrite first_node_app, fn_elems.
  cbn [app first_node_of_kind rkind_eqb rkind_code N.eqb Pos.eqb].
  assert (E : version_text_of
      (Tok L_PARENS [40%N] :: elems (av_ws1 v) ++ Node CONSTRAINT (elems (map op_tok (av_op v)))
        :: elems (av_ws2 v) ++ elems (map vpiece_tok (av_ver v)) ++ elems (av_ws3 v) ++ [Tok R_PARENS [41%N]])
      = rttext_of (map vpiece_tok (av_ver v))).
  { change (version_text_of (Tok L_PARENS [40%N] :: ?x)) with (version_text_of x).
    rewrite version_text_app, (version_text_w _ V1). cbn [app].
    change (version_text_of (Node CONSTRAINT ?l :: ?x)) with (version_text_of x).
    rewrite !version_text_app, (version_text_w _ V2), (version_text_w _ V3), version_text_pieces. cbn [app]. rewrite app_nil_r. reflexivity. }
  rewrite E, text_ops. reflexivity.
Qed.

Lemma tk_join_flat x l : RelLossyP.tk_join (x :: l) = x ++ flat_map (fun y => tSP :: y) l.
Proof.
  revert x; induction l as [|y r IH]; intros x; [cbn; rewrite app_nil_r; reflexivity|].
  rewrite RelLossyP.tk_join_cons2 by discriminate. rewrite IH. cbn [flat_map app]. reflexivity.
Qed.

(* architectures *)
Lemma arch_fold_term t X : arch_fold (elems (RelLossyP.term_toks t) ++ X) false = RelLossyP.term_text t :: arch_fold X false.
Proof. destruct t as [[|] n]; reflexivity. Qed.
Lemma arch_fold_terms_sp l : forall X,
  arch_fold (elems (flat_map (fun y => tSP :: y) (map RelLossyP.term_toks l)) ++ X) false
  = map RelLossyP.term_text l ++ arch_fold X false.
Proof.
  induction l as [|t r IH]; intros X; [reflexivity|]. cbn [map flat_map]. rewrite elems_app. 
  change (elems (tSP :: RelLossyP.term_toks t)) with (Tok WHITESPACE [32%N] :: elems (RelLossyP.term_toks t)).
  cbn [app]. change (arch_fold (Tok WHITESPACE [32%N] :: ?Y) false) with (arch_fold Y false).
  rewrite <- app_assoc, arch_fold_term, IH. reflexivity.
Qed.
Lemma arch_fold_al a : forallb arch_ok a = true -> arch_fold (children (agroup_node (al_archs a))) false = a.
Proof.
  intros Ha. destruct (RelLossyP.map_arch_terms a Ha) as [E _].
  transitivity (map RelLossyP.term_text (map RelLossyP.arch_term a)); [|exact E]. clear E Ha.
  unfold agroup_node, agroup_body_toks, al_archs. cbn [children ag_atoms ag_ws1 app]. rewrite atoms_toks.
  change (elems ((L_BRACKET, [91%N]) :: ?x)) with (Tok L_BRACKET [91%N] :: elems x).
  change (arch_fold (Tok L_BRACKET [91%N] :: ?Y) false) with (arch_fold Y false).
  destruct (map RelLossyP.arch_term a) as [|t r]; [reflexivity|].
  cbn [map]. rewrite tk_join_flat, !elems_app, <- app_assoc, arch_fold_term, arch_fold_terms_sp.
  cbn. rewrite app_nil_r. reflexivity.
Qed.

(* profiles: the PROFILES node the parser builds is the one the builder builds *)
Lemma elems_term_prof p : elems (RelLossyP.term_toks (RelLossyP.prof_term p)) = RelConvP.term_toks_e (eprofile_of p).
Proof. destruct p; reflexivity. Qed.
Lemma elems_terms_sp g : forall i,
  elems (flat_map (fun y => tSP :: y) (map RelLossyP.term_toks (map RelLossyP.prof_term g))) = RelEdit.profile_toks (S i) (map eprofile_of g).
Proof.
  induction g as [|p r IH]; intros i; [reflexivity|]. cbn [map flat_map]. rewrite elems_app, (IH (S i)).
  change (elems (tSP :: ?x)) with (Tok WHITESPACE [32%N] :: elems x). rewrite elems_term_prof.
  rewrite RelConvP.profile_toks_S_cons. reflexivity.
Qed.
Lemma pgroup_children g : children (pgroup_node (al_group g)) = children (RelEdit.profiles_node (map eprofile_of g)).
Proof.
  unfold pgroup_node, pgroup_body_toks, al_group, RelEdit.profiles_node. cbn [children pg_terms pg_ws1 app]. rewrite pterms_toks.
  change (elems ((L_ANGLE, [60%N]) :: ?x)) with (Tok L_ANGLE [60%N] :: elems x). f_equal.
  rewrite elems_app. change (elems [(R_ANGLE, [62%N])]) with [Tok R_ANGLE [62%N]]. f_equal.
  destruct g as [|p r]; [reflexivity|]. cbn [map]. rewrite tk_join_flat, elems_app, elems_term_prof, (elems_terms_sp r 0).
  destruct p; reflexivity.
Qed.

Theorem to_lossy_arel bp last r : relation_okb r = true -> to_lossy (arel_tree (al_rel bp r) last) = Ok r.
Proof.
  intros Hok. pose proof (al_rel_ok bp r Hok) as Hs. destruct r as [n q a v ps].
  destruct (okb_parts _ _ _ _ _ Hok) as (_ & _ & Hv & Ha & Hp).
  unfold to_lossy. change (relation_name (arel_tree (al_rel bp (mkRel n q a v ps)) last)) with (@Ok str n).
  rewrite (conv_version_arel _ last Hs), (a_acc_qual _ last Hs), a_acc_archs, a_acc_profs.
  unfold al_rel at 1 2 3 4. cbn [a_qual a_ver a_archs a_profs RelLossy.r_name r_archqual RelLossy.r_archs r_version r_profiles].
  assert (Ev : match option_map (fun cv => al_ver (fst cv) (snd cv)) v with
               | None => Ok None
               | Some v0 =>
                 match rttext_of (map vpiece_tok (av_ver v0)) with
                 | [] => Ok None
                 | vt => match vc_of_str (av_op v0) with
                         | None => Panic 11%N
                         | Some o => match dv_parse vt with Some x => Ok (Some (o, x)) | None => Panic 12%N end
                         end
                 end
               end = Ok v).
  { destruct v as [[c x]|]; [|reflexivity]. cbn [option_map fst snd al_ver av_ver av_op].
    destruct (RelLossyP.dv_canonical_ok x Hv) as [Ht Hpp]. rewrite (vpieces_text _ Ht).
    pose proof (RelConvP.dv_canonical_print_nonempty x Hv) as Hne.
    destruct (dv_print x) as [|c0 w] eqn:Ep; [congruence|]. rewrite Hpp.
    replace (vc_of_str (vc_print c)) with (Some c) by (destruct c; reflexivity). reflexivity. }
  rewrite Ev. f_equal.
  assert (Eq : option_map aq_name (option_map (mk_aqual [] []) q) = q) by (destruct q; reflexivity).
  assert (Ea : option_map (fun g => arch_fold (children (agroup_node g)) false) (option_map al_archs a) = a).
  { destruct a as [l|]; [|reflexivity]. cbn [option_map]. rewrite (arch_fold_al l Ha). reflexivity. }
  assert (Epr : map (map lprofile_of) (map (fun g => profile_fold (children (pgroup_node g)) [] []) (map al_group ps)) = ps).
  { clear -Hp. induction ps as [|g r IH]; [reflexivity|]. cbn [forallb] in Hp. apply andb_true_iff in Hp. destruct Hp as [Hg Hr].
    cbn [map]. rewrite (IH Hr). f_equal. rewrite pgroup_children, RelConvP.profile_fold_node, !map_map.
    clear -Hg. induction g as [|p g IH]; [reflexivity|]. cbn [forallb] in Hg. apply andb_true_iff in Hg. destruct Hg as [Hp Hg].
    cbn [map]. rewrite (RelConvP.acc_p_of p Hp), (IH Hg). reflexivity. }
  rewrite Eq, Ea, Epr. reflexivity.
Qed.

(* ---- entries, the field ---- *)
Lemma conv_arels_elems rs : forall r last, forallb relation_okb (r :: rs) = true ->
  res_all to_lossy (nodes_of RELATION (arels_elems (al_rel (nonempty_list rs) r) (al_alts rs) last)) = Ok (r :: rs).
Proof.
  induction rs as [|r' rs IH]; intros r last H; cbn [forallb] in H; apply andb_true_iff in H; destruct H as [Hr Hrs];
    cbn [al_alts arels_elems nonempty_list].
  - change (nodes_of RELATION (arel_tree ?x last :: ?y)) with (arel_tree x last :: nodes_of RELATION y).
    assert (E : nodes_of RELATION (if last then elems (arel_left (al_rel false r) last) else []) = [])
      by (destruct last; [apply nodes_of_elems|reflexivity]).
    rewrite E. cbn [res_all]. rewrite (to_lossy_arel false last r Hr). reflexivity.
  - change (nodes_of RELATION (arel_tree ?x false :: ?y)) with (arel_tree x false :: nodes_of RELATION y).
    rewrite nodes_of_app, nodes_of_elems. cbn [app].
    change (nodes_of RELATION (Tok PIPE [124%N] :: ?x)) with (nodes_of RELATION x).
    rewrite nodes_of_app, nodes_of_elems. cbn [app res_all].
    rewrite (to_lossy_arel true false r Hr), (IH r' last Hrs). reflexivity.
Qed.
Lemma entry_to_lossy_aentry r rs last : forallb relation_okb (r :: rs) = true ->
  entry_to_lossy (Node ENTRY (arels_elems (al_rel (nonempty_list rs) r) (al_alts rs) last)) = Ok (r :: rs).
Proof. intros H. exact (conv_arels_elems rs r last H). Qed.

Lemma conv_aitems_elems es : forall e, forallb entry_okb (e :: es) = true ->
  res_all entry_to_lossy (nodes_of ENTRY (aitems_elems (al_item e) (map (fun e' => ([tSP], al_item e')) es))) = Ok (e :: es).
Proof.
  induction es as [|e' es IH]; intros e H; cbn [forallb] in H; apply andb_true_iff in H; destruct H as [He Hes];
    destruct e as [|r rs]; try discriminate; cbn [entry_okb] in He.
  - cbn [map aitems_elems al_item aitem_elems is_nil app]. rewrite app_nil_r.
    change (nodes_of ENTRY (Node ENTRY ?c :: ?x)) with (Node ENTRY c :: nodes_of ENTRY x).
    rewrite nodes_of_elems. cbn [res_all]. rewrite (entry_to_lossy_aentry r rs true He). reflexivity.
  - cbn [map aitems_elems al_item aitem_elems is_nil]. rewrite nodes_of_app.
    change (nodes_of ENTRY (Node ENTRY ?c :: ?x)) with (Node ENTRY c :: nodes_of ENTRY x).
    rewrite nodes_of_elems. change (nodes_of ENTRY (Tok COMMA [44%N] :: ?x)) with (nodes_of ENTRY x).
    rewrite nodes_of_app, nodes_of_elems. cbn [app res_all]. rewrite (entry_to_lossy_aentry r rs false He).
    rewrite (IH e' Hes). reflexivity.
Qed.

Lemma field_to_lossy_atree rs : relations_okb rs = true -> field_to_lossy (atree_of (al_of rs)) = Ok rs.
Proof.
  intros H. destruct rs as [|e es]; [reflexivity|].
  unfold field_to_lossy, relations_entries, r_entries, rnodes_of_kind, atree_of, al_of. cbn [children af_lead af_first af_rest].
  change (elems []) with (@nil rtree). cbn [app].
  fold (nodes_of ENTRY (aitems_elems (al_item e) (map (fun e' => ([tSP], al_item e')) es))).
  apply conv_aitems_elems. exact H.
Qed.

(* ================================================================== clause 3 for every valid value *)
Theorem read_field_all rs : relations_okb rs = true ->
  exists t, RelParse.relations_from_str (print_relations dv_print rs) = Ok t /\
            parse_relaxed (print_relations dv_print rs) true = Ok (t, 0) /\
            text t = print_relations dv_print rs /\
            field_to_lossy t = Ok rs.
Proof.
  intros H. exists (atree_of (al_of rs)). destruct (al_of_render rs H) as [Hr _].
  destruct (liberal_sound true (al_of rs) (al_of_awf true rs H)) as (P & T & _).
  destruct (liberal_sound false (al_of rs) (al_of_awf false rs H)) as (Pf & _ & _).
  rewrite Hr in P, T, Pf. split; [|split; [exact P|split; [exact T|apply field_to_lossy_atree, H]]].
  unfold RelParse.relations_from_str. unfold parse_relaxed in Pf. rewrite Pf. reflexivity.
Qed.

Theorem read_field_as_lossy_all rs : relations_okb rs = true ->
  read_field_as_lossy (print_relations dv_print rs) = Ok rs.
Proof. intros H. destruct (read_field_all rs H) as (t & S & _ & _ & L). unfold read_field_as_lossy. rewrite S. exact L. Qed.

Lemma entries_single_a r rs :
  r_entries (atree_of (al_of [r :: rs])) = [Node ENTRY (arels_elems (al_rel (nonempty_list rs) r) (al_alts rs) true)].
Proof.
  unfold r_entries, rnodes_of_kind, atree_of, al_of. cbn [children af_lead af_first af_rest map].
  change (elems []) with (@nil rtree). cbn [app aitems_elems al_item aitem_elems is_nil]. rewrite app_nil_r.
  fold (nodes_of ENTRY (Node ENTRY (arels_elems (al_rel (nonempty_list rs) r) (al_alts rs) true)
                        :: elems (arels_left (al_rel (nonempty_list rs) r) (al_alts rs) true))).
  change (nodes_of ENTRY (Node ENTRY ?c :: ?x)) with (Node ENTRY c :: nodes_of ENTRY x). rewrite nodes_of_elems. reflexivity.
Qed.

Theorem read_entry_as_lossy_all e : entry_okb e = true -> read_entry_as_lossy (print_entry dv_print e) = Ok e.
Proof.
  intros H. destruct e as [|r rs]; [discriminate|].
  assert (Hf : relations_okb [r :: rs] = true) by (unfold relations_okb; cbn [forallb]; rewrite andb_true_r; exact H).
  destruct (read_field_all [r :: rs] Hf) as (t & S & _ & _ & _).
  assert (Et : t = atree_of (al_of [r :: rs])).
  { destruct (al_of_render _ Hf) as [Hr _]. destruct (liberal_sound false _ (al_of_awf false _ Hf)) as (Pf & _ & _).
    rewrite Hr in Pf. unfold RelParse.relations_from_str in S. unfold parse_relaxed in Pf. rewrite Pf in S. congruence. }
  subst t. change (print_relations dv_print [r :: rs]) with (print_entry dv_print (r :: rs)) in S.
  unfold read_entry_as_lossy, entry_from_str. rewrite S, entries_single_a. cbn [bind].
  apply entry_to_lossy_aentry. exact H.
Qed.

Theorem read_as_lossy_all r : relation_okb r = true -> read_as_lossy (print_relation dv_print r) = Ok r.
Proof.
  intros H. assert (Hf : relations_okb [[r]] = true) by (cbn; rewrite H; reflexivity).
  destruct (read_field_all [[r]] Hf) as (t & S & _ & _ & _).
  assert (Et : t = atree_of (al_of [[r]])).
  { destruct (al_of_render _ Hf) as [Hr _]. destruct (liberal_sound false _ (al_of_awf false _ Hf)) as (Pf & _ & _).
    rewrite Hr in Pf. unfold RelParse.relations_from_str in S. unfold parse_relaxed in Pf. rewrite Pf in S. congruence. }
  subst t. change (print_relations dv_print [[r]]) with (print_relation dv_print r) in S.
  unfold read_as_lossy, RelParse.relation_from_str, entry_from_str. rewrite S, entries_single_a.
  cbn [al_alts nonempty_list arels_elems]. unfold r_relations, rnodes_of_kind. cbn [children].
  fold (nodes_of RELATION (arel_tree (al_rel false r) true :: elems (arel_left (al_rel false r) true))).
  change (nodes_of RELATION (arel_tree ?x true :: ?y)) with (arel_tree x true :: nodes_of RELATION y). rewrite nodes_of_elems.
  cbn [bind]. apply to_lossy_arel, H.
Qed.
