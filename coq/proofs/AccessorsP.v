(* C15 — lemmas about coq/model/Accessors.v.
   1. Rust std functions (split, trim, split_whitespace, lines, usize)
   2. the tree implementation of a paragraph refines the list implementation
   3. the round-trip law of every codec pair of the catalogue
   4. a setter followed by its getter; frame; clearing; sequences
   5. getter readings of rendered raw values
   6. hand-modelled functions (DEP-3, copyright header, Vcs)
   7. Control::source / binaries *)
From V.model Require Import Base Deb822Lex Deb822Parse Grammar Lossy Deb822Edit Copyright Accessors.
From V.proofs Require Import BaseP GrammarAccP LossyRtP Deb822EditP.
Require V.proofs.CopyrightP V.proofs.RelParseP V.proofs.GrammarParseP.
From V.model Require Import LiveDoc.
Require V.proofs.LiveDocP.

Local Notation LFc := 10%N.

(* ================================================================== 1. std *)
Lemma str_eqb_true_iff a b : str_eqb a b = true <-> a = b.
Proof. split; [apply str_eqb_eq|intros ->; apply str_eqb_refl]. Qed.
Lemma str_eqb_false_neq a b : str_eqb a b = false -> a <> b.
Proof. intros H E. subst. rewrite str_eqb_refl in H. discriminate. Qed.
Lemma str_eqb_sym a b : str_eqb a b = str_eqb b a.
Proof.
  destruct (str_eqb a b) eqn:E.
  - apply str_eqb_eq in E. subst. symmetry. apply str_eqb_refl.
  - destruct (str_eqb b a) eqn:F; [|reflexivity]. apply str_eqb_eq in F. subst. rewrite str_eqb_refl in E. discriminate.
Qed.

(* ---- split_on / join ---- *)
Lemma split_on_nonempty c s : split_on c s <> [].
Proof. destruct s as [|x r]; cbn [split_on]; [discriminate|]. destruct (x =? c)%N; [discriminate|]. destruct (split_on c r); discriminate. Qed.

Lemma split_on_app_nochar c a s : no_char c a = true ->
  split_on c (a ++ s) = match split_on c s with h :: t => (a ++ h) :: t | [] => [a] end.
Proof.
  induction a as [|x a IH]; intros H.
  - cbn [app]. destruct (split_on c s) eqn:E; [exfalso; exact (split_on_nonempty c s E)|reflexivity].
  - cbn [no_char forallb] in H. apply andb_true_iff in H. destruct H as [Hx Ha]. apply negb_true_iff in Hx.
    cbn [app split_on]. rewrite Hx. fold (no_char c a) in Ha. rewrite (IH Ha).
    destruct (split_on c s); reflexivity.
Qed.

Lemma split_on_single c a : no_char c a = true -> split_on c a = [a].
Proof. intros H. rewrite <- (app_nil_r a) at 1. rewrite split_on_app_nochar by exact H. cbn [split_on]. rewrite app_nil_r. reflexivity. Qed.

Lemma join_cons2 sep (x : str) l : l <> [] -> join sep (x :: l) = x ++ sep ++ join sep l.
Proof. destruct l; [congruence|reflexivity]. Qed.

(* pieces joined by  c ++ pad  (a separator character followed by padding free of it) *)
Lemma split_on_join_pad c pad l : l <> [] -> no_char c pad = true -> forallb (no_char c) l = true ->
  split_on c (join (c :: pad) l) = match l with x :: r => x :: map (fun y => pad ++ y) r | [] => [] end.
Proof.
  intros Hne Hp. induction l as [|x r IH]; [congruence|]. intros H.
  cbn [forallb] in H. apply andb_true_iff in H. destruct H as [Hx Hr].
  destruct r as [|y r'].
  - cbn [join Deb822Parse.join map]. apply split_on_single. exact Hx.
  - unfold join in *. rewrite join_cons2 by discriminate. rewrite split_on_app_nochar by exact Hx.
    cbn [app split_on]. rewrite N.eqb_refl.
    assert (E : split_on c (pad ++ Deb822Parse.join (c :: pad) (y :: r')) =
                match split_on c (Deb822Parse.join (c :: pad) (y :: r')) with h :: t => (pad ++ h) :: t | [] => [pad] end)
      by (apply split_on_app_nochar; exact Hp).
    unfold join. rewrite E, IH by (try discriminate; exact Hr). rewrite app_nil_r. reflexivity.
Qed.

Lemma split_on_join c l : l <> [] -> forallb (no_char c) l = true -> split_on c (join [c] l) = l.
Proof.
  intros Hne H. rewrite (split_on_join_pad c [] l Hne eq_refl H). destruct l as [|x r]; [reflexivity|].
  f_equal. exact (map_id r).
Qed.

Lemma split_once_on_first c a b : no_char c a = true -> split_once_on c (a ++ c :: b) = Some (a, b).
Proof.
  induction a as [|x a IH]; intros H.
  - cbn [app split_once_on]. rewrite N.eqb_refl. reflexivity.
  - cbn [no_char forallb] in H. apply andb_true_iff in H. destruct H as [Hx Ha]. apply negb_true_iff in Hx.
    cbn [app split_once_on]. rewrite Hx. fold (no_char c a) in Ha. rewrite (IH Ha). reflexivity.
Qed.
Lemma split_once_on_none c a : no_char c a = true -> split_once_on c a = None.
Proof.
  induction a as [|x a IH]; intros H; [reflexivity|].
  cbn [no_char forallb] in H. apply andb_true_iff in H. destruct H as [Hx Ha]. apply negb_true_iff in Hx.
  cbn [split_once_on]. rewrite Hx. fold (no_char c a) in Ha. rewrite (IH Ha). reflexivity.
Qed.
Lemma split_once_on_spec c s : match split_once_on c s with
                               | Some (a, b) => s = a ++ c :: b /\ no_char c a = true
                               | None => no_char c s = true
                               end.
Proof.
  induction s as [|x r IH]; [reflexivity|]. cbn [split_once_on]. destruct (x =? c)%N eqn:E.
  - apply N.eqb_eq in E. subst. split; reflexivity.
  - destruct (split_once_on c r) as [[a b]|].
    + destruct IH as [-> Ha]. split; [reflexivity|]. cbn [no_char forallb]. rewrite E. exact Ha.
    + cbn [no_char forallb]. rewrite E. exact IH.
Qed.
Lemma split_once_lf_eq s : Copyright.split_once_lf s = split_once_on LFc s.
Proof. induction s as [|x r IH]; [reflexivity|]. cbn [Copyright.split_once_lf split_once_on]. rewrite IH. reflexivity. Qed.

Lemma strip_prefix_app pre s : strip_prefix pre (pre ++ s) = Some s.
Proof. induction pre as [|c p IH]; [reflexivity|]. cbn [app strip_prefix]. rewrite N.eqb_refl. exact IH. Qed.
Lemma strip_prefix_some pre s r : strip_prefix pre s = Some r -> s = pre ++ r.
Proof.
  revert s. induction pre as [|c p IH]; intros s H; [cbn in *; congruence|].
  destruct s as [|x s']; [discriminate|]. cbn [strip_prefix] in H. destruct (x =? c)%N eqn:E; [|discriminate].
  apply N.eqb_eq in E. subst. cbn [app]. f_equal. apply IH. exact H.
Qed.

(* ---- trim ---- *)
Lemma trim_start_ws a s : all_ws a = true -> trim_start (a ++ s) = trim_start s.
Proof.
  induction a as [|c a IH]; intros H; [reflexivity|]. cbn [all_ws forallb] in H. apply andb_true_iff in H.
  destruct H as [Hc Ha]. cbn [app trim_start]. rewrite Hc. apply IH. exact Ha.
Qed.
Lemma trim_start_all_ws a : all_ws a = true -> trim_start a = [].
Proof. intros H. rewrite <- (app_nil_r a). rewrite trim_start_ws by exact H. reflexivity. Qed.
Lemma trim_start_id s : match s with c :: _ => is_ws c = false | [] => True end -> trim_start s = s.
Proof. destruct s as [|c r]; [reflexivity|]. intros H. cbn [trim_start]. rewrite H. reflexivity. Qed.
Lemma all_ws_rev a : all_ws (rev a) = all_ws a.
Proof.
  unfold all_ws. destruct (forallb is_ws a) eqn:E.
  - rewrite forallb_forall in *. intros x Hx. apply E. apply in_rev. exact Hx.
  - destruct (forallb is_ws (rev a)) eqn:F; [|reflexivity]. rewrite forallb_forall in F.
    assert (forallb is_ws a = true) by (rewrite forallb_forall; intros x Hx; apply F; rewrite <- in_rev; exact Hx). congruence.
Qed.

Lemma trim_pad a x b : all_ws a = true -> all_ws b = true -> trimmed_str x = true -> trim (a ++ x ++ b) = x.
Proof.
  intros Ha Hb Hx. unfold trim. rewrite trim_start_ws by exact Ha.
  unfold trimmed_str in Hx. apply andb_true_iff in Hx. destruct Hx as [H1 H2].
  destruct x as [|c r].
  - cbn [app]. rewrite (trim_start_all_ws b Hb). reflexivity.
  - rewrite (trim_start_id ((c :: r) ++ b)) by (cbn [app]; apply negb_true_iff; exact H1).
    unfold trim_end. rewrite rev_app_distr. rewrite trim_start_ws by (rewrite all_ws_rev; exact Hb).
    rewrite trim_start_id; [apply rev_involutive|].
    destruct (rev (c :: r)) as [|y w]; [exact I|]. apply negb_true_iff. exact H2.
Qed.
Lemma trim_id x : trimmed_str x = true -> trim x = x.
Proof. intros H. rewrite <- (trim_pad [] x [] eq_refl eq_refl H) at 2. rewrite app_nil_r. reflexivity. Qed.

Lemma no_ws_trimmed x : no_ws x = true -> trimmed_str x = true.
Proof.
  intros H. unfold trimmed_str. apply andb_true_iff. split.
  - destruct x as [|c r]; [reflexivity|]. cbn [no_ws forallb] in H. apply andb_true_iff in H. apply H.
  - destruct (rev x) as [|c r] eqn:E; [reflexivity|]. unfold no_ws in H. rewrite forallb_forall in H.
    apply H. apply in_rev. rewrite E. left. reflexivity.
Qed.

(* ---- split_whitespace ---- *)
Lemma no_ws_prop x : no_ws x = true -> CopyrightP.no_ws x.
Proof. intros H. exact H. Qed.

Lemma split_whitespace_all_ws a : all_ws a = true -> Copyright.split_whitespace a = [].
Proof.
  induction a as [|c a IH]; intros H; [reflexivity|]. cbn [all_ws forallb] in H. apply andb_true_iff in H.
  destruct H as [Hc Ha]. change (c :: a) with ([] ++ c :: a). rewrite CopyrightP.split_whitespace_sep by exact Hc.
  rewrite (IH Ha). reflexivity.
Qed.
Lemma split_whitespace_lead a s : all_ws a = true -> Copyright.split_whitespace (a ++ s) = Copyright.split_whitespace s.
Proof.
  induction a as [|c a IH]; intros H; [reflexivity|]. cbn [all_ws forallb] in H. apply andb_true_iff in H.
  destruct H as [Hc Ha]. change ((c :: a) ++ s) with ([] ++ c :: (a ++ s)). rewrite CopyrightP.split_whitespace_sep by exact Hc.
  rewrite (IH Ha). reflexivity.
Qed.
(* a word followed by a non-empty blank run *)
Lemma split_whitespace_word_sep w sp s : word w = true -> all_ws sp = true -> sp <> [] ->
  Copyright.split_whitespace (w ++ sp ++ s) = w :: Copyright.split_whitespace s.
Proof.
  intros Hw Hs Hne. destruct sp as [|c sp']; [congruence|]. cbn [all_ws forallb] in Hs. apply andb_true_iff in Hs.
  destruct Hs as [Hc Hs]. cbn [app]. rewrite CopyrightP.split_whitespace_sep by exact Hc.
  unfold word in Hw. apply andb_true_iff in Hw. destruct Hw as [Hw1 Hw2].
  rewrite CopyrightP.split_whitespace_word; [|destruct w; [discriminate|discriminate]|exact Hw2].
  cbn [app]. f_equal. apply split_whitespace_lead. exact Hs.
Qed.
Lemma split_whitespace_one w : word w = true -> Copyright.split_whitespace w = [w].
Proof.
  intros Hw. unfold word in Hw. apply andb_true_iff in Hw. destruct Hw as [Hw1 Hw2].
  apply CopyrightP.split_whitespace_word; [destruct w; [discriminate|discriminate]|exact Hw2].
Qed.

(* the rendered whitespace-separated list: every item but the last is followed by a non-empty
   blank run; the last one by any blank run *)
Fixpoint seps_ok (l : list (str * str)) : bool :=
  match l with
  | [] => true
  | [(w, sp)] => word w && all_ws sp
  | (w, sp) :: r => word w && all_ws sp && nonempty sp && seps_ok r
  end.
Lemma split_whitespace_render lead l : all_ws lead = true -> seps_ok l = true ->
  Copyright.split_whitespace (render_ws lead l) = map fst l.
Proof.
  intros Hl. unfold render_ws. rewrite split_whitespace_lead by exact Hl. clear Hl lead.
  induction l as [|[w sp] r IH]; intros H; [reflexivity|].
  destruct r as [|[w2 sp2] r'].
  - cbn [seps_ok] in H. apply andb_true_iff in H. destruct H as [Hw Hs]. cbn [flat_map fst snd map app]. rewrite app_nil_r.
    destruct sp as [|c sp'].
    + rewrite app_nil_r. apply split_whitespace_one. exact Hw.
    + rewrite <- (app_nil_r (c :: sp')). rewrite split_whitespace_word_sep by (try exact Hw; try exact Hs; discriminate). reflexivity.
  - cbn [seps_ok] in H. apply andb_true_iff in H. destruct H as [H Hr]. apply andb_true_iff in H. destruct H as [H Hne].
    apply andb_true_iff in H. destruct H as [Hw Hs].
    cbn [flat_map fst snd map]. rewrite <- app_assoc.
    rewrite split_whitespace_word_sep; [|exact Hw|exact Hs|destruct sp; [discriminate|discriminate]].
    f_equal. apply IH. exact Hr.
Qed.

Lemma split_whitespace_join l : forallb word l = true -> Copyright.split_whitespace (join l_sp l) = l.
Proof.
  induction l as [|x r IH]; intros H; [reflexivity|]. cbn [forallb] in H. apply andb_true_iff in H. destruct H as [Hx Hr].
  destruct r as [|y r'].
  - cbn. apply split_whitespace_one. exact Hx.
  - unfold join in *. rewrite join_cons2 by discriminate. rewrite split_whitespace_word_sep by (try exact Hx; try reflexivity; discriminate).
    f_equal. apply IH. exact Hr.
Qed.

(* ---- lines ---- *)
Lemma word_no_eol w : no_ws w = true -> no_eol w = true.
Proof.
  unfold no_ws, no_eol. intros H. rewrite forallb_forall in *. intros c Hc. specialize (H c Hc).
  apply negb_true_iff in H. apply negb_true_iff. unfold is_newline. unfold is_ws, Copyright.is_whitespace in H.
  destruct (c =? 10)%N eqn:E1; [apply N.eqb_eq in E1; subst; discriminate|].
  destruct (c =? 13)%N eqn:E2; [apply N.eqb_eq in E2; subst; discriminate|]. reflexivity.
Qed.

Lemma strip_cr_line_ok l : line_ok l = true -> strip_cr l = l.
Proof.
  unfold line_ok, strip_cr. intros H. apply andb_true_iff in H. destruct H as [_ H].
  destruct (rev l) as [|c r]; [reflexivity|]. apply negb_true_iff in H. rewrite H. reflexivity.
Qed.
Lemma line_ok_no_lf l : line_ok l = true -> no_lf l = true.
Proof. unfold line_ok. intros H. apply andb_true_iff in H. exact (proj1 H). Qed.

(* every line terminated by LF *)
Lemma lines_terminated ls : forallb line_ok ls = true -> lines (flat_map (fun l => l ++ [LFc]) ls) = ls.
Proof.
  unfold lines. induction ls as [|l r IH]; intros H; [reflexivity|].
  cbn [forallb] in H. apply andb_true_iff in H. destruct H as [Hl Hr].
  cbn [flat_map]. rewrite <- app_assoc. rewrite lines_go_app by (apply line_ok_no_lf; exact Hl).
  cbn [app lines_go]. change (LFc =? 10)%N with true. cbv iota. rewrite (strip_cr_line_ok l Hl), (IH Hr). reflexivity.
Qed.

(* ---- usize ---- *)
Lemma dec_value_app a ds es : dec_value a (ds ++ es) = dec_value (dec_value a ds) es.
Proof. revert a. induction ds as [|d r IH]; intros a; [reflexivity|]. cbn [app dec_value]. apply IH. Qed.

Lemma show_fuel_spec f : forall n acc, (n < 2 ^ N.of_nat (S f))%N ->
  exists ds, show_fuel (S f) n acc = ds ++ acc /\ ds <> [] /\ forallb is_dig ds = true /\
             forall a, dec_value a ds = (a * 10 ^ N.of_nat (length ds) + n)%N.
Proof.
  induction f as [|f IH]; intros n acc Hn.
  - assert (Hs : (n < 10)%N) by (change (2 ^ N.of_nat 1)%N with 2%N in Hn; lia).
    cbn [show_fuel]. apply N.ltb_lt in Hs. rewrite Hs. apply N.ltb_lt in Hs.
    exists [(48 + n mod 10)%N]. split; [reflexivity|]. split; [discriminate|]. split.
    + cbn [forallb is_dig]. rewrite N.mod_small by lia. rewrite andb_true_r. apply andb_true_iff. split; apply N.leb_le; lia.
    + intros a. cbn [dec_value length]. rewrite N.mod_small by lia. change (N.of_nat 1) with 1%N. rewrite N.pow_1_r. lia.
  - remember (S f) as f1. cbn [show_fuel]. destruct (n <? 10)%N eqn:E.
    + apply N.ltb_lt in E. exists [(48 + n mod 10)%N]. split; [reflexivity|]. split; [discriminate|]. split.
      * cbn [forallb is_dig]. rewrite N.mod_small by lia. rewrite andb_true_r. apply andb_true_iff. split; apply N.leb_le; lia.
      * intros a. cbn [dec_value length]. rewrite N.mod_small by lia. change (N.of_nat 1) with 1%N. rewrite N.pow_1_r. lia.
    + apply N.ltb_ge in E. subst f1.
      assert (Hd : (n / 10 < 2 ^ N.of_nat (S f))%N).
      { rewrite (Nat2N.inj_succ (S f)), N.pow_succ_r' in Hn. apply N.div_lt_upper_bound; [lia|].
        assert (G : forall X, (n < 2 * X -> n < 10 * X)%N) by (intros; lia). apply G. exact Hn. }
      destruct (IH (n / 10)%N ((48 + n mod 10)%N :: acc) Hd) as (ds & E1 & E2 & E3 & E4).
      exists (ds ++ [(48 + n mod 10)%N]). split; [rewrite E1, <- app_assoc; reflexivity|].
      split; [intro X; apply app_eq_nil in X; destruct X; discriminate|]. split.
      * rewrite forallb_app, E3. cbn [forallb is_dig andb]. rewrite andb_true_r.
        assert (n mod 10 < 10)%N by (apply N.mod_lt; lia). apply andb_true_iff. split; apply N.leb_le; clear - H; generalize dependent (n mod 10)%N; intros; lia.
      * intros a. rewrite dec_value_app, E4. cbn [dec_value]. rewrite app_length. cbn [length].
        rewrite Nat.add_1_r, Nat2N.inj_succ, N.pow_succ_r'.
        pose proof (N.div_mod n 10) as Hdm. assert (Hm : (n mod 10 < 10)%N) by (apply N.mod_lt; lia).
        assert (Hn10 : (10 <> 0)%N) by lia. specialize (Hdm Hn10).
        generalize dependent (10 ^ N.of_nat (length ds))%N. intros X _. clear - Hdm Hm.
        generalize dependent (n mod 10)%N. generalize dependent (n / 10)%N. intros q r Hdm Hm. subst n. lia.
Qed.

Lemma show_N_spec n : exists ds, show_N n = ds /\ ds <> [] /\ forallb is_dig ds = true /\ dec_value 0 ds = n.
Proof.
  unfold show_N.
  assert (Hn : (n < 2 ^ N.of_nat (S (N.to_nat (N.log2 n))))%N).
  { rewrite Nat2N.inj_succ, N2Nat.id. destruct n as [|p]; [reflexivity|]. apply N.log2_spec. reflexivity. }
  destruct (show_fuel_spec _ n [] Hn) as (ds & E1 & E2 & E3 & E4). exists ds. rewrite E1, app_nil_r.
  split; [reflexivity|]. split; [exact E2|]. split; [exact E3|]. rewrite E4. lia.
Qed.

Lemma is_dig_not_plus ds : forallb is_dig ds = true -> match ds with c :: _ => (c =? 43)%N = false | [] => True end.
Proof.
  destruct ds as [|c r]; [trivial|]. cbn [forallb]. intros H. apply andb_true_iff in H. destruct H as [H _].
  unfold is_dig in H. apply andb_true_iff in H. destruct H as [H _]. apply N.leb_le in H. apply N.eqb_neq. lia.
Qed.

Lemma parse_usize_digits ds : ds <> [] -> forallb is_dig ds = true -> (dec_value 0 ds <=? usize_max)%N = true ->
  parse_usize ds = Some (dec_value 0 ds).
Proof.
  intros Hne Hd Hm. unfold parse_usize. pose proof (is_dig_not_plus ds Hd) as Hp.
  destruct ds as [|c r]; [congruence|]. rewrite Hp. rewrite Hd, Hm. reflexivity.
Qed.

Lemma parse_show_usize n : (n <=? usize_max)%N = true -> parse_usize (show_N n) = Some n.
Proof.
  intros H. destruct (show_N_spec n) as (ds & E1 & E2 & E3 & E4). rewrite E1.
  rewrite parse_usize_digits by (try assumption; rewrite E4; exact H). rewrite E4. reflexivity.
Qed.

Lemma is_dig_not_ws c : is_dig c = true -> is_ws c = false.
Proof.
  unfold is_dig, is_ws, Copyright.is_whitespace. intros H. apply andb_true_iff in H. destruct H as [H1 H2].
  apply N.leb_le in H1. apply N.leb_le in H2.
  repeat match goal with |- (_ || _)%bool = false => apply orb_false_iff; split end;
  try (apply andb_false_iff; first [left; apply N.leb_gt; lia | right; apply N.leb_gt; lia]); apply N.eqb_neq; lia.
Qed.
Lemma digits_word ds : ds <> [] -> forallb is_dig ds = true -> word ds = true.
Proof.
  intros Hne H. unfold word. apply andb_true_iff. split; [destruct ds; [congruence|reflexivity]|].
  unfold no_ws. rewrite forallb_forall in *. intros c Hc. apply negb_true_iff. apply is_dig_not_ws. apply H. exact Hc.
Qed.
Lemma show_N_word n : word (show_N n) = true.
Proof. destruct (show_N_spec n) as (ds & E1 & E2 & E3 & _). rewrite E1. apply digits_word; assumption. Qed.

(* ================================================================== 2. the tree implementation refines the list one *)
Lemma l_rename1_fst p o n : l_rename1 p o n = fst (l_rename p o n).
Proof.
  induction p as [|[a b] r IH]; [reflexivity|]. cbn [l_rename1 l_rename]. destruct (str_eqb a o); [reflexivity|].
  rewrite IH. destruct (l_rename r o n). reflexivity.
Qed.

Record refines {P : Type} (I : pimpl P) (abs : P -> list (str * str)) : Prop := mk_refines {
  rf_get : forall p k, p_get I p k = l_get (abs p) k;
  rf_items : forall p, p_items I p = abs p;
  rf_set : forall p k v, abs (p_set I p k v) = l_set (abs p) k v;
  rf_insert : forall p k v, abs (p_insert I p k v) = l_insert (abs p) k v;
  rf_remove : forall p k, abs (p_remove I p k) = l_remove (abs p) k;
  rf_rename : forall p o n, abs (p_rename I p o n) = l_rename1 (abs p) o n
}.

Lemma tree_get_l_get cs k : Deb822Parse.get (Node PARAGRAPH cs) k = l_get (pitems cs) k.
Proof. rewrite GrammarAccP.get_items, l_get_first. reflexivity. Qed.

Theorem TI_refines : refines TI pitems.
Proof.
  constructor; cbn [TI p_get p_items p_set p_insert p_remove p_rename].
  - apply tree_get_l_get.
  - reflexivity.
  - apply para_set_items.
  - apply para_insert_items.
  - apply para_remove_items.
  - intros p o n. rewrite l_rename1_fst. apply para_rename_items.
Qed.
Theorem LI_refines : refines LI (fun p => p).
Proof. constructor; reflexivity. Qed.

Section Refinement.
  Context {P : Type} (I : pimpl P) (abs : P -> list (str * str)) (R : refines I abs).

  Lemma rf_contains p k : p_contains I p k = p_contains LI (abs p) k.
  Proof. unfold p_contains. rewrite (rf_get I abs R). reflexivity. Qed.
  Lemma rf_get_all p k : p_get_all I p k = p_get_all LI (abs p) k.
  Proof. unfold p_get_all. rewrite (rf_items I abs R). reflexivity. Qed.

  Lemma hand_get_refines c id arg p : hand_get c I id arg p = hand_get c LI id arg (abs p).
  Proof.
    unfold hand_get, changes_get_pool_path, dep3_bugs, dep3_vendor_bugs.
    rewrite !(rf_get I abs R), !(rf_items I abs R). reflexivity.
  Qed.

  Theorem getter_refines c r arg p : getter c I r arg p = getter c LI r arg (abs p).
  Proof.
    unfold getter. destruct (r_op r); try reflexivity; destruct (r_fields r) as [|f1 [|f2 [|f3 fs]]]; try reflexivity;
      rewrite ?(rf_get I abs R), ?rf_get_all, ?hand_get_refines; try reflexivity;
      destruct (r_codec r); try reflexivity; apply hand_get_refines.
  Qed.

  Lemma dep3_set_author_refines sh p a : abs (dep3_set_author I sh p a) = dep3_set_author LI sh (abs p) a.
  Proof.
    unfold dep3_set_author. rewrite rf_contains. destruct sh, (p_contains LI (abs p) k_From);
      first [apply (rf_insert I abs R) | apply (rf_set I abs R)].
  Qed.
  Lemma dep3_set_description_refines p d : abs (dep3_set_description I p d) = dep3_set_description LI (abs p) d.
  Proof.
    unfold dep3_set_description. rewrite !(rf_get I abs R). cbn [p_get LI].
    destruct (l_get (abs p) k_Subject); apply (rf_set I abs R).
  Qed.
  Lemma dep3_set_description_shipped_refines p d :
    abs (dep3_set_description_shipped I p d) = dep3_set_description_shipped LI (abs p) d.
  Proof.
    unfold dep3_set_description_shipped. rewrite !(rf_get I abs R). cbn [p_get LI].
    destruct (l_get (abs p) k_Subject); [apply (rf_insert I abs R)|].
    destruct (l_get (abs p) k_Description); apply (rf_insert I abs R).
  Qed.
  Lemma dep3_set_long_description_refines sh p d :
    abs (dep3_set_long_description I sh p d) = dep3_set_long_description LI sh (abs p) d.
  Proof.
    unfold dep3_set_long_description. rewrite !(rf_get I abs R). cbn [p_get LI].
    destruct sh, (l_get (abs p) k_Subject), (l_get (abs p) k_Description);
      first [apply (rf_insert I abs R) | apply (rf_set I abs R)].
  Qed.
  Lemma dep3_set_vendor_bug_refines sh p v b : abs (dep3_set_vendor_bug I sh p v b) = dep3_set_vendor_bug LI sh (abs p) v b.
  Proof. unfold dep3_set_vendor_bug. destruct sh; [apply (rf_insert I abs R)|apply (rf_set I abs R)]. Qed.
  Lemma header_fix_refines p : abs (header_fix I p) = header_fix LI (abs p).
  Proof.
    unfold header_fix. rewrite rf_contains.
    destruct (p_contains LI (abs p) k_Format_Specification).
    - rewrite (rf_get I abs R), (rf_rename I abs R). cbn [p_get p_rename LI].
      destruct (l_get (l_rename1 (abs p) k_Format_Specification k_Format) k_Format);
        [rewrite (rf_set I abs R), (rf_rename I abs R); reflexivity|apply (rf_rename I abs R)].
    - rewrite (rf_get I abs R). cbn [p_get LI]. destruct (l_get (abs p) k_Format); [apply (rf_set I abs R)|reflexivity].
  Qed.

  Lemma hand_set_refines id arg v p : rmap abs (hand_set I id arg v p) = hand_set LI id arg v (abs p).
  Proof.
    unfold hand_set. destruct (str_of_value v) as [s|].
    - repeat match goal with |- context [if ?b then _ else _] => destruct b end; cbn [rmap bind]; try reflexivity; f_equal;
        first [apply dep3_set_author_refines | apply dep3_set_description_refines | apply dep3_set_description_shipped_refines
              | apply dep3_set_long_description_refines | apply dep3_set_vendor_bug_refines | apply header_fix_refines].
    - destruct (str_eqb id h_copyright_fix); cbn [rmap bind]; [f_equal; apply header_fix_refines|reflexivity].
  Qed.

  Theorem setter_refines c r arg v p : rmap abs (setter c I r arg v p) = setter c LI r arg v (abs p).
  Proof.
    unfold setter. destruct (r_op r); try reflexivity; destruct (r_fields r) as [|f1 [|f2 fs]]; try reflexivity;
      try (destruct (r_codec r); try reflexivity; apply hand_set_refines);
      match goal with |- context [encode ?o ?c ?v] => destruct (encode o c v) as [[s|]|] end; cbn [rmap bind]; try reflexivity; f_equal;
      first [apply (rf_set I abs R) | apply (rf_remove I abs R) | apply (rf_insert I abs R)].
  Qed.
End Refinement.

(* ================================================================== 3. codec round trips *)
Lemma mapM_opt_map {A B} (f : A -> option B) (g : A -> B) l :
  (forall x, In x l -> f x = Some (g x)) -> mapM_opt f l = Some (map g l).
Proof.
  induction l as [|x r IH]; intros H; [reflexivity|]. cbn [mapM_opt map]. rewrite (H x (or_introl eq_refl)).
  rewrite IH by (intros y Hy; apply H; right; exact Hy). reflexivity.
Qed.
Lemma mapM_opt_id {A B} (f : A -> option B) (g : B -> option A) l :
  (forall x, In x l -> exists y, f x = Some y /\ g y = Some x) ->
  exists l', mapM_opt f l = Some l' /\ mapM_opt g l' = Some l /\ length l' = length l.
Proof.
  induction l as [|x r IH]; intros H; [exists []; repeat split|].
  destruct (H x (or_introl eq_refl)) as (y & E1 & E2).
  destruct IH as (l' & F1 & F2 & F3); [intros z Hz; apply H; right; exact Hz|].
  exists (y :: l'). cbn [mapM_opt length]. rewrite E1, F1, E2, F2, F3. repeat split.
Qed.

(* --- typed values --- *)
Lemma vparse_vshow c t v : valid_typed c t v = true ->
  exists s, vshow t v = Some s /\ vparse c t s = Ok v.
Proof.
  destruct t as [| |name|x| |]; destruct v as [| v'|s|b|n|l|l]; cbn [valid_typed]; try discriminate; intros H.
  - (* Relations *) exists s. split; [reflexivity|]. destruct (vparse c TRelations s) as [[| |s'| | | |]| | |]; try discriminate.
    apply str_eqb_eq in H. subst. reflexivity.
  - exists (show_N n). split; [reflexivity|]. cbn [vparse]. rewrite (parse_show_usize n H). reflexivity.
  - exists s. split; [reflexivity|]. destruct (vparse c (TEnum name) s) as [[| |s'| | | |]| | |]; try discriminate.
    apply str_eqb_eq in H. subst. reflexivity.
  - exists s. split; [reflexivity|]. destruct (vparse c (TExt x) s) as [[| |s'| | | |]| | |]; try discriminate.
    apply str_eqb_eq in H. subst. reflexivity.
  - (* Forwarded *) destruct l as [|tag [|s [|z l']]]; try discriminate.
    + apply orb_true_iff in H. destruct H as [H|H]; apply str_eqb_eq in H; subst tag.
      * exists l_no. split; reflexivity.
      * exists l_not_needed. split; reflexivity.
    + apply andb_true_iff in H. destruct H as [H H3]. apply andb_true_iff in H. destruct H as [H1 H2].
      apply str_eqb_eq in H1. subst tag. apply negb_true_iff in H2. apply negb_true_iff in H3.
      exists s. split; [reflexivity|]. cbn [vparse]. rewrite H2, H3. reflexivity.
  - (* AppliedUpstream *) destruct l as [|tag [|s [|z l']]]; try discriminate.
    apply orb_true_iff in H. destruct H as [H|H].
    + apply str_eqb_eq in H. subst tag. exists (l_commit_colon ++ s). split; [reflexivity|].
      cbn [vparse]. rewrite strip_prefix_app. reflexivity.
    + apply andb_true_iff in H. destruct H as [H1 H2]. apply str_eqb_eq in H1. subst tag.
      exists s. split; [reflexivity|]. cbn [vparse]. destruct (strip_prefix l_commit_colon s); [discriminate|reflexivity].
Qed.

(* --- lists --- *)
Lemma trim_sp_item x : trimmed_str x = true -> trim (32%N :: x) = x.
Proof. intros H. change (32%N :: x) with ([32%N] ++ x). rewrite <- (app_nil_r x) at 1. apply (trim_pad [32%N] x []); [reflexivity|reflexivity|exact H]. Qed.

Lemma comma_roundtrip l : nonempty l = true -> forallb (fun x => no_char 44%N x && trimmed_str x) l = true ->
  pieces SpComma true (join l_comma_sp l) = l.
Proof.
  intros Hne H. unfold pieces.
  assert (H1 : forallb (no_char 44%N) l = true) by (rewrite forallb_forall in *; intros x Hx; specialize (H x Hx); apply andb_true_iff in H; apply H).
  assert (H2 : forall x, In x l -> trimmed_str x = true) by (rewrite forallb_forall in H; intros x Hx; specialize (H x Hx); apply andb_true_iff in H; apply H).
  change l_comma_sp with (44%N :: [32%N]). rewrite split_on_join_pad; [|destruct l; [discriminate|discriminate]|reflexivity|exact H1].
  destruct l as [|x r]; [discriminate|]. cbn [map]. rewrite (trim_id x) by (apply H2; left; reflexivity). f_equal.
  rewrite map_map. rewrite <- (map_id r) at 2. apply map_ext_in. intros y Hy. apply trim_sp_item. apply H2. right. exact Hy.
Qed.

Lemma word_no_sp x : word x = true -> no_char 32%N x = true.
Proof.
  unfold word, no_ws, no_char. intros H. apply andb_true_iff in H. destruct H as [_ H]. rewrite forallb_forall in *.
  intros c Hc. specialize (H c Hc). apply negb_true_iff in H. apply negb_true_iff. apply N.eqb_neq. intro E. subst. discriminate.
Qed.
Lemma word_trimmed x : word x = true -> trimmed_str x = true.
Proof. unfold word. intros H. apply andb_true_iff in H. apply no_ws_trimmed. apply H. Qed.

Lemma map_trim_words l : forallb word l = true -> map trim l = l.
Proof.
  intros H. rewrite <- (map_id l) at 2. apply map_ext_in. intros x Hx. apply trim_id, word_trimmed.
  rewrite forallb_forall in H. apply H. exact Hx.
Qed.

Lemma list_roundtrip c sp tr ab sep l : rt_law (CSplit sp tr ab) (CJoin sep) = true ->
  valid_plain c (CSplit sp tr ab) (CJoin sep) (VList l) = true ->
  pieces sp tr (join sep l) = l.
Proof.
  intros Hr Hv. destruct sp; cbn [rt_law] in Hr.
  - (* comma *) destruct tr; [|discriminate]. destruct ab; try discriminate. apply str_eqb_eq in Hr. subst sep.
    cbn [valid_plain] in Hv. apply andb_true_iff in Hv. destruct Hv. apply comma_roundtrip; assumption.
  - (* single space *) destruct ab; try discriminate. apply str_eqb_eq in Hr. subst sep.
    cbn [valid_plain] in Hv. apply andb_true_iff in Hv. destruct Hv as [Hne Hw]. unfold pieces.
    change l_sp with [32%N]. rewrite split_on_join.
    + destruct tr; [apply map_trim_words; exact Hw|reflexivity].
    + destruct l; [discriminate|discriminate].
    + rewrite forallb_forall in *. intros x Hx. apply word_no_sp. apply Hw. exact Hx.
  - (* line feed *) destruct tr; [discriminate|]. assert (E : sep = l_lf) by (destruct ab; try discriminate; apply str_eqb_eq in Hr; exact Hr). subst sep.
    assert (Hv' : nonempty l && forallb (no_char LFc) l = true) by (destruct ab; exact Hv).
    apply andb_true_iff in Hv'. destruct Hv' as [Hne Hw]. unfold pieces. change l_lf with [LFc]. apply split_on_join; [destruct l; [discriminate|discriminate]|exact Hw].
  - (* whitespace *) destruct ab; try discriminate. apply str_eqb_eq in Hr. subst sep.
    cbn [valid_plain] in Hv. unfold pieces. rewrite split_whitespace_join by exact Hv.
    destruct tr; [apply map_trim_words; exact Hv|reflexivity].
Qed.

(* --- records --- *)
Lemma mapM_opt_id_Q {A B} (f : A -> option B) (g : B -> option A) (Q : B -> Prop) l :
  (forall x, In x l -> exists y, f x = Some y /\ g y = Some x /\ Q y) ->
  exists l', mapM_opt f l = Some l' /\ mapM_opt g l' = Some l /\ Forall Q l'.
Proof.
  induction l as [|x r IH]; intros H; [exists []; repeat split; constructor|].
  destruct (H x (or_introl eq_refl)) as (y & E1 & E2 & E3).
  destruct IH as (l' & F1 & F2 & F3); [intros z Hz; apply H; right; exact Hz|].
  exists (y :: l'). cbn [mapM_opt]. rewrite E1, F1, E2, F2. repeat split. constructor; assumption.
Qed.

Lemma no_eol_app a b : no_eol (a ++ b) = no_eol a && no_eol b.
Proof. apply forallb_app. Qed.
Lemma word_no_eol' w : word w = true -> no_eol w = true.
Proof. unfold word. intros H. apply andb_true_iff in H. apply word_no_eol. apply H. Qed.
Lemma word_nonempty w : word w = true -> w <> [].
Proof. destruct w; [discriminate|discriminate]. Qed.

Lemma rec_roundtrip c r a : valid_rec c r a = true ->
  exists line, show_rec r a = Some line /\ parse_rec c r line = Some a /\ no_eol line = true /\ line <> [].
Proof.
  destruct r; cbn [valid_rec].
  - destruct a as [|[h|] [|[|n] [|[f|] [|z a']]]]; try discriminate. intros H.
    apply andb_true_iff in H. destruct H as [H Hf]. apply andb_true_iff in H. destruct H as [Hh Hn].
    eexists. split; [reflexivity|]. split; [|split].
    + unfold parse_rec.
      rewrite (split_whitespace_word_sep h l_sp _ Hh eq_refl) by discriminate.
      rewrite (split_whitespace_word_sep (show_N n) l_sp f (show_N_word n) eq_refl) by discriminate.
      rewrite (split_whitespace_one f Hf). rewrite (parse_show_usize n Hn). reflexivity.
    + rewrite !no_eol_app, (word_no_eol' h Hh), (word_no_eol' f Hf), (word_no_eol' _ (show_N_word n)). reflexivity.
    + intro E. apply app_eq_nil in E. destruct E as [E _]. exact (word_nonempty h Hh E).
  - destruct a as [|[h|] [|[|n] [|[sec|] [|[p|] [|[f|] [|z a']]]]]]; try discriminate. intros H.
    apply andb_true_iff in H. destruct H as [H Hp]. apply andb_true_iff in H. destruct H as [H Hf].
    apply andb_true_iff in H. destruct H as [H Hs]. apply andb_true_iff in H. destruct H as [Hh Hn].
    destruct (vparse c (TEnum n_Priority) p) as [[| |p'| | | |]| | |] eqn:Ep; try discriminate.
    apply andb_true_iff in Hp. destruct Hp as [Hp1 Hp2]. apply str_eqb_eq in Hp1. subst p'.
    eexists. split; [reflexivity|]. split; [|split].
    + unfold parse_rec.
      rewrite (split_whitespace_word_sep h l_sp _ Hh eq_refl) by discriminate.
      rewrite (split_whitespace_word_sep (show_N n) l_sp _ (show_N_word n) eq_refl) by discriminate.
      rewrite (split_whitespace_word_sep sec l_sp _ Hs eq_refl) by discriminate.
      rewrite (split_whitespace_word_sep p l_sp f Hp2 eq_refl) by discriminate.
      rewrite (split_whitespace_one f Hf). rewrite (parse_show_usize n Hn), Ep. reflexivity.
    + rewrite !no_eol_app, (word_no_eol' h Hh), (word_no_eol' f Hf), (word_no_eol' _ (show_N_word n)),
        (word_no_eol' sec Hs), (word_no_eol' p Hp2). reflexivity.
    + intro E. apply app_eq_nil in E. destruct E as [E _]. exact (word_nonempty h Hh E).
Qed.

Lemma last_Forall {A} (Q : A -> Prop) l d : Q d -> Forall Q l -> Q (last l d).
Proof. intros Hd H. induction H as [|x r Hx Hr IH]; [exact Hd|]. destruct r; [exact Hx|exact IH]. Qed.

Lemma recs_roundtrip c r l : forallb (valid_rec c r) l = true ->
  exists ls, mapM_opt (show_rec r) l = Some ls /\ mapM_opt (parse_rec c r) (lines (join l_lf ls)) = Some l.
Proof.
  intros H. rewrite forallb_forall in H.
  destruct (mapM_opt_id_Q (show_rec r) (parse_rec c r) (fun y => no_eol y = true /\ y <> []) l) as (ls & E1 & E2 & E3).
  { intros x Hx. destruct (rec_roundtrip c r x (H x Hx)) as (line & F1 & F2 & F3 & F4). exists line. repeat split; assumption. }
  exists ls. split; [exact E1|]. change l_lf with [Grammar.LF]. rewrite lines_join; [exact E2| |].
  - rewrite forallb_forall. intros y Hy. rewrite Forall_forall in E3. apply E3. exact Hy.
  - apply (last_Forall (fun y => y <> [])); [discriminate|]. eapply Forall_impl; [|exact E3]. intros y Hy. apply Hy.
Qed.

(* --- Environment --- *)
Lemma line_ok_env k x : no_char 61%N k = true -> line_ok k = true -> line_ok x = true -> line_ok (k ++ [61%N] ++ x) = true.
Proof.
  unfold line_ok. intros _ Hk Hx. apply andb_true_iff in Hk. destruct Hk as [Hk _]. apply andb_true_iff in Hx. destruct Hx as [Hx1 Hx2].
  apply andb_true_iff. split.
  - unfold no_char in *. rewrite !forallb_app, Hk, Hx1. reflexivity.
  - rewrite !rev_app_distr. destruct (rev x) as [|y w]; [reflexivity|]. exact Hx2.
Qed.

Lemma env_roundtrip l :
  forallb (fun a => match a with [AS k; AS x] => no_char 61%N k && line_ok k && line_ok x | _ => false end) l = true ->
  exists ls, mapM_opt env_line l = Some ls /\ mapM_opt env_pair (lines (concat ls)) = Some l.
Proof.
  intros H. rewrite forallb_forall in H.
  destruct (mapM_opt_id_Q (fun a => match a with [AS k; AS v] => Some (k ++ [61%N] ++ v) | _ => None end) env_pair
              (fun y => line_ok y = true) l) as (ls & E1 & E2 & E3).
  { intros a Ha. specialize (H a Ha). destruct a as [|[k|] [|[x|] [|z a']]]; try discriminate.
    apply andb_true_iff in H. destruct H as [H Hx]. apply andb_true_iff in H. destruct H as [Hk1 Hk2].
    eexists. split; [reflexivity|]. split; [|apply line_ok_env; assumption].
    unfold env_pair. cbn [app]. rewrite (split_once_on_first 61%N k x Hk1). reflexivity. }
  exists (map (fun y => y ++ [LFc]) ls). split.
  - clear E2 E3 H. revert ls E1. induction l as [|a r IH]; intros ls E1; [cbn in E1; inversion E1; reflexivity|].
    cbn [mapM_opt] in E1. destruct a as [|[k|] [|[x|] [|z a']]]; try discriminate.
    destruct (mapM_opt (fun a => match a with [AS k; AS v] => Some (k ++ [61%N] ++ v) | _ => None end) r) as [ls'|] eqn:Er; [|discriminate].
    inversion E1; subst. cbn [mapM_opt map env_line]. rewrite (IH ls' eq_refl). cbn [app]. rewrite <- !app_assoc. reflexivity.
  - assert (Ec : concat (map (fun y => y ++ [LFc]) ls) = flat_map (fun y => y ++ [LFc]) ls) by (rewrite flat_map_concat_map; reflexivity).
    rewrite Ec, lines_terminated; [exact E2|]. rewrite forallb_forall. rewrite Forall_forall in E3. exact E3.
Qed.

(* --- Origin --- *)
Lemma split_once_str_category cat o : is_category cat = true -> split_once_str l_comma_sp (cat ++ l_comma_sp ++ o) = Some (cat, o).
Proof.
  unfold is_category. intros H. repeat (apply orb_true_iff in H; destruct H as [H|H]); apply str_eqb_eq in H; subst cat; reflexivity.
Qed.
Lemma category_not_none cat : is_category cat = true -> str_eqb cat t_none = false.
Proof.
  unfold is_category. intros H. repeat (apply orb_true_iff in H; destruct H as [H|H]); apply str_eqb_eq in H; subst cat; reflexivity.
Qed.

Lemma origin_roundtrip v : valid_origin v = true -> exists s, format_origin v = Some s /\ parse_origin s = v.
Proof.
  destruct v as [| | | | |l|]; try discriminate. destruct l as [|cat [|tag [|s [|z l']]]]; try discriminate.
  cbn [valid_origin]. intros H. apply andb_true_iff in H. destruct H as [Ht Hc].
  set (o := if str_eqb tag t_Commit then l_commit_colon ++ s else s) in *.
  assert (Ho : (if str_eqb tag t_Commit then Some (l_commit_colon ++ s) else if str_eqb tag t_Other then Some s else None) = Some o).
  { unfold o. destruct (str_eqb tag t_Commit); [reflexivity|]. cbn [orb] in Ht. apply andb_true_iff in Ht. destruct Ht as [Ht _]. rewrite Ht. reflexivity. }
  assert (Hb : match strip_prefix l_commit_colon o with Some r => VList [cat; t_Commit; r] | None => VList [cat; t_Other; o] end = VList [cat; tag; s]).
  { unfold o. destruct (str_eqb tag t_Commit) eqn:E.
    - apply str_eqb_eq in E. subst tag. rewrite strip_prefix_app. reflexivity.
    - cbn [orb] in Ht. apply andb_true_iff in Ht. destruct Ht as [Ht1 Ht2]. apply str_eqb_eq in Ht1. subst tag.
      destruct (strip_prefix l_commit_colon s); [discriminate|reflexivity]. }
  apply orb_true_iff in Hc. destruct Hc as [Hc|Hc].
  - exists (cat ++ l_comma_sp ++ o). split.
    + cbn [format_origin]. rewrite Ho, (category_not_none cat Hc), Hc. reflexivity.
    + unfold parse_origin. rewrite (split_once_str_category cat o Hc), Hc. exact Hb.
  - apply andb_true_iff in Hc. destruct Hc as [Hc1 Hc2]. apply str_eqb_eq in Hc1. subst cat.
    exists o. split.
    + cbn [format_origin]. rewrite Ho. reflexivity.
    + unfold parse_origin. apply negb_true_iff in Hc2.
      destruct (split_once_str l_comma_sp o) as [[a b]|]; rewrite Hc2; exact Hb.
Qed.

(* --- License --- *)
Lemma license_roundtrip v : valid_license v = true -> exists s, license_text v = Some s /\ license_value (license_of_str s) = v.
Proof.
  destruct v as [| | | | |l|]; try discriminate. destruct l as [|tag [|a [|b [|z l']]]]; try discriminate; cbn [valid_license]; intros H.
  - apply orb_true_iff in H. destruct H as [H|Ht].
    + apply andb_true_iff in H. destruct H as [Ht Ha]. apply str_eqb_eq in Ht. subst tag.
      exists a. split; [reflexivity|]. unfold license_of_str. rewrite split_once_lf_eq, (split_once_on_none LFc a Ha). reflexivity.
    + apply str_eqb_eq in Ht. subst tag. exists (l_lf ++ a). split; [reflexivity|]. reflexivity.
  - apply andb_true_iff in H. destruct H as [H Hn]. apply andb_true_iff in H. destruct H as [Ht Hne]. apply str_eqb_eq in Ht. subst tag.
    exists (a ++ l_lf ++ b). split; [reflexivity|]. unfold license_of_str. rewrite split_once_lf_eq.
    change (a ++ l_lf ++ b) with (a ++ LFc :: b). rewrite (split_once_on_first LFc a b Hn). destruct a; [discriminate|reflexivity].
Qed.

(* --- the catalogue --- *)
Lemma vty_eqb_eq a b : vty_eqb a b = true -> a = b.
Proof.
  destruct a, b; cbn [vty_eqb]; try discriminate; try reflexivity.
  - intros H. apply str_eqb_eq in H. subst. reflexivity.
  - destruct x, x0; try discriminate; reflexivity.
Qed.
Lemma wraps_decode_none c g : wraps_option g = true -> decode c g None = Ok VNone.
Proof. destruct g; try discriminate; try reflexivity. - destruct ab; try discriminate; reflexivity. - destruct dflt; [discriminate|reflexivity]. Qed.

Lemma plain_roundtrip c g s v : rt_law g s = true -> valid_plain c g s v = true ->
  match s with CYesRemove => True | _ =>
    exists raw, enc s v = Some raw /\ decode c g (Some raw) = Ok (if wraps_option g then VSome v else v) end.
Proof.
  intros Hr Hv. destruct g; destruct s; cbn [rt_law] in Hr; try discriminate; try exact I;
    try (exfalso; clear - Hr; try destruct sp; try destruct trimmed; try destruct ab; discriminate).
  - (* Str *) destruct v; try discriminate. eexists. split; reflexivity.
  - (* typed *) cbn [valid_plain] in Hv. destruct (vparse_vshow c t v Hv) as (raw & E1 & E2).
    apply vty_eqb_eq in Hr. subst t0.
    exists raw. split; [exact E1|]. cbn [decode]. rewrite E2. reflexivity.
  - (* lists *) destruct v; try (destruct sp; try destruct trimmed; try destruct ab; discriminate).
    exists (join sep l). split; [reflexivity|]. cbn [decode]. rewrite (list_roundtrip c sp trimmed ab sep l Hr Hv).
    destruct ab; reflexivity.
  - (* records *) destruct v; try discriminate. cbn [valid_plain] in Hv. destruct (recs_roundtrip c r l Hv) as (ls & E1 & E2).
    assert (r0 = r) by (destruct r, r0; try discriminate; reflexivity). subst r0.
    exists (join l_lf ls). split; [cbn [enc]; rewrite E1; reflexivity|]. cbn [decode]. rewrite E2. destruct dflt; reflexivity.
  - (* yes flag / yes-no *) destruct v; try discriminate. eexists. split; [reflexivity|]. destruct b; reflexivity.
  - (* rules-requires-root, as shipped *) destruct v; try discriminate. eexists. split; [reflexivity|]. destruct b; reflexivity.
  - (* rules-requires-root *) destruct v; try discriminate. eexists. split; [reflexivity|]. destruct b; reflexivity.
  - (* relationship fields: the tolerant reader gives back the text *)
    destruct t; try discriminate. destruct v; try discriminate.
    exists s. split; [reflexivity|]. cbn [decode]. unfold RelParse.parse_relaxed.
    destruct (RelParseP.rparse_total s true) as (tr & n & E & Ht). rewrite E, Ht. reflexivity.
  - (* environment *) destruct v; try discriminate. cbn [valid_plain] in Hv. destruct (env_roundtrip l Hv) as (ls & E1 & E2).
    exists (concat ls). split; [cbn [enc]; rewrite E1; reflexivity|]. cbn [decode]. rewrite E2. reflexivity.
  - (* origin *) cbn [valid_plain] in Hv. destruct (origin_roundtrip v Hv) as (raw & E1 & E2).
    exists raw. split; [exact E1|]. cbn [decode]. rewrite E2. reflexivity.
  - (* licence *) cbn [valid_plain] in Hv. destruct (license_roundtrip v Hv) as (raw & E1 & E2).
    exists raw. split; [exact E1|]. cbn [decode]. rewrite E2. reflexivity.
Qed.

(* THE CODEC LAW: what a setter writes (or that it removes the field), its getter reads back *)
Theorem codec_roundtrip c g op s v :
  rt_law g s = true -> op_ok g op s = true -> valid_value c g op s v = true ->
  exists raw, encode op s v = Some raw /\ decode c g raw = Ok (expect g op s v).
Proof.
  intros Hr Ho Hv. unfold op_ok in Ho. apply andb_true_iff in Ho. destruct Ho as [Ho1 Ho2].
  unfold valid_value, expect in *.
  destruct (takes_option op s) eqn:Et.
  - (* the setter takes an Option *)
    cbn [implb] in Ho2. rewrite Ho2. cbn [negb andb].
    assert (Eop : op = OSetOrRemove) by (destruct op; try discriminate; reflexivity). subst op.
    assert (Ens : match s with CYesRemove => False | _ => True end) by (destruct s; try exact I; discriminate).
    destruct v; try discriminate.
    + exists None. split; [destruct s; try reflexivity; contradiction|]. apply wraps_decode_none. exact Ho2.
    + pose proof (plain_roundtrip c g s v Hr Hv) as Hp.
      destruct s; try contradiction; destruct Hp as (raw & E1 & E2); exists (Some raw); rewrite Ho2 in E2;
        (split; [cbn [encode]; rewrite E1; reflexivity|exact E2]).
  - rewrite andb_true_r. pose proof (plain_roundtrip c g s v Hr Hv) as Hp.
    destruct s; try (destruct Hp as (raw & E1 & E2); exists (Some raw); split; [destruct op; try (cbn in Et; discriminate); cbn [encode]; rewrite E1; reflexivity|exact E2]).
    (* "yes" or remove *)
    destruct op; try discriminate. destruct g; cbn [rt_law] in Hr; try discriminate;
      try (exfalso; clear - Hr; try destruct sp; try destruct trimmed; try destruct ab; discriminate).
    destruct v as [| | |b| | |]; try discriminate.
    destruct b; [exists (Some l_yes)|exists None]; split; reflexivity.
Qed.

(* ================================================================== 4. a setter, then its getter *)
(* ---- list laws ---- *)
Lemma count_key_app k a b : count_key k (a ++ b) = count_key k a + count_key k b.
Proof. unfold count_key. rewrite filter_app, app_length. reflexivity. Qed.
Lemma count_key_none k p : l_get p k = None <-> count_key k p = 0.
Proof.
  unfold count_key. induction p as [|[n v] r IH]; [split; reflexivity|]. cbn [l_get filter fst].
  destruct (str_eqb n k); [split; discriminate|exact IH].
Qed.

Lemma l_remove_app p q k : l_remove (p ++ q) k = l_remove p k ++ l_remove q k.
Proof. unfold l_remove. apply filter_app. Qed.
Lemma l_remove_cons_same k v r : l_remove ((k, v) :: r) k = l_remove r k.
Proof. unfold l_remove. cbn [filter fst]. rewrite str_eqb_refl. reflexivity. Qed.

Theorem l_set_others p k v : l_remove (l_set p k v) k = l_remove p k.
Proof.
  destruct (l_set_spec p k v) as [(a & x & b & E1 & E2 & E3)|[E1 E2]].
  - rewrite E3, E1, !l_remove_app, !l_remove_cons_same. reflexivity.
  - rewrite E2, l_remove_app. unfold l_remove at 2. cbn [filter fst]. rewrite str_eqb_refl. cbn [negb]. apply app_nil_r.
Qed.
Lemma count_key_cons_same k v r : count_key k ((k, v) :: r) = S (count_key k r).
Proof. unfold count_key. cbn [filter fst]. rewrite str_eqb_refl. reflexivity. Qed.
Theorem l_set_count p k v : count_key k (l_set p k v) = Nat.max 1 (count_key k p).
Proof.
  destruct (l_set_spec p k v) as [(a & x & b & E1 & E2 & E3)|[E1 E2]].
  - rewrite E3, E1, !count_key_app, !count_key_cons_same. apply count_key_none in E2. rewrite E2. reflexivity.
  - rewrite E2, count_key_app, count_key_cons_same. apply count_key_none in E1. rewrite E1. reflexivity.
Qed.
Theorem l_remove_count p k : count_key k (l_remove p k) = 0.
Proof. apply count_key_none. apply l_remove_spec. Qed.
Theorem l_remove_idem p k : l_remove (l_remove p k) k = l_remove p k.
Proof.
  unfold l_remove. induction p as [|[n v] r IH]; [reflexivity|]. cbn [filter fst].
  destruct (str_eqb n k) eqn:E; cbn [negb]; [exact IH|]. cbn [filter fst]. rewrite E. cbn [negb]. rewrite IH. reflexivity.
Qed.
Lemma l_get_remove_other p k k' : str_eqb k' k = false -> l_get (l_remove p k) k' = l_get p k'.
Proof. intros H. apply l_remove_spec. exact H. Qed.

(* the getter of a plain row only looks at its field *)
Lemma getter_LI_field c g arg p f : row_field g arg = Some f ->
  match r_op g with OGet | OGetParam => true | _ => false end = true ->
  getter c LI g arg p = decode c (r_codec g) (l_get p f).
Proof.
  unfold row_field, getter. destruct (r_op g); try discriminate; destruct (r_fields g) as [|f1 [|f2 fs]]; try discriminate;
    intros E _; inversion E; subst; reflexivity.
Qed.
Lemma setter_LI_field c s arg v p f : row_field s arg = Some f ->
  match r_op s with OSet | OSetOrRemove | OSetParam => true | _ => false end = true ->
  setter c LI s arg v p = match encode (r_op s) (r_codec s) v with
                          | Some (Some raw) => Ok (l_set p f raw)
                          | Some None => match r_op s with OSetParam => Err 9%N | _ => Ok (l_remove p f) end
                          | None => Err 9%N
                          end.
Proof.
  unfold row_field, setter. destruct (r_op s); try discriminate; destruct (r_fields s) as [|f1 [|f2 fs]]; try discriminate;
    intros E _; inversion E; subst; cbn [p_set p_remove LI]; destruct (encode _ (r_codec s) v) as [[raw|]|]; reflexivity.
Qed.

Lemma pair_ok_inv g s arg : pair_ok g s arg = true ->
  exists f, row_field g arg = Some f /\ row_field s arg = Some f /\
    match r_op g with OGet | OGetParam => true | _ => false end = true /\
    match r_op s with OSet | OSetOrRemove | OSetParam => true | _ => false end = true /\
    rt_law (r_codec g) (r_codec s) = true /\ op_ok (r_codec g) (r_op s) (r_codec s) = true.
Proof.
  unfold pair_ok. destruct (row_field g arg) as [f|]; [|discriminate]. destruct (row_field s arg) as [f'|]; [|discriminate].
  intros H. repeat (apply andb_true_iff in H; destruct H as [H ?]). apply str_eqb_eq in H. subst f'.
  exists f. repeat split; assumption.
Qed.

(* removing is only ever asked of set-or-remove rows *)
Lemma encode_none_op op cd v : encode op cd v = Some None -> op = OSetOrRemove.
Proof.
  destruct op; try reflexivity; cbn [encode]; destruct (enc cd v); discriminate.
Qed.

(* THE PAIR THEOREM on the list model *)
Theorem pair_list c g s arg v p :
  pair_ok g s arg = true -> valid_value c (r_codec g) (r_op s) (r_codec s) v = true ->
  exists f p' raw, row_field g arg = Some f /\ row_field s arg = Some f /\
    encode (r_op s) (r_codec s) v = Some raw /\
    setter c LI s arg v p = Ok p' /\
    p' = match raw with Some t => l_set p f t | None => l_remove p f end /\
    getter c LI g arg p' = Ok (expect (r_codec g) (r_op s) (r_codec s) v) /\
    l_remove p' f = l_remove p f /\
    count_key f p' = match raw with Some _ => Nat.max 1 (count_key f p) | None => 0 end.
Proof.
  intros Hp Hv. destruct (pair_ok_inv g s arg Hp) as (f & Fg & Fs & Og & Os & Hr & Ho).
  destruct (codec_roundtrip c _ _ _ v Hr Ho Hv) as (raw & E1 & E2).
  exists f, (match raw with Some t => l_set p f t | None => l_remove p f end), raw.
  split; [exact Fg|]. split; [exact Fs|]. split; [exact E1|]. split.
  - rewrite (setter_LI_field c s arg v p f Fs Os), E1. destruct raw; [reflexivity|].
    rewrite (encode_none_op _ _ _ E1). reflexivity.
  - split; [reflexivity|]. split.
    + rewrite (getter_LI_field c g arg _ f Fg Og). destruct raw as [t|].
      * rewrite l_get_set_same. exact E2.
      * rewrite (proj1 (l_remove_spec p f)). exact E2.
    + destruct raw as [t|]; split; [apply l_set_others|apply l_set_count|apply l_remove_idem|apply l_remove_count].
Qed.

(* ... and on the paragraph tree: every child of the PARAGRAPH node other than the field's own
   entry is untouched (comments, other entries), or the entry is appended after the last line was
   terminated *)
Theorem pair_tree c g s arg v cs :
  pair_ok g s arg = true -> valid_value c (r_codec g) (r_op s) (r_codec s) v = true ->
  exists f cs' raw, row_field s arg = Some f /\ encode (r_op s) (r_codec s) v = Some raw /\
    setter c TI s arg v cs = Ok cs' /\
    getter c TI g arg cs' = Ok (expect (r_codec g) (r_op s) (r_codec s) v) /\
    pitems cs' = match raw with Some t => l_set (pitems cs) f t | None => l_remove (pitems cs) f end /\
    l_remove (pitems cs') f = l_remove (pitems cs) f /\
    count_key f (pitems cs') = match raw with Some _ => Nat.max 1 (count_key f (pitems cs)) | None => 0 end /\
    match raw with
    | Some t => (exists X e Y, cs = X ++ e :: Y /\ entry_has_key f e = true /\ cs' = X ++ entry_new f t :: Y) \/
                cs' = ensure_nl_list cs ++ [entry_new f t]
    | None => cs' = filter (fun e => negb (entry_has_key f e)) cs
    end.
Proof.
  intros Hp Hv. destruct (pair_list c g s arg v (pitems cs) Hp Hv) as (f & p' & raw & Fg & Fs & E1 & E2 & E3 & E4 & E5 & E6).
  destruct (pair_ok_inv g s arg Hp) as (f0 & Fg0 & Fs0 & Og & Os & Hr & Ho). rewrite Fs in Fs0. inversion Fs0; subst f0. clear Fs0 Fg0.
  pose proof (setter_refines TI pitems TI_refines c s arg v cs) as Rs. rewrite E2 in Rs.
  destruct (setter c TI s arg v cs) as [cs'| | |] eqn:Es; try discriminate. cbn [rmap bind] in Rs. inversion Rs as [Rp].
  exists f, cs', raw. split; [exact Fs|]. split; [exact E1|]. split; [reflexivity|]. split.
  - rewrite (getter_refines TI pitems TI_refines). rewrite Rp. exact E4.
  - rewrite Rp. split; [exact E3|]. split; [exact E5|]. split; [exact E6|].
    (* the tree itself *)
    clear - Es Fs Os E1. unfold setter, row_field in *.
    destruct (r_op s); try discriminate; destruct (r_fields s) as [|f1 [|f2 fs]]; try discriminate; inversion Fs; subst;
      rewrite E1 in Es; destruct raw as [t|]; inversion Es; subst; cbn [p_set p_remove TI];
      try apply para_set_frame; try reflexivity.
Qed.

(* clearing: after a setter that removes, the field is gone and nothing else changed *)
Theorem clear_tree c g s arg v cs :
  pair_ok g s arg = true -> valid_value c (r_codec g) (r_op s) (r_codec s) v = true ->
  encode (r_op s) (r_codec s) v = Some None ->
  exists f, row_field s arg = Some f /\
    setter c TI s arg v cs = Ok (para_remove cs f) /\
    Deb822Parse.get (Node PARAGRAPH (para_remove cs f)) f = None /\
    pitems (para_remove cs f) = l_remove (pitems cs) f /\
    getter c TI g arg (para_remove cs f) = Ok (expect (r_codec g) (r_op s) (r_codec s) v).
Proof.
  intros Hp Hv He. destruct (pair_tree c g s arg v cs Hp Hv) as (f & cs' & raw & Fs & E1 & E2 & E3 & E4 & _ & _ & E7).
  rewrite He in E1. inversion E1; subst raw. exists f. split; [exact Fs|].
  assert (cs' = para_remove cs f) by exact E7. subst cs'. unfold para_remove in *. split; [exact E2|]. split.
  - rewrite tree_get_l_get, E4. apply l_remove_spec.
  - split; [exact E4|exact E3].
Qed.

(* ---- sequences of setters ---- *)
Definition op_field (o : row * str * value) : option str := row_field (fst (fst o)) (snd (fst o)).
Definition op_plain (o : row * str * value) : bool :=
  match r_op (fst (fst o)) with OSet | OSetOrRemove | OSetParam => true | _ => false end.
Definition written (ops : list (row * str * value)) : list str :=
  flat_map (fun o => match op_field o with Some f => [f] | None => [] end) ops.

Lemma mem_str_true x l : mem_str x l = true <-> In x l.
Proof.
  unfold mem_str. rewrite existsb_exists. split.
  - intros (y & Hy & E). apply str_eqb_eq in E. subst. exact Hy.
  - intros H. exists x. split; [exact H|apply str_eqb_refl].
Qed.

Lemma strip_l_set ks p k v : In k ks -> strip ks (l_set p k v) = strip ks p.
Proof.
  intros Hk. apply mem_str_true in Hk. unfold strip.
  destruct (l_set_spec p k v) as [(a & x & b & E1 & E2 & E3)|[E1 E2]].
  - rewrite E3, E1, !filter_app. cbn [filter fst]. rewrite Hk. reflexivity.
  - rewrite E2, filter_app. cbn [filter fst]. rewrite Hk. cbn [negb]. apply app_nil_r.
Qed.
Lemma strip_l_remove ks p k : In k ks -> strip ks (l_remove p k) = strip ks p.
Proof.
  intros Hk. apply mem_str_true in Hk. unfold strip, l_remove. induction p as [|[n v] r IH]; [reflexivity|].
  cbn [filter fst]. destruct (str_eqb n k) eqn:E; cbn [negb].
  - apply str_eqb_eq in E. subst n. rewrite Hk. cbn [negb]. exact IH.
  - cbn [filter fst]. rewrite IH. reflexivity.
Qed.

Lemma strip_cons f ks q : strip (f :: ks) q = l_remove (strip ks q) f.
Proof.
  unfold strip, l_remove. induction q as [|[n x] q IH]; [reflexivity|]. cbn [filter fst].
  change (mem_str n (f :: ks)) with (str_eqb n f || mem_str n ks).
  destruct (str_eqb n f) eqn:E1, (mem_str n ks) eqn:E2; cbn [orb negb filter fst]; rewrite ?E1; cbn [negb]; rewrite ?IH; reflexivity.
Qed.

(* one plain setter: what it does to the list *)
Lemma setter_plain_step c s arg v p p' f : row_field s arg = Some f ->
  match r_op s with OSet | OSetOrRemove | OSetParam => true | _ => false end = true ->
  setter c LI s arg v p = Ok p' ->
  (forall ks, In f ks -> strip ks p' = strip ks p) /\
  (forall k, str_eqb f k = false -> l_get p' k = l_get p k).
Proof.
  intros Fs Os E. rewrite (setter_LI_field c s arg v p f Fs Os) in E.
  destruct (encode (r_op s) (r_codec s) v) as [[raw|]|]; try discriminate.
  - inversion E; subst. split; [intros ks Hk; apply strip_l_set; exact Hk|intros k Hk; apply l_get_set_other; exact Hk].
  - destruct (r_op s); try discriminate; inversion E; subst;
      (split; [intros ks Hk; apply strip_l_remove; exact Hk|intros k Hk; apply l_get_remove_other; rewrite str_eqb_sym; exact Hk]).
Qed.

(* fields that no setter of the sequence names keep name, value and order; a field's value is
   decided by the last setter naming it *)
Theorem run_setters_frame c ops : forall p p',
  forallb op_plain ops = true -> Forall (fun o => op_field o <> None) ops ->
  run_setters c LI ops p = Ok p' ->
  strip (written ops) p' = strip (written ops) p /\
  (forall k, ~ In k (written ops) -> l_get p' k = l_get p k).
Proof.
  induction ops as [|[[s arg] v] r IH]; intros p p' Hpl Hf E.
  - cbn in E. inversion E. split; reflexivity.
  - cbn [run_setters] in E. destruct (setter c LI s arg v p) as [p1| | |] eqn:Es; try discriminate.
    cbn [forallb] in Hpl. apply andb_true_iff in Hpl. destruct Hpl as [Hs Hr]. inversion Hf as [|o l Ho Hl]; subst.
    unfold op_field in Ho. cbn [fst snd] in Ho. destruct (row_field s arg) as [f|] eqn:Fs; [|congruence].
    destruct (setter_plain_step c s arg v p p1 f Fs Hs Es) as [S1 S2].
    destruct (IH p1 p' Hr Hl E) as [I1 I2].
    assert (W : written ((s, arg, v) :: r) = f :: written r) by (unfold written; cbn [flat_map]; unfold op_field; cbn [fst snd]; rewrite Fs; reflexivity).
    rewrite W. split.
    + (* strip (f :: ks) = strip ks after removing f: go through the definitions *)
      assert (G : forall q, strip (f :: written r) q = l_remove (strip (written r) q) f) by (intros q; apply strip_cons).
      rewrite !G, I1. rewrite <- !G. apply S1. left. reflexivity.
    + intros k Hk. rewrite I2 by (intro X; apply Hk; right; exact X). apply S2.
      destruct (str_eqb f k) eqn:E1; [|reflexivity]. apply str_eqb_eq in E1. subst. exfalso. apply Hk. left. reflexivity.
Qed.

(* the sequence theorem: all setters valid pairs; then every getter whose field is not written
   again later returns the value of that setter *)
Theorem run_setters_last c a g s arg v b p :
  pair_ok g s arg = true -> valid_value c (r_codec g) (r_op s) (r_codec s) v = true ->
  forallb op_plain b = true -> Forall (fun o => op_field o <> None) b ->
  (forall f, row_field s arg = Some f -> ~ In f (written b)) ->
  forall p1 p', run_setters c LI a p = Ok p1 -> run_setters c LI ((s, arg, v) :: b) p1 = Ok p' ->
  getter c LI g arg p' = Ok (expect (r_codec g) (r_op s) (r_codec s) v).
Proof.
  intros Hp Hv Hb Hf Hn p1 p' _ E. cbn [run_setters] in E.
  destruct (pair_list c g s arg v p1 Hp Hv) as (f & p2 & raw & Fg & Fs & _ & E2 & _ & E4 & _).
  rewrite E2 in E. destruct (run_setters_frame c b p2 p' Hb Hf E) as [_ I2].
  destruct (pair_ok_inv g s arg Hp) as (f0 & Fg0 & _ & Og & _).
  rewrite (getter_LI_field c g arg p' f Fg Og), (I2 f (Hn f Fs)), <- (getter_LI_field c g arg p2 f Fg Og). exact E4.
Qed.

(* ================================================================== 5. getter readings of rendered raw values *)
Lemma all_ws_no_char c a : is_ws c = false -> all_ws a = true -> no_char c a = true.
Proof.
  intros Hc H. unfold all_ws, no_char in *. rewrite forallb_forall in *. intros x Hx. specialize (H x Hx).
  apply negb_true_iff. apply N.eqb_neq. intro E. subst. congruence.
Qed.

(* comma-separated: blanks (spaces, tabs, the line breaks of a folded field) around every item *)
Definition comma_item_ok (x : str * str * str) : bool :=
  let '(a, it, b) := x in all_ws a && all_ws b && no_char 44%N it && trimmed_str it.
Theorem reading_comma c l : nonempty l = true -> forallb comma_item_ok l = true ->
  decode c (CSplit SpComma true ANone) (Some (render_comma l)) = Ok (VSome (VList (map (fun x => snd (fst x)) l))).
Proof.
  intros Hne H. cbn [decode]. do 2 f_equal. f_equal. unfold pieces, render_comma.
  rewrite split_on_join.
  - rewrite map_map. apply map_ext_in. intros [[a it] b] Hx. rewrite forallb_forall in H. specialize (H _ Hx).
    cbn [comma_item_ok] in H. repeat (apply andb_true_iff in H; destruct H as [H ?]). cbn [fst snd]. apply trim_pad; assumption.
  - destruct l; [discriminate|discriminate].
  - rewrite forallb_map'. rewrite forallb_forall in *. intros [[a it] b] Hx. specialize (H _ Hx).
    cbn [comma_item_ok] in H. repeat (apply andb_true_iff in H; destruct H as [H ?]).
    unfold no_char in *. rewrite !forallb_app. fold (no_char 44%N a). fold (no_char 44%N b).
    rewrite (all_ws_no_char 44%N a eq_refl H), (all_ws_no_char 44%N b eq_refl H2). rewrite H1. reflexivity.
Qed.

(* whitespace-separated (spaces, tabs, line breaks), leading and trailing blanks allowed *)
Theorem reading_ws c tr ab lead l : all_ws lead = true -> seps_ok l = true ->
  decode c (CSplit SpWs tr ab) (Some (render_ws lead l)) =
  Ok (match ab with ANone => VSome (VList (map fst l)) | _ => VList (map fst l) end).
Proof.
  intros Hl H. cbn [decode]. unfold pieces. rewrite (split_whitespace_render lead l Hl H).
  assert (W : forallb word (map fst l) = true).
  { clear Hl. induction l as [|[w sp] r IH]; [reflexivity|]. destruct r as [|[w2 sp2] r'].
    - cbn [seps_ok] in H. apply andb_true_iff in H. cbn. rewrite (proj1 H). reflexivity.
    - cbn [seps_ok] in H. apply andb_true_iff in H. destruct H as [H Hr]. apply andb_true_iff in H. destruct H as [H _].
      apply andb_true_iff in H. destruct H as [Hw _]. cbn [map fst forallb]. rewrite Hw. apply IH. exact Hr. }
  destruct tr; [rewrite (map_trim_words _ W)|]; destruct ab; reflexivity.
Qed.

(* one item per line *)
Theorem reading_lines c ab l : nonempty l = true -> forallb (no_char LFc) l = true ->
  decode c (CSplit SpLf false ab) (Some (join [LFc] l)) = Ok (match ab with ANone => VSome (VList l) | _ => VList l end).
Proof.
  intros Hne H. cbn [decode]. unfold pieces. rewrite split_on_join; [destruct ab; reflexivity|destruct l; [discriminate|discriminate]|exact H].
Qed.

(* flags *)
Theorem reading_flag_yes c raw : decode c CFlagYes raw = Ok (VBool (match raw with Some s => str_eqb s l_yes | None => false end)).
Proof. reflexivity. Qed.
Theorem reading_yes_no_lower c s : (to_lower s = l_yes \/ to_lower s = l_no) ->
  decode c CYesNoLower (Some s) = Ok (VSome (VBool (str_eqb (to_lower s) l_yes))).
Proof. intros [E|E]; cbn [decode]; rewrite E; reflexivity. Qed.

(* checksum records: hash, size, file name separated by blanks; anything after the file name is ignored *)
Definition blank (s : str) : bool := forallb is_indent s.
Lemma blank_all_ws s : blank s = true -> all_ws s = true.
Proof.
  unfold blank, all_ws. intros H. rewrite forallb_forall in *. intros c Hc. specialize (H c Hc).
  unfold is_indent in H. apply orb_true_iff in H. destruct H as [H|H]; apply N.eqb_eq in H; subst; reflexivity.
Qed.
Lemma blank_no_eol s : blank s = true -> no_eol s = true.
Proof.
  unfold blank, no_eol. intros H. rewrite forallb_forall in *. intros c Hc. specialize (H c Hc).
  unfold is_indent in H. apply orb_true_iff in H. destruct H as [H|H]; apply N.eqb_eq in H; subst; reflexivity.
Qed.
Definition triple_ok (x : str * str * str * str * str * str * str) : bool :=
  let '(w0, h, w1, ds, w2, f, tl) := x in
  blank w0 && word h && blank w1 && nonempty w1 && nonempty ds && forallb is_dig ds && (dec_value 0 ds <=? usize_max)%N &&
  blank w2 && nonempty w2 && word f && no_eol tl && match tl with [] => true | t :: _ => is_indent t end.
Definition triple_val (x : str * str * str * str * str * str * str) : list atom :=
  let '(w0, h, w1, ds, w2, f, tl) := x in [AS h; AN (dec_value 0 ds); AS f].

Lemma nonempty_neq {A} (l : list A) : nonempty l = true -> l <> [].
Proof. destruct l; [discriminate|discriminate]. Qed.

Lemma triple_ok_inv w0 h w1 ds w2 f tl : triple_ok (w0, h, w1, ds, w2, f, tl) = true ->
  blank w0 = true /\ word h = true /\ blank w1 = true /\ w1 <> [] /\ ds <> [] /\ forallb is_dig ds = true /\
  (dec_value 0 ds <=? usize_max)%N = true /\ blank w2 = true /\ w2 <> [] /\ word f = true /\ no_eol tl = true /\
  match tl with [] => true | t :: _ => is_indent t end = true.
Proof.
  cbn [triple_ok]. intros H.
  apply andb_true_iff in H. destruct H as [H H12]. apply andb_true_iff in H. destruct H as [H H11].
  apply andb_true_iff in H. destruct H as [H H10]. apply andb_true_iff in H. destruct H as [H H9].
  apply andb_true_iff in H. destruct H as [H H8]. apply andb_true_iff in H. destruct H as [H H7].
  apply andb_true_iff in H. destruct H as [H H6]. apply andb_true_iff in H. destruct H as [H H5].
  apply andb_true_iff in H. destruct H as [H H4]. apply andb_true_iff in H. destruct H as [H H3].
  apply andb_true_iff in H. destruct H as [H1 H2].
  repeat split; try assumption; apply nonempty_neq; assumption.
Qed.

Lemma parse_triple_line c x : triple_ok x = true ->
  parse_rec c RTriple (render_triple x) = Some (triple_val x) /\ no_eol (render_triple x) = true /\ render_triple x <> [].
Proof.
  destruct x as [[[[[[w0 h] w1] ds] w2] f] tl]. intros H.
  destruct (triple_ok_inv _ _ _ _ _ _ _ H) as (B0 & Wh & B1 & N1 & Nd & Dd & Md & B2 & N2 & Wf & Et & Ht).
  cbn [triple_val render_triple].
  assert (Wd : word ds = true) by (apply digits_word; assumption).
  split; [|split].
  - unfold parse_rec. rewrite split_whitespace_lead by (apply blank_all_ws; exact B0).
    rewrite (split_whitespace_word_sep h w1 _ Wh (blank_all_ws _ B1) N1).
    rewrite (split_whitespace_word_sep ds w2 _ Wd (blank_all_ws _ B2) N2).
    assert (Ef : exists rest, Copyright.split_whitespace (f ++ tl) = f :: rest).
    { destruct tl as [|t tl']; [rewrite app_nil_r; exists []; apply split_whitespace_one; exact Wf|].
      exists (Copyright.split_whitespace tl'). change (f ++ t :: tl') with (f ++ [t] ++ tl').
      apply split_whitespace_word_sep; [exact Wf| |discriminate].
      cbn [all_ws forallb]. rewrite andb_true_r. unfold is_indent in Ht. apply orb_true_iff in Ht. destruct Ht as [E|E]; apply N.eqb_eq in E; subst; reflexivity. }
    destruct Ef as (rest & Ef). rewrite Ef. rewrite (parse_usize_digits ds Nd Dd Md). reflexivity.
  - rewrite !no_eol_app. rewrite (blank_no_eol w0 B0), (word_no_eol' h Wh), (blank_no_eol w1 B1), (blank_no_eol w2 B2),
      (word_no_eol' f Wf), (word_no_eol' ds Wd), Et. reflexivity.
  - intro E. apply app_eq_nil in E. destruct E as [_ E]. apply app_eq_nil in E. destruct E as [E _]. exact (word_nonempty h Wh E).
Qed.

Theorem reading_triples c dflt xs : forallb triple_ok xs = true ->
  decode c (CLines RTriple dflt) (Some (join [LFc] (map render_triple xs))) =
  Ok (if dflt then VRecs (map triple_val xs) else VSome (VRecs (map triple_val xs))).
Proof.
  intros H. cbn [decode]. change [LFc] with [Grammar.LF].
  assert (A : forall x, In x xs -> parse_rec c RTriple (render_triple x) = Some (triple_val x) /\
                                   no_eol (render_triple x) = true /\ render_triple x <> [])
    by (rewrite forallb_forall in H; intros x Hx; apply parse_triple_line, H, Hx).
  unfold join. rewrite lines_join.
  - assert (E : mapM_opt (parse_rec c RTriple) (map render_triple xs) = Some (map triple_val xs)).
    { clear H. induction xs as [|x r IH]; [reflexivity|]. cbn [map mapM_opt].
      rewrite (proj1 (A x (or_introl eq_refl))). rewrite IH by (intros y Hy; apply A; right; exact Hy). reflexivity. }
    rewrite E. destruct dflt; reflexivity.
  - rewrite forallb_map'. rewrite forallb_forall. intros x Hx. apply A, Hx.
  - apply (last_Forall (fun y => y <> [])); [discriminate|]. rewrite Forall_forall. intros y Hy.
    apply in_map_iff in Hy. destruct Hy as (x & <- & Hx). apply A, Hx.
Qed.

(* the short description of a DEP-3 header: the first line; the long description: the rest *)
Theorem reading_first_line c first rest : no_char LFc first = true ->
  decode c CFirstLine (Some (join [LFc] (first :: rest))) = Ok (VSome (VStr first)) /\
  decode c CRestLines (Some (join [LFc] (first :: rest))) = Ok (VSome (VStr (join [LFc] rest))).
Proof.
  intros H. cbn [decode]. destruct rest as [|r1 rest'].
  - cbn [join Deb822Parse.join]. rewrite (split_on_single LFc first H), (split_once_on_none LFc first H). split; reflexivity.
  - unfold join. rewrite join_cons2 by discriminate. cbn [app].
    rewrite (split_once_on_first LFc first _ H). rewrite split_on_app_nochar by exact H. cbn [split_on].
    rewrite N.eqb_refl. rewrite app_nil_r. split; reflexivity.
Qed.

(* ---- from the text of a document to the value a getter sees ---- *)
Lemma paragraph_children_items P : is_paragraph P = true -> pitems (children P) = items P.
Proof. intros H. symmetry. apply is_paragraph_items. exact H. Qed.

Theorem reading_text (d : list block) : wf_doc d = true ->
  from_str (render d) = Ok (tree_of d) /\
  forall n P, nth_error (paragraphs (tree_of d)) n = Some P ->
    nth_error (content d) n = Some (items P) /\
    forall c g arg, getter c TI g arg (children P) = getter c LI g arg (items P).
Proof.
  intros Hwf. destruct (C03_accept_all d Hwf) as (E1 & _ & E3). split; [exact E1|].
  intros n P Hn. split.
  - rewrite <- E3. unfold doc_items. rewrite nth_error_map, Hn. reflexivity.
  - intros c g arg. rewrite (getter_refines TI pitems TI_refines). rewrite paragraph_children_items; [reflexivity|].
    apply nth_error_In in Hn. unfold paragraphs, node_children_of_kind in Hn. apply filter_In in Hn. apply Hn.
Qed.

(* ================================================================== 6. hand-modelled functions *)
(* ---- DEP-3: description / long_description (Description, else Subject) ---- *)
Definition desc_raw (p : list (str * str)) : option str :=
  match l_get p k_Description with Some v => Some v | None => l_get p k_Subject end.
Definition both_desc (p : list (str * str)) : bool :=
  match l_get p k_Description, l_get p k_Subject with Some _, Some _ => true | _, _ => false end.

Lemma desc_neq : str_eqb k_Description k_Subject = false /\ str_eqb k_Subject k_Description = false.
Proof. split; reflexivity. Qed.

Lemma first_rest_replace old d : no_char LFc d = true ->
  first_line_of (replace_first_line old d) = d /\
  rest_after_first_line (replace_first_line old d) = match old with Some o => rest_after_first_line o | None => None end.
Proof.
  intros Hd. unfold replace_first_line, first_line_of, rest_after_first_line. destruct old as [o|].
  - destruct (split_once_on LFc o) as [[a r]|].
    + change (d ++ l_lf ++ r) with (d ++ LFc :: r). rewrite (split_once_on_first LFc d r Hd). split; reflexivity.
    + rewrite (split_once_on_none LFc d Hd). split; reflexivity.
  - rewrite (split_once_on_none LFc d Hd). split; reflexivity.
Qed.

Lemma decode_first_line c s : decode c CFirstLine (Some s) = Ok (VSome (VStr (first_line_of s))).
Proof.
  cbn [decode]. do 3 f_equal. unfold first_line_of. pose proof (split_once_on_spec LFc s) as H.
  destruct (split_once_on LFc s) as [[a b]|].
  - destruct H as [-> Ha]. rewrite split_on_app_nochar by exact Ha. cbn [split_on]. rewrite N.eqb_refl, app_nil_r. reflexivity.
  - rewrite (split_on_single LFc s H). reflexivity.
Qed.
Lemma decode_rest_lines c s : decode c CRestLines (Some s) =
  Ok (VSome (VStr (match rest_after_first_line s with Some r => r | None => [] end))).
Proof. cbn [decode]. unfold rest_after_first_line. destruct (split_once_on LFc s) as [[a b]|]; reflexivity. Qed.

(* set_description, then description / long_description *)
Theorem dep3_set_description_spec c p d : no_char LFc d = true -> both_desc p = false ->
  let p' := dep3_set_description LI p d in
  decode c CFirstLine (desc_raw p') = Ok (VSome (VStr d)) /\
  decode c CRestLines (desc_raw p') =
    Ok (VSome (VStr (match desc_raw p with Some o => match rest_after_first_line o with Some r => r | None => [] end | None => [] end))) /\
  strip [k_Description; k_Subject] p' = strip [k_Description; k_Subject] p /\
  both_desc p' = false.
Proof.
  intros Hd Hb p'. unfold p', dep3_set_description, desc_raw, both_desc in *. cbn [p_get p_set LI].
  destruct desc_neq as [N1 N2].
  destruct (l_get p k_Subject) as [s|] eqn:Es.
  - destruct (l_get p k_Description) as [x|] eqn:Ed; [discriminate|].
    rewrite (l_get_set_other p k_Subject _ k_Description N2), Ed, l_get_set_same.
    destruct (first_rest_replace (Some s) d Hd) as [F1 F2].
    rewrite decode_first_line, decode_rest_lines, F1, F2. repeat split.
    apply strip_l_set. right. left. reflexivity.
  - rewrite l_get_set_same, (l_get_set_other p k_Description _ k_Subject N1), Es.
    destruct (first_rest_replace (l_get p k_Description) d Hd) as [F1 F2].
    rewrite decode_first_line, decode_rest_lines, F1, F2. repeat split.
    + destruct (l_get p k_Description); reflexivity.
    + apply strip_l_set. left. reflexivity.
Qed.

(* set_long_description on a header that has a description *)
Theorem dep3_set_long_description_spec c p l old : desc_raw p = Some old -> both_desc p = false ->
  let p' := dep3_set_long_description LI false p l in
  decode c CRestLines (desc_raw p') = Ok (VSome (VStr l)) /\
  decode c CFirstLine (desc_raw p') = decode c CFirstLine (desc_raw p) /\
  strip [k_Description; k_Subject] p' = strip [k_Description; k_Subject] p.
Proof.
  intros Ho Hb p'. unfold p', dep3_set_long_description, desc_raw, both_desc in *. cbn [p_get p_set LI].
  destruct desc_neq as [N1 N2].
  assert (G : forall o, first_line_of (first_line_of o ++ l_lf ++ l) = first_line_of o /\
                        rest_after_first_line (first_line_of o ++ l_lf ++ l) = Some l).
  { intros o. assert (Hn : no_char LFc (first_line_of o) = true).
    { unfold first_line_of. pose proof (split_once_on_spec LFc o) as H. destruct (split_once_on LFc o) as [[a b]|]; [apply H|exact H]. }
    unfold first_line_of at 1, rest_after_first_line. change (first_line_of o ++ l_lf ++ l) with (first_line_of o ++ LFc :: l).
    rewrite (split_once_on_first LFc _ l Hn). split; reflexivity. }
  destruct (l_get p k_Subject) as [s|] eqn:Es.
  - destruct (l_get p k_Description) as [x|] eqn:Ed; [discriminate|]. inversion Ho; subst old.
    rewrite (l_get_set_other p k_Subject _ k_Description N2), Ed, l_get_set_same.
    destruct (G s) as [G1 G2]. rewrite !decode_first_line, decode_rest_lines, G1, G2. repeat split.
    apply strip_l_set. right. left. reflexivity.
  - destruct (l_get p k_Description) as [x|] eqn:Ed; [|discriminate]. inversion Ho; subst old.
    rewrite l_get_set_same. destruct (G x) as [G1 G2]. rewrite !decode_first_line, decode_rest_lines, G1, G2. repeat split.
    apply strip_l_set. left. reflexivity.
Qed.

(* the hypothesis "not both fields" is needed: the setters prefer Subject, the getters Description *)
Lemma dep3_description_both_needed :
  let p := [(k_Description, [100%N]); (k_Subject, [115%N])] in
  decode (mk_ctx id_xparse []) CFirstLine (desc_raw (dep3_set_description LI p [110%N])) = Ok (VSome (VStr [100%N])).
Proof. vm_compute. reflexivity. Qed.

(* ---- DEP-3: author (Author, else From) ---- *)
Definition author_raw (p : list (str * str)) : option str :=
  match l_get p k_Author with Some v => Some v | None => l_get p k_From end.
Theorem dep3_set_author_spec p a :
  (l_get p k_Author = None \/ l_get p k_From = None) ->
  let p' := dep3_set_author LI false p a in
  author_raw p' = Some a /\ strip [k_Author; k_From] p' = strip [k_Author; k_From] p /\
  count_key k_Author p' + count_key k_From p' = Nat.max 1 (count_key k_Author p + count_key k_From p).
Proof.
  intros H p'. unfold p', dep3_set_author, author_raw, p_contains. cbn [p_get p_set LI].
  assert (N1 : str_eqb k_Author k_From = false) by reflexivity. assert (N2 : str_eqb k_From k_Author = false) by reflexivity.
  destruct (l_get p k_From) as [f|] eqn:Ef.
  - destruct H as [H|H]; [|discriminate]. rewrite (l_get_set_other p k_From a k_Author N2), H, l_get_set_same.
    split; [reflexivity|]. split; [apply strip_l_set; right; left; reflexivity|].
    rewrite l_set_count. assert (C : count_key k_Author (l_set p k_From a) = count_key k_Author p).
    { apply count_key_none in H. rewrite H. apply count_key_none. rewrite (l_get_set_other p k_From a k_Author N2). apply count_key_none. exact H. }
    rewrite C. apply count_key_none in H. rewrite H. reflexivity.
  - rewrite l_get_set_same. split; [reflexivity|]. split; [apply strip_l_set; left; reflexivity|].
    rewrite l_set_count. assert (C : count_key k_From (l_set p k_Author a) = 0).
    { apply count_key_none. rewrite (l_get_set_other p k_Author a k_From N1). exact Ef. }
    rewrite C. apply count_key_none in Ef. rewrite Ef, !Nat.add_0_r. reflexivity.
Qed.

(* ---- DEP-3: vendor bugs ---- *)
Lemma strip_prefix_eq pre s v : (match strip_prefix pre s with Some x => str_eqb x v | None => false end) = str_eqb s (pre ++ v).
Proof.
  revert s. induction pre as [|c pre IH]; intros s; [reflexivity|]. destruct s as [|x s']; [reflexivity|].
  cbn [strip_prefix app]. change (str_eqb (x :: s') (c :: pre ++ v)) with ((x =? c)%N && str_eqb s' (pre ++ v)).
  destruct (x =? c)%N; [apply IH|reflexivity].
Qed.
Theorem dep3_vendor_bugs_get_all p vendor :
  dep3_vendor_bugs LI p vendor = VList (p_get_all LI p (k_Bug_dash ++ vendor)).
Proof.
  unfold dep3_vendor_bugs, p_get_all. cbn [p_items LI]. f_equal. induction p as [|[n x] r IH]; [reflexivity|].
  cbn [flat_map fst snd]. rewrite IH. f_equal. rewrite <- (strip_prefix_eq k_Bug_dash n vendor).
  destruct (strip_prefix k_Bug_dash n) as [s|]; [destruct (str_eqb s vendor)|]; reflexivity.
Qed.
Lemma get_all_l_set_single p k v : count_key k p <= 1 -> p_get_all LI (l_set p k v) k = [v].
Proof.
  intros H. unfold p_get_all. cbn [p_items LI].
  destruct (l_set_spec p k v) as [(a & x & b & E1 & E2 & E3)|[E1 E2]].
  - rewrite E3. rewrite E1, count_key_app, count_key_cons_same in H.
    assert (Ca : count_key k a = 0) by (apply count_key_none; exact E2). assert (Cb : count_key k b = 0) by lia.
    assert (Z : forall q, count_key k q = 0 -> flat_map (fun kv => if str_eqb (fst kv) k then [snd kv] else []) q = []).
    { unfold count_key. induction q as [|[n y] q IH]; [reflexivity|]. cbn [filter fst flat_map snd]. destruct (str_eqb n k); [discriminate|]. exact IH. }
    rewrite flat_map_app. cbn [flat_map fst snd]. rewrite str_eqb_refl, (Z a Ca), (Z b Cb). reflexivity.
  - rewrite E2, flat_map_app. cbn [flat_map fst snd]. rewrite str_eqb_refl.
    assert (Z : forall q, l_get q k = None -> flat_map (fun kv => if str_eqb (fst kv) k then [snd kv] else []) q = []).
    { induction q as [|[n y] q IH]; [reflexivity|]. cbn [l_get flat_map fst snd]. destruct (str_eqb n k); [discriminate|]. exact IH. }
    rewrite (Z p E1). reflexivity.
Qed.
Theorem dep3_set_vendor_bug_spec p vendor bug : count_key (k_Bug_dash ++ vendor) p <= 1 ->
  dep3_vendor_bugs LI (dep3_set_vendor_bug LI false p vendor bug) vendor = VList [bug] /\
  l_remove (dep3_set_vendor_bug LI false p vendor bug) (k_Bug_dash ++ vendor) = l_remove p (k_Bug_dash ++ vendor).
Proof.
  intros H. unfold dep3_set_vendor_bug. cbn [p_set LI]. rewrite dep3_vendor_bugs_get_all, get_all_l_set_single by exact H.
  split; [reflexivity|apply l_set_others].
Qed.
(* shipped (insert): a second call leaves the first value in front *)
Lemma dep3_vendor_bug_shipped_refuted :
  let p := dep3_set_vendor_bug LI true (dep3_set_vendor_bug LI true [] [68%N] [49%N]) [68%N] [50%N] in
  dep3_vendor_bugs LI p [68%N] = VList [[49%N]; [50%N]].
Proof. vm_compute. reflexivity. Qed.

(* ---- copyright Header::fix ---- *)
Lemma fix_format_idem f : fix_format (fix_format f) = fix_format f.
Proof.
  assert (Hs : forall g, ends_with_slash g = true -> ends_with_slash (l_https_colon ++ g) = true).
  { intros g. unfold ends_with_slash. rewrite rev_app_distr. destruct (rev g); [discriminate|]. cbn [app]. trivial. }
  set (f1 := if ends_with_slash f then f else f ++ [47%N]).
  assert (E1 : ends_with_slash f1 = true).
  { unfold f1. destruct (ends_with_slash f) eqn:E; [exact E|]. unfold ends_with_slash. rewrite rev_app_distr. reflexivity. }
  set (f2 := match strip_prefix l_http_colon f1 with Some rest => l_https_colon ++ rest | None => f1 end).
  assert (E2 : ends_with_slash f2 = true /\ strip_prefix l_http_colon f2 = None).
  { unfold f2. destruct (strip_prefix l_http_colon f1) as [rest|] eqn:E.
    - apply strip_prefix_some in E. split; [|reflexivity]. apply Hs. rewrite E in E1. unfold ends_with_slash in *.
      rewrite rev_app_distr in E1. destruct (rev rest) as [|y w] eqn:Er; [|exact E1].
      assert (rest = []) by (rewrite <- (rev_involutive rest), Er; reflexivity). subst rest. cbn in E1. discriminate.
    - split; [exact E1|exact E]. }
  destruct E2 as [E2 E3].
  assert (Ef : fix_format f = if str_eqb f2 l_current_format then l_current_format else f2) by reflexivity.
  rewrite Ef. destruct (str_eqb f2 l_current_format) eqn:E4.
  - vm_compute. reflexivity.
  - unfold fix_format. rewrite E2, E3, E4. reflexivity.
Qed.

Theorem header_fix_format p f : l_get p k_Format_Specification = None -> l_get p k_Format = Some f ->
  header_fix LI p = l_set p k_Format (fix_format f) /\
  l_get (header_fix LI p) k_Format = Some (fix_format f) /\
  header_fix LI (header_fix LI p) = header_fix LI p.
Proof.
  intros H1 H2.
  assert (E : header_fix LI p = l_set p k_Format (fix_format f)).
  { unfold header_fix, p_contains. cbn [p_get p_set LI]. rewrite H1, H2. reflexivity. }
  split; [exact E|]. split; [rewrite E; apply l_get_set_same|].
  rewrite E. unfold header_fix at 1, p_contains. cbn [p_get p_set LI].
  rewrite (l_get_set_other p k_Format _ k_Format_Specification eq_refl), H1, l_get_set_same, fix_format_idem.
  (* setting the same value again *)
  destruct (l_set_spec p k_Format (fix_format f)) as [(a & x & b & F1 & F2 & F3)|[F1 _]]; [|congruence].
  rewrite F3. destruct (l_set_spec (a ++ (k_Format, fix_format f) :: b) k_Format (fix_format f)) as [(a' & x' & b' & G1 & G2 & G3)|[G1 _]].
  - rewrite G3. destruct (first_occ_unique _ _ _ _ _ _ _ G1 F2 G2) as (-> & _ & ->). reflexivity.
  - rewrite l_get_app, F2 in G1. cbn [l_get] in G1. rewrite str_eqb_refl in G1. discriminate.
Qed.

(* the old field name is renamed in place *)
Theorem header_fix_old_name a f b : l_get a k_Format_Specification = None -> l_get a k_Format = None ->
  l_get b k_Format = None ->
  header_fix LI (a ++ (k_Format_Specification, f) :: b) = a ++ (k_Format, fix_format f) :: b.
Proof.
  intros Ha1 Ha2 Hb. unfold header_fix, p_contains. cbn [p_get p_set p_rename LI].
  rewrite l_get_app, Ha1. cbn [l_get]. rewrite str_eqb_refl.
  assert (R : l_rename1 (a ++ (k_Format_Specification, f) :: b) k_Format_Specification k_Format = a ++ (k_Format, f) :: b).
  { clear Ha2 Hb. induction a as [|[n x] a IH]; [cbn [app l_rename1]; rewrite str_eqb_refl; reflexivity|].
    cbn [l_get] in Ha1. cbn [app l_rename1]. destruct (str_eqb n k_Format_Specification); [discriminate|]. rewrite (IH Ha1). reflexivity. }
  rewrite R, l_get_app, Ha2. cbn [l_get]. rewrite str_eqb_refl.
  destruct (l_set_spec (a ++ (k_Format, f) :: b) k_Format (fix_format f)) as [(a' & x' & b' & G1 & G2 & G3)|[G1 _]].
  - rewrite G3. destruct (first_occ_unique _ _ _ _ _ _ _ G1 Ha2 G2) as (-> & _ & ->). reflexivity.
  - rewrite l_get_app, Ha2 in G1. cbn [l_get] in G1. rewrite str_eqb_refl in G1. discriminate.
Qed.

(* ---- Source::vcs ---- *)
Definition is_vcs_kind_field (n : str) : bool :=
  match strip_prefix k_Vcs_dash n with Some _ => negb (str_eqb n k_Vcs_Browser) | None => false end.

Theorem vcs_first_field sh a n v b : forallb (fun kv => negb (is_vcs_kind_field (fst kv))) a = true ->
  is_vcs_kind_field n = true ->
  vcs_of_items sh (a ++ (n, v) :: b) =
  match strip_prefix k_Vcs_dash n with
  | Some x => match vcs_from_field (if sh then n else x) v with Some val => VSome val | None => VNone end
  | None => VNone
  end.
Proof.
  intros Ha Hn. induction a as [|[m y] a IH].
  - cbn [app vcs_of_items]. unfold is_vcs_kind_field in Hn. destruct (strip_prefix k_Vcs_dash n); [|discriminate].
    apply negb_true_iff in Hn. rewrite Hn. reflexivity.
  - cbn [forallb fst] in Ha. apply andb_true_iff in Ha. destruct Ha as [Hm Ha]. cbn [app vcs_of_items].
    apply negb_true_iff in Hm. unfold is_vcs_kind_field in Hm. destruct (strip_prefix k_Vcs_dash m).
    + apply negb_false_iff in Hm. rewrite Hm. apply IH. exact Ha.
    + apply IH. exact Ha.
Qed.
Theorem vcs_none its : forallb (fun kv => negb (is_vcs_kind_field (fst kv))) its = true -> forall sh, vcs_of_items sh its = VNone.
Proof.
  intros H sh. induction its as [|[m y] r IH]; [reflexivity|]. cbn [forallb fst] in H. apply andb_true_iff in H. destruct H as [Hm Hr].
  cbn [vcs_of_items]. apply negb_true_iff in Hm. unfold is_vcs_kind_field in Hm. destruct (strip_prefix k_Vcs_dash m).
  - apply negb_false_iff in Hm. rewrite Hm. apply IH. exact Hr.
  - apply IH. exact Hr.
Qed.

(* shipped: from_field is given the whole field name, which is never one of its five keywords *)
Lemma vcs_from_field_full_name n v x : strip_prefix k_Vcs_dash n = Some x -> vcs_from_field n v = None.
Proof.
  intros H. apply strip_prefix_some in H. subst n. unfold vcs_from_field.
  assert (G : forall kw, length kw < 4 -> str_eqb (k_Vcs_dash ++ x) kw = false).
  { intros kw Hl. destruct (str_eqb (k_Vcs_dash ++ x) kw) eqn:E; [|reflexivity]. apply str_eqb_eq in E.
    apply (f_equal (@length N)) in E. rewrite app_length in E. cbn in E. cbn in Hl. lia. }
  rewrite !G by (cbn; lia). reflexivity.
Qed.
Theorem vcs_shipped_never its : vcs_of_items true its = VNone.
Proof.
  induction its as [|[n v] r IH]; [reflexivity|]. cbn [vcs_of_items]. destruct (strip_prefix k_Vcs_dash n) as [x|] eqn:E; [|exact IH].
  destruct (str_eqb n k_Vcs_Browser); [exact IH|]. rewrite (vcs_from_field_full_name n v x E). reflexivity.
Qed.

(* ================================================================== 7. Control::source / binaries *)
Lemma has_field_items k p : has_field k p = spec_contains (items p) k.
Proof. unfold has_field. apply contains_key_items. Qed.

Lemma find_index_map {A B} (f : A -> B) (q : B -> bool) l i : find_index (fun x => q (f x)) l i = find_index q (map f l) i.
Proof. revert i. induction l as [|x r IH]; intros i; [reflexivity|]. cbn [find_index map]. destruct (q (f x)); [reflexivity|apply IH]. Qed.
Lemma filter_index_map {A B} (f : A -> B) (q : B -> bool) l i : filter_index (fun x => q (f x)) l i = filter_index q (map f l) i.
Proof. revert i. induction l as [|x r IH]; intros i; [reflexivity|]. cbn [filter_index map]. rewrite IH. reflexivity. Qed.

Theorem control_select_items t :
  control_source t = find_index (fun its => spec_contains its k_Source) (doc_items t) 0 /\
  control_binaries t = filter_index (fun its => spec_contains its k_Package) (doc_items t) 0.
Proof.
  unfold control_source, control_binaries, doc_items. rewrite <- find_index_map, <- filter_index_map. split.
  - assert (E : forall l i, find_index (has_field k_Source) l i = find_index (fun x => spec_contains (items x) k_Source) l i).
    { induction l as [|x r IH]; intros i; [reflexivity|]. cbn [find_index]. rewrite has_field_items, IH. reflexivity. }
    apply E.
  - assert (E : forall l i, filter_index (has_field k_Package) l i = filter_index (fun x => spec_contains (items x) k_Package) l i).
    { induction l as [|x r IH]; intros i; [reflexivity|]. cbn [filter_index]. rewrite has_field_items, IH. reflexivity. }
    apply E.
Qed.

Lemma find_index_spec {A} (q : A -> bool) l i :
  match find_index q l i with
  | Some n => exists a x b, l = a ++ x :: b /\ n = i + length a /\ q x = true /\ forallb (fun y => negb (q y)) a = true
  | None => forallb (fun y => negb (q y)) l = true
  end.
Proof.
  revert i. induction l as [|x r IH]; intros i; [reflexivity|]. cbn [find_index]. destruct (q x) eqn:E.
  - exists [], x, r. repeat split; [cbn; lia|exact E].
  - specialize (IH (S i)). destruct (find_index q r (S i)) as [n|].
    + destruct IH as (a & y & b & -> & -> & Hy & Ha). exists (x :: a), y, b. repeat split; [cbn [length]; lia|exact Hy|cbn [forallb]; rewrite E; exact Ha].
    + cbn [forallb]. rewrite E. exact IH.
Qed.
Lemma filter_index_spec {A} (q : A -> bool) l i n :
  In n (filter_index q l i) <-> exists x, nth_error l (n - i) = Some x /\ i <= n /\ q x = true.
Proof.
  revert i. induction l as [|x r IH]; intros i.
  - cbn. split; [tauto|]. intros (x & H & _). destruct (n - i); discriminate.
  - cbn [filter_index]. rewrite in_app_iff, IH. split.
    + intros [H|(y & H1 & H2 & H3)].
      * destruct (q x) eqn:E; [|contradiction]. destruct H as [<-|[]]. exists x. rewrite Nat.sub_diag. repeat split; [lia|exact E].
      * exists y. replace (n - i) with (S (n - S i)) by lia. repeat split; [exact H1|lia|exact H3].
    + intros (y & H1 & H2 & H3). destruct (Nat.eq_dec n i) as [->|Hne].
      * rewrite Nat.sub_diag in H1. cbn in H1. inversion H1; subst. left. rewrite H3. left. reflexivity.
      * right. exists y. replace (n - i) with (S (n - S i)) in H1 by lia. repeat split; [exact H1|lia|exact H3].
Qed.

(* ================================================================== 8. from the table conditions to the semantic core *)
Lemma str_list_eqb_eq a : forall b, str_list_eqb a b = true -> a = b.
Proof.
  unfold str_list_eqb. induction a as [|x a IH]; intros [|y b] H; try discriminate; [reflexivity|].
  cbn [list_eqb] in H. apply andb_true_iff in H. destruct H as [H1 H2]. apply str_eqb_eq in H1. subst. f_equal. apply IH. exact H2.
Qed.

(* a getter that passed ok_getter reads the documented field *)
Lemma ok_getter_field e g : ok_getter e g = true -> r_op g = OGet ->
  r_fields g = [s_field e] /\ reading_ok (s_reading e) (r_codec g) = true /\
  (s_exception e = true \/ title_hyphen (r_method g) = s_field e).
Proof.
  unfold ok_getter. intros H Ho. rewrite Ho in H. destruct (r_codec g); (* same shape for every codec *)
    (apply andb_true_iff in H; destruct H as [H H3]; apply andb_true_iff in H; destruct H as [H1 H2];
     split; [apply str_list_eqb_eq; exact H1|]; split; [exact H2|];
     apply orb_true_iff in H3; destruct H3 as [H3|H3]; [left; exact H3|right; apply str_eqb_eq; exact H3]).
Qed.

Theorem ok_pair_sound e g s : ok_pair e g s = true -> r_op g = OGet ->
  r_fields g = [s_field e] /\ r_fields s = [s_field e] /\ forall arg, pair_ok g s arg = true.
Proof.
  unfold ok_pair. intros H Ho. apply andb_true_iff in H. destruct H as [Hg H]. rewrite Ho in H.
  destruct (ok_getter_field e g Hg Ho) as (Fg & _ & _).
  assert (Os : (r_op s = OSet \/ r_op s = OSetOrRemove) /\
               str_list_eqb (r_fields s) [s_field e] && rt_law (r_codec g) (r_codec s) && op_ok (r_codec g) (r_op s) (r_codec s) = true).
  { destruct (r_op s); try discriminate; (split; [tauto|exact H]). }
  destruct Os as [Os H']. apply andb_true_iff in H'. destruct H' as [H' H3]. apply andb_true_iff in H'. destruct H' as [H1 H2].
  apply str_list_eqb_eq in H1. split; [exact Fg|]. split; [exact H1|].
  intros arg. unfold pair_ok, row_field. rewrite Ho, Fg, H1.
  destruct Os as [Os|Os]; rewrite Os in *; rewrite str_eqb_refl, H2, H3; reflexivity.
Qed.

Theorem ok_pair_sound_param e g s : ok_pair e g s = true -> r_op g = OGetParam ->
  forall arg, pair_ok g s arg = true.
Proof.
  unfold ok_pair. intros H Ho arg. apply andb_true_iff in H. destruct H as [Hg H]. rewrite Ho in H.
  unfold ok_getter in Hg. rewrite Ho in Hg.
  assert (Fg : r_fields g = []) by (destruct (r_codec g), (r_fields g); try discriminate; reflexivity).
  destruct (r_op s) eqn:Os; try discriminate. destruct (r_fields s) eqn:Fs; [|discriminate].
  apply andb_true_iff in H. destruct H as [H2 H3].
  unfold pair_ok, row_field. rewrite Ho, Os, Fg, Fs, str_eqb_refl, H2, H3. reflexivity.
Qed.

(* every getter row of a table that passed ok_accessors, together with the setter set_<name> of
   the same type if the table has one *)
Theorem ok_accessors_getter sp t g : ok_accessors sp t = true -> In g t -> r_role g = RGetter ->
  exists e, find_spec sp (r_ty g) (r_method g) = Some e /\
    match find_row t (r_ty g) (setter_name (r_method g)) with
    | Some s => ok_pair e g s = true
    | None => ok_getter e g = true
    end.
Proof.
  unfold ok_accessors. intros H Hg Hr. rewrite forallb_forall in H. specialize (H g Hg). unfold ok_row in H. rewrite Hr in H.
  destruct (find_spec sp (r_ty g) (r_method g)) as [e|]; [|discriminate]. exists e. split; [reflexivity|].
  destruct (find_row t (r_ty g) (setter_name (r_method g))); exact H.
Qed.

(* a Relations value is valid exactly when the strict reader accepts its text (then the text reads
   back to the same tree text: C09) *)
Lemma rel_strict_text s t : RelParse.relations_from_str s = Ok t -> text t = s.
Proof.
  intros H. unfold RelParse.relations_from_str in H. destruct (RelParseP.rparse_total s false) as (t' & n & E & Ht).
  rewrite E in H. destruct n; [|discriminate]. injection H as <-. exact Ht.
Qed.
Theorem rel_valid_iff c s : valid_typed c TRelations (VStr s) = true <-> exists t, RelParse.relations_from_str s = Ok t.
Proof.
  cbn [valid_typed vparse]. split.
  - destruct (RelParse.relations_from_str s) as [t| | |]; try discriminate. intros _. exists t. reflexivity.
  - intros (t & E). rewrite E, (rel_strict_text s t E). apply str_eqb_refl.
Qed.

(* ================================================================== 9. the printed document re-read *)
Lemma upd_nth_In {A} (g : A -> A) c n (p : A) : nth_error c n = Some p -> In (g p) (upd_nth n g c).
Proof.
  revert n. induction c as [|x r IH]; intros n H; [destruct n; discriminate|].
  destruct n as [|n']; cbn [nth_error upd_nth] in *.
  - inversion H; subst. left. reflexivity.
  - right. apply IH. exact H.
Qed.
Lemma l_set_nonempty p k v : l_set p k v <> [].
Proof.
  destruct (l_set_spec p k v) as [(a & x & b & _ & _ & E)|[_ E]]; rewrite E; intro X; apply app_eq_nil in X; destruct X; discriminate.
Qed.

(* the setter on the n-th paragraph of a live document (every parsed well-formed document and
   every document built from canonical pairs is one, C04), with a written text in C04's domain:
   the printed document re-reads without error, the re-read document holds the paragraph with the
   field set, and the getter on it returns the value *)
Theorem reread_after_set c g s arg v (d : ldocl) n p f raw :
  pair_ok g s arg = true -> valid_value c (r_codec g) (r_op s) (r_codec s) v = true ->
  row_field s arg = Some f -> encode (r_op s) (r_codec s) v = Some (Some raw) -> canon_kv f raw = true ->
  lwf d = true -> nth_error (doc_items (ltree_of d)) n = Some p ->
  let t' := on_para (ltree_of d) n (fun cs => para_set cs f raw) in
  exists t'', from_str (text t') = Ok t'' /\
    doc_items t'' = nonempty_paras (upd_nth n (fun q => l_set q f raw) (doc_items (ltree_of d))) /\
    In (l_set p f raw) (doc_items t'') /\
    getter c LI g arg (l_set p f raw) = Ok (expect (r_codec g) (r_op s) (r_codec s) v).
Proof.
  intros Hp Hv Fs He Hc Hwf Hn t'.
  destruct (LiveDocP.C04_history_all [LiveDocP.OSet n f raw] d Hwf) as (_ & _ & E3 & t'' & E4 & E5); [cbn; split; [exact Hc|exact I]|].
  cbn [fold_left LiveDocP.tstep LiveDocP.sstep] in *. exists t''. split; [exact E4|]. rewrite E5, E3. split; [reflexivity|]. split.
  - unfold nonempty_paras. apply filter_In. split; [apply (upd_nth_In (fun q => l_set q f raw)); exact Hn|].
    pose proof (l_set_nonempty p f raw). destruct (l_set p f raw); [congruence|reflexivity].
  - destruct (pair_list c g s arg v p Hp Hv) as (f0 & p' & raw0 & Fg & Fs0 & E1 & _ & E2 & E6 & _).
    rewrite Fs in Fs0. inversion Fs0; subst f0. rewrite He in E1. inversion E1; subst raw0. subst p'. exact E6.
Qed.

(* a clearing setter: always re-reads *)
Theorem reread_after_clear (d : ldocl) n f : lwf d = true ->
  let t' := on_para (ltree_of d) n (fun cs => para_remove cs f) in
  exists t'', from_str (text t') = Ok t'' /\
    doc_items t'' = nonempty_paras (upd_nth n (fun q => l_remove q f) (doc_items (ltree_of d))).
Proof.
  intros Hwf t'. destruct (LiveDocP.C04_history_all [LiveDocP.ORemove n f] d Hwf) as (_ & _ & E3 & t'' & E4 & E5); [cbn; split; exact I|].
  cbn [fold_left LiveDocP.tstep LiveDocP.sstep] in *. exists t''. split; [exact E4|]. rewrite E5, E3. reflexivity.
Qed.

(* the tree a plain setter produces is para_set / para_remove of its field *)
Lemma setter_TI_tree c s arg v cs f raw : row_field s arg = Some f ->
  match r_op s with OSet | OSetOrRemove | OSetParam => true | _ => false end = true ->
  encode (r_op s) (r_codec s) v = Some raw ->
  setter c TI s arg v cs = match raw with Some t => Ok (para_set cs f t) | None => match r_op s with OSetParam => Err 9%N | _ => Ok (para_remove cs f) end end.
Proof.
  unfold row_field, setter. destruct (r_op s); try discriminate; destruct (r_fields s) as [|f1 [|f2 fs]]; try discriminate;
    intros E _ He; inversion E; subst; rewrite He; destruct raw; reflexivity.
Qed.

(* DEP-3 set_upstream_bug (a plain set of Bug), read through bugs() *)
Definition upstream_bugs (p : list (str * str)) : list str :=
  flat_map (fun r => match r with [AS _; AN 0%N; AS u] => [u] | _ => [] end)
           (match dep3_bugs LI p with VRecs l => l | _ => [] end).
Lemma upstream_bugs_get_all p : upstream_bugs p = p_get_all LI p k_Bug.
Proof.
  unfold upstream_bugs, dep3_bugs, p_get_all. cbn [p_items LI]. induction p as [|[n x] r IH]; [reflexivity|].
  cbn [flat_map fst snd]. rewrite flat_map_app, IH. f_equal.
  destruct (strip_prefix k_Bug_dash n) as [v|] eqn:E.
  - apply strip_prefix_some in E. subst n. reflexivity.
  - destruct (str_eqb n k_Bug); reflexivity.
Qed.
Theorem dep3_set_upstream_bug_spec p b : count_key k_Bug p <= 1 ->
  upstream_bugs (l_set p k_Bug b) = [b] /\ l_remove (l_set p k_Bug b) k_Bug = l_remove p k_Bug.
Proof. intros H. rewrite upstream_bugs_get_all, get_all_l_set_single by exact H. split; [reflexivity|apply l_set_others]. Qed.

(* a setter through a paragraph handle touches nothing outside that paragraph node *)
Theorem setter_document_frame : forall c s arg v t n,
  (exists A P B, children t = A ++ P :: B /\ is_paragraph P = true /\ length (filter is_paragraph A) = n /\
     forall cs', setter c TI s arg v (children P) = Ok cs' ->
       on_para t n (fun _ => cs') = Node ROOT (A ++ Node PARAGRAPH cs' :: B)) \/
  (length (filter is_paragraph (children t)) <= n).
Proof.
  intros c s arg v t n.
  destruct (on_para_frame t n (fun cs => cs)) as [(A & P & B & E1 & E2 & E3 & _)|[E1 _]]; [left|right; exact E1].
  exists A, P, B. split; [exact E1|]. split; [exact E2|]. split; [exact E3|]. intros cs' _.
  destruct (on_para_frame t n (fun _ => cs')) as [(A' & P' & B' & F1 & F2 & F3 & F4)|[F1 _]].
  - rewrite F4. rewrite E1 in F1.
    assert (A' = A /\ P' = P /\ B' = B).
    { clear - F1 F2 F3 E2 E3. subst n. revert A' F1 F3. induction A as [|x A IH]; intros A' F1 F3.
      - destruct A' as [|y A'']; [cbn in F1; inversion F1; repeat split|].
        cbn in F1. inversion F1; subst. cbn [filter] in F3. rewrite E2 in F3. cbn in F3. discriminate.
      - destruct A' as [|y A'']; cbn in F1; inversion F1; subst.
        + cbn [filter] in F3. rewrite F2 in F3. cbn in F3. discriminate.
        + cbn [filter] in F3. destruct (is_paragraph y); cbn [length] in F3;
            (destruct (IH A'' H1) as (-> & -> & ->); [lia|repeat split]). }
    destruct H as (-> & -> & ->). reflexivity.
  - rewrite E1, filter_app in F1. cbn [filter] in F1. rewrite E2, app_length in F1. cbn [length] in F1. lia.
Qed.

(* every plain getter of a table that passed ok_accessors reads the documented field with the
   documented reading *)
Theorem ok_accessors_plain_getter sp t g : ok_accessors sp t = true -> In g t -> r_role g = RGetter -> r_op g = OGet ->
  exists e, find_spec sp (r_ty g) (r_method g) = Some e /\
    r_fields g = [s_field e] /\ reading_ok (s_reading e) (r_codec g) = true /\
    (s_exception e = true \/ title_hyphen (r_method g) = s_field e) /\
    forall c arg cs, getter c TI g arg cs = decode c (r_codec g) (l_get (pitems cs) (s_field e)).
Proof.
  intros Hok Hg Hr Ho. destruct (ok_accessors_getter sp t g Hok Hg Hr) as (e & He & Hp).
  assert (Hgt : ok_getter e g = true).
  { destruct (find_row t (r_ty g) (setter_name (r_method g))); [|exact Hp]. unfold ok_pair in Hp. apply andb_true_iff in Hp. apply Hp. }
  destruct (ok_getter_field e g Hgt Ho) as (F & Rd & Nm). exists e. split; [exact He|]. split; [exact F|]. split; [exact Rd|]. split; [exact Nm|].
  intros c arg cs. rewrite (getter_refines TI pitems TI_refines). apply getter_LI_field; [unfold row_field; rewrite Ho, F; reflexivity|rewrite Ho; reflexivity].
Qed.

(* ================================================================== 10. audit follow-up *)
(* relationship fields are read with the tolerant reader: total, every text is given back *)
Theorem reading_relaxed c s : decode c CRelaxed (Some s) = Ok (VSome (VStr s)).
Proof.
  cbn [decode]. unfold RelParse.parse_relaxed. destruct (RelParseP.rparse_total s true) as (tr & n & E & Ht). rewrite E, Ht. reflexivity.
Qed.

(* Rules-Requires-Root: never panics; "no" = false, "yes" and "binary-targets" = true (any case), a
   keyword list = None *)
Theorem reading_root_flag c raw :
  decode c CRootFlag raw =
  Ok (match raw with
      | None => VNone
      | Some s => if str_eqb (to_lower s) l_yes || str_eqb (to_lower s) l_binary_targets then VSome (VBool true)
                  else if str_eqb (to_lower s) l_no then VSome (VBool false) else VNone
      end).
Proof. reflexivity. Qed.

(* FINDING c15-dep3-long-description-without-description: DEP-3 set_long_description on a header
   that has neither Description nor Subject makes the text the whole field, so its first line becomes
   the description.  The class is "no description field before the call". *)
Definition Known_long_description_without_description (p : list (str * str)) : Prop := desc_raw p = None.
Theorem long_description_outside_known_class c p l : ~ Known_long_description_without_description p -> both_desc p = false ->
  let p' := dep3_set_long_description LI false p l in
  decode c CRestLines (desc_raw p') = Ok (VSome (VStr l)) /\
  decode c CFirstLine (desc_raw p') = decode c CFirstLine (desc_raw p) /\
  strip [k_Description; k_Subject] p' = strip [k_Description; k_Subject] p.
Proof.
  intros Hk Hb. unfold Known_long_description_without_description in Hk. destruct (desc_raw p) as [old|] eqn:E; [|congruence].
  pose proof (dep3_set_long_description_spec c p l old E Hb) as H. cbv zeta in *. rewrite E in H. exact H.
Qed.
Lemma long_description_known_class_witness :
  let c := mk_ctx id_xparse [] in
  let p := @nil (str * str) in
  let l := [97; 10; 98]%N in                                   (* "a\nb" *)
  Known_long_description_without_description p /\
  decode c CRestLines (desc_raw (dep3_set_long_description LI false p l)) = Ok (VSome (VStr [98%N])) /\
  decode c CFirstLine (desc_raw (dep3_set_long_description LI false p l)) = Ok (VSome (VStr [97%N])).
Proof. vm_compute. repeat split. Qed.
