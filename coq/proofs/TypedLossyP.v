(* C20, part 7: the lossy reader, for ANY text.
   (R2) every value it hands out is a first line and continuation lines joined by LF, where a
        continuation line may be empty (blank / comment-only line in the text); names are valid; so a
        paragraph is lcanon_para unless one of its values ends in LF;
   (R1) the printed form of an lcanon_para paragraph reads back as the same paragraph. *)
From V.model Require Import Base Deb822Lex Deb822Parse Grammar Lossy LossySpec Derive TypedDocs.
From V.proofs Require Import BaseP Deb822LexP GrammarLexP LossyP LossyRtP DeriveP TypedCodecP TypedCanonP.

(* ------------------------------------------------------------------ (R2) *)
Definition done_lines (l1 : str) (cs : list str) : str := flat_map (fun l => l ++ [LF]) (l1 :: cs).

Lemma value_tok_canon_first t : value_tok_ok t = true -> canon_first t = true.
Proof.
  intros H. destruct (value_tok_facts _ H) as (_ & Hn & Hi). unfold canon_first. rewrite Hn. destruct t; [reflexivity|]. rewrite Hi. reflexivity.
Qed.
Lemma value_tok_lcont t : value_tok_ok t = true -> starts_hash t = false -> lcanon_cont t = true.
Proof.
  intros H Hh. destruct (value_tok_facts _ H) as (_ & Hn & Hi). unfold lcanon_cont. rewrite Hn. destruct t; [reflexivity|]. rewrite Hi. unfold starts_hash in Hh. rewrite Hh. reflexivity.
Qed.

Lemma first_line_tchk ts : forall sol v v' r, first_line ts v = Ok (v', r) -> tchk sol ts = true -> canon_first v = true ->
  canon_first v' = true /\ tchk true r = true.
Proof.
  induction ts as [|[k s] ts IH]; intros sol v v' r H Ht Hv; cbn [first_line] in H.
  - injection H as <- <-. auto.
  - destruct k; try discriminate; cbn [tchk] in Ht.
    + (* VALUE *) apply andb_true_iff in Ht. destruct Ht as [Ht Hrec]. apply andb_true_iff in Ht. destruct Ht as [Ht _].
      apply andb_true_iff in Ht. destruct Ht as [Hok _]. apply (IH sol s v' r H Hrec). apply value_tok_canon_first. exact Hok.
    + (* NEWLINE *) injection H as <- <-. auto.
Qed.

(* inside a continuation line: [cur] is what the line holds so far; once it holds a VALUE the next token is NEWLINE (or none) *)
Definition line_end (ts : list token) : Prop := match ts with [] => True | (k, _) :: _ => k = NEWLINE end.
Lemma cont_line_tchk ts : forall done c0 v' r, cont_line ts (done ++ c0) = Ok (v', r) -> tchk true ts = true ->
  lcanon_cont c0 = true -> (c0 = [] \/ line_end ts) ->
  exists cur', lcanon_cont cur' = true /\
    ((v' = done ++ cur' ++ [LF] /\ tchk true r = true) \/ (v' = done ++ cur' /\ r = []) \/ (v' = done /\ cur r = Some KEY /\ tchk true r = true)).
Proof.
  induction ts as [|[k s] ts IH]; intros done cu v' r H Ht Hc Hcur; cbn [cont_line] in H.
  - injection H as <- <-. exists cu. split; [exact Hc|]. right. left. auto.
  - pose proof Ht as Ht0. destruct k; try discriminate; cbn [tchk] in Ht.
    + (* KEY *) injection H as <- <-. destruct Hcur as [->|He]; [|cbn in He; discriminate]. exists []. split; [reflexivity|]. right. right. rewrite app_nil_r. auto.
    + (* VALUE *) destruct Hcur as [->|He]; [|cbn in He; discriminate]. rewrite app_nil_r in H.
      apply andb_true_iff in Ht. destruct Ht as [Ht Hrec]. apply andb_true_iff in Ht. destruct Ht as [Ht Hnext].
      apply andb_true_iff in Ht. destruct Ht as [Hok Hh]. cbn [negb orb] in Hh. apply negb_true_iff in Hh.
      apply (IH done s v' r H Hrec (value_tok_lcont _ Hok Hh)). right. destruct ts as [|[k2 s2] ts2]; [exact I|]. cbn. destruct k2; try discriminate. reflexivity.
    + (* NEWLINE *) injection H as <- <-. exists cu. split; [exact Hc|]. left. rewrite <- app_assoc. auto.
    + (* COMMENT *) destruct Hcur as [->|He]; [|cbn in He; discriminate]. apply (IH done [] v' r H Ht eq_refl). left. reflexivity.
Qed.

(* the while loop over continuation lines; [done] = complete lines, each followed by LF *)
Lemma done_lines_snoc l1 cs c : done_lines l1 cs ++ c ++ [LF] = done_lines l1 (cs ++ [c]).
Proof. unfold done_lines. change (l1 :: cs ++ [c]) with ((l1 :: cs) ++ [c]). rewrite flat_map_app. cbn [flat_map]. rewrite app_nil_r. reflexivity. Qed.

Lemma conts_tchk fuel : forall ts l1 cs v' r, conts fuel ts (done_lines l1 cs) = Ok (v', r) -> tchk true ts = true ->
  forallb lcanon_cont cs = true ->
  exists cs' cur', forallb lcanon_cont cs' = true /\ lcanon_cont cur' = true /\ (v' = done_lines l1 cs' \/ v' = done_lines l1 cs' ++ cur') /\
    exists sol, tchk sol r = true.
Proof.
  induction fuel as [|f IH]; intros ts l1 cs v' r H Ht Hcs.
  - destruct ts as [|[k s] ts']; [cbn [conts] in H; injection H as <- <-; exists cs, []; repeat split; auto; exists true; reflexivity|].
    destruct k; cbn [conts] in H; try discriminate; injection H as <- <-; exists cs, []; repeat split; auto; exists true; exact Ht.
  - destruct ts as [|[k s] ts']; [cbn [conts] in H; injection H as <- <-; exists cs, []; repeat split; auto; exists true; reflexivity|].
    destruct (kind_eqb k INDENT) eqn:Ek.
    + assert (k = INDENT) by (destruct k; try discriminate; reflexivity). subst k. cbn [tchk] in Ht. cbn [conts] in H.
      destruct (cont_line ts' (done_lines l1 cs)) as [[v1 r1]| | |] eqn:Ec; try discriminate.
      rewrite <- (app_nil_r (done_lines l1 cs)) in Ec.
      destruct (cont_line_tchk _ _ _ _ _ Ec Ht eq_refl (or_introl eq_refl)) as (cur' & Hc' & [[-> Ht1]|[[-> ->]|(-> & Hkey & Ht1)]]).
      * rewrite done_lines_snoc in H. apply (IH _ _ _ _ _ H Ht1). rewrite forallb_app. cbn [forallb]. rewrite Hcs, Hc'. reflexivity.
      * destruct f; cbn [conts] in H; injection H as <- <-; exists cs, cur'; repeat split; auto; exists true; reflexivity.
      * destruct r1 as [|[k2 s2] ts2]; [discriminate|]. cbn in Hkey. injection Hkey as ->.
        destruct f; cbn [conts] in H; injection H as <- <-; exists cs, []; repeat split; auto; exists true; exact Ht1.
    + assert (Hres : Ok (done_lines l1 cs, (k, s) :: ts') = Ok (v', r)) by (destruct k; try discriminate; cbn [conts] in H; exact H).
      injection Hres as <- <-. exists cs, []. repeat split; auto. exists true. exact Ht.
Qed.

(* the value a field gets *)
Definition lvalue (v : str) : Prop := exists l1 cs, v = join [LF] (l1 :: cs) /\ canon_first l1 = true /\ forallb lcanon_cont cs = true.

Lemma done_lines_join l1 cs : done_lines l1 cs = join [LF] (l1 :: cs) ++ [LF].
Proof.
  unfold done_lines. revert l1. induction cs as [|c r IH]; intros l1; [cbn; rewrite app_nil_r; reflexivity|].
  change (flat_map (fun l => l ++ [LF]) (l1 :: c :: r)) with ((l1 ++ [LF]) ++ flat_map (fun l => l ++ [LF]) (c :: r)).
  rewrite IH, (join_cons2 [LF] l1 (c :: r)) by discriminate. rewrite <- !app_assoc. reflexivity.
Qed.
Lemma lcont_no_eol c : lcanon_cont c = true -> no_eol c = true.
Proof. unfold lcanon_cont. intros H. apply andb_true_iff in H. apply H. Qed.

Lemma strip_nl_done l1 cs : strip_nl (done_lines l1 cs) = join [LF] (l1 :: cs).
Proof. rewrite done_lines_join. apply strip_nl_snoc. Qed.
Lemma join_snoc (ls : list str) c : ls <> [] -> join [LF] (ls ++ [c]) = join [LF] ls ++ [LF] ++ c.
Proof.
  induction ls as [|a r IH]; [congruence|]. intros _. destruct r as [|b r'].
  - reflexivity.
  - change ((a :: b :: r') ++ [c]) with (a :: ((b :: r') ++ [c])). rewrite join_cons2 by (destruct r'; discriminate).
    rewrite IH by discriminate. rewrite (join_cons2 [LF] a (b :: r')) by discriminate. rewrite <- !app_assoc. reflexivity.
Qed.
Lemma strip_nl_partial l1 cs cu : lcanon_cont cu = true -> cu <> [] -> strip_nl (done_lines l1 cs ++ cu) = join [LF] (l1 :: cs ++ [cu]).
Proof.
  intros Hc Hne. rewrite strip_nl_keep.
  - rewrite done_lines_join. change (l1 :: cs ++ [cu]) with ((l1 :: cs) ++ [cu]). rewrite join_snoc by discriminate. rewrite <- app_assoc. reflexivity.
  - rewrite rev_app_distr. destruct (rev cu) as [|c r] eqn:Er; [apply (f_equal (@rev N)) in Er; rewrite rev_involutive in Er; cbn in Er; congruence|].
    cbn [app]. eapply no_eol_last; [apply lcont_no_eol; exact Hc|exact Er].
Qed.

Lemma read_field_lvalue name ts fld r : read_field name ts = Ok (fld, r) -> tchk false ts = true ->
  fst fld = name /\ lvalue (snd fld) /\ exists sol, tchk sol r = true.
Proof.
  unfold read_field. destruct ts as [|[k s] ts']; [discriminate|]. destruct k; try discriminate. cbn [tchk]. intros H Ht.
  assert (Hsk : tchk false (skip_ws_tokens ts') = true).
  { clear H. induction ts' as [|[k2 s2] r2 IH]; [reflexivity|]. cbn [skip_ws_tokens]. destruct k2; try exact Ht. cbn [tchk] in Ht. apply IH. exact Ht. }
  destruct (first_line (skip_ws_tokens ts') []) as [[v r1]| | |] eqn:Ef; try discriminate.
  destruct (first_line_tchk _ _ _ _ _ Ef Hsk eq_refl) as [Hv Ht1].
  destruct (conts (length r1) r1 (v ++ [10%N])) as [[v' r2]| | |] eqn:Ec; try discriminate. injection H as <- <-. cbn [fst snd].
  split; [reflexivity|]. assert (Hd : v ++ [10%N] = done_lines v []) by (unfold done_lines; cbn [flat_map]; rewrite app_nil_r; reflexivity).
  rewrite Hd in Ec.
  destruct (conts_tchk _ _ _ _ _ _ Ec Ht1 eq_refl) as (cs' & cur' & Hcs & Hcur & Hv' & Hsol). split; [|exact Hsol].
  destruct Hv' as [->| ->].
  - rewrite strip_nl_done. exists v, cs'. auto.
  - destruct cur' as [|c0 cu] eqn:Ecu.
    + rewrite app_nil_r, strip_nl_done. exists v, cs'. auto.
    + rewrite strip_nl_partial by (exact Hcur || discriminate). exists v, (cs' ++ [c0 :: cu]). split; [reflexivity|]. split; [exact Hv|].
      rewrite forallb_app. cbn [forallb]. rewrite Hcs, Hcur. reflexivity.
Qed.

Definition para_l (p : lpara) : Prop := Forall (fun kv => valid_name (fst kv) = true /\ lvalue (snd kv)) p.

Lemma drop_line_tchk ts : forall sol, tchk sol ts = true -> exists sol', tchk sol' (drop_line ts) = true.
Proof.
  induction ts as [|[k s] ts IH]; intros sol Ht; [exists true; reflexivity|]. cbn [drop_line].
  destruct k; cbn [tchk] in Ht; try (eapply IH; exact Ht); try (exists true; exact Ht).
  - apply andb_true_iff in Ht. destruct Ht as [_ Ht]. eapply IH; exact Ht.
  - apply andb_true_iff in Ht. destruct Ht as [_ Ht]. eapply IH; exact Ht.
Qed.

Lemma read_go_lvalue fuel : forall ts sol cur ps d, read_go fuel ts cur ps = Ok d -> tchk sol ts = true ->
  para_l cur -> Forall para_l ps -> Forall para_l d.
Proof.
  induction fuel as [|f IH]; intros ts sol cu ps d H Ht Hc Hps.
  - destruct ts as [|[k s] r]; cbn [read_go] in H; [|discriminate]. injection H as <-. unfold push_para. destruct cu; [exact Hps|].
    apply Forall_app. split; [exact Hps|]. constructor; [exact Hc|constructor].
  - destruct ts as [|[k s] r]; cbn [read_go] in H.
    + injection H as <-. unfold push_para. destruct cu; [exact Hps|]. apply Forall_app. split; [exact Hps|]. constructor; [exact Hc|constructor].
    + destruct k; try discriminate; cbn [tchk] in Ht.
      * (* KEY *) apply andb_true_iff in Ht. destruct Ht as [Hname Ht].
        destruct (read_field s r) as [[fld r']| | |] eqn:Ef; try discriminate.
        destruct (read_field_lvalue _ _ _ _ Ef Ht) as (Hn & Hl & sol' & Ht').
        apply (IH _ _ _ _ _ H Ht'); [|exact Hps]. apply Forall_app. split; [exact Hc|]. constructor; [|constructor]. rewrite Hn. auto.
      * (* NEWLINE *) apply (IH _ _ _ _ _ H Ht); [constructor|]. unfold push_para. destruct cu; [exact Hps|].
        apply Forall_app. split; [exact Hps|]. constructor; [exact Hc|constructor].
      * (* WHITESPACE *) apply (IH _ _ _ _ _ H Ht Hc Hps).
      * (* COMMENT *) destruct (drop_line_tchk _ _ Ht) as (sol' & Ht'). apply (IH _ _ _ _ _ H Ht' Hc Hps).
Qed.

Theorem lossy_read_lvalues s d : lossy_from_str s = Ok d -> Forall para_l d.
Proof.
  unfold lossy_from_str. destruct (lex s) as [ts| | |] eqn:El; try discriminate. unfold read_tokens. intros H.
  apply (read_go_lvalue _ _ _ _ _ _ H (lex_tchk _ _ El)); constructor.
Qed.

(* a value of that shape is lcanon unless it ends in LF *)
Lemma lvalue_lcanon v : lvalue v -> ends_lf v = false -> lcanon_value v = true.
Proof.
  intros (l1 & cs & -> & H1 & Hcs) He. unfold lcanon_value.
  assert (Hnl : forallb no_lf (l1 :: cs) = true).
  { cbn [forallb]. unfold canon_first in H1. apply andb_true_iff in H1. destruct H1 as [H1 _]. rewrite (no_eol_no_lf _ H1). cbn [andb].
    apply forallb_forall. intros c Hc. rewrite forallb_forall in Hcs. apply no_eol_no_lf, lcont_no_eol, Hcs, Hc. }
  rewrite split_lf_join_nolf by (discriminate || exact Hnl). rewrite H1, Hcs. cbn [andb]. unfold last_nonempty.
  destruct (rev cs) as [|c r] eqn:Er; [reflexivity|]. destruct c; [|reflexivity]. exfalso.
  apply (f_equal (@rev str)) in Er. rewrite rev_involutive in Er. cbn [rev] in Er. subst cs.
  assert (Hend : join [LF] (l1 :: rev r ++ [[]]) = join [LF] (l1 :: rev r) ++ [LF]).
  { change (l1 :: rev r ++ [[]]) with ((l1 :: rev r) ++ [[]]). rewrite join_snoc by discriminate. reflexivity. }
  rewrite Hend in He. unfold ends_lf in He. rewrite rev_app_distr in He. cbn in He. discriminate.
Qed.

Theorem lossy_paragraph_lcanon s p : lossy_paragraph_from_str s = Ok p ->
  existsb (fun kv => ends_lf (snd kv)) p = false -> lcanon_para p = true.
Proof.
  unfold lossy_paragraph_from_str. destruct (lossy_from_str s) as [d| | |] eqn:Ed; try discriminate.
  destruct d as [|q [|q2 r]]; try discriminate. intros H. injection H as <-. intros He.
  pose proof (lossy_read_lvalues _ _ Ed) as Hl. inversion Hl as [|? ? Hq _]; subst.
  unfold lcanon_para.
  assert (Hne : q <> []).
  { (* a paragraph the reader pushes is never empty *) intros ->. clear -Ed. unfold lossy_from_str in Ed. destruct (lex s) as [ts| | |]; try discriminate.
    unfold read_tokens in Ed. revert Ed. generalize (length ts) as fuel. intros fuel.
    assert (Hgen : forall fuel ts cur ps d, read_go fuel ts cur ps = Ok d -> ~ In [] ps -> ~ In [] d).
    { induction fuel0 as [|f IH]; intros ts0 cu ps d H Hps.
      - destruct ts0 as [|[k s0] r]; cbn [read_go] in H; [|discriminate]. injection H as <-. unfold push_para. destruct cu; [exact Hps|].
        intros Hin. apply in_app_or in Hin. destruct Hin as [Hin|[Hin|[]]]; [exact (Hps Hin)|discriminate].
      - destruct ts0 as [|[k s0] r]; cbn [read_go] in H.
        + injection H as <-. unfold push_para. destruct cu; [exact Hps|]. intros Hin. apply in_app_or in Hin. destruct Hin as [Hin|[Hin|[]]]; [exact (Hps Hin)|discriminate].
        + destruct k; try discriminate.
          * destruct (read_field s0 r) as [[fld r']| | |]; try discriminate. apply (IH _ _ _ _ H Hps).
          * apply (IH _ _ _ _ H). unfold push_para. destruct cu; [exact Hps|]. intros Hin. apply in_app_or in Hin. destruct Hin as [Hin|[Hin|[]]]; [exact (Hps Hin)|discriminate].
          * apply (IH _ _ _ _ H Hps).
          * apply (IH _ _ _ _ H Hps). }
    intros Ed. apply (Hgen _ _ _ _ _ Ed); [intros []|left; reflexivity]. }
  destruct q as [|f0 q']; [congruence|]. apply forallb_forall. intros kv Hkv. unfold para_l in Hq. rewrite Forall_forall in Hq. destruct (Hq kv Hkv) as [Hn Hv].
  unfold lcanon_field. rewrite Hn. cbn [andb]. apply lvalue_lcanon; [exact Hv|].
  destruct (ends_lf (snd kv)) eqn:Ee; [|reflexivity]. assert (Hx : existsb (fun kv => ends_lf (snd kv)) (f0 :: q') = true) by (apply existsb_exists; exists kv; auto). congruence.
Qed.

(* ------------------------------------------------------------------ (R1) *)
Definition cont_text' (c : str) : str := 32%N :: c ++ [LF].
Definition cont_toks' (c : str) : list token := (INDENT, [32%N]) :: opt_tok VALUE c ++ [(NEWLINE, [LF])].
Definition field_text' (n l1 : str) (rest : list str) : str := n ++ [58%N; 32%N] ++ l1 ++ [LF] ++ flat_map cont_text' rest.
Definition field_toks' (n l1 : str) (rest : list str) : list token :=
  (KEY, n) :: (COLON, [58%N]) :: (WHITESPACE, [32%N]) :: opt_tok VALUE l1 ++ (NEWLINE, [LF]) :: flat_map cont_toks' rest.

(* the printed field *)
Lemma lcanon_lines v l1 rest : split_lf v = l1 :: rest -> canon_first l1 = true -> forallb lcanon_cont rest = true ->
  last_nonempty rest = true -> v <> [] -> lines v = l1 :: rest.
Proof.
  intros Es H1 Hr Hl Hne. pose proof (join_split_lf v) as Hj. rewrite Es in Hj. rewrite <- Hj. apply lines_join.
  - cbn [forallb]. unfold canon_first in H1. apply andb_true_iff in H1. destruct H1 as [H1 _]. rewrite H1. cbn [andb].
    apply forallb_forall. intros c Hc. rewrite forallb_forall in Hr. apply lcont_no_eol, Hr, Hc.
  - destruct rest as [|c r]; [cbn [last]; cbn [join] in Hj; congruence|]. change (last (l1 :: c :: r) [1%N]) with (last (c :: r) [1%N]).
    unfold last_nonempty in Hl.
    destruct (rev (c :: r)) as [|z zs] eqn:Er; [apply (f_equal (@rev str)) in Er; rewrite rev_involutive in Er; discriminate|].
    assert (Hlast : last (c :: r) [1%N] = z).
    { apply (f_equal (@rev str)) in Er. rewrite rev_involutive in Er. cbn [rev] in Er. rewrite Er. apply last_last. }
    rewrite Hlast. destruct z; [discriminate|discriminate].
Qed.

Lemma print_field_lcanon n v l1 rest : split_lf v = l1 :: rest -> canon_first l1 = true -> forallb lcanon_cont rest = true ->
  last_nonempty rest = true -> print_field (n, v) = field_text' n l1 rest.
Proof.
  intros Es H1 Hr Hl. unfold print_field, field_text'. destruct v as [|ch v'] eqn:Ev.
  - cbn in Es. injection Es as <- <-. reflexivity.
  - rewrite <- Ev in *. rewrite (lcanon_lines v l1 rest Es H1 Hr Hl) by (rewrite Ev; discriminate).
    pose proof (join_split_lf v) as Hj. rewrite Es in Hj. destruct rest as [|c r].
    + cbn [length Nat.ltb Nat.leb flat_map]. cbn [join] in Hj. subst l1. rewrite app_nil_r. reflexivity.
    + cbn [length]. change (Nat.ltb 1 (S (S (length r)))) with true. cbv iota. cbn [flat_map]. unfold cont_text'. cbn [app].
      rewrite <- !app_assoc. reflexivity.
Qed.

(* lexing a printed field *)
Lemma cont_text_cons c r tail : flat_map cont_text' (c :: r) ++ tail = [32%N] ++ (c ++ (LF :: (flat_map cont_text' r ++ tail))).
Proof. cbn [flat_map]. unfold cont_text' at 1. cbn [app]. rewrite <- !app_assoc. reflexivity. Qed.
Lemma cont_toks_cons c r ts : flat_map cont_toks' (c :: r) ++ ts = (INDENT, [32%N]) :: (opt_tok VALUE c ++ ((NEWLINE, [LF]) :: (flat_map cont_toks' r ++ ts))).
Proof. cbn [flat_map]. unfold cont_toks' at 1. cbn [app]. rewrite <- !app_assoc. reflexivity. Qed.

Lemma lexf_conts' rest : forall tail ts, forallb lcanon_cont rest = true -> lexf st_init tail = Ok ts ->
  lexf st_init (flat_map cont_text' rest ++ tail) = Ok (flat_map cont_toks' rest ++ ts).
Proof.
  induction rest as [|c r IH]; intros tail ts Hr Ht; [exact Ht|]. cbn [forallb] in Hr. apply andb_true_iff in Hr. destruct Hr as [Hc Hr].
  rewrite cont_text_cons, cont_toks_cons.
  unfold lcanon_cont in Hc. apply andb_true_iff in Hc. destruct Hc as [Hn Hh].
  apply lexf_indent; [discriminate|reflexivity| |].
  - destruct c as [|x c']; [cbn; reflexivity|]. cbn [app]. cbn. apply andb_true_iff in Hh. destruct Hh as [Hh _]. apply negb_true_iff in Hh. exact Hh.
  - apply lexf_value; [right; reflexivity|exact Hn| |cbn; reflexivity|].
    + destruct c as [|x c']; [exact I|]. apply andb_true_iff in Hh. destruct Hh as [H1 H2]. apply negb_true_iff in H1. apply negb_true_iff in H2. split; [exact H1|intros _; exact H2].
    + apply lexf_lf; [tauto|]. apply IH; assumption.
Qed.

Lemma field_text_shape n l1 rest tail : field_text' n l1 rest ++ tail = n ++ (58%N :: ([32%N] ++ (l1 ++ (LF :: (flat_map cont_text' rest ++ tail))))).
Proof. unfold field_text'. rewrite <- !app_assoc. reflexivity. Qed.
Lemma field_toks_shape n l1 rest ts : field_toks' n l1 rest ++ ts =
  (KEY, n) :: (COLON, [58%N]) :: (opt_tok WHITESPACE [32%N] ++ (opt_tok VALUE l1 ++ ((NEWLINE, [LF]) :: (flat_map cont_toks' rest ++ ts)))).
Proof. unfold field_toks'. cbn [app opt_tok]. rewrite <- !app_assoc. reflexivity. Qed.

Lemma lexf_field' n l1 rest tail ts : valid_name n = true -> canon_first l1 = true -> forallb lcanon_cont rest = true ->
  lexf st_init tail = Ok ts -> lexf st_init (field_text' n l1 rest ++ tail) = Ok (field_toks' n l1 rest ++ ts).
Proof.
  intros Hn H1 Hr Ht. rewrite field_text_shape, field_toks_shape.
  apply lexf_key; [exact Hn|cbn; reflexivity|]. apply lexf_colon.
  unfold canon_first in H1. apply andb_true_iff in H1. destruct H1 as [H1n H1i].
  apply lexf_ws; [reflexivity| |].
  - destruct l1 as [|x l']; [cbn; reflexivity|]. cbn [app]. cbn. apply negb_true_iff in H1i. exact H1i.
  - apply lexf_value; [left; reflexivity|exact H1n| |cbn; reflexivity|].
    + destruct l1 as [|x l']; [exact I|]. apply negb_true_iff in H1i. split; [exact H1i|discriminate].
    + apply lexf_lf; [tauto|]. apply lexf_conts'; assumption.
Qed.

(* reading the tokens of a printed field *)
Lemma first_line_opt l1 r : first_line (opt_tok VALUE l1 ++ (NEWLINE, [LF]) :: r) [] = Ok (l1, r).
Proof. destruct l1; reflexivity. Qed.

Lemma conts_toks' rest : forall fuel acc X, length rest <= fuel -> cur X <> Some INDENT ->
  conts fuel (flat_map cont_toks' rest ++ X) acc = Ok (acc ++ flat_map (fun c => c ++ [LF]) rest, X).
Proof.
  induction rest as [|c r IH]; intros fuel acc X Hf HX.
  - cbn [flat_map app]. rewrite app_nil_r. destruct X as [|[k s] X']; [destruct fuel; reflexivity|].
    destruct k; try (destruct fuel; reflexivity). cbn in HX. congruence.
  - destruct fuel as [|f]; [cbn in Hf; lia|]. rewrite cont_toks_cons. cbn [conts].
    assert (Hcl : cont_line (opt_tok VALUE c ++ (NEWLINE, [LF]) :: (flat_map cont_toks' r ++ X)) acc = Ok ((acc ++ c) ++ [LF], flat_map cont_toks' r ++ X)).
    { destruct c as [|x c']; cbn [opt_tok app cont_line]; [rewrite app_nil_r|]; reflexivity. }
    rewrite Hcl. rewrite (IH f _ X) by (cbn in Hf; lia || exact HX). cbn [flat_map]. rewrite <- !app_assoc. reflexivity.
Qed.

Lemma conts_toks_len rest X : length rest <= length (flat_map cont_toks' rest ++ X).
Proof. induction rest as [|c r IH]; [cbn; lia|]. rewrite cont_toks_cons. cbn [length]. rewrite app_length. cbn [length]. lia. Qed.

Lemma read_field' n l1 rest X : cur X <> Some INDENT ->
  read_field n ((COLON, [58%N]) :: (opt_tok WHITESPACE [32%N] ++ (opt_tok VALUE l1 ++ ((NEWLINE, [LF]) :: (flat_map cont_toks' rest ++ X)))))
  = Ok ((n, join [LF] (l1 :: rest)), X).
Proof.
  intros HX. unfold read_field. cbn [opt_tok app skip_ws_tokens].
  assert (Hsk : forall Y, skip_ws_tokens (match l1 with [] => [] | _ :: _ => [(VALUE, l1)] end ++ (NEWLINE, [LF]) :: Y) = opt_tok VALUE l1 ++ (NEWLINE, [LF]) :: Y).
  { intros Y. destruct l1; reflexivity. }
  rewrite Hsk, first_line_opt. rewrite (conts_toks' rest _ (l1 ++ [10%N]) X); [|apply conts_toks_len|exact HX].
  f_equal. f_equal. f_equal. change (l1 ++ [10%N]) with (l1 ++ [LF]).
  change ((l1 ++ [LF]) ++ flat_map (fun c => c ++ [LF]) rest) with (done_lines l1 rest). apply strip_nl_done.
Qed.

Definition field_parts (f : str * str) : str * list str := match split_lf (snd f) with l1 :: rest => (l1, rest) | [] => ([], []) end.
Definition ptoks (f : str * str) : list token := field_toks' (fst f) (fst (field_parts f)) (snd (field_parts f)).

Lemma lcanon_field_parts f : lcanon_field f = true ->
  exists l1 rest, split_lf (snd f) = l1 :: rest /\ field_parts f = (l1, rest) /\ valid_name (fst f) = true /\ canon_first l1 = true /\
    forallb lcanon_cont rest = true /\ last_nonempty rest = true.
Proof.
  unfold lcanon_field, lcanon_value, field_parts. intros H. apply andb_true_iff in H. destruct H as [Hn Hv].
  destruct (split_lf (snd f)) as [|l1 rest]; [discriminate|]. apply andb_true_iff in Hv. destruct Hv as [Hv H3]. apply andb_true_iff in Hv. destruct Hv as [H1 H2].
  exists l1, rest. auto 10.
Qed.

Lemma lexf_para p : forall tail ts, forallb lcanon_field p = true -> lexf st_init tail = Ok ts ->
  lexf st_init (print_para p ++ tail) = Ok (flat_map ptoks p ++ ts).
Proof.
  induction p as [|f r IH]; intros tail ts Hp Ht; [exact Ht|]. cbn [forallb] in Hp. apply andb_true_iff in Hp. destruct Hp as [Hf Hr].
  destruct (lcanon_field_parts f Hf) as (l1 & rest & Es & Ep & Hn & H1 & H2 & H3).
  unfold print_para in *. cbn [flat_map]. destruct f as [n v]. cbn [fst snd] in *. rewrite (print_field_lcanon n v l1 rest Es H1 H2 H3).
  unfold ptoks at 1. rewrite Ep. cbn [fst snd]. rewrite <- !app_assoc. apply lexf_field'; [exact Hn|exact H1|exact H2|]. apply IH; assumption.
Qed.

Lemma readf_para p : forall cu ps, forallb lcanon_field p = true -> readf (flat_map ptoks p) cu ps = Ok (push_para (cu ++ p) ps).
Proof.
  induction p as [|f r IH]; intros cu ps Hp; [cbn [flat_map]; rewrite app_nil_r; apply readf_nil|].
  cbn [forallb] in Hp. apply andb_true_iff in Hp. destruct Hp as [Hf Hr].
  destruct (lcanon_field_parts f Hf) as (l1 & rest & Es & Ep & Hn & H1 & H2 & H3). destruct f as [n v]. cbn [fst snd] in *.
  cbn [flat_map]. unfold ptoks at 1. rewrite Ep. cbn [fst snd]. rewrite field_toks_shape.
  assert (HX : cur (flat_map ptoks r) <> Some INDENT).
  { destruct r as [|g r']; [discriminate|]. cbn [flat_map]. unfold ptoks at 1, field_toks'. cbn. discriminate. }
  rewrite (readf_key n _ cu ps (n, join [LF] (l1 :: rest)) (flat_map ptoks r) (read_field' n l1 rest _ HX)).
  rewrite (IH _ ps Hr). rewrite <- app_assoc. cbn [app]. pose proof (join_split_lf v) as Hj. rewrite Es in Hj. rewrite Hj. reflexivity.
Qed.

Theorem lossy_reread_l p : lcanon_para p = true -> lossy_paragraph_from_str (print_para p) = Ok p.
Proof.
  unfold lcanon_para. intros H. destruct p as [|f r] eqn:Ep; [discriminate|]. rewrite <- Ep in *.
  unfold lossy_paragraph_from_str, lossy_from_str. rewrite lex_is_lexf. change (lst_init true) with st_init.
  rewrite <- (app_nil_r (print_para p)). rewrite (lexf_para p [] [] H (lexf_nil _)). rewrite app_nil_r.
  unfold read_tokens. change (read_go (length (flat_map ptoks p)) (flat_map ptoks p) [] []) with (readf (flat_map ptoks p) [] []).
  rewrite (readf_para p [] [] H). cbn [app]. unfold push_para. rewrite Ep. reflexivity.
Qed.

(* ------------------------------------------------------------------ a lossy-canonical value does not end in LF *)
Lemma ends_lf_app a l : l <> [] -> ends_lf (a ++ l) = ends_lf l.
Proof.
  intros Hl. unfold ends_lf. rewrite rev_app_distr. destruct (rev l) as [|c r] eqn:Er; [|reflexivity].
  exfalso. apply Hl. rewrite <- (rev_involutive l), Er. reflexivity.
Qed.

Lemma no_eol_ends l : no_eol l = true -> ends_lf l = false.
Proof.
  intros H. unfold ends_lf. destruct (rev l) as [|c r] eqn:Er; [reflexivity|].
  assert (Hin : In c l). { apply in_rev. rewrite Er. left. reflexivity. }
  unfold no_eol in H. rewrite forallb_forall in H. specialize (H c Hin). destruct (c =? 10)%N eqn:Ec; [|reflexivity].
  apply N.eqb_eq in Ec. subst c. vm_compute in H. discriminate H.
Qed.

Lemma join_ends ls : forallb no_eol ls = true -> ends_lf (join [LF] ls) = true -> exists pre, pre <> [] /\ ls = pre ++ [[]].
Proof.
  induction ls as [|x r IH]; intros Hn He; [cbn in He; discriminate He|].
  cbn [forallb] in Hn. apply andb_true_iff in Hn. destruct Hn as [Hx Hr]. destruct r as [|y r'].
  - cbn [join] in He. rewrite (no_eol_ends x Hx) in He. discriminate.
  - change (join [LF] (x :: y :: r')) with (x ++ [LF] ++ join [LF] (y :: r')) in He.
    remember (join [LF] (y :: r')) as j eqn:Ej. destruct j as [|c w].
    + destruct r' as [|z r''].
      * cbn [join] in Ej. subst y. exists [x]. split; [discriminate|reflexivity].
      * exfalso. change (join [LF] (y :: z :: r'')) with (y ++ [LF] ++ join [LF] (z :: r'')) in Ej. destruct y; discriminate Ej.
    + rewrite app_assoc in He. rewrite ends_lf_app in He by discriminate. destruct (IH Hr He) as (pre & Hp & E). exists (x :: pre).
      split; [discriminate|]. rewrite E. reflexivity.
Qed.

Lemma lcanon_no_ends_lf v : lcanon_value v = true -> ends_lf v = false.
Proof.
  intros H. pose proof (join_split_lf v) as Hj. destruct (ends_lf v) eqn:Ee; [|reflexivity]. exfalso.
  unfold lcanon_value in H. destruct (split_lf v) as [|l1 rest] eqn:Es; [discriminate|].
  apply andb_true_iff in H. destruct H as [H Hl]. apply andb_true_iff in H. destruct H as [H1 Hr].
  assert (Hn : forallb no_eol (l1 :: rest) = true).
  { cbn [forallb]. unfold canon_first in H1. apply andb_true_iff in H1. rewrite (proj1 H1). cbn [andb]. apply forallb_forall. intros l Hl'.
    rewrite forallb_forall in Hr. specialize (Hr l Hl'). unfold lcanon_cont in Hr. apply andb_true_iff in Hr. apply Hr. }
  rewrite <- Hj in Ee. destruct (join_ends _ Hn Ee) as (pre & Hp & E). destruct pre as [|a pre']; [congruence|].
  injection E as <- Er. subst rest. unfold last_nonempty in Hl. rewrite rev_app_distr in Hl. cbn in Hl. discriminate.
Qed.

Lemma canon_fields_no_blank_last p : forallb canon_field p = true -> existsb (fun kv => ends_lf (snd kv)) p = false.
Proof.
  induction p as [|f r IH]; intros H; [reflexivity|]. cbn [forallb existsb] in *. apply andb_true_iff in H. destruct H as [Hf Hr].
  unfold canon_field in Hf. apply andb_true_iff in Hf. rewrite (lcanon_no_ends_lf _ (canon_lcanon _ (proj2 Hf))). cbn [orb]. apply IH, Hr.
Qed.

Lemma canon_para_no_blank_last p : canon_para p = true -> existsb (fun kv => ends_lf (snd kv)) p = false.
Proof. unfold canon_para. destruct p as [|f r] eqn:Ep; [discriminate|]. rewrite <- Ep. apply canon_fields_no_blank_last. Qed.
