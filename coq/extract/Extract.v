(* The single extraction command.  ExtrOcamlBasic only: bool, option, unit, prod, list,
   sumbool, sumor map to their OCaml counterparts; N, positive, nat stay inductive.
   No Extract Constant of our own. *)
Require Extraction.
Require Import ExtrOcamlBasic.
From V.model Require Import Base Deb822Lex Deb822Parse RelLex RelParse.
Extraction Language OCaml.
Extraction "model.ml"
  utf8_len text depth
  kind_code lex_ lex lex_inline
  Deb822Parse.parse from_str from_str_relaxed paragraphs items get get_all keys contains_key doc_items
  rkind_code rlex RelParse.parse parse_relaxed relations_from_str entry_from_str relation_from_str.
